(* C05: the parser model agrees with the independent RFC 7606 classifier of
   Spec/Rfc7606.v.  If [judge] says an UPDATE must be treated as withdraw, the parsed
   UPDATE carries a non-discardable error entry or lacks a mandatory attribute (so
   validate_update turns its announcements into withdrawals); and parsing fails with a
   session-reset NOTIFICATION only when [judge] says the NLRI cannot be located. *)
From Coq Require Import List NArith ZArith Bool Lia ZifyBool ZifyNat ZifyN.
From RB Require Import Base.Val Base.Bytes Model.Caps Model.Stream Model.Wire Model.WireNlri Model.WireUpdate Model.WireMsg
     Spec.Rfc7606 Model.Validate Proofs.Wire Proofs.WireNlri Proofs.WireUpdate Proofs.WireMsg Proofs.Validate.
Import ListNotations.
Open Scope N_scope.

Ltac Zify.zify_post_hook ::= Z.to_euclidean_division_equations.

(* ------------------------------------------------------------------ flag bits *)
Lemma land_pow2 x k : N.land x (2 ^ k) = if N.testbit x k then 2 ^ k else 0.
Proof.
  apply N.bits_inj. intro n. rewrite N.land_spec, N.pow2_bits_eqb.
  destruct (N.eqb_spec k n) as [->|Hn].
  - rewrite andb_true_r. destruct (N.testbit x n) eqn:E; [rewrite N.pow2_bits_true|rewrite N.bits_0]; reflexivity.
  - rewrite andb_false_r. destruct (N.testbit x k); [rewrite N.pow2_bits_false by congruence|rewrite N.bits_0]; reflexivity.
Qed.

Lemma has_flag_pow2 x k : has_flag x (2 ^ k) = N.testbit x k.
Proof.
  unfold has_flag. rewrite land_pow2. destruct (N.testbit x k); [|reflexivity].
  destruct (2 ^ k =? 0) eqn:E; [|reflexivity]. apply N.eqb_eq in E. pose proof (N.pow_nonzero 2 k). lia.
Qed.

Lemma has_flag_optional x : has_flag x FLAG_OPTIONAL = f_optional x.
Proof. exact (has_flag_pow2 x 7). Qed.
Lemma has_flag_transitive x : has_flag x FLAG_TRANSITIVE = f_transitive x.
Proof. exact (has_flag_pow2 x 6). Qed.
Lemma has_flag_extended x : has_flag x FLAG_EXTENDED = f_extended x.
Proof. exact (has_flag_pow2 x 4). Qed.

Lemma land_192 y : (N.land y 192 =? 0) = negb (N.testbit y 7) && negb (N.testbit y 6).
Proof.
  change 192 with (N.lor (2 ^ 7) (2 ^ 6)). rewrite N.land_lor_distr_r, !land_pow2.
  destruct (N.testbit y 7), (N.testbit y 6); reflexivity.
Qed.

Lemma flags_mismatch flags ef :
  negb (N.land (N.lxor flags ef) 192 =? 0) =
  negb (Bool.eqb (N.testbit flags 7) (N.testbit ef 7)) || negb (Bool.eqb (N.testbit flags 6) (N.testbit ef 6)).
Proof.
  rewrite land_192, !N.lxor_spec.
  destruct (N.testbit flags 7), (N.testbit ef 7), (N.testbit flags 6), (N.testbit ef 6); reflexivity.
Qed.

(* ------------------------------------------------ recognised = canonical_flags *)
Definition flags_of (o tr : bool) : N := (if o then 128 else 0) + (if tr then 64 else 0).

Lemma canon_recognised code :
  canonical_flags code = match recognised code with Some (o, tr) => Some (flags_of o tr) | None => None end.
Proof.
  destruct code as [|p]; [reflexivity|].
  do 7 (destruct p as [p|p|]; try reflexivity).
Qed.

Lemma flags_of_bits o tr : N.testbit (flags_of o tr) 7 = o /\ N.testbit (flags_of o tr) 6 = tr.
Proof. destruct o, tr; split; reflexivity. Qed.

Lemma flags_fatal_of o tr : flags_fatal (flags_of o tr) = negb o || tr.
Proof. destruct o, tr; reflexivity. Qed.

(* ------------------------------------------------ value syntax: decode accepts => value_ok *)
Lemma widen2_rest : forall n l o r, widen2 n l = Some (o, r) -> (2 * n <= length l)%nat /\ r = skipn (2 * n) l.
Proof.
  induction n as [|n IH]; intros l o r H; cbn [widen2] in H.
  - injection H as _ <-. split; [lia|reflexivity].
  - destruct l as [|a [|b l']]; try discriminate.
    destruct (widen2 n l') as [[o' r']|] eqn:E; [|discriminate]. injection H as _ <-.
    destruct (IH _ _ _ E) as [Hl ->]. cbn [length]. split; [lia|].
    replace (2 * S n)%nat with (S (S (2 * n))) by lia. reflexivity.
Qed.

Lemma aspath2_segments : forall fuel v o, aspath2_fuel fuel v = Some o -> segments_ok fuel 2 v = true.
Proof.
  induction fuel as [|f IH]; intros v o H.
  - destruct v; [reflexivity|discriminate].
  - destruct v as [|t [|cnt r]]; [reflexivity|discriminate|].
    cbn [aspath2_fuel] in H. cbn [segments_ok].
    destruct (negb (seg_type_ok t) || (cnt =? 0)) eqn:E1; [discriminate|].
    destruct (widen2 (nat_of cnt) r) as [[w r']|] eqn:Ew; [|discriminate].
    destruct (aspath2_fuel f r') as [o'|] eqn:Er; [|discriminate].
    destruct (widen2_rest _ _ _ _ Ew) as [Hl ->].
    apply orb_false_iff in E1. destruct E1 as [Et Ec]. apply negb_false_iff in Et.
    unfold seg_type_ok in Et. rewrite Et, Ec. cbn [negb andb].
    replace (N.to_nat (cnt * 2)) with (2 * nat_of cnt)%nat by (unfold nat_of; lia).
    destruct (Nat.ltb (length r) (2 * nat_of cnt)) eqn:El; [apply PeanoNat.Nat.ltb_lt in El; lia|].
    cbn [negb andb]. eapply IH; eassumption.
Qed.

Lemma aspath4_segments : forall fuel v, aspath4_ok_fuel fuel true v = true -> segments_ok fuel 4 v = true.
Proof.
  induction fuel as [|f IH]; intros v H.
  - destruct v; [reflexivity|discriminate].
  - destruct v as [|t [|cnt r]]; [reflexivity|discriminate|].
    cbn [aspath4_ok_fuel] in H. cbn [segments_ok].
    destruct (negb (seg_type_ok t) || (true && (cnt =? 0))) eqn:E1; [discriminate|].
    apply orb_false_iff in E1. destruct E1 as [Et Ec]. apply negb_false_iff in Et. cbn [andb] in Ec.
    unfold seg_type_ok in Et. rewrite Et, Ec. cbn [negb andb].
    unfold nat_of in H.
    destruct (Nat.ltb (length r) (N.to_nat (cnt * 4))) eqn:El; [discriminate|].
    cbn [negb andb]. apply IH. exact H.
Qed.

Lemma decode_value_ok tb code flags v a :
  attr_decode code flags v tb = Some a -> value_ok tb code v = true.
Proof.
  intro H.
  destruct (N.eq_dec code 1) as [->|N1].
  { cbn in H |- *. destruct v as [|x [|y v]]; try discriminate. destruct (2 <? x) eqn:E; [discriminate|]. lia. }
  destruct (N.eq_dec code 2) as [->|N2].
  { cbn [attr_decode] in H. cbn [value_ok]. destruct tb.
    - destruct (aspath2_fuel _ v) eqn:E; [|discriminate]. eapply aspath2_segments; eassumption.
    - destruct (aspath4_ok true v) eqn:E; [|discriminate]. apply aspath4_segments. exact E. }
  destruct (N.eq_dec code 3) as [->|N3].
  { cbn [attr_decode] in H. cbn [value_ok]. destruct (len v =? 4); [reflexivity|discriminate]. }
  assert (H4 : forall c, (c = 4 \/ c = 5 \/ c = 9) -> code = c -> value_ok tb code v = true).
  { intros c Hc ->. destruct Hc as [-> | [-> | ->]]; cbn [attr_decode] in H; cbn [value_ok];
      destruct v as [|x1 [|x2 [|x3 [|x4 [|x5 v]]]]]; try discriminate; reflexivity. }
  destruct (N.eq_dec code 4) as [E4|N4]; [apply (H4 4); [left; reflexivity|exact E4]|].
  destruct (N.eq_dec code 5) as [E5|N5]; [apply (H4 5); [right; left; reflexivity|exact E5]|].
  destruct (N.eq_dec code 9) as [E9|N9]; [apply (H4 9); [right; right; reflexivity|exact E9]|].
  destruct (N.eq_dec code 6) as [->|N6].
  { cbn [attr_decode] in H. cbn [value_ok]. destruct v; [reflexivity|discriminate]. }
  destruct (N.eq_dec code 7) as [->|N7].
  { cbn [attr_decode] in H. cbn [value_ok].
    destruct v as [|x1 [|x2 [|x3 [|x4 [|x5 [|x6 [|x7 [|x8 [|x9 v]]]]]]]]]; try discriminate; reflexivity. }
  destruct (N.eq_dec code 8) as [->|N8].
  { cbn [attr_decode] in H. cbn [value_ok]. destruct (_ && _); [reflexivity|discriminate]. }
  destruct (N.eq_dec code 10) as [->|N10].
  { cbn [attr_decode] in H. cbn [value_ok]. destruct (_ && _); [reflexivity|discriminate]. }
  destruct (N.eq_dec code 16) as [->|N16].
  { cbn [attr_decode] in H. cbn [value_ok]. destruct (_ && _); [reflexivity|discriminate]. }
  destruct (N.eq_dec code 32) as [->|N32].
  { cbn [attr_decode] in H. cbn [value_ok]. destruct (_ && _); [reflexivity|discriminate]. }
  destruct (N.eq_dec code 17) as [->|N17].
  { cbn [attr_decode] in H. cbn [value_ok].
    destruct (negb (len v mod 2 =? 0) || (len v <? 6)) eqn:E; [discriminate|].
    destruct (aspath4_ok true v) eqn:E2; [|discriminate].
    rewrite (aspath4_segments _ _ E2). cbn [andb]. apply orb_false_iff in E. lia. }
  destruct (N.eq_dec code 18) as [->|N18].
  { cbn [attr_decode] in H. cbn [value_ok]. destruct (len v =? 8); [reflexivity|discriminate]. }
  unfold value_ok. destruct code as [|p]; [reflexivity|].
  do 6 (destruct p as [p|p|]; try reflexivity; try congruence).
Qed.

(* ------------------------------------------------ the Spec's two walks as one scan *)
Fixpoint tlv_scan (fuel : nat) (b : list N) : list tlv * bool :=
  match b with
  | [] => ([], true)
  | _ =>
    match fuel with
    | O => ([], false)
    | S f =>
      match b with
      | fl :: code :: r =>
        let cut (n : N) (r' : list N) :=
          if Nat.ltb (length r') (N.to_nat n) then ([], false) else
          let '(l, ok) := tlv_scan f (skipn (N.to_nat n) r') in
          ({| t_flags := fl; t_code := code; t_val := firstn (N.to_nat n) r' |} :: l, ok) in
        if f_extended fl then
          match r with l1 :: l2 :: r' => cut (be16 l1 l2) r' | _ => ([], false) end
        else
          match r with l1 :: r' => cut l1 r' | _ => ([], false) end
      | _ => ([], false)
      end
    end
  end.

Lemma tlv_walk_scan : forall fuel b,
  tlv_walk fuel b = (if snd (tlv_scan fuel b) then Some (fst (tlv_scan fuel b)) else None).
Proof.
  induction fuel as [|f IH]; intro b.
  - destruct b; reflexivity.
  - destruct b as [|fl [|code r]]; try reflexivity.
    cbn [tlv_walk tlv_scan].
    destruct (f_extended fl).
    + destruct r as [|l1 [|l2 r']]; try reflexivity.
      destruct (Nat.ltb _ _); [reflexivity|]. rewrite IH.
      destruct (tlv_scan f _) as [l ok]. destruct ok; reflexivity.
    + destruct r as [|l1 r']; try reflexivity.
      destruct (Nat.ltb _ _); [reflexivity|]. rewrite IH.
      destruct (tlv_scan f _) as [l ok]. destruct ok; reflexivity.
Qed.

Lemma tlv_prefix_scan : forall fuel b, (length b < fuel)%nat -> tlv_prefix fuel b = fst (tlv_scan fuel b).
Proof.
  induction fuel as [|f IH]; intros b Hf; [lia|].
  destruct b as [|fl [|code r]]; try reflexivity.
  cbn [tlv_prefix tlv_scan]. cbn [length] in Hf.
  destruct (f_extended fl).
  - destruct r as [|l1 [|l2 r']]; try reflexivity.
    destruct (Nat.ltb _ _); [reflexivity|]. rewrite IH by (rewrite skipn_length; cbn [length] in Hf; lia).
    destruct (tlv_scan f _) as [l ok]. reflexivity.
  - destruct r as [|l1 r']; try reflexivity.
    destruct (Nat.ltb _ _); [reflexivity|]. rewrite IH by (rewrite skipn_length; cbn [length] in Hf; lia).
    destruct (tlv_scan f _) as [l ok]. reflexivity.
Qed.

Lemma tlv_scan_fuel : forall f1 f2 b, (length b < f1)%nat -> (length b < f2)%nat -> tlv_scan f1 b = tlv_scan f2 b.
Proof.
  induction f1 as [|f1 IH]; intros f2 b H1 H2; [lia|]. destruct f2 as [|f2]; [lia|].
  destruct b as [|fl [|code r]]; try reflexivity.
  cbn [tlv_scan]. cbn [length] in H1, H2.
  destruct (f_extended fl).
  - destruct r as [|l1 [|l2 r']]; try reflexivity. cbn [length] in H1, H2.
    destruct (Nat.ltb _ _); [reflexivity|].
    rewrite (IH f2) by (rewrite skipn_length; lia). reflexivity.
  - destruct r as [|l1 r']; try reflexivity. cbn [length] in H1, H2.
    destruct (Nat.ltb _ _); [reflexivity|].
    rewrite (IH f2) by (rewrite skipn_length; lia). reflexivity.
Qed.

(* ------------------------------------------------ the parser's walk as a fold over TLVs *)
Definition tlv_step (tb : bool) (s : ustate) (t : tlv) : option ustate :=
  match attr_one tb s (t_flags t) (t_code t) (t_val t) (len (t_val t)) with
  | Ok s' => Some s'
  | _ => None
  end.

Fixpoint tlv_fold (tb : bool) (s : ustate) (l : list tlv) : option ustate :=
  match l with
  | [] => Some s
  | t :: r => match tlv_step tb s t with None => None | Some s' => tlv_fold tb s' r end
  end.

(* attr_one only looks at the first alen bytes of the cursor *)
Lemma attr_one_value tb s flags code c alen :
  (nat_of alen <= length c)%nat ->
  attr_one tb s flags code c alen =
  attr_one tb s flags code (firstn (nat_of alen) c) (len (firstn (nat_of alen) c)).
Proof.
  intro H. unfold attr_one.
  assert (Hl : len (firstn (nat_of alen) c) = alen) by (rewrite len_firstn; unfold len, nat_of in *; lia).
  rewrite Hl.
  assert (Hf : firstn (nat_of alen) (firstn (nat_of alen) c) = firstn (nat_of alen) c)
    by (rewrite firstn_firstn; f_equal; lia).
  rewrite Hf.
  assert (E1 : Nat.ltb (length c) (nat_of alen) = false) by (apply PeanoNat.Nat.ltb_ge; exact H).
  assert (E2 : Nat.ltb (length (firstn (nat_of alen) c)) (nat_of alen) = false)
    by (apply PeanoNat.Nat.ltb_ge; rewrite firstn_length; lia).
  rewrite E1, E2. reflexivity.
Qed.

Lemma attr_one_fail tb s flags code c alen e : attr_one tb s flags code c alen = Fail e -> e = MAL.
Proof.
  unfold attr_one. intro H.
  repeat match type of H with
         | (if ?b then _ else _) = _ => destruct b
         | (match ?x with _ => _ end) = _ => destruct x
         end; try discriminate; injection H as <-; reflexivity.
Qed.

Lemma firstn_cons_N (n : N) (x : N) (l : list N) : 1 <= n ->
  firstn (N.to_nat n) (x :: l) = x :: firstn (N.to_nat (n - 1)) l.
Proof. intro H. replace (N.to_nat n) with (S (N.to_nat (n - 1))) by lia. reflexivity. Qed.

(* the simulation: on a cursor [c] with [arem] bytes of attributes left, the loop is the
   fold of tlv_step over the scan of the first [arem] bytes *)
Lemma attr_loop_sim tb : forall fuel c arem s,
  (length c < fuel)%nat -> arem <= len c ->
  let '(tl, ok) := tlv_scan fuel (firstn (N.to_nat arem) c) in
  match tlv_fold tb s tl with
  | None => attr_loop fuel tb c arem s = Fail MAL
  | Some s' => exists r, attr_loop fuel tb c arem s = Ok (s', r) /\ (r = 0 <-> ok = true)
  end.
Proof.
  induction fuel as [|f IH]; intros c arem s Hf Hc; [lia|].
  cbn [attr_loop].
  destruct (arem =? 0) eqn:E0.
  { replace arem with 0 by lia. cbn. exists 0. split; [reflexivity|tauto]. }
  destruct (arem <? 2) eqn:E2.
  { replace arem with 1 by lia. destruct c as [|x c]; [rewrite len_nil in Hc; lia|].
    cbn. exists 1. split; [reflexivity|]. split; [lia|discriminate]. }
  destruct c as [|flags [|code c2]]; try (rewrite ?len_cons, ?len_nil in Hc; lia).
  cbn [get8 must bind]. rewrite !len_cons in Hc. cbn [length] in Hf.
  rewrite (firstn_cons_N arem) by lia. rewrite (firstn_cons_N (arem - 1)) by lia.
  replace (arem - 1 - 1) with (arem - 2) by lia.
  cbn [tlv_scan]. rewrite has_flag_extended.
  (* common tail once the length is known *)
  assert (Hbody : forall alen c3 arem3, (length c3 < f)%nat -> arem3 <= len c3 ->
    let '(tl, ok) :=
      (if Nat.ltb (length (firstn (N.to_nat arem3) c3)) (N.to_nat alen) then ([], false)
       else let '(l, ok) := tlv_scan f (skipn (N.to_nat alen) (firstn (N.to_nat arem3) c3)) in
            ({| t_flags := flags; t_code := code; t_val := firstn (N.to_nat alen) (firstn (N.to_nat arem3) c3) |} :: l, ok)) in
    match tlv_fold tb s tl with
    | None => (if arem3 <? alen then Ok (s, N.max arem3 1) else
               s' <- attr_one tb s flags code c3 alen ;;
               attr_loop f tb (skipn (nat_of alen) c3) (arem3 - alen) s') = Fail MAL
    | Some s' => exists r, (if arem3 <? alen then Ok (s, N.max arem3 1) else
               s' <- attr_one tb s flags code c3 alen ;;
               attr_loop f tb (skipn (nat_of alen) c3) (arem3 - alen) s') = Ok (s', r) /\ (r = 0 <-> ok = true)
    end).
  { intros alen c3 arem3 Hf3 Hc3.
    assert (Hlen : length (firstn (N.to_nat arem3) c3) = N.to_nat arem3)
      by (rewrite firstn_length; pose proof (len_length c3); lia).
    rewrite Hlen.
    destruct (arem3 <? alen) eqn:Ea.
    { destruct (Nat.ltb (N.to_nat arem3) (N.to_nat alen)) eqn:El; [|apply PeanoNat.Nat.ltb_ge in El; lia].
      cbn [tlv_fold]. exists (N.max arem3 1). split; [reflexivity|]. split; [lia|discriminate]. }
    destruct (Nat.ltb (N.to_nat arem3) (N.to_nat alen)) eqn:El; [apply PeanoNat.Nat.ltb_lt in El; lia|].
    rewrite skipn_firstn_comm, firstn_firstn.
    replace (Nat.min (N.to_nat alen) (N.to_nat arem3)) with (N.to_nat alen) by lia.
    replace (N.to_nat arem3 - N.to_nat alen)%nat with (N.to_nat (arem3 - alen)) by lia.
    assert (Hf4 : (length (skipn (N.to_nat alen) c3) < f)%nat) by (rewrite skipn_length; lia).
    assert (Hc4 : arem3 - alen <= len (skipn (N.to_nat alen) c3)) by (rewrite len_skipn; lia).
    pose proof (IH (skipn (N.to_nat alen) c3) (arem3 - alen)) as IH'.
    destruct (tlv_scan f (firstn (N.to_nat (arem3 - alen)) (skipn (N.to_nat alen) c3))) as [l ok] eqn:Esc.
    cbn [tlv_fold]. unfold tlv_step. cbn [t_flags t_code t_val].
    rewrite (attr_one_value tb s flags code c3 alen) by (unfold nat_of; pose proof (len_length c3); lia).
    unfold nat_of.
    destruct (attr_one tb s flags code (firstn (N.to_nat alen) c3) (len (firstn (N.to_nat alen) c3))) as [s1|e|t] eqn:E1;
      cbn [bind].
    - specialize (IH' s1 Hf4 Hc4). try rewrite Esc in IH'. exact IH'.
    - apply attr_one_fail in E1. subst e. reflexivity.
    - (* attr_one never panics *)
      exfalso. unfold attr_one in E1.
      repeat match type of E1 with
             | (if ?b then _ else _) = _ => destruct b
             | (match ?x with _ => _ end) = _ => destruct x
             end; discriminate. }
  destruct (f_extended flags).
  - destruct (arem - 2 <? 2) eqn:E3; cbn [bind].
    { assert (Hs : exists y, firstn (N.to_nat (arem - 2)) c2 = y /\ (length y < 2)%nat).
      { eexists. split; [reflexivity|]. rewrite firstn_length. lia. }
      destruct Hs as (y & -> & Hy). destruct y as [|y1 [|y2 y]]; try (cbn [length] in Hy; lia);
        cbn [tlv_fold]; exists (N.max (arem - 2) 1); (split; [reflexivity|]); (split; [lia|discriminate]). }
    destruct c2 as [|l1 [|l2 c3]]; try (rewrite ?len_cons, ?len_nil in Hc; lia).
    cbn [get16 must bind]. rewrite !len_cons in Hc. cbn [length] in Hf.
    rewrite (firstn_cons_N (arem - 2)) by lia. rewrite (firstn_cons_N (arem - 2 - 1)) by lia.
    replace (arem - 2 - 1 - 1) with (arem - 2 - 2) by lia.
    apply (Hbody (be16 l1 l2) c3 (arem - 2 - 2)); lia.
  - destruct (arem - 2 <? 1) eqn:E3; cbn [bind].
    { replace (arem - 2) with 0 by lia. cbn [N.to_nat firstn tlv_fold].
      exists 1. split; [reflexivity|]. split; [lia|discriminate]. }
    destruct c2 as [|l1 c3]; try (rewrite ?len_cons, ?len_nil in Hc; lia).
    cbn [get8 must bind]. rewrite !len_cons in Hc. cbn [length] in Hf.
    rewrite (firstn_cons_N (arem - 2)) by lia.
    apply (Hbody l1 c3 (arem - 2 - 1)); lia.
Qed.

(* ------------------------------------------------ what one step does to the state *)
Lemma accept_seen tb s a : u_seen (accept tb s a) = u_seen s.
Proof. unfold accept. repeat match goal with |- context [if ?b then _ else _] => destruct b end; reflexivity. Qed.
Lemma accept_errs tb s a : u_errs (accept tb s a) = u_errs s.
Proof. unfold accept. repeat match goal with |- context [if ?b then _ else _] => destruct b end; reflexivity. Qed.
Lemma accept_mp_reach tb s a :
  u_mp_reach (accept tb s a) =
  if a_code a =? 14 then Some (match a_data a with ABin b => b | _ => [] end) else u_mp_reach s.
Proof.
  unfold accept. destruct (a_code a =? 14) eqn:E; [reflexivity|].
  repeat match goal with |- context [if ?b then _ else _] => destruct b end; reflexivity.
Qed.
Lemma accept_mp_unreach tb s a :
  u_mp_unreach (accept tb s a) =
  if a_code a =? 15 then Some (match a_data a with ABin b => b | _ => [] end) else u_mp_unreach s.
Proof.
  unfold accept. destruct (a_code a =? 14) eqn:E14; [assert (a_code a =? 15 = false) as -> by lia; reflexivity|].
  destruct (a_code a =? 15) eqn:E; [reflexivity|].
  repeat match goal with |- context [if ?b then _ else _] => destruct b end; reflexivity.
Qed.
Lemma accept_nexthop tb s a : a_code a <> 3 -> u_nexthop (accept tb s a) = u_nexthop s.
Proof.
  intro H. unfold accept. destruct (a_code a =? 14); [reflexivity|]. destruct (a_code a =? 15); [reflexivity|].
  destruct (a_code a =? 3) eqn:E; [lia|]. destruct (_ && _); reflexivity.
Qed.

Lemma attr_decode_default code flags v tb : code = 14 \/ code = 15 ->
  attr_decode code flags v tb = Some {| a_code := code; a_flags := flags; a_data := ABin v |}.
Proof. intros [-> | ->]; reflexivity. Qed.

Lemma ltb_len_self (v : list N) : Nat.ltb (length v) (nat_of (len v)) = false.
Proof. apply PeanoNat.Nat.ltb_ge. unfold nat_of. pose proof (len_length v). lia. Qed.

Lemma firstn_len_self (v : list N) : firstn (nat_of (len v)) v = v.
Proof. unfold nat_of. rewrite len_length. apply firstn_all. Qed.

Ltac crush_step H :=
  unfold tlv_step, attr_one in H; rewrite ?ltb_len_self, ?firstn_len_self in H;
  repeat match type of H with
         | context [match canonical_flags ?c with _ => _ end] =>
           let E := fresh "Ecf" in destruct (canonical_flags c) eqn:E
         | context [match attr_decode ?a ?b ?c ?d with _ => _ end] =>
           let E := fresh "Edec" in destruct (attr_decode a b c d) eqn:E
         | context [if ?b then _ else _] => let E := fresh "Eb" in destruct b eqn:E
         end; try discriminate.

Definition seen_l (l : list N) (k : N) : bool := existsb (N.eqb k) l.

Lemma step_seen tb s t s1 : tlv_step tb s t = Some s1 ->
  forall k, seen s1 k = (k =? t_code t) || seen s k.
Proof.
  intros H k.
  destruct (seen s (t_code t)) eqn:Es.
  - assert (s1 = s) as ->.
    { unfold tlv_step, attr_one in H. rewrite Es in H. destruct (_ || _); [discriminate|]. injection H as <-. reflexivity. }
    destruct (N.eqb_spec k (t_code t)) as [->|]; [rewrite Es; reflexivity|reflexivity].
  - unfold tlv_step, attr_one in H. rewrite Es in H. unfold seen.
    crush_step H; injection H as <-;
      rewrite ?accept_seen; cbn [u_seen add_err add_attr mark_seen existsb]; reflexivity.
Qed.

Lemma step_errs tb s t s1 : tlv_step tb s t = Some s1 -> exists extra, u_errs s1 = u_errs s ++ extra.
Proof.
  intro H. crush_step H; injection H as <-; rewrite ?accept_errs; cbn [u_errs add_err add_attr mark_seen];
    try (exists []; rewrite app_nil_r; reflexivity);
    try (eexists; reflexivity);
    try (rewrite <- app_assoc; eexists; reflexivity).
Qed.

Lemma step_none tb s t : tlv_step tb s t = None ->
  seen s (t_code t) = true /\ (t_code t = 14 \/ t_code t = 15).
Proof.
  intro H. unfold tlv_step, attr_one in H. rewrite ?ltb_len_self in H.
  destruct (seen s (t_code t)) eqn:Es.
  - destruct ((t_code t =? 14) || (t_code t =? 15)) eqn:E; [split; [reflexivity|lia]|discriminate].
  - exfalso.
    repeat match type of H with
           | context [match canonical_flags ?c with _ => _ end] => destruct (canonical_flags c)
           | context [match attr_decode ?a ?b ?c ?d with _ => _ end] => destruct (attr_decode a b c d)
           | context [if ?b then _ else _] => destruct b
           end; discriminate.
Qed.

Lemma step_mp_reach tb s t s1 : tlv_step tb s t = Some s1 ->
  u_mp_reach s1 = if (t_code t =? 14) && negb (seen s 14) then Some (t_val t) else u_mp_reach s.
Proof.
  intro H.
  destruct (N.eq_dec (t_code t) 14) as [E14|N14].
  - unfold tlv_step, attr_one in H. rewrite ?ltb_len_self, ?firstn_len_self, E14 in H. rewrite E14.
    change (canonical_flags 14) with (Some 128) in H.
    destruct (seen s 14) eqn:Es; [cbn in H; discriminate|].
    cbn [N.eqb Pos.eqb orb negb andb] in H. rewrite andb_false_r in H.
    rewrite (attr_decode_default 14) in H by (left; reflexivity).
    injection H as <-. rewrite accept_mp_reach. reflexivity.
  - assert (E : (t_code t =? 14) = false) by lia. rewrite E. cbn [andb].
    crush_step H; injection H as <-; rewrite ?accept_mp_reach; cbn [u_mp_reach add_err add_attr mark_seen]; try reflexivity.
    all: match goal with Hd : attr_decode _ _ _ _ = Some ?a |- _ =>
           apply attr_decode_ok in Hd; destruct Hd as [_ Hc]; rewrite Hc, E; reflexivity end.
Qed.

Lemma step_mp_unreach tb s t s1 : tlv_step tb s t = Some s1 ->
  u_mp_unreach s1 = if (t_code t =? 15) && negb (seen s 15) then Some (t_val t) else u_mp_unreach s.
Proof.
  intro H.
  destruct (N.eq_dec (t_code t) 15) as [E15|N15].
  - unfold tlv_step, attr_one in H. rewrite ?ltb_len_self, ?firstn_len_self, E15 in H. rewrite E15.
    change (canonical_flags 15) with (Some 128) in H.
    destruct (seen s 15) eqn:Es; [cbn in H; discriminate|].
    cbn [N.eqb Pos.eqb orb negb andb] in H. rewrite andb_false_r in H.
    rewrite (attr_decode_default 15) in H by (right; reflexivity).
    injection H as <-. rewrite accept_mp_unreach. reflexivity.
  - assert (E : (t_code t =? 15) = false) by lia. rewrite E. cbn [andb].
    crush_step H; injection H as <-; rewrite ?accept_mp_unreach; cbn [u_mp_unreach add_err add_attr mark_seen]; try reflexivity.
    all: match goal with Hd : attr_decode _ _ _ _ = Some ?a |- _ =>
           apply attr_decode_ok in Hd; destruct Hd as [_ Hc]; rewrite Hc, E; reflexivity end.
Qed.

Lemma step_nexthop tb s t s1 : tlv_step tb s t = Some s1 -> t_code t <> 3 -> u_nexthop s1 = u_nexthop s.
Proof.
  intros H N3.
  crush_step H; injection H as <-; cbn [u_nexthop add_err add_attr mark_seen]; try reflexivity.
  all: match goal with Hd : attr_decode _ _ _ _ = Some ?a |- _ =>
         apply attr_decode_ok in Hd; destruct Hd as [_ Hc]; rewrite accept_nexthop by congruence;
         repeat match goal with |- context [if ?b then _ else _] => destruct b end; reflexivity end.
Qed.

Lemma existsb_snoc {A} (f : A -> bool) l x : existsb f (l ++ [x]) = existsb f l || f x.
Proof. rewrite existsb_app. cbn [existsb]. rewrite orb_false_r. reflexivity. Qed.

Lemma recognised_mp code o tr : recognised code = Some (o, tr) -> (o, tr) <> (true, false) ->
  (code =? 14) || (code =? 15) = false.
Proof.
  intros H Hn. destruct (N.eq_dec code 14) as [->|]; [cbn in H; congruence|].
  destruct (N.eq_dec code 15) as [->|]; [cbn in H; congruence|]. lia.
Qed.

(* a TLV the Spec calls bad beyond discarding leaves a fatal error entry *)
Lemma step_bad tb s t s1 earlier :
  (forall k, seen s k = seen_l earlier k) -> tlv_step tb s t = Some s1 ->
  is_bad (classify tb earlier t) = true -> may_discard (t_code t) = false ->
  existsb err_fatal (u_errs s1) = true.
Proof.
  intros Hseen H Hbad Hnd. unfold classify in Hbad.
  change (existsb (N.eqb (t_code t)) earlier) with (seen_l earlier (t_code t)) in Hbad.
  rewrite <- Hseen in Hbad.
  destruct (seen s (t_code t)) eqn:Es; [discriminate|].
  unfold may_discard in Hnd.
  pose proof (canon_recognised (t_code t)) as Hcan.
  unfold tlv_step, attr_one in H. rewrite Es, ?ltb_len_self, ?firstn_len_self in H.
  destruct (recognised (t_code t)) as [[o tr]|] eqn:Er.
  - rewrite Hcan in H.
    assert (Hfat : forall fl, err_fatal (t_code t, fl) = true).
    { intro fl. unfold err_fatal. cbn [fst snd]. rewrite Hcan, flags_fatal_of.
      destruct o, tr; try (rewrite orb_true_r; reflexivity). discriminate. }
    assert (Hmp : (t_code t =? 14) || (t_code t =? 15) = false).
    { eapply recognised_mp; [eassumption|]. intro E. injection E as -> ->. discriminate. }
    rewrite flags_mismatch in H. destruct (flags_of_bits o tr) as [B7 B6]. rewrite B7, B6 in H.
    change (N.testbit (t_flags t) 7) with (f_optional (t_flags t)) in H.
    change (N.testbit (t_flags t) 6) with (f_transitive (t_flags t)) in H.
    destruct (negb (Bool.eqb (f_optional (t_flags t)) o) || negb (Bool.eqb (f_transitive (t_flags t)) tr)) eqn:Efe.
    + rewrite Hmp in H. cbn [negb andb] in H. injection H as <-.
      cbn [u_errs add_err mark_seen]. rewrite existsb_snoc, Hfat. apply orb_true_r.
    + cbn [andb] in H.
      destruct (value_ok tb (t_code t) (t_val t)) eqn:Ev; [discriminate|].
      destruct (attr_decode (t_code t) (t_flags t) (t_val t) tb) as [a|] eqn:Ed.
      { apply decode_value_ok in Ed. congruence. }
      assert (E1718 : (t_code t =? 17) || (t_code t =? 18) = false) by (destruct o, tr; try discriminate; exact Hnd).
      rewrite E1718 in H. injection H as <-.
      cbn [u_errs add_err mark_seen]. rewrite existsb_snoc, Hfat. apply orb_true_r.
  - rewrite Hcan in H.
    destruct (f_optional (t_flags t)) eqn:Eo; [discriminate|].
    rewrite has_flag_optional, Eo in H. cbn [negb] in H. injection H as <-.
    cbn [u_errs add_err mark_seen]. rewrite existsb_snoc.
    unfold err_fatal, flags_fatal. cbn [fst snd]. rewrite has_flag_optional, Eo. cbn. apply orb_true_r.
Qed.

Definition has_tlv (code : N) (l : list tlv) : bool := existsb (fun t => t_code t =? code) l.

Lemma fold_facts tb : forall tl s earlier s',
  (forall k, seen s k = seen_l earlier k) -> tlv_fold tb s tl = Some s' ->
  (forall k, seen s' k = has_tlv k tl || seen s k) /\
  (existsb err_fatal (u_errs s) = true -> existsb err_fatal (u_errs s') = true) /\
  (forall x, In x (classify_all tb earlier tl) -> is_bad (snd x) = true ->
             may_discard (t_code (fst x)) = false -> existsb err_fatal (u_errs s') = true).
Proof.
  induction tl as [|t r IH]; intros s earlier s' Hseen H.
  - injection H as <-. repeat split; auto; try (intros x []).
  - cbn [tlv_fold] in H. destruct (tlv_step tb s t) as [s1|] eqn:Est; [|discriminate].
    assert (Hseen1 : forall k, seen s1 k = seen_l (t_code t :: earlier) k).
    { intro k. rewrite (step_seen _ _ _ _ Est). unfold seen_l. cbn [existsb]. rewrite Hseen. reflexivity. }
    destruct (IH s1 (t_code t :: earlier) s' Hseen1 H) as (I1 & I2 & I3).
    assert (Hmono : existsb err_fatal (u_errs s) = true -> existsb err_fatal (u_errs s1) = true).
    { intro Hf. destruct (step_errs _ _ _ _ Est) as (ex & ->). rewrite existsb_app, Hf. reflexivity. }
    split; [|split].
    + intro k. rewrite I1, (step_seen _ _ _ _ Est). unfold has_tlv. cbn [existsb].
      rewrite (N.eqb_sym (t_code t) k).
      generalize (existsb (fun t0 => t_code t0 =? k) r), (k =? t_code t), (seen s k). intros [] [] []; reflexivity.
    + intro Hf. apply I2, Hmono, Hf.
    + intros x Hin Hb Hnd. cbn [classify_all] in Hin. destruct Hin as [<-|Hin].
      * cbn [fst snd] in Hb, Hnd. apply I2. exact (step_bad tb s t s1 earlier Hseen Est Hb Hnd).
      * eapply I3; eassumption.
Qed.

Lemma fold_mp_reach_keep tb : forall tl s s', seen s 14 = true -> tlv_fold tb s tl = Some s' -> u_mp_reach s' = u_mp_reach s.
Proof.
  induction tl as [|t r IH]; intros s s' Hs H; [injection H as <-; reflexivity|].
  cbn [tlv_fold] in H. destruct (tlv_step tb s t) as [s1|] eqn:Est; [|discriminate].
  rewrite (IH s1 s'); [|rewrite (step_seen _ _ _ _ Est), Hs; apply orb_true_r|exact H].
  rewrite (step_mp_reach _ _ _ _ Est), Hs. rewrite andb_false_r. reflexivity.
Qed.

Lemma fold_mp_reach tb : forall tl s s', seen s 14 = false -> u_mp_reach s = None -> tlv_fold tb s tl = Some s' ->
  u_mp_reach s' = option_map t_val (first_code 14 tl).
Proof.
  induction tl as [|t r IH]; intros s s' Hs Hn H; [injection H as <-; exact Hn|].
  cbn [tlv_fold] in H. destruct (tlv_step tb s t) as [s1|] eqn:Est; [|discriminate].
  unfold first_code. cbn [find]. pose proof (step_mp_reach _ _ _ _ Est) as Hm. rewrite Hs in Hm. cbn [negb] in Hm.
  destruct (t_code t =? 14) eqn:E.
  - cbn [andb] in Hm. rewrite (fold_mp_reach_keep tb r s1 s'); [rewrite Hm; reflexivity| |exact H].
    rewrite (step_seen _ _ _ _ Est). rewrite (N.eqb_sym 14), E. reflexivity.
  - cbn [andb] in Hm. apply (IH s1 s'); [|congruence|exact H].
    rewrite (step_seen _ _ _ _ Est), (N.eqb_sym 14), E, Hs. reflexivity.
Qed.

Lemma fold_mp_unreach_keep tb : forall tl s s', seen s 15 = true -> tlv_fold tb s tl = Some s' -> u_mp_unreach s' = u_mp_unreach s.
Proof.
  induction tl as [|t r IH]; intros s s' Hs H; [injection H as <-; reflexivity|].
  cbn [tlv_fold] in H. destruct (tlv_step tb s t) as [s1|] eqn:Est; [|discriminate].
  rewrite (IH s1 s'); [|rewrite (step_seen _ _ _ _ Est), Hs; apply orb_true_r|exact H].
  rewrite (step_mp_unreach _ _ _ _ Est), Hs. rewrite andb_false_r. reflexivity.
Qed.

Lemma fold_mp_unreach tb : forall tl s s', seen s 15 = false -> u_mp_unreach s = None -> tlv_fold tb s tl = Some s' ->
  u_mp_unreach s' = option_map t_val (first_code 15 tl).
Proof.
  induction tl as [|t r IH]; intros s s' Hs Hn H; [injection H as <-; exact Hn|].
  cbn [tlv_fold] in H. destruct (tlv_step tb s t) as [s1|] eqn:Est; [|discriminate].
  unfold first_code. cbn [find]. pose proof (step_mp_unreach _ _ _ _ Est) as Hm. rewrite Hs in Hm. cbn [negb] in Hm.
  destruct (t_code t =? 15) eqn:E.
  - cbn [andb] in Hm. rewrite (fold_mp_unreach_keep tb r s1 s'); [rewrite Hm; reflexivity| |exact H].
    rewrite (step_seen _ _ _ _ Est). rewrite (N.eqb_sym 15), E. reflexivity.
  - cbn [andb] in Hm. apply (IH s1 s'); [|congruence|exact H].
    rewrite (step_seen _ _ _ _ Est), (N.eqb_sym 15), E, Hs. reflexivity.
Qed.

Lemma fold_nexthop tb : forall tl s s', u_nexthop s = None -> tlv_fold tb s tl = Some s' ->
  has_tlv 3 tl = false -> u_nexthop s' = None.
Proof.
  induction tl as [|t r IH]; intros s s' Hn H Hh; [injection H as <-; exact Hn|].
  cbn [tlv_fold] in H. destruct (tlv_step tb s t) as [s1|] eqn:Est; [|discriminate].
  unfold has_tlv in Hh. cbn [existsb] in Hh. apply orb_false_iff in Hh. destruct Hh as [H3 Hr].
  apply (IH s1 s'); [|exact H|exact Hr].
  rewrite (step_nexthop _ _ _ _ Est); [exact Hn|lia].
Qed.

(* a failing fold means MP_REACH_NLRI or MP_UNREACH_NLRI occurs twice *)
Lemma fold_none tb : forall tl s, tlv_fold tb s tl = None ->
  (seen s 14 = true /\ (1 <= count_code 14 tl)%nat) \/ (2 <= count_code 14 tl)%nat \/
  (seen s 15 = true /\ (1 <= count_code 15 tl)%nat) \/ (2 <= count_code 15 tl)%nat.
Proof.
  induction tl as [|t r IH]; intros s H; [discriminate|].
  cbn [tlv_fold] in H. unfold count_code in *. cbn [filter].
  destruct (tlv_step tb s t) as [s1|] eqn:Est.
  - specialize (IH s1 H). rewrite !(step_seen _ _ _ _ Est) in IH. rewrite !(N.eqb_sym _ (t_code t)) in IH.
    destruct (t_code t =? 14) eqn:E14, (t_code t =? 15) eqn:E15; cbn [length orb] in *; try lia;
      destruct IH as [[? ?]|[?|[[? ?]|?]]]; try (right; left; lia); try (right; right; right; lia);
      try (left; split; [assumption|lia]); try (right; right; left; split; [assumption|lia]).
  - apply step_none in Est. destruct Est as [Hs [E|E]]; rewrite E in *; cbn [N.eqb Pos.eqb length].
    + left. split; [exact Hs|lia].
    + right. right. left. split; [exact Hs|lia].
Qed.

(* ------------------------------------------------ the length-delimited parts *)
Lemma locate_ok hdr frame wl wd c al : upd_locate hdr frame = Ok (wl, wd, c, al) ->
  locate frame = Some (wd, firstn (nat_of al) c, skipn (nat_of al) c).
Proof.
  unfold upd_locate, locate.
  destruct (len frame <? 23) eqn:E23; [discriminate|].
  pose proof (len_skipn 19 frame) as Hs.
  destruct (skipn 19 frame) as [|w1 [|w2 r]]; try (rewrite ?len_cons, ?len_nil in Hs; lia).
  cbn [get16 must bind]. rewrite !len_cons in Hs.
  destruct (len frame <? be16 w1 w2 + 23) eqn:Ewl; [discriminate|].
  assert (E1 : (len r <? be16 w1 w2 + 2) = false) by lia. rewrite E1.
  pose proof (len_skipn (nat_of (be16 w1 w2)) r) as Hs2. unfold nat_of in *.
  destruct (skipn (N.to_nat (be16 w1 w2)) r) as [|a1 [|a2 r2]]; cbn [get16 rm req bind]; try discriminate.
  rewrite !len_cons in Hs2.
  destruct (len frame <? be16 w1 w2 + be16 a1 a2 + 23) eqn:Eal; [discriminate|].
  assert (E2 : (len r2 <? be16 a1 a2) = false) by lia. rewrite E2.
  intro H. injection H as <- <- <- <-. reflexivity.
Qed.

Lemma locate_fail hdr frame e : upd_locate hdr frame = Fail e -> locate frame = None.
Proof.
  unfold upd_locate, locate.
  destruct (len frame <? 23) eqn:E23; [reflexivity|].
  pose proof (len_skipn 19 frame) as Hs.
  destruct (skipn 19 frame) as [|w1 [|w2 r]]; try (rewrite ?len_cons, ?len_nil in Hs; lia).
  cbn [get16 must bind]. rewrite !len_cons in Hs.
  destruct (len frame <? be16 w1 w2 + 23) eqn:Ewl.
  { assert (E1 : (len r <? be16 w1 w2 + 2) = true) by lia. rewrite E1. reflexivity. }
  assert (E1 : (len r <? be16 w1 w2 + 2) = false) by lia. rewrite E1.
  pose proof (len_skipn (nat_of (be16 w1 w2)) r) as Hs2. unfold nat_of in *.
  destruct (skipn (N.to_nat (be16 w1 w2)) r) as [|a1 [|a2 r2]]; cbn [get16 rm req bind]; try reflexivity.
  rewrite !len_cons in Hs2.
  destruct (len frame <? be16 w1 w2 + be16 a1 a2 + 23) eqn:Eal; [|discriminate].
  assert (E2 : (len r2 <? be16 a1 a2) = true) by lia. rewrite E2. reflexivity.
Qed.

(* ------------------------------------------------ NLRI fields *)
Definition field_parse (cd : codec) (fam : N) (r : bool) (b : list N) : res (list (N * nlri)) :=
  ap <- req MAL (fam_lookup (c_fams cd) fam) ;; nlri_list no_other fam ap r b.

Lemma no_other_consumes : forall f r c c', no_other f r c = Some c' -> len c' < len c.
Proof. intros; discriminate. Qed.

Lemma field_ok cd fam r b l : field_parse cd fam r b = Ok l -> nlri_field cd fam r b = Some (keys fam l).
Proof.
  unfold field_parse, nlri_field. destruct (fam_lookup (c_fams cd) fam) as [ap|]; cbn [req bind]; [|discriminate].
  change (fun (_ : N) (_ : bool) (_ : list N) => @None (list N)) with no_other.
  intro H. rewrite H. reflexivity.
Qed.

Lemma field_fail cd fam r b e : field_parse cd fam r b = Fail e -> nlri_field cd fam r b = None.
Proof.
  unfold field_parse, nlri_field. destruct (fam_lookup (c_fams cd) fam) as [ap|]; cbn [req bind]; [|reflexivity].
  change (fun (_ : N) (_ : bool) (_ : list N) => @None (list N)) with no_other.
  intro H. rewrite H. reflexivity.
Qed.

Lemma get8_skipn : forall n (r : list N) x d2, get8 (skipn n r) = Some (x, d2) -> d2 = skipn (n + 1) r.
Proof.
  induction n as [|n IH]; intros r x d2 H.
  - destruct r; [discriminate|]. injection H as _ <-. reflexivity.
  - destruct r as [|y r]; [discriminate|]. cbn [skipn] in H. replace (S n + 1)%nat with (S (n + 1)) by lia.
    cbn [skipn]. eapply IH; eassumption.
Qed.

Lemma mp_reach_ok cd d fam entries nh :
  upd_mp_reach no_other cd d = Ok (fam, entries, nh) -> mp_reach_keys cd d = Some (keys fam entries).
Proof.
  unfold upd_mp_reach, mp_reach_keys.
  destruct (len d <? 5) eqn:E5; [discriminate|].
  destruct d as [|d1 [|d2 [|d3 [|d4 r]]]]; try (rewrite ?len_cons, ?len_nil in E5; lia).
  cbn [get16 get8 must bind]. rewrite !len_cons.
  destruct (fam_lookup (c_fams cd) (be16 d1 d2 * 65536 + d3)) as [ap|] eqn:Ef; cbn [req bind]; [|discriminate].
  destruct (len r + 1 + 1 + 1 + 1 <? 5 + d4) eqn:En; [discriminate|].
  assert (E1 : (len r <? d4 + 1) = false) by lia. rewrite E1.
  intro H. apply bind_ok in H. destruct H as (nh' & Hnh & H).
  assert (E2 : negb (existsb (N.eqb d4) [4; 16; 32; 12; 24; 48]) && negb ((d4 =? 0) && is_flowspec (be16 d1 d2 * 65536 + d3)) = false).
  { cbn [existsb]. destruct (d4 =? 0) eqn:E0.
    - destruct (is_flowspec _); [apply andb_false_r|discriminate].
    - cbn [andb negb]. rewrite andb_true_r.
      destruct ((d4 =? 4) || (d4 =? 16) || (d4 =? 32)) eqn:Ea; [lia|].
      destruct ((d4 =? 12) || (d4 =? 24)) eqn:Eb; [lia|].
      destruct (d4 =? 48) eqn:Ec; [lia|discriminate]. }
  rewrite E2.
  destruct (get8 (skipn (nat_of d4) r)) as [[rsv d5]|] eqn:G; cbn [must bind] in H; [|discriminate].
  apply get8_skipn in G. subst d5.
  apply bind_ok in H. destruct H as (en & Hen & H). injection H as <- <- <-.
  unfold nlri_field. rewrite Ef.
  change (fun (_ : N) (_ : bool) (_ : list N) => @None (list N)) with no_other.
  unfold nat_of in Hen. rewrite Hen. reflexivity.
Qed.

Lemma mp_reach_fail cd d e : upd_mp_reach no_other cd d = Fail e -> mp_reach_keys cd d = None.
Proof.
  unfold upd_mp_reach, mp_reach_keys.
  destruct (len d <? 5) eqn:E5.
  { intros _. destruct d as [|d1 [|d2 [|d3 [|d4 r]]]]; try reflexivity.
    rewrite !len_cons in E5. assert (E1 : (len r <? d4 + 1) = true) by lia. rewrite E1. reflexivity. }
  destruct d as [|d1 [|d2 [|d3 [|d4 r]]]]; try (rewrite ?len_cons, ?len_nil in E5; lia).
  cbn [get16 get8 must bind]. rewrite !len_cons.
  destruct (len r <? d4 + 1) eqn:E1; [reflexivity|].
  destruct (negb (existsb (N.eqb d4) [4; 16; 32; 12; 24; 48]) && negb ((d4 =? 0) && is_flowspec (be16 d1 d2 * 65536 + d3))) eqn:E2;
    [reflexivity|].
  unfold nlri_field.
  destruct (fam_lookup (c_fams cd) (be16 d1 d2 * 65536 + d3)) as [ap|] eqn:Ef; cbn [req bind]; [|reflexivity].
  assert (En : (len r + 1 + 1 + 1 + 1 <? 5 + d4) = false) by lia. rewrite En.
  assert (Hnh : exists nh, (if d4 =? 0 then if is_flowspec (be16 d1 d2 * 65536 + d3) then Ok None else Fail E_OPT_ATTR
           else if (d4 =? 4) || (d4 =? 16) || (d4 =? 32) then Ok (nexthop_norm (firstn (nat_of d4) r))
           else if (d4 =? 12) || (d4 =? 24) then Ok (nexthop_norm (skipn 8 (firstn (nat_of d4) r)))
           else if d4 =? 48 then Ok (nexthop_norm (firstn 16 (skipn 8 r) ++ firstn 16 (skipn 32 r)))
           else Fail E_OPT_ATTR) = Ok nh).
  { cbn [existsb] in E2. destruct (d4 =? 0) eqn:E0.
    - destruct (is_flowspec _); [eexists; reflexivity|].
      exfalso. assert (d4 = 0) by lia. subst d4. discriminate.
    - destruct ((d4 =? 4) || (d4 =? 16) || (d4 =? 32)) eqn:Ea; [eexists; reflexivity|].
      destruct ((d4 =? 12) || (d4 =? 24)) eqn:Eb; [eexists; reflexivity|].
      destruct (d4 =? 48) eqn:Ec; [eexists; reflexivity|].
      exfalso. cbn [andb negb] in E2. rewrite andb_true_r in E2. apply negb_false_iff in E2. lia. }
  destruct Hnh as (nh & ->). cbn [bind].
  destruct (get8 (skipn (nat_of d4) r)) as [[rsv d5]|] eqn:G; cbn [must bind]; [|discriminate].
  apply get8_skipn in G. subst d5.
  change (fun (_ : N) (_ : bool) (_ : list N) => @None (list N)) with no_other.
  unfold nat_of. destruct (nlri_list no_other _ ap true _) as [l| |]; cbn [bind]; try discriminate. reflexivity.
Qed.

Lemma mp_unreach_ok cd d fam entries :
  upd_mp_unreach no_other cd d = Ok (fam, entries) -> mp_unreach_keys cd d = Some (keys fam entries).
Proof.
  unfold upd_mp_unreach, mp_unreach_keys.
  destruct (len d <? 3) eqn:E3; [discriminate|].
  destruct d as [|d1 [|d2 [|d3 r]]]; try (rewrite ?len_cons, ?len_nil in E3; lia).
  cbn [get16 get8 must bind]. intro H. unfold nlri_field.
  destruct (fam_lookup (c_fams cd) (be16 d1 d2 * 65536 + d3)) as [ap|]; cbn [req bind] in H; [|discriminate].
  change (fun (_ : N) (_ : bool) (_ : list N) => @None (list N)) with no_other.
  destruct (nlri_list no_other _ ap false r) as [l| |]; cbn [bind] in H; try discriminate.
  injection H as <- <-. reflexivity.
Qed.

Lemma mp_unreach_fail cd d e : upd_mp_unreach no_other cd d = Fail e -> mp_unreach_keys cd d = None.
Proof.
  unfold upd_mp_unreach, mp_unreach_keys.
  destruct (len d <? 3) eqn:E3.
  { intros _. destruct d as [|d1 [|d2 [|d3 r]]]; try reflexivity. rewrite !len_cons in E3. lia. }
  destruct d as [|d1 [|d2 [|d3 r]]]; try (rewrite ?len_cons, ?len_nil in E3; lia).
  cbn [get16 get8 must bind]. intro H. unfold nlri_field.
  destruct (fam_lookup (c_fams cd) (be16 d1 d2 * 65536 + d3)) as [ap|]; cbn [req bind] in H; [|reflexivity].
  change (fun (_ : N) (_ : bool) (_ : list N) => @None (list N)) with no_other.
  destruct (nlri_list no_other _ ap false r) as [l| |]; cbn [bind] in H; try discriminate; reflexivity.
Qed.

(* ------------------------------------------------ the verdict in terms of the scan *)
Definition verdict_of (tb : bool) (tl : list tlv) (ok : bool) (a1 w1 a2 w2 : list key) : verdict :=
  let cl := classify_all tb [] tl in
  let bad := filter (fun x => is_bad (snd x)) cl in
  {| v_locatable := true;
     v_must_withdraw :=
       negb ok
       || existsb (fun x => negb (may_discard (t_code (fst x)))) bad
       || (negb (is_nil_b (a1 ++ a2)) &&
           (negb (has_tlv 1 tl) || negb (has_tlv 2 tl) || (negb (is_nil_b a1) && negb (has_tlv 3 tl))));
     v_discard := map (fun x => t_code (fst x)) bad;
     v_announced := a1 ++ a2;
     v_withdrawn := w1 ++ w2 |}.

Definition judge_parts (cd : codec) (wd nl : list N) (tl : list tlv) (ok : bool) : verdict :=
  if Nat.ltb 1 (count_code 14 tl) || Nat.ltb 1 (count_code 15 tl) then unlocatable else
  match (if is_nil_b nl then Some [] else nlri_field cd F_IPV4 true nl),
        (if is_nil_b wd then Some [] else nlri_field cd F_IPV4 false wd),
        (match first_code 14 tl with None => Some [] | Some t => mp_reach_keys cd (t_val t) end),
        (match first_code 15 tl with None => Some [] | Some t => mp_unreach_keys cd (t_val t) end) with
  | Some a1, Some w1, Some a2, Some w2 => verdict_of (c_two_byte cd) tl ok a1 w1 a2 w2
  | _, _, _, _ => unlocatable
  end.

Lemma judge_cases cd hdr frame wl wd c al :
  upd_locate hdr frame = Ok (wl, wd, c, al) ->
  judge cd frame =
  judge_parts cd wd (skipn (nat_of al) c)
              (fst (tlv_scan (S (length c)) (firstn (nat_of al) c)))
              (snd (tlv_scan (S (length c)) (firstn (nat_of al) c))).
Proof.
  intro Hl. unfold judge. rewrite (locate_ok _ _ _ _ _ _ Hl).
  set (block := firstn (nat_of al) c).
  assert (Hb : (length block <= length c)%nat) by (subst block; rewrite firstn_length; lia).
  rewrite tlv_walk_scan, (tlv_prefix_scan (S (length block)) block) by lia.
  rewrite (tlv_scan_fuel (S (length block)) (S (length c)) block) by lia.
  destruct (tlv_scan (S (length c)) block) as [tl ok]. cbn [fst snd].
  unfold judge_parts, verdict_of, has_tlv.
  destruct ok; reflexivity.
Qed.

(* ------------------------------------------------ the stages of a successful parse *)
Lemma unreach_stage cd wl wd : length wd = nat_of wl ->
  (ap <- req MAL (fam_lookup (c_fams cd) F_IPV4) ;;
   if Nat.ltb (length wd) (nat_of wl) then Panic 21 else nlri_list no_other F_IPV4 ap false wd)
  = field_parse cd F_IPV4 false wd.
Proof.
  intro H. unfold field_parse. destruct (fam_lookup (c_fams cd) F_IPV4); cbn [req bind]; [|reflexivity].
  rewrite H, PeanoNat.Nat.ltb_irrefl. reflexivity.
Qed.

Definition mp_stage {A} (f : list N -> res A) (d : option (list N)) (r : option A) : Prop :=
  match d with
  | None => r = None
  | Some v => exists x, f v = Ok x /\ r = Some x
  end.

Lemma parse_update_ok_inv cd hdr frame u : parse_update no_other cd hdr frame = Ok u ->
  exists wl wd c al s arem,
    upd_locate hdr frame = Ok (wl, wd, c, al) /\
    attr_loop (S (length c)) (c_two_byte cd) c al u0 = Ok (s, arem) /\
    (((len frame - (23 + wl + al) =? 0) && (al =? 0) && (wl =? 0) = true /\ u = UEor F_IPV4) \/
     ((len frame - (23 + wl + al) =? 0) && (al =? 0) && (wl =? 0) = false /\
      exists reach unreach mpr mpu,
        (if negb (len frame - (23 + wl + al) =? 0) then field_parse cd F_IPV4 true (skipn (nat_of al) c) else Ok []) = Ok reach /\
        (if 0 <? wl then field_parse cd F_IPV4 false wd else Ok []) = Ok unreach /\
        mp_stage (upd_mp_reach no_other cd) (u_mp_reach (post_errs (len frame - (23 + wl + al)) arem s)) mpr /\
        mp_stage (upd_mp_unreach no_other cd) (u_mp_unreach (post_errs (len frame - (23 + wl + al)) arem s)) mpu /\
        upd_finish cd (post_errs (len frame - (23 + wl + al)) arem s) reach unreach mpr mpu = Ok u)).
Proof.
  intro H. unfold parse_update in H.
  apply bind_ok in H. destruct H as ([[[wl wd] c] al] & Hloc & H).
  destruct (proj2 (upd_locate_spec no_other no_other_consumes hdr frame) _ _ _ _ Hloc) as (Hal & Hwd & Hlen).
  apply bind_ok in H. destruct H as ([s arem] & Hloop & H).
  exists wl, wd, c, al, s, arem. split; [exact Hloc|]. split; [exact Hloop|].
  destruct ((len frame - (23 + wl + al) =? 0) && (al =? 0) && (wl =? 0)) eqn:Eeor.
  { left. split; [reflexivity|]. injection H as <-. reflexivity. }
  right. split; [reflexivity|].
  apply bind_ok in H. destruct H as (reach & Hr & H).
  apply bind_ok in H. destruct H as (unreach & Hu & H).
  apply bind_ok in H. destruct H as (mpr & Hmr & H).
  apply bind_ok in H. destruct H as (mpu & Hmu & H).
  exists reach, unreach, mpr, mpu.
  split; [exact Hr|]. split.
  { destruct (0 <? wl); [|exact Hu]. rewrite <- (unreach_stage cd wl wd Hwd). exact Hu. }
  split.
  { unfold mp_stage. destruct (u_mp_reach _) as [d|]; [|injection Hmr as <-; reflexivity].
    apply bind_ok in Hmr. destruct Hmr as (x & Hx & Hm). injection Hm as <-. eauto. }
  split; [|exact H].
  unfold mp_stage. destruct (u_mp_unreach _) as [d|]; [|injection Hmu as <-; reflexivity].
  apply bind_ok in Hmu. destruct Hmu as (x & Hx & Hm). injection Hm as <-. eauto.
Qed.

Lemma upd_finish_routes cd s reach unreach mpr mpu r' mr' ur' mur' attrs errs :
  upd_finish cd s reach unreach mpr mpu = Ok (URoutes r' mr' ur' mur' attrs errs) ->
  errs = u_errs s /\
  r' = (if is_nil reach then None else Some (F_IPV4, reach, u_nexthop s)) /\
  mr' = (if match mpr with None => true | Some (_, e, _) => is_nil e end then None else mpr) /\
  ur' = (if is_nil unreach then None else Some (F_IPV4, unreach)) /\
  (mur' = None \/ mur' = mpu).
Proof.
  unfold upd_finish. intro H.
  destruct mpu as [[fam [|e es]]|].
  - destruct (_ && _); [discriminate|].
    apply bind_ok in H. destruct H as (a & _ & H). injection H as <- <- <- <- _ <-. repeat split; auto.
  - apply bind_ok in H. destruct H as (a & _ & H). injection H as <- <- <- <- _ <-. repeat split; auto.
  - apply bind_ok in H. destruct H as (a & _ & H). injection H as <- <- <- <- _ <-. repeat split; auto.
Qed.

(* ---- the error bookkeeping after the walk *)
Lemma post_errs_mono rl arem s :
  existsb err_fatal (u_errs s) = true -> existsb err_fatal (u_errs (post_errs rl arem s)) = true.
Proof.
  intro H. unfold post_errs.
  repeat match goal with |- context [if ?b then _ else _] => destruct b end;
    cbn [u_errs add_err]; rewrite ?existsb_app, H; reflexivity.
Qed.

Lemma post_errs_arem rl arem s : arem <> 0 -> existsb err_fatal (u_errs (post_errs rl arem s)) = true.
Proof.
  intro H. unfold post_errs. destruct (negb (arem =? 0)) eqn:E; [|lia].
  cbn [u_errs add_err]. rewrite existsb_snoc. apply orb_true_r.
Qed.

Lemma post_errs_origin rl arem s :
  negb (rl =? 0) || (match u_mp_reach s with Some _ => true | None => false end) = true ->
  negb (seen s 1) || negb (seen s 2) = true ->
  existsb err_fatal (u_errs (post_errs rl arem s)) = true.
Proof.
  intros H1 H2. unfold post_errs. rewrite H1, H2.
  assert (E1 : existsb err_fatal [(1, 64)] = true) by reflexivity.
  repeat match goal with |- context [if ?b then _ else _] => destruct b end;
    cbn [u_errs add_err]; rewrite ?existsb_app, E1, orb_true_r; reflexivity.
Qed.

Lemma post_errs_nexthop rl arem s : u_nexthop (post_errs rl arem s) = u_nexthop s.
Proof. unfold post_errs. repeat match goal with |- context [if ?b then _ else _] => destruct b end; reflexivity. Qed.
Lemma post_errs_mp_reach rl arem s : u_mp_reach (post_errs rl arem s) = u_mp_reach s.
Proof. unfold post_errs. repeat match goal with |- context [if ?b then _ else _] => destruct b end; reflexivity. Qed.
Lemma post_errs_mp_unreach rl arem s : u_mp_unreach (post_errs rl arem s) = u_mp_unreach s.
Proof. unfold post_errs. repeat match goal with |- context [if ?b then _ else _] => destruct b end; reflexivity. Qed.

Lemma step_dup_none tb s t : seen s (t_code t) = true -> (t_code t = 14 \/ t_code t = 15) -> tlv_step tb s t = None.
Proof.
  intros Hs Hc. unfold tlv_step, attr_one. rewrite Hs.
  assert (E : (t_code t =? 14) || (t_code t =? 15) = true) by lia. rewrite E. reflexivity.
Qed.

Lemma fold_some_count tb code : (code = 14 \/ code = 15) -> forall tl s s', tlv_fold tb s tl = Some s' ->
  (seen s code = true -> count_code code tl = 0%nat) /\ (count_code code tl <= 1)%nat.
Proof.
  intros Hc. induction tl as [|t r IH]; intros s s' H; [split; [reflexivity|cbn; lia]|].
  cbn [tlv_fold] in H. destruct (tlv_step tb s t) as [s1|] eqn:Est; [|discriminate].
  destruct (IH s1 s' H) as [I1 I2]. unfold count_code in *. cbn [filter].
  pose proof (step_seen _ _ _ _ Est code) as Hs1.
  destruct (t_code t =? code) eqn:E.
  - assert (Et : t_code t = code) by lia.
    assert (Hns : seen s code = false).
    { destruct (seen s code) eqn:Es; [|reflexivity]. rewrite step_dup_none in Est; [discriminate| |]; rewrite Et; assumption. }
    rewrite (N.eqb_sym code), E in Hs1. cbn [orb] in Hs1. specialize (I1 Hs1).
    cbn [length]. split; [congruence|lia].
  - rewrite (N.eqb_sym code), E in Hs1. cbn [orb] in Hs1. split; [|exact I2].
    intro Hs. apply I1. congruence.
Qed.

Definition mpk (m : option (N * list (N * nlri) * option (list N))) : list key :=
  match m with None => [] | Some (f, e, _) => keys f e end.
Definition mpuk (m : option (N * list (N * nlri))) : list key :=
  match m with None => [] | Some (f, e) => keys f e end.

Lemma is_nil_len (l : list N) : is_nil_b l = (len l =? 0).
Proof. destruct l; [reflexivity|]. rewrite len_cons. cbn [is_nil_b]. symmetry. apply N.eqb_neq. lia. Qed.

(* the agreement: on a successfully parsed (non end-of-RIB) UPDATE the Spec's verdict is the
   one computed from the parser's own pieces *)
Lemma judge_of_parse cd hdr frame wl wd c al s arem reach unreach mpr mpu :
  upd_locate hdr frame = Ok (wl, wd, c, al) ->
  attr_loop (S (length c)) (c_two_byte cd) c al u0 = Ok (s, arem) ->
  (if negb (len frame - (23 + wl + al) =? 0) then field_parse cd F_IPV4 true (skipn (nat_of al) c) else Ok []) = Ok reach ->
  (if 0 <? wl then field_parse cd F_IPV4 false wd else Ok []) = Ok unreach ->
  mp_stage (upd_mp_reach no_other cd) (u_mp_reach s) mpr ->
  mp_stage (upd_mp_unreach no_other cd) (u_mp_unreach s) mpu ->
  exists tl ok,
    tlv_fold (c_two_byte cd) u0 tl = Some s /\ (arem = 0 <-> ok = true) /\
    judge cd frame = verdict_of (c_two_byte cd) tl ok (keys F_IPV4 reach) (keys F_IPV4 unreach) (mpk mpr) (mpuk mpu).
Proof.
  intros Hloc Hloop Hr Hu Hmr Hmu.
  destruct (proj2 (upd_locate_spec no_other no_other_consumes hdr frame) _ _ _ _ Hloc) as (Hal & Hwd & Hlen).
  pose proof (attr_loop_sim (c_two_byte cd) (S (length c)) c al u0 ltac:(lia) Hal) as Hsim.
  rewrite (judge_cases _ _ _ _ _ _ _ Hloc). unfold nat_of in *.
  destruct (tlv_scan (S (length c)) (firstn (N.to_nat al) c)) as [tl ok]. cbn [fst snd].
  destruct (tlv_fold (c_two_byte cd) u0 tl) as [s'|] eqn:Efold; [|congruence].
  destruct Hsim as (r & Hr' & Hok). rewrite Hloop in Hr'. injection Hr' as <- <-.
  exists tl, ok. split; [exact Efold|]. split; [exact Hok|].
  unfold judge_parts.
  destruct (fold_some_count (c_two_byte cd) 14 (or_introl eq_refl) tl u0 s Efold) as [_ C14].
  destruct (fold_some_count (c_two_byte cd) 15 (or_intror eq_refl) tl u0 s Efold) as [_ C15].
  assert (Ed : Nat.ltb 1 (count_code 14 tl) || Nat.ltb 1 (count_code 15 tl) = false).
  { apply orb_false_iff. split; apply PeanoNat.Nat.ltb_ge; assumption. }
  rewrite Ed.
  (* legacy NLRI *)
  assert (L1 : (if is_nil_b (skipn (N.to_nat al) c) then Some [] else nlri_field cd F_IPV4 true (skipn (N.to_nat al) c))
               = Some (keys F_IPV4 reach)).
  { rewrite is_nil_len, len_skipn.
    replace (len c - N.of_nat (N.to_nat al)) with (len frame - (23 + wl + al)) by lia.
    destruct (len frame - (23 + wl + al) =? 0); cbn [negb] in Hr; [injection Hr as <-; reflexivity|].
    apply field_ok. exact Hr. }
  assert (L2 : (if is_nil_b wd then Some [] else nlri_field cd F_IPV4 false wd) = Some (keys F_IPV4 unreach)).
  { rewrite is_nil_len. replace (len wd =? 0) with (negb (0 <? wl)) by (unfold len; lia).
    destruct (0 <? wl); cbn [negb]; [apply field_ok; exact Hu|injection Hu as <-; reflexivity]. }
  rewrite L1, L2.
  rewrite (fold_mp_reach (c_two_byte cd) tl u0 s eq_refl eq_refl Efold) in Hmr.
  rewrite (fold_mp_unreach (c_two_byte cd) tl u0 s eq_refl eq_refl Efold) in Hmu.
  assert (L3 : match first_code 14 tl with None => Some [] | Some t => mp_reach_keys cd (t_val t) end = Some (mpk mpr)).
  { destruct (first_code 14 tl) as [t|]; cbn [option_map mp_stage] in Hmr.
    - destruct Hmr as ([[f e] nh] & Hx & ->). cbn [mpk]. eapply mp_reach_ok; eassumption.
    - subst mpr. reflexivity. }
  assert (L4 : match first_code 15 tl with None => Some [] | Some t => mp_unreach_keys cd (t_val t) end = Some (mpuk mpu)).
  { destruct (first_code 15 tl) as [t|]; cbn [option_map mp_stage] in Hmu.
    - destruct Hmu as ([f e] & Hx & ->). cbn [mpuk]. eapply mp_unreach_ok; eassumption.
    - subst mpu. reflexivity. }
  rewrite L3, L4. reflexivity.
Qed.

Lemma keys_nil_iff fam (l : list (N * nlri)) : is_nil_b (keys fam l) = is_nil l.
Proof. destruct l; reflexivity. Qed.

(* ------------------------------------------------ (A) Spec says withdraw => the parsed UPDATE is faulty *)
Theorem C05_judge_faulty cd hdr frame reach mp_reach unreach mp_unreach attrs errs :
  parse_update no_other cd hdr frame = Ok (URoutes reach mp_reach unreach mp_unreach attrs errs) ->
  v_must_withdraw (judge cd frame) = true ->
  existsb err_fatal errs = true \/ mandatory_missing reach mp_reach attrs = true.
Proof.
  intros Hp Hmw.
  destruct (parse_update_ok_inv _ _ _ _ Hp)
    as (wl & wd & c & al & s & arem & Hloc & Hloop &
        [[_ Hu]|[Heor (reach0 & unreach0 & mpr & mpu & Hr & Hun & Hmr & Hmu & Hfin)]]); [discriminate|].
  rewrite post_errs_mp_reach in Hmr. rewrite post_errs_mp_unreach in Hmu.
  destruct (judge_of_parse _ _ _ _ _ _ _ _ _ _ _ _ _ Hloc Hloop Hr Hun Hmr Hmu) as (tl & ok & Hfold & Hok & Hj).
  rewrite Hj in Hmw. cbn [v_must_withdraw verdict_of] in Hmw.
  destruct (upd_finish_routes _ _ _ _ _ _ _ _ _ _ _ _ Hfin) as (-> & -> & -> & _).
  destruct (fold_facts (c_two_byte cd) tl u0 [] s (fun k => eq_refl) Hfold) as (F1 & F2 & F3).
  apply orb_true_iff in Hmw. destruct Hmw as [Hmw|Hmiss]; [apply orb_true_iff in Hmw; destruct Hmw as [Hnok|Hbad]|].
  - left. apply post_errs_arem. destruct ok; [discriminate|]. intro E. apply Hok in E. discriminate.
  - left. apply post_errs_mono. apply existsb_exists in Hbad. destruct Hbad as (x & Hin & Hnd).
    apply filter_In in Hin. destruct Hin as [Hin Hb]. apply negb_true_iff in Hnd. eapply F3; eassumption.
  - apply andb_true_iff in Hmiss. destruct Hmiss as [Hne Hcond].
    assert (Hs1 : forall k, seen s k = has_tlv k tl) by (intro k; rewrite F1; apply orb_false_r).
    apply orb_true_iff in Hcond. destruct Hcond as [Hcond|Hcond].
    + left. apply post_errs_origin; [|rewrite !Hs1; exact Hcond].
      destruct (len frame - (23 + wl + al) =? 0) eqn:Erl; [|reflexivity]. cbn [negb orb].
      cbn [negb] in Hr. injection Hr as <-. cbn [keys map app] in Hne.
      destruct (u_mp_reach s); [reflexivity|]. cbn [mp_stage] in Hmr. subst mpr. discriminate.
    + right. apply andb_true_iff in Hcond. destruct Hcond as [Ha1 Hn3].
      rewrite keys_nil_iff in Ha1. apply negb_true_iff in Ha1. rewrite Ha1.
      rewrite post_errs_nexthop.
      rewrite (fold_nexthop (c_two_byte cd) tl u0 s eq_refl Hfold) by (apply negb_true_iff; exact Hn3).
      unfold mandatory_missing. cbn. rewrite !orb_true_r. reflexivity.
Qed.

(* ------------------------------------------------ (B) a parsed UPDATE is locatable, and announces what the Spec lists *)
Definition announced_of (u : pupdate) : list key :=
  match u with UEor _ => [] | URoutes r mr _ _ _ _ => mpk r ++ mpk mr end.

Lemma upd_finish_eor cd s reach unreach mpr mpu f :
  upd_finish cd s reach unreach mpr mpu = Ok (UEor f) ->
  is_nil reach = true /\ match mpr with None => true | Some (_, e, _) => is_nil e end = true.
Proof.
  unfold upd_finish. intro H.
  destruct mpu as [[fam [|e es]]|].
  - destruct (is_nil reach); [|cbn [andb] in H; apply bind_ok in H; destruct H as (a & _ & H); discriminate].
    destruct (match mpr with None => true | Some (_, e, _) => is_nil e end);
      [split; reflexivity|cbn [andb] in H; apply bind_ok in H; destruct H as (a & _ & H); discriminate].
  - apply bind_ok in H. destruct H as (a & _ & H). discriminate.
  - apply bind_ok in H. destruct H as (a & _ & H). discriminate.
Qed.

Lemma mpk_empty mpr : match mpr with None => true | Some (_, e, _) => is_nil e end = true -> mpk mpr = [].
Proof. destruct mpr as [[[f e] nh]|]; [|reflexivity]. destruct e; [reflexivity|discriminate]. Qed.

Theorem C05_parsed_is_locatable cd hdr frame u :
  parse_update no_other cd hdr frame = Ok u ->
  v_locatable (judge cd frame) = true /\ v_announced (judge cd frame) = announced_of u.
Proof.
  intro Hp.
  destruct (parse_update_ok_inv _ _ _ _ Hp)
    as (wl & wd & c & al & s & arem & Hloc & Hloop &
        [[Heor ->]|[Heor (reach0 & unreach0 & mpr & mpu & Hr & Hun & Hmr & Hmu & Hfin)]]).
  - (* IPv4 end-of-RIB: nothing in the frame *)
    destruct (proj2 (upd_locate_spec no_other no_other_consumes hdr frame) _ _ _ _ Hloc) as (Hal & Hwd & Hlen).
    assert (al = 0 /\ wl = 0 /\ len c = 0) as (-> & -> & Hc) by lia.
    assert (c = []) as -> by (destruct c; [reflexivity|rewrite len_cons in Hc; lia]).
    assert (wd = []) as -> by (destruct wd; [reflexivity|cbn in Hwd; lia]).
    rewrite (judge_cases _ _ _ _ _ _ _ Hloc). cbn. split; reflexivity.
  - rewrite post_errs_mp_reach in Hmr. rewrite post_errs_mp_unreach in Hmu.
    destruct (judge_of_parse _ _ _ _ _ _ _ _ _ _ _ _ _ Hloc Hloop Hr Hun Hmr Hmu) as (tl & ok & Hfold & Hok & Hj).
    rewrite Hj. cbn [v_locatable v_announced verdict_of]. split; [reflexivity|].
    destruct u as [f|r' mr' ur' mur' attrs errs].
    + destruct (upd_finish_eor _ _ _ _ _ _ _ Hfin) as [Hn He].
      destruct reach0; [|discriminate]. rewrite (mpk_empty _ He). reflexivity.
    + destruct (upd_finish_routes _ _ _ _ _ _ _ _ _ _ _ _ Hfin) as (_ & -> & -> & _).
      cbn [announced_of]. f_equal.
      * destruct reach0; reflexivity.
      * destruct (match mpr with None => true | Some (_, e, _) => is_nil e end) eqn:E; [|reflexivity].
        rewrite (mpk_empty _ E). reflexivity.
Qed.

(* ------------------------------------------------ (C) a reset only if the Spec cannot locate the NLRI *)
Definition nofail {A} (r : res A) : Prop := match r with Fail _ => False | _ => True end.

Lemma nf_bind {A B} (e : res A) (k : A -> res B) : nofail e -> (forall a, nofail (k a)) -> nofail (bind e k).
Proof. destruct e; cbn; auto. Qed.

Lemma count_hops_nofail : forall fuel b acc, nofail (count_hops_fuel fuel b acc).
Proof.
  induction fuel as [|f IH]; intros b acc; destruct b as [|t [|cnt r]]; cbn [count_hops_fuel]; try exact I.
  apply IH.
Qed.

Lemma take_prefix_nofail : forall fuel b n, nofail (take_prefix_fuel fuel b n).
Proof.
  induction fuel as [|f IH]; intros b n; cbn [take_prefix_fuel]; (destruct (n =? 0); [exact I|]);
    destruct b as [|t [|cnt r]]; try exact I.
  destruct (t =? 2).
  - destruct (Nat.ltb _ _); [exact I|]. apply nf_bind; [apply IH|intros; exact I].
  - destruct (Nat.ltb _ _); [exact I|]. destruct (t =? 1); (apply nf_bind; [apply IH|intros; exact I]).
Qed.

Lemma bin_of_nofail a : nofail (bin_of a).
Proof. unfold bin_of. destruct (a_data a); exact I. Qed.

Lemma reconcile_as4_nofail attrs : nofail (reconcile_as4 attrs).
Proof.
  unfold reconcile_as4.
  apply nf_bind.
  - destruct (find_code 18 _) as [a4|]; [|exact I]. destruct (find_code 7 _) as [agg|]; [|exact I].
    apply nf_bind; [apply bin_of_nofail|]. intros b. destruct b as [|x1 [|x2 [|x3 [|x4 b]]]]; try exact I.
    destruct (_ =? 23456); [|exact I]. apply nf_bind; [apply bin_of_nofail|]. intros; exact I.
  - intros [attrs3 ig]. destruct ig; [exact I|].
    destruct (find_code 17 attrs) as [p4|]; [|exact I]. destruct (find_code 2 attrs3) as [p|]; [|exact I].
    apply nf_bind; [apply bin_of_nofail|]. intro b. apply nf_bind; [apply bin_of_nofail|]. intro b4.
    apply nf_bind; [|intros; exact I].
    unfold as_path_reconcile, count_hops.
    apply nf_bind; [apply count_hops_nofail|]. intro c1. apply nf_bind; [apply count_hops_nofail|]. intro c2.
    destruct (c1 <? c2); [exact I|]. apply nf_bind; [apply take_prefix_nofail|]. intros; exact I.
Qed.

Lemma upd_finish_nofail cd s reach unreach mpr mpu : nofail (upd_finish cd s reach unreach mpr mpu).
Proof.
  unfold upd_finish.
  assert (Hrec : nofail (if c_two_byte cd then reconcile_as4 (u_attrs s) else Ok (u_attrs s)))
    by (destruct (c_two_byte cd); [apply reconcile_as4_nofail|exact I]).
  destruct mpu as [[fam [|e es]]|].
  - destruct (_ && _); [exact I|]. apply nf_bind; [exact Hrec|]. intros; exact I.
  - apply nf_bind; [exact Hrec|]. intros; exact I.
  - apply nf_bind; [exact Hrec|]. intros; exact I.
Qed.

Lemma judge_parts_unloc1 cd wd nl tl ok :
  (if is_nil_b nl then Some [] else nlri_field cd F_IPV4 true nl) = None -> judge_parts cd wd nl tl ok = unlocatable.
Proof. intro H. unfold judge_parts. rewrite H. destruct (_ || _); reflexivity. Qed.
Lemma judge_parts_unloc2 cd wd nl tl ok :
  (if is_nil_b wd then Some [] else nlri_field cd F_IPV4 false wd) = None -> judge_parts cd wd nl tl ok = unlocatable.
Proof.
  intro H. unfold judge_parts. rewrite H. destruct (_ || _); [reflexivity|].
  destruct (if is_nil_b nl then _ else _); reflexivity.
Qed.
Lemma judge_parts_unloc3 cd wd nl tl ok :
  match first_code 14 tl with None => Some [] | Some t => mp_reach_keys cd (t_val t) end = None ->
  judge_parts cd wd nl tl ok = unlocatable.
Proof.
  intro H. unfold judge_parts. rewrite H. destruct (_ || _); [reflexivity|].
  destruct (if is_nil_b nl then _ else _); [|reflexivity]. destruct (if is_nil_b wd then _ else _); reflexivity.
Qed.
Lemma judge_parts_unloc4 cd wd nl tl ok :
  match first_code 15 tl with None => Some [] | Some t => mp_unreach_keys cd (t_val t) end = None ->
  judge_parts cd wd nl tl ok = unlocatable.
Proof.
  intro H. unfold judge_parts. rewrite H. destruct (_ || _); [reflexivity|].
  destruct (if is_nil_b nl then _ else _); [|reflexivity]. destruct (if is_nil_b wd then _ else _); [|reflexivity].
  destruct (match first_code 14 tl with None => _ | Some t => _ end); reflexivity.
Qed.

Theorem C05_reset_only_if_unlocatable cd hdr frame e :
  parse_update no_other cd hdr frame = Fail e -> v_locatable (judge cd frame) = false.
Proof.
  intro H. unfold parse_update in H.
  destruct (upd_locate hdr frame) as [[[[wl wd] c] al]|e0|t0] eqn:Hloc; cbn [bind] in H; [| |discriminate].
  2:{ unfold judge. rewrite (locate_fail _ _ _ Hloc). reflexivity. }
  destruct (proj2 (upd_locate_spec no_other no_other_consumes hdr frame) _ _ _ _ Hloc) as (Hal & Hwd & Hlen).
  pose proof (attr_loop_sim (c_two_byte cd) (S (length c)) c al u0 ltac:(lia) Hal) as Hsim.
  rewrite (judge_cases _ _ _ _ _ _ _ Hloc). unfold nat_of in *.
  destruct (tlv_scan (S (length c)) (firstn (N.to_nat al) c)) as [tl ok]. cbn [fst snd].
  destruct (tlv_fold (c_two_byte cd) u0 tl) as [s|] eqn:Efold.
  2:{ (* MP_REACH_NLRI or MP_UNREACH_NLRI twice *)
      apply fold_none in Efold. unfold judge_parts.
      assert (Ed : Nat.ltb 1 (count_code 14 tl) || Nat.ltb 1 (count_code 15 tl) = true).
      { destruct Efold as [[Hs _]|[Hc|[[Hs _]|Hc]]]; try discriminate; apply orb_true_iff;
          [left|right]; apply PeanoNat.Nat.ltb_lt; lia. }
      rewrite Ed. reflexivity. }
  destruct Hsim as (r & Hloop & Hok). rewrite Hloop in H. cbn [bind] in H.
  destruct ((len frame - (23 + wl + al) =? 0) && (al =? 0) && (wl =? 0)); [discriminate|].
  set (s2 := post_errs (len frame - (23 + wl + al)) r s) in *.
  (* legacy NLRI *)
  destruct (if negb (len frame - (23 + wl + al) =? 0)
            then ap <- req MAL (fam_lookup (c_fams cd) F_IPV4);; nlri_list no_other F_IPV4 ap true (skipn (N.to_nat al) c)
            else Ok []) as [reach|e1|t1] eqn:Hr; cbn [bind] in H; [| |discriminate].
  2:{ rewrite judge_parts_unloc1; [reflexivity|].
      rewrite is_nil_len, len_skipn.
      replace (len c - N.of_nat (N.to_nat al)) with (len frame - (23 + wl + al)) by lia.
      destruct (len frame - (23 + wl + al) =? 0); cbn [negb] in Hr; [discriminate|].
      eapply field_fail. exact Hr. }
  (* withdrawn routes *)
  assert (Hun : (if 0 <? wl then ap <- req MAL (fam_lookup (c_fams cd) F_IPV4);;
                    (if Nat.ltb (length wd) (N.to_nat wl) then Panic 21 else nlri_list no_other F_IPV4 ap false wd)
                 else Ok []) = (if 0 <? wl then field_parse cd F_IPV4 false wd else Ok [])).
  { destruct (0 <? wl); [|reflexivity]. apply (unreach_stage cd wl wd Hwd). }
  rewrite Hun in H. clear Hun.
  destruct (if 0 <? wl then field_parse cd F_IPV4 false wd else Ok []) as [unreach|e1|t1] eqn:Hu; cbn [bind] in H;
    [| |discriminate].
  2:{ rewrite judge_parts_unloc2; [reflexivity|].
      rewrite is_nil_len. replace (len wd =? 0) with (negb (0 <? wl)) by (unfold len; lia).
      destruct (0 <? wl); cbn [negb]; [|discriminate]. eapply field_fail. exact Hu. }
  (* MP_REACH_NLRI *)
  assert (Hmr : u_mp_reach s2 = option_map t_val (first_code 14 tl)).
  { subst s2. rewrite post_errs_mp_reach. apply (fold_mp_reach (c_two_byte cd) tl u0 s eq_refl eq_refl Efold). }
  assert (Hmu : u_mp_unreach s2 = option_map t_val (first_code 15 tl)).
  { subst s2. rewrite post_errs_mp_unreach. apply (fold_mp_unreach (c_two_byte cd) tl u0 s eq_refl eq_refl Efold). }
  rewrite Hmr, Hmu in H.
  destruct (first_code 14 tl) as [t14|] eqn:E14; cbn [option_map] in H.
  - destruct (upd_mp_reach no_other cd (t_val t14)) as [x|e1|t1] eqn:Hx; cbn [bind] in H; [| |discriminate].
    2:{ rewrite judge_parts_unloc3; [reflexivity|]. rewrite E14. eapply mp_reach_fail. exact Hx. }
    destruct (first_code 15 tl) as [t15|] eqn:E15; cbn [option_map] in H.
    + destruct (upd_mp_unreach no_other cd (t_val t15)) as [y|e1|t1] eqn:Hy; cbn [bind] in H; [| |discriminate].
      2:{ rewrite judge_parts_unloc4; [reflexivity|]. rewrite E15. eapply mp_unreach_fail. exact Hy. }
      pose proof (upd_finish_nofail cd s2 reach unreach (Some x) (Some y)) as Hnf. rewrite H in Hnf. destruct Hnf.
    + cbn [bind] in H.
      pose proof (upd_finish_nofail cd s2 reach unreach (Some x) None) as Hnf. rewrite H in Hnf. destruct Hnf.
  - cbn [bind] in H.
    destruct (first_code 15 tl) as [t15|] eqn:E15; cbn [option_map] in H.
    + destruct (upd_mp_unreach no_other cd (t_val t15)) as [y|e1|t1] eqn:Hy; cbn [bind] in H; [| |discriminate].
      2:{ rewrite judge_parts_unloc4; [reflexivity|]. rewrite E15. eapply mp_unreach_fail. exact Hy. }
      pose proof (upd_finish_nofail cd s2 reach unreach None (Some y)) as Hnf. rewrite H in Hnf. destruct Hnf.
    + cbn [bind] in H.
      pose proof (upd_finish_nofail cd s2 reach unreach None None) as Hnf. rewrite H in Hnf. destruct Hnf.
Qed.

(* ------------------------------------------------ withdrawn prefixes, and the statements over raw bytes *)
Definition withdrawn_of (u : pupdate) : list key :=
  match u with UEor _ => [] | URoutes _ _ ur mur _ _ => mpuk ur ++ mpuk mur end.

Lemma upd_finish_unreach cd s reach unreach mpr mpu u :
  upd_finish cd s reach unreach mpr mpu = Ok u -> withdrawn_of u = keys F_IPV4 unreach ++ mpuk mpu.
Proof.
  unfold upd_finish. intro H.
  assert (Hu : mpuk (if is_nil unreach then None else Some (F_IPV4, unreach)) = keys F_IPV4 unreach)
    by (destruct unreach; reflexivity).
  destruct mpu as [[fam [|e es]]|].
  - destruct (is_nil reach && _ && is_nil unreach && _ && _) eqn:E.
    + injection H as <-. repeat (apply andb_true_iff in E; destruct E as [E ?]).
      destruct unreach; [reflexivity|discriminate].
    + apply bind_ok in H. destruct H as (a & _ & H). injection H as <-. cbn [withdrawn_of]. rewrite Hu. reflexivity.
  - apply bind_ok in H. destruct H as (a & _ & H). injection H as <-. cbn [withdrawn_of]. rewrite Hu. reflexivity.
  - apply bind_ok in H. destruct H as (a & _ & H). injection H as <-. cbn [withdrawn_of]. rewrite Hu. reflexivity.
Qed.

Theorem C05_parsed_withdrawn cd hdr frame u :
  parse_update no_other cd hdr frame = Ok u -> v_withdrawn (judge cd frame) = withdrawn_of u.
Proof.
  intro Hp.
  destruct (parse_update_ok_inv _ _ _ _ Hp)
    as (wl & wd & c & al & s & arem & Hloc & Hloop &
        [[Heor ->]|[Heor (reach0 & unreach0 & mpr & mpu & Hr & Hun & Hmr & Hmu & Hfin)]]).
  - destruct (proj2 (upd_locate_spec no_other no_other_consumes hdr frame) _ _ _ _ Hloc) as (Hal & Hwd & Hlen).
    assert (al = 0 /\ wl = 0 /\ len c = 0) as (-> & -> & Hc) by lia.
    assert (c = []) as -> by (destruct c; [reflexivity|rewrite len_cons in Hc; lia]).
    assert (wd = []) as -> by (destruct wd; [reflexivity|cbn in Hwd; lia]).
    rewrite (judge_cases _ _ _ _ _ _ _ Hloc). reflexivity.
  - rewrite post_errs_mp_reach in Hmr. rewrite post_errs_mp_unreach in Hmu.
    destruct (judge_of_parse _ _ _ _ _ _ _ _ _ _ _ _ _ Hloc Hloop Hr Hun Hmr Hmu) as (tl & ok & Hfold & Hok & Hj).
    rewrite Hj. cbn [v_withdrawn verdict_of]. symmetry. eapply upd_finish_unreach. exact Hfin.
Qed.

(* an UPDATE frame that parses was parsed by the UPDATE arm *)
Lemma parse_message_update p cd frame u :
  parse_message no_other p cd frame = Ok (PUpdate u) ->
  exists hdr, parse_update no_other cd hdr frame = Ok u.
Proof.
  unfold parse_message. intro H.
  destruct (len frame <? 19); [discriminate|].
  destruct (nth_error frame 18) as [code|]; cbn [must bind] in H; [|discriminate].
  destruct (nth_error frame 16) as [b16|]; cbn [must bind] in H; [|discriminate].
  destruct (nth_error frame 17) as [b17|]; cbn [must bind] in H; [|discriminate].
  destruct (N.eq_dec code 2) as [->|N2].
  { exists (mkn 1 2 [b16; b17]).
    destruct (parse_update no_other cd (mkn 1 2 [b16; b17]) frame) as [u'| |]; cbn [bind] in H; try discriminate.
    injection H as <-. reflexivity. }
  exfalso.
  destruct (N.eq_dec code 1) as [->|N1].
  { unfold parse_open in H.
    repeat match type of H with
           | (if ?b then _ else _) = _ => destruct b
           | (match ?x with _ => _ end) = _ => destruct x
           | bind ?e _ = _ => destruct e as [[? ?]| |]; cbn [bind] in H
           end; discriminate. }
  destruct (N.eq_dec code 3) as [->|N3].
  { destruct (len frame <? 21); [discriminate|]. destruct (skipn 19 frame) as [|? [|? ?]]; discriminate. }
  destruct (N.eq_dec code 4) as [->|N4]; [destruct (negb _); discriminate|].
  destruct (N.eq_dec code 5) as [->|N5].
  { destruct (len frame <? 23); [discriminate|]. destruct (23 <? len frame); [discriminate|].
    destruct (skipn 19 frame) as [|? [|? [|? [|? ?]]]]; discriminate. }
  destruct code as [|q]; [discriminate|].
  do 3 (destruct q as [q|q|]; try discriminate; try congruence).
Qed.

Lemma parse_message_update_fail p cd frame e :
  nth_error frame 18 = Some 2 -> parse_message no_other p cd frame = Fail e ->
  exists hdr e', parse_update no_other cd hdr frame = Fail e'.
Proof.
  unfold parse_message. intros H18 H.
  destruct (len frame <? 19) eqn:E19.
  { apply nth_error_Some_len in H18 || idtac. exfalso.
    assert (Hn : nth_error frame 18 <> None) by congruence. apply nth_error_Some in Hn. unfold len in E19. lia. }
  rewrite H18 in H. cbn [must bind] in H.
  destruct (nth_error frame 16) as [b16|]; cbn [must bind] in H; [|discriminate].
  destruct (nth_error frame 17) as [b17|]; cbn [must bind] in H; [|discriminate].
  exists (mkn 1 2 [b16; b17]).
  destruct (parse_update no_other cd (mkn 1 2 [b16; b17]) frame) as [u'|e'|]; cbn [bind] in H; try discriminate.
  exists e'. reflexivity.
Qed.

Lemma in_mpk k m : In k (mpk m) -> exists f en nh x, m = Some (f, en, nh) /\ In x en /\ k = (f, fst x, snd x).
Proof.
  destruct m as [[[f en] nh]|]; [|intros []]. cbn [mpk]. unfold keys. intro H. apply in_map_iff in H.
  destruct H as (x & <- & Hx). exists f, en, nh, x. repeat split; auto.
Qed.
Lemma in_mpuk k m : In k (mpuk m) -> exists f en x, m = Some (f, en) /\ In x en /\ k = (f, fst x, snd x).
Proof.
  destruct m as [[f en]|]; [|intros []]. cbn [mpuk]. unfold keys. intro H. apply in_map_iff in H.
  destruct H as (x & <- & Hx). exists f, en, x. repeat split; auto.
Qed.

(* (1) over raw bytes: an UPDATE frame the RFC 7606 classifier calls faulty announces nothing, and
   every prefix it announces is delivered as a withdrawal *)
Theorem C05_bad_update_installs_nothing_bytes p cd frame u e :
  parse_message no_other p cd frame = Ok (PUpdate u) ->
  v_must_withdraw (judge cd frame) = true ->
  let out := validate_update u e in
  (forall m, In m out -> is_reach m = false) /\
  (forall k, In k (v_announced (judge cd frame)) ->
     exists f en x, In (VUnreach f en) out /\ In x en /\ k = (f, fst x, snd x)).
Proof.
  intros Hpm Hmw. cbv zeta. destruct (parse_message_update _ _ _ _ Hpm) as (hdr & Hp).
  destruct (C05_parsed_is_locatable _ _ _ _ Hp) as [_ Han]. rewrite Han.
  destruct u as [f|r mr ur mur attrs errs].
  - split; [intros m [<-|[]]; reflexivity|intros k []].
  - pose proof (C05_judge_faulty _ _ _ _ _ _ _ _ _ Hp Hmw) as Hf.
    destruct (C05_bad_update_installs_nothing r mr ur mur attrs errs e Hf) as [H1 H2].
    split; [exact H1|]. intros k Hk. cbn [announced_of] in Hk. apply in_app_or in Hk.
    destruct Hk as [Hk|Hk]; apply in_mpk in Hk; destruct Hk as (f & en & nh & x & -> & Hx & ->);
      exists f, en, x; (split; [|split; [exact Hx|reflexivity]]); apply (H2 f en nh); apply in_or_app;
      [left|right]; left; reflexivity.
Qed.

(* (1b) over raw bytes: after the messages of a faulty UPDATE none of its announced prefixes is in the RIB *)
Theorem C05_bad_update_leaves_no_route_bytes p cd frame u e (r : rib) :
  parse_message no_other p cd frame = Ok (PUpdate u) ->
  v_must_withdraw (judge cd frame) = true ->
  forall k, In k (v_announced (judge cd frame)) -> has_key (apply_all r (validate_update u e)) k = false.
Proof.
  intros Hpm Hmw k Hk.
  destruct (C05_bad_update_installs_nothing_bytes p cd frame u e Hpm Hmw) as [H1 H2].
  destruct (H2 k Hk) as (f & en & x & Hin & Hx & ->).
  eapply apply_no_reach_removes; eassumption.
Qed.

(* (2) over raw bytes: every withdrawal the Spec finds in the frame is delivered *)
Theorem C05_withdrawals_survive_bytes p cd frame u e :
  parse_message no_other p cd frame = Ok (PUpdate u) ->
  forall k, In k (v_withdrawn (judge cd frame)) ->
  exists f en x, In (VUnreach f en) (validate_update u e) /\ In x en /\ k = (f, fst x, snd x).
Proof.
  intros Hpm k Hk. destruct (parse_message_update _ _ _ _ Hpm) as (hdr & Hp).
  rewrite (C05_parsed_withdrawn _ _ _ _ Hp) in Hk.
  destruct u as [f|r mr ur mur attrs errs]; [destruct Hk|].
  cbn [withdrawn_of] in Hk. apply in_app_or in Hk.
  destruct Hk as [Hk|Hk]; apply in_mpuk in Hk; destruct Hk as (f & en & x & -> & Hx & ->);
    exists f, en, x; (split; [|split; [exact Hx|reflexivity]]);
    apply C05_withdrawals_survive_errors; apply in_or_app; [left|right]; left; reflexivity.
Qed.

(* (3) over raw bytes: parsing an UPDATE frame ends in a session-reset NOTIFICATION only when the
   Spec cannot locate or parse its NLRI; validation itself never resets (validate_update is total) *)
Theorem C05_reset_only_if_nlri_unlocatable p cd frame e :
  nth_error frame 18 = Some 2 -> parse_message no_other p cd frame = Fail e ->
  v_locatable (judge cd frame) = false.
Proof.
  intros H18 H. destruct (parse_message_update_fail _ _ _ _ H18 H) as (hdr & e' & Hp).
  eapply C05_reset_only_if_unlocatable. exact Hp.
Qed.

(* Non-vacuity: a frame the Spec calls faulty that parses (AGGREGATOR with the transitive bit cleared) *)
Example judge_faulty_example :
  let frame := [255;255;255;255;255;255;255;255;255;255;255;255;255;255;255;255;0;56;2;0;0;0;29;
                64;1;1;0; 64;2;6;2;1;0;0;253;233; 64;3;4;192;0;2;1; 128;7;6;253;233;1;1;1;1; 24;10;0;0] in
  (exists u, parse_message no_other Debug codec_v4 frame = Ok (PUpdate u)) /\
  v_must_withdraw (judge codec_v4 frame) = true /\ v_announced (judge codec_v4 frame) = [(F_IPV4, 0, NV4 24 [10;0;0;0])].
Proof. cbv zeta. split; [eexists; vm_compute; reflexivity|split; vm_compute; reflexivity]. Qed.

(* ... and one the Spec cannot locate (attribute length beyond the frame), which is the reset case *)
Example judge_unlocatable_example :
  let frame := [255;255;255;255;255;255;255;255;255;255;255;255;255;255;255;255;0;23;2;0;0;0;9] in
  (exists e, parse_message no_other Debug codec_v4 frame = Fail e) /\ v_locatable (judge codec_v4 frame) = false.
Proof. cbv zeta. split; [eexists; vm_compute; reflexivity|vm_compute; reflexivity]. Qed.

Theorem C05_parsed_update_is_locatable p cd frame u :
  parse_message no_other p cd frame = Ok (PUpdate u) ->
  v_locatable (judge cd frame) = true /\ v_announced (judge cd frame) = announced_of u /\
  v_withdrawn (judge cd frame) = withdrawn_of u.
Proof.
  intro Hpm. destruct (parse_message_update _ _ _ _ Hpm) as (hdr & Hp).
  destruct (C05_parsed_is_locatable _ _ _ _ Hp) as [H1 H2].
  split; [exact H1|]. split; [exact H2|]. apply (C05_parsed_withdrawn _ _ _ _ Hp).
Qed.
