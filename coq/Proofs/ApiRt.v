(* C17  attr_to_api then attr_from_api, attribute type by attribute type. *)
From Coq Require Import List ZArith NArith Bool Lia ZifyBool ZifyNat ZifyN.
From RB Require Import Base.Val Model.Api Spec.ApiSpec Proofs.ApiBytes Proofs.ApiStr Proofs.ApiSeg.
Import ListNotations.
Open Scope N_scope.

Local Ltac Zify.zify_post_hook ::= Z.div_mod_to_equations.
Arguments ip4_to_string : simpl never.
Arguments ip4_of_string : simpl never.
Arguments be32 : simpl never.
Arguments be16 : simpl never.
Arguments of_be32 : simpl never.
Arguments of_be16 : simpl never.
Arguments of_bytes : simpl never.
Arguments to_bytes : simpl never.
Arguments read_n_u32 : simpl never.
Arguments aspath_segs : simpl never.
Arguments aspath_valid : simpl never.
Arguments read_extcom : simpl never.
Arguments write_extcom : simpl never.
Arguments Nat.div : simpl never.
Arguments Nat.modulo : simpl never.
Arguments N.of_nat : simpl never.

(* ------------------------------------------------------------------ *)
(* lists of extended communities                                       *)
Lemma extcoms_roundtrip : forall k b, length b = (8 * k)%nat -> bytes_ok b ->
  exists xs, read_extcoms (chunks 8 k b) = Ok xs /\ write_extcoms xs = Some b.
Proof.
  induction k as [|k IH]; intros b Hlen Hok.
  - destruct b; [|discriminate]. exists []. split; reflexivity.
  - rewrite <- (firstn_skipn 8 b) in Hok. apply bytes_ok_app_inv in Hok. destruct Hok as [Hf Hs].
    assert (Hfl : length (firstn 8 b) = 8%nat) by (apply firstn_length_le; lia).
    destruct (extcom_roundtrip (firstn 8 b) Hfl Hf) as [x [Hr Hw]].
    destruct (IH (skipn 8 b)) as [xs [Hrs Hws]]; [rewrite skipn_length; lia|exact Hs|].
    exists (x :: xs). cbn [chunks read_extcoms]. rewrite Hr. cbn [bind]. rewrite Hrs. cbn [bind].
    split; [reflexivity|]. cbn [write_extcoms]. rewrite Hw, Hws, firstn_skipn. reflexivity.
Qed.

Lemma write_extcom_len : forall x b, extcom_in_range x -> write_extcom x = Some b ->
  length b = 8%nat /\ bytes_ok b.
Proof.
  intros x b Hr H. unfold write_extcom, ensure_u8, ensure_u16 in H.
  destruct x; cbn [extcom_in_range] in Hr; try discriminate.
  5: { destruct (Nat.eqb_spec (length value) 8) as [E|E]; [|discriminate].
       injection H as <-. split; [exact E|]. destruct Hr as [_ Hr]. exact Hr. }
  all: repeat match type of H with
  | context [if ?c then _ else _] => destruct c eqn:?
  | context [match ip4_of_string ?s with _ => _ end] => destruct (ip4_of_string s)
  end; try discriminate;
  injection H as <-; (split; [reflexivity|]);
  try (destruct tr); try (destruct terminal); try (destruct sample); unfold trbit, be16, be32;
  repeat constructor; lia.
Qed.

Lemma write_extcoms_len : forall l b, Forall extcom_in_range l -> write_extcoms l = Some b ->
  Nat.modulo (length b) 8 = 0%nat /\ bytes_ok b.
Proof.
  induction l as [|x l IH]; intros b Hr H; cbn [write_extcoms] in H.
  - injection H as <-. split; [reflexivity|constructor].
  - inversion Hr as [|? ? Hx Hl]; subst.
    destruct (write_extcom x) as [bx|] eqn:Ex; [|discriminate].
    destruct (write_extcoms l) as [bs|] eqn:Es; [|discriminate].
    injection H as <-. destruct (write_extcom_len x bx Hx Ex) as [Hlen Hok].
    destruct (IH bs Hl eq_refl) as [Hm Hoks]. split.
    + rewrite app_length, Hlen. replace (8 + length bs)%nat with (length bs + 1 * 8)%nat by lia.
      rewrite Nat.mod_add by lia. exact Hm.
    + apply bytes_ok_app; assumption.
Qed.

Lemma assoc_in : forall c l v, assoc c l = Some v -> In (c, v) l.
Proof.
  intros c l v. induction l as [|[k w] l IH]; cbn [assoc]; [discriminate|].
  destruct (N.eqb_spec c k) as [->|_]; intros H; [injection H as <-; left; reflexivity|right; apply IH; exact H].
Qed.

Section Roundtrip.
  Variable v6p : N -> list N.
  Variable v6r : list N -> option N.
  Hypothesis v6_rt : forall a, a < 2 ^ 128 -> v6r (v6p a) = Some a.
  Hypothesis v6_not4 : forall a, a < 2 ^ 128 -> ip4_of_string (v6p a) = None.

  Definition canon_of (a : attr) : attr :=
    mkAttr (a_code a)
           (match canonical_flags (a_code a) with Some f => f | None => a_flags a end)
           (a_data a).

  Theorem to_from_api : forall a, wf_attr a -> core_code (a_code a) = true ->
    exists x, to_api v6p a = Ok x /\ from_api v6r x = Ok (Some (canon_of a)).
  Proof.
    intros [c f d] [Hc [Hf [Hcb Hd]]] Hcore. cbn [a_code a_flags a_data] in *.
    unfold canon_of. cbn [a_code a_flags a_data]. unfold wf_data in Hd.
    destruct (canonical_flags c) as [f'|] eqn:E.
    - apply assoc_in in E. cbn [canon_table In] in E.
      repeat destruct E as [E|E]; try contradiction; injection E as <- <-; try discriminate Hcore.
      all: cbn in Hd.
      Show.
