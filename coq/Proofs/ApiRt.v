(* C17  attr_to_api then attr_from_api, attribute type by attribute type. *)
From Coq Require Import List ZArith NArith Bool Lia ZifyBool ZifyNat ZifyN.
From RB Require Import Base.Val Model.Api Spec.ApiSpec Proofs.ApiBytes Proofs.ApiStr Proofs.ApiSeg.
Import ListNotations.
Open Scope N_scope.

Local Ltac Zify.zify_post_hook ::= Z.div_mod_to_equations.
Arguments ip4_to_string : simpl never.
Arguments ip4_of_string : simpl never.
Arguments be32 : simpl never.
Arguments be16 : simpl never.
Arguments of_be32 : simpl never.
Arguments of_be16 : simpl never.
Arguments of_bytes : simpl never.
Arguments to_bytes : simpl never.
Arguments read_n_u32 : simpl never.
Arguments aspath_segs : simpl never.
Arguments aspath_valid : simpl never.
Arguments read_extcom : simpl never.
Arguments write_extcom : simpl never.
Arguments Nat.div : simpl never.
Arguments Nat.modulo : simpl never.
Arguments N.of_nat : simpl never.

(* ------------------------------------------------------------------ *)
(* lists of extended communities                                       *)
Lemma extcoms_roundtrip : forall k b, length b = (8 * k)%nat -> bytes_ok b ->
  exists xs, read_extcoms (chunks 8 k b) = Ok xs /\ write_extcoms xs = Some b.
Proof.
  induction k as [|k IH]; intros b Hlen Hok.
  - destruct b; [|discriminate]. exists []. split; reflexivity.
  - rewrite <- (firstn_skipn 8 b) in Hok. apply bytes_ok_app_inv in Hok. destruct Hok as [Hf Hs].
    assert (Hfl : length (firstn 8 b) = 8%nat) by (apply firstn_length_le; lia).
    destruct (extcom_roundtrip (firstn 8 b) Hfl Hf) as [x [Hr Hw]].
    destruct (IH (skipn 8 b)) as [xs [Hrs Hws]]; [rewrite skipn_length; lia|exact Hs|].
    exists (x :: xs). cbn [chunks read_extcoms]. rewrite Hr. cbn [bind]. rewrite Hrs. cbn [bind].
    split; [reflexivity|]. cbn [write_extcoms]. rewrite Hw, Hws, firstn_skipn. reflexivity.
Qed.

Lemma write_extcom_len : forall x b, extcom_in_range x -> write_extcom x = Some b ->
  length b = 8%nat /\ bytes_ok b.
Proof.
  intros x b Hr H. unfold write_extcom, ensure_u8, ensure_u16 in H.
  destruct x; cbn [extcom_in_range] in Hr; try discriminate.
  5: { destruct (Nat.eqb_spec (length value) 8) as [E|E]; [|discriminate].
       injection H as <-. split; [exact E|]. destruct Hr as [_ Hr]. exact Hr. }
  all: repeat match type of H with
  | context [if ?c then _ else _] => destruct c eqn:?
  | context [match ip4_of_string ?s with _ => _ end] => destruct (ip4_of_string s)
  end; try discriminate;
  injection H as <-; (split; [reflexivity|]);
  try (destruct tr); try (destruct terminal); try (destruct sample); unfold trbit, be16, be32;
  repeat constructor; lia.
Qed.

Lemma write_extcoms_len : forall l b, Forall extcom_in_range l -> write_extcoms l = Some b ->
  Nat.modulo (length b) 8 = 0%nat /\ bytes_ok b.
Proof.
  induction l as [|x l IH]; intros b Hr H; cbn [write_extcoms] in H.
  - injection H as <-. split; [reflexivity|constructor].
  - inversion Hr as [|? ? Hx Hl]; subst.
    destruct (write_extcom x) as [bx|] eqn:Ex; [|discriminate].
    destruct (write_extcoms l) as [bs|] eqn:Es; [|discriminate].
    injection H as <-. destruct (write_extcom_len x bx Hx Ex) as [Hlen Hok].
    destruct (IH bs Hl eq_refl) as [Hm Hoks]. split.
    + rewrite app_length, Hlen. replace (8 + length bs)%nat with (length bs + 1 * 8)%nat by lia.
      rewrite Nat.mod_add by lia. exact Hm.
    + apply bytes_ok_app; assumption.
Qed.

Lemma assoc_in : forall c l v, assoc c l = Some v -> In (c, v) l.
Proof.
  intros c l v. induction l as [|[k w] l IH]; cbn [assoc]; [discriminate|].
  destruct (N.eqb_spec c k) as [->|_]; intros H; [injection H as <-; left; reflexivity|right; apply IH; exact H].
Qed.

Section Roundtrip.
  Variable v6p : N -> list N.
  Variable v6r : list N -> option N.
  (* what is assumed of the Ipv6Addr textual form (Display, FromStr): printing then
     parsing gives the address back, and a printed Ipv6 address is not also an Ipv4
     address.  Exercised by the correspondence run, not proved. *)
  Definition v6_contract : Prop :=
    (forall a, a < 2 ^ 128 -> v6r (v6p a) = Some a)
    /\ (forall a, a < 2 ^ 128 -> ip4_of_string (v6p a) = None).

  Definition canon_of (a : attr) : attr :=
    mkAttr (a_code a)
           (match canonical_flags (a_code a) with Some f => f | None => a_flags a end)
           (a_data a).

  Lemma triples_flat : forall k nums, length nums = (3 * k)%nat ->
    flat_map (fun t => be32 (fst (fst t)) ++ be32 (snd (fst t)) ++ be32 (snd t)) (triples nums)
    = flat_map be32 nums.
  Proof.
    induction k as [|k IH]; intros nums H.
    - destruct nums; [reflexivity|discriminate].
    - destruct nums as [|a [|b [|c nums]]]; try (cbn in H; lia).
      cbn [triples flat_map fst snd]. rewrite IH by (cbn in H; lia). rewrite <- !app_assoc. reflexivity.
  Qed.

  Lemma len_check_ok : forall c f b, len_ok b ->
    len_check (Some (mkAttr c f (DBin b))) = Ok (Some (mkAttr c f (DBin b))).
  Proof.
    intros c f b H. unfold len_check, len_ok in *. cbn [a_data].
    destruct (N.ltb_spec 65535 (N.of_nat (length b))); [lia|reflexivity].
  Qed.

  Lemma nonempty_bin_ok : forall c b, b <> [] -> nonempty_bin c b = new_with_bin c b.
  Proof. intros c [|x b] H; [contradiction|reflexivity]. Qed.

  Ltac known_bin d Hd Hok Hlen Hrest :=
    destruct d as [|b|]; try contradiction; destruct Hd as [Hok [Hlen Hrest]].

  Theorem to_from_api : forall a, wf_attr a -> core_code (a_code a) = true ->
    exists x, to_api v6p a = Ok x /\ (v6_contract -> from_api v6r x = Ok (Some (canon_of a))).
  Proof.
    intros [c f d] [Hc [Hf [Hcb Hd]]] Hcore. cbn [a_code a_flags a_data] in *.
    unfold canon_of. cbn [a_code a_flags a_data]. unfold wf_data in Hd. unfold from_api.
    destruct (canonical_flags c) as [f'|] eqn:E.
    - apply assoc_in in E. cbn [canon_table In] in E.
      repeat destruct E as [E|E]; try contradiction; injection E as <- <-; try discriminate Hcore.
      all: cbn in Hd.
      + (* ORIGIN *)
        destruct d as [v| |]; try contradiction. exists (AOrigin v). split; [reflexivity|intros [v6_rt v6_not4]].
        cbn [from_api_unchecked]. destruct (N.ltb_spec 2 v); [lia|]. reflexivity.
      + (* AS_PATH *)
        known_bin d Hd Hok Hlen Hwf.
        destruct (aspath_roundtrip b Hwf Hok (S (length b))) as [segs [Hs [Hk He]]]; [lia|].
        exists (AAsPath segs). split; [cbn; rewrite Hs; reflexivity|intros [v6_rt v6_not4]].
        cbn [from_api_unchecked]. rewrite Hk, He. cbn. apply len_check_ok. exact Hlen.
      + (* NEXT_HOP *)
        known_bin d Hd Hok Hlen Hl. destruct Hl as [Hl|Hl].
        * destruct b as [|b0 [|b1 [|b2 [|b3 [|? ?]]]]]; try discriminate.
          unfold bytes_ok in Hok.
          repeat match goal with H : Forall _ (_ :: _) |- _ => inversion H; clear H; subst end.
          exists (ANextHop (ip4_to_string (of_be32 b0 b1 b2 b3))). split; [reflexivity|intros [v6_rt v6_not4]].
          cbn [from_api_unchecked]. rewrite ip4_roundtrip_bytes by assumption. cbn.
          rewrite be32_of_be32 by assumption. reflexivity.
        * assert (Hlt : of_bytes b < 2 ^ 128).
          { pose proof (of_bytes_lt b Hok) as H. rewrite Hl in H. exact H. }
          exists (ANextHop (v6p (of_bytes b))). split; [cbn; rewrite Hl; reflexivity|intros [v6_rt v6_not4]].
          cbn [from_api_unchecked]. rewrite v6_not4, v6_rt by exact Hlt.
          replace 16%nat with (length b). rewrite to_bytes_of_bytes by exact Hok.
          cbn. apply len_check_ok. exact Hlen.
      + (* MED *)
        destruct d as [v| |]; try contradiction. exists (AMed v). split; reflexivity.
      + (* LOCAL_PREF *)
        destruct d as [v| |]; try contradiction. exists (ALocalPref v). split; reflexivity.
      + (* ATOMIC_AGGREGATE *)
        known_bin d Hd Hok Hlen Hn. subst b. exists AAtomicAggregate. split; reflexivity.
      + (* AGGREGATOR *)
        known_bin d Hd Hok Hlen Hl.
        destruct b as [|a0 [|a1 [|a2 [|a3 [|i0 [|i1 [|i2 [|i3 [|? ?]]]]]]]]]; try discriminate.
        unfold bytes_ok in Hok.
        repeat match goal with H : Forall _ (_ :: _) |- _ => inversion H; clear H; subst end.
        exists (AAggregator (of_be32 a0 a1 a2 a3) (ip4_to_string (of_be32 i0 i1 i2 i3))).
        split; [reflexivity|intros [v6_rt v6_not4]]. cbn [from_api_unchecked]. rewrite ip4_roundtrip_bytes by assumption.
        rewrite !be32_of_be32 by assumption. reflexivity.
      + (* COMMUNITY *)
        known_bin d Hd Hok Hlen Hm. destruct Hm as [Hne Hm].
        destruct (read_n_u32_exact b Hm Hok) as [nums [Hr [Hfl _]]].
        exists (ACommunities nums). split; [cbn; rewrite Hr; reflexivity|intros [v6_rt v6_not4]].
        cbn [from_api_unchecked]. rewrite Hfl, nonempty_bin_ok by exact Hne. cbn. apply len_check_ok. exact Hlen.
      + (* ORIGINATOR_ID *)
        destruct d as [v| |]; try contradiction. exists (AOriginatorId (ip4_to_string v)).
        split; [reflexivity|intros [v6_rt v6_not4]]. cbn [from_api_unchecked]. rewrite ip4_roundtrip by exact Hd. reflexivity.
      + (* CLUSTER_LIST *)
        known_bin d Hd Hok Hlen Hm. destruct Hm as [Hne Hm].
        destruct (read_n_u32_exact b Hm Hok) as [nums [Hr [Hfl [_ Hu]]]].
        exists (AClusterList (map ip4_to_string nums)). split; [cbn; rewrite Hr; reflexivity|intros [v6_rt v6_not4]].
        cbn [from_api_unchecked]. rewrite parse_ids_map by exact Hu. rewrite Hfl, nonempty_bin_ok by exact Hne.
        cbn. apply len_check_ok. exact Hlen.
      + (* MP_REACH: shown as Unknown *)
        known_bin d Hd Hok Hlen Ht. exists (AUnknown f 14 b). split; [reflexivity|intros [v6_rt v6_not4]].
        cbn [from_api_unchecked]. unfold len_ok in Hlen.
        destruct (N.ltb_spec 65535 (N.of_nat (length b))); [lia|]. cbn. apply len_check_ok. exact Hlen.
      + (* MP_UNREACH *)
        known_bin d Hd Hok Hlen Ht. exists (AUnknown f 15 b). split; [reflexivity|intros [v6_rt v6_not4]].
        cbn [from_api_unchecked]. unfold len_ok in Hlen.
        destruct (N.ltb_spec 65535 (N.of_nat (length b))); [lia|]. cbn. apply len_check_ok. exact Hlen.
      + (* EXTENDED_COMMUNITY *)
        known_bin d Hd Hok Hlen Hm. destruct Hm as [Hne Hm].
        destruct (extcoms_roundtrip (length b / 8) b) as [xs [Hr Hw]]; [|exact Hok|].
        { pose proof (Nat.div_mod (length b) 8). lia. }
        exists (AExtCommunities xs). split; [cbn; rewrite Hr; reflexivity|intros [v6_rt v6_not4]].
        cbn [from_api_unchecked]. rewrite Hw, nonempty_bin_ok by exact Hne. cbn. apply len_check_ok. exact Hlen.
      + (* AS4_PATH *)
        known_bin d Hd Hok Hlen Hw. destruct Hw as [Hw Hne]. exists (AUnknown f 17 b). split; [reflexivity|intros [v6_rt v6_not4]].
        cbn [from_api_unchecked]. unfold len_ok in Hlen.
        destruct (N.ltb_spec 65535 (N.of_nat (length b))); [lia|]. cbn -[decode_value].
        assert (E1 : Nat.eqb (Nat.modulo (length b) 2) 0 = true) by (rewrite (wf_even b Hw); reflexivity).
        assert (E2 : Nat.leb 6 (length b) = true) by (apply Nat.leb_le; apply wf_len6; assumption).
        assert (E3 : aspath_valid (S (length b)) false b = true) by (apply wf_valid; [exact Hw|lia]).
        unfold decode_value. cbn -[Nat.leb Nat.eqb Nat.modulo aspath_valid]. rewrite E1, E2, E3.
        cbn. apply len_check_ok. exact Hlen.
      + (* AS4_AGGREGATOR *)
        known_bin d Hd Hok Hlen Hl. exists (AUnknown f 18 b). split; [reflexivity|intros [v6_rt v6_not4]].
        cbn [from_api_unchecked]. unfold len_ok in Hlen.
        destruct (N.ltb_spec 65535 (N.of_nat (length b))); [lia|]. cbn -[decode_value].
        unfold decode_value. cbn -[Nat.eqb]. rewrite Hl. cbn. apply len_check_ok. exact Hlen.
      + (* AIGP *)
        known_bin d Hd Hok Hlen Ht. exists (AUnknown f 26 b). split; [reflexivity|intros [v6_rt v6_not4]].
        cbn [from_api_unchecked]. unfold len_ok in Hlen.
        destruct (N.ltb_spec 65535 (N.of_nat (length b))); [lia|]. cbn. apply len_check_ok. exact Hlen.
      + (* LARGE_COMMUNITY *)
        known_bin d Hd Hok Hlen Hm. destruct Hm as [Hne Hm].
        destruct (read_n_u32_app (3 * (length b / 12)) b []) as [nums [Hr [Hfl [Hnl _]]]]; [|exact Hok|].
        { pose proof (Nat.div_mod (length b) 12). lia. }
        rewrite app_nil_r in Hr.
        exists (ALargeCommunities (triples nums)). split; [cbn -[Nat.mul]; rewrite Hr; reflexivity|intros _].
        cbn [from_api_unchecked]. rewrite (triples_flat (length b / 12)) by exact Hnl.
        rewrite Hfl, nonempty_bin_ok by exact Hne. cbn. apply len_check_ok. exact Hlen.
    - (* a type without a definition: held opaque *)
      destruct d as [| |b]; try contradiction. destruct Hd as [Hok Hlen].
      exists (AUnknown f c b). unfold class_bits_ok in Hcb. rewrite E in Hcb. split.
      + unfold to_api. cbn [a_code a_flags a_data].
        repeat match goal with
        | |- context [if (c =? ?K) then _ else _] =>
            destruct (N.eqb_spec c K) as [->|?]; [vm_compute in E; discriminate E|]
        end.
        rewrite Hcore. reflexivity.
      + intros _. cbn [from_api_unchecked]. destruct (N.ltb_spec 255 c); [lia|]. rewrite E.
        rewrite Hcb. destruct (N.ltb_spec f 256); [|lia]. cbn.
        unfold len_check, new_opaque, len_ok in *. cbn [a_data].
        destruct (N.ltb_spec 65535 (N.of_nat (length b))); [lia|reflexivity].
  Qed.
End Roundtrip.
