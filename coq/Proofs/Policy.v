(* Proofs about policy evaluation (property C14):
   - the code's evaluation (Model/Policy.v eval_code: nested loops over
     policies and statements, boolean lookups) refines the reference semantics
     (Spec/PolicySpec.v eval_spec) for every well-formed assignment;
   - the reference semantics is functional (so "refines" is "equals");
   - evaluation never panics on attribute lists the API / the wire decoder can
     produce. *)
From Coq Require Import List NArith ZArith Bool Lia.
From RB Require Import Base.Val Model.Policy Spec.PolicySpec.
Import ListNotations.
Open Scope N_scope.

(* ------------------------------------------------------------------ *)
(* well-formed sets, known class                                        *)

Definition wf_pent (w : N) (e : pent) : Prop :=
  pe_mask e <= w /\ pe_key e = mask_to w (pe_raw e) (pe_mask e).

Definition wf_pset (p : pset) : Prop :=
  Forall (wf_pent 32) (ps_v4 p) /\ Forall (wf_pent 128) (ps_v6 p).

Definition wf_cond (c : cond) : Prop :=
  match c with CSet _ _ (SPrefix p) => wf_pset p | _ => True end.

Definition wf_stmt (s : stmt) : Prop := Forall wf_cond (st_conds s).
Definition wf_assignment (a : assignment) : Prop :=
  Forall (fun p => Forall wf_stmt (p_stmts p)) (as_pols a).

(* ------------------------------------------------------------------ *)
(* arithmetic: masking vs shifting                                      *)

Lemma mask_to_same_bits w m a b :
  m <= w -> (mask_to w a m = mask_to w b m <-> same_bits w m a b).
Proof.
  intros Hm. unfold mask_to, same_bits. rewrite !N.shiftr_div_pow2.
  destruct (w <=? m) eqn:E.
  - apply N.leb_le in E. assert (w - m = 0) as -> by lia. cbn [N.pow]. rewrite !N.div_1_r. tauto.
  - assert (Hp : 2 ^ (w - m) <> 0) by (apply N.pow_nonzero; lia).
    split; intros H.
    + apply N.mul_cancel_r in H; assumption.
    + now rewrite H.
Qed.

(* ------------------------------------------------------------------ *)
(* boolean / Prop bridges                                               *)

Lemma in_range_iff lo hi m : in_range lo hi m = true <-> lo <= m <= hi.
Proof. unfold in_range. rewrite andb_true_iff, !N.leb_le. tauto. Qed.

Lemma in_rng_iff lo hi x : in_rng lo hi x = true <-> between lo hi x.
Proof. unfold in_rng, between. rewrite andb_true_iff, !N.leb_le. tauto. Qed.

Lemma zero_match_iff z m : zero_match z m = true <-> zero_matches z m.
Proof.
  unfold zero_match, zero_matches. destruct z as [[lo hi]|].
  - rewrite in_range_iff. split.
    + intros H. exists lo, hi. auto.
    + intros (lo' & hi' & E & H). inversion E; subst. exact H.
  - split; [discriminate|]. intros (lo & hi & E & _). discriminate.
Qed.

Lemma pents_match_iff w a m l :
  Forall (wf_pent w) l ->
  (pents_match w a m l = true <-> exists e, In e l /\ entry_matches w e a m).
Proof.
  intros Hwf. unfold pents_match. rewrite existsb_exists.
  split.
  - intros (e & Hin & H). exists e. split; [exact Hin|].
    rewrite Forall_forall in Hwf. destruct (Hwf e Hin) as [Hle Hkey].
    rewrite !andb_true_iff in H. destruct H as [[Hk Hm] Hr].
    unfold key_matches in Hk. rewrite andb_true_iff in Hk. destruct Hk as [_ Hk].
    apply N.eqb_eq in Hk. apply N.leb_le in Hm. apply in_range_iff in Hr.
    unfold entry_matches, covers. repeat split; try lia.
    apply mask_to_same_bits; [exact Hle|]. rewrite <- Hkey. symmetry. exact Hk.
  - intros (e & Hin & [[Hm Hb] Hr]). exists e. split; [exact Hin|].
    rewrite Forall_forall in Hwf. destruct (Hwf e Hin) as [Hle Hkey].
    rewrite !andb_true_iff. unfold key_matches. rewrite andb_true_iff.
    repeat split.
    + apply N.leb_le; exact Hle.
    + apply N.eqb_eq. rewrite Hkey. symmetry. apply mask_to_same_bits; assumption.
    + apply N.leb_le; exact Hm.
    + apply in_range_iff; exact Hr.
Qed.

Lemma pset_matched_iff p n :
  wf_pset p -> (pset_matched p n = true <-> pset_matches p n).
Proof.
  intros [H4 H6]. destruct n as [a m|a m]; cbn [pset_matched pset_matches];
    rewrite orb_true_iff, zero_match_iff.
  - rewrite (pents_match_iff 32 a m _ H4). tauto.
  - rewrite (pents_match_iff 128 a m _ H6). tauto.
Qed.

Lemma rev_cons_iff {A} (l : list A) x t : rev l = x :: t <-> l = rev t ++ [x].
Proof.
  split; intros H.
  - rewrite <- (rev_involutive l), H. reflexivity.
  - rewrite H, rev_app_distr, rev_involutive. reflexivity.
Qed.

Ltac sm_start K := intros K; unfold single_match, single_says; rewrite K; set (flat := concat _).

Lemma sm_0 s segs : sg_kind s = 0 -> (single_match s segs = true <-> single_says s (concat segs)).
Proof.
  sm_start K. rewrite existsb_exists. split.
  - intros (x & Hin & H). apply N.eqb_eq in H. subst. exact Hin.
  - intros H. exists (sg_a s). split; [exact H|apply N.eqb_refl].
Qed.
Lemma sm_4 s segs : sg_kind s = 4 -> (single_match s segs = true <-> single_says s (concat segs)).
Proof.
  sm_start K. rewrite existsb_exists. split.
  - intros (x & Hin & H). exists x. split; [exact Hin|]. apply in_rng_iff; exact H.
  - intros (x & Hin & H). exists x. split; [exact Hin|]. apply in_rng_iff; exact H.
Qed.
Lemma sm_1 s segs : sg_kind s = 1 -> (single_match s segs = true <-> single_says s (concat segs)).
Proof.
  sm_start K. destruct flat as [|x t].
  - split; [discriminate|]. intros (t & E). discriminate.
  - rewrite N.eqb_eq. split.
    + intros ->. exists t. reflexivity.
    + intros (t' & E). inversion E; reflexivity.
Qed.
Lemma sm_5 s segs : sg_kind s = 5 -> (single_match s segs = true <-> single_says s (concat segs)).
Proof.
  sm_start K. destruct flat as [|x t].
  - split; [discriminate|]. intros (x & t & E & _). discriminate.
  - rewrite in_rng_iff. split.
    + intros H. exists x, t. auto.
    + intros (y & t' & E & H). inversion E; subst. exact H.
Qed.
Lemma sm_2 s segs : sg_kind s = 2 -> (single_match s segs = true <-> single_says s (concat segs)).
Proof.
  sm_start K. destruct (rev flat) as [|x t] eqn:R.
  - split; [discriminate|]. intros (t & E).
    apply (f_equal (@rev N)) in E. rewrite rev_app_distr in E. cbn in E. rewrite R in E. discriminate.
  - apply rev_cons_iff in R. rewrite N.eqb_eq. split.
    + intros ->. exists (rev t). exact R.
    + intros (t' & E). rewrite R in E. apply app_inj_tail in E. destruct E as [_ E]. exact E.
Qed.
Lemma sm_6 s segs : sg_kind s = 6 -> (single_match s segs = true <-> single_says s (concat segs)).
Proof.
  sm_start K. destruct (rev flat) as [|x t] eqn:R.
  - split; [discriminate|]. intros (x & t & E & _).
    apply (f_equal (@rev N)) in E. rewrite rev_app_distr in E. cbn in E. rewrite R in E. discriminate.
  - apply rev_cons_iff in R. rewrite in_rng_iff. split.
    + intros H. exists x, (rev t). auto.
    + intros (y & t' & E & H). rewrite R in E. apply app_inj_tail in E. destruct E as [_ <-]. exact H.
Qed.
Lemma sm_3 s segs : sg_kind s = 3 -> (single_match s segs = true <-> single_says s (concat segs)).
Proof.
  sm_start K. destruct flat as [|x [|y t]].
  - split; discriminate.
  - rewrite N.eqb_eq. split; [intros ->; reflexivity|intros E; inversion E; reflexivity].
  - split; discriminate.
Qed.
Lemma sm_7 s segs : sg_kind s = 7 -> (single_match s segs = true <-> single_says s (concat segs)).
Proof.
  sm_start K. destruct flat as [|x [|y t]].
  - split; [discriminate|]. intros (x & E & _). discriminate.
  - rewrite in_rng_iff. split.
    + intros H. exists x. auto.
    + intros (y & E & H). inversion E; subst. exact H.
  - split; [discriminate|]. intros (z & E & _). discriminate.
Qed.

Lemma single_match_iff s segs :
  single_match s segs = true <-> single_says s (concat segs).
Proof.
  destruct (sg_kind s) as [|q] eqn:K; [apply sm_0; exact K|].
  destruct q as [q|q|];
    [destruct q as [q|q|]; [destruct q as [q|q|]|destruct q as [q|q|]|]
    |destruct q as [q|q|]; [destruct q as [q|q|]|destruct q as [q|q|]|]
    |];
    first [ apply sm_1; exact K | apply sm_2; exact K | apply sm_3; exact K | apply sm_4; exact K
          | apply sm_5; exact K | apply sm_6; exact K | apply sm_7; exact K
          | (unfold single_match, single_says; rewrite K; split; [discriminate|tauto]) ].
Qed.

Lemma existsb_map_c {A B} (f : B -> bool) (g : A -> B) l : existsb f (map g l) = existsb (fun x => f (g x)) l.
Proof. induction l as [|a l IH]; [reflexivity|]. cbn [map existsb]. rewrite IH. reflexivity. Qed.
Lemma forallb_map_c {A B} (f : B -> bool) (g : A -> B) l : forallb f (map g l) = forallb (fun x => f (g x)) l.
Proof. induction l as [|a l IH]; [reflexivity|]. cbn [map forallb]. rewrite IH. reflexivity. Qed.

(* ANY / ALL / INVERT over a list of patterns with a boolean matcher *)
Lemma opt_holds_bool {P} (o : mopt) (pats : list P) (pm : P -> Prop) (pb : P -> bool) :
  (forall p, In p pats -> (pb p = true <-> pm p)) ->
  ((match o with
    | MAny => existsb pb pats
    | MAll => forallb pb pats
    | MInvert => negb (existsb pb pats)
    end) = true <-> opt_holds o pats pm).
Proof.
  intros Hp. destruct o; cbn [opt_holds].
  - rewrite existsb_exists. split; intros (p & Hin & H); exists p; (split; [exact Hin|apply (Hp p Hin); exact H]).
  - rewrite forallb_forall. split; intros H p Hin; apply (Hp p Hin); apply H; exact Hin.
  - rewrite negb_true_iff, <- not_true_iff_false, existsb_exists.
    split; intros H (p & Hin & Hm); apply H; exists p; (split; [exact Hin|apply (Hp p Hin); exact Hm]).
Qed.

(* match_string_set iterates strings outside, patterns inside for ANY/INVERT *)
Lemma match_set_iff {P} (m : P -> N -> bool) strs pats o (pm : P -> Prop) :
  (forall p, existsb (fun s => m p s) strs = true <-> pm p) ->
  (match_set m strs pats o = true <-> opt_holds o pats pm).
Proof.
  intros Hp.
  assert (Hswap : existsb (fun s => existsb (fun p => m p s) pats) strs
                  = existsb (fun p => existsb (fun s => m p s) strs) pats).
  { apply eq_true_iff_eq. rewrite !existsb_exists. split.
    - intros (s & Hs & H). apply existsb_exists in H. destruct H as (p & Hpin & H).
      exists p. split; [exact Hpin|]. apply existsb_exists. exists s. auto.
    - intros (p & Hpin & H). apply existsb_exists in H. destruct H as (s & Hs & H).
      exists s. split; [exact Hs|]. apply existsb_exists. exists p. auto. }
  unfold match_set. destruct o.
  - rewrite Hswap. apply (opt_holds_bool MAny pats pm (fun p => existsb (fun s => m p s) strs) (fun p _ => Hp p)).
  - apply (opt_holds_bool MAll pats pm (fun p => existsb (fun s => m p s) strs) (fun p _ => Hp p)).
  - rewrite Hswap. apply (opt_holds_bool MInvert pats pm (fun p => existsb (fun s => m p s) strs) (fun p _ => Hp p)).
Qed.

Lemma cmp_eval_iff c l v : cmp_eval c l v = true <-> cmp_holds c l v.
Proof.
  destruct c; cbn [cmp_eval cmp_holds]; [apply N.eqb_eq|apply N.leb_le|apply N.leb_le].
Qed.

Lemma val_is_iff code v l :
  (match find_attr code l with
   | Some a => match attr_value a with Some w => w =? v | None => false end
   | None => false
   end) = true <-> val_is code v l.
Proof.
  unfold val_is, attr_value. destruct (find_attr code l) as [a|].
  - destruct (a_data a) eqn:D.
    + rewrite N.eqb_eq. split.
      * intros ->. exists a. auto.
      * intros (a' & E & D'). inversion E; subst. rewrite D in D'. inversion D'. reflexivity.
    + split; [discriminate|]. intros (a' & E & D'). inversion E; subst. rewrite D in D'. discriminate.
    + split; [discriminate|]. intros (a' & E & D'). inversion E; subst. rewrite D in D'. discriminate.
  - split; [discriminate|]. intros (a' & E & _). discriminate.
Qed.

Section Refinement.
  Variable rx_comm rx_ext rx_large : N -> N -> bool.
  Variable rx_aspath : N -> list N -> bool.
  Variable rpki : option (nlri -> N -> option N).

  Notation cond_eval := (cond_eval rx_comm rx_ext rx_large rx_aspath rpki).
  Notation conds_all := (conds_all rx_comm rx_ext rx_large rx_aspath rpki).
  Notation stmt_apply := (stmt_apply rx_comm rx_ext rx_large rx_aspath rpki).
  Notation policy_apply := (policy_apply rx_comm rx_ext rx_large rx_aspath rpki).
  Notation pols_apply := (pols_apply rx_comm rx_ext rx_large rx_aspath rpki).
  Notation eval_code := (eval_code rx_comm rx_ext rx_large rx_aspath rpki).
  Notation cond_holds := (cond_holds rx_comm rx_ext rx_large rx_aspath rpki).
  Notation stmt_applies := (stmt_applies rx_comm rx_ext rx_large rx_aspath rpki).
  Notation runs := (runs rx_comm rx_ext rx_large rx_aspath rpki).
  Notation eval_spec := (eval_spec rx_comm rx_ext rx_large rx_aspath rpki).

  (* one condition: the boolean the code computes is the truth of the
     condition as the property text reads it *)
  Lemma cond_eval_sound x r c b :
    wf_cond c ->
    cond_eval x r c = Ok b -> (b = true <-> cond_holds x r c).
  Proof.
    intros Hwf H.
    destruct c as [n o s|cm v|l|st|v|v|v|t|cm v|l]; cbn [Policy.cond_eval] in H.
    - destruct s as [p|l|s|l|l|l].
      + (* prefix *)
        cbn [wf_cond] in Hwf. pose proof (pset_matched_iff p (x_net x) Hwf) as Hm.
        cbn [PolicySpec.cond_holds].
        destruct (pset_matched p (x_net x)) eqn:E; inversion H; subst; clear H;
          destruct o; split; intros H'; try discriminate; try reflexivity;
          try (apply Hm; reflexivity);
          try (exfalso; apply H'; apply Hm; reflexivity);
          try (intros Hc; apply Hm in Hc; discriminate);
          try (apply Hm in H'; discriminate).
      + (* neighbor *)
        cbn [PolicySpec.cond_holds]. inversion H; subst; clear H.
        destruct o; rewrite ?negb_true_iff, <- ?not_true_iff_false, existsb_exists; tauto.
      + (* as-path *)
        cbn [PolicySpec.cond_holds]. unfold apset_pats.
        set (a := find_attr AS_PATH (r_attrs r)) in *.
        destruct (match a, ap_single s with
                  | Some a', _ :: _ => do sg <- aspath_iter a'; Ok (Some sg)
                  | _, _ => Ok None
                  end) as [segs|tag] eqn:ES; cbn [bind] in H; [|discriminate].
        inversion H; subst b; clear H.
        set (sgl := fun m => match segs with Some sg => single_match m sg | None => false end).
        set (path := match ap_regex s with
                     | [] => None
                     | _ => match a with
                            | Some a' => match attr_binary a' with Some b => Some (render_path b) | None => None end
                            | None => None
                            end
                     end).
        set (rgx := fun id => match path with Some p => rx_aspath id p | None => false end).
        (* the per-pattern boolean reflects the per-pattern meaning *)
        assert (Hs : forall m, In m (ap_single s) ->
                     (sgl m = true <-> aspath_pat_holds rx_aspath (r_attrs r) (inl m))).
        { intros m Hin. cbn [aspath_pat_holds]. unfold route_segs. fold a. unfold sgl.
          destruct a as [a'|].
          - destruct (ap_single s) as [|s0 ss]; [destruct Hin|].
            unfold aspath_iter in ES. destruct (attr_binary a') as [bs|]; [|discriminate].
            cbn [bind] in ES. inversion ES; subst segs. rewrite single_match_iff. split.
            + intros Hm. eexists. split; [reflexivity|exact Hm].
            + intros (sg & E & Hm). inversion E; subst. exact Hm.
          - inversion ES; subst segs. split; [discriminate|]. intros (sg & E & _). discriminate. }
        assert (Hr : forall id, In id (ap_regex s) ->
                     (rgx id = true <-> aspath_pat_holds rx_aspath (r_attrs r) (inr id))).
        { intros id Hin. cbn [aspath_pat_holds]. unfold route_path. fold a. unfold rgx, path.
          destruct (ap_regex s) as [|r0 rs]; [destruct Hin|].
          destruct a as [a'|].
          - destruct (attr_binary a') as [bs|].
            + split.
              * intros Hm. exists bs. auto.
              * intros (b & E & Hm). inversion E; subst. exact Hm.
            + split; [discriminate|]. intros (b & E & _). discriminate.
          - split; [discriminate|]. intros (b & E & _). discriminate. }
        set (pb := fun p : single + N => match p with inl m => sgl m | inr id => rgx id end).
        assert (Hp : forall p, In p (map inl (ap_single s) ++ map inr (ap_regex s)) ->
                     (pb p = true <-> aspath_pat_holds rx_aspath (r_attrs r) p)).
        { intros p Hin. apply in_app_iff in Hin. destruct Hin as [Hin|Hin]; apply in_map_iff in Hin;
            destruct Hin as (y & <- & Hy); [apply Hs|apply Hr]; exact Hy. }
        rewrite <- (opt_holds_bool o _ _ pb Hp).
        rewrite existsb_app, forallb_app, !existsb_map_c, !forallb_map_c. cbn [pb]. tauto.
      + (* community *)
        inversion H; subst; clear H. cbn [PolicySpec.cond_holds].
        apply match_set_iff. intros p. rewrite existsb_exists. unfold comm_pat_matches.
        split; intros (c & Hin & Hc); exists c; (split; [exact Hin|]);
          destruct p; cbn [cpat_match] in *; try (apply N.eqb_eq; assumption); assumption.
      + (* ext community *)
        inversion H; subst; clear H. cbn [PolicySpec.cond_holds].
        apply match_set_iff. intros p. rewrite existsb_exists. tauto.
      + (* large community *)
        inversion H; subst; clear H. cbn [PolicySpec.cond_holds].
        apply match_set_iff. intros p. rewrite existsb_exists. tauto.
    - (* as-path length *)
      cbn [PolicySpec.cond_holds].
      destruct (find_attr AS_PATH (r_attrs r)) as [a|] eqn:F.
      + unfold as_path_length in H. destruct (attr_binary a) as [bs|] eqn:B; [|discriminate].
        cbn [bind] in H. inversion H; subst; clear H. rewrite cmp_eval_iff. split.
        * intros Hc. exists a, bs. auto.
        * intros (a' & bs' & E & B' & Hc). inversion E; subst. rewrite B in B'. inversion B'; subst. exact Hc.
      + inversion H; subst. split; [discriminate|]. intros (a & bs & E & _). discriminate.
    - (* nexthop *)
      inversion H; subst; clear H. cbn [PolicySpec.cond_holds].
      destruct (r_nh r) as [nh|].
      + rewrite existsb_exists. split.
        * intros (i & Hin & Hi). exists nh. split; [reflexivity|]. exists i. auto.
        * intros (nh' & E & i & Hin & Hi). inversion E; subst. exists i. auto.
      + split; [discriminate|]. intros (nh & E & _). discriminate.
    - (* rpki *)
      cbn [PolicySpec.cond_holds]. unfold route_origin.
      destruct rpki as [validate|].
      + destruct (find_attr AS_PATH (r_attrs r)) as [a|].
        * destruct (as_path_origin a) as [o|tag]; cbn [bind] in H; [|discriminate].
          inversion H; subst b; clear H.
          set (asn := match o with Some x0 => x0 | None => s_local_asn (x_src x) end).
          assert (Ho : match o with Some o0 => Some o0 | None => Some (s_local_asn (x_src x)) end = Some asn)
            by (destruct o; reflexivity).
          rewrite Ho. destruct (validate (x_net x) asn) as [v|] eqn:V.
          { rewrite N.eqb_eq. split.
            - intros ->. exists validate, asn. auto.
            - intros (v' & asn' & E & Ea & Ev). inversion E; subst. inversion Ea; subst. rewrite V in Ev. inversion Ev; reflexivity. }
          { split; [discriminate|]. intros (v' & asn' & E & Ea & Ev). inversion E; subst. inversion Ea; subst. rewrite V in Ev. discriminate. }
        * cbn [bind] in H. inversion H; subst b; clear H.
          destruct (validate (x_net x) (s_local_asn (x_src x))) as [v|] eqn:V.
          { rewrite N.eqb_eq. split.
            - intros ->. exists validate, (s_local_asn (x_src x)). auto.
            - intros (v' & asn' & E & Ea & Ev). inversion E; subst. inversion Ea; subst. rewrite V in Ev. inversion Ev; reflexivity. }
          { split; [discriminate|]. intros (v' & asn' & E & Ea & Ev). inversion E; subst. inversion Ea; subst. rewrite V in Ev. discriminate. }
      + inversion H; subst. split; [discriminate|]. intros (v' & asn' & E & _). discriminate.
    - inversion H; subst; clear H. cbn [PolicySpec.cond_holds]. apply val_is_iff.
    - inversion H; subst; clear H. cbn [PolicySpec.cond_holds]. apply val_is_iff.
    - inversion H; subst; clear H. cbn [PolicySpec.cond_holds]. apply val_is_iff.
    - inversion H; subst; clear H. cbn [PolicySpec.cond_holds].
      destruct t; cbn zeta; rewrite ?andb_true_iff, ?negb_true_iff, ?N.eqb_eq, <- ?not_true_iff_false, ?N.eqb_eq; tauto.
    - inversion H; subst; clear H. cbn [PolicySpec.cond_holds]. apply cmp_eval_iff.
    - inversion H; subst; clear H. cbn [PolicySpec.cond_holds]. rewrite existsb_exists. split.
      + intros (f & Hin & E). apply N.eqb_eq in E. subst. exact Hin.
      + intros Hin. exists (nlri_family (x_net x)). split; [exact Hin|apply N.eqb_refl].
  Qed.

  Lemma conds_all_sound x r l b :
    Forall wf_cond l ->
    conds_all x r l = Ok b -> (b = true <-> Forall (cond_holds x r) l).
  Proof.
    induction l as [|c l IH]; intros Hwf H; cbn [Policy.conds_all] in H.
    - inversion H; subst. split; [constructor|reflexivity].
    - inversion Hwf as [|? ? Hc Hl]; subst.
      destruct (cond_eval x r c) as [bc|t] eqn:E; cbn [bind] in H; [|discriminate].
      pose proof (cond_eval_sound x r c bc Hc E) as Hs.
      destruct bc.
      + specialize (IH Hl H). rewrite IH. split.
        * intros Hf. constructor; [apply Hs; reflexivity|exact Hf].
        * intros Hf. inversion Hf; assumption.
      + inversion H; subst. split; [discriminate|]. intros Hf. inversion Hf as [|? ? Hc' _]; subst.
        apply Hs in Hc'. discriminate.
  Qed.

  Definition stmt_ok (s : stmt) : Prop := wf_stmt s.

  (* one statement *)
  Lemma stmt_apply_sound x s r d r' :
    stmt_ok s -> stmt_apply x s r = Ok (d, r') ->
    (~ stmt_applies x r s /\ d = DPass /\ r' = r) \/
    (stmt_applies x r s /\ acted x s r r' /\ d = match st_disp s with Some d0 => d0 | None => DPass end).
  Proof.
    intros Hwf H. unfold Policy.stmt_apply in H.
    destruct (conds_all x r (st_conds s)) as [b|t] eqn:E; cbn [bind] in H; [|discriminate].
    pose proof (conds_all_sound x r _ b Hwf E) as Hs.
    destruct b; cbn [negb] in H.
    - right.
      destruct (act_prepend x (ac_prepend (st_act s))
                  (act_med (ac_med (st_act s))
                     (act_local_pref (ac_local_pref (st_act s)) (act_comm (ac_comm (st_act s)) (r_attrs r)))))
        as [l4|t] eqn:E4; cbn [bind] in H; [|discriminate].
      inversion H; subst; clear H. split; [apply Hs; reflexivity|]. split; [|reflexivity].
      exists l4. split; [exact E4|reflexivity].
    - left. inversion H; subst. split; [|auto]. intros Hc. apply Hs in Hc. discriminate.
  Qed.

  Lemma disp_eqb_pass d : disp_eqb d DPass = true <-> d = DPass.
  Proof. destruct d; cbn; split; intros H; try reflexivity; discriminate. Qed.

  (* one policy: either it decides, or it passes the (possibly modified) route
     on to whatever follows *)
  Lemma policy_apply_sound x dflt l : forall r d r',
    Forall stmt_ok l -> policy_apply x l r = Ok (d, r') ->
    (d <> DPass /\ forall rest, runs x dflt (l ++ rest) r d r') \/
    (d = DPass /\ forall rest d2 r2, runs x dflt rest r' d2 r2 -> runs x dflt (l ++ rest) r d2 r2).
  Proof.
    induction l as [|s l IH]; intros r d r' Hok H; cbn [Policy.policy_apply] in H.
    - inversion H; subst. right. split; [reflexivity|]. intros rest d2 r2 Hr. exact Hr.
    - inversion Hok as [|? ? Hs Hl]; subst.
      destruct (stmt_apply x s r) as [[d1 r1]|t] eqn:E; cbn [bind] in H; [|discriminate].
      destruct (stmt_apply_sound x s r d1 r1 Hs E) as [(Hn & -> & ->)|(Ha & Hact & Hd)].
      + cbn [disp_eqb] in H. destruct (IH r d r' Hl H) as [(Hd & Hr)|(Hd & Hr)].
        * left. split; [exact Hd|]. intros rest. cbn [app]. apply R_skip; [exact Hn|apply Hr].
        * right. split; [exact Hd|]. intros rest d2 r2 H2. cbn [app]. apply R_skip; [exact Hn|apply Hr; exact H2].
      + subst d1. destruct (disp_eqb (match st_disp s with Some d0 => d0 | None => DPass end) DPass) eqn:Ep.
        * apply disp_eqb_pass in Ep.
          assert (Hp : passes s).
          { unfold passes. destruct (st_disp s) as [d0|]; [right|left; reflexivity]. rewrite Ep. reflexivity. }
          destruct (IH r1 d r' Hl H) as [(Hd & Hr)|(Hd & Hr)].
          { left. split; [exact Hd|]. intros rest. cbn [app]. eapply R_pass; eauto. }
          { right. split; [exact Hd|]. intros rest d2 r2 H2. cbn [app]. eapply R_pass; eauto. }
        * inversion H; subst; clear H. left.
          assert (Hne : match st_disp s with Some d0 => d0 | None => DPass end <> DPass).
          { intros Hc. apply disp_eqb_pass in Hc. rewrite Hc in Ep. discriminate. }
          split; [exact Hne|]. intros rest. cbn [app]. eapply R_decide; eauto.
          unfold decides. destruct (st_disp s) as [d0|]; [split; [reflexivity|exact Hne]|exfalso; apply Hne; reflexivity].
  Qed.

  Lemma asg_ok_stmts a p :
    wf_assignment a -> In p (as_pols a) -> Forall stmt_ok (p_stmts p).
  Proof.
    intros Hwf Hin. unfold wf_assignment in Hwf. rewrite Forall_forall in Hwf. apply (Hwf p Hin).
  Qed.

  Lemma pols_apply_sound x dflt : forall l r d r',
    (forall p, In p l -> Forall stmt_ok (p_stmts p)) ->
    pols_apply x dflt l r = Ok (d, r') -> runs x dflt (flat_map p_stmts l) r d r'.
  Proof.
    induction l as [|p l IH]; intros r d r' Hok H; cbn [Policy.pols_apply] in H.
    - inversion H; subst. constructor.
    - destruct (policy_apply x (p_stmts p) r) as [[d1 r1]|t] eqn:E; cbn [bind] in H; [|discriminate].
      cbn [flat_map].
      destruct (policy_apply_sound x dflt (p_stmts p) r d1 r1 (Hok p (or_introl eq_refl)) E) as [(Hd & Hr)|(Hd & Hr)].
      + destruct (disp_eqb d1 DPass) eqn:Ep; [apply disp_eqb_pass in Ep; contradiction|].
        inversion H; subst. apply Hr.
      + subst d1. cbn [disp_eqb] in H. apply Hr. apply IH; [|exact H].
        intros p' Hin. apply Hok. right. exact Hin.
  Qed.

  (* THE REFINEMENT: whatever the code returns is what the reference semantics
     prescribes *)
  Theorem eval_code_sound a x r d r' :
    wf_assignment a ->
    eval_code a x r = Ok (d, r') -> eval_spec a x r d r'.
  Proof.
    intros Hwf H. unfold Policy.eval_code in H. unfold PolicySpec.eval_spec, flat_stmts.
    apply pols_apply_sound; [|exact H].
    intros p Hin. apply (asg_ok_stmts a p Hwf Hin).
  Qed.

  (* the reference semantics is a function of its inputs *)
  Lemma acted_functional x s r r1 r2 : acted x s r r1 -> acted x s r r2 -> r1 = r2.
  Proof.
    intros (l1 & E1 & ->) (l2 & E2 & ->). rewrite E1 in E2. inversion E2; subst. reflexivity.
  Qed.

  Theorem eval_spec_functional x dflt l : forall r d1 r1 d2 r2,
    runs x dflt l r d1 r1 -> runs x dflt l r d2 r2 -> d1 = d2 /\ r1 = r2.
  Proof.
    induction l as [|s l IH]; intros r d1 r1 d2 r2 H1 H2.
    - inversion H1; inversion H2; subst. auto.
    - inversion H1; subst; inversion H2; subst; try contradiction.
      + eapply IH; eauto.
      + match goal with Ha : acted x s r ?a, Hb : acted x s r ?b |- _ => pose proof (acted_functional _ _ _ _ _ Ha Hb) end.
        subst. unfold decides in *.
        repeat match goal with H : _ /\ _ |- _ => destruct H end.
        match goal with Ha : st_disp s = Some d1, Hb : st_disp s = Some d2 |- _ => rewrite Ha in Hb; inversion Hb end. auto.
      + exfalso. unfold decides, passes in *.
        repeat match goal with H : _ /\ _ |- _ => destruct H end.
        match goal with Hp : _ \/ _ |- _ => destruct Hp as [Hp|Hp] end; congruence.
      + exfalso. unfold decides, passes in *.
        repeat match goal with H : _ /\ _ |- _ => destruct H end.
        match goal with Hp : _ \/ _ |- _ => destruct Hp as [Hp|Hp] end; congruence.
      + match goal with Ha : acted x s r ?a, Hb : acted x s r ?b |- _ => pose proof (acted_functional _ _ _ _ _ Ha Hb) end.
        subst. eapply IH; eauto.
  Qed.

  (* ---------------------------------------------------------------- *)
  (* never panics                                                       *)

  Definition no_val_aspath (a : attr) : Prop := a_code a = AS_PATH -> forall v, a_data a <> DVal v.

  Lemma api_retain code l : api_attrs l -> api_attrs (retain_not code l).
  Proof.
    unfold api_attrs, retain_not. rewrite !Forall_forall. intros H a Hin.
    apply filter_In in Hin. apply H. tauto.
  Qed.

  Lemma api_push l o :
    api_attrs l -> (forall a, o = Some a -> no_val_aspath a) -> api_attrs (push_opt l o).
  Proof.
    unfold api_attrs, push_opt. intros Hl Ho. destruct o as [a|]; [|exact Hl].
    apply Forall_app. split; [exact Hl|]. constructor; [|constructor]. apply (Ho a eq_refl).
  Qed.

  Lemma comm_attr_code code k vals a : comm_attr code k vals = Some a -> a_code a = code.
  Proof.
    unfold comm_attr. destruct vals; [discriminate|]. destruct (canonical_flags code); [|discriminate].
    intros H. inversion H. reflexivity.
  Qed.

  Lemma new_with_value_code code v a : new_with_value code v = Some a -> a_code a = code.
  Proof.
    unfold new_with_value. destruct (canonical_flags code); [|discriminate]. intros H. inversion H. reflexivity.
  Qed.

  Lemma find_attr_in code l a : find_attr code l = Some a -> In a l /\ a_code a = code.
  Proof.
    unfold find_attr. intros H. apply find_some in H. destruct H as [Hin H]. apply N.eqb_eq in H. auto.
  Qed.

  Lemma prepend_ok seg a asn :
    (forall v, a_data a <> DVal v) ->
    exists a', as_path_prepend seg a asn = Ok a' /\ a_code a' = a_code a /\ forall v, a_data a' <> DVal v.
  Proof.
    intros Hv. unfold as_path_prepend, attr_binary.
    destruct (a_data a) as [v|b|b] eqn:D; [exfalso; apply (Hv v); reflexivity| |];
      (destruct b as [|b0 [|b1 rest]];
       [eexists; split; [reflexivity|split; [reflexivity|intros v; discriminate]]
       |eexists; split; [reflexivity|split; [reflexivity|intros v; discriminate]]
       |destruct ((b0 =? seg) && (b1 <? 255));
        eexists; (split; [reflexivity|split; [reflexivity|intros v; discriminate]])]).
  Qed.

  Lemma prepend_n_ok n seg asn : forall a,
    (forall v, a_data a <> DVal v) ->
    exists a', prepend_n n seg a asn = Ok a' /\ a_code a' = a_code a /\ forall v, a_data a' <> DVal v.
  Proof.
    induction n as [|n IH]; intros a Hv; cbn [prepend_n].
    - exists a. auto.
    - destruct (prepend_ok seg a asn Hv) as (a1 & E1 & C1 & V1). rewrite E1. cbn [bind].
      destruct (IH a1 V1) as (a2 & E2 & C2 & V2). exists a2. rewrite C2, C1. auto.
  Qed.

  Lemma act_prepend_ok x ap l :
    api_attrs l -> exists l', act_prepend x ap l = Ok l' /\ api_attrs l'.
  Proof.
    intros Hl. unfold act_prepend. destruct ap as [[[asn rep] lm]|]; [|exists l; auto].
    destruct (rep =? 0); [exists l; auto|].
    set (existing := match find_attr AS_PATH l with Some e => e | None => empty_as_path end).
    assert (Hex : forall v, a_data existing <> DVal v).
    { unfold existing. destruct (find_attr AS_PATH l) as [e|] eqn:F.
      - apply find_attr_in in F. destruct F as [Hin Hc]. unfold api_attrs in Hl. rewrite Forall_forall in Hl.
        apply (Hl e Hin Hc).
      - intros v. discriminate. }
    assert (Hcode : a_code existing = AS_PATH).
    { unfold existing. destruct (find_attr AS_PATH l) as [e|] eqn:F; [apply find_attr_in in F; tauto|reflexivity]. }
    assert (Hasn : exists asn', (if lm then
                                   do segs <- aspath_iter existing;
                                   Ok (match segs with (v :: _) :: _ => v | _ => asn end)
                                 else Ok asn) = Ok asn').
    { destruct lm; [|eauto]. unfold aspath_iter, attr_binary.
      destruct (a_data existing) as [v|b|b] eqn:D; [exfalso; apply (Hex v); reflexivity| |]; cbn [bind]; eauto. }
    destruct Hasn as (asn' & ->). cbn [bind].
    destruct (prepend_n_ok (N.to_nat rep) (if x_confed x then SEG_CONFED_SEQ else SEG_SEQ) asn' existing Hex)
      as (na & -> & Cn & Vn). cbn [bind].
    eexists. split; [reflexivity|].
    unfold api_attrs. apply Forall_app. split; [apply api_retain; exact Hl|].
    constructor; [|constructor]. intros _. exact Vn.
  Qed.

  Lemma act_comm_api a l : api_attrs l -> api_attrs (act_comm a l).
  Proof.
    intros H. unfold act_comm. destruct a as [[t vals]|]; [|exact H].
    apply api_push; [apply api_retain; exact H|]. intros a E C. apply comm_attr_code in E.
    rewrite E in C. discriminate.
  Qed.
  Lemma act_ext_api a l : api_attrs l -> api_attrs (act_ext a l).
  Proof.
    intros H. unfold act_ext. destruct a as [[t vals]|]; [|exact H].
    apply api_push; [apply api_retain; exact H|]. intros a E C. apply comm_attr_code in E.
    rewrite E in C. discriminate.
  Qed.
  Lemma act_large_api a l : api_attrs l -> api_attrs (act_large a l).
  Proof.
    intros H. unfold act_large. destruct a as [[t vals]|]; [|exact H].
    apply api_push; [apply api_retain; exact H|]. intros a E C. apply comm_attr_code in E.
    rewrite E in C. discriminate.
  Qed.
  Lemma act_lp_api a l : api_attrs l -> api_attrs (act_local_pref a l).
  Proof.
    intros H. unfold act_local_pref. destruct a as [v|]; [|exact H].
    apply api_push; [apply api_retain; exact H|]. intros a E C. apply new_with_value_code in E.
    rewrite E in C. discriminate.
  Qed.
  Lemma act_origin_api a l : api_attrs l -> api_attrs (act_origin a l).
  Proof.
    intros H. unfold act_origin. destruct a as [v|]; [|exact H].
    apply api_push; [apply api_retain; exact H|]. intros a E C. apply new_with_value_code in E.
    rewrite E in C. discriminate.
  Qed.
  Lemma act_med_api a l : api_attrs l -> api_attrs (act_med a l).
  Proof.
    intros H. unfold act_med. destruct a as [[rp v]|]; [|exact H].
    apply api_push; [apply api_retain; exact H|]. intros a E C. apply new_with_value_code in E.
    rewrite E in C. discriminate.
  Qed.

  Lemma api_find_not_val l a :
    api_attrs l -> find_attr AS_PATH l = Some a -> forall v, a_data a <> DVal v.
  Proof.
    intros Hapi F. apply find_attr_in in F. destruct F as [Hin Hc].
    unfold api_attrs in Hapi. rewrite Forall_forall in Hapi. apply (Hapi a Hin Hc).
  Qed.

  Lemma cond_eval_total x r c : api_attrs (r_attrs r) -> exists b, cond_eval x r c = Ok b.
  Proof.
    intros Hapi. destruct c as [n o s|cm v|l|st|v|v|v|t|cm v|l]; cbn [Policy.cond_eval]; eauto.
    - destruct s as [p|l|s|l|l|l]; eauto.
      + destruct (pset_matched p (x_net x)); eauto.
      + destruct (find_attr AS_PATH (r_attrs r)) as [a|] eqn:F; [|cbn [bind]; eauto].
        destruct (ap_single s); [cbn [bind]; eauto|].
        pose proof (api_find_not_val _ a Hapi F) as Hv. unfold aspath_iter, attr_binary.
        destruct (a_data a) as [v|b|b]; [exfalso; apply (Hv v); reflexivity| |]; cbn [bind]; eauto.
    - destruct (find_attr AS_PATH (r_attrs r)) as [a|] eqn:F; eauto.
      pose proof (api_find_not_val _ a Hapi F) as Hv. unfold as_path_length, attr_binary.
      destruct (a_data a) as [w|b|b]; [exfalso; apply (Hv w); reflexivity| |]; cbn [bind]; eauto.
    - destruct rpki as [validate|]; eauto.
      destruct (find_attr AS_PATH (r_attrs r)) as [a|] eqn:F; [|cbn [bind]; eauto].
      pose proof (api_find_not_val _ a Hapi F) as Hv. unfold as_path_origin, attr_binary.
      destruct (a_data a) as [w|b|b]; [exfalso; apply (Hv w); reflexivity| |];
        (destruct (origin_loop (length b) b (0, [])) as [t0 v0]; cbn [bind]; eauto).
  Qed.

  Lemma conds_all_total x r l : api_attrs (r_attrs r) -> exists b, conds_all x r l = Ok b.
  Proof.
    intros Hapi. induction l as [|c l IH]; cbn [Policy.conds_all]; eauto.
    destruct (cond_eval_total x r c Hapi) as (b & ->). cbn [bind]. destruct b; eauto.
  Qed.

  Lemma stmt_apply_total x s r :
    api_attrs (r_attrs r) -> exists d r', stmt_apply x s r = Ok (d, r') /\ api_attrs (r_attrs r').
  Proof.
    intros Hapi. unfold Policy.stmt_apply.
    destruct (conds_all_total x r (st_conds s) Hapi) as (b & ->). cbn [bind].
    destruct b; cbn [negb]; [|eauto].
    destruct (act_prepend_ok x (ac_prepend (st_act s))
                (act_med (ac_med (st_act s))
                   (act_local_pref (ac_local_pref (st_act s)) (act_comm (ac_comm (st_act s)) (r_attrs r)))))
      as (l4 & -> & H4).
    { apply act_med_api, act_lp_api, act_comm_api, Hapi. }
    cbn [bind]. eexists _, _. split; [reflexivity|]. cbn [r_attrs].
    apply act_origin_api, act_large_api, act_ext_api, H4.
  Qed.

  Lemma policy_apply_total x l : forall r,
    api_attrs (r_attrs r) -> exists d r', policy_apply x l r = Ok (d, r') /\ api_attrs (r_attrs r').
  Proof.
    induction l as [|s l IH]; intros r Hapi; cbn [Policy.policy_apply]; [eauto|].
    destruct (stmt_apply_total x s r Hapi) as (d & r1 & -> & H1). cbn [bind].
    destruct (disp_eqb d DPass); [apply IH; exact H1|eauto].
  Qed.

  Lemma pols_apply_total x dflt l : forall r,
    api_attrs (r_attrs r) -> exists d r', pols_apply x dflt l r = Ok (d, r') /\ api_attrs (r_attrs r').
  Proof.
    induction l as [|p l IH]; intros r Hapi; cbn [Policy.pols_apply]; [eauto|].
    destruct (policy_apply_total x (p_stmts p) r Hapi) as (d & r1 & -> & H1). cbn [bind].
    destruct (disp_eqb d DPass); [apply IH; exact H1|eauto].
  Qed.

  (* evaluation returns (it does not panic) on every attribute list the API can
     produce, for every assignment, route context and next hop *)
  Theorem eval_total_api a x r :
    api_attrs (r_attrs r) -> exists d r', eval_code a x r = Ok (d, r').
  Proof.
    intros Hapi. destruct (pols_apply_total x (as_disp a) (as_pols a) r Hapi) as (d & r' & H & _).
    exists d, r'. exact H.
  Qed.
End Refinement.

Lemma wire_is_api l : wire_attrs l -> api_attrs l.
Proof.
  unfold wire_attrs, api_attrs. rewrite !Forall_forall. intros H a Hin Hc v Hv.
  destruct (H a Hin Hc) as (segs & _ & E). rewrite E in Hv. discriminate.
Qed.

(* ------------------------------------------------------------------ *)
(* finding C14-1 (repaired): a general as-path pattern is now evaluated.  The
   witness on which the old code accepted (Proofs/PolicyPre.v) is rejected, as
   the reference semantics prescribes, whenever the oracle says the pattern
   matches the rendered path "65001". *)

Definition w_stmt : stmt :=
  {| st_name := 1;
     st_conds := [CSet 1 MAny (SAsPath {| ap_single := []; ap_regex := [1] |})];
     st_disp := Some DReject;
     st_act := {| ac_nexthop := None; ac_comm := None; ac_local_pref := None; ac_med := None;
                  ac_prepend := None; ac_ext := None; ac_large := None; ac_origin := None |} |}.
Definition w_asg : assignment := {| as_disp := DAccept; as_pols := [{| p_name := 1; p_stmts := [w_stmt] |}]; as_needs_rpki := false |}.
Definition w_ctx : ctx :=
  {| x_src := {| s_is_local := false; s_remote_addr := IP4 1; s_local_addr := IP4 2; s_remote_asn := 65001; s_local_asn := 65000 |};
     x_net := NV4 167772160 8; x_orig_nh := None; x_confed := false; x_local := IP4 2; x_peer := IP4 1 |}.
Definition w_route : rstate :=
  {| r_attrs := [{| a_code := AS_PATH; a_flags := 64; a_data := DBin [2; 1; 0; 0; 253; 233] |}]; r_nh := None |}.

Example regex_pattern_evaluated :
  render_path [2; 1; 0; 0; 253; 233] = [54; 53; 48; 48; 49] /\
  (forall rc re rl rp,
     eval_code rc re rl (fun id s => (id =? 1) && (length s =? 5)%nat) rp w_asg w_ctx w_route = Ok (DReject, w_route)) /\
  (forall rc re rl rp,
     eval_code rc re rl (fun _ _ => false) rp w_asg w_ctx w_route = Ok (DAccept, w_route)).
Proof. repeat split; intros; vm_compute; reflexivity. Qed.

(* ------------------------------------------------------------------ *)
(* non-vacuity: an assignment whose evaluation
   exercises nested prefix entries, an as-path pattern, accumulation and a
   deciding statement                                                      *)

Definition ex_pset : pset :=
  {| ps_v4 := [ {| pe_key := 167772160; pe_mask := 8; pe_raw := 167772160; pe_min := 8; pe_max := 32 |};
                {| pe_key := 167837696; pe_mask := 16; pe_raw := 167837696; pe_min := 16; pe_max := 16 |} ];
     ps_v6 := []; ps_zero := None; ps_zero6 := None |}.
Definition no_act : actions :=
  {| ac_nexthop := None; ac_comm := None; ac_local_pref := None; ac_med := None;
     ac_prepend := None; ac_ext := None; ac_large := None; ac_origin := None |}.
Definition ex_s1 : stmt :=
  {| st_name := 1; st_conds := [CSet 1 MAny (SPrefix ex_pset)]; st_disp := None;
     st_act := {| ac_nexthop := None; ac_comm := Some (CaAdd, [4259840100]); ac_local_pref := Some 200; ac_med := None;
                  ac_prepend := None; ac_ext := None; ac_large := None; ac_origin := None |} |}.
Definition ex_s2 : stmt :=
  {| st_name := 2;
     st_conds := [CSet 1 MAll (SAsPath {| ap_single := [{| sg_kind := 2; sg_a := 65001; sg_b := 0 |}]; ap_regex := [] |});
                  CSet 1 MAny (SComm [CExact 4259840100]); CLocalPrefEq 200];
     st_disp := Some DReject; st_act := no_act |}.
Definition ex_asg : assignment :=
  {| as_disp := DAccept; as_pols := [{| p_name := 1; p_stmts := [ex_s1] |}; {| p_name := 2; p_stmts := [ex_s2] |}]; as_needs_rpki := false |}.
Definition ex_ctx : ctx :=
  {| x_src := x_src w_ctx; x_net := NV4 167838208 24; x_orig_nh := None; x_confed := false; x_local := IP4 2; x_peer := IP4 1 |}.
Definition ex_route : rstate :=
  {| r_attrs := [{| a_code := AS_PATH; a_flags := 64; a_data := DBin [2; 1; 0; 0; 253; 233; 2; 0] |}]; r_nh := None |}.

Example ex_hypotheses : wf_assignment ex_asg /\ api_attrs (r_attrs ex_route) /\ wire_attrs (r_attrs ex_route).
Proof.
  split; [|split].
  - repeat constructor; vm_compute; congruence.
  - repeat constructor. intros _ v. discriminate.
  - repeat constructor. intros _. exists [(2, [65001]); (2, [])]. split; [|reflexivity].
    repeat constructor; cbn; try lia.
Qed.

Example ex_evaluates rc re rl rxa rp :
  exists r', eval_code rc re rl rxa rp ex_asg ex_ctx ex_route = Ok (DReject, r') /\ length (r_attrs r') = 3%nat.
Proof. eexists. split; vm_compute; reflexivity. Qed.

(* ------------------------------------------------------------------ *)
(* final statements pinned in Props/C14.v                               *)

Lemma C14_eval_never_panics_api :
  forall (rc re rl : N -> N -> bool) (rxa : N -> list N -> bool) (rp : option (nlri -> N -> option N)) a x r,
    api_attrs (r_attrs r) -> exists d r', eval_code rc re rl rxa rp a x r = Ok (d, r').
Proof. intros rc re rl rxa rp a x r H. exact (eval_total_api rc re rl rxa rp a x r H). Qed.

Lemma C14_eval_never_panics_wire :
  forall (rc re rl : N -> N -> bool) (rxa : N -> list N -> bool) (rp : option (nlri -> N -> option N)) a x r,
    wire_attrs (r_attrs r) -> exists d r', eval_code rc re rl rxa rp a x r = Ok (d, r').
Proof. intros rc re rl rxa rp a x r H. apply C14_eval_never_panics_api. apply wire_is_api. exact H. Qed.
