(* C03, BGP part: the UPDATE arm of parse_message never panics: the attribute
   walk stays inside the attribute block, the AS_PATH / AS4_PATH values that
   reach reconcile_as4 are well-formed segment lists (so count_as_hops and
   as_path_take_prefix index inside them), AGGREGATOR / AS4_AGGREGATOR values
   have their 8 bytes, and every slice taken for the NLRI fields is in range. *)
From Coq Require Import List NArith ZArith Bool Lia ZifyBool ZifyNat ZifyN.
From RB Require Import Base.Val Base.Bytes Model.Caps Model.Wire Model.WireNlri Model.WireUpdate
     Proofs.Wire Proofs.WireNlri.
Import ListNotations.
Open Scope N_scope.

Ltac Zify.zify_post_hook ::= Z.to_euclidean_division_equations.

(* ---- well-formed four-octet segment lists *)
Inductive segs_wf : list N -> Prop :=
| sw_nil : segs_wf []
| sw_seg t cnt r : (nat_of (cnt * 4) <= length r)%nat -> segs_wf (skipn (nat_of (cnt * 4)) r) ->
                   segs_wf (t :: cnt :: r).

Lemma aspath4_ok_wf : forall fuel nz b, aspath4_ok_fuel fuel nz b = true -> segs_wf b.
Proof.
  induction fuel as [|f IH]; intros nz b H.
  - destruct b; [constructor|discriminate].
  - destruct b as [|t [|cnt r]]; [constructor|discriminate|].
    cbn [aspath4_ok_fuel] in H.
    destruct (_ || _); [discriminate|].
    destruct (Nat.ltb (length r) (nat_of (cnt * 4))) eqn:E; [discriminate|].
    apply PeanoNat.Nat.ltb_ge in E. constructor; [exact E|]. eapply IH; eassumption.
Qed.

Lemma widen2_spec : forall n l o r, widen2 n l = Some (o, r) -> length o = (4 * n)%nat.
Proof.
  induction n as [|n IH]; intros l o r H; cbn [widen2] in H.
  - injection H as <- _. reflexivity.
  - destruct l as [|a [|b l']]; try discriminate.
    destruct (widen2 n l') as [[o' r']|] eqn:E; [|discriminate].
    injection H as <- _. cbn [length]. rewrite (IH _ _ _ E). lia.
Qed.

Lemma aspath2_wf : forall fuel b o, aspath2_fuel fuel b = Some o -> segs_wf o.
Proof.
  induction fuel as [|f IH]; intros b o H.
  - destruct b; [injection H as <-; constructor|discriminate].
  - destruct b as [|t [|cnt r]]; [injection H as <-; constructor|discriminate|].
    cbn [aspath2_fuel] in H.
    destruct (negb (seg_type_ok t) || (cnt =? 0)); [discriminate|].
    destruct (widen2 (nat_of cnt) r) as [[w r']|] eqn:Ew; [|discriminate].
    destruct (aspath2_fuel f r') as [o'|] eqn:Er; [|discriminate].
    injection H as <-.
    pose proof (widen2_spec _ _ _ _ Ew) as Hw.
    assert (Hn : nat_of (cnt * 4) = length w) by (unfold nat_of in *; lia).
    constructor.
    + rewrite app_length. lia.
    + rewrite Hn, skipn_app, skipn_all, PeanoNat.Nat.sub_diag. cbn [app skipn]. eapply IH; eassumption.
Qed.

Lemma count_hops_nopanic : forall fuel b acc, segs_wf b -> (length b < fuel)%nat ->
  nopanic (count_hops_fuel fuel b acc).
Proof.
  induction fuel as [|f IH]; intros b acc Hw Hf; [lia|].
  destruct Hw as [|t cnt r Hl Hw]; [exact I|].
  cbn [count_hops_fuel]. apply IH; [exact Hw|].
  rewrite skipn_length. cbn [length] in Hf. lia.
Qed.

Lemma take_prefix_nopanic : forall fuel b n, segs_wf b -> (length b < fuel)%nat ->
  nopanic (take_prefix_fuel fuel b n).
Proof.
  induction fuel as [|f IH]; intros b n Hw Hf; [lia|].
  cbn [take_prefix_fuel].
  destruct (n =? 0); [exact I|].
  destruct Hw as [|t cnt r Hl Hw]; [exact I|].
  cbn [length] in Hf.
  assert (Hrec : forall m, nopanic (take_prefix_fuel f (skipn (nat_of (cnt * 4)) r) m)).
  { intro m. apply IH; [exact Hw|]. rewrite skipn_length. lia. }
  destruct (t =? 2).
  - destruct (Nat.ltb (length r) (nat_of (N.min cnt n * 4))) eqn:E.
    + apply PeanoNat.Nat.ltb_lt in E. unfold nat_of in *. lia.
    + apply np_bind; [apply Hrec|]. intros; exact I.
  - destruct (Nat.ltb (length r) (nat_of (cnt * 4))) eqn:E.
    + apply PeanoNat.Nat.ltb_lt in E. lia.
    + destruct (t =? 1); (apply np_bind; [apply Hrec|]; intros; exact I).
Qed.

Lemma as_path_reconcile_nopanic a b : segs_wf a -> segs_wf b -> nopanic (as_path_reconcile a b).
Proof.
  intros Ha Hb. unfold as_path_reconcile, count_hops.
  apply np_bind; [apply count_hops_nopanic; [exact Ha|lia]|]. intros c1 _.
  apply np_bind; [apply count_hops_nopanic; [exact Hb|lia]|]. intros c2 _.
  destruct (c1 <? c2); [exact I|].
  apply np_bind; [apply take_prefix_nopanic; [exact Ha|lia]|]. intros; exact I.
Qed.

(* ---- what the attribute list handed to reconcile_as4 satisfies *)
Definition attr_ok (a : attr) : Prop :=
  (a_code a = 2 \/ a_code a = 17 -> exists b, a_data a = ABin b /\ segs_wf b) /\
  (a_code a = 7 \/ a_code a = 18 -> exists b, a_data a = ABin b /\ (4 <= length b)%nat).

Lemma attr_decode_ok code flags v tb a : attr_decode code flags v tb = Some a -> attr_ok a /\ a_code a = code.
Proof.
  unfold attr_decode. intro H.
  assert (Hc : a_code a = code).
  { repeat match type of H with
           | (match ?x with _ => _ end) = Some _ => destruct x; try discriminate
           | (if ?x then _ else _) = Some _ => destruct x; try discriminate
           end; injection H as <-; reflexivity. }
  split; [|exact Hc]. unfold attr_ok. rewrite Hc. split.
  - intros [-> | ->].
    + destruct tb.
      * destruct (aspath2_fuel _ v) as [o|] eqn:E; [|discriminate]. injection H as <-.
        exists o. split; [reflexivity|]. eapply aspath2_wf; eassumption.
      * destruct (aspath4_ok true v) eqn:E; [|discriminate]. injection H as <-.
        exists v. split; [reflexivity|]. eapply aspath4_ok_wf; eassumption.
    + destruct (_ || _); [discriminate|].
      destruct (aspath4_ok true v) eqn:E; [|discriminate]. injection H as <-.
      exists v. split; [reflexivity|]. eapply aspath4_ok_wf; eassumption.
  - intros [-> | ->].
    + destruct v as [|x1 [|x2 [|x3 [|x4 [|x5 [|x6 [|x7 [|x8 [|x9 v]]]]]]]]]; try discriminate;
        injection H as <-; eexists; (split; [reflexivity|cbn [length]; lia]).
    + destruct (len v =? 8) eqn:E; [|discriminate]. injection H as <-.
      exists v. split; [reflexivity|]. pose proof (len_length v). lia.
Qed.

Lemma opaque_ok code flags b : canonical_flags code = None ->
  attr_ok {| a_code := code; a_flags := flags; a_data := AOpaque b |}.
Proof.
  intro H. unfold attr_ok. cbn [a_code]. split; intros [-> | ->]; discriminate.
Qed.

Definition attrs_ok (s : ustate) : Prop := Forall attr_ok (u_attrs s).

Lemma add_attr_ok s a : attrs_ok s -> attr_ok a -> attrs_ok (add_attr s a).
Proof. unfold attrs_ok, add_attr. cbn [u_attrs]. intros H Ha. apply Forall_app. split; [exact H|]. constructor; [exact Ha|constructor]. Qed.

Lemma accept_ok tb s a : attrs_ok s -> attr_ok a -> attrs_ok (accept tb s a).
Proof.
  intros H Ha. unfold accept.
  destruct (a_code a =? 14); [exact H|]. destruct (a_code a =? 15); [exact H|].
  destruct (a_code a =? 3); [exact H|]. destruct (_ && _); [exact H|]. apply add_attr_ok; assumption.
Qed.

(* ---- the attribute walk: [arem] never exceeds what is left of the frame, so
   the unwrap()ed header reads succeed, and the collected attributes are ok *)
Lemma attr_loop_spec tb : forall fuel c arem s,
  (length c < fuel)%nat -> arem <= len c -> attrs_ok s ->
  nopanic (attr_loop fuel tb c arem s) /\
  forall s' arem', attr_loop fuel tb c arem s = Ok (s', arem') -> attrs_ok s'.
Proof.
  induction fuel as [|f IH]; intros c arem s Hf Hc Hs; [lia|].
  cbn [attr_loop].
  destruct (arem =? 0) eqn:E0. { split; [exact I|]. intros ? ? H. injection H as <- _. exact Hs. }
  destruct (arem <? 2) eqn:E2. { split; [exact I|]. intros ? ? H. injection H as <- _. exact Hs. }
  destruct c as [|flags [|code c2]]; try (rewrite ?len_cons, ?len_nil in Hc; lia).
  cbn [get8 must bind].
  rewrite !len_cons in Hc. cbn [length] in Hf.
  (* the length octet(s) *)
  assert (Hstep : forall alen c3 arem3, (length c3 < f)%nat -> arem3 <= len c3 -> forall s3, attrs_ok s3 ->
            nopanic (attr_loop f tb (skipn (nat_of alen) c3) (arem3 - alen) s3) /\
            forall s' arem', attr_loop f tb (skipn (nat_of alen) c3) (arem3 - alen) s3 = Ok (s', arem') -> attrs_ok s').
  { intros alen c3 arem3 Hf3 Hc3 s3 Hs3. apply IH; [rewrite skipn_length; lia| |exact Hs3].
    rewrite len_skipn. unfold nat_of. lia. }
  assert (Hbody : forall alen c3 arem3, (length c3 < f)%nat -> arem3 <= len c3 ->
     let body :=
       if arem3 <? alen then Ok (s, N.max arem3 1) else
       let skip := skipn (nat_of alen) c3 in
       let arem' := arem3 - alen in
       if seen s code then
         if (code =? 14) || (code =? 15) then Fail MAL else attr_loop f tb skip arem' s
       else
         let s := mark_seen s code in
         match canonical_flags code with
         | Some expected =>
           let flags_error := negb (N.land (N.lxor flags expected) 192 =? 0) in
           let s := if flags_error then add_err s code flags else s in
           if flags_error && negb ((code =? 14) || (code =? 15)) then attr_loop f tb skip arem' s
           else match (if Nat.ltb (length c3) (nat_of alen) then None
                       else attr_decode code flags (firstn (nat_of alen) c3) tb) with
                | Some a => attr_loop f tb skip arem' (accept tb s a)
                | None => attr_loop f tb skip arem' (if (code =? 17) || (code =? 18) then s else add_err s code flags)
                end
         | None =>
           if negb (has_flag flags FLAG_OPTIONAL) then attr_loop f tb skip arem' (add_err s code flags)
           else if has_flag flags FLAG_TRANSITIVE then
             if Nat.ltb (length c3) (nat_of alen) then Fail MAL
             else attr_loop f tb skip arem'
                    (add_attr s {| a_code := code; a_flags := flags; a_data := AOpaque (firstn (nat_of alen) c3) |})
           else attr_loop f tb skip arem' s
         end in
     nopanic body /\ forall s' arem', body = Ok (s', arem') -> attrs_ok s').
  { intros alen c3 arem3 Hf3 Hc3. cbv zeta.
    destruct (arem3 <? alen). { split; [exact I|]. intros ? ? H. injection H as <- _. exact Hs. }
    destruct (seen s code).
    { destruct (_ || _); [split; [exact I|discriminate]|]. apply Hstep; assumption. }
    assert (Hm : attrs_ok (mark_seen s code)) by exact Hs.
    destruct (canonical_flags code) as [ef|] eqn:Ecf.
    - set (fe := negb _).
      assert (Hm2 : attrs_ok (if fe then add_err (mark_seen s code) code flags else mark_seen s code))
        by (destruct fe; exact Hm).
      remember (if fe then add_err (mark_seen s code) code flags else mark_seen s code) as sm eqn:Esm. clear Esm.
      destruct (fe && _). { apply Hstep; assumption. }
      clear Hm. rename Hm2 into Hm.
      destruct (Nat.ltb (length c3) (nat_of alen)).
      { apply Hstep; try assumption. destruct (_ || _); exact Hm. }
      destruct (attr_decode code flags _ tb) as [a|] eqn:Ed.
      + apply Hstep; try assumption. apply accept_ok; [exact Hm|]. eapply attr_decode_ok; eassumption.
      + apply Hstep; try assumption. destruct (_ || _); exact Hm.
    - destruct (negb _). { apply Hstep; assumption. }
      destruct (has_flag flags FLAG_TRANSITIVE); [|apply Hstep; assumption].
      destruct (Nat.ltb _ _); [split; [exact I|discriminate]|].
      apply Hstep; try assumption. apply add_attr_ok; [exact Hm|]. apply opaque_ok. exact Ecf. }
  destruct (has_flag flags FLAG_EXTENDED).
  - destruct (arem - 2 <? 2) eqn:E3; cbn [bind].
    { split; [exact I|]. intros ? ? H. injection H as <- _. exact Hs. }
    destruct c2 as [|l1 [|l2 c3]]; try (rewrite ?len_cons, ?len_nil in Hc; lia).
    cbn [get16 must bind]. rewrite !len_cons in Hc. cbn [length] in Hf.
    apply (Hbody (be16 l1 l2) c3 (arem - 2 - 2)); lia.
  - destruct (arem - 2 <? 1) eqn:E3; cbn [bind].
    { split; [exact I|]. intros ? ? H. injection H as <- _. exact Hs. }
    destruct c2 as [|l1 c3]; try (rewrite ?len_cons, ?len_nil in Hc; lia).
    cbn [get8 must bind]. rewrite !len_cons in Hc. cbn [length] in Hf.
    apply (Hbody l1 c3 (arem - 2 - 1)); lia.
Qed.

(* ---- reconcile_as4 *)
Lemma find_code_in code l a : find_code code l = Some a -> In a l /\ a_code a = code.
Proof.
  induction l as [|x l IH]; cbn [find_code]; [discriminate|].
  destruct (a_code x =? code) eqn:E.
  - intro H. injection H as <-. split; [left; reflexivity|lia].
  - intro H. destruct (IH H). split; [right; assumption|assumption].
Qed.

Lemma remove_code_ok code l : Forall attr_ok l -> Forall attr_ok (remove_code code l).
Proof.
  induction 1 as [|x l Hx Hl IH]; cbn [remove_code]; [constructor|].
  destruct (a_code x =? code); [exact Hl|constructor; assumption].
Qed.

Lemma replace_code_ok code y l : Forall attr_ok l -> attr_ok y -> Forall attr_ok (replace_code code y l).
Proof.
  intros H Hy. induction H as [|x l Hx Hl IH]; cbn [replace_code]; [constructor|].
  destruct (a_code x =? code); constructor; assumption.
Qed.

Lemma reconcile_as4_nopanic attrs : Forall attr_ok attrs -> nopanic (reconcile_as4 attrs).
Proof.
  intro H0. unfold reconcile_as4.
  set (as4p := find_code 17 attrs).
  set (attrs1 := match as4p with Some _ => remove_code 17 attrs | None => attrs end).
  assert (H1 : Forall attr_ok attrs1) by (subst attrs1; destruct as4p; [apply remove_code_ok|]; exact H0).
  set (as4a := find_code 18 attrs1).
  set (attrs2 := match as4a with Some _ => remove_code 18 attrs1 | None => attrs1 end).
  assert (H2 : Forall attr_ok attrs2) by (subst attrs2; destruct as4a; [apply remove_code_ok|]; exact H1).
  assert (Hp4 : forall p4, as4p = Some p4 -> exists b, a_data p4 = ABin b /\ segs_wf b).
  { intros p4 E. apply find_code_in in E. destruct E as [Hin Hc].
    rewrite Forall_forall in H0. apply (H0 _ Hin). right. exact Hc. }
  assert (Ha4 : forall a4, as4a = Some a4 -> exists b, a_data a4 = ABin b /\ (4 <= length b)%nat).
  { intros a4 E. apply find_code_in in E. destruct E as [Hin Hc].
    rewrite Forall_forall in H1. apply (H1 _ Hin). right. exact Hc. }
  (* the aggregator step *)
  assert (Hagg : nopanic (match as4a, find_code 7 attrs2 with
     | Some a4, Some agg =>
       b <- bin_of agg ;;
       match b with
       | x1 :: x2 :: x3 :: x4 :: _ =>
         if be32 x1 x2 x3 x4 =? 23456 then
           nb <- bin_of a4 ;;
           Ok (replace_code 7 {| a_code := 7; a_flags := 192; a_data := ABin nb |} attrs2, false)
         else Ok (attrs2, true)
       | _ => Panic 6
       end
     | _, _ => Ok (attrs2, false)
     end) /\
     forall attrs3 ig, (match as4a, find_code 7 attrs2 with
     | Some a4, Some agg =>
       b <- bin_of agg ;;
       match b with
       | x1 :: x2 :: x3 :: x4 :: _ =>
         if be32 x1 x2 x3 x4 =? 23456 then
           nb <- bin_of a4 ;;
           Ok (replace_code 7 {| a_code := 7; a_flags := 192; a_data := ABin nb |} attrs2, false)
         else Ok (attrs2, true)
       | _ => Panic 6
       end
     | _, _ => Ok (attrs2, false)
     end) = Ok (attrs3, ig) -> Forall attr_ok attrs3).
  { destruct as4a as [a4|]; [|split; [exact I|intros ? ? H; injection H as <- _; exact H2]].
    destruct (find_code 7 attrs2) as [agg|] eqn:E7; [|split; [exact I|intros ? ? H; injection H as <- _; exact H2]].
    apply find_code_in in E7. destruct E7 as [Hin Hc].
    rewrite Forall_forall in H2. destruct (proj2 (H2 _ Hin) (or_introl Hc)) as (b & Hb & Hl).
    rewrite <- Forall_forall in H2.
    unfold bin_of at 1 3. rewrite Hb. cbn [bind].
    destruct b as [|x1 [|x2 [|x3 [|x4 b]]]]; try (cbn [length] in Hl; lia).
    destruct (Ha4 a4 eq_refl) as (nb & Hnb & Hnl).
    destruct (_ =? 23456).
    - unfold bin_of. rewrite Hnb. cbn [bind]. split; [exact I|].
      intros ? ? H. injection H as <- _. apply replace_code_ok; [exact H2|].
      unfold attr_ok. cbn [a_code a_data]. split; [intros [?|?]; discriminate|].
      intros _. exists nb. split; [reflexivity|exact Hnl].
    - split; [exact I|]. intros ? ? H. injection H as <- _. exact H2. }
  destruct Hagg as [Np Hr].
  apply np_bind; [exact Np|]. intros [attrs3 ig] E.
  specialize (Hr _ _ E).
  destruct ig; [exact I|].
  destruct as4p as [p4|]; [|exact I].
  destruct (find_code 2 attrs3) as [p|] eqn:E2; [|exact I].
  apply find_code_in in E2. destruct E2 as [Hin Hc].
  rewrite Forall_forall in Hr. destruct (proj1 (Hr _ Hin) (or_introl Hc)) as (b & Hb & Hw).
  destruct (Hp4 p4 eq_refl) as (b4 & Hb4 & Hw4).
  unfold bin_of. rewrite Hb, Hb4. cbn [bind].
  apply np_bind; [apply as_path_reconcile_nopanic; assumption|]. intros; exact I.
Qed.

(* ---- the whole UPDATE arm *)
Section UpdateFacts.
  Variable other_nlri : N -> bool -> list N -> option (list N).
  Hypothesis other_consumes : forall f r c c', other_nlri f r c = Some c' -> len c' < len c.

  Lemma parse_update_nopanic cd hdr frame : nopanic (parse_update other_nlri cd hdr frame).
  Proof.
    unfold parse_update.
    destruct (len frame <? 23) eqn:E23; [exact I|].
    pose proof (len_skipn 19 frame) as Hs.
    remember (skipn 19 frame) as body eqn:Hb. clear Hb.
    destruct body as [|w1 [|w2 c]]; try (rewrite ?len_cons, ?len_nil in Hs; lia).
    cbn [get16 must bind]. rewrite !len_cons in Hs.
    destruct (len frame <? be16 w1 w2 + 23) eqn:Ewl; [exact I|].
    set (wl := be16 w1 w2) in *.
    destruct (get16 (skipn (nat_of wl) c)) as [[al c2]|] eqn:Gal; cbn [rm req bind]; [|exact I].
    apply get16_some in Gal. rewrite len_skipn in Gal.
    destruct (len frame <? wl + al + 23) eqn:Eal; [exact I|].
    destruct (attr_loop_spec (c_two_byte cd) (S (length c2)) c2 al u0 ltac:(lia)
                ltac:(unfold nat_of in *; lia) ltac:(constructor)) as [Np Hr].
    apply np_bind; [exact Np|]. intros [s arem] Eloop. specialize (Hr _ _ Eloop).
    destruct (_ && _); [exact I|].
    (* the error bookkeeping does not touch u_attrs *)
    remember (post_errs (len frame - (23 + wl + al)) arem s) as s2 eqn:Hs2.
    assert (Hu : u_attrs s2 = u_attrs s).
    { subst s2. unfold post_errs. repeat match goal with |- context [if ?b then _ else _] => destruct b end; reflexivity. }
    clear Hs2.
    apply np_bind.
    { destruct (negb _); [|exact I]. apply np_bind; [apply np_req|]. intros ap _.
      apply nlri_list_nopanic. exact other_consumes. }
    intros reach _.
    apply np_bind.
    { destruct (0 <? wl) eqn:Ew0; [|exact I]. apply np_bind; [apply np_req|]. intros ap _.
      destruct (Nat.ltb _ _) eqn:El.
      - apply PeanoNat.Nat.ltb_lt in El. rewrite firstn_length in El. unfold nat_of in *.
        pose proof (len_length c). lia.
      - apply nlri_list_nopanic. exact other_consumes. }
    intros unreach _.
    apply np_bind.
    { destruct (u_mp_reach s2) as [d|]; [|exact I].
      destruct (len d <? 5) eqn:E5; [exact I|].
      destruct d as [|d1 [|d2 [|d3 [|d4 d]]]]; try (rewrite ?len_cons, ?len_nil in E5; lia).
      cbn [get16 get8 must bind].
      apply np_bind; [apply np_req|]. intros ap _.
      destruct (len _ <? 5 + d4) eqn:En; [exact I|].
      apply np_bind.
      { repeat match goal with |- nopanic (if ?b then _ else _) => destruct b end; exact I. }
      intros nh _.
      destruct (get8 (skipn (nat_of d4) d)) as [[rsv d5]|] eqn:Gr.
      - cbn [must bind]. apply np_bind; [apply nlri_list_nopanic; exact other_consumes|]. intros; exact I.
      - apply get8_none in Gr. rewrite len_skipn in Gr. rewrite !len_cons in En. unfold nat_of in *. lia. }
    intros mp_reach _.
    apply np_bind.
    { destruct (u_mp_unreach s2) as [d|]; [|exact I].
      destruct (len d <? 3) eqn:E3; [exact I|].
      destruct d as [|d1 [|d2 [|d3 d]]]; try (rewrite ?len_cons, ?len_nil in E3; lia).
      cbn [get16 get8 must bind].
      apply np_bind; [apply np_req|]. intros ap _.
      apply np_bind; [apply nlri_list_nopanic; exact other_consumes|]. intros; exact I. }
    intros mp_unreach _.
    assert (Hrec : nopanic (if c_two_byte cd then reconcile_as4 (u_attrs s2) else Ok (u_attrs s2))).
    { destruct (c_two_byte cd); [|exact I]. apply reconcile_as4_nopanic. rewrite Hu. exact Hr. }
    destruct mp_unreach as [[fam [|e es]]|].
    - destruct (_ && _); [exact I|]. apply np_bind; [exact Hrec|]. intros; exact I.
    - apply np_bind; [exact Hrec|]. intros; exact I.
    - apply np_bind; [exact Hrec|]. intros; exact I.
  Qed.
End UpdateFacts.

(* ---- the length test of the unrepaired code (before 6ec75c9): a 23-byte UPDATE
   with attribute length 0xffff panics the debug build; the release build wraps
   and lets through an attribute block that ends 65535 bytes past the frame *)
Lemma C03_update_len_v0_refuted :
  upd_len_ok_v0 Debug 23 0 65535 = None /\ upd_len_ok_v0 Release 23 0 65535 = Some true.
Proof. split; reflexivity. Qed.
