(* C03, BGP part: every error result of try_parse carries a (code, subcode) of the table
   Spec/WireSpec.v notification_allowed. *)
From Coq Require Import List NArith ZArith Bool Lia.
From RB Require Import Base.Val Base.Bytes Model.Caps Model.Stream Model.Wire Model.WireNlri Model.WireUpdate Model.WireMsg
     Spec.WireSpec Proofs.Wire.
Import ListNotations.
Open Scope N_scope.

Definition okn (e : notif) : bool := notification_allowed (n_code e) (n_sub e).
Definition okf {A} (r : res A) : Prop := match r with Fail e => okn e = true | _ => True end.

Lemma okf_bind {A B} (e : res A) (k : A -> res B) : okf e -> (forall a, okf (k a)) -> okf (bind e k).
Proof. destruct e; cbn; auto. Qed.
Lemma okf_req {A} e (o : option A) : okn e = true -> okf (req e o).
Proof. destruct o; cbn; auto. Qed.
Lemma okf_must {A} t (o : option A) : okf (must t o).
Proof. destruct o; exact I. Qed.

Ltac okf_tac :=
  repeat first
    [ exact I
    | reflexivity
    | apply okf_must
    | apply okf_req; reflexivity
    | match goal with |- okf (bind _ _) => apply okf_bind; [|intros] end
    | match goal with |- okf (let '(_, _) := ?x in _) => destruct x end
    | match goal with |- okf (if ?b then _ else _) => destruct b end
    | match goal with |- okf (match ?x with _ => _ end) => destruct x end ].

Lemma okf_cap_extnh n : forall c acc, okf (cap_extnh n c acc).
Proof. induction n as [|n IH]; intros c acc; cbn [cap_extnh]; unfold rq; okf_tac; apply IH. Qed.
Lemma okf_cap_gr_fams n : forall c acc, okf (cap_gr_fams n c acc).
Proof. induction n as [|n IH]; intros c acc; cbn [cap_gr_fams]; unfold rq; okf_tac; apply IH. Qed.
Lemma okf_cap_addpath n : forall c acc, okf (cap_addpath n c acc).
Proof. induction n as [|n IH]; intros c acc; cbn [cap_addpath]; unfold rq; okf_tac; apply IH. Qed.
Lemma okf_cap_llgr n : forall c acc, okf (cap_llgr n c acc).
Proof. induction n as [|n IH]; intros c acc; cbn [cap_llgr]; unfold rq; okf_tac; apply IH. Qed.

Lemma okf_cap_decode p code c clen : okf (cap_decode p code c clen).
Proof.
  unfold cap_decode, cap_err, rq.
  repeat first
    [ exact I | reflexivity | apply okf_must | apply okf_req; reflexivity
    | apply okf_cap_extnh | apply okf_cap_gr_fams | apply okf_cap_addpath | apply okf_cap_llgr
    | match goal with |- okf (bind _ _) => apply okf_bind; [|intros] end
    | match goal with |- okf (let '(_, _) := ?x in _) => destruct x end
    | match goal with |- okf (if ?b then _ else _) => destruct b end
    | match goal with |- okf (match ?x with _ => _ end) => destruct x end ].
Qed.

Lemma okf_caps_loop p : forall fuel c crem acc as4, okf (caps_loop fuel p c crem acc as4).
Proof.
  induction fuel as [|f IH]; intros c crem acc as4; cbn [caps_loop]; [okf_tac|].
  destruct (crem =? 0); [exact I|]. destruct (crem <? 2); [reflexivity|].
  apply okf_bind; [apply okf_must|]. intros [ct c1]. apply okf_bind; [apply okf_must|]. intros [cl c2].
  destruct (_ <? _); [reflexivity|]. apply okf_bind; [apply okf_cap_decode|]. intros [cp c3]. apply IH.
Qed.

Lemma okf_params_loop p : forall fuel c prem acc as4, okf (params_loop fuel p c prem acc as4).
Proof.
  induction fuel as [|f IH]; intros c prem acc as4; cbn [params_loop]; [okf_tac|].
  destruct (prem =? 0); [exact I|]. destruct (prem <? 2); [reflexivity|].
  apply okf_bind; [apply okf_must|]. intros [ot c1]. apply okf_bind; [apply okf_must|]. intros [ol c2].
  destruct (_ <? _); [reflexivity|]. destruct (ot =? 2).
  - apply okf_bind; [apply okf_caps_loop|]. intros [[a b] c3]. apply IH.
  - destruct (Nat.ltb _ _); [exact I|reflexivity].
Qed.

Lemma okf_parse_open p hdr frame : okn hdr = true -> okf (parse_open p hdr frame).
Proof.
  intro Hh. unfold parse_open. destruct (len frame <? 29); [exact Hh|].
  destruct (skipn 19 frame) as [|ver [|a1 [|a2 [|h1 [|h2 [|r1 [|r2 [|r3 [|r4 [|plen c]]]]]]]]]]; try exact I.
  destruct (negb _); [reflexivity|]. destruct (_ || _); [reflexivity|]. destruct (_ || _); [reflexivity|].
  destruct (_ <? _); [reflexivity|]. apply okf_bind; [apply okf_params_loop|]. intros [a b]. exact I.
Qed.

(* ---- NLRI *)
Lemma okf_label_stack : forall fuel c acc, okf (label_stack fuel c acc).
Proof.
  induction fuel as [|f IH]; intros c acc; cbn [label_stack]; [exact I|].
  destruct c as [|a [|b [|d r]]]; try reflexivity. destruct (N.testbit d 0); [exact I|apply IH].
Qed.

Lemma okf_prefix_decode mb ab c n : okf (prefix_decode mb ab c n).
Proof. unfold prefix_decode, rm. okf_tac. Qed.
Lemma okf_labeled_tail mb ab t lb c : okf (labeled_tail mb ab t lb c).
Proof. unfold labeled_tail, rm. okf_tac. Qed.
Lemma okf_labeled_decode mb ab r c n : okf (labeled_decode mb ab r c n).
Proof.
  unfold labeled_decode, rm.
  repeat first
    [ exact I | reflexivity | apply okf_req; reflexivity | apply okf_label_stack | apply okf_labeled_tail
    | match goal with |- okf (bind _ _) => apply okf_bind; [|intros] end
    | match goal with |- okf (let '(_, _) := ?x in _) => destruct x end
    | match goal with |- okf (if ?b then _ else _) => destruct b end ].
Qed.
Lemma okf_vpn_decode mb ab c n : okf (vpn_decode mb ab c n).
Proof.
  unfold vpn_decode, rm.
  repeat first
    [ exact I | reflexivity | apply okf_req; reflexivity | apply okf_label_stack
    | match goal with |- okf (bind _ _) => apply okf_bind; [|intros] end
    | match goal with |- okf (let '(_, _) := ?x in _) => destruct x end
    | match goal with |- okf (if ?b then _ else _) => destruct b end
    | match goal with |- okf (match ?x with _ => _ end) => destruct x end ].
Qed.


Lemma okf_evpn_decode c : okf (evpn_decode c).
Proof. unfold evpn_decode, evpn_route, rm. okf_tac. Qed.
Lemma okf_rtc_decode c : okf (rtc_decode c).
Proof. unfold rtc_decode, rm. okf_tac. Qed.
Lemma okf_srp_decode c : okf (srp_decode c).
Proof. unfold srp_decode, rm. okf_tac. Qed.
Lemma okf_ls_node_fold : forall tl nd, okf (ls_node_fold tl nd).
Proof.
  induction tl as [|[t v] r IH]; intro nd; cbn [ls_node_fold]; [exact I|].
  unfold ls_first.
  repeat first [ apply IH | exact I
               | match goal with |- okf (bind _ _) => apply okf_bind; [|intros] end
               | match goal with |- okf (if ?b then _ else _) => destruct b end ].
Qed.
Lemma okf_ls_link_tlvs : forall tl, okf (ls_link_tlvs tl).
Proof.
  induction tl as [|[t v] r IH]; cbn [ls_link_tlvs]; [exact I|]. unfold ls_first.
  repeat first [ apply IH | exact I
               | match goal with |- okf (bind _ _) => apply okf_bind; [|intros] end
               | match goal with |- okf (if ?b then _ else _) => destruct b end ].
Qed.
Lemma okf_ls_prefix_tlvs : forall tl, okf (ls_prefix_tlvs tl).
Proof.
  induction tl as [|[t v] r IH]; cbn [ls_prefix_tlvs]; [exact I|].
  repeat first [ apply IH | exact I
               | match goal with |- okf (bind _ _) => apply okf_bind; [|intros] end
               | match goal with |- okf (if ?b then _ else _) => destruct b end
               | match goal with |- okf (match ?x with _ => _ end) => destruct x end ].
Qed.
Lemma okf_ls_srv6_tlvs : forall tl a b, okf (ls_srv6_tlvs tl a b).
Proof.
  induction tl as [|[t v] r IH]; intros a b; cbn [ls_srv6_tlvs]; [exact I|]. unfold ls_first.
  repeat first [ apply IH | exact I
               | match goal with |- okf (bind _ _) => apply okf_bind; [|intros] end
               | match goal with |- okf (if ?b then _ else _) => destruct b end ].
Qed.
Lemma okf_ls_node_and_rest d : okf (ls_node_and_rest d).
Proof.
  unfold ls_node_and_rest, ls_node. destruct (ls_read_tlv d) as [[[t v] r]|]; [|reflexivity].
  destruct (negb _); [reflexivity|]. apply okf_bind; [apply okf_ls_node_fold|intros; exact I].
Qed.
Lemma okf_ls_decode c : okf (ls_decode c).
Proof.
  unfold ls_decode, rm, ls_first.
  repeat first
    [ exact I | reflexivity | apply okf_req; reflexivity | apply okf_ls_node_and_rest
    | apply okf_ls_link_tlvs | apply okf_ls_prefix_tlvs | apply okf_ls_srv6_tlvs
    | match goal with |- okf (bind _ _) => apply okf_bind; [|intros] end
    | match goal with |- okf (let '(_, _) := ?x in _) => destruct x end
    | match goal with |- okf (if ?b then _ else _) => destruct b end
    | match goal with |- okf (match ?x with _ => _ end) => destruct x end ].
Qed.
Lemma okf_mup_decode fam c n : okf (mup_decode fam c n).
Proof. unfold mup_decode, rm. okf_tac. Qed.
Lemma okf_fs_op c : okf (fs_op c).
Proof. unfold fs_op, rm. okf_tac. Qed.
Lemma okf_fs_ops : forall fuel c acc, okf (fs_ops fuel c acc).
Proof.
  induction fuel as [|f IH]; intros c acc; cbn [fs_ops]; [exact I|].
  apply okf_bind; [apply okf_fs_op|]. intros [[b v] c1]. destruct (N.testbit b 7); [exact I|apply IH].
Qed.
Lemma okf_fs_component v6 c : okf (fs_component v6 c).
Proof.
  unfold fs_component, rm.
  repeat first
    [ exact I | reflexivity | apply okf_req; reflexivity | apply okf_fs_ops
    | match goal with |- okf (bind _ _) => apply okf_bind; [|intros] end
    | match goal with |- okf (let '(_, _) := ?x in _) => destruct x end
    | match goal with |- okf (if ?b then _ else _) => destruct b end ].
Qed.
Lemma okf_fs_components : forall fuel v6 c acc, okf (fs_components fuel v6 c acc).
Proof.
  induction fuel as [|f IH]; intros v6 c acc; destruct c as [|b c]; cbn [fs_components]; try exact I.
  apply okf_bind; [apply okf_fs_component|]. intros [x c']. apply IH.
Qed.
Lemma okf_fs_decode vpn v6 c n : okf (fs_decode vpn v6 c n).
Proof.
  unfold fs_decode, rm.
  repeat first
    [ exact I | reflexivity | apply okf_req; reflexivity | apply okf_fs_components
    | match goal with |- okf (bind _ _) => apply okf_bind; [|intros] end
    | match goal with |- okf (let '(_, _) := ?x in _) => destruct x end
    | match goal with |- okf (if ?b then _ else _) => destruct b end ].
Qed.

Section ErrFacts.
  Variable other_nlri : N -> bool -> list N -> option (list N).

  Lemma okf_nlri_decode fam r c n : okf (nlri_decode other_nlri fam r c n).
  Proof.
    unfold nlri_decode.
    repeat first
      [ exact I | reflexivity | apply okf_prefix_decode | apply okf_vpn_decode | apply okf_labeled_decode
      | apply okf_evpn_decode | apply okf_rtc_decode | apply okf_srp_decode | apply okf_fs_decode | apply okf_mup_decode | apply okf_ls_decode
      | match goal with |- okf (bind _ _) => apply okf_bind; [|intros] end
      | match goal with |- okf (let '(_, _) := ?x in _) => destruct x end
      | match goal with |- okf (if ?b then _ else _) => destruct b end
      | match goal with |- okf (match ?x with _ => _ end) => destruct x end ].
  Qed.

  Lemma okf_path_nlri fam ap r c : okf (path_nlri_decode other_nlri fam ap r c).
  Proof.
    unfold path_nlri_decode, rm.
    repeat first
      [ exact I | reflexivity | apply okf_req; reflexivity | apply okf_nlri_decode
      | match goal with |- okf (bind _ _) => apply okf_bind; [|intros] end
      | match goal with |- okf (let '(_, _) := ?x in _) => destruct x end
      | match goal with |- okf (if ?b then _ else _) => destruct b end ].
  Qed.

  Lemma okf_nlri_list_fuel : forall fuel fam ap r c acc, okf (nlri_list_fuel other_nlri fuel fam ap r c acc).
  Proof.
    induction fuel as [|f IH]; intros fam ap r c acc; destruct c as [|b c]; cbn [nlri_list_fuel]; try exact I.
    apply okf_bind; [apply okf_path_nlri|]. intros [[id x] c']. apply IH.
  Qed.

  Lemma okf_nlri_list fam ap r c : okf (nlri_list other_nlri fam ap r c).
  Proof. apply okf_nlri_list_fuel. Qed.

  (* ---- UPDATE *)
  Lemma okf_attr_one tb s flags code c alen : okf (attr_one tb s flags code c alen).
  Proof. unfold attr_one. okf_tac. Qed.

  Lemma okf_attr_loop tb : forall fuel c arem s, okf (attr_loop fuel tb c arem s).
  Proof.
    induction fuel as [|f IH]; intros c arem s; cbn [attr_loop]; [okf_tac|].
    destruct (arem =? 0); [exact I|]. destruct (arem <? 2); [exact I|].
    apply okf_bind; [apply okf_must|]. intros [flags c1]. apply okf_bind; [apply okf_must|]. intros [code c2].
    apply okf_bind; [okf_tac|]. intros [[[alen c3] arem3] brk].
    destruct brk; [exact I|]. destruct (_ <? _); [exact I|].
    apply okf_bind; [apply okf_attr_one|]. intro s1. apply IH.
  Qed.

  Lemma okf_count_hops : forall fuel b acc, okf (count_hops_fuel fuel b acc).
  Proof.
    induction fuel as [|f IH]; intros b acc; destruct b as [|t [|cnt r]]; cbn [count_hops_fuel]; try exact I. apply IH.
  Qed.
  Lemma okf_take_prefix : forall fuel b n, okf (take_prefix_fuel fuel b n).
  Proof.
    induction fuel as [|f IH]; intros b n; cbn [take_prefix_fuel]; (destruct (n =? 0); [exact I|]);
      destruct b as [|t [|cnt r]]; try exact I.
    destruct (t =? 2).
    - destruct (Nat.ltb _ _); [exact I|]. apply okf_bind; [apply IH|intros; exact I].
    - destruct (Nat.ltb _ _); [exact I|]. destruct (t =? 1); (apply okf_bind; [apply IH|intros; exact I]).
  Qed.
  Lemma okf_bin_of a : okf (bin_of a).
  Proof. unfold bin_of. destruct (a_data a); exact I. Qed.
  Lemma okf_reconcile attrs : okf (reconcile_as4 attrs).
  Proof.
    unfold reconcile_as4, as_path_reconcile, count_hops.
    repeat first
      [ exact I | apply okf_bin_of | apply okf_count_hops | apply okf_take_prefix
      | match goal with |- okf (bind _ _) => apply okf_bind; [|intros] end
      | match goal with |- okf (let '(_, _) := ?x in _) => destruct x end
      | match goal with |- okf (if ?b then _ else _) => destruct b end
      | match goal with |- okf (match ?x with _ => _ end) => destruct x end ].
  Qed.

  Lemma okf_parse_update cd hdr frame : okn hdr = true -> okf (parse_update other_nlri cd hdr frame).
  Proof.
    intro Hh. unfold parse_update, upd_locate, upd_mp_reach, upd_mp_unreach, upd_finish, rm.
    repeat first
      [ exact I | exact Hh | reflexivity | apply okf_must | apply okf_req; reflexivity
      | apply okf_attr_loop | apply okf_nlri_list | apply okf_reconcile
      | match goal with |- okf (bind _ _) => apply okf_bind; [|intros] end
      | match goal with |- okf (let '(_, _) := ?x in _) => destruct x end
      | match goal with |- okf (if ?b then _ else _) => destruct b end
      | match goal with |- okf (match ?x with _ => _ end) => destruct x end ].
  Qed.

  Lemma okf_parse_message p cd frame : okf (parse_message other_nlri p cd frame).
  Proof.
    unfold parse_message.
    destruct (len frame <? 19); [reflexivity|].
    apply okf_bind; [apply okf_must|]. intro code. apply okf_bind; [apply okf_must|]. intro b16.
    apply okf_bind; [apply okf_must|]. intro b17.
    assert (Hh : okn (mkn 1 2 [b16; b17]) = true) by reflexivity.
    destruct (N.eq_dec code 1) as [->|N1]; [apply okf_parse_open; exact Hh|].
    destruct (N.eq_dec code 2) as [->|N2].
    { apply okf_bind; [apply okf_parse_update; exact Hh|]. intros; exact I. }
    destruct (N.eq_dec code 3) as [->|N3]; [okf_tac|].
    destruct (N.eq_dec code 4) as [->|N4]; [okf_tac|].
    destruct (N.eq_dec code 5) as [->|N5]; [okf_tac|].
    destruct code as [|q]; [reflexivity|].
    do 3 (destruct q as [q|q|]; try reflexivity; try congruence).
  Qed.

  Theorem C03_bgp_errors_are_notifications p cd src e rest :
    try_parse other_nlri p cd src = DErr e rest -> notification_allowed (n_code e) (n_sub e) = true.
  Proof.
    unfold try_parse. intro H.
    destruct (len src <? 19); [discriminate|].
    destruct (nth_error src 16) as [b16|]; [|discriminate]. destruct (nth_error src 17) as [b17|]; [|discriminate].
    destruct (_ || _). { injection H as <- _. reflexivity. }
    destruct (len src <? _); [discriminate|].
    pose proof (okf_parse_message p cd (firstn (nat_of (be16 b16 b17)) src)) as Hok.
    destruct (parse_message _ _ _ _) as [m|e'|t]; try discriminate. injection H as <- _. exact Hok.
  Qed.
End ErrFacts.
