(* Lemmas and final statements for property C16 (negotiation part). *)
From Coq Require Import List NArith Bool Lia ZifyBool ZifyN.
From RB Require Import Base.Val Model.Caps Model.Fsm Model.Negotiate Spec.NegotiateSpec.
Import ListNotations.
Open Scope N_scope.

Lemma has_mp_In caps f : has_mp caps f = true <-> In (CMultiProtocol f) caps.
Proof.
  unfold has_mp. rewrite existsb_exists. split.
  - intros (c & Hc & H). destruct c; try discriminate H. apply N.eqb_eq in H. subst. exact Hc.
  - intro H. exists (CMultiProtocol f). split; [exact H|apply N.eqb_refl].
Qed.

(* mirror image: families, add-path directions swapped, extended message, AS width *)
Lemma C16_negotiate_mirror :
  forall (l r : list cap) (f : N),
    mirror (neg_family l r f) (neg_family r l f)
    /\ neg_extended_length l r = neg_extended_length r l
    /\ neg_two_byte_as l r = neg_two_byte_as r l.
Proof.
  intros l r f. unfold mirror, neg_family, neg_extended_length, neg_two_byte_as.
  rewrite (andb_comm (has_mp r f)). rewrite (andb_comm (has_extmsg r)). rewrite (andb_comm (has_as4 r)).
  split; [|split; reflexivity].
  destruct (has_mp l f && has_mp r f); [|reflexivity]. cbn [option_map]. unfold swap. cbn [fst snd].
  f_equal. f_equal; apply andb_comm.
Qed.

(* a family is in force iff both ends advertised it *)
Lemma C16_family_in_force_iff_both :
  forall (l r : list cap) (f : N),
    neg_family l r f <> None <-> advertises_family l f /\ advertises_family r f.
Proof.
  intros l r f. unfold neg_family, advertises_family. rewrite <- !has_mp_In.
  destruct (has_mp l f), (has_mp r f); cbn; split; intro H; try discriminate; try tauto;
    destruct H; discriminate.
Qed.

(* extended message / 4-octet AS in force iff both advertised *)
Lemma C16_flags_iff_both :
  forall (l r : list cap),
    (neg_extended_length l r = true <-> In CExtMessage l /\ In CExtMessage r)
    /\ (neg_two_byte_as l r = false <-> (exists a, In (CFourOctet a) l) /\ (exists a, In (CFourOctet a) r)).
Proof.
  intros l r. unfold neg_extended_length, neg_two_byte_as.
  assert (He : forall c, has_extmsg c = true <-> In CExtMessage c).
  { intro c. unfold has_extmsg. rewrite existsb_exists. split.
    - intros (x & Hx & H). destruct x; try discriminate H. exact Hx.
    - intro H. exists CExtMessage. auto. }
  assert (Ha : forall c, has_as4 c = true <-> exists a, In (CFourOctet a) c).
  { intro c. unfold has_as4. rewrite existsb_exists. split.
    - intros (x & Hx & H). destruct x; try discriminate H. eauto.
    - intros (a & H). exists (CFourOctet a). auto. }
  rewrite <- !He, <- !Ha. rewrite negb_false_iff, !andb_true_iff. tauto.
Qed.

(* graceful restart: the same families at both ends, exactly those both first GR capabilities list *)
Lemma gr_fams_spec l r f :
  In f (gr_fams (negotiate_gr l r)) <->
  exists lfl lt lf pfl pt pf, first_gr l = Some (lfl, lt, lf) /\ first_gr r = Some (pfl, pt, pf)
                              /\ In f (map fst lf) /\ In f (map fst pf).
Proof.
  unfold negotiate_gr.
  destruct (first_gr l) as [[[lfl lt] lf]|]; [|split; [intros []|intros (?&?&?&?&?&?&H&_); discriminate H]].
  destruct (first_gr r) as [[[pfl pt] pf]|]; [|split; [intros []|intros (?&?&?&?&?&?&_&H&_); discriminate H]].
  set (fams := filter _ _).
  assert (Hf : In f fams <-> In f (map fst lf) /\ In f (map fst pf)).
  { subst fams. rewrite filter_In, existsb_exists. split.
    - intros [H1 (q & Hq & E)]. apply N.eqb_eq in E. split; [exact H1|]. subst f. apply in_map. exact Hq.
    - intros [H1 H2]. split; [exact H1|]. apply in_map_iff in H2 as (q & E & Hq). exists q. split; [exact Hq|].
      apply N.eqb_eq. exact E. }
  destruct fams as [|x xs] eqn:Efams.
  - cbn [gr_fams]. split; [intros []|]. intros (a&b&c&d&e&g&H1&H2&H3&H4).
    injection H1 as -> -> ->. injection H2 as -> -> ->. apply Hf. auto.
  - cbn [gr_fams]. rewrite Hf. split.
    + intros [H1 H2]. exists lfl, lt, lf, pfl, pt, pf. auto.
    + intros (a&b&c&d&e&g&H1&H2&H3&H4). injection H1 as -> -> ->. injection H2 as -> -> ->. auto.
Qed.

Lemma C16_gr_mirror :
  forall (l r : list cap), same_set (gr_fams (negotiate_gr l r)) (gr_fams (negotiate_gr r l)).
Proof.
  intros l r f. rewrite !gr_fams_spec. split;
    intros (a&b&c&d&e&g&H1&H2&H3&H4); exists d, e, g, a, b, c; auto.
Qed.

(* ---------------------------------------------------------- send-max *)

Definition tx_in_force (l r : list cap) (f : N) : bool :=
  match neg_family l r f with Some (_, true) => true | _ => false end.

Definition configured_max (smax : list (N * N)) (f : N) : N :=
  match find (fun fv => fst fv =? f) smax with Some fv => snd fv | None => 1 end.

Lemma driver_max_spec smax l r f :
  driver_max smax l r f = if tx_in_force l r f then configured_max smax f else 1.
Proof.
  unfold driver_max, effective_max, configured_max. fold (tx_in_force l r f).
  induction smax as [|a t IH]; cbn [filter find]; [destruct (tx_in_force l r f); reflexivity|].
  fold (tx_in_force l r (fst a)).
  destruct (fst a =? f) eqn:E.
  - apply N.eqb_eq in E. rewrite E. destruct (tx_in_force l r f); cbn [find].
    + rewrite E, N.eqb_refl. reflexivity.
    + rewrite IH. reflexivity.
  - destruct (tx_in_force l r (fst a)); cbn [find]; rewrite ?E; exact IH.
Qed.

(* (C16-2 repaired) more than one path is sent for a family only if add-path
   send is in force in the negotiated codec, and then it is the configured value *)
Lemma C16_send_max_iff_addpath_tx :
  forall (smax : list (N * N)) (l r : list cap) (f : N),
    (1 < driver_max smax l r f ->
       (exists rx, neg_family l r f = Some (rx, true)) /\ driver_max smax l r f = configured_max smax f)
    /\ ((exists rx, neg_family l r f = Some (rx, true)) -> driver_max smax l r f = configured_max smax f)
    /\ (neg_family l r f = None \/ (exists rx, neg_family l r f = Some (rx, false)) -> driver_max smax l r f = 1).
Proof.
  intros smax l r f. rewrite driver_max_spec. unfold tx_in_force.
  destruct (neg_family l r f) as [[rx [|]]|].
  - split; [intro H; split; [eauto|reflexivity]|]. split; [reflexivity|].
    intros [H|[rx' H]]; discriminate H.
  - split; [intro H; lia|]. split; [intros [rx' H]; discriminate H|reflexivity].
  - split; [intro H; lia|]. split; [intros [rx' H]; discriminate H|reflexivity].
Qed.

(* record of finding C16-2: the filter PeerFsm::process used before the repair *)
Definition effective_max_any (smax : list (N * N)) (lcap rcap : list cap) : list (N * N) :=
  filter (fun fv => addpath_any lcap (fst fv) 2 && addpath_any rcap (fst fv) 1) smax.

Lemma C16_send_max_any_filter_refuted :
  exists (smax : list (N * N)) (l r : list cap) (f : N),
    In (f, 8) (effective_max_any smax l r) /\ neg_family l r f = Some (false, false).
Proof.
  exists [(65537, 8)], [CMultiProtocol 65537; CAddPath [(65537, 3); (65537, 0)]],
         [CMultiProtocol 65537; CAddPath [(65537, 3)]], 65537.
  vm_compute. auto.
Qed.

(* -------------------------------------------------------------- LLGR *)

Definition fam3 (e : N * N * N) : N := fst (fst e).
Definition ftime (v : list (N * N * N)) (f : N) : option N :=
  option_map snd (find (fun q => fam3 q =? f) v).

Lemma first_entries_In v : forall seen e,
  In e (first_entries seen v) <->
  existsb (N.eqb (fam3 e)) seen = false /\ find (fun q => fam3 q =? fam3 e) v = Some e.
Proof.
  induction v as [|e0 t IH]; intros seen e; cbn [first_entries find].
  - split; [intros []|intros [_ H]; discriminate H].
  - fold (fam3 e0). destruct (existsb (N.eqb (fam3 e0)) seen) eqn:Es.
    + rewrite IH. destruct (fam3 e0 =? fam3 e) eqn:E.
      * apply N.eqb_eq in E. rewrite <- E, Es. split; intros [H _]; discriminate H.
      * reflexivity.
    + cbn [In]. rewrite IH. cbn [existsb]. destruct (fam3 e0 =? fam3 e) eqn:E.
      * apply N.eqb_eq in E. rewrite <- E, N.eqb_refl. cbn [orb]. split.
        -- intros [H|[H _]]; [subst e0; split; [exact Es|reflexivity] | discriminate H].
        -- intros [_ H]. injection H as H. left. exact H.
      * assert (E' : fam3 e =? fam3 e0 = false) by (rewrite N.eqb_sym; exact E).
        rewrite E'. cbn [orb]. split.
        -- intros [H|H]; [subst e0; rewrite N.eqb_refl in E; discriminate|exact H].
        -- intro H. right. exact H.
Qed.

Lemma find_fam v f q : find (fun q => fam3 q =? f) v = Some q -> fam3 q = f.
Proof. intro H. apply find_some in H as [_ H]. apply N.eqb_eq. exact H. Qed.

Lemma llgr_fams_spec l r f :
  In f (llgr_fams (negotiate_llgr l r)) <->
  exists lv pv lt pt, first_llgr l = Some lv /\ first_llgr r = Some pv
                      /\ ftime lv f = Some lt /\ ftime pv f = Some pt /\ (0 < pt \/ 0 < lt).
Proof.
  unfold negotiate_llgr.
  destruct (first_llgr l) as [lv|]; [|split; [intros []|intros (?&?&?&?&H&_); discriminate H]].
  destruct (first_llgr r) as [pv|]; [|split; [intros []|intros (?&?&?&?&_&H&_); discriminate H]].
  set (g := fun e : N * N * N => _). set (fams := flat_map g _).
  assert (Hf : In f (map fst fams) <->
               exists lt pt, ftime lv f = Some lt /\ ftime pv f = Some pt /\ (0 < pt \/ 0 < lt)).
  { subst fams. rewrite in_map_iff. split.
    - intros ([f' secs] & Ef & Hin). cbn [fst] in Ef. subst f'.
      apply in_flat_map in Hin as (e & He & Hg). apply first_entries_In in He as [_ He].
      subst g. cbv beta in Hg. fold (fam3 e) in Hg.
      destruct (find (fun q => fst (fst q) =? fam3 e) pv) as [q|] eqn:Eq; [|destruct Hg].
      pose proof (find_fam pv (fam3 e) q Eq) as Hq. fold (fam3 q) in Hg. rewrite Hq in Hg.
      destruct ((if 0 <? snd q then snd q else snd e) =? 0) eqn:Ez; [destruct Hg|].
      destruct Hg as [Hg|[]]. injection Hg as Hf _.
      exists (snd e), (snd q). unfold ftime. rewrite <- Hf. rewrite He. fold fam3 in Eq. unfold fam3 in *.
      rewrite Eq. cbn [option_map]. split; [reflexivity|]. split; [reflexivity|].
      destruct (0 <? snd q) eqn:E0; lia.
    - intros (lt & pt & Hl & Hp & Hpos). unfold ftime in Hl, Hp.
      destruct (find (fun q => fam3 q =? f) lv) as [e|] eqn:Ee; [|discriminate Hl].
      destruct (find (fun q => fam3 q =? f) pv) as [q|] eqn:Eq; [|discriminate Hp].
      cbn [option_map] in Hl, Hp. injection Hl as Hl. injection Hp as Hp.
      pose proof (find_fam lv f e Ee) as Hfe. pose proof (find_fam pv f q Eq) as Hfq.
      exists (f, if 0 <? pt then pt else lt). split; [reflexivity|].
      apply in_flat_map. exists e. split.
      + apply first_entries_In. split; [reflexivity|]. rewrite Hfe. exact Ee.
      + subst g. cbv beta. fold (fam3 e). rewrite Hfe. unfold fam3 in Eq. rewrite Eq.
        fold (fam3 q). rewrite Hfq, Hl, Hp.
        destruct ((if 0 <? pt then pt else lt) =? 0) eqn:Ez; [destruct (0 <? pt) eqn:E0; lia|].
        left. reflexivity. }
  destruct fams as [|x xs] eqn:Efams.
  - cbn [llgr_fams]. cbn [map] in Hf. split; [intros []|].
    intros (a&b&lt&pt&H1&H2&H3). injection H1 as ->. injection H2 as ->. apply Hf. eauto.
  - cbn [llgr_fams]. rewrite Hf. split.
    + intros (lt & pt & H). exists lv, pv, lt, pt. auto.
    + intros (a&b&lt&pt&H1&H2&H3). injection H1 as ->. injection H2 as ->. eauto.
Qed.

(* (C16-3 repaired) LLGR is in force for the same families at both ends *)
Lemma C16_llgr_mirror :
  forall (l r : list cap), same_set (llgr_fams (negotiate_llgr l r)) (llgr_fams (negotiate_llgr r l)).
Proof.
  intros l r f. rewrite !llgr_fams_spec. split;
    intros (a&b&lt&pt&H1&H2&H3&H4&H5); exists b, a, pt, lt; repeat split; auto; tauto.
Qed.

(* record of finding C16-3: without the first-entry rule on the local list *)
Definition negotiate_llgr_all_entries (l r : list cap) : list N :=
  match first_llgr l, first_llgr r with
  | Some lv, Some pv =>
      flat_map (fun e => match find (fun q => fam3 q =? fam3 e) pv with
                         | Some q => if (if 0 <? snd q then snd q else snd e) =? 0 then [] else [fam3 q]
                         | None => []
                         end) lv
  | _, _ => []
  end.

Lemma C16_llgr_all_entries_refuted :
  exists (l r : list cap),
    ~ same_set (negotiate_llgr_all_entries l r) (negotiate_llgr_all_entries r l).
Proof.
  exists [CLLGR [(131073, 128, 0); (131073, 0, 60)]], [CLLGR [(131073, 128, 0)]].
  intro H. specialize (H 131073). vm_compute in H. destruct H as [H _]. destruct H; auto.
Qed.

Example llgr_nonvacuous :
  llgr_fams (negotiate_llgr [CLLGR [(131073, 128, 0); (131073, 0, 60); (65537, 0, 5)]]
                            [CLLGR [(131073, 128, 0); (65537, 0, 0)]]) = [65537].
Proof. reflexivity. Qed.

Example send_max_nonvacuous :
  driver_max [(65537, 8)] [CMultiProtocol 65537; CAddPath [(65537, 2)]]
             [CMultiProtocol 65537; CAddPath [(65537, 1)]] 65537 = 8.
Proof. reflexivity. Qed.

Example family_nonvacuous :
  neg_family [CMultiProtocol 65537; CAddPath [(65537, 3)]] [CMultiProtocol 65537; CAddPath [(65537, 1)]] 65537
  = Some (false, true).
Proof. reflexivity. Qed.

Example gr_nonvacuous :
  gr_fams (negotiate_gr [CGR 4 120 [(65537, 0); (131073, 0)]] [CGR 4 90 [(131073, 128)]]) = [131073].
Proof. reflexivity. Qed.
