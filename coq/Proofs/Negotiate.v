(* Lemmas and final statements for property C16 (negotiation part). *)
From Coq Require Import List NArith Bool Lia ZifyBool ZifyN.
From RB Require Import Base.Val Model.Caps Model.Fsm Model.Negotiate Spec.NegotiateSpec.
Import ListNotations.
Open Scope N_scope.

Lemma has_mp_In caps f : has_mp caps f = true <-> In (CMultiProtocol f) caps.
Proof.
  unfold has_mp. rewrite existsb_exists. split.
  - intros (c & Hc & H). destruct c; try discriminate H. apply N.eqb_eq in H. subst. exact Hc.
  - intro H. exists (CMultiProtocol f). split; [exact H|apply N.eqb_refl].
Qed.

(* mirror image: families, add-path directions swapped, extended message, AS width *)
Lemma C16_negotiate_mirror :
  forall (l r : list cap) (f : N),
    mirror (neg_family l r f) (neg_family r l f)
    /\ neg_extended_length l r = neg_extended_length r l
    /\ neg_two_byte_as l r = neg_two_byte_as r l.
Proof.
  intros l r f. unfold mirror, neg_family, neg_extended_length, neg_two_byte_as.
  rewrite (andb_comm (has_mp r f)). rewrite (andb_comm (has_extmsg r)). rewrite (andb_comm (has_as4 r)).
  split; [|split; reflexivity].
  destruct (has_mp l f && has_mp r f); [|reflexivity]. cbn [option_map]. unfold swap. cbn [fst snd].
  f_equal. f_equal; apply andb_comm.
Qed.

(* a family is in force iff both ends advertised it *)
Lemma C16_family_in_force_iff_both :
  forall (l r : list cap) (f : N),
    neg_family l r f <> None <-> advertises_family l f /\ advertises_family r f.
Proof.
  intros l r f. unfold neg_family, advertises_family. rewrite <- !has_mp_In.
  destruct (has_mp l f), (has_mp r f); cbn; split; intro H; try discriminate; try tauto;
    destruct H; discriminate.
Qed.

(* extended message / 4-octet AS in force iff both advertised *)
Lemma C16_flags_iff_both :
  forall (l r : list cap),
    (neg_extended_length l r = true <-> In CExtMessage l /\ In CExtMessage r)
    /\ (neg_two_byte_as l r = false <-> (exists a, In (CFourOctet a) l) /\ (exists a, In (CFourOctet a) r)).
Proof.
  intros l r. unfold neg_extended_length, neg_two_byte_as.
  assert (He : forall c, has_extmsg c = true <-> In CExtMessage c).
  { intro c. unfold has_extmsg. rewrite existsb_exists. split.
    - intros (x & Hx & H). destruct x; try discriminate H. exact Hx.
    - intro H. exists CExtMessage. auto. }
  assert (Ha : forall c, has_as4 c = true <-> exists a, In (CFourOctet a) c).
  { intro c. unfold has_as4. rewrite existsb_exists. split.
    - intros (x & Hx & H). destruct x; try discriminate H. eauto.
    - intros (a & H). exists (CFourOctet a). auto. }
  rewrite <- !He, <- !Ha. rewrite negb_false_iff, !andb_true_iff. tauto.
Qed.

(* graceful restart: the same families at both ends, exactly those both first GR capabilities list *)
Lemma gr_fams_spec l r f :
  In f (gr_fams (negotiate_gr l r)) <->
  exists lfl lt lf pfl pt pf, first_gr l = Some (lfl, lt, lf) /\ first_gr r = Some (pfl, pt, pf)
                              /\ In f (map fst lf) /\ In f (map fst pf).
Proof.
  unfold negotiate_gr.
  destruct (first_gr l) as [[[lfl lt] lf]|]; [|split; [intros []|intros (?&?&?&?&?&?&H&_); discriminate H]].
  destruct (first_gr r) as [[[pfl pt] pf]|]; [|split; [intros []|intros (?&?&?&?&?&?&_&H&_); discriminate H]].
  set (fams := filter _ _).
  assert (Hf : In f fams <-> In f (map fst lf) /\ In f (map fst pf)).
  { subst fams. rewrite filter_In, existsb_exists. split.
    - intros [H1 (q & Hq & E)]. apply N.eqb_eq in E. split; [exact H1|]. subst f. apply in_map. exact Hq.
    - intros [H1 H2]. split; [exact H1|]. apply in_map_iff in H2 as (q & E & Hq). exists q. split; [exact Hq|].
      apply N.eqb_eq. exact E. }
  destruct fams as [|x xs] eqn:Efams.
  - cbn [gr_fams]. split; [intros []|]. intros (a&b&c&d&e&g&H1&H2&H3&H4).
    injection H1 as -> -> ->. injection H2 as -> -> ->. apply Hf. auto.
  - cbn [gr_fams]. rewrite Hf. split.
    + intros [H1 H2]. exists lfl, lt, lf, pfl, pt, pf. auto.
    + intros (a&b&c&d&e&g&H1&H2&H3&H4). injection H1 as -> -> ->. injection H2 as -> -> ->. auto.
Qed.

Lemma C16_gr_mirror :
  forall (l r : list cap), same_set (gr_fams (negotiate_gr l r)) (gr_fams (negotiate_gr r l)).
Proof.
  intros l r f. rewrite !gr_fams_spec. split;
    intros (a&b&c&d&e&g&H1&H2&H3&H4); exists d, e, g, a, b, c; auto.
Qed.

(* Finding C16-2 (open): the FSM's send-max filter and the codec disagree *)
Lemma C16_send_max_without_addpath_tx_refuted :
  exists (smax : list (N * N)) (l r : list cap) (f : N),
    has_mp l f && has_mp r f = true /\ 1 < driver_max smax l r f
    /\ neg_family l r f = Some (false, false).
Proof.
  exists [(65537, 8)], [CMultiProtocol 65537; CAddPath [(65537, 3); (65537, 0)]],
         [CMultiProtocol 65537; CAddPath [(65537, 3)]], 65537.
  vm_compute. repeat split.
Qed.

(* Finding C16-3 (open): LLGR is in force at one end only *)
Lemma C16_llgr_mirror_refuted :
  exists (l r : list cap),
    ~ same_set (llgr_fams (negotiate_llgr l r)) (llgr_fams (negotiate_llgr r l)).
Proof.
  exists [CLLGR [(131073, 128, 0); (131073, 0, 60)]], [CLLGR [(131073, 128, 0)]].
  intro H. specialize (H 131073). vm_compute in H. destruct H as [H _]. destruct H; auto.
Qed.

Example family_nonvacuous :
  neg_family [CMultiProtocol 65537; CAddPath [(65537, 3)]] [CMultiProtocol 65537; CAddPath [(65537, 1)]] 65537
  = Some (false, true).
Proof. reflexivity. Qed.

Example gr_nonvacuous :
  gr_fams (negotiate_gr [CGR 4 120 [(65537, 0); (131073, 0)]] [CGR 4 90 [(131073, 128)]]) = [131073].
Proof. reflexivity. Qed.
