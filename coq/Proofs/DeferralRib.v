(* C11, RIB half: the composed system (RestartingDeferral + driver glue +
   deferral slice of the RIB). *)
From Coq Require Import List NArith Bool Lia ZifyBool ZifyNat ZifyN.
From RB Require Import Base.Val Model.Deferral Model.DeferralRib Spec.DeferralSpec Spec.DeferralRibSpec
     Proofs.Deferral.
Import ListNotations.
Open Scope N_scope.

(* ------------------------------------------------------------ table slice *)

Lemma t_get_t_set : forall t f v g, t_get (t_set t f v) g = if g =? f then Some v else t_get t g.
Proof.
  induction t as [|[k w] r IH]; intros f v g; cbn [t_set t_get].
  - rewrite (N.eqb_sym f g). destruct (g =? f); reflexivity.
  - destruct (k =? f) eqn:Ekf; cbn [t_get].
    + destruct (k =? g) eqn:Ekg.
      * assert (g =? f = true) as -> by lia. reflexivity.
      * assert (g =? f = false) as -> by lia. reflexivity.
    + rewrite IH. destruct (k =? g) eqn:Ekg; [|reflexivity].
      assert (g =? f = false) as -> by lia. reflexivity.
Qed.

Lemma deferring_insert : forall t f x p i b nh nv g,
    t_deferring (fst (t_insert t f x p i b nh nv)) g = t_deferring t g.
Proof.
  intros t f x p i b nh nv g. unfold t_insert.
  set (r := match t_get t f with Some r => r | None => rib_new end).
  set (t' := t_set t f _).
  assert (t_deferring t' g = t_deferring t g) as H.
  { subst t'. unfold t_deferring. rewrite t_get_t_set. destruct (g =? f) eqn:E; [|reflexivity].
    apply N.eqb_eq in E; subst g. cbn [rf_deferring]. subst r. destruct (t_get t f); reflexivity. }
  destruct (rf_deferring r); [exact H|]. destruct (negb b || _); exact H.
Qed.

Lemma insert_deferring_nochange : forall t f x p i b nh nv,
    t_deferring t f = true -> snd (t_insert t f x p i b nh nv) = RNoChange.
Proof.
  intros t f x p i b nh nv H. unfold t_insert. unfold t_deferring in H.
  destruct (t_get t f) as [r|]; [|discriminate]. rewrite H. reflexivity.
Qed.

Lemma insert_result : forall t f x p i b nh nv,
    snd (t_insert t f x p i b nh nv) = RNoChange \/ exists k, snd (t_insert t f x p i b nh nv) = RChanged x k.
Proof.
  intros t f x p i b nh nv. unfold t_insert.
  destruct (rf_deferring _); [left; reflexivity|].
  destruct (negb b || _); [right; eexists; reflexivity | left; reflexivity].
Qed.

Lemma deferring_end : forall t f g,
    t_deferring (fst (t_end t f)) g = t_deferring t g && negb (g =? f).
Proof.
  intros t f g. unfold t_end. destruct (t_get t f) as [r|] eqn:E; cbn [fst].
  - unfold t_deferring. rewrite t_get_t_set. destruct (g =? f) eqn:Eg; cbn [negb rf_deferring].
    + rewrite andb_false_r. reflexivity.
    + rewrite andb_true_r. reflexivity.
  - destruct (g =? f) eqn:Eg; cbn [negb]; [|rewrite andb_true_r; reflexivity].
    apply N.eqb_eq in Eg; subst. unfold t_deferring. rewrite E. reflexivity.
Qed.

Lemma deferring_start : forall t f g,
    t_deferring (t_start t f) g = t_deferring t g || (g =? f).
Proof.
  intros t f g. unfold t_start, t_deferring.
  destruct (t_get t f) as [r|] eqn:E; rewrite t_get_t_set; destruct (g =? f) eqn:Eg; cbn [rf_deferring];
    rewrite ?orb_true_r, ?orb_false_r; reflexivity.
Qed.

Lemma deferring_starts : forall l t g,
    t_deferring (fold_left t_start l t) g = t_deferring t g || mem g l.
Proof.
  induction l as [|f r IH]; intros t g; cbn [fold_left].
  - unfold mem. cbn. rewrite orb_false_r. reflexivity.
  - rewrite IH, deferring_start. unfold mem. cbn [existsb]. rewrite orb_assoc. reflexivity.
Qed.

Lemma release_entries_snoc : forall log f ch g,
    release_entries g (log ++ [AnnRelease f ch]) = (release_entries g log + if f =? g then 1 else 0)%nat.
Proof.
  induction log as [|a l IHl]; intros f ch g; cbn [app release_entries fold_right].
  - destruct (f =? g); reflexivity.
  - fold (release_entries g (l ++ [AnnRelease f ch])). fold (release_entries g l). rewrite IHl. lia.
Qed.

Lemma ann_count_snoc_other : forall log f ch g x,
    (f =? g) = false -> ann_count g x (log ++ [AnnRelease f ch]) = ann_count g x log.
Proof.
  induction log as [|a l IHl]; intros f ch g x Hfg; cbn [app ann_count fold_right ann_count_one].
  - rewrite Hfg. reflexivity.
  - fold (ann_count g x (l ++ [AnnRelease f ch])). fold (ann_count g x l). rewrite IHl by exact Hfg. reflexivity.
Qed.

Lemma end_families_spec : forall L t log,
    let r := end_families t log L in
    (forall g, t_deferring (fst r) g = t_deferring t g && negb (mem g L))
    /\ (forall g, release_entries g (snd r) = (release_entries g log + count_occ N.eq_dec L g)%nat)
    /\ (forall g x, mem g L = false -> ann_count g x (snd r) = ann_count g x log)
    /\ (exists extra, snd r = log ++ extra /\ forall a, In a extra -> exists f ch t0, a = AnnRelease f ch /\ ch = snd (t_end t0 f)).
Proof.
  induction L as [|f rest IH]; intros t log; cbn [end_families].
  - cbn zeta. cbn [fst snd]. split; [|split; [|split]].
    + intros g. unfold mem. cbn. rewrite andb_true_r. reflexivity.
    + intros g. cbn. lia.
    + intros g x _. reflexivity.
    + exists []. rewrite app_nil_r. split; [reflexivity | intros a []].
  - destruct (t_end t f) as [t' ch] eqn:E.
    specialize (IH t' (log ++ [AnnRelease f ch])). cbn zeta in IH |- *.
    destruct IH as [I1 [I2 [I3 [extra [I4 I5]]]]].
    pose proof (release_entries_snoc log f ch) as Hre.
    pose proof (ann_count_snoc_other log f ch) as Han.
    split; [|split; [|split]].
    + intros g. rewrite I1. change t' with (fst (t', ch)). rewrite <- E, deferring_end.
      unfold mem. cbn [existsb]. rewrite (N.eqb_sym g f).
      destruct (t_deferring t g), (f =? g), (existsb (N.eqb g) rest); reflexivity.
    + intros g. rewrite I2, Hre. cbn [count_occ].
      destruct (N.eq_dec f g) as [->|Hn]; [rewrite N.eqb_refl; lia|].
      assert (f =? g = false) as -> by lia. lia.
    + intros g x Hm. unfold mem in Hm. cbn [existsb] in Hm. apply orb_false_iff in Hm. destruct Hm as [Hgf Hr].
      rewrite I3 by exact Hr. apply Han. rewrite N.eqb_sym. exact Hgf.
    + exists (AnnRelease f ch :: extra). split.
      * rewrite I4, <- app_assoc. reflexivity.
      * intros a [<-|Ha]; [exists f, ch, t; split; [reflexivity | rewrite E; reflexivity] | apply I5; exact Ha].
Qed.

(* ----------------------------------------------------- shape of the outputs *)

Definition tail_ok (tail : list rdoutput) (s s' : rdstate) : Prop :=
  match tail with
  | [] => is_completed s' = is_completed s
  | [StartDeferralTimer _] => is_completed s' = false
  | [EndDeferral l] => NoDup l /\ is_completed s' = true /\ is_completed s = false
  | _ => False
  end.

Lemma complete_for_map : forall m c, exists l, complete_for m c = map FamilyDeferralComplete l.
Proof. intros m c. unfold complete_for. eexists; reflexivity. Qed.

Lemma remove_peer_out : forall m a, exists l, snd (remove_peer m a) = map FamilyDeferralComplete l.
Proof.
  intros m a. unfold remove_peer. destruct (p_get m a); cbn [snd]; [apply complete_for_map | exists []; reflexivity].
Qed.

Lemma all_fams_NoDup : forall m, NoDup (all_fams m).
Proof. intros m. apply dedup_NoDup. Qed.

Lemma rd_step_shape : forall s i,
    exists l1 tail, snd (rd_step s i) = map FamilyDeferralComplete l1 ++ tail
                    /\ tail_ok tail s (fst (rd_step s i)).
Proof.
  intros s i. destruct s as [m d|m|].
  - destruct i as [a fams|a f|a|]; cbn [rd_step].
    + destruct fams as [|f0 fr].
      * destruct (remove_peer_out m a) as [l Hl]. destruct (remove_peer m a) as [m' out]. cbn [snd] in Hl. subst out.
        destruct m' as [|e r]; cbn [finish_awaiting fst snd].
        -- exists l, [EndDeferral []]. split; [reflexivity|]. cbn. repeat split; constructor.
        -- exists l, []. split; [rewrite app_nil_r; reflexivity | reflexivity].
      * destruct (p_get m a) as [old|].
        -- unfold reestablish. cbn [fst snd]. destruct (complete_for_map (p_set m a (dedup (f0 :: fr)))
              (filter (fun f => negb (mem f (dedup (f0 :: fr)))) old)) as [l Hl].
           rewrite Hl. exists l, [StartDeferralTimer d]. split; reflexivity.
        -- exists [], []. split; reflexivity.
    + exists [], []. split; reflexivity.
    + destruct (remove_peer_out m a) as [l Hl]. destruct (remove_peer m a) as [m' out]. cbn [snd] in Hl. subst out.
      destruct m' as [|e r]; cbn [finish_awaiting fst snd].
      * exists l, [EndDeferral []]. split; [reflexivity|]. cbn. repeat split; constructor.
      * exists l, []. split; [rewrite app_nil_r; reflexivity | reflexivity].
    + exists [], []. split; reflexivity.
  - destruct i as [a fams|a f|a|]; cbn [rd_step].
    + destruct fams as [|f0 fr].
      * destruct (remove_peer_out m a) as [l Hl]. destruct (remove_peer m a) as [m' out]. cbn [snd] in Hl. subst out.
        destruct m' as [|e r]; cbn [finish_deferring fst snd].
        -- exists l, [EndDeferral []]. split; [reflexivity|]. cbn. repeat split; constructor.
        -- exists l, []. split; [rewrite app_nil_r; reflexivity | reflexivity].
      * destruct (p_get m a) as [old|].
        -- unfold reestablish. cbn [fst snd]. destruct (complete_for_map (p_set m a (dedup (f0 :: fr)))
              (filter (fun f => negb (mem f (dedup (f0 :: fr)))) old)) as [l Hl].
           rewrite Hl. exists l, []. split; [rewrite app_nil_r; reflexivity | reflexivity].
        -- exists [], []. split; reflexivity.
    + destruct (p_get m a) as [ps|].
      * set (m' := match fremove f ps with [] => p_remove m a | _ :: _ => p_set m a (fremove f ps) end).
        destruct (mem f ps && negb (any_has m' f)).
        -- destruct m' as [|e r]; cbn [fst snd].
           ++ exists [f], [EndDeferral []]. split; [reflexivity|]. cbn. repeat split; constructor.
           ++ exists [f], []. split; reflexivity.
        -- destruct m' as [|e r]; cbn [fst snd].
           ++ exists [], [EndDeferral []]. split; [reflexivity|]. cbn. repeat split; constructor.
           ++ exists [], []. split; reflexivity.
      * destruct m as [|e r]; cbn [fst snd].
        -- exists [], [EndDeferral []]. split; [reflexivity|]. cbn. repeat split; constructor.
        -- exists [], []. split; reflexivity.
    + destruct (remove_peer_out m a) as [l Hl]. destruct (remove_peer m a) as [m' out]. cbn [snd] in Hl. subst out.
      destruct m' as [|e r]; cbn [finish_deferring fst snd].
      * exists l, [EndDeferral []]. split; [reflexivity|]. cbn. repeat split; constructor.
      * exists l, []. split; [rewrite app_nil_r; reflexivity | reflexivity].
    + exists [], [EndDeferral (all_fams m)]. split; [reflexivity|]. cbn. repeat split. apply all_fams_NoDup.
  - exists [], []. destruct i; split; reflexivity.
Qed.

Lemma fdc_of_app : forall a b, fdc_of (a ++ b) = fdc_of a ++ fdc_of b.
Proof. intros a b. unfold fdc_of. apply flat_map_app. Qed.

Lemma fdc_of_map : forall l, fdc_of (map FamilyDeferralComplete l) = l.
Proof. induction l as [|x r IH]; cbn; [reflexivity | f_equal; exact IH]. Qed.

Lemma end_of_app_fdc : forall l tail acc,
    fold_left (fun acc o => match o with EndDeferral l => Some l | _ => acc end)
              (map FamilyDeferralComplete l ++ tail) acc =
    fold_left (fun acc o => match o with EndDeferral l => Some l | _ => acc end) tail acc.
Proof. induction l as [|x r IH]; intros tail acc; cbn [map app fold_left]; [reflexivity | apply IH]. Qed.

Lemma timer_of_app_fdc : forall l tail acc,
    fold_left (fun acc o => match o with StartDeferralTimer d => d | _ => acc end)
              (map FamilyDeferralComplete l ++ tail) acc =
    fold_left (fun acc o => match o with StartDeferralTimer d => d | _ => acc end) tail acc.
Proof. induction l as [|x r IH]; intros tail acc; cbn [map app fold_left]; [reflexivity | apply IH]. Qed.

Lemma releases_in_map_fdc : forall l f,
    releases_in f (map FamilyDeferralComplete l) = count_occ N.eq_dec l f.
Proof.
  induction l as [|x r IH]; intros f; cbn [map releases_in fold_right released_by count_occ]; [reflexivity|].
  fold (releases_in f (map FamilyDeferralComplete r)). rewrite IH.
  destruct (N.eq_dec x f) as [->|Hn]; [rewrite N.eqb_refl; reflexivity|].
  assert (x =? f = false) as -> by lia. reflexivity.
Qed.

Lemma count_occ_mem : forall l f, NoDup l -> count_occ N.eq_dec l f = if mem f l then 1%nat else 0%nat.
Proof.
  intros l f H. induction H as [|x l Hx Hl IH]; cbn [count_occ]; [reflexivity|].
  unfold mem. cbn [existsb]. fold (mem f l). rewrite (N.eqb_sym f x).
  destruct (N.eq_dec x f) as [->|Hn].
  - rewrite N.eqb_refl. cbn [orb]. rewrite IH. apply mem_false_In in Hx. rewrite Hx. reflexivity.
  - assert (x =? f = false) as -> by lia. cbn [orb]. exact IH.
Qed.

Lemma end_families_nil_match : forall t log (l : list fam),
    match l with [] => (t, log) | _ :: _ => end_families t log l end = end_families t log l.
Proof. intros t log [|x r]; reflexivity. Qed.

Lemma end_families_nil_match' : forall t log (l : list fam),
    match l with [] => (t, log) | f :: l0 => end_families t log (f :: l0) end = end_families t log l.
Proof. intros t log [|x r]; reflexivity. Qed.

Section Sys.
Variable c : config.

Record K (st : sys) (sm : rdstate) (n : fam -> nat) : Prop := {
  k_rd : sys_rd st = if is_completed sm then None else Some sm;
  k_rel : forall f, release_entries f (sys_log st) = n f;
  k_quiet : forall f x, t_deferring (sys_tab st) f = true -> ann_count f x (sys_log st) = 0%nat;
  k_flag : forall f, (n f > 0)%nat -> t_deferring (sys_tab st) f = false;
  k_def : forall f, t_deferring (sys_tab st) f = true -> deferred c f = true
}.

Lemma ann_count_snoc : forall log a f x,
    ann_count f x (log ++ [a]) = (ann_count f x log + ann_count_one f x a)%nat.
Proof.
  induction log as [|b l IH]; intros a f x; cbn [app ann_count fold_right]; [lia|].
  fold (ann_count f x (l ++ [a])). fold (ann_count f x l). rewrite IH. lia.
Qed.

Lemma release_entries_snoc_ins : forall log g n k f,
    release_entries f (log ++ [AnnInsert g n k]) = release_entries f log.
Proof.
  induction log as [|b l IH]; intros g n k f; cbn [app release_entries fold_right]; [reflexivity|].
  fold (release_entries f (l ++ [AnnInsert g n k])). fold (release_entries f l). rewrite IH. reflexivity.
Qed.

Lemma K_insert : forall st sm n f x p i b,
    K st sm n -> K (sys_step st (EvInsert f x p i b)) sm n.
Proof.
  intros st sm n f x p i b H. cbn [sys_step].
  pose proof (deferring_insert (sys_tab st) f x p i b 0 false) as Hd.
  pose proof (insert_deferring_nochange (sys_tab st) f x p i b 0 false) as Hnc.
  destruct (insert_result (sys_tab st) f x p i b 0 false) as [Hr|[k Hr]];
    destruct (t_insert (sys_tab st) f x p i b 0 false) as [t' res]; cbn [fst snd] in *; subst res.
  - constructor; cbn [sys_rd sys_log sys_tab]; try apply H.
    + intros g y Hg. rewrite Hd in Hg. apply (k_quiet _ _ _ H); exact Hg.
    + intros g Hg. rewrite Hd. apply (k_flag _ _ _ H); exact Hg.
    + intros g Hg. rewrite Hd in Hg. apply (k_def _ _ _ H); exact Hg.
  - constructor; cbn [sys_rd sys_log sys_tab]; try apply H.
    + intros g. rewrite release_entries_snoc_ins. apply (k_rel _ _ _ H).
    + intros g y Hg. rewrite Hd in Hg. rewrite ann_count_snoc, (k_quiet _ _ _ H g y Hg). cbn [ann_count_one].
      destruct (f =? g) eqn:E; [|reflexivity]. apply N.eqb_eq in E; subst g.
      specialize (Hnc Hg). discriminate.
    + intros g Hg. rewrite Hd. apply (k_flag _ _ _ H); exact Hg.
    + intros g Hg. rewrite Hd in Hg. apply (k_def _ _ _ H); exact Hg.
Qed.

Lemma K_rd : forall st sm n i,
    K st sm n ->
    K (sys_step st (EvRd i)) (fst (rd_step sm i)) (fun f => (n f + releases_in f (snd (rd_step sm i)))%nat).
Proof.
  intros st sm n i H. cbn [sys_step]. rewrite (k_rd _ _ _ H).
  destruct (is_completed sm) eqn:Ec.
  - destruct sm; try discriminate. assert (rd_step Completed i = (Completed, [])) as -> by (destruct i; reflexivity).
    cbn [fst snd releases_in fold_right].
    constructor; try apply H.
    + intros f. rewrite <- plus_n_O. apply (k_rel _ _ _ H).
    + intros f Hf. rewrite <- plus_n_O in Hf. apply (k_flag _ _ _ H); exact Hf.
  - destruct (rd_step_shape sm i) as [l1 [tail [Hout Htail]]].
    destruct (rd_step sm i) as [sm' outs]. cbn [fst snd] in *. subst outs.
    unfold apply_rd_outputs. rewrite fdc_of_app, fdc_of_map.
    unfold end_of, timer_of. rewrite end_of_app_fdc, timer_of_app_fdc.
    assert (fdc_of tail = []) as Hft.
    { destruct tail as [|o [|o2 r]]; [reflexivity | destruct o; try reflexivity; contradiction | destruct o; contradiction]. }
    rewrite Hft, app_nil_r, end_families_nil_match'.
    pose proof (end_families_spec l1 (sys_tab st) (sys_log st)) as E1. cbn zeta in E1.
    destruct (end_families (sys_tab st) (sys_log st) l1) as [t1 log1]. cbn [fst snd] in E1.
    destruct E1 as [F1 [R1 [A1 _]]].
    assert (forall f, releases_in f (map FamilyDeferralComplete l1 ++ tail) =
                      (count_occ N.eq_dec l1 f + releases_in f tail)%nat) as Hrel
        by (intros f; rewrite releases_in_app, releases_in_map_fdc; reflexivity).
    destruct tail as [|o [|o2 r]]; [|destruct o as [l|dd|g|l2]|destruct o; contradiction]; try contradiction;
      cbn [fold_left tail_ok] in *.
    + (* no tail *)
      constructor; cbn [sys_rd sys_log sys_tab].
      * rewrite Htail, Ec. reflexivity.
      * intros f. rewrite R1, Hrel, (k_rel _ _ _ H). cbn. lia.
      * intros f x Hf. rewrite F1 in Hf. apply andb_true_iff in Hf. destruct Hf as [Hf Hm].
        rewrite A1 by (destruct (mem f l1); [discriminate | reflexivity]). apply (k_quiet _ _ _ H); exact Hf.
      * intros f Hf. rewrite F1. rewrite Hrel in Hf. cbn [releases_in fold_right] in Hf.
        destruct (t_deferring (sys_tab st) f) eqn:Ed; [|reflexivity]. cbn [andb].
        destruct (mem f l1) eqn:Em; [reflexivity|]. exfalso.
        assert (count_occ N.eq_dec l1 f = 0%nat) as Hc0
            by (apply count_occ_not_In; apply mem_false_In; exact Em).
        assert (n f > 0)%nat as Hn by lia. rewrite (k_flag _ _ _ H f Hn) in Ed. discriminate.
      * intros f Hf. rewrite F1 in Hf. apply andb_true_iff in Hf. apply (k_def _ _ _ H); tauto.
    + (* StartDeferralTimer *)
      constructor; cbn [sys_rd sys_log sys_tab].
      * rewrite Htail. reflexivity.
      * intros f. rewrite R1, Hrel, (k_rel _ _ _ H). cbn. lia.
      * intros f x Hf. rewrite F1 in Hf. apply andb_true_iff in Hf. destruct Hf as [Hf Hm].
        rewrite A1 by (destruct (mem f l1); [discriminate | reflexivity]). apply (k_quiet _ _ _ H); exact Hf.
      * intros f Hf. rewrite F1. rewrite Hrel in Hf. cbn [releases_in fold_right released_by] in Hf.
        destruct (t_deferring (sys_tab st) f) eqn:Ed; [|reflexivity]. cbn [andb].
        destruct (mem f l1) eqn:Em; [reflexivity|]. exfalso.
        assert (count_occ N.eq_dec l1 f = 0%nat) as Hc0
            by (apply count_occ_not_In; apply mem_false_In; exact Em).
        assert (n f > 0)%nat as Hn by lia. rewrite (k_flag _ _ _ H f Hn) in Ed. discriminate.
      * intros f Hf. rewrite F1 in Hf. apply andb_true_iff in Hf. apply (k_def _ _ _ H); tauto.
    + (* EndDeferral l2 *)
      destruct Htail as [Hnd [Hc' _]]. rewrite end_families_nil_match.
      pose proof (end_families_spec l2 t1 log1) as E2. cbn zeta in E2.
      destruct (end_families t1 log1 l2) as [t2 log2]. cbn [fst snd] in E2.
      destruct E2 as [F2 [R2 [A2 _]]].
      constructor; cbn [sys_rd sys_log sys_tab].
      * rewrite Hc'. reflexivity.
      * intros f. rewrite R2, R1, Hrel, (k_rel _ _ _ H). cbn [releases_in fold_right released_by].
        rewrite (count_occ_mem l2 f Hnd). lia.
      * intros f x Hf. rewrite F2, F1 in Hf. apply andb_true_iff in Hf. destruct Hf as [Hf Hm2].
        apply andb_true_iff in Hf. destruct Hf as [Hf Hm1].
        rewrite A2 by (destruct (mem f l2); [discriminate | reflexivity]).
        rewrite A1 by (destruct (mem f l1); [discriminate | reflexivity]). apply (k_quiet _ _ _ H); exact Hf.
      * intros f Hf. rewrite F2, F1. rewrite Hrel in Hf. cbn [releases_in fold_right released_by] in Hf.
        destruct (t_deferring (sys_tab st) f) eqn:Ed; [|reflexivity]. cbn [andb].
        destruct (mem f l1) eqn:Em; [reflexivity|]. cbn [negb andb].
        destruct (mem f l2) eqn:Em2; [reflexivity|]. exfalso.
        assert (count_occ N.eq_dec l1 f = 0%nat) as Hc0
            by (apply count_occ_not_In; apply mem_false_In; exact Em).
        assert (n f > 0)%nat as Hn by lia. rewrite (k_flag _ _ _ H f Hn) in Ed. discriminate.
      * intros f Hf. rewrite F2, F1 in Hf. apply andb_true_iff in Hf. destruct Hf as [Hf _].
        apply andb_true_iff in Hf. apply (k_def _ _ _ H); tauto.
Qed.

End Sys.

Lemma K_ext : forall c st sm n n', (forall f, n f = n' f) -> K c st sm n -> K c st sm n'.
Proof.
  intros c st sm n n' He H. constructor; try apply H.
  - intros f. rewrite <- He. apply (k_rel _ _ _ _ H).
  - intros f Hf. rewrite <- He in Hf. apply (k_flag _ _ _ _ H); exact Hf.
Qed.

Lemma K_run : forall c evs st sm n,
    K c st sm n ->
    K c (sys_run st evs) (rd_run sm (proj evs))
      (fun f => (n f + releases f (rd_trace sm (proj evs)))%nat).
Proof.
  intros c. induction evs as [|e r IH]; intros st sm n H.
  - cbn. eapply K_ext; [|exact H]. intros f; lia.
  - unfold sys_run. cbn [fold_left]. fold (sys_run (sys_step st e) r).
    destruct e as [i|f x p pid b].
    + cbn [proj flat_map app rd_run rd_trace releases fold_right]. fold (proj r).
      eapply K_ext; [|apply IH; apply K_rd; exact H]. intros f. cbn beta.
      fold (releases f (rd_trace (fst (rd_step sm i)) (proj r))). lia.
    + cbn [proj flat_map app]. fold (proj r). apply IH. apply K_insert. exact H.
Qed.

Lemma any_has_initial : forall (l : config) f, any_has (initial_pending l) f = deferred l f.
Proof.
  induction l as [|[k v] r IH]; intros f; [reflexivity|].
  unfold initial_pending, deferred. cbn [flat_map existsb snd fst]. fold (initial_pending r). fold (deferred r f).
  destruct v as [|x xs]; cbn [app].
  - rewrite IH. reflexivity.
  - unfold any_has. cbn [existsb snd]. fold (any_has (initial_pending r) f). rewrite IH, mem_dedup. reflexivity.
Qed.

Lemma K_init : forall c d, K c (sys_init c d) (fst (rd_new c d)) (fun _ => 0%nat).
Proof.
  intros c d. unfold sys_init, rd_new.
  destruct (initial_pending c) as [|e0 r0] eqn:E; cbn [fst snd is_completed].
  - constructor; cbn; try reflexivity; try discriminate; intros; lia.
  - constructor; cbn [sys_rd sys_log sys_tab is_completed flat_map]; try reflexivity.
    + intros f Hf. lia.
    + intros f Hf. rewrite deferring_starts in Hf. rewrite app_nil_r in Hf.
      change (t_deferring [] f) with false in Hf. cbn [orb] in Hf.
      rewrite <- E, mem_all_fams, any_has_initial in Hf. exact Hf.
Qed.

(* The composed system.  [partial]: what is proved is the family-level statement
   (nothing of a held family is distributed; each deferred family is handed to
   end_deferral exactly once; the restarting state and every table flag are
   cleared at completion), and separately (end_deferral_emits_held_once,
   insert_while_deferring_is_held below) that one end_deferral call distributes
   exactly the prefixes that have an unfiltered path, each once, and that an
   insert into a held family is stored and not distributed.  Not proved as one
   statement: "the prefix inserted by the k-th event is still held when its
   family is released" (persistence of a stored path until the release). *)
Theorem C11_held_prefixes_announced_once_partial :
  forall (c : config) (d : option N) (evs : list sysev) (f : fam) (x : N),
    NoDup (map fst c) -> disciplined c (proj evs) = true ->
    let st := sys_run (sys_init c d) evs in
    (release_entries f (sys_log st) <= 1)%nat
    /\ (t_deferring (sys_tab st) f = true ->
        ann_count f x (sys_log st) = 0%nat /\ deferred c f = true /\ release_entries f (sys_log st) = 0%nat)
    /\ (sys_rd st = None ->
        t_deferring (sys_tab st) f = false /\
        (deferred c f = true -> release_entries f (sys_log st) = 1%nat))
    /\ (sys_rd st <> None ->
        release_entries f (sys_log st) =
        if deferred c f && negb (spec_blocked c (proj evs) f) then 1%nat else 0%nat).
Proof.
  intros c d evs f x Hc Hd st.
  pose proof (K_run c evs _ _ _ (K_init c d)) as HK. fold st in HK. cbn beta in HK.
  destruct (C11_family_released_exactly_once c d (proj evs) f Hc Hd) as [_ [Hle [_ [Hdone Hlive]]]].
  cbn zeta in Hle, Hdone, Hlive.
  pose proof (k_rel _ _ _ _ HK f) as Hrel. cbn beta in Hrel. cbn [plus] in Hrel.
  split; [rewrite Hrel; exact Hle|]. split; [|split].
  - intros Hf. split; [apply (k_quiet _ _ _ _ HK); exact Hf|]. split; [apply (k_def _ _ _ _ HK); exact Hf|].
    destruct (release_entries f (sys_log st)) as [|k] eqn:Ek; [reflexivity|]. exfalso.
    assert (t_deferring (sys_tab st) f = false) as Hff.
    { apply (k_flag _ _ _ _ HK). cbn beta. cbn [plus]. rewrite <- Hrel. lia. }
    congruence.
  - intros Hnone. pose proof (k_rd _ _ _ _ HK) as Hrd. rewrite Hnone in Hrd.
    destruct (is_completed (rd_run (fst (rd_new c d)) (proj evs))) eqn:Ec; [|discriminate].
    assert (deferred c f = true -> release_entries f (sys_log st) = 1%nat) as H1
        by (intros Hdf; rewrite Hrel; apply Hdone; [reflexivity | exact Hdf]).
    split; [|exact H1].
    destruct (t_deferring (sys_tab st) f) eqn:Ef; [|reflexivity]. exfalso.
    pose proof (k_def _ _ _ _ HK f Ef) as Hdf. specialize (H1 Hdf).
    assert (t_deferring (sys_tab st) f = false) as Hff.
    { apply (k_flag _ _ _ _ HK). cbn beta. cbn [plus]. rewrite <- Hrel. lia. }
    congruence.
  - intros Hsome. pose proof (k_rd _ _ _ _ HK) as Hrd.
    destruct (is_completed (rd_run (fst (rd_new c d)) (proj evs))) eqn:Ec; [congruence|].
    rewrite Hrel. apply Hlive. reflexivity.
Qed.

(* ------------------------------------------------ one end_deferral call *)

Lemma d_keys_set : forall l n v,
    map fst (d_set l n v) = if mem n (map fst l) then map fst l else map fst l ++ [n].
Proof.
  induction l as [|[k w] r IH]; intros n v; cbn [d_set map fst mem existsb app]; [reflexivity|].
  fold (mem n (map fst r)). rewrite (N.eqb_sym n k).
  destruct (k =? n) eqn:E; cbn [orb map fst]; [reflexivity|].
  rewrite IH. destruct (mem n (map fst r)); reflexivity.
Qed.

Lemma d_keys_nodup : forall l n v, NoDup (map fst l) -> NoDup (map fst (d_set l n v)).
Proof.
  intros l n v H. rewrite d_keys_set. destruct (mem n (map fst l)) eqn:E; [assumption|].
  apply NoDup_snoc; [assumption | apply mem_false_In; assumption].
Qed.

Lemma NoDup_map_filter : forall (l : list (N * list path)) (q : N * list path -> bool),
    NoDup (map fst l) -> NoDup (map fst (filter q l)).
Proof.
  induction l as [|e r IH]; intros q H; cbn [filter map]; [constructor|].
  cbn [map] in H. inversion H as [|y l' Hy Hl]; subst.
  destruct (q e); [|apply IH; assumption]. cbn [map]. constructor; [|apply IH; assumption].
  intros Hin. apply Hy. apply in_map_iff in Hin. destruct Hin as [z [Hz Hin]]. apply filter_In in Hin.
  apply in_map_iff. exists z. tauto.
Qed.

Lemma NoDup_map_flat_sub : forall (l : list (N * list path)) (g : list path -> list path),
    NoDup (map fst l) ->
    NoDup (map fst (flat_map (fun e => match g (snd e) with [] => [] | l0 => [(fst e, l0)] end) l)).
Proof.
  induction l as [|[k v] r IH]; intros g H; cbn [flat_map map fst snd]; [constructor|].
  cbn [map fst] in H. inversion H as [|y l' Hy Hl]; subst. rewrite map_app.
  destruct (g v) as [|p0 ps]; cbn [map fst app]; [apply IH; assumption|].
  constructor; [|apply IH; assumption].
  intros Hin. apply Hy. apply in_map_iff in Hin. destruct Hin as [[k' v'] [Hk Hin]]. cbn [fst] in Hk; subst k'.
  apply in_flat_map in Hin. destruct Hin as [[k2 v2] [Hin2 Hin3]]. cbn [fst snd] in Hin3.
  destruct (g v2); [inversion Hin3|]. destruct Hin3 as [He|[]]. inversion He; subst.
  apply in_map_iff. exists (k, v2). split; [reflexivity | assumption].
Qed.

Definition twf (t : table) : Prop := forall f r, t_get t f = Some r -> NoDup (map fst (rf_dests r)).

Definition ins_rib (t : table) (f : fam) (x p i : N) (b : bool) (nh : N) (nv : bool) : ribf :=
  let r := match t_get t f with Some r => r | None => rib_new end in
  let old := match d_get (rf_dests r) x with Some l => l | None => [] end in
  {| rf_deferring := rf_deferring r;
     rf_dests := d_set (rf_dests r) x
                   (filter (fun q => negb (same_path p i q)) old ++
                    [mk_path p i b nh nv]) |}.

Lemma t_insert_fst : forall t f x p i b nh nv, fst (t_insert t f x p i b nh nv) = t_set t f (ins_rib t f x p i b nh nv).
Proof.
  intros t f x p i b nh nv. unfold t_insert, ins_rib.
  destruct (rf_deferring _); [reflexivity|]. destruct (negb b || _); reflexivity.
Qed.

Lemma t_get_map_nh : forall t nh rc f,
    let t' := map (fun kr : fam * ribf =>
                     (fst kr, {| rf_deferring := rf_deferring (snd kr);
                                 rf_dests := map (fun e => (fst e, map (nh_flip nh rc) (snd e))) (rf_dests (snd kr)) |})) t in
    t_get t' f = None \/
    exists r0, t_get t f = Some r0 /\
               t_get t' f = Some {| rf_deferring := rf_deferring r0;
                                    rf_dests := map (fun e => (fst e, map (nh_flip nh rc) (snd e))) (rf_dests r0) |}.
Proof.
  induction t as [|[k v] r IH]; intros nh rc f; cbn [map t_get fst snd]; [left; reflexivity|].
  destruct (k =? f); [right; exists v; split; reflexivity | apply IH].
Qed.

Lemma twf_step : forall t o, twf t -> twf (fst (t_step t o)).
Proof.
  intros t o H f r Hg. destruct o as [g|g x p i b nh nv|g|g x p i|g p|g p|g p|nh rc]; cbn [t_step fst] in Hg.
  - unfold t_start in Hg. destruct (t_get t g) as [r0|] eqn:E; rewrite t_get_t_set in Hg;
      (destruct (f =? g) eqn:Ef; [|apply (H f r Hg)]); inversion Hg; subst; cbn [rf_dests];
      [apply (H g r0 E) | constructor].
  - rewrite t_insert_fst, t_get_t_set in Hg. destruct (f =? g); [|apply (H f r Hg)].
    inversion Hg; subst. unfold ins_rib. cbn [rf_dests]. apply d_keys_nodup.
    destruct (t_get t g) as [r1|] eqn:E; [apply (H g r1 E) | constructor].
  - destruct (t_end t g) as [t' l] eqn:Ee. cbn [fst] in Hg. unfold t_end in Ee.
    destruct (t_get t g) as [r0|] eqn:E; inversion Ee; subst.
    + rewrite t_get_t_set in Hg. destruct (f =? g) eqn:Ef; [|apply (H f r Hg)].
      inversion Hg; subst. cbn [rf_dests]. apply (H g r0 E).
    + apply (H f r Hg).
  - unfold t_remove in Hg. destruct (t_get t g) as [r0|] eqn:E; [|apply (H f r Hg)].
    destruct (d_get (rf_dests r0) x) as [old|]; [|apply (H f r Hg)].
    destruct (filter (same_path p i) old) as [|rm rest]; [apply (H f r Hg)|].
    destruct (pa_filtered rm || rf_deferring r0); cbn [fst] in Hg; rewrite t_get_t_set in Hg;
      (destruct (f =? g); [|apply (H f r Hg)]); inversion Hg; subst; cbn [rf_dests];
      (destruct (filter (fun q => negb (same_path p i q)) old);
       [unfold d_remove; apply NoDup_map_filter; apply (H g r0 E) | apply d_keys_nodup; apply (H g r0 E)]).
  - unfold t_drop in Hg. destruct (t_get t g) as [r0|] eqn:E; [|apply (H f r Hg)].
    cbn [fst] in Hg. rewrite t_get_t_set in Hg. destruct (f =? g); [|apply (H f r Hg)].
    inversion Hg; subst. cbn [rf_dests]. apply NoDup_map_flat_sub. apply (H g r0 E).
  - unfold t_restale in Hg. destruct (t_get t g) as [r0|] eqn:E; [|apply (H f r Hg)].
    cbn [fst] in Hg. rewrite t_get_t_set in Hg. destruct (f =? g); [|apply (H f r Hg)].
    inversion Hg; subst. cbn [rf_dests]. rewrite map_map. cbn [fst]. apply (H g r0 E).
  - unfold t_drop_stale in Hg. destruct (t_get t g) as [r0|] eqn:E; [|apply (H f r Hg)].
    cbn [fst] in Hg. rewrite t_get_t_set in Hg. destruct (f =? g); [|apply (H f r Hg)].
    inversion Hg; subst. cbn [rf_dests]. apply NoDup_map_flat_sub. apply (H g r0 E).
  - unfold t_nhvalid in Hg. cbn [fst] in Hg. destruct (t_get_map_nh t nh rc f) as [Hn|[r0 [E0 E1]]].
    + rewrite Hn in Hg. discriminate.
    + rewrite E1 in Hg. inversion Hg; subst. cbn [rf_dests]. rewrite map_map. cbn [fst]. apply (H f r0 E0).
Qed.

Lemma d_get_In : forall l x ps, NoDup (map fst l) -> (d_get l x = Some ps <-> In (x, ps) l).
Proof.
  induction l as [|[k v] r IH]; intros x ps Hn; cbn [d_get]; [split; [discriminate | intros []]|].
  cbn [map fst] in Hn. inversion Hn as [|y l' Hy Hl]; subst. destruct (k =? x) eqn:E.
  - apply N.eqb_eq in E; subst k. split.
    + intros He; inversion He; subst. left; reflexivity.
    + intros [He|Hin]; [inversion He; reflexivity|]. exfalso. apply Hy. apply in_map_iff. exists (x, ps). tauto.
  - rewrite IH by assumption. split; [intros; right; assumption|].
    intros [He|Hin]; [inversion He; subst; lia | assumption].
Qed.

(* one end_deferral(f) call reports every destination of f exactly once, with the number of its
   eligible (unfiltered, next-hop-valid) paths - a positive number exactly for the prefixes that
   are held -, and clears the flag *)
Theorem C11_end_deferral_emits_held_once :
  forall (t : table) (f : fam),
    twf t ->
    let l := snd (t_end t f) in
    NoDup (map fst l)
    /\ (forall x k, In (x, k) l -> (k <> 0 <-> holds_prefix t f x = true))
    /\ (forall x, holds_prefix t f x = true -> In x (map fst l))
    /\ t_deferring (fst (t_end t f)) f = false.
Proof.
  intros t f Hw l. subst l. unfold t_end, holds_prefix.
  destruct (t_get t f) as [r|] eqn:E; cbn [snd fst].
  - pose proof (Hw f r E) as Hn. unfold loc_rib.
    split; [rewrite map_map; cbn [fst]; exact Hn|]. split; [|split].
    + intros x k Hin. apply in_map_iff in Hin. destruct Hin as [[x' ps] [He Hin]]. cbn [fst snd] in He.
      inversion He; subst x' k. apply (d_get_In _ _ _ Hn) in Hin. rewrite Hin.
      unfold n_unfiltered. destruct (unfiltered ps) as [|q qs]; cbn [length negb].
      * split; [intros H; exfalso; apply H; reflexivity | discriminate].
      * split; [reflexivity | intros _; lia].
    + intros x Hh. destruct (d_get (rf_dests r) x) as [ps|] eqn:G; [|discriminate].
      apply (d_get_In _ _ _ Hn) in G. rewrite map_map. cbn [fst]. apply in_map_iff. exists (x, ps). split; [reflexivity | exact G].
    + unfold t_deferring. rewrite t_get_t_set, N.eqb_refl. reflexivity.
  - split; [constructor|]. split; [intros x k []|]. split; [discriminate|].
    unfold t_deferring. rewrite E. reflexivity.
Qed.

(* an insert into a held family is stored (the prefix is held afterwards when
   the path is unfiltered) and nothing is distributed; every table reachable by
   the operations of the slice (start, insert, end, remove, drop, restale, drop_stale, next-hop
   validity) is well formed *)
Theorem C11_insert_while_deferring_is_held :
  forall (ops : list tabop) (f : fam) (x p i : N) (b : bool) (nh : N) (nv : bool),
    let t := fold_left (fun t o => fst (t_step t o)) ops [] in
    twf t
    /\ (t_deferring t f = true ->
        snd (t_insert t f x p i b nh nv) = RNoChange
        /\ t_deferring (fst (t_insert t f x p i b nh nv)) f = true
        /\ (b = false -> nv = false -> holds_prefix (fst (t_insert t f x p i b nh nv)) f x = true)).
Proof.
  intros ops f x p i b nh nv t.
  assert (twf t) as Hw.
  { subst t. assert (twf []) as H0 by (intros g r Hg; discriminate).
    revert H0. generalize (@nil (fam * ribf)). induction ops as [|o r IH]; intros t0 H0; cbn [fold_left]; [exact H0|].
    apply IH. apply twf_step. exact H0. }
  split; [exact Hw|]. intros Hd. split; [apply insert_deferring_nochange; exact Hd|].
  split; [rewrite deferring_insert; exact Hd|]. intros -> ->.
  rewrite t_insert_fst. unfold holds_prefix. rewrite t_get_t_set, N.eqb_refl. unfold ins_rib. cbn [rf_dests].
  set (r := match t_get t f with Some r => r | None => rib_new end).
  set (new := filter _ _ ++ _).
  assert (forall l n v, d_get (d_set l n v) n = Some v) as Hds.
  { induction l as [|[k w] l' IHl]; intros n v; cbn [d_set d_get]; [rewrite N.eqb_refl; reflexivity|].
    destruct (k =? n) eqn:E; cbn [d_get]; rewrite E; [reflexivity | apply IHl]. }
  rewrite Hds. subst new. unfold unfiltered. rewrite filter_app. cbn.
  destruct (filter _ (filter _ _)); reflexivity.
Qed.

Example held_example :
  let c := [(1, [65537])] in
  let evs := [EvInsert 65537 7 1 0 false; EvRd (PeerEstablished 1 [65537]); EvInsert 65537 8 1 0 false;
              EvRd (EorReceived 1 65537); EvInsert 65537 9 1 0 false] in
  let st := sys_run (sys_init c (Some 360)) evs in
  disciplined c (proj evs) = true /\ sys_rd st = None /\
  sys_log st = [AnnRelease 65537 [(7, 1); (8, 1)]; AnnInsert 65537 9 1].
Proof. vm_compute. repeat split; reflexivity. Qed.

(* finding C11-2 (repaired): while a family is deferring, a withdrawal and a peer
   drop change the table but hand nothing to the distribution layer, and leave
   the flag set *)
Theorem C11_mutators_quiet_while_deferring :
  forall (t : table) (f : fam) (x p i : N),
    t_deferring t f = true ->
    snd (t_remove t f x p i) = RNoChange
    /\ snd (t_drop t f p) = RChanges []
    /\ t_deferring (fst (t_remove t f x p i)) f = true
    /\ t_deferring (fst (t_drop t f p)) f = true.
Proof.
  intros t f x p i Hd. unfold t_deferring in Hd. destruct (t_get t f) as [r|] eqn:E; [|discriminate].
  unfold t_remove, t_drop, t_deferring. rewrite E, Hd. cbn [snd fst].
  rewrite t_get_t_set, N.eqb_refl. cbn [rf_deferring].
  destruct (d_get (rf_dests r) x) as [old|]; [|cbn [snd fst]; rewrite E; repeat split; assumption].
  destruct (filter (same_path p i) old) as [|rm rest]; [cbn [snd fst]; rewrite E; repeat split; assumption|].
  rewrite orb_true_r. cbn [snd fst]. rewrite t_get_t_set, N.eqb_refl. cbn [rf_deferring]. repeat split; assumption.
Qed.

(* ... and so do the stale marking, the stale purge and a next-hop validity change *)
Lemma In_t_get : forall (t : table) g r, NoDup (map fst t) -> In (g, r) t -> t_get t g = Some r.
Proof.
  induction t as [|[k v] rest IH]; intros g r Hn Hin; [inversion Hin|].
  cbn [map fst] in Hn. inversion Hn as [|y l Hy Hl]; subst. cbn [t_get].
  destruct Hin as [He|Hin].
  - inversion He; subst. rewrite N.eqb_refl. reflexivity.
  - destruct (k =? g) eqn:E; [|apply IH; assumption].
    apply N.eqb_eq in E; subst. exfalso. apply Hy. apply in_map_iff. exists (g, r). tauto.
Qed.

Theorem C11_marking_and_nexthop_quiet_while_deferring :
  forall (t : table) (f : fam) (p nh : N) (rc : bool),
    t_deferring t f = true ->
    snd (t_restale t f p) = RChanges []
    /\ snd (t_drop_stale t f p) = RChanges []
    /\ t_deferring (fst (t_restale t f p)) f = true
    /\ t_deferring (fst (t_drop_stale t f p)) f = true
    /\ (NoDup (map fst t) ->
        forall l, snd (t_nhvalid t nh rc) = RChangesF l -> forall x k, ~ In (f, x, k) l).
Proof.
  intros t f p nh rc Hd. unfold t_deferring in Hd. destruct (t_get t f) as [r|] eqn:E; [|discriminate].
  unfold t_restale, t_drop_stale, t_deferring. rewrite E, Hd. cbn [snd fst].
  rewrite !t_get_t_set, N.eqb_refl. cbn [rf_deferring].
  split; [reflexivity|]. split; [reflexivity|]. split; [reflexivity|]. split; [reflexivity|].
  intros Hn l Hl x k Hin. unfold t_nhvalid in Hl. cbn [snd] in Hl. inversion Hl; subst l. clear Hl.
  apply in_flat_map in Hin. destruct Hin as [[g r0] [Hin0 Hin1]]. cbn [fst snd] in Hin1.
  destruct (rf_deferring r0) eqn:Ed; [inversion Hin1|].
  apply in_flat_map in Hin1. destruct Hin1 as [e [_ Hin2]].
  destruct (existsb (nh_hit nh rc) (snd e)); [|inversion Hin2].
  destruct Hin2 as [He|[]]. inversion He; subst g.
  rewrite (In_t_get t f r0 Hn Hin0) in E. inversion E; subst r0. congruence.
Qed.
