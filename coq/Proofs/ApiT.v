(* C17  Typed PREFIX_SID and TUNNEL_ENCAP messages: attr_from_api is total on them, what it
   accepts satisfies the wire invariants (every field within its width, no length field
   wrapped), and the listing of an accepted value is accepted again as the same value. *)
From Coq Require Import List ZArith NArith Bool Lia ZifyBool ZifyNat ZifyN.
From RB Require Import Base.Val Model.Api Spec.ApiSpec Proofs.ApiBytes.
Import ListNotations.
Open Scope N_scope.

Local Ltac Zify.zify_post_hook ::= Z.div_mod_to_equations.
Arguments be16 : simpl never.
Arguments be32 : simpl never.

Ltac unb :=
  repeat match goal with
  | H : (_ || _) = false |- _ => apply orb_false_iff in H; destruct H
  | H : (_ && _) = true |- _ => apply andb_true_iff in H; destruct H
  | H : negb _ = false |- _ => apply negb_false_iff in H
  | H : negb _ = true |- _ => apply negb_true_iff in H
  | H : (_ <? _) = false |- _ => apply N.ltb_ge in H
  | H : (_ <? _)%Z = false |- _ => apply Z.ltb_ge in H
  | H : (_ =? _) = true |- _ => apply N.eqb_eq in H
  | H : (_ =? _) = false |- _ => apply N.eqb_neq in H
  | H : Nat.eqb _ _ = true |- _ => apply Nat.eqb_eq in H
  end.

(* ------------------------------------------------------------------ *)
(* opt_all                                                              *)
Lemma opt_all_Forall : forall {A B} (f : A -> option B) (P : A -> Prop) (Q : B -> Prop),
  (forall x y, P x -> f x = Some y -> Q y) ->
  forall l l', Forall P l -> opt_all f l = Some l' -> Forall Q l'.
Proof.
  intros A B f P Q Hf. induction l as [|x r IH]; intros l' HP H; cbn in H.
  - injection H as <-. constructor.
  - destruct (f x) as [y|] eqn:Ex; [|discriminate]. destruct (opt_all f r) as [ys|] eqn:Er; [|discriminate].
    injection H as <-. inversion HP; subst. constructor; [eapply Hf; eassumption|apply IH; [assumption|reflexivity]].
Qed.

Lemma opt_all_map : forall {A B} (f : A -> option B) (g : B -> A) (Q : B -> Prop),
  (forall y, Q y -> f (g y) = Some y) -> forall l, Forall Q l -> opt_all f (map g l) = Some l.
Proof.
  intros A B f g Q Hf. induction l as [|y r IH]; intros H; cbn; [reflexivity|].
  inversion H; subst. rewrite (Hf y) by assumption. rewrite IH by assumption. reflexivity.
Qed.

Lemma flat_map_length_In : forall {A} (f : A -> list N) (l : list A) x,
  In x l -> (length (f x) <= length (flat_map f l))%nat.
Proof.
  intros A f. induction l as [|y r IH]; intros x H; [contradiction|]. cbn [flat_map]. rewrite app_length.
  destruct H as [->|H]; [lia|]. specialize (IH x H). lia.
Qed.

Lemma length_tlv16 : forall t v, length (tlv16 t v) = (3 + length v)%nat.
Proof. intros. unfold tlv16. cbn [length]. rewrite app_length. reflexivity. Qed.

Lemma length_tlv8 : forall t v, length (tlv8 t v) = (2 + length v)%nat.
Proof. intros. reflexivity. Qed.

(* ------------------------------------------------------------------ *)
(* PREFIX_SID                                                           *)
Theorem psid_from_api_total : forall x, exists r, from_api_psid x = Ok r.
Proof.
  intros x. unfold from_api_psid. destruct (psid_from_api x) as [p|]; [|eexists; reflexivity].
  unfold new_with_bin. cbn. destruct (65535 <? _); eexists; reflexivity.
Qed.

Lemma psst_from_api_wf : forall x s, psst_from_api x = Some s -> wf_psst s.
Proof.
  intros [|a b c d e f] s H; cbn in H; [discriminate|].
  destruct (_ || _) eqn:E in H; [discriminate|]. injection H as <-. unb. cbn. lia.
Qed.

Lemma ps_info_from_api_wf : forall x i,
  match x with APsInfo sid _ _ => bytes_ok sid | APsInfoMissing => True end ->
  ps_info_from_api x = Some i -> wf_ps_info i.
Proof.
  intros [|sid beh ss] i Hr H; cbn in H, Hr; [discriminate|].
  destruct (negb _) eqn:E1 in H; [discriminate|]. destruct (65535 <? beh) eqn:E2 in H; [discriminate|].
  destruct (opt_all psst_from_api _) as [l|] eqn:E3 in H; [|discriminate]. injection H as <-. unb.
  cbn. split; [assumption|]. split; [assumption|]. split; [lia|].
  eapply (opt_all_Forall psst_from_api (fun _ => True)); [intros; eapply psst_from_api_wf; eassumption| |exact E3].
  apply Forall_forall. trivial.
Qed.

Lemma psid_from_api_wf : forall x p, api_psid_in_range x -> psid_from_api x = Some p -> wf_psid p.
Proof.
  intros x p Hr H. unfold psid_from_api in H.
  eapply (opt_all_Forall ps_tlv_from_api _ wf_ps_tlv); [|exact Hr|exact H].
  intros [|l2 subs] t Ht E; cbn in E; [discriminate|].
  destruct (opt_all ps_info_from_api _) as [l|] eqn:E2 in E; [|discriminate]. injection E as <-. cbn.
  eapply (opt_all_Forall ps_info_from_api); [|exact Ht|exact E2].
  intros x0 y0 HP HE. exact (ps_info_from_api_wf x0 y0 HP HE).
Qed.

Lemma psst_roundtrip : forall s, wf_psst s -> psst_from_api (psst_to_api s) = Some s.
Proof.
  intros [a b c d e f] H. cbn in *. destruct (_ || _) eqn:E; [|reflexivity].
  repeat (apply orb_true_iff in E; destruct E as [E|E]); apply N.ltb_lt in E; lia.
Qed.

Lemma ps_info_roundtrip : forall i, wf_ps_info i -> ps_info_from_api (ps_info_to_api i) = Some i.
Proof.
  intros [sid beh ss] [Hl [_ [Hb Hs]]]. cbn [ps_info_to_api ps_info_from_api]. rewrite Hl. cbn [Nat.eqb negb].
  destruct (N.ltb_spec 65535 beh); [lia|].
  destruct ss as [|s r]; [reflexivity|]. cbn [flat_map snd]. rewrite app_nil_r.
  rewrite (opt_all_map psst_from_api psst_to_api wf_psst psst_roundtrip) by assumption. reflexivity.
Qed.

Theorem psid_roundtrip : forall p, wf_psid p -> psid_from_api (psid_to_api p) = Some p.
Proof.
  intros p H. unfold psid_from_api, psid_to_api. apply (opt_all_map ps_tlv_from_api ps_tlv_to_api wf_ps_tlv); [|exact H].
  intros [l2 infos] Hw. cbn [ps_tlv_to_api ps_tlv_from_api]. destruct infos as [|i r]; [reflexivity|].
  cbn [flat_map snd]. rewrite app_nil_r.
  rewrite (opt_all_map ps_info_from_api ps_info_to_api wf_ps_info ps_info_roundtrip) by exact Hw. reflexivity.
Qed.

Lemma psid_fits : forall p, N.of_nat (length (psid_encode p)) < 65536 -> ps_fits p.
Proof.
  intros p H. unfold ps_fits. apply Forall_forall. intros t Ht.
  pose proof (flat_map_length_In ps_tlv_bytes p t Ht) as L. unfold psid_encode in H.
  assert (L1 : length (ps_tlv_bytes t) = (3 + length (ps_tlv_value t))%nat) by (unfold ps_tlv_bytes; apply length_tlv16).
  split; [lia|].
  destruct t as [l2 infos]. apply Forall_forall. intros i Hi.
  pose proof (flat_map_length_In ps_info_bytes infos i Hi) as L2.
  assert (L3 : length (ps_info_bytes i) = (3 + length (ps_info_value i))%nat) by (unfold ps_info_bytes; apply length_tlv16).
  cbn [ps_tlv_value length] in L1. lia.
Qed.

Theorem psid_accepted_wf : forall x a, api_psid_in_range x -> from_api_psid x = Ok (Some a) ->
  exists p, psid_from_api x = Some p /\ a = mkAttr PREFIX_SID 192 (DBin (psid_encode p)) /\
            wf_psid p /\ ps_fits p /\ len_ok (psid_encode p).
Proof.
  intros x a Hr H. unfold from_api_psid in H. destruct (psid_from_api x) as [p|] eqn:E; [|discriminate].
  exists p. cbn in H. destruct (N.ltb_spec 65535 (N.of_nat (length (psid_encode p)))); [discriminate|].
  injection H as <-. assert (L : len_ok (psid_encode p)) by (unfold len_ok; lia).
  repeat split; [eapply psid_from_api_wf; eassumption|apply psid_fits; exact L|exact L].
Qed.
