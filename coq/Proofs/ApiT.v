(* C17  Typed PREFIX_SID and TUNNEL_ENCAP messages: attr_from_api is total on them, what it
   accepts satisfies the wire invariants (every field within its width, no length field
   wrapped), and the listing of an accepted value is accepted again as the same value. *)
From Coq Require Import List ZArith NArith Bool Lia ZifyBool ZifyNat ZifyN.
From RB Require Import Base.Val Model.Api Spec.ApiSpec Proofs.ApiBytes.
Import ListNotations.
Open Scope N_scope.

Local Ltac Zify.zify_post_hook ::= Z.div_mod_to_equations.
Arguments be16 : simpl never.
Arguments be32 : simpl never.

Ltac unb :=
  repeat match goal with
  | H : (_ || _) = false |- _ => apply orb_false_iff in H; destruct H
  | H : (_ && _) = true |- _ => apply andb_true_iff in H; destruct H
  | H : negb _ = false |- _ => apply negb_false_iff in H
  | H : negb _ = true |- _ => apply negb_true_iff in H
  | H : (_ <? _) = false |- _ => apply N.ltb_ge in H
  | H : (_ <? _)%Z = false |- _ => apply Z.ltb_ge in H
  | H : (_ =? _) = true |- _ => apply N.eqb_eq in H
  | H : (_ =? _) = false |- _ => apply N.eqb_neq in H
  | H : Nat.eqb _ _ = true |- _ => apply Nat.eqb_eq in H
  end.

(* ------------------------------------------------------------------ *)
(* opt_all                                                              *)
Lemma opt_all_Forall : forall {A B} (f : A -> option B) (P : A -> Prop) (Q : B -> Prop),
  (forall x y, P x -> f x = Some y -> Q y) ->
  forall l l', Forall P l -> opt_all f l = Some l' -> Forall Q l'.
Proof.
  intros A B f P Q Hf. induction l as [|x r IH]; intros l' HP H; cbn in H.
  - injection H as <-. constructor.
  - destruct (f x) as [y|] eqn:Ex; [|discriminate]. destruct (opt_all f r) as [ys|] eqn:Er; [|discriminate].
    injection H as <-. inversion HP; subst. constructor; [eapply Hf; eassumption|apply IH; [assumption|reflexivity]].
Qed.

Lemma opt_all_map : forall {A B} (f : A -> option B) (g : B -> A) (Q : B -> Prop),
  (forall y, Q y -> f (g y) = Some y) -> forall l, Forall Q l -> opt_all f (map g l) = Some l.
Proof.
  intros A B f g Q Hf. induction l as [|y r IH]; intros H; cbn; [reflexivity|].
  inversion H; subst. rewrite (Hf y) by assumption. rewrite IH by assumption. reflexivity.
Qed.

Lemma flat_map_length_In : forall {A} (f : A -> list N) (l : list A) x,
  In x l -> (length (f x) <= length (flat_map f l))%nat.
Proof.
  intros A f. induction l as [|y r IH]; intros x H; [contradiction|]. cbn [flat_map]. rewrite app_length.
  destruct H as [->|H]; [lia|]. specialize (IH x H). lia.
Qed.

Lemma length_tlv16 : forall t v, length (tlv16 t v) = (3 + length v)%nat.
Proof. intros. unfold tlv16. cbn [length]. rewrite app_length. reflexivity. Qed.

Lemma length_tlv8 : forall t v, length (tlv8 t v) = (2 + length v)%nat.
Proof. intros. reflexivity. Qed.

(* ------------------------------------------------------------------ *)
(* PREFIX_SID                                                           *)
Theorem psid_from_api_total : forall x, exists r, from_api_psid x = Ok r.
Proof.
  intros x. unfold from_api_psid. destruct (psid_from_api x) as [p|]; [|eexists; reflexivity].
  unfold new_with_bin. cbn. destruct (65535 <? _); eexists; reflexivity.
Qed.

Lemma psst_from_api_wf : forall x s, psst_from_api x = Some s -> wf_psst s.
Proof.
  intros [|a b c d e f] s H; cbn in H; [discriminate|].
  destruct (_ || _) eqn:E in H; [discriminate|]. injection H as <-. unb. cbn. lia.
Qed.

Lemma ps_info_from_api_wf : forall x i,
  match x with APsInfo sid _ _ => bytes_ok sid | APsInfoMissing => True end ->
  ps_info_from_api x = Some i -> wf_ps_info i.
Proof.
  intros [|sid beh ss] i Hr H; cbn in H, Hr; [discriminate|].
  destruct (negb _) eqn:E1 in H; [discriminate|]. destruct (65535 <? beh) eqn:E2 in H; [discriminate|].
  destruct (opt_all psst_from_api _) as [l|] eqn:E3 in H; [|discriminate]. injection H as <-. unb.
  cbn. split; [assumption|]. split; [assumption|]. split; [lia|].
  eapply (opt_all_Forall psst_from_api (fun _ => True)); [intros; eapply psst_from_api_wf; eassumption| |exact E3].
  apply Forall_forall. trivial.
Qed.

Lemma psid_from_api_wf : forall x p, api_psid_in_range x -> psid_from_api x = Some p -> wf_psid p.
Proof.
  intros x p Hr H. unfold psid_from_api in H.
  eapply (opt_all_Forall ps_tlv_from_api _ wf_ps_tlv); [|exact Hr|exact H].
  intros [|l2 subs] t Ht E; cbn in E; [discriminate|].
  destruct (opt_all ps_info_from_api _) as [l|] eqn:E2 in E; [|discriminate]. injection E as <-. cbn.
  eapply (opt_all_Forall ps_info_from_api); [|exact Ht|exact E2].
  intros x0 y0 HP HE. exact (ps_info_from_api_wf x0 y0 HP HE).
Qed.

Lemma psst_roundtrip : forall s, wf_psst s -> psst_from_api (psst_to_api s) = Some s.
Proof.
  intros [a b c d e f] H. cbn in *. destruct (_ || _) eqn:E; [|reflexivity].
  repeat (apply orb_true_iff in E; destruct E as [E|E]); apply N.ltb_lt in E; lia.
Qed.

Lemma ps_info_roundtrip : forall i, wf_ps_info i -> ps_info_from_api (ps_info_to_api i) = Some i.
Proof.
  intros [sid beh ss] [Hl [_ [Hb Hs]]]. cbn [ps_info_to_api ps_info_from_api]. rewrite Hl. cbn [Nat.eqb negb].
  destruct (N.ltb_spec 65535 beh); [lia|].
  destruct ss as [|s r]; [reflexivity|]. cbn [flat_map snd]. rewrite app_nil_r.
  rewrite (opt_all_map psst_from_api psst_to_api wf_psst psst_roundtrip) by assumption. reflexivity.
Qed.

Theorem psid_roundtrip : forall p, wf_psid p -> psid_from_api (psid_to_api p) = Some p.
Proof.
  intros p H. unfold psid_from_api, psid_to_api. apply (opt_all_map ps_tlv_from_api ps_tlv_to_api wf_ps_tlv); [|exact H].
  intros [l2 infos] Hw. cbn [ps_tlv_to_api ps_tlv_from_api]. destruct infos as [|i r]; [reflexivity|].
  cbn [flat_map snd]. rewrite app_nil_r.
  rewrite (opt_all_map ps_info_from_api ps_info_to_api wf_ps_info ps_info_roundtrip) by exact Hw. reflexivity.
Qed.

Lemma psid_fits : forall p, N.of_nat (length (psid_encode p)) < 65536 -> ps_fits p.
Proof.
  intros p H. unfold ps_fits. apply Forall_forall. intros t Ht.
  pose proof (flat_map_length_In ps_tlv_bytes p t Ht) as L. unfold psid_encode in H.
  assert (L1 : length (ps_tlv_bytes t) = (3 + length (ps_tlv_value t))%nat) by (unfold ps_tlv_bytes; apply length_tlv16).
  split; [lia|].
  destruct t as [l2 infos]. apply Forall_forall. intros i Hi.
  pose proof (flat_map_length_In ps_info_bytes infos i Hi) as L2.
  assert (L3 : length (ps_info_bytes i) = (3 + length (ps_info_value i))%nat) by (unfold ps_info_bytes; apply length_tlv16).
  cbn [ps_tlv_value length] in L1. lia.
Qed.

Theorem psid_accepted_wf : forall x a, api_psid_in_range x -> from_api_psid x = Ok (Some a) ->
  exists p, psid_from_api x = Some p /\ a = mkAttr PREFIX_SID 192 (DBin (psid_encode p)) /\
            wf_psid p /\ ps_fits p /\ len_ok (psid_encode p).
Proof.
  intros x a Hr H. unfold from_api_psid in H. destruct (psid_from_api x) as [p|] eqn:E; [|discriminate].
  exists p. cbn in H. destruct (N.ltb_spec 65535 (N.of_nat (length (psid_encode p)))); [discriminate|].
  injection H as <-. assert (L : len_ok (psid_encode p)) by (unfold len_ok; lia).
  repeat split; [eapply psid_from_api_wf; eassumption|apply psid_fits; exact L|exact L].
Qed.

(* ------------------------------------------------------------------ *)
(* TUNNEL_ENCAP                                                         *)
Theorem te_from_api_total : forall x, exists r, from_api_te x = Ok r.
Proof.
  intros x. unfold from_api_te. destruct (te_from_api x) as [l|]; [|eexists; reflexivity].
  unfold new_with_bin. cbn. destruct (65535 <? _); eexists; reflexivity.
Qed.

Lemma ebs_from_api_wf : forall e e', ebs_from_api e = Some e' -> wf_ebs e'.
Proof.
  intros [beh bl nl fl al] e' H. cbn in H. destruct (_ || _) eqn:E in H; [discriminate|]. injection H as <-.
  unb. cbn. lia.
Qed.

Lemma flag_bit_le : forall b v, flag_bit b v <= v.
Proof. intros [|] v; cbn; lia. Qed.

Lemma segflags_lt : forall f, segflags f < 256.
Proof.
  intros [[[[v a] s] b]|]; cbn [segflags]; [|lia].
  pose proof (flag_bit_le v 128). pose proof (flag_bit_le a 64). pose proof (flag_bit_le s 32). pose proof (flag_bit_le b 16). lia.
Qed.

Lemma seg_from_api_wf : forall x g, api_seg_in_range x -> seg_from_api x = Some g -> wf_seg g.
Proof.
  intros [|fl label|fl sid e] g Hr H; cbn in H, Hr; [discriminate| |].
  - destruct (1048575 <? label) eqn:E in H; [discriminate|]. injection H as <-. unb. cbn.
    pose proof (segflags_lt fl). lia.
  - destruct (negb _) eqn:E in H; [discriminate|]. unb. pose proof (segflags_lt fl).
    destruct e as [e'|].
    + destruct (ebs_from_api e') as [e''|] eqn:E2; [|discriminate]. injection H as <-. cbn.
      repeat split; try assumption. eapply ebs_from_api_wf; eassumption.
    + injection H as <-. cbn. repeat split; assumption.
Qed.

Lemma of_be32_div : forall a b c d, a < 256 -> b < 256 -> c < 256 -> d < 256 -> of_be32 a b c d / 4096 < 1048576.
Proof. intros. unfold of_be32. lia. Qed.

Lemma Forall_snoc : forall {A} (P : A -> Prop) l x, Forall P l -> P x -> Forall P (l ++ [x]).
Proof. intros. apply Forall_app. split; [assumption|constructor; [assumption|constructor]]. Qed.

Lemma cp_step_wf : forall cp s cp', wf_cp cp -> api_te_sub_in_range s -> cp_step cp s = Some cp' -> wf_cp cp'.
Proof.
  intros [pref bsid bsid6 enlp prio segs name pname] s cp' [W1 [W2 [W3 [W4 [W5 [W6 [W7 W8]]]]]]] Hr H.
  cbn [cp_pref cp_bsid cp_bsid6 cp_enlp cp_prio cp_segs cp_name cp_pname] in *.
  destruct s as [| |f p| |sf i_ sid|sf i_ bf sid e|f e|p|n|w gs|t v]; cbn [cp_step] in H; cbn in Hr; try discriminate.
  - destruct (_ || _) eqn:E in H; [discriminate|]. injection H as <-. unb.
    unfold wf_cp; cbn; repeat split; try assumption; lia.
  - destruct sid as [|a [|b [|c [|d [|? ?]]]]]; try discriminate.
    destruct (_ || _) eqn:E in H; [discriminate|]. injection H as <-. unb.
    inversion Hr as [|? ? Ha Hr1]; subst. inversion Hr1 as [|? ? Hb Hr2]; subst.
    inversion Hr2 as [|? ? Hc Hr3]; subst. inversion Hr3 as [|? ? Hd _]; subst.
    pose proof (flag_bit_le sf 128). pose proof (flag_bit_le i_ 64).
    pose proof (of_be32_div a b c d Ha Hb Hc Hd).
    unfold wf_cp; cbn; repeat split; try assumption; lia.
  - destruct (negb _) eqn:E in H; [discriminate|]. unb.
    pose proof (flag_bit_le sf 128). pose proof (flag_bit_le i_ 64). pose proof (flag_bit_le bf 32).
    destruct e as [e'|].
    + destruct (ebs_from_api e') as [e''|] eqn:E2; [|discriminate]. destruct (once bsid6); [|discriminate].
      injection H as <-. pose proof (ebs_from_api_wf _ _ E2).
      unfold wf_cp; cbn; repeat split; try assumption; lia.
    + destruct (once bsid); [|discriminate]. injection H as <-.
      unfold wf_cp; cbn; repeat split; try assumption; lia.
  - destruct (_ || _) eqn:E in H; [discriminate|]. injection H as <-. unb.
    unfold wf_cp; cbn; repeat split; try assumption; lia.
  - destruct (_ || _) eqn:E in H; [discriminate|]. injection H as <-. unb.
    unfold wf_cp; cbn; repeat split; try assumption; lia.
  - destruct (once name); [|discriminate]. injection H as <-.
    unfold wf_cp; cbn; repeat split; assumption.
  - destruct Hr as [Hw Hg].
    destruct (match w with Some (f, _) => 255 <? f | None => false end) eqn:E in H; [discriminate|].
    destruct (opt_all seg_from_api gs) as [l|] eqn:E2; [|discriminate]. injection H as <-.
    unfold wf_cp; cbn; repeat split; try assumption.
    apply Forall_snoc; [assumption|]. cbn. split.
    + destruct w as [[f x]|]; cbn in *; [unb; lia|trivial].
    + eapply (opt_all_Forall seg_from_api api_seg_in_range wf_seg); [|exact Hg|exact E2].
      intros x0 y0 HP HE. exact (seg_from_api_wf x0 y0 HP HE).
  - destruct (_ && _) eqn:E in H; [|discriminate]. injection H as <-. unb.
    unfold wf_cp; cbn; repeat split; assumption.
Qed.

Lemma cp_steps_wf : forall subs cp cp', wf_cp cp -> Forall api_te_sub_in_range subs -> cp_steps cp subs = Some cp' -> wf_cp cp'.
Proof.
  induction subs as [|s r IH]; intros cp cp' W Hr H; cbn in H.
  - injection H as <-. exact W.
  - destruct (cp_step cp s) as [cp1|] eqn:E; [|discriminate]. inversion Hr; subst.
    eapply IH; [eapply cp_step_wf; eassumption|assumption|exact H].
Qed.

Lemma raw_values_ok : forall subs v, Forall api_te_sub_in_range subs -> raw_values subs = Some v -> bytes_ok v.
Proof.
  induction subs as [|s r IH]; intros v Hr H; cbn in H.
  - injection H as <-. constructor.
  - destruct s; try discriminate. destruct (raw_values r) as [l|] eqn:E; [|discriminate]. injection H as <-.
    inversion Hr as [|? ? Hs Hrr]; subst. cbn in Hs. apply bytes_ok_app; [assumption|apply IH; [assumption|reflexivity]].
Qed.

Lemma wf_cp_empty : wf_cp cp_empty.
Proof. unfold wf_cp, cp_empty; cbn. repeat split; trivial. Qed.

Lemma te_from_api_wf : forall x l, api_te_in_range x -> te_from_api x = Some l -> wf_te l.
Proof.
  intros x l Hr H. unfold te_from_api in H.
  eapply (opt_all_Forall te_tlv_from_api _ wf_te_tlv); [|exact Hr|exact H].
  intros [t subs] y Hs E. cbn [snd] in Hs. cbn [te_tlv_from_api] in E.
  destruct (65535 <? t) eqn:E1 in E; [discriminate|]. destruct (t =? SR_POLICY) eqn:E2 in E.
  - destruct (cp_steps cp_empty subs) as [cp|] eqn:E3; [|discriminate]. injection E as <-. cbn.
    eapply cp_steps_wf; [exact wf_cp_empty|exact Hs|exact E3].
  - destruct (raw_values subs) as [v|] eqn:E3; [|discriminate]. injection E as <-. unb. cbn.
    repeat split; [lia|assumption|eapply raw_values_ok; eassumption].
Qed.

Lemma length_be16 : forall v, length (be16 v) = 2%nat.
Proof. reflexivity. Qed.

Lemma seg_value_small : forall g, wf_seg g -> N.of_nat (length (seg_value g)) < 256.
Proof.
  intros [f l|f sid e] H; cbn [seg_value length].
  - rewrite length_be32. lia.
  - destruct H as [_ [Hl _]]. rewrite app_length, Hl. destruct e as [[beh bl nl fl al]|]; cbn [ebs_seg_bytes].
    + rewrite app_length, length_be16. cbn [length]. lia.
    + cbn [length]. lia.
Qed.

Lemma te_fits_of_len : forall l, wf_te l -> N.of_nat (length (te_encode l)) < 65536 -> te_fits l.
Proof.
  intros l W H. unfold te_fits. apply Forall_forall. intros t Ht.
  pose proof (flat_map_length_In te_tlv_bytes l t Ht) as L. unfold te_encode in H.
  assert (L1 : length (te_tlv_bytes t) = (4 + length (te_tlv_value t))%nat).
  { unfold te_tlv_bytes. rewrite !app_length, !length_be16. reflexivity. }
  split; [lia|]. destruct t as [cp|ty v]; [|trivial].
  assert (Wc : wf_cp cp) by (exact (proj1 (Forall_forall _ _) W _ Ht)).
  cbn [te_tlv_value] in L1.
  assert (L2 : (length (opt_bytes (cp_name cp) (fun n => tlv16 129%N (0%N :: n)))
                + length (opt_bytes (cp_pname cp) (fun n => tlv16 130%N (0%N :: n)))
                + length (flat_map (fun sl => tlv16 128%N (seglist_value sl)) (cp_segs cp)) <= length (cp_bytes cp))%nat).
  { unfold cp_bytes. rewrite !app_length. lia. }
  split; [|split].
  - destruct (cp_name cp) as [n|]; cbn [wf_opt opt_bytes] in *; [|trivial]. rewrite length_tlv16 in L2. cbn [length] in L2. lia.
  - destruct (cp_pname cp) as [n|]; cbn [wf_opt opt_bytes] in *; [|trivial]. rewrite length_tlv16 in L2. cbn [length] in L2. lia.
  - destruct Wc as [_ [_ [_ [_ [_ [Ws _]]]]]]. apply Forall_forall. intros sl Hsl.
    pose proof (flat_map_length_In (fun sl => tlv16 128 (seglist_value sl)) (cp_segs cp) sl Hsl) as L3.
    cbn beta in L3. rewrite length_tlv16 in L3. split; [lia|].
    pose proof (proj1 (Forall_forall _ _) Ws sl Hsl) as [_ Wg].
    eapply Forall_impl; [|exact Wg]. exact seg_value_small.
Qed.

Theorem te_accepted_wf : forall x a, api_te_in_range x -> from_api_te x = Ok (Some a) ->
  exists l, te_from_api x = Some l /\ a = mkAttr TUNNEL_ENCAP 192 (DBin (te_encode l)) /\
            wf_te l /\ te_fits l /\ len_ok (te_encode l).
Proof.
  intros x a Hr H. unfold from_api_te in H. destruct (te_from_api x) as [l|] eqn:E; [|discriminate].
  exists l. cbn in H. destruct (N.ltb_spec 65535 (N.of_nat (length (te_encode l)))); [discriminate|].
  injection H as <-. assert (L : len_ok (te_encode l)) by (unfold len_ok; lia).
  pose proof (te_from_api_wf x l Hr E) as W.
  repeat split; [exact W|apply te_fits_of_len; [exact W|exact L]|exact L].
Qed.

(* the fixed sub-TLV bodies of a well-formed candidate path fit their one-octet lengths *)
Lemma cp_fixed_bodies : forall cp, wf_cp cp ->
  wf_opt (fun x => match x with BsMpls _ _ => True | BsSrv6 f sid => length (f :: 0 :: sid) = 18%nat end) (cp_bsid cp) /\
  wf_opt (fun x => match x with (f, sid, Ebs beh bl nl fl al) => length (f :: 0 :: sid ++ be16 beh ++ [bl; nl; fl; al]) = 24%nat end) (cp_bsid6 cp).
Proof.
  intros cp [_ [W2 [W3 _]]]. split.
  - destruct (cp_bsid cp) as [[f l|f sid]|]; cbn in *; try trivial. destruct W2 as [_ [Hl _]]. rewrite Hl. reflexivity.
  - destruct (cp_bsid6 cp) as [[[f sid] [beh bl nl fl al]]|]; cbn in *; [|trivial]. destruct W3 as [_ [Hl _]].
    rewrite app_length, Hl. reflexivity.
Qed.

(* ------------------------------------------------------------------ *)
(* the listing of a stored TUNNEL_ENCAP value is accepted again as the same value *)
Lemma cp_steps_app : forall a b cp,
  cp_steps cp (a ++ b) = match cp_steps cp a with Some cp' => cp_steps cp' b | None => None end.
Proof.
  induction a as [|s r IH]; intros b cp; cbn; [reflexivity|]. destruct (cp_step cp s); [apply IH|reflexivity].
Qed.

Lemma bits2 : forall f, f < 256 -> f mod 64 = 0 -> flag_bit (bit_set f 128) 128 + flag_bit (bit_set f 64) 64 = f.
Proof.
  intros f H1 H2. assert (E : f = 0 \/ f = 64 \/ f = 128 \/ f = 192) by lia.
  destruct E as [-> | [-> | [-> | ->]]]; reflexivity.
Qed.

Lemma bits3 : forall f, f < 256 -> f mod 32 = 0 ->
  flag_bit (bit_set f 128) 128 + flag_bit (bit_set f 64) 64 + flag_bit (bit_set f 32) 32 = f.
Proof.
  intros f H1 H2. assert (E : f = 0 \/ f = 32 \/ f = 64 \/ f = 96 \/ f = 128 \/ f = 160 \/ f = 192 \/ f = 224) by lia.
  destruct E as [-> | [-> | [-> | [-> | [-> | [-> | [-> | ->]]]]]]]; reflexivity.
Qed.

Lemma bits4 : forall f, f < 256 -> f mod 16 = 0 -> segflags (flags4 f) = f.
Proof.
  intros f H1 H2.
  assert (E : f = 0 \/ f = 16 \/ f = 32 \/ f = 48 \/ f = 64 \/ f = 80 \/ f = 96 \/ f = 112 \/ f = 128 \/ f = 144 \/ f = 160
              \/ f = 176 \/ f = 192 \/ f = 208 \/ f = 224 \/ f = 240) by lia.
  repeat (destruct E as [-> | E]; [reflexivity|]). subst. reflexivity.
Qed.

Lemma ebs_roundtrip : forall e, wf_ebs e -> ebs_from_api (ebs_to_api e) = Some e.
Proof.
  intros [beh bl nl fl al] H. cbn in *. destruct (_ || _) eqn:E.
  - repeat (apply orb_true_iff in E; destruct E as [E|E]); try (apply N.ltb_lt in E; lia); apply Z.ltb_lt in E; lia.
  - rewrite N2Z.id. reflexivity.
Qed.

Lemma seg_roundtrip : forall g, wf_seg g -> seg_listable g -> seg_from_api (seg_to_api g) = Some g.
Proof.
  intros [f l|f sid e] W L; cbn [seg_to_api seg_from_api].
  - destruct W as [Hf Hl]. cbn in L. destruct (N.ltb_spec 1048575 l); [lia|]. rewrite bits4 by assumption. reflexivity.
  - destruct W as [Hf [Hl [_ He]]]. destruct L as [L1 L2]. rewrite Hl. cbn [Nat.eqb negb]. rewrite bits4 by assumption.
    destruct e as [e'|]; cbn [option_map].
    + rewrite L2 by discriminate. cbn [option_map]. rewrite ebs_roundtrip by exact He. reflexivity.
    + destruct (bit_set f 64); reflexivity.
Qed.

Lemma seglists_steps : forall sls pref bsid bsid6 enlp prio segs,
  Forall (fun sl => wf_opt (fun w => fst w < 256 /\ snd w < 4294967296) (fst sl) /\ Forall wf_seg (snd sl)) sls ->
  Forall (fun sl => Forall seg_listable (snd sl)) sls ->
  cp_steps (mkCp pref bsid bsid6 enlp prio segs None None) (map (fun sl => ATsSegList (fst sl) (map seg_to_api (snd sl))) sls)
  = Some (mkCp pref bsid bsid6 enlp prio (segs ++ sls) None None).
Proof.
  induction sls as [|[w gs] r IH]; intros pref bsid bsid6 enlp prio segs W L; cbn [map cp_steps].
  - rewrite app_nil_r. reflexivity.
  - inversion W as [|? ? [Hw Hg] Wr]; subst. inversion L as [|? ? Lg Lr]; subst. cbn [fst snd] in *.
    cbn [cp_step].
    assert (E : match w with Some (f, _) => 255 <? f | None => false end = false).
    { destruct w as [[f x]|]; [|reflexivity]. cbn in Hw. destruct (N.ltb_spec 255 f); [lia|reflexivity]. }
    rewrite E.
    rewrite (opt_all_map seg_from_api seg_to_api (fun g => wf_seg g /\ seg_listable g)).
    + rewrite IH by assumption. rewrite <- app_assoc. reflexivity.
    + intros g [? ?]. apply seg_roundtrip; assumption.
    + apply Forall_forall. intros g Hg'. split; [exact (proj1 (Forall_forall _ _) Hg g Hg')|exact (proj1 (Forall_forall _ _) Lg g Hg')].
Qed.

Lemma cp_roundtrip : forall cp, wf_cp cp -> cp_listable cp -> cp_steps cp_empty (cp_to_api cp) = Some cp.
Proof.
  intros [pref bsid bsid6 enlp prio segs name pname] [W1 [W2 [W3 [W4 [W5 [W6 [W7 W8]]]]]]] [L2 [L3 L6]].
  unfold cp_to_api, cp_empty. cbn [cp_pref cp_bsid cp_bsid6 cp_enlp cp_prio cp_segs cp_name cp_pname] in *.
  (* preference *)
  rewrite cp_steps_app.
  assert (S1 : cp_steps (mkCp None None None None None [] None None) (opt_bytes pref (fun x => [ATsPref (fst x) (snd x)]))
               = Some (mkCp pref None None None None [] None None)).
  { destruct pref as [[f p]|]; [|reflexivity]. cbn in W1. cbn. destruct (N.ltb_spec 255 f); [lia|reflexivity]. }
  rewrite S1. clear S1.
  (* binding SID *)
  rewrite cp_steps_app.
  match goal with |- context [cp_steps ?s (opt_bytes bsid ?f)] =>
    assert (S2 : cp_steps s (opt_bytes bsid f) = Some (mkCp pref bsid None None None [] None None)) end.
  { destruct bsid as [[f l|f sid]|]; [| |reflexivity]; cbn [opt_bytes cp_steps cp_step wf_opt] in *.
    - destruct W2 as [Hf Hl]. unfold be32.
      pose proof (of_be32_be32 (l * 4096) ltac:(lia)) as E. rewrite E.
      replace (l * 4096 mod 4096) with 0 by lia. replace (l * 4096 / 4096) with l by lia.
      cbn [N.eqb negb orb once]. rewrite bits2 by assumption. reflexivity.
    - destruct W2 as [Hf [Hl _]]. rewrite Hl. cbn [Nat.eqb negb once]. cbn [flag_bit]. rewrite N.add_0_r.
      rewrite bits2 by assumption. reflexivity. }
  rewrite S2. clear S2.
  (* SRv6 binding SID with behaviour *)
  rewrite cp_steps_app.
  match goal with |- context [cp_steps ?s (opt_bytes bsid6 ?f)] =>
    assert (S3 : cp_steps s (opt_bytes bsid6 f) = Some (mkCp pref bsid bsid6 None None [] None None)) end.
  { destruct bsid6 as [[[f sid] e]|]; [|reflexivity]; cbn [opt_bytes cp_steps cp_step wf_opt] in *.
    destruct W3 as [Hf [Hl [_ He]]]. rewrite Hl. cbn [Nat.eqb negb]. rewrite ebs_roundtrip by exact He.
    cbn [once]. rewrite bits3 by assumption. reflexivity. }
  rewrite S3. clear S3.
  (* ENLP, priority *)
  rewrite cp_steps_app.
  match goal with |- context [cp_steps ?s (opt_bytes enlp ?f)] =>
    assert (S4 : cp_steps s (opt_bytes enlp f) = Some (mkCp pref bsid bsid6 enlp None [] None None)) end.
  { destruct enlp as [[f e]|]; [|reflexivity]; cbn [opt_bytes cp_steps cp_step wf_opt fst snd] in *.
    destruct W4 as [Hf He]. destruct (N.ltb_spec 255 f); [lia|]. destruct (Z.ltb_spec (Z.of_N e) 0); [lia|].
    destruct (Z.ltb_spec 255 (Z.of_N e)); [lia|]. cbn [orb once negb]. rewrite N2Z.id. reflexivity. }
  rewrite S4. clear S4.
  rewrite cp_steps_app.
  match goal with |- context [cp_steps ?s (opt_bytes prio ?f)] =>
    assert (S5 : cp_steps s (opt_bytes prio f) = Some (mkCp pref bsid bsid6 enlp prio [] None None)) end.
  { destruct prio as [p|]; [|reflexivity]; cbn [opt_bytes cp_steps cp_step wf_opt] in *.
    destruct (N.ltb_spec 255 p); [lia|]. reflexivity. }
  rewrite S5. clear S5.
  (* segment lists *)
  rewrite cp_steps_app. rewrite seglists_steps by assumption. cbn [app].
  (* names *)
  rewrite cp_steps_app.
  match goal with |- context [cp_steps ?s (opt_bytes name ?f)] =>
    assert (S7 : cp_steps s (opt_bytes name f) = Some (mkCp pref bsid bsid6 enlp prio segs name None)) end.
  { destruct name as [n|]; reflexivity. }
  rewrite S7. clear S7.
  destruct pname as [n|]; [|reflexivity]. cbn [opt_bytes cp_steps cp_step wf_opt] in *.
  destruct W8 as [_ Hu]. rewrite Hu. reflexivity.
Qed.

Theorem te_roundtrip : forall l, wf_te l -> te_listable l -> te_from_api (te_to_api l) = Some l.
Proof.
  intros l W L. unfold te_from_api, te_to_api.
  apply (opt_all_map te_tlv_from_api te_tlv_to_api (fun t => wf_te_tlv t /\ match t with TeSr cp => cp_listable cp | TeRaw _ v => v = [] end)).
  - intros [cp|ty v] [Wt Lt]; cbn [te_tlv_to_api te_tlv_from_api].
    + cbn. rewrite cp_roundtrip by assumption. reflexivity.
    + destruct Wt as [Ht [Hn _]]. subst v. destruct (N.ltb_spec 65535 ty); [lia|].
      destruct (N.eqb_spec ty SR_POLICY); [contradiction|]. reflexivity.
  - apply Forall_forall. intros t Ht. split; [exact (proj1 (Forall_forall _ _) W t Ht)|exact (proj1 (Forall_forall _ _) L t Ht)].
Qed.
