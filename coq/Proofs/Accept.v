(* Lemmas and final statements for the admission part of property C16. *)
From Coq Require Import List NArith Bool Lia ZifyBool ZifyN ZifyNat Arith.
From RB Require Import Base.Val Model.Caps Model.Fsm Model.Negotiate Model.Accept
                       Spec.NegotiateSpec Spec.AcceptSpec Proofs.IpNet.
Import ListNotations.
Open Scope N_scope.

(* ---------------------------------------------------- address equality *)

Lemma octets_eqb_eq x : forall y, octets_eqb x y = true <-> x = y.
Proof.
  unfold octets_eqb. induction x as [|a x IH]; intros [|b y]; cbn [length combine forallb Nat.eqb andb fst snd];
    try (split; [discriminate|discriminate]); [split; reflexivity|].
  specialize (IH y). destruct (a =? b) eqn:E.
  - apply N.eqb_eq in E. subst b. cbn [andb]. rewrite IH. split; [intros ->; reflexivity|intro H; injection H; auto].
  - cbn [andb]. rewrite andb_false_r. split; [discriminate|]. intro H. injection H as H _.
    subst b. rewrite N.eqb_refl in E. discriminate.
Qed.

Lemma addr_eqb_eq a b : addr_eqb a b = true <-> a = b.
Proof.
  destruct a as [x|x], b as [y|y]; cbn [addr_eqb]; try (split; discriminate);
    rewrite octets_eqb_eq; split; [intros ->; reflexivity|intro H; injection H; auto
                                  |intros ->; reflexivity|intro H; injection H; auto].
Qed.

Lemma addr_eqb_refl a : addr_eqb a a = true.
Proof. apply addr_eqb_eq. reflexivity. Qed.

Lemma addr_eqb_neq a b : addr_eqb a b = false <-> a <> b.
Proof.
  destruct (addr_eqb a b) eqn:E.
  - apply addr_eqb_eq in E. split; [discriminate|contradiction].
  - split; [intros _ H; apply addr_eqb_eq in H; congruence|reflexivity].
Qed.

(* ------------------------------------------------------- the peers table *)

Lemma lookup_update_same a p l : lookup a (update a p l) = Some p.
Proof.
  induction l as [|[k q] t IH]; cbn [update lookup]; [rewrite addr_eqb_refl; reflexivity|].
  destruct (addr_eqb k a) eqn:E; cbn [lookup]; rewrite E; [reflexivity|exact IH].
Qed.

Lemma lookup_update_other a b p l : b <> a -> lookup b (update a p l) = lookup b l.
Proof.
  intro Hne. induction l as [|[k q] t IH]; cbn [update lookup].
  - destruct (addr_eqb a b) eqn:E; [apply addr_eqb_eq in E; congruence|reflexivity].
  - destruct (addr_eqb k a) eqn:E; cbn [lookup].
    + apply addr_eqb_eq in E. subst k.
      destruct (addr_eqb a b) eqn:E2; [apply addr_eqb_eq in E2; congruence|reflexivity].
    + destruct (addr_eqb k b); [reflexivity|exact IH].
Qed.

Lemma lookup_In a p l : lookup a l = Some p -> In (a, p) l.
Proof.
  induction l as [|[k q] t IH]; cbn [lookup]; [discriminate|].
  destruct (addr_eqb k a) eqn:E.
  - apply addr_eqb_eq in E. intros H. injection H as ->. subst k. left. reflexivity.
  - intro H. right. exact (IH H).
Qed.

Lemma lookup_none_keys a l : lookup a l = None <-> ~ In a (map fst l).
Proof.
  induction l as [|[k q] t IH]; cbn [lookup map fst In]; [tauto|].
  destruct (addr_eqb k a) eqn:E.
  - apply addr_eqb_eq in E. split; [discriminate|]. intro H. exfalso. apply H. left. exact E.
  - apply addr_eqb_neq in E. rewrite IH. tauto.
Qed.

Lemma keys_update a p l : In a (map fst l) -> map fst (update a p l) = map fst l.
Proof.
  induction l as [|[k q] t IH]; cbn [update map fst In]; [intros []|].
  destruct (addr_eqb k a) eqn:E; cbn [map fst]; [reflexivity|].
  intros [H|H]; [apply addr_eqb_neq in E; congruence|]. rewrite (IH H). reflexivity.
Qed.

Lemma keys_update_new a p l : ~ In a (map fst l) -> map fst (update a p l) = map fst l ++ [a].
Proof.
  induction l as [|[k q] t IH]; cbn [update map fst In app]; [reflexivity|].
  intro H. destruct (addr_eqb k a) eqn:E; [apply addr_eqb_eq in E; tauto|].
  cbn [map fst]. rewrite IH by tauto. reflexivity.
Qed.

Lemma nodup_snoc (l : list ipaddr) a : NoDup l -> ~ In a l -> NoDup (l ++ [a]).
Proof.
  induction l as [|x t IH]; cbn [app]; intros Hn Hin; [constructor; [intros []|constructor]|].
  inversion Hn as [|? ? Hx Ht]; subst. constructor.
  - rewrite in_app_iff. cbn [In]. intros [H|[H|[]]]; [contradiction|]. apply Hin. left. symmetry. exact H.
  - apply IH; [exact Ht|]. intro H. apply Hin. right. exact H.
Qed.

Lemma addr_dec (x y : ipaddr) : {x = y} + {x <> y}.
Proof.
  destruct (addr_eqb x y) eqn:E; [left; apply addr_eqb_eq; exact E|right; apply addr_eqb_neq; exact E].
Qed.

Lemma nodup_update a p l : NoDup (map fst l) -> NoDup (map fst (update a p l)).
Proof.
  intro H. destruct (in_dec addr_dec a (map fst l)) as [Hin|Hnin].
  - rewrite keys_update by exact Hin. exact H.
  - rewrite keys_update_new by exact Hnin. apply nodup_snoc; assumption.
Qed.

Lemma lookup_remove_same a l : NoDup (map fst l) -> lookup a (remove a l) = None.
Proof.
  induction l as [|[k q] t IH]; cbn [remove lookup map fst]; [reflexivity|].
  intro Hn. inversion Hn as [|? ? Hk Ht]; subst.
  destruct (addr_eqb k a) eqn:E.
  - apply addr_eqb_eq in E. subst k. apply lookup_none_keys. exact Hk.
  - cbn [lookup]. rewrite E. exact (IH Ht).
Qed.

Lemma lookup_remove_other a b l : b <> a -> lookup b (remove a l) = lookup b l.
Proof.
  intro Hne. induction l as [|[k q] t IH]; cbn [remove lookup]; [reflexivity|].
  destruct (addr_eqb k a) eqn:E.
  - apply addr_eqb_eq in E. subst k.
    destruct (addr_eqb a b) eqn:E2; [apply addr_eqb_eq in E2; congruence|reflexivity].
  - cbn [lookup]. destruct (addr_eqb k b); [reflexivity|exact IH].
Qed.

Lemma nodup_remove a l : NoDup (map fst l) -> NoDup (map fst (remove a l)).
Proof.
  induction l as [|[k q] t IH]; cbn [remove map fst]; [auto|].
  intro Hn. inversion Hn as [|? ? Hk Ht]; subst.
  destruct (addr_eqb k a); [exact Ht|]. cbn [map fst]. constructor; [|exact (IH Ht)].
  intro H. apply Hk. clear -H. induction t as [|[k' q'] t IH]; cbn [remove map fst In] in *; [exact H|].
  destruct (addr_eqb k' a); [right; exact H|]. cbn [map fst In] in H. destruct H as [H|H]; [left; exact H|right; exact (IH H)].
Qed.

(* ------------------------------------------------ the dynamic-prefix test *)

Lemma prefix_hit_inside n a :
  net_ok n -> mask_of n <= width n -> addr_ok a -> (prefix_hit a n = true <-> inside n a).
Proof.
  intros Hn Hm Ha. unfold prefix_hit.
  destruct (C16_contains_eq_bit_prefix n a Hn Ha Hm) as (v & Hv & Hiff). rewrite Hv. exact Hiff.
Qed.

Lemma find_group_iff g a :
  wf_global g -> addr_ok a ->
  ((exists gr, find (group_matches a) (gl_groups g) = Some gr) <-> in_dynamic_prefix g a).
Proof.
  intros Hwf Ha. unfold in_dynamic_prefix. split.
  - intros (gr & Hf). apply find_some in Hf as [Hin Hm]. unfold group_matches in Hm.
    apply existsb_exists in Hm as (n & Hn & Hh). exists gr, n. split; [exact Hin|]. split; [exact Hn|].
    destruct (Hwf gr n Hin Hn) as [H1 H2]. apply (prefix_hit_inside n a H1 H2 Ha). exact Hh.
  - intros (gr & n & Hin & Hn & Hi).
    destruct (find (group_matches a) (gl_groups g)) as [gr'|] eqn:Hf; [eauto|]. exfalso.
    pose proof (find_none _ _ Hf gr Hin) as Hm. unfold group_matches in Hm.
    assert (Hx : existsb (prefix_hit a) (g_prefixes gr) = true).
    { apply existsb_exists. exists n. split; [exact Hn|].
      destruct (Hwf gr n Hin Hn) as [H1 H2]. apply (prefix_hit_inside n a H1 H2 Ha). exact Hi. }
    congruence.
Qed.

(* ------------------------------------------------------ final statements *)

(* (11) a connection becomes a session iff it is permitted; anything else is
   dropped, before any OPEN (accept_connection only builds the PeerSession) *)
Lemma C16_accept_iff_permitted :
  forall (g : global) (a : ipaddr) (r : role),
    wf_global g -> addr_ok a ->
    (accept_connection g a r <> Reject <-> permitted g a r).
Proof.
  intros g a r Hwf Ha. unfold accept_connection, permitted, configured.
  destruct (lookup a (gl_peers g)) as [p|] eqn:Hl.
  - destruct (pe_admin_down p) eqn:Ead; [|destruct (conn_of p r) eqn:Ec].
    + split; [intro H; contradiction|]. intros [(p' & H1 & H2 & _)|[H _]]; [|discriminate H].
      injection H1 as <-. congruence.
    + split; [intro H; contradiction|]. intros [(p' & H1 & _ & H3)|[H _]]; [|discriminate H].
      injection H1 as <-. congruence.
    + split; [|intros _ H; discriminate H]. intros _. left. exists p. auto.
  - pose proof (find_group_iff g a Hwf Ha) as Hg.
    destruct (find (group_matches a) (gl_groups g)) as [gr|] eqn:Hf.
    + split; [|intros _ H; discriminate H]. intros _. right. split; [reflexivity|]. apply Hg. eauto.
    + split; [intro H; contradiction|]. intros [(p' & H1 & _)|[_ H]]; [discriminate H1|].
      apply Hg in H. destruct H as (gr & H). discriminate H.
Qed.

(* the "only if" of the text *)
Lemma C16_accept_only_if_text :
  forall (g : global) (a : ipaddr) (r : role),
    wf_global g -> addr_ok a -> accept_connection g a r <> Reject -> permitted_text g a r.
Proof.
  intros g a r Hwf Ha H. apply (C16_accept_iff_permitted g a r Hwf Ha) in H.
  destruct H as [H|[_ H]]; [left; exact H|right; exact H].
Qed.

(* (12) the session and the neighbour record carry exactly the configured or
   inherited settings *)
Lemma C16_session_fields_from_config :
  forall (g g' : global) (a : ipaddr) (r : role) (s : session),
    accept_connection g a r = Accept g' s ->
    exists p,
      lookup a (gl_peers g') = Some p /\ s = session_of g p r
      /\ conn_of p r = true /\ (forall b, b <> a -> lookup b (gl_peers g') = lookup b (gl_peers g))
      /\ gl_groups g' = gl_groups g
      (* the session is the neighbour's: capabilities, local AS, prefix limits, role, cluster id *)
      /\ s_local_cap s = pe_local_cap p /\ s_local_asn s = pe_local_asn p
      /\ s_prefix_limits s = pe_prefix_limits p /\ s_dir s = r
      /\ s_role s = role_of_config (match gl_confed g with Some (_, m) => m | None => [] end)
                                   (pe_rs_client p) (rr_client (pe_rr p)) (pe_expected_asn p) (pe_local_asn p)
      /\ (s_cluster s <> None <-> s_role s = 2 \/ s_role s = 3)
      /\ ((* a configured neighbour: its record, unchanged but for the connection mark *)
          (exists p0, lookup a (gl_peers g) = Some p0 /\ p = set_conn p0 r true)
          \/ (* a dynamic neighbour: built from a group whose prefix contains the address *)
          (lookup a (gl_peers g) = None /\
           exists gr, In gr (gl_groups g) /\ group_matches a gr = true
                      /\ p = set_conn (build_peer g a (params_of_group gr)) r true
                      /\ pe_expected_asn p = g_as gr
                      /\ pe_hold p = match g_hold gr with Some h => h | None => DEFAULT_HOLD_TIME end
                      /\ pe_passive p = g_passive gr /\ pe_rs_client p = g_rs_client gr /\ pe_rr p = g_rr gr
                      /\ pe_send_max p = g_send_max gr /\ pe_prefix_limits p = []
                      /\ pe_delete p = true /\ pe_admin_down p = false
                      /\ pe_local_cap p = build_local_cap (is_v6 a) (pe_local_asn p) (g_families gr) (g_gr gr) (g_llgr gr))).
Proof.
  intros g g' a r s H. unfold accept_connection in H.
  assert (Hrole : forall p, s_role (session_of g p r) =
            role_of_config (match gl_confed g with Some (_, m) => m | None => [] end)
                           (pe_rs_client p) (rr_client (pe_rr p)) (pe_expected_asn p) (pe_local_asn p)).
  { intro p. cbn [session_of s_role]. unfold peer_role, role_of_config.
    destruct (pe_rs_client p); [reflexivity|].
    destruct (negb (pe_local_asn p =? 0) && (pe_expected_asn p =? pe_local_asn p)); [reflexivity|].
    destruct (gl_confed g) as [[id m]|]; reflexivity. }
  assert (Hcl : forall p, s_cluster (session_of g p r) <> None <->
                          s_role (session_of g p r) = 2 \/ s_role (session_of g p r) = 3).
  { intro p. cbn [session_of s_cluster s_role]. unfold cluster_id.
    destruct ((peer_role g p =? 2) || (peer_role g p =? 3)) eqn:E.
    - split; [intros _; lia|intros _; discriminate].
    - split; [intro Hx; contradiction|]. lia. }
  assert (Hconn : forall p, conn_of (set_conn p r true) r = true) by (intro p; destruct r; reflexivity).
  destruct (lookup a (gl_peers g)) as [p0|] eqn:Hl.
  - destruct (pe_admin_down p0); [discriminate H|]. destruct (conn_of p0 r); [discriminate H|].
    injection H as <- <-. exists (set_conn p0 r true). cbn [set_peers gl_peers gl_groups].
    split; [apply lookup_update_same|]. split; [reflexivity|]. split; [apply Hconn|].
    split; [intros b Hb; apply lookup_update_other; exact Hb|]. split; [reflexivity|].
    repeat (split; [first [reflexivity | apply Hrole | apply Hcl]|]). left. eauto.
  - destruct (find (group_matches a) (gl_groups g)) as [gr|] eqn:Hf; [|discriminate H].
    injection H as <- <-. apply find_some in Hf as [Hin Hm].
    exists (set_conn (build_peer g a (params_of_group gr)) r true). cbn [set_peers gl_peers gl_groups].
    split; [apply lookup_update_same|]. split; [reflexivity|]. split; [apply Hconn|].
    split; [intros b Hb; apply lookup_update_other; exact Hb|]. split; [reflexivity|].
    repeat (split; [first [reflexivity | apply Hrole | apply Hcl]|]). right. split; [reflexivity|].
    exists gr. split; [exact Hin|]. split; [exact Hm|]. split; [reflexivity|].
    destruct r; cbn; repeat split; reflexivity.
Qed.

(* (13) a dynamic neighbour's state disappears when its last connection ends;
   configured neighbours stay *)
Lemma C16_dynamic_peer_removed :
  forall (g : global) (a : ipaddr) (r : role) (p : peer),
    keys_ok g -> lookup a (gl_peers g) = Some p -> conn_of p r = true ->
    let g' := fst (step_op g (ODisconnect a r)) in
    (pe_delete p = true -> conn_of p (other r) = false -> lookup a (gl_peers g') = None)
    /\ (pe_delete p = false \/ conn_of p (other r) = true -> lookup a (gl_peers g') = Some (set_conn p r false))
    /\ (forall b, b <> a -> lookup b (gl_peers g') = lookup b (gl_peers g)).
Proof.
  intros g a r p Hk Hl Hc. cbv zeta. cbn [step_op]. rewrite Hl, Hc. cbn [fst]. unfold disconnect. rewrite Hl.
  assert (Hflags : negb (pe_conn_active (set_conn p r false)) && negb (pe_conn_passive (set_conn p r false))
                   = negb (conn_of p (other r))).
  { destruct r; cbn; destruct (pe_conn_active p), (pe_conn_passive p); reflexivity. }
  rewrite Hflags. replace (pe_delete (set_conn p r false)) with (pe_delete p) by (destruct r; reflexivity).
  split; [|split].
  - intros Hd Ho. rewrite Hd, Ho. cbn [negb andb set_peers gl_peers]. apply lookup_remove_same. exact Hk.
  - intros [Hd|Ho]; [rewrite Hd, andb_false_r|rewrite Ho]; cbn [negb andb set_peers gl_peers];
      apply lookup_update_same.
  - intros b Hb. destruct (negb (conn_of p (other r)) && pe_delete p); cbn [set_peers gl_peers];
      [apply lookup_remove_other|apply lookup_update_other]; exact Hb.
Qed.

(* ... and over whole histories: in every state reached by connects,
   disconnects, disables and enables from a configuration without dynamic
   neighbours, every dynamic neighbour in the table has a live connection *)
Lemma step_keys g o : keys_ok g -> keys_ok (fst (step_op g o)).
Proof.
  unfold keys_ok. intro Hk. destruct o as [a r|a r|a b|a|a|a|a r|a u|a ro rn]; cbn [step_op].
  - unfold accept_connection. destruct (lookup a (gl_peers g)) as [p|].
    + destruct (pe_admin_down p); [exact Hk|]. destruct (conn_of p r); [exact Hk|].
      cbn [fst set_peers gl_peers]. apply nodup_update. exact Hk.
    + destruct (find (group_matches a) (gl_groups g)); [|exact Hk].
      cbn [fst set_peers gl_peers]. apply nodup_update. exact Hk.
  - destruct (lookup a (gl_peers g)) as [p|] eqn:Hl; [|exact Hk]. destruct (conn_of p r); [|exact Hk].
    cbn [fst]. unfold disconnect. rewrite Hl.
    destruct (negb _ && negb _ && _); cbn [set_peers gl_peers]; [apply nodup_remove|apply nodup_update]; exact Hk.
  - destruct (lookup a (gl_peers g)) as [p|]; [|exact Hk]. cbn [fst set_peers gl_peers]. apply nodup_update. exact Hk.
  - cbn [fst]. unfold disable. destruct (lookup a (gl_peers g)) as [p|]; [|exact Hk].
    destruct (pe_admin_down p); [exact Hk|].
    destruct ((pe_conn_active p || pe_conn_passive p) && pe_delete p); cbn [set_peers gl_peers];
      [apply nodup_remove|apply nodup_update]; exact Hk.
  - destruct (lookup a (gl_peers g)) as [p|]; [|exact Hk]. cbn [fst set_peers gl_peers]. apply nodup_update. exact Hk.
  - cbn [fst set_peers gl_peers]. apply nodup_remove. exact Hk.
  - set (g1 := set_peers g (remove a (gl_peers g))).
    assert (Hk1 : NoDup (map fst (gl_peers g1))) by (apply nodup_remove; exact Hk).
    unfold accept_connection. destruct (lookup a (gl_peers g1)) as [p|].
    + destruct (pe_admin_down p); [exact Hk1|]. destruct (conn_of p r); [exact Hk1|].
      cbn [fst set_peers gl_peers]. apply nodup_update. exact Hk1.
    + destruct (find (group_matches a) (gl_groups g1)); [|exact Hk1].
      cbn [fst set_peers gl_peers]. apply nodup_update. exact Hk1.
  - cbn [fst]. unfold update_peer. destruct (lookup a (gl_peers g)) as [p|]; [|exact Hk].
    destruct (negb _ || negb _); [exact Hk|].
    match goal with |- context [if ?b then set_peers g (remove _ _) else _] => destruct b end;
      cbn [set_peers gl_peers]; [apply nodup_remove|apply nodup_update]; exact Hk.
  - destruct (lookup a (gl_peers g)) as [p|] eqn:Hl; [|exact Hk]. destruct (conn_of p ro); [|exact Hk].
    set (g1 := set_peers g (update a (set_conn p ro false) (gl_peers g))).
    assert (Hk1 : NoDup (map fst (gl_peers g1))) by (apply nodup_update; exact Hk).
    destruct (accept_connection g1 a rn) as [|g' s] eqn:Ha; cbn [fst].
    + unfold disconnect. rewrite Hl.
      destruct (negb _ && negb _ && _); cbn [set_peers gl_peers]; [apply nodup_remove|apply nodup_update]; exact Hk.
    + unfold accept_connection in Ha. destruct (lookup a (gl_peers g1)) as [q|].
      * destruct (pe_admin_down q); [discriminate Ha|]. destruct (conn_of q rn); [discriminate Ha|].
        injection Ha as <- _. cbn [set_peers gl_peers]. apply nodup_update. exact Hk1.
      * destruct (find (group_matches a) (gl_groups g1)); [|discriminate Ha].
        injection Ha as <- _. cbn [set_peers gl_peers]. apply nodup_update. exact Hk1.
Qed.

Lemma step_dynamic g o :
  keys_ok g -> dynamic_have_connection g -> dynamic_have_connection (fst (step_op g o)).
Proof.
  unfold dynamic_have_connection. intros Hk Hinv. destruct o as [a r|a r|a b|a|a|a|a r|a u|a ro rn]; cbn [step_op].
  - destruct (accept_connection g a r) as [|g' s] eqn:Ha; [exact Hinv|]. cbn [fst].
    destruct (C16_session_fields_from_config g g' a r s Ha) as (p & Hl & _ & Hc & Hoth & _).
    intros b q Hq Hd. destruct (addr_dec b a) as [->|Hne].
    + rewrite Hl in Hq. injection Hq as <-. destruct r; cbn [conn_of] in Hc; auto.
    + rewrite (Hoth b Hne) in Hq. exact (Hinv b q Hq Hd).
  - destruct (lookup a (gl_peers g)) as [p|] eqn:Hl; [|exact Hinv]. destruct (conn_of p r) eqn:Hc; [|exact Hinv].
    destruct (C16_dynamic_peer_removed g a r p Hk Hl Hc) as (H1 & H2 & H3). cbv zeta in H1, H2, H3.
    cbn [step_op] in H1, H2, H3. rewrite Hl, Hc in H1, H2, H3.
    intros b q Hq Hd. destruct (addr_dec b a) as [->|Hne].
    + destruct (pe_delete p) eqn:Edel; [destruct (conn_of p (other r)) eqn:Eo|].
      * rewrite (H2 (or_intror eq_refl)) in Hq. injection Hq as <-.
        destruct r; cbn [other conn_of set_conn pe_conn_active pe_conn_passive] in *; auto.
      * rewrite (H1 eq_refl eq_refl) in Hq. discriminate Hq.
      * rewrite (H2 (or_introl eq_refl)) in Hq. injection Hq as <-.
        replace (pe_delete (set_conn p r false)) with (pe_delete p) in Hd by (destruct r; reflexivity). congruence.
    + rewrite (H3 b Hne) in Hq. exact (Hinv b q Hq Hd).
  - destruct (lookup a (gl_peers g)) as [p|] eqn:Hl; [|exact Hinv]. cbn [fst set_peers gl_peers].
    intros c q Hq Hd. destruct (addr_dec c a) as [->|Hne].
    + rewrite lookup_update_same in Hq. injection Hq as <-. cbn in Hd |- *. exact (Hinv a p Hl Hd).
    + rewrite lookup_update_other in Hq by exact Hne. exact (Hinv c q Hq Hd).
  - (* disable_peer *)
    cbn [fst]. unfold disable. destruct (lookup a (gl_peers g)) as [p|] eqn:Hl; [|exact Hinv].
    destruct (pe_admin_down p); [exact Hinv|].
    intros c q Hq Hd. destruct (addr_dec c a) as [->|Hne].
    + destruct ((pe_conn_active p || pe_conn_passive p) && pe_delete p) eqn:E; cbn [set_peers gl_peers] in Hq.
      * rewrite lookup_remove_same in Hq by exact Hk. discriminate Hq.
      * rewrite lookup_update_same in Hq. injection Hq as <-. cbn in Hd.
        destruct (Hinv a p Hl Hd) as [Hc|Hc]; rewrite Hc, Hd in E; cbn in E;
          rewrite ?orb_true_r in E; discriminate E.
    + destruct ((pe_conn_active p || pe_conn_passive p) && pe_delete p); cbn [set_peers gl_peers] in Hq;
        [rewrite lookup_remove_other in Hq by exact Hne|rewrite lookup_update_other in Hq by exact Hne];
        exact (Hinv c q Hq Hd).
  - (* enable_peer *)
    destruct (lookup a (gl_peers g)) as [p|] eqn:Hl; [|exact Hinv]. cbn [fst set_peers gl_peers].
    intros c q Hq Hd. destruct (addr_dec c a) as [->|Hne].
    + rewrite lookup_update_same in Hq. injection Hq as <-. cbn in Hd |- *. exact (Hinv a p Hl Hd).
    + rewrite lookup_update_other in Hq by exact Hne. exact (Hinv c q Hq Hd).
  - (* delete_peer *)
    cbn [fst set_peers gl_peers]. intros c q Hq Hd. destruct (addr_dec c a) as [->|Hne].
    + rewrite lookup_remove_same in Hq by exact Hk. discriminate Hq.
    + rewrite lookup_remove_other in Hq by exact Hne. exact (Hinv c q Hq Hd).
  - (* delete_peer, then a new connection while the old tasks end *)
    set (g1 := set_peers g (remove a (gl_peers g))).
    assert (Hinv1 : forall c q, lookup c (gl_peers g1) = Some q -> pe_delete q = true ->
                                pe_conn_active q = true \/ pe_conn_passive q = true).
    { intros c q Hq Hd. cbn [g1 set_peers gl_peers] in Hq. destruct (addr_dec c a) as [->|Hne].
      - rewrite lookup_remove_same in Hq by exact Hk. discriminate Hq.
      - rewrite lookup_remove_other in Hq by exact Hne. exact (Hinv c q Hq Hd). }
    destruct (accept_connection g1 a r) as [|g' s] eqn:Ha; [exact Hinv1|]. cbn [fst].
    destruct (C16_session_fields_from_config g1 g' a r s Ha) as (p & Hl & _ & Hc & Hoth & _).
    intros c q Hq Hd. destruct (addr_dec c a) as [->|Hne].
    + rewrite Hl in Hq. injection Hq as <-. destruct r; cbn [conn_of] in Hc; auto.
    + rewrite (Hoth c Hne) in Hq. exact (Hinv1 c q Hq Hd).
  - (* update_peer *)
    cbn [fst]. unfold update_peer. destruct (lookup a (gl_peers g)) as [p|] eqn:Hl; [|exact Hinv].
    destruct (negb _ || negb _); [exact Hinv|].
    match goal with |- context [if ?b && (pe_conn_active p || pe_conn_passive p) && pe_delete p then _ else _] => set (td := b) end.
    intros c q Hq Hd. destruct (addr_dec c a) as [->|Hne].
    + destruct (td && (pe_conn_active p || pe_conn_passive p) && pe_delete p) eqn:E; cbn [set_peers gl_peers] in Hq.
      * rewrite lookup_remove_same in Hq by exact Hk. discriminate Hq.
      * rewrite lookup_update_same in Hq. injection Hq as <-. cbn [pe_delete pe_conn_active pe_conn_passive] in Hd |- *.
        destruct (Hinv a p Hl Hd) as [Hc|Hc]; rewrite Hc, Hd in E; rewrite ?orb_true_r in E; cbn in E;
          destruct td; try discriminate E; auto.
    + destruct (td && (pe_conn_active p || pe_conn_passive p) && pe_delete p); cbn [set_peers gl_peers] in Hq;
        [rewrite lookup_remove_other in Hq by exact Hne|rewrite lookup_update_other in Hq by exact Hne];
        exact (Hinv c q Hq Hd).
  - (* a connection ends while another one is admitted *)
    destruct (lookup a (gl_peers g)) as [p|] eqn:Hl; [|exact Hinv]. destruct (conn_of p ro) eqn:Hc; [|exact Hinv].
    set (g1 := set_peers g (update a (set_conn p ro false) (gl_peers g))).
    destruct (accept_connection g1 a rn) as [|g' s] eqn:Ha; cbn [fst].
    + pose proof (step_dynamic_disconnect := I).
      destruct (C16_dynamic_peer_removed g a ro p Hk Hl Hc) as (H1 & H2 & H3). cbv zeta in H1, H2, H3.
      cbn [step_op] in H1, H2, H3. rewrite Hl, Hc in H1, H2, H3. cbn [fst] in H1, H2, H3.
      intros b q Hq Hd. destruct (addr_dec b a) as [->|Hne].
      * destruct (pe_delete p) eqn:Edel; [destruct (conn_of p (other ro)) eqn:Eo|].
        -- rewrite (H2 (or_intror eq_refl)) in Hq. injection Hq as <-.
           destruct ro; cbn [other conn_of set_conn pe_conn_active pe_conn_passive] in *; auto.
        -- rewrite (H1 eq_refl eq_refl) in Hq. discriminate Hq.
        -- rewrite (H2 (or_introl eq_refl)) in Hq. injection Hq as <-.
           replace (pe_delete (set_conn p ro false)) with (pe_delete p) in Hd by (destruct ro; reflexivity). congruence.
      * rewrite (H3 b Hne) in Hq. exact (Hinv b q Hq Hd).
    + destruct (C16_session_fields_from_config g1 g' a rn s Ha) as (q0 & Hl' & _ & Hcn & Hoth & _).
      intros b q Hq Hd. destruct (addr_dec b a) as [->|Hne].
      * rewrite Hl' in Hq. injection Hq as <-. destruct rn; cbn [conn_of] in Hcn; auto.
      * rewrite (Hoth b Hne) in Hq. cbn [g1 set_peers gl_peers] in Hq.
        rewrite lookup_update_other in Hq by exact Hne. exact (Hinv b q Hq Hd).
Qed.

Lemma C16_dynamic_peers_have_connections :
  forall (g : global) (ops : list op),
    keys_ok g -> dynamic_have_connection g ->
    dynamic_have_connection (run_ops g ops) /\ keys_ok (run_ops g ops).
Proof.
  intros g ops. revert g. induction ops as [|o t IH]; intros g Hk Hd; [split; assumption|].
  cbn [run_ops fold_left]. apply IH; [apply step_keys; exact Hk|apply step_dynamic; assumption].
Qed.

(* non-vacuity *)
Definition ex_rr : rrcfg := {| rr_client := false; rr_cluster := None |}.
Definition ex_group : group :=
  {| g_as := 65001; g_prefixes := [Net4 [127; 0; 18; 0] 20]; g_rs_client := false; g_hold := Some 30;
     g_local_asn := 0; g_passive := true; g_rr := ex_rr; g_multihop := None; g_ttlsec := None;
     g_families := [(65537, 3)]; g_send_max := [(65537, 4)]; g_gr := None; g_llgr := None |}.
Definition ex_global : global :=
  {| gl_asn := 65000; gl_router_id := 16777217; gl_confed := None; gl_restarting := false;
     gl_peers := []; gl_groups := [ex_group] |}.
Definition ex_addr : ipaddr := A4 [127; 0; 18; 5].

Example accept_nonvacuous :
  wf_global ex_global /\ addr_ok ex_addr /\ keys_ok ex_global /\ dynamic_have_connection ex_global
  /\ (exists g' s, accept_connection ex_global ex_addr RPassive = Accept g' s
                   /\ s_role s = 0 /\ s_local_asn s = 65000
                   /\ exists p, lookup ex_addr (gl_peers g') = Some p /\ pe_delete p = true
                                /\ lookup ex_addr (gl_peers (fst (step_op g' (ODisconnect ex_addr RPassive)))) = None)
  /\ accept_connection ex_global (A4 [127; 0; 32; 5]) RPassive = Reject.
Proof.
  split.
  { intros gr n [<-|[]] [<-|[]]. cbn. split; [split; [reflexivity|repeat constructor; lia]|lia]. }
  split; [split; [reflexivity|repeat constructor; lia]|].
  split; [constructor|]. split; [intros a p H; discriminate H|].
  split; [|reflexivity]. vm_compute. do 2 eexists. split; [reflexivity|]. repeat split. eexists. repeat split.
Qed.

(* (14) peer-group inheritance: what the neighbour sets itself wins, the group
   fills in what it leaves open (default hold time 180, empty family list, ...) *)
Lemma C16_peer_group_inheritance :
  forall (p : params) (gr : group),
    let q := apply_peer_group p gr in
    (pa_expected_asn q = if pa_expected_asn p =? 0 then g_as gr else pa_expected_asn p)
    /\ (pa_local_asn q = if pa_local_asn p =? 0 then g_local_asn gr else pa_local_asn p)
    /\ (pa_hold q = if pa_hold p =? DEFAULT_HOLD_TIME
                    then match g_hold gr with Some h => h | None => DEFAULT_HOLD_TIME end else pa_hold p)
    /\ (pa_families q = match pa_families p with [] => g_families gr | f => f end)
    /\ (pa_send_max q = match pa_families p with [] => g_send_max gr | _ => pa_send_max p end)
    /\ (pa_gr q = match pa_gr p with Some x => Some x | None => g_gr gr end)
    /\ (pa_llgr q = match pa_llgr p with Some x => Some x | None => g_llgr gr end)
    /\ pa_passive q = pa_passive p || g_passive gr
    /\ pa_rs_client q = pa_rs_client p || g_rs_client gr
    /\ pa_prefix_limits q = pa_prefix_limits p /\ pa_admin_down q = pa_admin_down p /\ pa_delete q = pa_delete p.
Proof.
  intros p gr. cbv zeta. unfold apply_peer_group. cbn [pa_expected_asn pa_local_asn pa_hold pa_families pa_send_max
    pa_gr pa_llgr pa_passive pa_rs_client pa_prefix_limits pa_admin_down pa_delete].
  repeat split.
  - destruct (pa_expected_asn p =? 0) eqn:E; [|reflexivity]. destruct (g_as gr =? 0) eqn:E2; [|reflexivity].
    cbn. apply N.eqb_eq in E, E2. congruence.
  - destruct (pa_local_asn p =? 0) eqn:E; [|reflexivity]. destruct (g_local_asn gr =? 0) eqn:E2; [|reflexivity].
    cbn. apply N.eqb_eq in E, E2. congruence.
  - destruct (pa_hold p =? DEFAULT_HOLD_TIME) eqn:E; [|reflexivity]. destruct (g_hold gr); [reflexivity|].
    apply N.eqb_eq in E. exact E.
  - destruct (pa_families p); reflexivity.
  - destruct (pa_families p); reflexivity.
  - destruct (pa_gr p); reflexivity.
  - destruct (pa_llgr p); reflexivity.
Qed.

(* (15) the advertised capabilities are the configured ones: a MultiProtocol
   capability per configured family (the address family of the neighbour when
   none is configured), always 4-octet AS with the local AS and extended
   message, GR / LLGR exactly when configured *)
Lemma C16_local_cap_from_config :
  forall (v6 : bool) (la : N) (fams : list (N * N)) (gr : option grcfg) (llgr : option (list (N * N))),
    let caps := build_local_cap v6 la fams gr llgr in
    (forall f, In (CMultiProtocol f) caps <->
               (fams = [] /\ f = (if v6 then IPV6 else IPV4)) \/ In f (map fst fams))
    /\ In (CFourOctet la) caps /\ In CExtMessage caps
    /\ (forall fl t fs, In (CGR fl t fs) caps <->
                        exists g, gr = Some g /\ fl = (if gr_notif g then 4 else 0) /\ t = gr_time g
                                  /\ fs = map (fun f => (f, 0)) (gr_families g))
    /\ (forall v, In (CLLGR v) caps <-> exists l, llgr = Some l /\ v = map (fun ft => (fst ft, 0, snd ft)) l).
Proof.
  intros v6 la fams gr llgr. cbv zeta. unfold build_local_cap.
  set (head := match fams with [] => _ | _ => _ end).
  set (grp := match gr with Some g => _ | None => [] end).
  set (llp := match llgr with Some l => _ | None => [] end).
  assert (Hhead_mp : forall f, In (CMultiProtocol f) head <->
             (fams = [] /\ f = (if v6 then IPV6 else IPV4)) \/ In f (map fst fams)).
  { intro f. subst head. destruct fams as [|x t].
    - cbn. split; [intros [H|[]]; injection H as <-; auto|intros [[_ ->]|[]]; auto].
    - set (l := x :: t). rewrite !in_app_iff. split.
      + intros [H|[H|H]].
        * apply in_map_iff in H as (fm & E & Hin). injection E as <-. right. apply in_map. exact Hin.
        * destruct (filter _ l); [destruct H|destruct H as [H|[]]; discriminate H].
        * destruct v6; [|destruct H]. destruct (filter _ (map fst l)); [destruct H|destruct H as [H|[]]; discriminate H].
      + intros [[H _]|H]; [discriminate H|]. left. apply in_map_iff in H as (fm & E & Hin).
        apply in_map_iff. exists fm. split; [rewrite E; reflexivity|exact Hin]. }
  assert (Hhead_other : forall c, In c head -> match c with CGR _ _ _ | CLLGR _ | CFourOctet _ | CExtMessage => False | _ => True end).
  { intros c H. subst head. destruct fams as [|x t].
    - destruct H as [<-|[]]. exact I.
    - set (l := x :: t) in *. rewrite !in_app_iff in H. destruct H as [H|[H|H]].
      + apply in_map_iff in H as (fm & <- & _). exact I.
      + destruct (filter _ l); [destruct H|destruct H as [<-|[]]; exact I].
      + destruct v6; [|destruct H]. destruct (filter _ (map fst l)); [destruct H|destruct H as [<-|[]]; exact I]. }
  split; [|split; [|split; [|split]]].
  - intro f. rewrite !in_app_iff. rewrite Hhead_mp. split; [|tauto].
    intros [H|[H|[H|H]]]; [exact H| | |].
    + subst grp. destruct gr; [destruct H as [H|[]]; discriminate H|destruct H].
    + subst llp. destruct llgr; [destruct H as [H|[]]; discriminate H|destruct H].
    + destruct H as [H|[H|[]]]; discriminate H.
  - rewrite !in_app_iff. right. right. right. left. reflexivity.
  - rewrite !in_app_iff. right. right. right. right. left. reflexivity.
  - intros fl t fs. rewrite !in_app_iff. split.
    + intros [H|[H|[H|H]]].
      * exact (match Hhead_other _ H with end).
      * subst grp. destruct gr as [g|]; [|destruct H]. destruct H as [H|[]]. injection H as <- <- <-. eauto.
      * subst llp. destruct llgr; [destruct H as [H|[]]; discriminate H|destruct H].
      * destruct H as [H|[H|[]]]; discriminate H.
    + intros (g & -> & -> & -> & ->). right. left. left. reflexivity.
  - intros v. rewrite !in_app_iff. split.
    + intros [H|[H|[H|H]]].
      * exact (match Hhead_other _ H with end).
      * subst grp. destruct gr; [destruct H as [H|[]]; discriminate H|destruct H].
      * subst llp. destruct llgr as [l|]; [|destruct H]. destruct H as [H|[]]. injection H as <-. eauto.
      * destruct H as [H|[H|[]]]; discriminate H.
    + intros (l & -> & ->). right. right. left. left. reflexivity.
Qed.

(* (18) Global.peer_group is a hash map: whether a connection is admitted does
   not depend on its iteration order ... *)
Definition with_groups (g : global) (l : list group) : global :=
  {| gl_asn := gl_asn g; gl_router_id := gl_router_id g; gl_confed := gl_confed g;
     gl_restarting := gl_restarting g; gl_peers := gl_peers g; gl_groups := l |}.

Lemma C16_admission_independent_of_group_order :
  forall (g : global) (l : list group) (a : ipaddr) (r : role),
    wf_global g -> addr_ok a -> (forall gr, In gr l <-> In gr (gl_groups g)) ->
    (accept_connection (with_groups g l) a r <> Reject <-> accept_connection g a r <> Reject).
Proof.
  intros g l a r Hwf Ha Hperm.
  assert (Hwf' : wf_global (with_groups g l)).
  { intros gr n Hin Hn. apply (Hwf gr n); [apply Hperm; exact Hin|exact Hn]. }
  rewrite (C16_accept_iff_permitted _ a r Hwf' Ha), (C16_accept_iff_permitted g a r Hwf Ha).
  unfold permitted, configured, in_dynamic_prefix. cbn [with_groups gl_peers gl_groups].
  split; (intros [H|[H1 (gr & n & H2 & H3)]]; [left; exact H|right; split; [exact H1|]; exists gr, n;
          split; [apply Hperm; exact H2|exact H3]]).
Qed.

(* ... but when prefixes of two groups overlap, which group's settings a
   dynamic neighbour inherits does (observation: the text does not say which
   group is "its" group; the code takes the first in hash order) *)
Definition ex_group2 : group :=
  {| g_as := 65001; g_prefixes := [Net4 [127; 0; 0; 0] 8]; g_rs_client := false; g_hold := Some 90;
     g_local_asn := 0; g_passive := true; g_rr := ex_rr; g_multihop := None; g_ttlsec := None;
     g_families := []; g_send_max := []; g_gr := None; g_llgr := None |}.

Lemma C16_overlapping_groups_order_dependent :
  exists (g : global) (a : ipaddr) (p1 p2 : peer) (g1 g2 : global) (s1 s2 : session),
    accept_connection g a RPassive = Accept g1 s1
    /\ accept_connection (with_groups g (rev (gl_groups g))) a RPassive = Accept g2 s2
    /\ lookup a (gl_peers g1) = Some p1 /\ lookup a (gl_peers g2) = Some p2
    /\ pe_hold p1 = 30 /\ pe_hold p2 = 90.
Proof.
  exists (with_groups ex_global [ex_group; ex_group2]), ex_addr.
  vm_compute. do 6 eexists. repeat split.
Qed.

(* Record of finding C16-5 (repaired): before the identity check, the end of
   PeerSession::run of a deleted neighbour's task treated whatever record it
   found at its address as its own; a dynamic neighbour admitted in between was
   removed although its connection was alive. *)
Definition stale_task_end_unchecked (g : global) (a : ipaddr) : global :=
  match lookup a (gl_peers g) with
  | Some p => if pe_delete p then set_peers g (remove a (gl_peers g)) else g
  | None => g
  end.

Lemma C16_stale_task_removes_live_dynamic_peer_refuted :
  exists (g g' : global) (a : ipaddr) (s : session) (p : peer),
    fst (step_op g (ODeleteReconnect a RPassive)) = g'
    /\ snd (step_op g (ODeleteReconnect a RPassive)) = Some (Some s)
    /\ lookup a (gl_peers g') = Some p /\ pe_conn_passive p = true
    /\ lookup a (gl_peers (stale_task_end_unchecked g' a)) = None.
Proof.
  exists (with_groups ex_global [ex_group2]).
  eexists _, ex_addr. vm_compute. do 2 eexists. repeat split; reflexivity.
Qed.

(* (21) UpdatePeer does not turn a dynamic neighbour into a permanent one (finding
   C16-6 repaired), nor the reverse; it does not touch the admin-down mark, and
   it leaves every other neighbour alone *)
Lemma C16_update_keeps_dynamic :
  forall (g : global) (a : ipaddr) (u : upd) (p : peer),
    keys_ok g -> lookup a (gl_peers g) = Some p ->
    (forall p', lookup a (gl_peers (update_peer g a u)) = Some p' ->
                pe_delete p' = pe_delete p /\ pe_admin_down p' = pe_admin_down p)
    /\ (forall b, b <> a -> lookup b (gl_peers (update_peer g a u)) = lookup b (gl_peers g)).
Proof.
  intros g a u p Hk Hl. unfold update_peer. rewrite Hl.
  destruct (negb _ || negb _).
  - split; [intros p' Hp'; rewrite Hl in Hp'; injection Hp' as <-; auto|reflexivity].
  - match goal with |- context [if ?b then set_peers g (remove _ _) else _] => destruct b end; cbn [set_peers gl_peers].
    + split; [|intros b Hb; apply lookup_remove_other; exact Hb].
      intros p' Hp'. rewrite lookup_remove_same in Hp' by exact Hk. discriminate Hp'.
    + split; [|intros b Hb; apply lookup_update_other; exact Hb].
      intros p' Hp'. rewrite lookup_update_same in Hp'. injection Hp' as <-. split; reflexivity.
Qed.

(* (22) a connection admitted while an earlier connection of the same neighbour
   is ending keeps its neighbour record, with its connection mark (finding
   C16-7 repaired) *)
Lemma C16_live_connection_keeps_record :
  forall (g : global) (a : ipaddr) (ro rn : role) (s : session),
    snd (step_op g (ODisconnectRace a ro rn)) = Some (Some s) ->
    exists p, lookup a (gl_peers (fst (step_op g (ODisconnectRace a ro rn)))) = Some p /\ conn_of p rn = true.
Proof.
  intros g a ro rn s. cbn [step_op].
  destruct (lookup a (gl_peers g)) as [p|]; [|intro H; discriminate H].
  destruct (conn_of p ro); [|intro H; discriminate H].
  destruct (accept_connection _ a rn) as [|g' s'] eqn:Ha; cbn [fst snd]; [intro H; discriminate H|].
  intros _. destruct (C16_session_fields_from_config _ g' a rn s' Ha) as (q & Hq & _ & Hc & _). eauto.
Qed.

(* record of finding C16-7: with the no-sessions test taken before the lock, the
   ending task removes the dynamic neighbour the new connection belongs to *)
Definition ex_g1 : global :=
  match accept_connection (with_groups ex_global [ex_group2]) ex_addr RPassive with
  | Accept g _ => g
  | Reject => ex_global
  end.

Lemma C16_stale_no_sessions_refuted :
  exists (g g' : global) (a : ipaddr) (s : session) (p : peer),
    fst (step_op g (ODisconnectRace a RPassive RPassive)) = g'
    /\ snd (step_op g (ODisconnectRace a RPassive RPassive)) = Some (Some s)
    /\ lookup a (gl_peers g') = Some p /\ pe_conn_passive p = true
    /\ lookup a (gl_peers (stale_task_end_unchecked g' a)) = None.
Proof.
  exists ex_g1, (fst (step_op ex_g1 (ODisconnectRace ex_addr RPassive RPassive))), ex_addr.
  vm_compute. do 2 eexists. repeat split; reflexivity.
Qed.

(* record of finding C16-6: update_peer used to write delete_on_disconnected = false *)
Definition clear_delete (p : peer) : peer :=
  {| pe_expected_asn := pe_expected_asn p; pe_local_asn := pe_local_asn p; pe_passive := pe_passive p;
     pe_delete := false; pe_hold := pe_hold p; pe_local_cap := pe_local_cap p;
     pe_rs_client := pe_rs_client p; pe_rr := pe_rr p; pe_router_id := pe_router_id p;
     pe_multihop := pe_multihop p; pe_ttlsec := pe_ttlsec p; pe_prefix_limits := pe_prefix_limits p;
     pe_send_max := pe_send_max p; pe_admin_down := pe_admin_down p;
     pe_conn_active := pe_conn_active p; pe_conn_passive := pe_conn_passive p |}.

Lemma C16_update_clearing_delete_refuted :
  exists (g1 : global) (a : ipaddr) (p : peer),
    lookup a (gl_peers g1) = Some p /\ pe_delete p = true /\ pe_conn_passive p = true /\ pe_conn_active p = false
    /\ lookup a (gl_peers (disconnect g1 a RPassive)) = None
    /\ lookup a (gl_peers (disconnect (set_peers g1 (update a (clear_delete p) (gl_peers g1))) a RPassive)) <> None.
Proof.
  exists ex_g1, ex_addr. vm_compute. eexists. repeat split; discriminate.
Qed.

(* (25) UpdatePeer gives the neighbour the local AS a neighbour configured that
   way gets from add_peer, confederation identifier included (finding C16-8
   repaired) *)
Lemma C16_update_local_asn_as_configured :
  forall (g : global) (a : ipaddr) (u : upd) (p p' : peer) (pa : params),
    keys_ok g ->
    lookup a (gl_peers g) = Some p -> lookup a (gl_peers (update_peer g a u)) = Some p' ->
    u_rs_client u = pe_rs_client p -> u_rr_client u = rr_client (pe_rr p) ->
    pa_expected_asn pa = u_asn u -> pa_local_asn pa = u_local_asn u ->
    pe_local_asn p' = pe_local_asn (build_peer g a pa) /\ pe_expected_asn p' = u_asn u.
Proof.
  intros g a u p p' pa Hk Hl Hl' Hrs Hrr He Hla. unfold update_peer in Hl'. rewrite Hl in Hl'.
  rewrite Hrs, Hrr, !eqb_reflx in Hl'. cbn [negb orb] in Hl'.
  match type of Hl' with context [if ?b then set_peers g (remove _ _) else _] => destruct b end;
    cbn [set_peers gl_peers] in Hl'.
  - rewrite lookup_remove_same in Hl' by exact Hk. discriminate Hl'.
  - rewrite lookup_update_same in Hl'. injection Hl' as <-. cbn [pe_local_asn pe_expected_asn build_peer].
    rewrite He, Hla. split; reflexivity.
Qed.
