(* C17  EVPN routes: round trip through the API form and invariant preservation. *)
From Coq Require Import List ZArith NArith Bool Lia ZifyBool ZifyNat ZifyN.
From RB Require Import Base.Val Model.Api Spec.ApiSpec Proofs.ApiBytes Proofs.ApiStr Proofs.ApiRt Proofs.ApiNlri.
Import ListNotations.
Open Scope N_scope.

Local Ltac Zify.zify_post_hook ::= Z.div_mod_to_equations.
Arguments ip4_to_string : simpl never.
Arguments ip4_of_string : simpl never.

(* MAC address text *)
Lemma parse_hex2 : forall b, b < 256 -> parse_hex_u8 (hex2 b) = Some b.
Proof.
  assert (H : forallb (fun b => match parse_hex_u8 (hex2 b) with Some v => v =? b | None => false end) octets = true)
    by (vm_compute; reflexivity).
  intros b Hb. rewrite forallb_forall in H. specialize (H b (in_octets b Hb)).
  destruct (parse_hex_u8 (hex2 b)) as [v|]; [|discriminate]. apply N.eqb_eq in H. subst. reflexivity.
Qed.

Lemma hex2_nocolon : forall b, b < 256 -> Forall (fun c => c <> COLON) (hex2 b).
Proof.
  assert (H : forallb (fun b => forallb (fun c => negb (c =? COLON)) (hex2 b)) octets = true)
    by (vm_compute; reflexivity).
  intros b Hb. rewrite forallb_forall in H. specialize (H b (in_octets b Hb)).
  rewrite forallb_forall in H. apply Forall_forall. intros c Hc. specialize (H c Hc).
  destruct (N.eqb_spec c COLON); [discriminate|assumption].
Qed.

Lemma mac_roundtrip : forall m, length m = 6%nat -> bytes_ok m -> parse_mac (join_mac m) = Some m.
Proof.
  intros m Hl Hok. destruct m as [|b0 [|b1 [|b2 [|b3 [|b4 [|b5 [|? ?]]]]]]]; try discriminate.
  unfold bytes_ok in Hok.
  repeat match goal with H : Forall _ (_ :: _) |- _ => inversion H; clear H; subst end.
  unfold parse_mac. cbn [join_mac].
  rewrite !split_on_app by (apply hex2_nocolon; assumption).
  rewrite split_on_nosep by (apply hex2_nocolon; assumption).
  cbn [length Nat.eqb parse_mac_parts]. rewrite !parse_hex2 by assumption. reflexivity.
Qed.

Lemma hex_u8_le : forall l acc v, acc <= 255 -> hex_u8 l acc = Some v -> v <= 255.
Proof.
  induction l as [|c l IH]; intros acc v Ha H; cbn [hex_u8] in H.
  - injection H as <-. exact Ha.
  - destruct (hexval c) as [d|]; [|discriminate].
    destruct (N.ltb_spec 255 (acc * 16 + d)); [discriminate|]. eapply IH; [|exact H]. lia.
Qed.

Lemma parse_mac_parts_wf : forall ps m, parse_mac_parts ps = Some m -> length m = length ps /\ bytes_ok m.
Proof.
  induction ps as [|p ps IH]; intros m H; cbn [parse_mac_parts] in H.
  - injection H as <-. split; [reflexivity|constructor].
  - destruct (parse_hex_u8 p) as [b|] eqn:Eb; [|discriminate].
    destruct (parse_mac_parts ps) as [bs|]; [|discriminate]. injection H as <-.
    destruct (IH bs eq_refl) as [Hl Hok]. split; [cbn [length]; rewrite Hl; reflexivity|].
    constructor; [|exact Hok]. unfold parse_hex_u8 in Eb.
    destruct (match p with 43 :: r => r | _ => p end); [discriminate|].
    apply hex_u8_le in Eb; lia.
Qed.

Lemma parse_mac_wf : forall s m, parse_mac s = Some m -> length m = 6%nat /\ bytes_ok m.
Proof.
  intros s m H. unfold parse_mac in H.
  destruct (Nat.eqb_spec (length (split_on COLON s)) 6) as [E|]; [|discriminate].
  destruct (parse_mac_parts_wf _ _ H) as [Hl Hok]. split; [rewrite Hl; exact E|exact Hok].
Qed.

Lemma ip4_to_string_nonempty : forall a, ip4_to_string a <> [].
Proof.
  intros a. unfold ip4_to_string, dec_octet.
  destruct (_ <? 10); [discriminate|]. destruct (_ <? 100); discriminate.
Qed.

Section EvpnProofs.
  Variable v6p : N -> list N.
  Variable v6r : list N -> option N.

  (* assumed of the Ipv6Addr textual form in addition to v6_contract: a printed address is
     not the empty string (an empty ip_address / gw_address field means "absent") *)
  Definition v6_nonempty : Prop := forall a, a < 2 ^ 128 -> v6p a <> [].

  Lemma ip_roundtrip : forall i, v6_contract v6p v6r -> wf_ip i ->
    ip_of_string v6r (ip_to_string v6p i) = Some i.
  Proof.
    intros [a|a] [Hrt Hn4] Hw; cbn [wf_ip ip_to_string] in *; unfold ip_of_string.
    - rewrite ip4_roundtrip by exact Hw. reflexivity.
    - rewrite Hn4, Hrt by exact Hw. reflexivity.
  Qed.

  Lemma ip_nonempty : forall i, v6_nonempty -> wf_ip i -> ip_to_string v6p i <> [].
  Proof.
    intros [a|a] Hne Hw; cbn [ip_to_string wf_ip] in *; [apply ip4_to_string_nonempty|apply Hne; exact Hw].
  Qed.

  Lemma esi_roundtrip : forall e, wf_esi e -> esi_from_api (esi_to_api e) = Some e.
  Proof.
    intros e [Hl Hok]. destruct e as [|t v]; [discriminate|]. cbn [esi_to_api esi_from_api].
    inversion Hok as [|? ? Ht _]; subst. cbn [length] in Hl.
    destruct (Nat.eqb_spec (length v) 9); [|lia]. destruct (N.ltb_spec t 256); [|lia]. reflexivity.
  Qed.

  Lemma label_ok_true : forall l, wf_label24 l -> label_ok l = true.
  Proof. intros l H. unfold label_ok, wf_label24 in *. lia. Qed.

  Theorem evpn_roundtrip : forall e, v6_contract v6p v6r -> v6_nonempty -> wf_evpn e ->
    evpn_from_api v6r (evpn_to_api v6p e) = Some e.
  Proof.
    intros e Hc Hne Hwf. destruct e as [d esi etag label|d esi etag mac ip l1 l2|d etag ip|d esi ip|d esi etag pfx plen gw label];
      cbn [wf_evpn] in Hwf; cbn [evpn_to_api evpn_from_api].
    - destruct Hwf as [Hd [He [_ Hl]]]. rewrite rd_roundtrip, esi_roundtrip, label_ok_true by assumption. reflexivity.
    - destruct Hwf as [Hd [He [_ [[Hml Hmo] [Hip [H1 H2]]]]]].
      rewrite rd_roundtrip, esi_roundtrip, mac_roundtrip by assumption.
      assert (Hipo : match match ip with Some i => ip_to_string v6p i | None => [] end with
                     | [] => Some None
                     | _ => match ip_of_string v6r match ip with Some i => ip_to_string v6p i | None => [] end with
                            | Some i => Some (Some i) | None => None end
                     end = Some ip).
      { destruct ip as [i|]; [|reflexivity]. pose proof (ip_nonempty i Hne Hip) as Hn.
        rewrite ip_roundtrip by assumption. destruct (ip_to_string v6p i); [contradiction|reflexivity]. }
      rewrite Hipo. destruct l2 as [l2|]; cbn [app]; rewrite ?label_ok_true by assumption; reflexivity.
    - destruct Hwf as [Hd [_ Hip]]. rewrite rd_roundtrip, ip_roundtrip by assumption. reflexivity.
    - destruct Hwf as [Hd [He Hip]]. rewrite rd_roundtrip, esi_roundtrip, ip_roundtrip by assumption. reflexivity.
    - destruct Hwf as [Hd [He [_ [Hp [Hg [Hf [Hpl Hl]]]]]]].
      rewrite rd_roundtrip, esi_roundtrip, ip_roundtrip by assumption.
      destruct (N.ltb_spec (ip_width pfx) plen); [lia|].
      pose proof (ip_nonempty gw Hne Hg) as Hn. rewrite (ip_roundtrip gw) by assumption.
      destruct (ip_to_string v6p gw); [contradiction|]. rewrite Hf, label_ok_true by assumption. reflexivity.
  Qed.

  Lemma ip_of_string_wf : forall s i, v6_range v6r -> ip_of_string v6r s = Some i -> wf_ip i.
  Proof.
    intros s i Hrg H. unfold ip_of_string in H. destruct (ip4_of_string s) as [a|] eqn:E4.
    - injection H as <-. eapply ip4_of_string_lt; eassumption.
    - destruct (v6r s) as [a|] eqn:E6; [|discriminate]. injection H as <-. eapply Hrg; eassumption.
  Qed.

  Lemma esi_from_api_wf : forall x e, api_esi_in_range x -> esi_from_api x = Some e -> wf_esi e.
  Proof.
    intros [[t v]|] e Hr H; cbn [esi_from_api api_esi_in_range] in *; [|discriminate].
    destruct (Nat.eqb_spec (length v) 9) as [El|]; [|discriminate].
    destruct (N.ltb_spec t 256); [|discriminate]. injection H as <-.
    split; [cbn [length]; rewrite El; reflexivity|constructor; [assumption|tauto]].
  Qed.

  Lemma label_ok_wf : forall l, label_ok l = true -> wf_label24 l.
  Proof. intros l H. unfold label_ok, wf_label24 in *. lia. Qed.

  Theorem evpn_from_api_wf : forall x e, v6_range v6r -> api_evpn_in_range x ->
    evpn_from_api v6r x = Some e -> wf_evpn e.
  Proof.
    intros x e Hrg Hin H.
    destruct x as [d esi etag label|d esi etag mac ip labels|d etag ip|d esi ip|d esi etag pfx plen gw label];
      cbn [evpn_from_api api_evpn_in_range] in *.
    - destruct Hin as [Hd [He Ht]].
      destruct (rd_from_api d) as [d'|] eqn:Ed; [|discriminate]. destruct (esi_from_api esi) as [e'|] eqn:Ee; [|discriminate].
      destruct (label_ok label) eqn:El; [|discriminate]. injection H as <-.
      repeat split; try assumption; [eapply rd_from_api_wf|eapply esi_from_api_wf|eapply esi_from_api_wf|apply label_ok_wf]; eassumption.
    - destruct Hin as [Hd [He Ht]].
      destruct (rd_from_api d) as [d'|] eqn:Ed; [|discriminate]. destruct (esi_from_api esi) as [e'|] eqn:Ee; [|discriminate].
      destruct (parse_mac mac) as [m|] eqn:Em; [|discriminate].
      pose proof (rd_from_api_wf d d' Hd Ed) as Hwd. pose proof (esi_from_api_wf esi e' He Ee) as Hwe.
      pose proof (parse_mac_wf mac m Em) as Hwm. destruct Hwe as [Hwe1 Hwe2]. destruct Hwm as [Hwm1 Hwm2].
      assert (Hipw : forall io, match ip with [] => Some None
                                 | _ => match ip_of_string v6r ip with Some i => Some (Some i) | None => None end end = Some io ->
                                 match io with Some i => wf_ip i | None => True end).
      { intros io Hio. destruct ip as [|c r]; [injection Hio as <-; exact I|].
        destruct (ip_of_string v6r (c :: r)) as [i|] eqn:Ei; [|discriminate]. injection Hio as <-.
        eapply ip_of_string_wf; eassumption. }
      destruct (match ip with [] => Some None | _ => _ end) as [io|]; [|discriminate].
      specialize (Hipw io eq_refl).
      destruct labels as [|l1 [|l2 [|? ?]]]; try discriminate.
      + destruct (label_ok l1) eqn:E1; [|discriminate]. injection H as <-.
        cbn [wf_evpn]. repeat split; try assumption; try (apply label_ok_wf; assumption).
      + destruct (label_ok l1) eqn:E1; [|discriminate]. destruct (label_ok l2) eqn:E2; [|discriminate].
        cbn [andb] in H. injection H as <-.
        cbn [wf_evpn]. repeat split; try assumption; try (apply label_ok_wf; assumption).
    - destruct Hin as [Hd Ht].
      destruct (rd_from_api d) as [d'|] eqn:Ed; [|discriminate]. destruct (ip_of_string v6r ip) as [i|] eqn:Ei; [|discriminate].
      injection H as <-. repeat split; [eapply rd_from_api_wf; eassumption|exact Ht|eapply ip_of_string_wf; eassumption].
    - destruct Hin as [Hd He].
      destruct (rd_from_api d) as [d'|] eqn:Ed; [|discriminate]. destruct (esi_from_api esi) as [e'|] eqn:Ee; [|discriminate].
      destruct (ip_of_string v6r ip) as [i|] eqn:Ei; [|discriminate]. injection H as <-.
      pose proof (esi_from_api_wf esi e' He Ee) as [? ?].
      repeat split; try assumption; [eapply rd_from_api_wf; eassumption|eapply ip_of_string_wf; eassumption].
    - destruct Hin as [Hd [He Ht]].
      destruct (rd_from_api d) as [d'|] eqn:Ed; [|discriminate]. destruct (esi_from_api esi) as [e'|] eqn:Ee; [|discriminate].
      destruct (ip_of_string v6r pfx) as [p|] eqn:Ep; [|discriminate].
      destruct (N.ltb_spec (ip_width p) plen); [discriminate|].
      pose proof (ip_of_string_wf pfx p Hrg Ep) as Hwp.
      assert (Hgw : forall g, match gw with [] => Some match p with IP4 _ => IP4 0 | IP6 _ => IP6 0 end
                              | _ => ip_of_string v6r gw end = Some g -> wf_ip g).
      { intros g Hg. destruct gw as [|c r]; [|eapply ip_of_string_wf; eassumption].
        injection Hg as <-. destruct p; cbn; lia. }
      destruct (match gw with [] => _ | _ => _ end) as [g|]; [|discriminate]. specialize (Hgw g eq_refl).
      destruct (same_family p g) eqn:Ef; [|discriminate]. destruct (label_ok label) eqn:El; [|discriminate].
      cbn [andb] in H. injection H as <-. pose proof (esi_from_api_wf esi e' He Ee) as [? ?].
      cbn [wf_evpn]. repeat split; try assumption; [eapply rd_from_api_wf; eassumption|apply label_ok_wf; exact El].
  Qed.
End EvpnProofs.
