(* Lemmas and final statements for property C09 (names C09_<theorem>). *)
From Coq Require Import List NArith ZArith Bool Lia ZifyBool ZifyNat ZifyN Arith PeanoNat.
From RB Require Import Base.Val Model.Export Spec.ExportSpec.
Import ListNotations.
Open Scope N_scope.

(* ================================================================ small facts *)
Lemma role_eqb_eq : forall a b, role_eqb a b = true <-> a = b.
Proof. intros a b; destruct a, b; cbv; split; intro H; try reflexivity; discriminate. Qed.

Lemma role_eqb_neq : forall a b, role_eqb a b = false <-> a <> b.
Proof.
  intros a b. split.
  - intros H E. apply role_eqb_eq in E. congruence.
  - intro H. destruct (role_eqb a b) eqn:E; [apply role_eqb_eq in E; contradiction | reflexivity].
Qed.

Lemma bytes_eqb_eq : forall a b, bytes_eqb a b = true <-> a = b.
Proof.
  induction a as [|x a IH]; destruct b as [|y b]; cbn [bytes_eqb]; split; intro H;
    try reflexivity; try discriminate.
  - apply andb_true_iff in H. destruct H as [H1 H2]. apply N.eqb_eq in H1. apply IH in H2. congruence.
  - inversion H; subst. apply andb_true_iff. split; [apply N.eqb_refl | apply IH; reflexivity].
Qed.

Lemma ip_eqb_eq : forall a b, ip_eqb a b = true <-> a = b.
Proof.
  intros [x|x] [y|y]; cbn [ip_eqb]; split; intro H; try discriminate.
  - apply bytes_eqb_eq in H. congruence.
  - inversion H. apply bytes_eqb_eq. reflexivity.
  - apply bytes_eqb_eq in H. congruence.
  - inversion H. apply bytes_eqb_eq. reflexivity.
Qed.

Lemma be32_length : forall v, length (be32 v) = 4%nat.
Proof. reflexivity. Qed.

Lemma flat_map_be32_length : forall l, length (flat_map be32 l) = (4 * length l)%nat.
Proof.
  induction l as [|a l IH]; [reflexivity|].
  cbn [flat_map]. rewrite app_length, be32_length, IH. cbn [length]. lia.
Qed.

Lemma rd32_be32 : forall v, v < 4294967296 ->
  rd32 ((v / 16777216) mod 256) ((v / 65536) mod 256) ((v / 256) mod 256) (v mod 256) = v.
Proof.
  intros v Hv. unfold rd32.
  assert (H1 : v = 256 * (v / 256) + v mod 256) by (apply N.div_mod; lia).
  assert (H2 : v / 256 = 256 * (v / 256 / 256) + (v / 256) mod 256) by (apply N.div_mod; lia).
  assert (H3 : v / 256 / 256 = 256 * (v / 256 / 256 / 256) + (v / 256 / 256) mod 256) by (apply N.div_mod; lia).
  rewrite N.div_div in H2, H3 by lia. rewrite N.div_div in H3 by lia.
  change (256 * 256) with 65536 in *. change (65536 * 256) with 16777216 in *.
  assert (H4 : v / 16777216 < 256) by (apply N.div_lt_upper_bound; lia).
  rewrite (N.mod_small (v / 16777216) 256) by exact H4.
  lia.
Qed.

Lemma skipn_app_exact : forall A (l1 l2 : list A) n, length l1 = n -> skipn n (l1 ++ l2) = l2.
Proof.
  intros A l1 l2 n H. subst n. rewrite skipn_app, skipn_all, Nat.sub_diag. reflexivity.
Qed.

Lemma firstn_app_exact : forall A (l1 l2 : list A) n, length l1 = n -> firstn n (l1 ++ l2) = l1.
Proof.
  intros A l1 l2 n H. subst n. rewrite firstn_app, firstn_all, Nat.sub_diag. cbn [firstn]. apply app_nil_r.
Qed.

(* ================================================================ AS_PATH edits (packet/src/bgp.rs) *)
Lemma encode_path_cons : forall t asns rest,
  encode_path ((t, asns) :: rest) = t :: N.of_nat (length asns) :: flat_map be32 asns ++ encode_path rest.
Proof. reflexivity. Qed.

Lemma wf_seg_single : forall ty asn, 1 <= ty <= 4 -> asn < 4294967296 -> wf_seg (ty, [asn]).
Proof.
  intros ty asn Hty Ha. unfold wf_seg. cbn [fst snd length]. repeat split; try lia.
  constructor; [exact Ha | constructor].
Qed.

(* as_path_prepend / as_path_prepend_confed on a well-formed path: the AS is
   put in front exactly once, inside a segment of the requested type, the rest
   of the path (ASes and the kinds of their segments) is unchanged, and the
   255-entry limit of a segment is respected. *)
Lemma prepend_spec : forall ty asn p,
  wf_path p -> 1 <= ty <= 4 -> asn < 4294967296 ->
  exists asns rest,
    path_prepend_b ty asn (encode_path p) = Ok (encode_path ((ty, asn :: asns) :: rest))
    /\ wf_path ((ty, asn :: asns) :: rest)
    /\ tflat ((ty, asn :: asns) :: rest) = (ty, asn) :: tflat p.
Proof.
  intros ty asn p Hwf Hty Ha.
  assert (Hnew : forall q, wf_path q ->
            [ty; 1] ++ be32 asn ++ encode_path q = encode_path ((ty, [asn]) :: q)
            /\ wf_path ((ty, [asn]) :: q)
            /\ tflat ((ty, [asn]) :: q) = (ty, asn) :: tflat q).
  { intros q Hq. split; [|split].
    - rewrite encode_path_cons. cbn [length flat_map]. rewrite app_nil_r. reflexivity.
    - constructor; [apply wf_seg_single; assumption | exact Hq].
    - reflexivity. }
  destruct p as [|[t asns] rest].
  - exists [], []. cbn [encode_path flat_map path_prepend_b].
    destruct (Hnew [] (Forall_nil _)) as (E & W & F).
    cbn [encode_path flat_map] in E. rewrite app_nil_r in E. rewrite E. auto.
  - rewrite encode_path_cons. cbn [path_prepend_b].
    destruct (t =? ty) eqn:Et.
    + apply N.eqb_eq in Et. subst t.
      destruct (N.of_nat (length asns) <? 255) eqn:Elt.
      * exists asns, rest. split; [|split].
        -- rewrite encode_path_cons. cbn [length flat_map]. rewrite <- app_assoc.
           replace (N.of_nat (S (length asns))) with (N.of_nat (length asns) + 1) by lia. reflexivity.
        -- inversion Hwf as [|s l Hs Hl]; subst. constructor; [|exact Hl].
           destruct Hs as (H1 & H2 & H3). cbn [fst snd] in *. unfold wf_seg. cbn [fst snd length].
           repeat split; try lia. constructor; assumption.
        -- reflexivity.
      * exists [], ((ty, asns) :: rest).
        destruct (Hnew ((ty, asns) :: rest) Hwf) as (E & W & F).
        rewrite encode_path_cons in E. rewrite E. auto.
    + exists [], ((t, asns) :: rest).
      destruct (Hnew ((t, asns) :: rest) Hwf) as (E & W & F).
      rewrite encode_path_cons in E. rewrite E. auto.
Qed.

(* a full head segment (255 ASes) of the same type is never extended: a new
   one-element segment is created in front of it *)
Lemma prepend_full_segment : forall ty asn asns rest,
  length asns = 255%nat ->
  path_prepend_b ty asn (encode_path ((ty, asns) :: rest))
  = Ok (encode_path ((ty, [asn]) :: (ty, asns) :: rest)).
Proof.
  intros ty asn asns rest Hl. rewrite encode_path_cons. cbn [path_prepend_b].
  rewrite N.eqb_refl, Hl. cbn [N.of_nat N.ltb N.compare Pos.compare Pos.compare_cont Pos.of_succ_nat].
  change (N.of_nat 255 <? 255) with false. cbn iota.
  rewrite (encode_path_cons ty [asn]). cbn [length flat_map]. rewrite app_nil_r.
  rewrite encode_path_cons, Hl. reflexivity.
Qed.

Lemma encode_path_segments : forall p, (length p <= length (encode_path p))%nat.
Proof.
  induction p as [|[t a] p IH]; [cbn; lia|].
  rewrite encode_path_cons. cbn [length]. rewrite app_length. lia.
Qed.

Lemma is_confed_seg_spec : forall t a, is_confed_seg t = confed_seg (t, a).
Proof. reflexivity. Qed.

Lemma strip_confed_spec_cons : forall (s : seg) (rest : list seg),
  strip_confed_spec (s :: rest)
  = if confed_seg s then strip_confed_spec rest else s :: strip_confed_spec rest.
Proof. intros s rest. unfold strip_confed_spec. cbn [filter]. destruct (confed_seg s); reflexivity. Qed.

Lemma strip_confed_fuel_spec : forall p f,
  wf_path p -> (length p <= f)%nat ->
  strip_confed_fuel f (encode_path p) = Ok (encode_path (strip_confed_spec p)).
Proof.
  induction p as [|[t asns] rest IH]; intros f Hwf Hf.
  - destruct f; reflexivity.
  - destruct f as [|f]; [cbn [length] in Hf; lia|].
    inversion Hwf as [|s l Hs Hl]; subst.
    rewrite encode_path_cons. cbn [strip_confed_fuel].
    rewrite Nat2N.id.
    assert (Hlen : length (flat_map be32 asns) = (4 * length asns)%nat) by apply flat_map_be32_length.
    rewrite (skipn_app_exact _ _ _ _ Hlen).
    rewrite (IH f Hl) by (cbn [length] in Hf; lia).
    rewrite strip_confed_spec_cons. rewrite (is_confed_seg_spec t asns).
    destruct (confed_seg (t, asns)).
    + reflexivity.
    + assert (Hn : Nat.ltb (length (flat_map be32 asns ++ encode_path rest)) (4 * length asns) = false).
      { apply Nat.ltb_ge. rewrite app_length. lia. }
      rewrite Hn. cbn [rbind]. rewrite (firstn_app_exact _ _ _ _ Hlen).
      rewrite encode_path_cons. reflexivity.
Qed.

(* as_path_strip_confed on a well-formed path removes exactly the
   AS_CONFED_SEQUENCE / AS_CONFED_SET segments, and never panics *)
Lemma strip_spec : forall p, wf_path p ->
  path_strip_confed_b (encode_path p) = Ok (encode_path (strip_confed_spec p)).
Proof.
  intros p Hwf. unfold path_strip_confed_b. apply strip_confed_fuel_spec; [exact Hwf|].
  pose proof (encode_path_segments p). lia.
Qed.

Lemma strip_confed_spec_wf : forall p, wf_path p -> wf_path (strip_confed_spec p).
Proof.
  intros p H. unfold strip_confed_spec, wf_path in *. apply Forall_forall. intros s Hs.
  apply filter_In in Hs. rewrite Forall_forall in H. apply H. tauto.
Qed.

(* counting occurrences *)
Fixpoint cnt (asn : N) (l : list N) : N :=
  match l with [] => 0 | a :: t => (if a =? asn then 1 else 0) + cnt asn t end.

Lemma cnt_pos_In : forall asn l, 0 < cnt asn l <-> In asn l.
Proof.
  induction l as [|a l IH]; cbn [cnt In]; [split; [lia | tauto]|].
  destruct (a =? asn) eqn:E.
  - apply N.eqb_eq in E. split; [intros _; left; exact E | lia].
  - apply N.eqb_neq in E. rewrite N.add_0_l. rewrite IH. split; [tauto | intros [H|H]; [contradiction | exact H]].
Qed.

Lemma cnt_app : forall asn l1 l2, cnt asn (l1 ++ l2) = cnt asn l1 + cnt asn l2.
Proof. induction l1 as [|a l1 IH]; intros l2; cbn [cnt app]; [reflexivity | rewrite IH; lia]. Qed.

Lemma count_u32_spec : forall asn asns r,
  Forall (fun a => a < 4294967296) asns ->
  count_u32 (length asns) asn (flat_map be32 asns ++ r) = Some (cnt asn asns, r).
Proof.
  induction asns as [|a asns IH]; intros r Hall; [reflexivity|].
  inversion Hall as [|? ? Ha Hrest]; subst.
  cbn [length flat_map be32 app count_u32]. rewrite (IH r Hrest).
  rewrite (rd32_be32 a Ha). reflexivity.
Qed.

Lemma path_count_fuel_spec : forall asn p f,
  wf_path p -> (length p <= f)%nat ->
  path_count_fuel f asn (encode_path p) = Some (cnt asn (flat p)).
Proof.
  induction p as [|[t asns] rest IH]; intros f Hwf Hf.
  - destruct f; reflexivity.
  - destruct f as [|f]; [cbn [length] in Hf; lia|].
    inversion Hwf as [|s l Hs Hl]; subst. destruct Hs as (_ & _ & Hall). cbn [snd] in Hall.
    rewrite encode_path_cons. cbn [path_count_fuel]. rewrite Nat2N.id.
    rewrite (count_u32_spec asn asns _ Hall).
    rewrite (IH f Hl) by (cbn [length] in Hf; lia).
    unfold flat. cbn [flat_map snd]. rewrite cnt_app. reflexivity.
Qed.

(* as_path_count(asn) > 0 exactly when the AS occurs in the path *)
Lemma path_count_spec : forall asn p, wf_path p ->
  exists n, path_count_b asn (encode_path p) = Some n /\ (0 < n <-> In asn (flat p)).
Proof.
  intros asn p Hwf. exists (cnt asn (flat p)). split; [|apply cnt_pos_In].
  unfold path_count_b. apply path_count_fuel_spec; [exact Hwf|].
  pose proof (encode_path_segments p). lia.
Qed.

(* ================================================================ attribute lists *)
Lemma find_code_Some : forall c l a, find_code c l = Some a -> In a l /\ a_code a = c.
Proof.
  intros c l a H. unfold find_code in H. apply find_some in H. destruct H as [H1 H2].
  apply N.eqb_eq in H2. auto.
Qed.

Lemma has_code_true : forall c l, has_code c l = true <-> exists a, In a l /\ a_code a = c.
Proof.
  intros c l. unfold has_code. rewrite existsb_exists. split; intros [a [H1 H2]]; exists a; split; auto.
  - apply N.eqb_eq. exact H2.
  - apply N.eqb_eq in H2. exact H2.
Qed.

Lemma has_code_false : forall c l, has_code c l = false <-> forall a, In a l -> a_code a <> c.
Proof.
  intros c l. split.
  - intros H a Ha Hc. assert (has_code c l = true) by (apply has_code_true; eauto). congruence.
  - intro H. destruct (has_code c l) eqn:E; [|reflexivity].
    apply has_code_true in E. destruct E as [a [H1 H2]]. exfalso. exact (H a H1 H2).
Qed.

Lemma find_code_None : forall c l, find_code c l = None <-> has_code c l = false.
Proof.
  intros c l. rewrite has_code_false. unfold find_code. split.
  - intros H a Ha Hc. apply (find_none _ _ H) in Ha. apply N.eqb_neq in Ha. contradiction.
  - intro H. destruct (find (fun a => a_code a =? c) l) eqn:E; [|reflexivity].
    apply find_some in E. destruct E as [E1 E2]. apply N.eqb_eq in E2. exfalso. exact (H a E1 E2).
Qed.

Lemma has_code_find : forall c l, has_code c l = true <-> exists a, find_code c l = Some a.
Proof.
  intros c l. split.
  - intro H. destruct (find_code c l) eqn:E; [eauto|]. apply find_code_None in E. congruence.
  - intros [a H]. destruct (has_code c l) eqn:E; [reflexivity|]. apply find_code_None in E. congruence.
Qed.

Lemma find_code_cons : forall c a l,
  find_code c (a :: l) = if a_code a =? c then Some a else find_code c l.
Proof. reflexivity. Qed.

Lemma find_code_app : forall c l1 l2,
  find_code c (l1 ++ l2) = match find_code c l1 with Some a => Some a | None => find_code c l2 end.
Proof.
  induction l1 as [|a l1 IH]; intro l2; [reflexivity|].
  cbn [app]. rewrite !find_code_cons. destruct (a_code a =? c); [reflexivity | apply IH].
Qed.

Lemma has_code_app : forall c l1 l2, has_code c (l1 ++ l2) = has_code c l1 || has_code c l2.
Proof. intros. unfold has_code. apply existsb_app. Qed.

Lemma find_code_filter : forall c (f : attr -> bool) l,
  (forall a, a_code a = c -> f a = true) -> find_code c (filter f l) = find_code c l.
Proof.
  intros c f l Hf. induction l as [|a l IH]; [reflexivity|].
  cbn [filter]. rewrite find_code_cons. destruct (a_code a =? c) eqn:E.
  - apply N.eqb_eq in E. rewrite (Hf a E). rewrite find_code_cons. apply N.eqb_eq in E. rewrite E. reflexivity.
  - destruct (f a); [rewrite find_code_cons, E|]; exact IH.
Qed.

Lemma has_code_filter_out : forall c l, has_code c (filter (fun a => negb (a_code a =? c)) l) = false.
Proof.
  intros c l. apply has_code_false. intros a Ha Hc. apply filter_In in Ha. destruct Ha as [_ Ha].
  apply N.eqb_eq in Hc. rewrite Hc in Ha. discriminate.
Qed.

Lemma has_code_filter_sub : forall c f l, has_code c (filter f l) = true -> has_code c l = true.
Proof.
  intros c f l H. apply has_code_true in H. destruct H as [a [H1 H2]]. apply filter_In in H1.
  apply has_code_true. exists a. tauto.
Qed.

Lemma find_code_map : forall c (f : attr -> attr) l,
  (forall a, a_code (f a) = a_code a) ->
  find_code c (map f l) = option_map f (find_code c l).
Proof.
  intros c f l Hc. induction l as [|a l IH]; [reflexivity|].
  cbn [map]. rewrite !find_code_cons, Hc. destruct (a_code a =? c); [reflexivity | exact IH].
Qed.

Lemma find_code_insert_other : forall c k x l,
  a_code x <> c -> find_code c (insert_before_ge k x l) = find_code c l.
Proof.
  intros c k x l Hx. induction l as [|a l IH].
  - cbn [insert_before_ge]. rewrite find_code_cons. apply N.eqb_neq in Hx. rewrite Hx. reflexivity.
  - cbn [insert_before_ge]. destruct (a_code a <? k).
    + rewrite !find_code_cons. rewrite IH. reflexivity.
    + rewrite find_code_cons. apply N.eqb_neq in Hx. rewrite Hx. reflexivity.
Qed.

Lemma In_insert_before_ge : forall k x l a, In a (insert_before_ge k x l) <-> a = x \/ In a l.
Proof.
  intros k x l a. induction l as [|b l IH]; cbn [insert_before_ge].
  - cbn [In]. intuition.
  - destruct (a_code b <? k); cbn [In]; [rewrite IH|]; intuition.
Qed.

(* rmap *)
Lemma rmap_Forall2 : forall A B (f : A -> res B) l l',
  rmap f l = Ok l' -> Forall2 (fun a b => f a = Ok b) l l'.
Proof.
  intros A B f. induction l as [|a l IH]; intros l' H.
  - cbn in H. inversion H. constructor.
  - cbn [rmap] in H. destruct (f a) as [b|] eqn:Ea; [|discriminate]. cbn [rbind] in H.
    destruct (rmap f l) as [t|] eqn:Et; [|discriminate]. cbn [rbind] in H. inversion H; subst.
    constructor; [exact Ea | apply IH; reflexivity].
Qed.

Lemma Forall2_find_code : forall (f : attr -> res attr) c l l',
  (forall a b, f a = Ok b -> a_code b = a_code a) ->
  Forall2 (fun a b => f a = Ok b) l l' ->
  match find_code c l with
  | Some a => exists b, find_code c l' = Some b /\ f a = Ok b
  | None => find_code c l' = None
  end.
Proof.
  intros f c l l' Hc H. induction H as [|a b l l' Hab _ IH]; [reflexivity|].
  rewrite !find_code_cons. rewrite (Hc a b Hab). destruct (a_code a =? c); [eauto | exact IH].
Qed.

Lemma Forall2_has_code : forall (f : attr -> res attr) c l l',
  (forall a b, f a = Ok b -> a_code b = a_code a) ->
  Forall2 (fun a b => f a = Ok b) l l' -> has_code c l' = has_code c l.
Proof.
  intros f c l l' Hc H. induction H as [|a b l l' Hab _ IH]; [reflexivity|].
  unfold has_code in *. cbn [existsb]. rewrite (Hc a b Hab), IH. reflexivity.
Qed.

Lemma Forall2_In_r : forall A B (R : A -> B -> Prop) l l' b,
  Forall2 R l l' -> In b l' -> exists a, In a l /\ R a b.
Proof.
  intros A B R l l' b H. induction H as [|x y l l' Hxy _ IH]; intro Hin; [contradiction|].
  destruct Hin as [Hin|Hin]; [subst; exists x; split; [left; reflexivity | exact Hxy]|].
  destruct (IH Hin) as [a [H1 H2]]. exists a. split; [right; exact H1 | exact H2].
Qed.

Lemma Forall2_In_l : forall A B (R : A -> B -> Prop) l l' a,
  Forall2 R l l' -> In a l -> exists b, In b l' /\ R a b.
Proof.
  intros A B R l l' a H. induction H as [|x y l l' Hxy _ IH]; intro Hin; [contradiction|].
  destruct Hin as [Hin|Hin]; [subst; exists y; split; [left; reflexivity | exact Hxy]|].
  destruct (IH Hin) as [b [H1 H2]]. exists b. split; [right; exact H1 | exact H2].
Qed.

(* ================================================================ the opaque-attribute rule *)
Definition orule (a : attr) : list attr :=
  if negb (is_opaque a) then [a] else if is_transitive a then [with_partial_bit a] else [].

Lemma opaque_rule_flat_map : forall l, opaque_rule l = flat_map orule l.
Proof.
  intro l. unfold opaque_rule. destruct (existsb is_opaque l) eqn:E; cbn [negb]; [reflexivity|].
  induction l as [|a l IH]; [reflexivity|].
  cbn [existsb] in E. apply orb_false_iff in E. destruct E as [E1 E2].
  cbn [flat_map]. unfold orule at 1. rewrite E1. cbn [negb app]. f_equal. apply IH. exact E2.
Qed.

Lemma orule_codes : forall a b, In b (orule a) -> a_code b = a_code a.
Proof.
  intros a b H. unfold orule in H. destruct (negb (is_opaque a)); [destruct H as [H|[]]; subst; reflexivity|].
  destruct (is_transitive a); [destruct H as [H|[]]; subst; reflexivity | contradiction].
Qed.

Lemma opaque_rule_has_code : forall c l, has_code c (opaque_rule l) = true -> has_code c l = true.
Proof.
  intros c l H. rewrite opaque_rule_flat_map in H. apply has_code_true in H. destruct H as [b [H1 H2]].
  apply in_flat_map in H1. destruct H1 as [a [Ha Hb]]. apply has_code_true. exists a.
  split; [exact Ha | rewrite <- (orule_codes a b Hb); exact H2].
Qed.

Lemma opaque_rule_find_nonopaque : forall c l a,
  find_code c l = Some a -> is_opaque a = false -> find_code c (opaque_rule l) = Some a.
Proof.
  intros c l a H Hno. rewrite opaque_rule_flat_map. induction l as [|b l IH]; [discriminate|].
  rewrite find_code_cons in H. cbn [flat_map]. rewrite find_code_app.
  destruct (a_code b =? c) eqn:E.
  - inversion H; subst b. unfold orule. rewrite Hno. cbn [negb]. rewrite find_code_cons, E. reflexivity.
  - assert (Hn : find_code c (orule b) = None).
    { apply find_code_None. apply has_code_false. intros y Hy Hc. apply orule_codes in Hy.
      apply N.eqb_neq in E. congruence. }
    rewrite Hn. apply IH. exact H.
Qed.

Lemma opaque_rule_In : forall l b,
  In b (opaque_rule l) <->
  (In b l /\ is_opaque b = false)
  \/ (exists a, In a l /\ is_opaque a = true /\ is_transitive a = true /\ b = with_partial_bit a).
Proof.
  intros l b. rewrite opaque_rule_flat_map, in_flat_map. split.
  - intros [a [Ha Hb]]. unfold orule in Hb. destruct (is_opaque a) eqn:Eo; cbn [negb] in Hb.
    + destruct (is_transitive a) eqn:Et; [|contradiction]. destruct Hb as [Hb|[]]. right. exists a. auto.
    + destruct Hb as [Hb|[]]. subst. left. auto.
  - intros [[Hin Hno] | [a (Hin & Ho & Ht & Hb)]].
    + exists b. split; [exact Hin|]. unfold orule. rewrite Hno. left. reflexivity.
    + exists a. split; [exact Hin|]. unfold orule. rewrite Ho, Ht. left. auto.
Qed.

(* ================================================================ AS_PATH edits on attributes *)
Lemma is_path_binary : forall a p, is_path a p -> binary a = Some (encode_path p).
Proof. intros a p (_ & H & _). unfold binary. rewrite H. reflexivity. Qed.

Lemma as_path_prepend_shape : forall ty asn a b,
  as_path_prepend ty asn a = Ok b ->
  a_code b = a_code a /\ a_flags b = a_flags a /\ is_opaque b = false.
Proof.
  intros ty asn a b H. unfold as_path_prepend in H. destruct (binary a); [|discriminate].
  destruct (path_prepend_b ty asn l); [|discriminate]. cbn [rbind] in H. inversion H. auto.
Qed.

Lemma as_path_strip_shape : forall a b,
  as_path_strip_confed a = Ok b ->
  a_code b = a_code a /\ a_flags b = a_flags a /\ is_opaque b = false.
Proof.
  intros a b H. unfold as_path_strip_confed in H. destruct (binary a); [|discriminate].
  destruct (path_strip_confed_b l); [|discriminate]. cbn [rbind] in H. inversion H. auto.
Qed.

Lemma as_path_prepend_is_path : forall ty asn a p,
  is_path a p -> 1 <= ty <= 4 -> asn < 4294967296 ->
  exists b asns rest,
    as_path_prepend ty asn a = Ok b /\ is_path b ((ty, asn :: asns) :: rest)
    /\ tflat ((ty, asn :: asns) :: rest) = (ty, asn) :: tflat p.
Proof.
  intros ty asn a p Hp Hty Ha. pose proof (is_path_binary a p Hp) as Hb.
  destruct Hp as (Hc & Hd & Hwf).
  destruct (prepend_spec ty asn p Hwf Hty Ha) as (asns & rest & E & W & F).
  exists (attr_with_bin a (encode_path ((ty, asn :: asns) :: rest))), asns, rest.
  split; [|split].
  - unfold as_path_prepend. rewrite Hb, E. reflexivity.
  - unfold is_path. cbn [attr_with_bin a_code a_data]. auto.
  - exact F.
Qed.

Lemma as_path_strip_is_path : forall a p,
  is_path a p ->
  exists b, as_path_strip_confed a = Ok b /\ is_path b (strip_confed_spec p).
Proof.
  intros a p Hp. pose proof (is_path_binary a p Hp) as Hb. destruct Hp as (Hc & Hd & Hwf).
  exists (attr_with_bin a (encode_path (strip_confed_spec p))). split.
  - unfold as_path_strip_confed. rewrite Hb, (strip_spec p Hwf). reflexivity.
  - unfold is_path. cbn [attr_with_bin a_code a_data]. repeat split; auto. apply strip_confed_spec_wf. exact Hwf.
Qed.

Lemma empty_as_path_is_path : is_path empty_as_path [].
Proof. unfold is_path, empty_as_path. cbn. repeat split. constructor. Qed.

(* ================================================================ export_attrs, role by role *)
Definition ebgp_edit (asn : N) (a : attr) : res attr :=
  if a_code a =? AS_PATH then rbind (as_path_strip_confed a) (as_path_prepend SEG_SEQ asn) else Ok a.
Definition confed_edit (asn : N) (a : attr) : res attr :=
  if a_code a =? AS_PATH then as_path_prepend SEG_CONFED_SEQ asn a else Ok a.

Lemma ebgp_edit_code : forall asn a b, ebgp_edit asn a = Ok b -> a_code b = a_code a.
Proof.
  intros asn a b H. unfold ebgp_edit in H. destruct (a_code a =? AS_PATH); [|inversion H; reflexivity].
  destruct (as_path_strip_confed a) as [s|] eqn:Es; [|discriminate]. cbn [rbind] in H.
  apply as_path_prepend_shape in H. apply as_path_strip_shape in Es. destruct H as [H _]. destruct Es as [Es _]. congruence.
Qed.

Lemma confed_edit_code : forall asn a b, confed_edit asn a = Ok b -> a_code b = a_code a.
Proof.
  intros asn a b H. unfold confed_edit in H. destruct (a_code a =? AS_PATH); [|inversion H; reflexivity].
  apply as_path_prepend_shape in H. tauto.
Qed.

Lemma ebgp_edit_opaque : forall asn a b, ebgp_edit asn a = Ok b -> is_opaque b = true -> b = a.
Proof.
  intros asn a b H Ho. unfold ebgp_edit in H. destruct (a_code a =? AS_PATH); [|inversion H; reflexivity].
  destruct (as_path_strip_confed a) as [s|]; [|discriminate]. cbn [rbind] in H.
  apply as_path_prepend_shape in H. destruct H as (_ & _ & H). congruence.
Qed.

Lemma confed_edit_opaque : forall asn a b, confed_edit asn a = Ok b -> is_opaque b = true -> b = a.
Proof.
  intros asn a b H Ho. unfold confed_edit in H. destruct (a_code a =? AS_PATH); [|inversion H; reflexivity].
  apply as_path_prepend_shape in H. destruct H as (_ & _ & H). congruence.
Qed.

Lemma external_asn_model : forall x,
  (if negb (x_confed x =? 0) then x_confed x else x_lasn x) = external_asn x.
Proof. intro x. unfold external_asn. destruct (x_confed x =? 0); reflexivity. Qed.

Lemma export_attrs_ebgp_inv : forall x attrs out,
  x_role x = Ebgp -> export_attrs x attrs = Ok out ->
  exists l', Forall2 (fun a b => ebgp_edit (external_asn x) a = Ok b)
                     (filter (fun a => negb (ebgp_strips (a_code a))) attrs) l'
    /\ ((has_code AS_PATH attrs = true /\ out = opaque_rule l')
        \/ (has_code AS_PATH attrs = false /\
            exists p, as_path_prepend SEG_SEQ (external_asn x) empty_as_path = Ok p /\ out = opaque_rule (l' ++ [p]))).
Proof.
  intros x attrs out Hr H. unfold export_attrs in H. rewrite Hr in H. cbv beta iota zeta in H.
  rewrite external_asn_model in H.
  change (fun a : attr => if a_code a =? AS_PATH
                          then rbind (as_path_strip_confed a) (as_path_prepend SEG_SEQ (external_asn x))
                          else Ok a) with (ebgp_edit (external_asn x)) in H.
  destruct (rmap (ebgp_edit (external_asn x)) (filter (fun a => negb (ebgp_strips (a_code a))) attrs)) as [l'|] eqn:El;
    [|discriminate].
  cbn [rbind] in H. exists l'. split; [apply rmap_Forall2; exact El|].
  destruct (has_code AS_PATH attrs) eqn:Eh.
  - cbn [rbind] in H. inversion H. left. auto.
  - destruct (as_path_prepend SEG_SEQ (external_asn x) empty_as_path) as [p|] eqn:Ep; [|discriminate].
    cbn [rbind] in H. inversion H. right. split; [reflexivity|]. exists p. auto.
Qed.

Lemma export_attrs_confed_inv : forall x attrs out,
  x_role x = ConfedEbgp -> export_attrs x attrs = Ok out ->
  exists l', Forall2 (fun a b => confed_edit (x_lasn x) a = Ok b) attrs l'
    /\ ((has_code AS_PATH attrs = true /\ out = opaque_rule l')
        \/ (has_code AS_PATH attrs = false /\
            exists p, as_path_prepend SEG_CONFED_SEQ (x_lasn x) empty_as_path = Ok p /\ out = opaque_rule (l' ++ [p]))).
Proof.
  intros x attrs out Hr H. unfold export_attrs in H. rewrite Hr in H. cbv beta iota zeta in H.
  change (fun a : attr => if a_code a =? AS_PATH then as_path_prepend SEG_CONFED_SEQ (x_lasn x) a else Ok a)
    with (confed_edit (x_lasn x)) in H.
  destruct (rmap (confed_edit (x_lasn x)) attrs) as [l'|] eqn:El; [|discriminate].
  cbn [rbind] in H. exists l'. split; [apply rmap_Forall2; exact El|].
  destruct (has_code AS_PATH attrs) eqn:Eh.
  - cbn [rbind] in H. inversion H. left. auto.
  - destruct (as_path_prepend SEG_CONFED_SEQ (x_lasn x) empty_as_path) as [p|] eqn:Ep; [|discriminate].
    cbn [rbind] in H. inversion H. right. split; [reflexivity|]. exists p. auto.
Qed.

Lemma export_attrs_ibgp_inv : forall x attrs out,
  role_is_ibgp (x_role x) = true -> export_attrs x attrs = Ok out ->
  out = opaque_rule (inject_local_pref_if_absent attrs).
Proof.
  intros x attrs out Hr H. unfold export_attrs in H.
  destruct (x_role x); try discriminate; cbv beta iota zeta in H; cbn [rbind] in H; inversion H; reflexivity.
Qed.

Lemma export_attrs_rs_inv : forall x attrs out,
  x_role x = RsClient -> export_attrs x attrs = Ok out -> out = opaque_rule attrs.
Proof.
  intros x attrs out Hr H. unfold export_attrs in H. rewrite Hr in H. cbv beta iota zeta in H.
  cbn [rbind] in H. inversion H. reflexivity.
Qed.

Lemma is_path_not_opaque : forall a p, is_path a p -> is_opaque a = false.
Proof. intros a p (_ & H & _). unfold is_opaque. rewrite H. reflexivity. Qed.

Lemma decodable_recognised_not_opaque : forall attrs a,
  decodable attrs -> In a attrs -> recognised (a_code a) = true -> is_opaque a = false.
Proof.
  intros attrs a (H & _ & _) Hin Hr. destruct (is_opaque a) eqn:E; [|reflexivity].
  rewrite (H a Hin E) in Hr. discriminate.
Qed.

Lemma is_path_unique : forall a p q, is_path a p -> is_path a q -> encode_path p = encode_path q.
Proof. intros a p q (_ & H1 & _) (_ & H2 & _). congruence. Qed.

(* ---------------------------------------------------------------- eBGP *)
Lemma ebgp_edit_path : forall asn a p,
  asn < 4294967296 -> is_path a p ->
  exists b asns rest, ebgp_edit asn a = Ok b /\ is_path b ((2, asn :: asns) :: rest)
    /\ tflat ((2, asn :: asns) :: rest) = (2, asn) :: tflat (strip_confed_spec p).
Proof.
  intros asn a p Ha Hp. unfold ebgp_edit. destruct Hp as (Hc & Hrest). rewrite Hc, N.eqb_refl.
  destruct (as_path_strip_is_path a p (conj Hc Hrest)) as (s & Es & Hs). rewrite Es. cbn [rbind].
  destruct (as_path_prepend_is_path SEG_SEQ asn s _ Hs ltac:(unfold SEG_SEQ; lia) Ha) as (b & asns & rest & Eb & Hb & Hf).
  exists b, asns, rest. auto.
Qed.

Lemma export_attrs_ebgp_spec : forall x attrs out pin,
  wf_ctx x -> x_role x = Ebgp -> path_of attrs pin ->
  export_attrs x attrs = Ok out ->
  ebgp_path_ok x pin out /\ ebgp_strips_ok out.
Proof.
  intros x attrs out pin Hx Hr Hpin H.
  assert (Hasn : external_asn x < 4294967296).
  { destruct Hx as [H1 H2]. unfold external_asn. destruct (x_confed x =? 0); assumption. }
  destruct (export_attrs_ebgp_inv x attrs out Hr H) as (l' & HF & Hout).
  assert (Hfind : find_code AS_PATH (filter (fun a => negb (ebgp_strips (a_code a))) attrs) = find_code AS_PATH attrs).
  { apply find_code_filter. intros a Hc. rewrite Hc. reflexivity. }
  pose proof (Forall2_find_code (ebgp_edit (external_asn x)) AS_PATH _ _ (ebgp_edit_code _) HF) as Hl'.
  rewrite Hfind in Hl'.
  split.
  - unfold ebgp_path_ok. destruct pin as [segs|]; cbn [path_of segs_of] in *.
    + destruct Hpin as (a & Ea & Hpa). rewrite Ea in Hl'. destruct Hl' as (b & Eb & Hab).
      destruct (ebgp_edit_path (external_asn x) a segs Hasn Hpa) as (b' & asns & rest & Eb' & Hb' & Hf).
      assert (b = b') by congruence. subst b'.
      exists ((2, external_asn x :: asns) :: rest). split; [|exact Hf].
      exists b. split; [|exact Hb'].
      assert (Hh : has_code AS_PATH attrs = true) by (apply has_code_find; eauto).
      destruct Hout as [[_ Ho] | [Hh' _]]; [|congruence]. subst out.
      apply opaque_rule_find_nonopaque; [exact Eb | eapply is_path_not_opaque; exact Hb'].
    + rewrite Hpin in Hl'. apply find_code_None in Hpin.
      destruct Hout as [[Hh' _] | [_ (p & Ep & Ho)]]; [congruence|]. subst out.
      destruct (as_path_prepend_is_path SEG_SEQ (external_asn x) empty_as_path [] empty_as_path_is_path
                  ltac:(unfold SEG_SEQ; lia) Hasn) as (p' & asns & rest & Ep' & Hp' & Hf).
      assert (p = p') by congruence. subst p'.
      exists ((2, external_asn x :: asns) :: rest). split; [|exact Hf].
      exists p. split; [|exact Hp'].
      apply opaque_rule_find_nonopaque; [|eapply is_path_not_opaque; exact Hp'].
      rewrite find_code_app, Hl'. rewrite find_code_cons. destruct Hp' as (Hc & _). rewrite Hc, N.eqb_refl. reflexivity.
  - assert (Hno : forall c, ebgp_strips c = true -> c <> AS_PATH -> absent c out).
    { intros c Hc Hne. unfold absent. destruct (has_code c out) eqn:E; [|reflexivity]. exfalso.
      assert (Hl : has_code c l' = true).
      { destruct Hout as [[_ Ho] | [_ (p & Ep & Ho)]]; subst out; apply opaque_rule_has_code in E; [exact E|].
        rewrite has_code_app in E. apply orb_true_iff in E. destruct E as [E|E]; [exact E|].
        apply has_code_true in E. destruct E as (q & [Hq|[]] & Hqc). subst q.
        apply as_path_prepend_shape in Ep. destruct Ep as (Ec & _). cbn in Ec. congruence. }
      rewrite (Forall2_has_code _ c _ _ (ebgp_edit_code _) HF) in Hl.
      apply has_code_true in Hl. destruct Hl as (a & Ha & Hac). apply filter_In in Ha. destruct Ha as [_ Ha].
      rewrite Hac, Hc in Ha. discriminate. }
    unfold ebgp_strips_ok. repeat split; apply Hno; try reflexivity; discriminate.
Qed.

(* ---------------------------------------------------------------- confed-eBGP *)
Lemma export_attrs_confed_spec : forall x attrs out pin,
  wf_ctx x -> x_role x = ConfedEbgp -> path_of attrs pin ->
  export_attrs x attrs = Ok out ->
  confed_path_ok x pin out.
Proof.
  intros x attrs out pin Hx Hr Hpin H. destruct Hx as [Hasn _].
  destruct (export_attrs_confed_inv x attrs out Hr H) as (l' & HF & Hout).
  pose proof (Forall2_find_code (confed_edit (x_lasn x)) AS_PATH _ _ (confed_edit_code _) HF) as Hl'.
  unfold confed_path_ok. destruct pin as [segs|]; cbn [path_of segs_of] in *.
  - destruct Hpin as (a & Ea & Hpa). rewrite Ea in Hl'. destruct Hl' as (b & Eb & Hab).
    destruct (as_path_prepend_is_path SEG_CONFED_SEQ (x_lasn x) a segs Hpa ltac:(unfold SEG_CONFED_SEQ; lia) Hasn)
      as (b' & asns & rest & Eb' & Hb' & Hf).
    unfold confed_edit in Hab. destruct Hpa as (Hc & Hpa). rewrite Hc, N.eqb_refl in Hab.
    assert (b = b') by congruence. subst b'.
    exists rest, asns. split; [|exact Hf]. exists b. split; [|exact Hb'].
    assert (Hh : has_code AS_PATH attrs = true) by (apply has_code_find; eauto).
    destruct Hout as [[_ Ho] | [Hh' _]]; [|congruence]. subst out.
    apply opaque_rule_find_nonopaque; [exact Eb | eapply is_path_not_opaque; exact Hb'].
  - rewrite Hpin in Hl'. apply find_code_None in Hpin.
    destruct Hout as [[Hh' _] | [_ (p & Ep & Ho)]]; [congruence|]. subst out.
    destruct (as_path_prepend_is_path SEG_CONFED_SEQ (x_lasn x) empty_as_path [] empty_as_path_is_path
                ltac:(unfold SEG_CONFED_SEQ; lia) Hasn) as (p' & asns & rest & Ep' & Hp' & Hf).
    assert (p = p') by congruence. subst p'.
    exists rest, asns. split; [|exact Hf]. exists p. split; [|exact Hp'].
    apply opaque_rule_find_nonopaque; [|eapply is_path_not_opaque; exact Hp'].
    rewrite find_code_app, Hl'. rewrite find_code_cons. destruct Hp' as (Hc & _). rewrite Hc, N.eqb_refl. reflexivity.
Qed.

(* LOCAL_PREF is retained towards confed-eBGP peers *)
Lemma export_attrs_confed_local_pref : forall x attrs out lp,
  x_role x = ConfedEbgp -> decodable attrs -> export_attrs x attrs = Ok out ->
  find_code LOCAL_PREF attrs = Some lp -> find_code LOCAL_PREF out = Some lp.
Proof.
  intros x attrs out lp Hr Hd H Hlp.
  destruct (export_attrs_confed_inv x attrs out Hr H) as (l' & HF & Hout).
  pose proof (Forall2_find_code (confed_edit (x_lasn x)) LOCAL_PREF _ _ (confed_edit_code _) HF) as Hl'.
  rewrite Hlp in Hl'. destruct Hl' as (b & Eb & Hab).
  destruct (find_code_Some _ _ _ Hlp) as [Hin Hc].
  unfold confed_edit in Hab. rewrite Hc in Hab. cbn in Hab. inversion Hab; subst b.
  assert (Hno : is_opaque lp = false).
  { apply (decodable_recognised_not_opaque attrs lp Hd Hin). rewrite Hc. reflexivity. }
  destruct Hout as [[_ Ho] | [_ (p & Ep & Ho)]]; subst out; apply opaque_rule_find_nonopaque; auto.
  rewrite find_code_app, Eb. reflexivity.
Qed.

(* ---------------------------------------------------------------- iBGP *)
Lemma inject_local_pref_find : forall attrs,
  exists lp, find_code LOCAL_PREF (inject_local_pref_if_absent attrs) = Some lp
    /\ match find_code LOCAL_PREF attrs with
       | Some lp' => lp = lp'
       | None => lp = mk_val LOCAL_PREF FLAG_TRANSITIVE DEFAULT_LOCAL_PREF
       end.
Proof.
  intro attrs. unfold inject_local_pref_if_absent. destruct (has_code LOCAL_PREF attrs) eqn:E.
  - apply has_code_find in E. destruct E as [lp E]. exists lp. rewrite E. auto.
  - assert (En : find_code LOCAL_PREF attrs = None) by (apply find_code_None; exact E). rewrite En.
    exists (mk_val LOCAL_PREF FLAG_TRANSITIVE DEFAULT_LOCAL_PREF). split; [|reflexivity].
    destruct (find_code LOCAL_PREF (insert_before_ge LOCAL_PREF (mk_val LOCAL_PREF FLAG_TRANSITIVE DEFAULT_LOCAL_PREF) attrs)) eqn:F.
    + destruct (find_code_Some _ _ _ F) as [Hin Hc]. apply In_insert_before_ge in Hin.
      destruct Hin as [Hin|Hin]; [subst; reflexivity|].
      exfalso. rewrite has_code_false in E. exact (E a Hin Hc).
    + exfalso. apply find_code_None in F. rewrite has_code_false in F.
      apply (F (mk_val LOCAL_PREF FLAG_TRANSITIVE DEFAULT_LOCAL_PREF)); [apply In_insert_before_ge; left|]; reflexivity.
Qed.

Lemma inject_local_pref_other : forall c attrs,
  c <> LOCAL_PREF -> find_code c (inject_local_pref_if_absent attrs) = find_code c attrs.
Proof.
  intros c attrs Hc. unfold inject_local_pref_if_absent. destruct (has_code LOCAL_PREF attrs); [reflexivity|].
  apply find_code_insert_other. cbn. congruence.
Qed.

Lemma export_attrs_ibgp_spec : forall x attrs out,
  role_is_ibgp (x_role x) = true -> decodable attrs -> export_attrs x attrs = Ok out ->
  (exists lp, find_code LOCAL_PREF out = Some lp /\
              (forall lp', find_code LOCAL_PREF attrs = Some lp' -> lp = lp'))
  /\ find_code AS_PATH out = find_code AS_PATH attrs.
Proof.
  intros x attrs out Hr Hd H. rewrite (export_attrs_ibgp_inv x attrs out Hr H). split.
  - destruct (inject_local_pref_find attrs) as (lp & Elp & Hlp). exists lp. split.
    + apply opaque_rule_find_nonopaque; [exact Elp|].
      destruct (find_code LOCAL_PREF attrs) as [lp'|] eqn:E.
      * subst lp'. destruct (find_code_Some _ _ _ E) as [Hin Hc].
        apply (decodable_recognised_not_opaque attrs lp Hd Hin). rewrite Hc. reflexivity.
      * subst lp. reflexivity.
    + intros lp' E. rewrite E in Hlp. exact Hlp.
  - destruct (find_code AS_PATH attrs) as [a|] eqn:E.
    + apply opaque_rule_find_nonopaque.
      * rewrite inject_local_pref_other by discriminate. exact E.
      * destruct (find_code_Some _ _ _ E) as [Hin Hc].
        apply (decodable_recognised_not_opaque attrs a Hd Hin). rewrite Hc. reflexivity.
    + apply find_code_None. destruct (has_code AS_PATH (opaque_rule (inject_local_pref_if_absent attrs))) eqn:F; [|reflexivity].
      apply opaque_rule_has_code in F. apply has_code_find in F. destruct F as [a F].
      rewrite inject_local_pref_other in F by discriminate. congruence.
Qed.

(* ---------------------------------------------------------------- unknown attributes, every role *)
Lemma with_partial_same : forall a, same_but_partial a (with_partial_bit a).
Proof. intro a. unfold same_but_partial, with_partial_bit. cbn. auto. Qed.

Lemma with_partial_partial_set : forall a, partial_set (with_partial_bit a).
Proof.
  intro a. unfold partial_set, with_partial_bit. cbn [a_flags]. rewrite N.lor_spec.
  unfold FLAG_PARTIAL. apply orb_true_iff. right. reflexivity.
Qed.

Lemma opaque_rule_unknown : forall inp L,
  (forall a, In a inp -> is_opaque a = true -> In a L) ->
  (forall a, In a L -> is_opaque a = true -> In a inp) ->
  unknown_rule_ok inp (opaque_rule L).
Proof.
  intros inp L H1 H2. split.
  - intros a Hin Ho Ht. exists (with_partial_bit a). split; [|apply with_partial_same].
    apply opaque_rule_In. right. exists a. unfold unknown_attr, transitive in *.
    repeat split; auto.
  - intros b Hb Ho. apply opaque_rule_In in Hb. destruct Hb as [[_ Hn] | (a & Ha & Hao & Hat & Hba)].
    + unfold unknown_attr in Ho. congruence.
    + subst b. split; [apply with_partial_partial_set|]. exists a. unfold unknown_attr, transitive.
      repeat split; auto.
Qed.

Lemma recognised_ebgp_strips : forall c, recognised c = false -> ebgp_strips c = false /\ c <> AS_PATH.
Proof.
  intros c H. unfold recognised in H. cbn [existsb] in H.
  repeat (apply orb_false_iff in H; destruct H as [? H]).
  unfold ebgp_strips, LOCAL_PREF, ORIGINATOR_ID, CLUSTER_LIST, AIGP, AS_PATH.
  split; [|intro; subst; discriminate].
  repeat (apply orb_false_iff; split); assumption.
Qed.

Lemma export_attrs_unknown : forall x attrs out,
  decodable attrs -> export_attrs x attrs = Ok out -> unknown_rule_ok attrs out.
Proof.
  intros x attrs out Hd H. destruct (x_role x) eqn:Hr.
  - (* Ebgp *)
    destruct (export_attrs_ebgp_inv x attrs out Hr H) as (l' & HF & Hout).
    assert (H1 : forall a, In a attrs -> is_opaque a = true -> In a l').
    { intros a Hin Ho. destruct Hd as (Hd & _). pose proof (Hd a Hin Ho) as Hu.
      destruct (recognised_ebgp_strips _ Hu) as [Hs Hne].
      assert (Hf : In a (filter (fun a => negb (ebgp_strips (a_code a))) attrs)).
      { apply filter_In. split; [exact Hin | rewrite Hs; reflexivity]. }
      destruct (Forall2_In_l _ _ _ _ _ a HF Hf) as (b & Hb & Hab).
      unfold ebgp_edit in Hab. apply N.eqb_neq in Hne. rewrite Hne in Hab. inversion Hab; subst. exact Hb. }
    assert (H2 : forall a, In a l' -> is_opaque a = true -> In a attrs).
    { intros b Hb Ho. destruct (Forall2_In_r _ _ _ _ _ b HF Hb) as (a & Ha & Hab).
      rewrite (ebgp_edit_opaque _ _ _ Hab Ho). apply filter_In in Ha. tauto. }
    destruct Hout as [[_ Ho] | [_ (p & Ep & Ho)]]; subst out; apply opaque_rule_unknown.
    + exact H1.
    + exact H2.
    + intros a Hin Hop. apply in_or_app. left. auto.
    + intros a Hin Hop. apply in_app_or in Hin. destruct Hin as [Hin | [Hin|[]]]; [auto|].
      subst a. apply as_path_prepend_shape in Ep. destruct Ep as (_ & _ & Ep). congruence.
  - rewrite (export_attrs_rs_inv x attrs out Hr H). apply opaque_rule_unknown; auto.
  - rewrite (export_attrs_ibgp_inv x attrs out ltac:(rewrite Hr; reflexivity) H).
    apply opaque_rule_unknown; unfold inject_local_pref_if_absent; destruct (has_code LOCAL_PREF attrs); auto.
    + intros a Hin _. apply In_insert_before_ge. auto.
    + intros a Hin Ho. apply In_insert_before_ge in Hin. destruct Hin as [Hin|Hin]; [subst; discriminate | exact Hin].
  - rewrite (export_attrs_ibgp_inv x attrs out ltac:(rewrite Hr; reflexivity) H).
    apply opaque_rule_unknown; unfold inject_local_pref_if_absent; destruct (has_code LOCAL_PREF attrs); auto.
    + intros a Hin _. apply In_insert_before_ge. auto.
    + intros a Hin Ho. apply In_insert_before_ge in Hin. destruct Hin as [Hin|Hin]; [subst; discriminate | exact Hin].
  - (* ConfedEbgp *)
    destruct (export_attrs_confed_inv x attrs out Hr H) as (l' & HF & Hout).
    assert (H1 : forall a, In a attrs -> is_opaque a = true -> In a l').
    { intros a Hin Ho. destruct Hd as (Hd & _). pose proof (Hd a Hin Ho) as Hu.
      destruct (recognised_ebgp_strips _ Hu) as [_ Hne].
      destruct (Forall2_In_l _ _ _ _ _ a HF Hin) as (b & Hb & Hab).
      unfold confed_edit in Hab. apply N.eqb_neq in Hne. rewrite Hne in Hab. inversion Hab; subst. exact Hb. }
    assert (H2 : forall a, In a l' -> is_opaque a = true -> In a attrs).
    { intros b Hb Ho. destruct (Forall2_In_r _ _ _ _ _ b HF Hb) as (a & Ha & Hab).
      rewrite (confed_edit_opaque _ _ _ Hab Ho). exact Ha. }
    destruct Hout as [[_ Ho] | [_ (p & Ep & Ho)]]; subst out; apply opaque_rule_unknown.
    + exact H1.
    + exact H2.
    + intros a Hin Hop. apply in_or_app. left. auto.
    + intros a Hin Hop. apply in_app_or in Hin. destruct Hin as [Hin | [Hin|[]]]; [auto|].
      subst a. apply as_path_prepend_shape in Ep. destruct Ep as (_ & _ & Ep). congruence.
Qed.

(* ---------------------------------------------------------------- what export_attrs leaves alone *)
Lemma export_attrs_find_keep : forall x attrs out c a,
  export_attrs x attrs = Ok out -> c <> AS_PATH -> c <> LOCAL_PREF ->
  (x_role x = Ebgp -> ebgp_strips c = false) ->
  find_code c attrs = Some a -> is_opaque a = false -> find_code c out = Some a.
Proof.
  intros x attrs out c a H Hn2 Hn5 Hs Hf Ho. destruct (x_role x) eqn:Hr.
  - destruct (export_attrs_ebgp_inv x attrs out Hr H) as (l' & HF & Hout).
    pose proof (Forall2_find_code (ebgp_edit (external_asn x)) c _ _ (ebgp_edit_code _) HF) as Hl'.
    rewrite find_code_filter in Hl' by (intros y Hy; rewrite Hy, (Hs eq_refl); reflexivity).
    rewrite Hf in Hl'. destruct Hl' as (b & Eb & Hab).
    destruct (find_code_Some _ _ _ Hf) as [_ Hc]. unfold ebgp_edit in Hab.
    assert (Hne : a_code a =? AS_PATH = false) by (apply N.eqb_neq; congruence).
    rewrite Hne in Hab. inversion Hab; subst b.
    destruct Hout as [[_ Hout] | [_ (p & Ep & Hout)]]; subst out; apply opaque_rule_find_nonopaque; auto.
    rewrite find_code_app, Eb. reflexivity.
  - rewrite (export_attrs_rs_inv x attrs out Hr H). apply opaque_rule_find_nonopaque; auto.
  - rewrite (export_attrs_ibgp_inv x attrs out ltac:(rewrite Hr; reflexivity) H).
    apply opaque_rule_find_nonopaque; auto. rewrite inject_local_pref_other; auto.
  - rewrite (export_attrs_ibgp_inv x attrs out ltac:(rewrite Hr; reflexivity) H).
    apply opaque_rule_find_nonopaque; auto. rewrite inject_local_pref_other; auto.
  - destruct (export_attrs_confed_inv x attrs out Hr H) as (l' & HF & Hout).
    pose proof (Forall2_find_code (confed_edit (x_lasn x)) c _ _ (confed_edit_code _) HF) as Hl'.
    rewrite Hf in Hl'. destruct Hl' as (b & Eb & Hab).
    destruct (find_code_Some _ _ _ Hf) as [_ Hc]. unfold confed_edit in Hab.
    assert (Hne : a_code a =? AS_PATH = false) by (apply N.eqb_neq; congruence).
    rewrite Hne in Hab. inversion Hab; subst b.
    destruct Hout as [[_ Hout] | [_ (p & Ep & Hout)]]; subst out; apply opaque_rule_find_nonopaque; auto.
    rewrite find_code_app, Eb. reflexivity.
Qed.

Lemma export_attrs_absent_keep : forall x attrs out c,
  export_attrs x attrs = Ok out -> c <> AS_PATH -> c <> LOCAL_PREF ->
  has_code c attrs = false -> has_code c out = false.
Proof.
  intros x attrs out c H Hn2 Hn5 Ha.
  assert (Hp : forall ty asn p, as_path_prepend ty asn empty_as_path = Ok p -> has_code c [p] = false).
  { intros ty asn p Ep. apply as_path_prepend_shape in Ep. destruct Ep as (Ec & _). cbn in Ec.
    apply has_code_false. intros y [Hy|[]] Hyc. subst y. congruence. }
  destruct (has_code c out) eqn:E; [|reflexivity]. exfalso. destruct (x_role x) eqn:Hr.
  - destruct (export_attrs_ebgp_inv x attrs out Hr H) as (l' & HF & Hout).
    assert (Hl : has_code c l' = false).
    { rewrite (Forall2_has_code _ c _ _ (ebgp_edit_code _) HF).
      destruct (has_code c (filter (fun a => negb (ebgp_strips (a_code a))) attrs)) eqn:F; [|reflexivity].
      apply has_code_filter_sub in F. congruence. }
    destruct Hout as [[_ Hout] | [_ (p & Ep & Hout)]]; subst out; apply opaque_rule_has_code in E; [congruence|].
    rewrite has_code_app, Hl, (Hp _ _ _ Ep) in E. discriminate.
  - rewrite (export_attrs_rs_inv x attrs out Hr H) in E. apply opaque_rule_has_code in E. congruence.
  - rewrite (export_attrs_ibgp_inv x attrs out ltac:(rewrite Hr; reflexivity) H) in E.
    apply opaque_rule_has_code in E. apply has_code_find in E. destruct E as [a E].
    rewrite inject_local_pref_other in E by assumption. apply find_code_None in Ha. congruence.
  - rewrite (export_attrs_ibgp_inv x attrs out ltac:(rewrite Hr; reflexivity) H) in E.
    apply opaque_rule_has_code in E. apply has_code_find in E. destruct E as [a E].
    rewrite inject_local_pref_other in E by assumption. apply find_code_None in Ha. congruence.
  - destruct (export_attrs_confed_inv x attrs out Hr H) as (l' & HF & Hout).
    assert (Hl : has_code c l' = false).
    { rewrite (Forall2_has_code _ c _ _ (confed_edit_code _) HF). exact Ha. }
    destruct Hout as [[_ Hout] | [_ (p & Ep & Hout)]]; subst out; apply opaque_rule_has_code in E; [congruence|].
    rewrite has_code_app, Hl, (Hp _ _ _ Ep) in E. discriminate.
Qed.

(* ================================================================ rr_reflect_attrs *)
Lemma reflect_find_other : forall attrs rid cid c,
  c <> ORIGINATOR_ID -> c <> CLUSTER_LIST ->
  find_code c (rr_reflect_attrs attrs rid cid) = find_code c attrs.
Proof.
  intros attrs rid cid c H9 H10. unfold rr_reflect_attrs. rewrite !find_code_app.
  rewrite find_code_filter.
  2:{ intros a Ha. apply negb_true_iff. apply N.eqb_neq. congruence. }
  destruct (find_code c attrs) eqn:E; [reflexivity|].
  destruct (has_code ORIGINATOR_ID attrs); cbn [find_code find mk_val mk_bin a_code];
    repeat match goal with |- context [?u =? c] =>
      let F := fresh in assert (F : u =? c = false) by (apply N.eqb_neq; congruence); rewrite F; clear F end;
    reflexivity.
Qed.

Lemma reflect_spec : forall attrs rid cid, reflected_ok attrs (rr_reflect_attrs attrs rid cid) rid cid.
Proof.
  intros attrs rid cid. unfold reflected_ok, rr_reflect_attrs. split.
  - rewrite !find_code_app. rewrite find_code_filter by (intros a Ha; rewrite Ha; reflexivity).
    destruct (find_code ORIGINATOR_ID attrs) as [o|] eqn:E.
    + exists o. auto.
    + assert (Eh : has_code ORIGINATOR_ID attrs = false) by (apply find_code_None; exact E). rewrite Eh.
      exists (mk_val ORIGINATOR_ID FLAG_OPTIONAL rid). split; reflexivity.
  - rewrite !find_code_app.
    assert (En : find_code CLUSTER_LIST (filter (fun a => negb (a_code a =? CLUSTER_LIST)) attrs) = None).
    { apply find_code_None. apply has_code_filter_out. }
    rewrite En.
    eexists. split.
    + destruct (has_code ORIGINATOR_ID attrs); cbn; reflexivity.
    + cbn [binary mk_bin a_data]. reflexivity.
Qed.

(* ================================================================ with_llgr_stale_community *)
Lemma chunks4_any_decompose : forall fuel pat b,
  length pat = 4%nat -> chunks4_any fuel pat b = true ->
  exists pre post k, b = pre ++ pat ++ post /\ length pre = (4 * k)%nat.
Proof.
  induction fuel as [|f IH]; intros pat b Hp H; [discriminate|].
  cbn [chunks4_any] in H. destruct b as [|x b]; [discriminate|].
  apply orb_true_iff in H. destruct H as [H|H].
  - apply bytes_eqb_eq in H. exists [], (skipn 4 (x :: b)), 0%nat. split; [|reflexivity].
    cbn [app]. rewrite <- H. symmetry. apply firstn_skipn.
  - destruct (IH pat _ Hp H) as (pre & post & k & E & Hk).
    exists (firstn 4 (x :: b) ++ pre), post, (S k). split.
    + rewrite <- app_assoc, <- E. symmetry. apply firstn_skipn.
    + rewrite app_length, Hk. rewrite firstn_length_le; [lia|].
      assert (length (skipn 4 (x :: b)) <> 0%nat).
      { rewrite E. rewrite !app_length. lia. }
      rewrite skipn_length in H0. lia.
Qed.

Lemma mod4_mul : forall k, Nat.modulo (4 * k) 4 = O.
Proof. intro k. rewrite Nat.mul_comm. apply Nat.mod_mul. discriminate. Qed.

Definition llgr_comm_ok (c : attr) : Prop :=
  exists pre post, a_data c = DBin (pre ++ [255; 255; 0; 6] ++ post) /\ Nat.modulo (length pre) 4 = O.

Lemma llgr_stage_spec : forall attrs,
  decodable attrs ->
  exists c, find_code COMMUNITY (with_llgr_stale_community attrs) = Some c /\ llgr_comm_ok c.
Proof.
  intros attrs (_ & _ & Hd). unfold with_llgr_stale_community.
  destruct (find_code COMMUNITY attrs) as [a|] eqn:E.
  - destruct (find_code_Some _ _ _ E) as [Hin Hc]. destruct (Hd a Hin Hc) as (b & Hb & Hm).
    unfold binary at 1. rewrite Hb.
    destruct (chunks4_contains LLGR_STALE b) eqn:Ec.
    + exists a. split; [exact E|]. unfold chunks4_contains in Ec.
      destruct (chunks4_any_decompose _ LLGR_STALE _ eq_refl Ec) as (pre & post & k & Eb & Hk).
      exists pre, post. rewrite Hb, Eb. split; [reflexivity | rewrite Hk; apply mod4_mul].
    + eexists. split.
      * rewrite find_code_map by (intro y; destruct (a_code y =? COMMUNITY) eqn:Ey; [apply N.eqb_eq in Ey; rewrite Ey|]; reflexivity).
        rewrite E. cbn [option_map]. rewrite Hc, N.eqb_refl. reflexivity.
      * exists b, []. cbn [mk_bin a_data]. split; [reflexivity | exact Hm].
  - eexists. split.
    + rewrite find_code_app, E. reflexivity.
    + exists [], []. split; reflexivity.
Qed.

Lemma llgr_find_other : forall attrs c,
  c <> COMMUNITY -> find_code c (with_llgr_stale_community attrs) = find_code c attrs.
Proof.
  intros attrs c Hc. unfold with_llgr_stale_community.
  destruct (match find_code COMMUNITY attrs with Some a => binary a | None => None end) as [bin|].
  - destruct (chunks4_contains LLGR_STALE bin); [reflexivity|].
    induction attrs as [|a l IH]; [reflexivity|].
    cbn [map]. rewrite !find_code_cons. destruct (a_code a =? COMMUNITY) eqn:E.
    + apply N.eqb_eq in E. cbn [mk_bin a_code].
      assert (F1 : COMMUNITY =? c = false) by (apply N.eqb_neq; congruence).
      assert (F2 : a_code a =? c = false) by (apply N.eqb_neq; congruence).
      rewrite F1, F2. exact IH.
    + destruct (a_code a =? c); [reflexivity | exact IH].
  - rewrite find_code_app. destruct (find_code c attrs); [reflexivity|].
    rewrite find_code_cons. cbn [mk_bin a_code].
    assert (F1 : COMMUNITY =? c = false) by (apply N.eqb_neq; congruence). rewrite F1. reflexivity.
Qed.

(* ================================================================ decodable is kept by the pipeline stages *)
Definition fresh_ok (a : attr) : Prop :=
  is_opaque a = false /\ a_code a <> AS_PATH
  /\ (a_code a = COMMUNITY -> exists b, a_data a = DBin b /\ Nat.modulo (length b) 4 = O).

Lemma decodable_ext : forall l l',
  decodable l -> (forall a, In a l' -> In a l \/ fresh_ok a) -> decodable l'.
Proof.
  intros l l' (H1 & H2 & H3) Hin. split; [|split]; intros a Ha.
  - intro Ho. destruct (Hin a Ha) as [Hl | (Hf & _)]; [auto | congruence].
  - intro Hc. destruct (Hin a Ha) as [Hl | (_ & Hf & _)]; [auto | contradiction].
  - intro Hc. destruct (Hin a Ha) as [Hl | (_ & _ & Hf)]; auto.
Qed.

Lemma decodable_filter : forall f l, decodable l -> decodable (filter f l).
Proof. intros f l H. apply (decodable_ext l); [exact H|]. intros a Ha. apply filter_In in Ha. tauto. Qed.

Lemma decodable_reflect : forall l rid cid, decodable l -> decodable (rr_reflect_attrs l rid cid).
Proof.
  intros l rid cid H. apply (decodable_ext l); [exact H|]. intros a Ha. unfold rr_reflect_attrs in Ha.
  apply in_app_or in Ha. destruct Ha as [Ha|Ha]; [apply filter_In in Ha; tauto|].
  apply in_app_or in Ha. right.
  assert (Hv : forall v, fresh_ok (mk_val ORIGINATOR_ID FLAG_OPTIONAL v)).
  { intro v. unfold fresh_ok. cbn. repeat split; discriminate. }
  assert (Hb : forall b, fresh_ok (mk_bin CLUSTER_LIST FLAG_OPTIONAL b)).
  { intro b. unfold fresh_ok. cbn. repeat split; discriminate. }
  destruct Ha as [Ha|[Ha|[]]].
  - destruct (has_code ORIGINATOR_ID l); [contradiction|]. destruct Ha as [Ha|[]]. subst. apply Hv.
  - subst. apply Hb.
Qed.

Lemma decodable_llgr : forall l, decodable l -> decodable (with_llgr_stale_community l).
Proof.
  intros l H. apply (decodable_ext l); [exact H|]. intros a Ha. unfold with_llgr_stale_community in Ha.
  assert (Hnew : forall b, Nat.modulo (length b) 4 = O -> fresh_ok (mk_bin COMMUNITY (FLAG_TRANSITIVE + FLAG_OPTIONAL) (b ++ LLGR_STALE))).
  { intros b Hb. unfold fresh_ok. cbn [mk_bin is_opaque a_data a_code]. repeat split; try discriminate.
    intros _. eexists. split; [reflexivity|]. rewrite app_length. cbn [LLGR_STALE length].
    rewrite <- Nat.add_mod_idemp_l by discriminate. rewrite Hb. reflexivity. }
  destruct (find_code COMMUNITY l) as [c|] eqn:E.
  - destruct (find_code_Some _ _ _ E) as [Hin Hc]. destruct H as (_ & _ & H3).
    destruct (H3 c Hin Hc) as (b & Hb & Hm). unfold binary in Ha at 1. rewrite Hb in Ha.
    destruct (chunks4_contains LLGR_STALE b); [left; exact Ha|].
    apply in_map_iff in Ha. destruct Ha as (y & Hy & Hyl).
    destruct (a_code y =? COMMUNITY); [right; subst a; apply Hnew; exact Hm | left; subst; exact Hyl].
  - apply in_app_or in Ha. destruct Ha as [Ha|[Ha|[]]]; [left; exact Ha|]. right. subst a.
    apply (Hnew [] eq_refl).
Qed.

(* ---------------------------------------------------------------- unknown attributes through the stages *)
Definition same_unknowns (l1 l2 : list attr) : Prop :=
  forall a, is_opaque a = true -> (In a l1 <-> In a l2).

Lemma same_unknowns_refl : forall l, same_unknowns l l.
Proof. intros l a _. tauto. Qed.

Lemma same_unknowns_trans : forall l1 l2 l3, same_unknowns l1 l2 -> same_unknowns l2 l3 -> same_unknowns l1 l3.
Proof. intros l1 l2 l3 H1 H2 a Ha. rewrite (H1 a Ha). apply H2. exact Ha. Qed.

Lemma unknown_rule_transfer : forall l1 l2 out,
  same_unknowns l1 l2 -> unknown_rule_ok l2 out -> unknown_rule_ok l1 out.
Proof.
  intros l1 l2 out Hs (H1 & H2). split.
  - intros a Hin Ho Ht. apply (H1 a); auto. apply Hs; auto.
  - intros b Hb Ho. destruct (H2 b Hb Ho) as (Hp & a & Ha & Hao & Hat & Hab). split; [exact Hp|].
    exists a. split; [apply Hs; auto | auto].
Qed.

Lemma same_unknowns_filter_code : forall l c,
  decodable l -> recognised c = true ->
  same_unknowns l (filter (fun a => negb (a_code a =? c)) l).
Proof.
  intros l c (Hd & _) Hc a Ha. rewrite filter_In. split; [|tauto]. intro Hin. split; [exact Hin|].
  apply negb_true_iff. apply N.eqb_neq. intro E. rewrite <- E in Hc. rewrite (Hd a Hin Ha) in Hc. discriminate.
Qed.

Lemma same_unknowns_reflect : forall l rid cid, decodable l -> same_unknowns l (rr_reflect_attrs l rid cid).
Proof.
  intros l rid cid Hd a Ha. unfold rr_reflect_attrs. rewrite in_app_iff.
  pose proof (same_unknowns_filter_code l CLUSTER_LIST Hd eq_refl a Ha) as Hf. split.
  - intro Hin. left. apply Hf. exact Hin.
  - intros [Hin|Hin]; [apply Hf; exact Hin|]. exfalso.
    apply in_app_or in Hin. destruct Hin as [Hin|[Hin|[]]].
    + destruct (has_code ORIGINATOR_ID l); [contradiction|]. destruct Hin as [Hin|[]]. subst a. discriminate.
    + subst a. discriminate.
Qed.

Lemma same_unknowns_llgr : forall l, decodable l -> same_unknowns l (with_llgr_stale_community l).
Proof.
  intros l (Hd & _) a Ha. unfold with_llgr_stale_community.
  destruct (match find_code COMMUNITY l with Some a => binary a | None => None end) as [bin|].
  - destruct (chunks4_contains LLGR_STALE bin); [tauto|]. rewrite in_map_iff. split.
    + intro Hin. exists a. split; [|exact Hin].
      assert (E : a_code a =? COMMUNITY = false).
      { apply N.eqb_neq. intro E. pose proof (Hd a Hin Ha) as Hr. rewrite E in Hr. discriminate. }
      rewrite E. reflexivity.
    + intros (y & Hy & Hyl). destruct (a_code y =? COMMUNITY); [subst a; discriminate | subst; exact Hyl].
  - rewrite in_app_iff. split; [tauto|]. intros [Hin|[Hin|[]]]; [exact Hin | subst a; discriminate].
Qed.

(* ================================================================ pre_policy_defaults *)
Lemma pre_policy_no_med : forall x attrs nh fam il,
  x_role x = Ebgp -> absent MED (fst (pre_policy_defaults x attrs nh fam il)).
Proof.
  intros x attrs nh fam il Hr. unfold pre_policy_defaults. rewrite Hr. cbn [role_eqb role_code N.eqb fst].
  apply has_code_filter_out.
Qed.

Lemma pre_policy_find_other : forall x attrs nh fam il c,
  c <> MED -> find_code c (fst (pre_policy_defaults x attrs nh fam il)) = find_code c attrs.
Proof.
  intros x attrs nh fam il c Hc. unfold pre_policy_defaults. cbn [fst].
  destruct (role_eqb (x_role x) Ebgp); [|reflexivity].
  apply find_code_filter. intros a Ha. apply negb_true_iff. apply N.eqb_neq. congruence.
Qed.

Lemma pre_policy_decodable : forall x attrs nh fam il,
  decodable attrs -> decodable (fst (pre_policy_defaults x attrs nh fam il)).
Proof.
  intros x attrs nh fam il H. unfold pre_policy_defaults. cbn [fst].
  destruct (role_eqb (x_role x) Ebgp); [apply decodable_filter|]; exact H.
Qed.

Lemma pre_policy_same_unknowns : forall x attrs nh fam il,
  decodable attrs -> same_unknowns attrs (fst (pre_policy_defaults x attrs nh fam il)).
Proof.
  intros x attrs nh fam il H. unfold pre_policy_defaults. cbn [fst].
  destruct (role_eqb (x_role x) Ebgp); [|apply same_unknowns_refl].
  apply same_unknowns_filter_code; [exact H | reflexivity].
Qed.

(* next hop: self towards eBGP and confed-eBGP ... *)
Lemma export_nexthop_self : forall x nh fam il,
  (x_role x = Ebgp \/ x_role x = ConfedEbgp) ->
  (nh = None -> is_flowspec fam = false) ->
  (forall n, nh = Some n -> il = true -> ip_unspecified (nh_addr n) = true) ->
  export_nexthop x nh fam il = Some (self_nexthop x).
Proof.
  intros x nh fam il Hr Hn Hl. unfold export_nexthop, self_nexthop. destruct nh as [n|].
  - destruct il.
    + rewrite (Hl n eq_refl eq_refl). reflexivity.
    + cbn [andb]. destruct Hr as [Hr|Hr]; rewrite Hr; reflexivity.
  - rewrite (Hn eq_refl). reflexivity.
Qed.

(* ... untouched towards iBGP (and route-server clients) *)
Lemma export_nexthop_untouched : forall x nh fam il,
  (role_is_ibgp (x_role x) = true \/ x_role x = RsClient) ->
  explicit_nexthop il nh -> export_nexthop x nh fam il = nh.
Proof.
  intros x nh fam il Hr (n & Hn & Hl). subst nh. unfold export_nexthop. destruct il.
  - rewrite (Hl eq_refl). reflexivity.
  - cbn [andb]. destruct Hr as [Hr|Hr]; [destruct (x_role x); try discriminate; reflexivity | rewrite Hr; reflexivity].
Qed.

Lemma export_attrs_ebgp_strips : forall x attrs out,
  x_role x = Ebgp -> export_attrs x attrs = Ok out -> ebgp_strips_ok out.
Proof.
  intros x attrs out Hr H.
  destruct (export_attrs_ebgp_inv x attrs out Hr H) as (l' & HF & Hout).
  assert (Hno : forall c, ebgp_strips c = true -> c <> AS_PATH -> absent c out).
  { intros c Hc Hne. unfold absent. destruct (has_code c out) eqn:E; [|reflexivity]. exfalso.
    assert (Hl : has_code c l' = true).
    { destruct Hout as [[_ Ho] | [_ (p & Ep & Ho)]]; subst out; apply opaque_rule_has_code in E; [exact E|].
      rewrite has_code_app in E. apply orb_true_iff in E. destruct E as [E|E]; [exact E|].
      apply has_code_true in E. destruct E as (q & [Hq|[]] & Hqc). subst q.
      apply as_path_prepend_shape in Ep. destruct Ep as (Ec & _). cbn in Ec. congruence. }
    rewrite (Forall2_has_code _ c _ _ (ebgp_edit_code _) HF) in Hl.
    apply has_code_true in Hl. destruct Hl as (a & Ha & Hac). apply filter_In in Ha. destruct Ha as [_ Ha].
    rewrite Hac, Hc in Ha. discriminate. }
  unfold ebgp_strips_ok. repeat split; apply Hno; try reflexivity; discriminate.
Qed.

(* ================================================================ process_nlri_change: where a Reach comes from *)
Lemma addpath_reaches_In : forall x d rep top e r d' pid nh out s,
  addpath_reaches x d rep e top = Ok r -> In (Reach d' pid nh out s) (fst r) ->
  exists a, In (pid, a, nh, s) top /\ export_attrs x a = Ok out.
Proof.
  intros x d rep. induction top as [|[[[pid0 a0] nh0] s0] t IH]; intros e r d' pid nh out s H Hin.
  - cbn in H. inversion H; subst. contradiction.
  - cbn [addpath_reaches] in H.
    destruct (negb (em_contains_path e d pid0)
              || match rep with Some r0 => r0 =? pid0 | None => false end
              ).
    + destruct (export_attrs x a0) as [a'|] eqn:Ea; [|discriminate]. cbn [rbind] in H.
      destruct (addpath_reaches x d rep (em_mark_sent e d pid0) t) as [r'|] eqn:Er; [|discriminate].
      cbn [rbind] in H. inversion H; subst r. cbn [fst] in Hin. destruct Hin as [Hin|Hin].
      * inversion Hin; subst. exists a0. split; [left; reflexivity | exact Ea].
      * destruct (IH _ _ _ _ _ _ _ Er Hin) as (a & Ha & Hx). exists a. split; [right; exact Ha | exact Hx].
    + destruct (IH _ _ _ _ _ _ _ H Hin) as (a & Ha & Hx). exists a. split; [right; exact Ha | exact Hx].
Qed.

Lemma In_firstn : forall A n (l : list A) a, In a (firstn n l) -> In a l.
Proof.
  intros A. induction n as [|n IH]; intros l a H; [contradiction|].
  destruct l as [|b l]; [contradiction|]. cbn [firstn] in H. destruct H as [H|H]; [left; exact H | right; apply IH; exact H].
Qed.

Lemma reach_origin : forall x pol emax raddr cid c e r d pid nh out s,
  process_change x pol emax raddr cid c e = Ok r ->
  In (Reach d pid nh out s) (fst r) ->
  exists p a, In p (c_paths c) /\ visible x raddr cid p = true /\ s = p_src p
    /\ policy_stage x pol cid (c_family c) p = Some (a, nh)
    /\ export_attrs x (llgr_stage p a) = Ok out.
Proof.
  intros x pol emax raddr cid c e r d pid nh out s H Hin. unfold process_change in H.
  destruct (emax =? 1).
  - destruct (negb (c_best_changed c)); [inversion H; subst; contradiction|].
    destruct (c_paths c) as [|best rest] eqn:Ep.
    + destruct (em_was_sent e (c_dest c)); inversion H; subst; cbn in Hin; intuition discriminate.
    + destruct (visible x raddr cid best) eqn:Ev.
      * destruct (policy_stage x pol cid (c_family c) best) as [[a nh']|] eqn:Es.
        -- destruct (export_attrs x (llgr_stage best a)) as [a'|] eqn:Ea; [|discriminate].
           cbn [rbind] in H. inversion H; subst r. cbn [fst] in Hin. destruct Hin as [Hin|[]].
           inversion Hin; subst. exists best, a. repeat split; auto. left. reflexivity.
        -- destruct (em_was_sent e (c_dest c)); inversion H; subst; cbn in Hin; intuition discriminate.
      * destruct (em_was_sent e (c_dest c)); inversion H; subst; cbn in Hin; intuition discriminate.
  - destruct (negb (c_any_changed c)); [inversion H; subst; contradiction|].
    match type of H with rbind (addpath_reaches _ _ _ ?e1 ?top) _ = _ =>
      destruct (addpath_reaches x (c_dest c) (c_replaced c) e1 top) as [r'|] eqn:Er; [|discriminate] end.
    cbn [rbind] in H. inversion H; subst r. cbn [fst] in Hin. apply in_app_or in Hin. destruct Hin as [Hin|Hin].
    + apply in_map_iff in Hin. destruct Hin as (q & Hq & _). discriminate.
    + destruct (addpath_reaches_In _ _ _ _ _ _ _ _ _ _ _ Er Hin) as (a & Ha & Hx).
      apply in_flat_map in Ha. destruct Ha as (p & Hp & Ha).
      destruct (policy_stage x pol cid (c_family c) p) as [[a1 nh1]|] eqn:Es; [|contradiction].
      destruct Ha as [Ha|[]]. inversion Ha; subst.
      apply In_firstn in Hp. apply filter_In in Hp. destruct Hp as [Hp Hv].
      exists p, a1. repeat split; auto.
Qed.

Lemma visible_parts : forall x raddr cid p,
  visible x raddr cid p = true ->
  ip_eqb (src_raddr (p_src p)) raddr = false
  /\ ibgp_split_horizon_suppress (p_src p) (x_role x) cid = false
  /\ rs_isolation_suppress (p_src p) (x_role x) = false.
Proof.
  intros x raddr cid p H. unfold visible in H. apply andb_true_iff in H. destruct H as [H H3].
  apply andb_true_iff in H. destruct H as [H1 H2].
  apply negb_true_iff in H1. apply negb_true_iff in H2. apply negb_true_iff in H3. auto.
Qed.

(* policy_stage with a policy that only accepts or rejects *)
Definition reflect_stage (cid : option N) (s : source) (a : list attr) : list attr :=
  match cid with
  | Some c => if is_ibgp_learned s then rr_reflect_attrs a (src_rid s) c else a
  | None => a
  end.

Lemma policy_stage_inv : forall x pol cid fam p a nh,
  policy_stage x pol cid fam p = Some (a, nh) ->
  exists a1,
    pol (p_src p) (fst (pre_policy_defaults x (p_attrs p) (p_nh p) fam (src_is_local (p_src p))))
        (snd (pre_policy_defaults x (p_attrs p) (p_nh p) fam (src_is_local (p_src p)))) (p_nh p)
        (role_eqb (x_role x) ConfedEbgp) = Some (a1, nh)
    /\ a = reflect_stage cid (p_src p) a1.
Proof.
  intros x pol cid fam p a nh H. unfold policy_stage in H.
  destruct (pre_policy_defaults x (p_attrs p) (p_nh p) fam (src_is_local (p_src p))) as [a0 nh0] eqn:E.
  cbn [fst snd]. destruct (pol (p_src p) a0 nh0 (p_nh p) (role_eqb (x_role x) ConfedEbgp)) as [[a1 nh1]|] eqn:Ep; [|discriminate].
  inversion H; subst. exists a1. split; reflexivity.
Qed.

Lemma reflect_stage_find_other : forall cid s a c,
  c <> ORIGINATOR_ID -> c <> CLUSTER_LIST -> find_code c (reflect_stage cid s a) = find_code c a.
Proof.
  intros cid s a c H1 H2. unfold reflect_stage. destruct cid; [|reflexivity].
  destruct (is_ibgp_learned s); [apply reflect_find_other; assumption | reflexivity].
Qed.

Lemma reflect_stage_decodable : forall cid s a, decodable a -> decodable (reflect_stage cid s a).
Proof.
  intros cid s a H. unfold reflect_stage. destruct cid; [|exact H].
  destruct (is_ibgp_learned s); [apply decodable_reflect; exact H | exact H].
Qed.

Lemma reflect_stage_same_unknowns : forall cid s a, decodable a -> same_unknowns a (reflect_stage cid s a).
Proof.
  intros cid s a H. unfold reflect_stage. destruct cid; [|apply same_unknowns_refl].
  destruct (is_ibgp_learned s); [apply same_unknowns_reflect; exact H | apply same_unknowns_refl].
Qed.

Lemma llgr_stage_find_other : forall p a c, c <> COMMUNITY -> find_code c (llgr_stage p a) = find_code c a.
Proof. intros p a c H. unfold llgr_stage. destruct (src_llgr (p_src p)); [apply llgr_find_other; exact H | reflexivity]. Qed.

Lemma llgr_stage_decodable : forall p a, decodable a -> decodable (llgr_stage p a).
Proof. intros p a H. unfold llgr_stage. destruct (src_llgr (p_src p)); [apply decodable_llgr; exact H | exact H]. Qed.

Lemma llgr_stage_same_unknowns : forall p a, decodable a -> same_unknowns a (llgr_stage p a).
Proof.
  intros p a H. unfold llgr_stage. destruct (src_llgr (p_src p)); [apply same_unknowns_llgr; exact H | apply same_unknowns_refl].
Qed.

Lemma filter_only_decodable : forall pol, filter_only pol -> policy_keeps_decodable pol.
Proof. intros pol H s a nh onh ic a' nh' Hd Hp. apply H in Hp. inversion Hp; subst. exact Hd. Qed.

Lemma path_of_transfer : forall l1 l2 pin,
  find_code AS_PATH l2 = find_code AS_PATH l1 -> path_of l1 pin -> path_of l2 pin.
Proof. intros l1 l2 pin H Hp. destruct pin; cbn [path_of] in *; rewrite H; exact Hp. Qed.

(* ================================================================ the statements of C09 *)
(* an advertisement made by process_nlri_change (the code of the working tree) *)
Definition advertised (x : ectx) (pol : policy_fn) (emax : N) (raddr : ipaddr) (cid : option N)
             (c : change) (e : emap) (d pid : N) (nh : option nexthop) (out : list attr) (s : source) : Prop :=
  exists r, process_change x pol emax raddr cid c e = Ok r /\ In (Reach d pid nh out s) (fst r).

(* (1) never back to the peer the route was learned from *)
Theorem C09_no_echo : forall x pol emax raddr cid c e d pid nh out s,
  advertised x pol emax raddr cid c e d pid nh out s -> ~ learned_from s raddr.
Proof.
  intros x pol emax raddr cid c e d pid nh out s (r & H & Hin) Hl.
  destruct (reach_origin _ _ _ _ _ _ _ _ _ _ _ _ _ H Hin) as (p & a & Hp & Hv & Hs & _).
  destruct (visible_parts _ _ _ _ Hv) as (H1 & _ & _). subst s. unfold learned_from in Hl.
  rewrite Hl in H1. assert (ip_eqb raddr raddr = true) by (apply ip_eqb_eq; reflexivity). congruence.
Qed.

(* (2) never from one non-client iBGP peer to another *)
Theorem C09_no_ibgp_nonclient_to_nonclient : forall x pol emax raddr cid c e d pid nh out s,
  advertised x pol emax raddr cid c e d pid nh out s ->
  x_role x = Ibgp -> ~ nonclient_ibgp_source s.
Proof.
  intros x pol emax raddr cid c e d pid nh out s (r & H & Hin) Hr (ps & Hs & Hrole & Has).
  destruct (reach_origin _ _ _ _ _ _ _ _ _ _ _ _ _ H Hin) as (p & a & Hp & Hv & Hsp & _).
  destruct (visible_parts _ _ _ _ Hv) as (_ & H2 & _). rewrite <- Hsp, Hs, Hr in H2.
  unfold ibgp_split_horizon_suppress, is_ibgp_learned, src_is_rr_client in H2.
  cbn [role_is_ibgp negb src_is_local src_rasn src_lasn src_role andb] in H2.
  rewrite Has, N.eqb_refl, Hrole in H2. cbn in H2. destruct cid; discriminate.
Qed.

(* (3) never across the route-server boundary *)
Theorem C09_no_rs_boundary_crossing : forall x pol emax raddr cid c e d pid nh out s,
  advertised x pol emax raddr cid c e d pid nh out s -> ~ crosses_rs_boundary s (x_role x).
Proof.
  intros x pol emax raddr cid c e d pid nh out s (r & H & Hin) Hc.
  destruct (reach_origin _ _ _ _ _ _ _ _ _ _ _ _ _ H Hin) as (p & a & Hp & Hv & Hsp & _).
  destruct (visible_parts _ _ _ _ Hv) as (_ & _ & H3). rewrite <- Hsp in H3.
  unfold rs_isolation_suppress, src_is_rs_client in H3. apply negb_false_iff in H3. apply eqb_prop in H3.
  apply Hc. split; intro E.
  - apply role_eqb_eq. rewrite <- H3. apply role_eqb_eq. exact E.
  - apply role_eqb_eq. rewrite H3. apply role_eqb_eq. exact E.
Qed.

(* (4) looped routes are never installed *)
Lemma chunks4_any_In : forall c ids f,
  (length ids < f)%nat -> In c ids -> chunks4_any f (be32 c) (flat_map be32 ids) = true.
Proof.
  intros c. induction ids as [|i ids IH]; intros f Hf Hin; [contradiction|].
  destruct f as [|f]; [lia|]. cbn [flat_map].
  change (be32 i ++ flat_map be32 ids) with
    ((i / 16777216) mod 256 :: (i / 65536) mod 256 :: (i / 256) mod 256 :: i mod 256 :: flat_map be32 ids).
  cbn [chunks4_any firstn skipn]. apply orb_true_iff. destruct Hin as [Hin|Hin].
  - left. subst i. apply bytes_eqb_eq. reflexivity.
  - right. apply IH; [cbn [length] in Hf; lia | exact Hin].
Qed.

Lemma as_path_has_spec : forall a segs asn,
  is_path a segs -> exists b, as_path_has asn a = Ok b /\ (b = true <-> In asn (flat segs)).
Proof.
  intros a segs asn Hp. pose proof (is_path_binary a segs Hp) as Hb. destruct Hp as (_ & _ & Hwf).
  destruct (path_count_spec asn segs Hwf) as (n & En & Hn).
  unfold as_path_has. rewrite Hb, En. eexists. split; [reflexivity|].
  rewrite <- Hn. apply N.ltb_lt.
Qed.

Theorem C09_loops_never_installed : forall x rid cid attrs,
  looped x rid cid attrs -> forall installed, rx_reach x rid cid attrs <> Ok (Some installed).
Proof.
  intros x rid cid attrs Hl installed H. unfold rx_reach in H.
  destruct (is_as_loop attrs (x_lasn x) (x_confed x)) as [lp|] eqn:El; [|discriminate].
  cbn [rbind] in H. destruct lp; [discriminate|].
  destruct (rr_loop_drop attrs rid cid) eqn:Er; [discriminate|].
  unfold rr_loop_drop in Er. apply orb_false_iff in Er. destruct Er as [Er1 Er2].
  destruct Hl as [segs Hp Hin | segs Hp Hne Hin | a Ha Hd | a c ids Hc Ha Hb Hin].
  - destruct Hp as (a & Ea & Hpa). unfold is_as_loop in El. rewrite Ea in El.
    destruct (as_path_has_spec a segs (x_lasn x) Hpa) as (b & Eb & Hb). rewrite Eb in El. cbn [rbind] in El.
    destruct b; [discriminate|]. apply Hb in Hin. discriminate.
  - destruct Hp as (a & Ea & Hpa). unfold is_as_loop in El. rewrite Ea in El.
    destruct (as_path_has_spec a segs (x_lasn x) Hpa) as (b & Eb & Hb). rewrite Eb in El. cbn [rbind] in El.
    destruct b; [discriminate|].
    destruct (as_path_has_spec a segs (x_confed x) Hpa) as (b2 & Eb2 & Hb2).
    assert (Hz : x_confed x =? 0 = false) by (apply N.eqb_neq; exact Hne). rewrite Hz in El. cbn [negb andb] in El.
    destruct (x_confed x =? x_lasn x) eqn:Ee.
    + apply N.eqb_eq in Ee. rewrite Ee in Hin. apply Hb in Hin. discriminate.
    + cbn [negb] in El. rewrite Eb2 in El. inversion El; subst b2. apply Hb2 in Hin. discriminate.
  - rewrite Ha in Er1. unfold value in Er1. rewrite Hd in Er1. rewrite N.eqb_refl in Er1. discriminate.
  - subst cid. rewrite Ha, Hb in Er2. unfold chunks4_contains, cluster_list_bytes in Er2.
    rewrite chunks4_any_In in Er2; [discriminate | | exact Hin].
    rewrite flat_map_be32_length. lia.
Qed.

(* the common unfolding: an advertisement through a filter-only policy *)
Lemma advertised_filter_only : forall x pol emax raddr cid c e d pid nh out s,
  filter_only pol -> advertised x pol emax raddr cid c e d pid nh out s ->
  exists p, In p (c_paths c) /\ visible x raddr cid p = true /\ s = p_src p
    /\ nh = snd (pre_policy_defaults x (p_attrs p) (p_nh p) (c_family c) (src_is_local (p_src p)))
    /\ export_attrs x (llgr_stage p (reflect_stage cid (p_src p)
                        (fst (pre_policy_defaults x (p_attrs p) (p_nh p) (c_family c) (src_is_local (p_src p))))))
       = Ok out.
Proof.
  intros x pol emax raddr cid c e d pid nh out s Hf (r & H & Hin).
  destruct (reach_origin _ _ _ _ _ _ _ _ _ _ _ _ _ H Hin) as (p & a & Hp & Hv & Hs & Hst & Hx).
  destruct (policy_stage_inv _ _ _ _ _ _ _ Hst) as (a1 & Hpol & Ha). apply Hf in Hpol. inversion Hpol; subst.
  exists p. repeat split; auto.
Qed.

Lemma staged_find_other : forall x cid p fam c,
  c <> MED -> c <> ORIGINATOR_ID -> c <> CLUSTER_LIST -> c <> COMMUNITY ->
  find_code c (llgr_stage p (reflect_stage cid (p_src p)
                  (fst (pre_policy_defaults x (p_attrs p) (p_nh p) fam (src_is_local (p_src p))))))
  = find_code c (p_attrs p).
Proof.
  intros x cid p fam c H4 H9 H10 H8.
  rewrite llgr_stage_find_other by exact H8. rewrite reflect_stage_find_other by assumption.
  apply pre_policy_find_other. exact H4.
Qed.

Lemma staged_decodable : forall x cid p fam,
  decodable (p_attrs p) ->
  decodable (llgr_stage p (reflect_stage cid (p_src p)
                  (fst (pre_policy_defaults x (p_attrs p) (p_nh p) fam (src_is_local (p_src p)))))).
Proof.
  intros. apply llgr_stage_decodable, reflect_stage_decodable, pre_policy_decodable. assumption.
Qed.

(* (5) to eBGP peers *)
Theorem C09_ebgp_rewrite : forall x pol emax raddr cid c e d pid nh out s,
  wf_ctx x -> x_role x = Ebgp -> filter_only pol ->
  (forall p, In p (c_paths c) -> decodable (p_attrs p)) ->
  advertised x pol emax raddr cid c e d pid nh out s ->
  exists p, In p (c_paths c) /\ s = p_src p
    /\ (forall pin, path_of (p_attrs p) pin -> ebgp_path_ok x pin out)
    /\ ebgp_strips_ok out
    /\ absent MED out
    /\ ((p_nh p = None -> is_flowspec (c_family c) = false) ->
        (forall n, p_nh p = Some n -> src_is_local s = true -> ip_unspecified (nh_addr n) = true) ->
        nh = Some (self_nexthop x)).
Proof.
  intros x pol emax raddr cid c e d pid nh out s Hx Hr Hf Hd Hadv.
  destruct (advertised_filter_only _ _ _ _ _ _ _ _ _ _ _ _ Hf Hadv) as (p & Hp & Hv & Hs & Hnh & Hout).
  exists p. split; [exact Hp|]. split; [exact Hs|]. split; [|split; [|split]].
  - intros pin Hpin.
    refine (proj1 (export_attrs_ebgp_spec x _ out pin Hx Hr _ Hout)).
    eapply path_of_transfer; [|exact Hpin]. apply staged_find_other; discriminate.
  - exact (export_attrs_ebgp_strips x _ out Hr Hout).
  - apply (export_attrs_absent_keep x _ out MED Hout); try discriminate.
    apply find_code_None. rewrite llgr_stage_find_other by discriminate.
    rewrite reflect_stage_find_other by discriminate. apply find_code_None. apply pre_policy_no_med. exact Hr.
  - intros Hn Hl. subst nh s. unfold pre_policy_defaults. cbn [snd].
    apply export_nexthop_self; [left; exact Hr | exact Hn | exact Hl].
Qed.

(* ... and, whatever the export policy does: the iBGP-only attributes never reach an
   eBGP peer, and the policy is applied to attributes whose MED has been cleared
   and whose next hop is already self, the next hop sent being the one the policy
   returned *)
Theorem C09_ebgp_any_policy : forall x pol emax raddr cid c e d pid nh out s,
  x_role x = Ebgp -> advertised x pol emax raddr cid c e d pid nh out s ->
  ebgp_strips_ok out
  /\ exists p a0 nh0 a1, In p (c_paths c) /\ s = p_src p
       /\ pre_policy_defaults x (p_attrs p) (p_nh p) (c_family c) (src_is_local s) = (a0, nh0)
       /\ absent MED a0
       /\ ((p_nh p = None -> is_flowspec (c_family c) = false) ->
           (forall n, p_nh p = Some n -> src_is_local s = true -> ip_unspecified (nh_addr n) = true) ->
           nh0 = Some (self_nexthop x))
       /\ pol s a0 nh0 (p_nh p) (role_eqb (x_role x) ConfedEbgp) = Some (a1, nh).
Proof.
  intros x pol emax raddr cid c e d pid nh out s Hr (r & H & Hin).
  destruct (reach_origin _ _ _ _ _ _ _ _ _ _ _ _ _ H Hin) as (p & a & Hp & Hv & Hs & Hst & Hx).
  split; [exact (export_attrs_ebgp_strips x _ out Hr Hx)|].
  destruct (policy_stage_inv _ _ _ _ _ _ _ Hst) as (a1 & Hpol & Ha).
  destruct (pre_policy_defaults x (p_attrs p) (p_nh p) (c_family c) (src_is_local (p_src p))) as [a0 nh0] eqn:E.
  cbn [fst snd] in Hpol. exists p, a0, nh0, a1. subst s.
  split; [exact Hp|]. split; [reflexivity|]. split; [exact E|]. split; [|split].
  - replace a0 with (fst (pre_policy_defaults x (p_attrs p) (p_nh p) (c_family c) (src_is_local (p_src p))))
      by (rewrite E; reflexivity).
    apply pre_policy_no_med. exact Hr.
  - intros Hn Hl.
    replace nh0 with (snd (pre_policy_defaults x (p_attrs p) (p_nh p) (c_family c) (src_is_local (p_src p))))
      by (rewrite E; reflexivity).
    unfold pre_policy_defaults. cbn [snd]. apply export_nexthop_self; [left; exact Hr | exact Hn | exact Hl].
  - exact Hpol.
Qed.

(* (6) to iBGP peers *)
Theorem C09_ibgp_rewrite : forall x pol emax raddr cid c e d pid nh out s,
  role_is_ibgp (x_role x) = true -> filter_only pol ->
  (forall p, In p (c_paths c) -> decodable (p_attrs p)) ->
  advertised x pol emax raddr cid c e d pid nh out s ->
  exists p, In p (c_paths c) /\ s = p_src p
    /\ (exists lp, find_code LOCAL_PREF out = Some lp
                   /\ forall lp', find_code LOCAL_PREF (p_attrs p) = Some lp' -> lp = lp')
    /\ find_code AS_PATH out = find_code AS_PATH (p_attrs p)
    /\ (explicit_nexthop (src_is_local s) (p_nh p) -> nh = p_nh p).
Proof.
  intros x pol emax raddr cid c e d pid nh out s Hr Hf Hd Hadv.
  destruct (advertised_filter_only _ _ _ _ _ _ _ _ _ _ _ _ Hf Hadv) as (p & Hp & Hv & Hs & Hnh & Hout).
  exists p. split; [exact Hp|]. split; [exact Hs|].
  destruct (export_attrs_ibgp_spec x _ out Hr (staged_decodable x cid p (c_family c) (Hd p Hp)) Hout) as ((lp & Elp & Hlp) & Hpath).
  split; [|split].
  - exists lp. split; [exact Elp|]. intros lp' E. apply Hlp. rewrite staged_find_other by discriminate. exact E.
  - rewrite Hpath. apply staged_find_other; discriminate.
  - intro He. subst nh s. unfold pre_policy_defaults. cbn [snd]. apply export_nexthop_untouched; [left; exact Hr | exact He].
Qed.

(* LOCAL_PREF reaches every iBGP peer whatever the export policy does, as long as
   its set-actions keep the attributes decodable *)
Theorem C09_ibgp_local_pref_any_policy : forall x pol emax raddr cid c e d pid nh out s,
  role_is_ibgp (x_role x) = true -> policy_keeps_decodable pol ->
  (forall p, In p (c_paths c) -> decodable (p_attrs p)) ->
  advertised x pol emax raddr cid c e d pid nh out s ->
  has_code LOCAL_PREF out = true.
Proof.
  intros x pol emax raddr cid c e d pid nh out s Hr Hk Hd (r & H & Hin).
  destruct (reach_origin _ _ _ _ _ _ _ _ _ _ _ _ _ H Hin) as (p & a & Hp & Hv & Hs & Hst & Hx).
  destruct (policy_stage_inv _ _ _ _ _ _ _ Hst) as (a1 & Hpol & Ha).
  assert (Hda : decodable (llgr_stage p a)).
  { subst a. apply llgr_stage_decodable, reflect_stage_decodable.
    eapply Hk; [|exact Hpol]. apply pre_policy_decodable. apply Hd. exact Hp. }
  destruct (export_attrs_ibgp_spec x _ out Hr Hda Hx) as ((lp & Elp & _) & _).
  apply has_code_find. eauto.
Qed.

(* (7) reflection *)
Theorem C09_reflection_adds_originator_and_cluster : forall x pol emax raddr cid c e d pid nh out s,
  role_is_ibgp (x_role x) = true -> ibgp_peer_source s -> filter_only pol ->
  (forall p, In p (c_paths c) -> decodable (p_attrs p)) ->
  advertised x pol emax raddr cid c e d pid nh out s ->
  exists p cl, In p (c_paths c) /\ s = p_src p /\ cid = Some cl
    /\ reflected_ok (p_attrs p) out (src_rid s) cl.
Proof.
  intros x pol emax raddr cid c e d pid nh out s Hr (ps & Hps & Hpr & Hpa) Hf Hd Hadv.
  destruct (advertised_filter_only _ _ _ _ _ _ _ _ _ _ _ _ Hf Hadv) as (p & Hp & Hv & Hs & Hnh & Hout).
  assert (Hlearn : is_ibgp_learned (p_src p) = true).
  { rewrite <- Hs, Hps. unfold is_ibgp_learned. cbn. rewrite Hpa. apply N.eqb_refl. }
  destruct (visible_parts _ _ _ _ Hv) as (_ & H2 & _).
  unfold ibgp_split_horizon_suppress in H2. rewrite Hr, Hlearn in H2. cbn [negb] in H2.
  destruct cid as [cl|]; [|discriminate].
  exists p, cl. split; [exact Hp|]. split; [exact Hs|]. split; [reflexivity|].
  assert (Hne : x_role x <> Ebgp) by (intro E; rewrite E in Hr; discriminate).
  assert (Hpre : fst (pre_policy_defaults x (p_attrs p) (p_nh p) (c_family c) (src_is_local (p_src p))) = p_attrs p).
  { unfold pre_policy_defaults. cbn [fst]. apply role_eqb_neq in Hne. rewrite Hne. reflexivity. }
  rewrite Hpre in Hout. unfold reflect_stage in Hout. rewrite Hlearn in Hout.
  pose proof (decodable_reflect (p_attrs p) (src_rid (p_src p)) cl (Hd p Hp)) as Hdr.
  destruct (reflect_spec (p_attrs p) (src_rid (p_src p)) cl) as ((o & Eo & Ho) & (cls & Ecl & Hcl)).
  assert (Hkeep : forall k a, (k = ORIGINATOR_ID \/ k = CLUSTER_LIST) ->
            find_code k (rr_reflect_attrs (p_attrs p) (src_rid (p_src p)) cl) = Some a -> find_code k out = Some a).
  { intros k a Hk E. apply (export_attrs_find_keep x _ out k a Hout).
    - destruct Hk; subst; discriminate.
    - destruct Hk; subst; discriminate.
    - intro E'. contradiction.
    - rewrite llgr_stage_find_other by (destruct Hk; subst; discriminate). exact E.
    - destruct (find_code_Some _ _ _ E) as [Hin Hc].
      apply (decodable_recognised_not_opaque _ a Hdr Hin). rewrite Hc. destruct Hk; subst; reflexivity. }
  rewrite Hs. split.
  - exists o. split; [apply Hkeep; auto | exact Ho].
  - exists cls. split; [apply Hkeep; auto | exact Hcl].
Qed.

(* (8) confed-eBGP *)
Theorem C09_confed_rewrite : forall x pol emax raddr cid c e d pid nh out s,
  wf_ctx x -> x_role x = ConfedEbgp -> filter_only pol ->
  (forall p, In p (c_paths c) -> decodable (p_attrs p)) ->
  advertised x pol emax raddr cid c e d pid nh out s ->
  exists p, In p (c_paths c) /\ s = p_src p
    /\ (forall pin, path_of (p_attrs p) pin -> confed_path_ok x pin out)
    /\ (forall lp, find_code LOCAL_PREF (p_attrs p) = Some lp -> find_code LOCAL_PREF out = Some lp).
Proof.
  intros x pol emax raddr cid c e d pid nh out s Hx Hr Hf Hd Hadv.
  destruct (advertised_filter_only _ _ _ _ _ _ _ _ _ _ _ _ Hf Hadv) as (p & Hp & Hv & Hs & Hnh & Hout).
  exists p. split; [exact Hp|]. split; [exact Hs|]. split.
  - intros pin Hpin. refine (export_attrs_confed_spec x _ out pin Hx Hr _ Hout).
    eapply path_of_transfer; [|exact Hpin]. apply staged_find_other; discriminate.
  - intros lp E. apply (export_attrs_confed_local_pref x _ out lp Hr (staged_decodable x cid p (c_family c) (Hd p Hp)) Hout).
    rewrite staged_find_other by discriminate. exact E.
Qed.

(* (9) LLGR-stale routes carry LLGR_STALE *)
Lemma llgr_comm_carries : forall out c, find_code COMMUNITY out = Some c -> llgr_comm_ok c -> carries_llgr_stale out.
Proof.
  intros out c E (pre & post & Hd & Hm). exists c, pre, post. split; [exact E|]. split; [|exact Hm].
  unfold binary. rewrite Hd. reflexivity.
Qed.

Lemma llgr_comm_not_opaque : forall c, llgr_comm_ok c -> is_opaque c = false.
Proof. intros c (pre & post & Hd & _). unfold is_opaque. rewrite Hd. reflexivity. Qed.

Theorem C09_llgr_stale_marked : forall x pol emax raddr cid c e r d pid nh out s,
  policy_keeps_decodable pol ->
  (forall p, In p (c_paths c) -> decodable (p_attrs p)) ->
  process_change x pol emax raddr cid c e = Ok r -> In (Reach d pid nh out s) (fst r) ->
  src_llgr s = true -> carries_llgr_stale out.
Proof.
  intros x pol emax raddr cid c e r d pid nh out s Hk Hd H Hin Hl.
  destruct (reach_origin _ _ _ _ _ _ _ _ _ _ _ _ _ H Hin) as (p & a & Hp & Hv & Hs & Hst & Hx).
  destruct (policy_stage_inv _ _ _ _ _ _ _ Hst) as (a1 & Hpol & Ha).
  assert (Hda : decodable a).
  { subst a. apply reflect_stage_decodable. eapply Hk; [|exact Hpol]. apply pre_policy_decodable. apply Hd. exact Hp. }
  unfold llgr_stage in Hx. rewrite <- Hs, Hl in Hx.
  destruct (llgr_stage_spec a Hda) as (cm & Ecm & Hcm).
  apply (llgr_comm_carries out cm); [|exact Hcm].
  apply (export_attrs_find_keep x _ out COMMUNITY cm Hx); try discriminate; try reflexivity; auto.
  apply llgr_comm_not_opaque. exact Hcm.
Qed.

(* (10) unknown attributes *)
Theorem C09_unknown_attr_rule : forall x pol emax raddr cid c e d pid nh out s,
  filter_only pol ->
  (forall p, In p (c_paths c) -> decodable (p_attrs p)) ->
  advertised x pol emax raddr cid c e d pid nh out s ->
  exists p, In p (c_paths c) /\ s = p_src p /\ unknown_rule_ok (p_attrs p) out.
Proof.
  intros x pol emax raddr cid c e d pid nh out s Hf Hd Hadv.
  destruct (advertised_filter_only _ _ _ _ _ _ _ _ _ _ _ _ Hf Hadv) as (p & Hp & Hv & Hs & Hnh & Hout).
  exists p. split; [exact Hp|]. split; [exact Hs|].
  pose proof (Hd p Hp) as Hdp.
  eapply unknown_rule_transfer; [|apply (export_attrs_unknown x _ out (staged_decodable x cid p (c_family c) Hdp) Hout)].
  eapply same_unknowns_trans; [apply (pre_policy_same_unknowns x (p_attrs p) (p_nh p) (c_family c) (src_is_local (p_src p)) Hdp)|].
  eapply same_unknowns_trans; [apply reflect_stage_same_unknowns; apply pre_policy_decodable; exact Hdp|].
  apply llgr_stage_same_unknowns. apply reflect_stage_decodable, pre_policy_decodable. exact Hdp.
Qed.

(* the rule itself holds for whatever attribute vector reaches export_attrs, with any policy *)
Theorem C09_unknown_attr_rule_any_policy : forall x attrs out,
  decodable attrs -> export_attrs x attrs = Ok out -> unknown_rule_ok attrs out.
Proof. exact export_attrs_unknown. Qed.

(* ================================================================ non-vacuity: concrete states that meet the hypotheses *)
Lemma filter_only_no_policy : filter_only no_policy.
Proof. intros s a nh onh ic r H. unfold no_policy in H. inversion H. reflexivity. Qed.

Definition ex_path_segs : list seg := [(3, [65010]); (2, [65002; 65003]); (1, [64512; 64513])].
Definition ex_attrs : list attr :=
  [ mk_val ORIGIN 64 0;
    mk_bin AS_PATH 64 (encode_path ex_path_segs);
    mk_val MED 128 10;
    mk_val LOCAL_PREF 64 200;
    mk_bin COMMUNITY 192 [253; 233; 0; 1];
    mk_bin AIGP 128 [1; 0; 11; 0; 0; 0; 0; 0; 0; 0; 5];
    {| a_code := 99; a_flags := 192; a_data := DOpaque [1; 2; 3] |};
    {| a_code := 200; a_flags := 128; a_data := DOpaque [7] |} ].

Lemma ex_path_wf : wf_path ex_path_segs.
Proof.
  unfold ex_path_segs, wf_path. repeat constructor; cbn; try lia.
Qed.

Lemma ex_attrs_decodable : decodable ex_attrs.
Proof.
  unfold decodable, ex_attrs. split; [|split]; intros a Hin.
  - intro Ho. cbn [In] in Hin.
    repeat (destruct Hin as [Hin|Hin]; [subst a; try discriminate; reflexivity|]). contradiction.
  - intro Hc. cbn [In] in Hin.
    repeat (destruct Hin as [Hin|Hin]; [subst a; try discriminate|]); [|contradiction].
    exists ex_path_segs. unfold is_path. cbn [mk_bin a_code a_data]. repeat split. apply ex_path_wf.
  - intro Hc. cbn [In] in Hin.
    repeat (destruct Hin as [Hin|Hin]; [subst a; try discriminate|]); [|contradiction].
    eexists. split; reflexivity.
Qed.

Definition ip4 (a b c d : N) : ipaddr := IP4 [a; b; c; d].
Definition ex_peer (r : role) (rasn : N) (llgr : bool) : peer_src :=
  {| ps_raddr := ip4 10 0 0 2; ps_rasn := rasn; ps_lasn := 65001; ps_rid := 167772162; ps_role := r; ps_llgr := llgr |}.
Definition ex_ctx (r : role) (confed : N) : ectx :=
  {| x_role := r; x_lasn := 65001; x_laddr := ip4 192 0 2 1; x_link := None; x_confed := confed |}.
Definition ex_change (s : source) : change :=
  {| c_family := 65537; c_dest := 1; c_best_changed := true; c_any_changed := true; c_replaced := None;
     c_paths := [ {| p_lpid := 1; p_src := s; p_nh := Some (NhV4 [10; 0; 0; 9]); p_attrs := ex_attrs |} ] |}.

Lemma ex_change_decodable : forall s p, In p (c_paths (ex_change s)) -> decodable (p_attrs p).
Proof. intros s p [H|[]]. subst p. apply ex_attrs_decodable. Qed.

Lemma ex_wf_ctx : forall r, wf_ctx (ex_ctx r 65100).
Proof. intro r. unfold wf_ctx. cbn. lia. Qed.

(* an LLGR-stale route learned from an eBGP peer is advertised to another eBGP peer
   (inside confederation 65100), best-only and Add-Path *)
Example ex_ebgp_advertised : exists nh out,
  advertised (ex_ctx Ebgp 65100) no_policy 1 (ip4 10 0 0 1) None (ex_change (SrcPeer (ex_peer Ebgp 65002 true))) ENone
             1 0 nh out (SrcPeer (ex_peer Ebgp 65002 true)).
Proof. do 3 eexists. split; [vm_compute; reflexivity | left; reflexivity]. Qed.

Example ex_ebgp_advertised_addpath : exists nh out,
  advertised (ex_ctx Ebgp 0) no_policy 4 (ip4 10 0 0 1) None (ex_change (SrcPeer (ex_peer Ebgp 65002 true))) (EAddPath [])
             1 1 nh out (SrcPeer (ex_peer Ebgp 65002 true)).
Proof. do 3 eexists. split; [vm_compute; reflexivity | left; reflexivity]. Qed.

(* a route learned from a route-reflector client is reflected to a non-client iBGP peer *)
Example ex_reflected : exists nh out,
  advertised (ex_ctx Ibgp 0) no_policy 1 (ip4 10 0 0 1) (Some 16909060) (ex_change (SrcPeer (ex_peer IbgpRrClient 65001 false))) ENone
             1 0 nh out (SrcPeer (ex_peer IbgpRrClient 65001 false))
  /\ ibgp_peer_source (SrcPeer (ex_peer IbgpRrClient 65001 false)).
Proof.
  do 2 eexists. split.
  - eexists. split; [vm_compute; reflexivity | left; reflexivity].
  - eexists. repeat split.
Qed.

(* ... whereas the same route learned from a non-client is not sent to that peer at all *)
Example ex_nonclient_suppressed :
  nonclient_ibgp_source (SrcPeer (ex_peer Ibgp 65001 false)) /\
  process_change (ex_ctx Ibgp 0) no_policy 1 (ip4 10 0 0 1) (Some 16909060)
                 (ex_change (SrcPeer (ex_peer Ibgp 65001 false))) ENone = Ok ([], ENone).
Proof. split; [eexists; repeat split | vm_compute; reflexivity]. Qed.

Example ex_confed_advertised : exists nh out,
  advertised (ex_ctx ConfedEbgp 65100) no_policy 1 (ip4 10 0 0 1) None (ex_change (SrcPeer (ex_peer Ebgp 65002 false))) ENone
             1 0 nh out (SrcPeer (ex_peer Ebgp 65002 false)).
Proof. do 3 eexists. split; [vm_compute; reflexivity | left; reflexivity]. Qed.

(* route-server clients exchange routes among themselves only *)
Example ex_rs_advertised : exists nh out,
  advertised (ex_ctx RsClient 0) no_policy 1 (ip4 10 0 0 1) None (ex_change (SrcPeer (ex_peer RsClient 65002 false))) ENone
             1 0 nh out (SrcPeer (ex_peer RsClient 65002 false)).
Proof. do 3 eexists. split; [vm_compute; reflexivity | left; reflexivity]. Qed.

Example ex_rs_boundary : crosses_rs_boundary (SrcPeer (ex_peer RsClient 65002 false)) Ebgp
  /\ process_change (ex_ctx Ebgp 0) no_policy 1 (ip4 10 0 0 1) None
                    (ex_change (SrcPeer (ex_peer RsClient 65002 false))) ENone = Ok ([], ENone).
Proof.
  split; [|vm_compute; reflexivity]. unfold crosses_rs_boundary. cbn. intros [H _]. specialize (H eq_refl). discriminate.
Qed.

Example ex_echo : learned_from (SrcPeer (ex_peer Ebgp 65002 false)) (ip4 10 0 0 2)
  /\ process_change (ex_ctx Ebgp 0) no_policy 1 (ip4 10 0 0 2) None
                    (ex_change (SrcPeer (ex_peer Ebgp 65002 false))) ENone = Ok ([], ENone).
Proof. split; [reflexivity | vm_compute; reflexivity]. Qed.

(* loops: each kind is a real state, and a loop-free route is installed *)
Definition ex_loop_path (asn : N) : list attr :=
  [ mk_val ORIGIN 64 0; mk_bin AS_PATH 64 (encode_path [(2, [65002; asn; 65003])]) ].

Lemma ex_loop_path_of : forall asn, asn < 4294967296 -> path_of (ex_loop_path asn) (Some [(2, [65002; asn; 65003])]).
Proof.
  intros asn Ha. cbn [path_of]. eexists. split; [reflexivity|]. unfold is_path. cbn [mk_bin a_code a_data].
  repeat split. repeat constructor; cbn; lia.
Qed.

Example ex_looped_as : looped (ex_ctx Ebgp 65100) 16777217 None (ex_loop_path 65001).
Proof. eapply LoopAs; [apply ex_loop_path_of; lia | cbn; auto]. Qed.
Example ex_looped_confed : looped (ex_ctx Ebgp 65100) 16777217 None (ex_loop_path 65100).
Proof. eapply LoopConfed; [apply ex_loop_path_of; lia | cbn; lia | cbn; auto]. Qed.
Example ex_looped_originator : looped (ex_ctx Ibgp 0) 16777217 (Some 16909060) [mk_val ORIGINATOR_ID 128 16777217].
Proof. eapply LoopOriginator; reflexivity. Qed.
Example ex_looped_cluster : looped (ex_ctx Ibgp 0) 16777217 (Some 16909060)
                                   [mk_bin CLUSTER_LIST 128 (cluster_list_bytes [33554434; 16909060; 50331651])].
Proof. eapply (LoopCluster _ _ _ _ _ 16909060 [33554434; 16909060; 50331651]); try reflexivity. cbn; auto. Qed.
Example ex_not_looped_installed : exists a, rx_reach (ex_ctx Ibgp 0) 16777217 (Some 16909060) (ex_loop_path 65009) = Ok (Some a).
Proof. eexists. vm_compute. reflexivity. Qed.

(* ================================================================ the LLGR period begins: the neighbour's view *)
Lemma view_after_app : forall o1 o2 d pid v,
  view_after (o1 ++ o2) d pid v = view_after o2 d pid (view_after o1 d pid v).
Proof.
  induction o1 as [|op o1 IH]; intros o2 d pid v; [reflexivity|].
  destruct op; cbn [app view_after]; apply IH.
Qed.

Lemma view_after_cases : forall ops d pid v0 v,
  view_after ops d pid v0 = Some v ->
  (exists nh s, In (Reach d pid nh v s) ops)
  \/ (v0 = Some v /\ forall op, In op ops -> touches d pid op = false).
Proof.
  induction ops as [|op ops IH]; intros d pid v0 v H.
  - cbn in H. right. split; [exact H | intros op []].
  - destruct op as [d' p' | d' p' nh a s]; cbn [view_after] in H.
    + destruct ((d' =? d) && (p' =? pid)) eqn:E.
      * destruct (IH _ _ _ _ H) as [(nh & s & Hin) | (Hv & _)]; [left; exists nh, s; right; exact Hin | discriminate].
      * destruct (IH _ _ _ _ H) as [(nh & s & Hin) | (Hv & Hn)]; [left; exists nh, s; right; exact Hin|].
        right. split; [exact Hv|]. intros op [Hop|Hop]; [subst op; exact E | apply Hn; exact Hop].
    + destruct ((d' =? d) && (p' =? pid)) eqn:E.
      * destruct (IH _ _ _ _ H) as [(nh' & s' & Hin) | (Hv & _)]; [left; exists nh', s'; right; exact Hin|].
        inversion Hv; subst a. apply andb_true_iff in E. destruct E as [E1 E2].
        apply N.eqb_eq in E1. apply N.eqb_eq in E2. subst. left. exists nh, s. left. reflexivity.
      * destruct (IH _ _ _ _ H) as [(nh' & s' & Hin) | (Hv & Hn)]; [left; exists nh', s'; right; exact Hin|].
        right. split; [exact Hv|]. intros op [Hop|Hop]; [subst op; exact E | apply Hn; exact Hop].
Qed.

Lemma firstn_single : forall A n (a : A), firstn n [a] = match n with O => [] | S _ => [a] end.
Proof. intros A n a. destruct n; [reflexivity|]. cbn [firstn]. rewrite firstn_nil. reflexivity. Qed.

(* ================================================================ real export policies: next-hop and MED actions *)
Lemma stmt_policy_inv : forall x raddr st default s a nh onh ic a1 nh1,
  stmt_policy x raddr st default s a nh onh ic = Some (a1, nh1) ->
  a1 = match st_med st with
       | None => a
       | Some act =>
         filter (fun t => negb (a_code t =? MED)) a
         ++ [mk_val MED FLAG_OPTIONAL
               (match act with
                | MedMod d => clamp_u32 (Z.of_N (match find_code MED a with
                                                  | Some m => match value m with Some v => v | None => 0 end
                                                  | None => 0 end) + d)
                | MedReplace v => clamp_u32 v
                end)]
       end.
Proof.
  intros x raddr st default s a nh onh ic a1 nh1 H. unfold stmt_policy in H.
  destruct (stmt_rejects st default); inversion H. unfold stmt_attrs. destruct (st_med st); reflexivity.
Qed.

Lemma stmt_policy_keeps_decodable : forall x raddr st default,
  policy_keeps_decodable (stmt_policy x raddr st default).
Proof.
  intros x raddr st default s a nh onh ic a' nh' Hd H. apply stmt_policy_inv in H. subst a'.
  destruct (st_med st) as [act|]; [|exact Hd].
  apply (decodable_ext a); [exact Hd|]. intros y Hy. apply in_app_or in Hy. destruct Hy as [Hy|[Hy|[]]].
  - apply filter_In in Hy. tauto.
  - right. subst y. unfold fresh_ok. cbn. repeat split; discriminate.
Qed.

(* a set-med export policy is not clobbered: towards an eBGP peer the MED sent is the
   one the policy computes from a cleared MED (the received one was removed first) *)
Theorem C09_ebgp_policy_med : forall x st default emax raddr cid c e d pid nh out s act,
  x_role x = Ebgp -> st_med st = Some act ->
  advertised x (stmt_policy x raddr st default) emax raddr cid c e d pid nh out s ->
  exists m, find_code MED out = Some m
    /\ a_data m = DVal (match act with MedMod dl => clamp_u32 dl | MedReplace v => clamp_u32 v end).
Proof.
  intros x st default emax raddr cid c e d pid nh out s act Hr Hact (r & H & Hin).
  destruct (reach_origin _ _ _ _ _ _ _ _ _ _ _ _ _ H Hin) as (p & a & Hp & Hv & Hs & Hst & Hx).
  destruct (policy_stage_inv _ _ _ _ _ _ _ Hst) as (a1 & Hpol & Ha).
  apply stmt_policy_inv in Hpol. rewrite Hact in Hpol.
  pose proof (pre_policy_no_med x (p_attrs p) (p_nh p) (c_family c) (src_is_local (p_src p)) Hr) as Hno.
  unfold absent in Hno. apply find_code_None in Hno. rewrite Hno in Hpol.
  set (m := mk_val MED FLAG_OPTIONAL (match act with MedMod dl => clamp_u32 (Z.of_N 0 + dl) | MedReplace v => clamp_u32 v end)) in Hpol.
  exists m. split.
  - apply (export_attrs_find_keep x _ out MED m Hx); try discriminate; try reflexivity.
    rewrite llgr_stage_find_other by discriminate. subst a. rewrite reflect_stage_find_other by discriminate.
    subst a1. rewrite find_code_app.
    assert (En : find_code MED (filter (fun t => negb (a_code t =? MED))
                   (fst (pre_policy_defaults x (p_attrs p) (p_nh p) (c_family c) (src_is_local (p_src p))))) = None).
    { apply find_code_None. apply has_code_filter_out. }
    rewrite En. reflexivity.
  - subst m. cbn [mk_val a_data]. destruct act; reflexivity.
Qed.

Example ex_policy_med : exists nh out m,
  advertised (ex_ctx Ebgp 0) (stmt_policy (ex_ctx Ebgp 0) (ip4 10 0 0 1) {| st_nh := Some NaUnchanged; st_med := Some (MedMod 7); st_disp := DAccept |} DReject)
             1 (ip4 10 0 0 1) None (ex_change (SrcPeer (ex_peer Ebgp 65002 false))) ENone
             1 0 nh out (SrcPeer (ex_peer Ebgp 65002 false))
  /\ find_code MED out = Some m /\ a_data m = DVal 7 /\ nh = Some (NhV4 [10; 0; 0; 9]).
Proof.
  do 3 eexists. split; [eexists; split; [vm_compute; reflexivity | left; reflexivity]|].
  split; [vm_compute; reflexivity | split; reflexivity].
Qed.

(* ================================================================ no panic on decodable input *)
Lemma rmap_ok : forall A B (f : A -> res B) l,
  (forall a, In a l -> exists b, f a = Ok b) -> exists l', rmap f l = Ok l'.
Proof.
  intros A B f. induction l as [|a l IH]; intro H; [exists []; reflexivity|].
  destruct (H a (or_introl eq_refl)) as [b Hb].
  destruct (IH (fun y Hy => H y (or_intror Hy))) as [l' Hl'].
  exists (b :: l'). cbn [rmap]. rewrite Hb. cbn [rbind]. rewrite Hl'. reflexivity.
Qed.

Lemma export_attrs_no_panic : forall x attrs,
  wf_ctx x -> decodable attrs -> exists out, export_attrs x attrs = Ok out.
Proof.
  intros x attrs Hx Hd.
  assert (Hasn : external_asn x < 4294967296).
  { destruct Hx as [H1 H2]. unfold external_asn. destruct (x_confed x =? 0); assumption. }
  destruct Hd as (_ & Hpath & _). unfold export_attrs. destruct (x_role x); cbv beta iota zeta.
  - rewrite external_asn_model.
    destruct (rmap_ok _ _ (fun a => if a_code a =? AS_PATH
                                    then rbind (as_path_strip_confed a) (as_path_prepend SEG_SEQ (external_asn x))
                                    else Ok a)
                (filter (fun a => negb (ebgp_strips (a_code a))) attrs)) as [l' Hl'].
    { intros a Ha. apply filter_In in Ha. destruct Ha as [Ha _]. destruct (a_code a =? AS_PATH) eqn:E; [|eauto].
      apply N.eqb_eq in E. destruct (Hpath a Ha E) as [segs Hs].
      destruct (ebgp_edit_path (external_asn x) a segs Hasn Hs) as (b & asns & rest & Eb & _).
      unfold ebgp_edit in Eb. apply N.eqb_eq in E. rewrite E in Eb. eauto. }
    rewrite Hl'. cbn [rbind]. destruct (has_code AS_PATH attrs); cbn [rbind]; [eauto|].
    destruct (as_path_prepend_is_path SEG_SEQ (external_asn x) empty_as_path [] empty_as_path_is_path
                ltac:(unfold SEG_SEQ; lia) Hasn) as (p & _ & _ & Ep & _).
    rewrite Ep. cbn [rbind]. eauto.
  - cbn [rbind]. eauto.
  - cbn [rbind]. eauto.
  - cbn [rbind]. eauto.
  - destruct Hx as [Hl _].
    destruct (rmap_ok _ _ (fun a => if a_code a =? AS_PATH then as_path_prepend SEG_CONFED_SEQ (x_lasn x) a else Ok a) attrs)
      as [l' Hl'].
    { intros a Ha. destruct (a_code a =? AS_PATH) eqn:E; [|eauto].
      apply N.eqb_eq in E. destruct (Hpath a Ha E) as [segs Hs].
      destruct (as_path_prepend_is_path SEG_CONFED_SEQ (x_lasn x) a segs Hs ltac:(unfold SEG_CONFED_SEQ; lia) Hl)
        as (b & _ & _ & Eb & _). eauto. }
    rewrite Hl'. cbn [rbind]. destruct (has_code AS_PATH attrs); cbn [rbind]; [eauto|].
    destruct (as_path_prepend_is_path SEG_CONFED_SEQ (x_lasn x) empty_as_path [] empty_as_path_is_path
                ltac:(unfold SEG_CONFED_SEQ; lia) Hl) as (p & _ & _ & Ep & _).
    rewrite Ep. cbn [rbind]. eauto.
Qed.

Lemma policy_stage_decodable : forall x pol cid fam p a nh,
  policy_keeps_decodable pol -> decodable (p_attrs p) ->
  policy_stage x pol cid fam p = Some (a, nh) -> decodable (llgr_stage p a).
Proof.
  intros x pol cid fam p a nh Hk Hd H.
  destruct (policy_stage_inv _ _ _ _ _ _ _ H) as (a1 & Hpol & Ha). subst a.
  apply llgr_stage_decodable, reflect_stage_decodable. eapply Hk; [|exact Hpol].
  apply pre_policy_decodable. exact Hd.
Qed.

Lemma addpath_reaches_no_panic : forall x d rep top e,
  wf_ctx x -> (forall pid a nh s, In (pid, a, nh, s) top -> decodable a) ->
  exists r, addpath_reaches x d rep e top = Ok r.
Proof.
  intros x d rep. induction top as [|[[[pid a] nh] s] t IH]; intros e Hx Hd; [eexists; reflexivity|].
  cbn [addpath_reaches].
  assert (Ht : forall pid a nh s, In (pid, a, nh, s) t -> decodable a) by (intros; eapply Hd; right; eassumption).
  destruct (negb (em_contains_path e d pid) || match rep with Some r0 => r0 =? pid | None => false end).
  - destruct (export_attrs_no_panic x a Hx (Hd pid a nh s (or_introl eq_refl))) as [a' Ea]. rewrite Ea. cbn [rbind].
    destruct (IH (em_mark_sent e d pid) Hx Ht) as [r Hr]. rewrite Hr. cbn [rbind]. eauto.
  - apply IH; assumption.
Qed.

(* process_nlri_change cannot panic on attribute vectors the decoder produces *)
Theorem C09_no_panic_on_decodable : forall x pol emax raddr cid c e,
  wf_ctx x -> policy_keeps_decodable pol ->
  (forall p, In p (c_paths c) -> decodable (p_attrs p)) ->
  exists r, process_change x pol emax raddr cid c e = Ok r.
Proof.
  intros x pol emax raddr cid c e Hx Hk Hd. unfold process_change. destruct (emax =? 1).
  - destruct (negb (c_best_changed c)); [eauto|].
    destruct (c_paths c) as [|best rest] eqn:Ep; [destruct (em_was_sent e (c_dest c)); eauto|].
    destruct (visible x raddr cid best); [|destruct (em_was_sent e (c_dest c)); eauto].
    destruct (policy_stage x pol cid (c_family c) best) as [[a nh]|] eqn:Es; [|destruct (em_was_sent e (c_dest c)); eauto].
    assert (Hb : decodable (p_attrs best)) by (apply Hd; try rewrite Ep; left; reflexivity).
    destruct (export_attrs_no_panic x _ Hx (policy_stage_decodable _ _ _ _ _ _ _ Hk Hb Es)) as [a' Ea].
    rewrite Ea. cbn [rbind]. eauto.
  - destruct (negb (c_any_changed c)); [eauto|].
    match goal with |- exists r, rbind (addpath_reaches _ _ _ ?e1 ?top) _ = _ =>
      destruct (addpath_reaches_no_panic x (c_dest c) (c_replaced c) top e1 Hx) as [r Hr] end.
    { intros pid a nh s Hin. apply in_flat_map in Hin. destruct Hin as (p & Hp & Hin).
      destruct (policy_stage x pol cid (c_family c) p) as [[a1 nh1]|] eqn:Es; [|contradiction].
      destruct Hin as [Hin|[]]. inversion Hin; subst.
      apply In_firstn in Hp. apply filter_In in Hp. destruct Hp as [Hp _].
      eapply policy_stage_decodable; [exact Hk | apply Hd; exact Hp | exact Es]. }
    rewrite Hr. cbn [rbind]. eauto.
Qed.

(* ================================================================ the segment view is unambiguous *)
Lemma read_asns_spec : forall asns r,
  Forall (fun a => a < 4294967296) asns ->
  read_asns (length asns) (flat_map be32 asns ++ r) = Some (asns, r).
Proof.
  induction asns as [|a asns IH]; intros r Hall; [reflexivity|].
  inversion Hall as [|? ? Ha Hrest]; subst.
  cbn [length flat_map be32 app read_asns]. rewrite (IH r Hrest), (rd32_be32 a Ha). reflexivity.
Qed.

Lemma parse_path_fuel_spec : forall p f,
  wf_path p -> (length p <= f)%nat -> parse_path_fuel f (encode_path p) = Some p.
Proof.
  induction p as [|[t asns] rest IH]; intros f Hwf Hf.
  - destruct f; reflexivity.
  - destruct f as [|f]; [cbn [length] in Hf; lia|].
    inversion Hwf as [|s l Hs Hl]; subst. destruct Hs as (_ & _ & Hall). cbn [snd] in Hall.
    rewrite encode_path_cons. cbn [parse_path_fuel]. rewrite Nat2N.id.
    rewrite (read_asns_spec asns _ Hall). rewrite (IH f Hl) by (cbn [length] in Hf; lia). reflexivity.
Qed.

Theorem parse_encode_path : forall p, wf_path p -> parse_path (encode_path p) = Some p.
Proof.
  intros p Hwf. unfold parse_path. apply parse_path_fuel_spec; [exact Hwf | apply encode_path_segments].
Qed.

Corollary encode_path_injective : forall p q, wf_path p -> wf_path q -> encode_path p = encode_path q -> p = q.
Proof.
  intros p q Hp Hq E. pose proof (parse_encode_path p Hp) as H1. pose proof (parse_encode_path q Hq) as H2.
  rewrite E in H1. congruence.
Qed.

(* ================================================================ LLGR refresh, any change and any export map *)
Lemma mem_In : forall x l, mem x l = true <-> In x l.
Proof.
  intros x. induction l as [|y l IH]; cbn [mem In]; [split; [discriminate | tauto]|].
  rewrite orb_true_iff, IH, N.eqb_eq. split; intros [H|H]; auto.
Qed.

Lemma In_insert_sorted : forall x y l, In x (insert_sorted y l) <-> x = y \/ In x l.
Proof.
  intros x y. induction l as [|z l IH]; cbn [insert_sorted]; [cbn; intuition|].
  destruct (y <=? z); cbn [In]; [intuition|]. rewrite IH. intuition.
Qed.

Lemma In_sort_n : forall x l, In x (sort_n l) <-> In x l.
Proof.
  intros x. induction l as [|y l IH]; [reflexivity|].
  unfold sort_n in *. cbn [fold_right]. rewrite In_insert_sorted, IH. cbn [In]. intuition.
Qed.

(* ================================================================ the filters are exactly the rules *)
Lemma ip_eqb_false : forall a b, ip_eqb a b = false <-> a <> b.
Proof.
  intros a b. split.
  - intros H E. apply ip_eqb_eq in E. congruence.
  - intro H. destruct (ip_eqb a b) eqn:E; [apply ip_eqb_eq in E; contradiction | reflexivity].
Qed.

(* echo filter + split horizon + route-server isolation let a path through exactly
   when BGP allows it to go to that receiver (for every source but the kernel
   pseudo-source, see kernel_routes_and_nonclient_ibgp) *)
Theorem C09_visible_iff_may_send : forall x raddr cid p,
  wf_source (p_src p) -> p_src p <> SrcKernel ->
  (visible x raddr cid p = true <-> may_send (p_src p) (x_role x) raddr cid).
Proof.
  intros x raddr cid p Hwf Hnk. unfold visible, may_send, learned_from.
  rewrite !andb_true_iff, !negb_true_iff. rewrite ip_eqb_false.
  assert (Hrs : rs_isolation_suppress (p_src p) (x_role x) = false <-> (src_role (p_src p) = RsClient <-> x_role x = RsClient)).
  { unfold rs_isolation_suppress, src_is_rs_client. rewrite negb_false_iff.
    destruct (role_eqb (src_role (p_src p)) RsClient) eqn:E1; destruct (role_eqb (x_role x) RsClient) eqn:E2; cbn [Bool.eqb].
    - apply role_eqb_eq in E1. apply role_eqb_eq in E2. tauto.
    - apply role_eqb_eq in E1. apply (proj1 (role_eqb_neq _ _)) in E2. split; [discriminate | intro H; exfalso; tauto].
    - apply (proj1 (role_eqb_neq _ _)) in E1. apply role_eqb_eq in E2. split; [discriminate | intro H; exfalso; tauto].
    - apply (proj1 (role_eqb_neq _ _)) in E1. apply (proj1 (role_eqb_neq _ _)) in E2. tauto. }
  rewrite Hrs.
  assert (Hsh : ibgp_split_horizon_suppress (p_src p) (x_role x) cid = false <->
                (ibgp_peer_source (p_src p) -> role_is_ibgp (x_role x) = true ->
                 cid <> None /\ (src_role (p_src p) = IbgpRrClient \/ x_role x = IbgpRrClient))).
  { unfold ibgp_split_horizon_suppress. destruct (role_is_ibgp (x_role x)) eqn:Ed; cbn [negb].
    2:{ split; [intros _ _ H; discriminate | reflexivity]. }
    destruct (p_src p) as [| |ps] eqn:Es.
    - cbn. split; [|reflexivity]. intros _ (q & Hq & _). discriminate.
    - contradiction.
    - unfold is_ibgp_learned. cbn [src_is_local negb andb src_rasn src_lasn].
      pose proof (Hwf ps eq_refl) as Hw.
      destruct (ps_rasn ps =? ps_lasn ps) eqn:Ea; cbn [negb].
      + apply N.eqb_eq in Ea. pose proof (proj1 Hw Ea) as Hrole.
        assert (Hps : ibgp_peer_source (SrcPeer ps)) by (exists ps; auto).
        unfold src_is_rr_client. cbn [src_role].
        destruct cid as [cl|].
        * rewrite andb_false_iff, negb_false_iff, role_eqb_eq, role_eqb_neq. split.
          -- intros [H|H] _ _; split; try discriminate; [left; exact H|].
             right. destruct (x_role x); try discriminate; [contradiction | reflexivity].
          -- intro H. destruct (H Hps eq_refl) as [_ [H1|H1]]; [left; exact H1 | right; rewrite H1; discriminate].
        * split; [discriminate|]. intro H. destruct (H Hps eq_refl) as [H1 _]. contradiction.
      + split; [|reflexivity]. intros _ (q & Hq & _ & Hqa). inversion Hq; subst q.
        apply N.eqb_neq in Ea. contradiction. }
  rewrite Hsh. tauto.
Qed.

(* the exception: the kernel pseudo-source has remote_asn = local_asn = 0 and is not
   Source::local(), so is_ibgp_learned holds of it; kernel-redistributed routes are
   withheld from non-client iBGP peers (and reflected, with ORIGINATOR_ID 0.0.0.0,
   to clients).  The property text does not forbid this; it is recorded here because
   the model is faithful to it. *)
Lemma kernel_routes_and_nonclient_ibgp : forall x raddr cid nh attrs lpid,
  x_role x = Ibgp ->
  visible x raddr cid {| p_lpid := lpid; p_src := SrcKernel; p_nh := nh; p_attrs := attrs |} = false.
Proof.
  intros x raddr cid nh attrs lpid Hr. unfold visible. cbn [p_src].
  assert (H : ibgp_split_horizon_suppress SrcKernel (x_role x) cid = true).
  { unfold ibgp_split_horizon_suppress. rewrite Hr. cbn. destruct cid; reflexivity. }
  rewrite H. cbn [negb]. rewrite andb_false_r. reflexivity.
Qed.

(* best-only branch, completeness: a best path that may be sent and that the policy
   accepts IS advertised, with the rewritten attributes; otherwise what was sent is
   withdrawn *)
Theorem C09_best_only_complete : forall x pol raddr cid c e best rest,
  c_best_changed c = true -> c_paths c = best :: rest ->
  (forall a nh out,
     visible x raddr cid best = true ->
     policy_stage x pol cid (c_family c) best = Some (a, nh) ->
     export_attrs x (llgr_stage best a) = Ok out ->
     process_change x pol 1 raddr cid c e
     = Ok ([Reach (c_dest c) 0 nh out (p_src best)], em_mark_sent e (c_dest c) 0))
  /\ ((visible x raddr cid best = false \/ policy_stage x pol cid (c_family c) best = None) ->
      process_change x pol 1 raddr cid c e
      = if em_was_sent e (c_dest c)
        then Ok ([Unreach (c_dest c) 0], em_mark_withdrawn e (c_dest c) 0)
        else Ok ([], e)).
Proof.
  intros x pol raddr cid c e best rest Hb Hp. unfold process_change. cbn [N.eqb Pos.eqb].
  rewrite Hb, Hp. cbn [negb andb]. split.
  - intros a nh out Hv Hs Hx. rewrite Hv, Hs, Hx. reflexivity.
  - intros [Hv|Hs].
    + rewrite Hv. reflexivity.
    + destruct (visible x raddr cid best); [rewrite Hs|]; reflexivity.
Qed.

Example ex_wf_source : forall r rasn l, (rasn = 65001 <-> role_is_ibgp r = true) -> wf_source (SrcPeer (ex_peer r rasn l)).
Proof. intros r rasn l H ps E. inversion E; subst ps. cbn. exact H. Qed.

(* ================================================================ histories: the neighbour's Adj-RIB-In *)
Lemma run_changes_reach : forall x pol emax raddr cid cs e r d pid nh out s,
  run_changes x pol emax raddr cid cs e = Ok r -> In (Reach d pid nh out s) (fst r) ->
  exists c e', In c cs /\ advertised x pol emax raddr cid c e' d pid nh out s.
Proof.
  intros x pol emax raddr cid. induction cs as [|c t IH]; intros e r d pid nh out s H Hin.
  - cbn in H. inversion H; subst. contradiction.
  - cbn [run_changes] in H.
    destruct (process_change x pol emax raddr cid c e) as [r1|] eqn:E1; [|discriminate]. cbn [rbind] in H.
    destruct (run_changes x pol emax raddr cid t (snd r1)) as [r2|] eqn:E2; [|discriminate]. cbn [rbind] in H.
    inversion H; subst r. cbn [fst] in Hin. apply in_app_or in Hin. destruct Hin as [Hin|Hin].
    + exists c, e. split; [left; reflexivity|]. exists r1. auto.
    + destruct (IH _ _ _ _ _ _ _ E2 Hin) as (c' & e' & Hc & Ha). exists c', e'. split; [right; exact Hc | exact Ha].
Qed.

(* Whatever sequence of changes a neighbour's task processes, starting from any export
   map: every entry of the Adj-RIB-In it builds from the messages (the view) was put
   there by an advertisement that respects the three "never" rules; towards an eBGP
   peer no entry carries an iBGP-only attribute, whatever the export policy. *)
Theorem C09_history_view_allowed : forall x pol emax raddr cid cs e r d pid v,
  run_changes x pol emax raddr cid cs e = Ok r ->
  view_after (fst r) d pid None = Some v ->
  exists nh s, In (Reach d pid nh v s) (fst r)
    /\ ~ learned_from s raddr
    /\ ~ crosses_rs_boundary s (x_role x)
    /\ (x_role x = Ibgp -> ~ nonclient_ibgp_source s)
    /\ (x_role x = Ebgp -> ebgp_strips_ok v).
Proof.
  intros x pol emax raddr cid cs e r d pid v H Hv.
  destruct (view_after_cases _ _ _ _ _ Hv) as [(nh & s & Hin) | (Hn & _)]; [|discriminate].
  exists nh, s. split; [exact Hin|].
  destruct (run_changes_reach _ _ _ _ _ _ _ _ _ _ _ _ _ H Hin) as (c & e' & _ & Ha).
  split; [exact (C09_no_echo _ _ _ _ _ _ _ _ _ _ _ _ Ha)|].
  split; [exact (C09_no_rs_boundary_crossing _ _ _ _ _ _ _ _ _ _ _ _ Ha)|].
  split; [intro Hr; exact (C09_no_ibgp_nonclient_to_nonclient _ _ _ _ _ _ _ _ _ _ _ _ Ha Hr)|].
  intro Hr. exact (proj1 (C09_ebgp_any_policy _ _ _ _ _ _ _ _ _ _ _ _ Hr Ha)).
Qed.

Example ex_history : exists r v,
  run_changes (ex_ctx Ebgp 0) no_policy 1 (ip4 10 0 0 1) None
              [ex_change (SrcPeer (ex_peer Ebgp 65002 false)); ex_change (SrcPeer (ex_peer RsClient 65002 false));
               ex_change (SrcPeer (ex_peer Ebgp 65003 true))] ENone = Ok r
  /\ view_after (fst r) 1 0 None = Some v.
Proof. do 2 eexists. split; vm_compute; reflexivity. Qed.

(* ================================================================ export policies that can panic *)
Lemma policy_stage_r_lower : forall x polr cid fam p o,
  policy_stage_r x polr cid fam p = Ok o -> policy_stage x (lower_policy polr) cid fam p = o.
Proof.
  intros x polr cid fam p o H. unfold policy_stage_r in H. unfold policy_stage, lower_policy.
  destruct (pre_policy_defaults x (p_attrs p) (p_nh p) fam (src_is_local (p_src p))) as [a0 nh0].
  destruct (polr (p_src p) a0 nh0 (p_nh p) (role_eqb (x_role x) ConfedEbgp)) as [[[a1 nh1]|]|]; cbn [rbind] in H;
    try discriminate; inversion H; reflexivity.
Qed.

Lemma top_n_r_lower : forall x polr cid fam cand top,
  top_n_r x polr cid fam cand = Ok top ->
  flat_map (fun p => match policy_stage x (lower_policy polr) cid fam p with
                     | None => []
                     | Some (a, nh) => [(p_lpid p, llgr_stage p a, nh, p_src p)]
                     end) cand = top.
Proof.
  intros x polr cid fam. induction cand as [|p t IH]; intros top H.
  - cbn in H. inversion H. reflexivity.
  - cbn [top_n_r] in H. destruct (policy_stage_r x polr cid fam p) as [o|] eqn:Eo; [|discriminate].
    cbn [rbind] in H. destruct (top_n_r x polr cid fam t) as [r|] eqn:Er; [|discriminate]. cbn [rbind] in H.
    inversion H; subst top. cbn [flat_map]. rewrite (policy_stage_r_lower _ _ _ _ _ _ Eo), (IH r eq_refl).
    destruct o as [[a nh]|]; reflexivity.
Qed.

(* a call that survives a panicking policy is a call with the policy that answers on the
   inputs it survives: everything proved about process_change carries over *)
Theorem C09_process_change_r_lower : forall x polr emax raddr cid c e r,
  process_change_r x polr emax raddr cid c e = Ok r ->
  process_change x (lower_policy polr) emax raddr cid c e = Ok r.
Proof.
  intros x polr emax raddr cid c e r H. unfold process_change_r in H. unfold process_change.
  destruct (emax =? 1).
  - destruct (negb (c_best_changed c)); [exact H|].
    destruct (c_paths c) as [|best rest]; [exact H|].
    destruct (visible x raddr cid best); [|exact H].
    destruct (policy_stage_r x polr cid (c_family c) best) as [o|] eqn:Eo; [|discriminate].
    rewrite (policy_stage_r_lower _ _ _ _ _ _ Eo). cbn [rbind] in H. destruct o as [[a nh]|]; exact H.
  - destruct (negb (c_any_changed c)); [exact H|].
    destruct (top_n_r x polr cid (c_family c) (firstn (N.to_nat emax) (filter (visible x raddr cid) (c_paths c))))
      as [top|] eqn:Et; [|discriminate].
    cbn [rbind] in H. rewrite (top_n_r_lower _ _ _ _ _ _ Et). exact H.
Qed.

Lemma policy_stage_r_lift : forall x pol cid fam p,
  policy_stage_r x (lift_policy pol) cid fam p = Ok (policy_stage x pol cid fam p).
Proof.
  intros x pol cid fam p. unfold policy_stage_r, policy_stage, lift_policy.
  destruct (pre_policy_defaults x (p_attrs p) (p_nh p) fam (src_is_local (p_src p))) as [a0 nh0].
  cbn [rbind]. destruct (pol (p_src p) a0 nh0 (p_nh p) (role_eqb (x_role x) ConfedEbgp)) as [[a1 nh1]|]; reflexivity.
Qed.

Lemma top_n_r_lift : forall x pol cid fam cand,
  top_n_r x (lift_policy pol) cid fam cand
  = Ok (flat_map (fun p => match policy_stage x pol cid fam p with
                           | None => []
                           | Some (a, nh) => [(p_lpid p, llgr_stage p a, nh, p_src p)]
                           end) cand).
Proof.
  intros x pol cid fam. induction cand as [|p t IH]; [reflexivity|].
  cbn [top_n_r flat_map]. rewrite policy_stage_r_lift, IH. cbn [rbind].
  destruct (policy_stage x pol cid fam p) as [[a nh]|]; reflexivity.
Qed.

(* and with a policy that never panics the two functions are the same *)
Theorem C09_process_change_r_lift : forall x pol emax raddr cid c e,
  process_change_r x (lift_policy pol) emax raddr cid c e = process_change x pol emax raddr cid c e.
Proof.
  intros x pol emax raddr cid c e. unfold process_change_r, process_change.
  destruct (emax =? 1).
  - destruct (negb (c_best_changed c)); [reflexivity|].
    destruct (c_paths c) as [|best rest]; [reflexivity|].
    destruct (visible x raddr cid best); [|reflexivity].
    rewrite policy_stage_r_lift. cbn [rbind]. destruct (policy_stage x pol cid (c_family c) best) as [[a nh]|]; reflexivity.
  - destruct (negb (c_any_changed c)); [reflexivity|]. rewrite top_n_r_lift. reflexivity.
Qed.

(* ================================================================ the as-prepend action and the export rewrite *)
Lemma repeat_shift : forall A (x : A) k l, repeat x k ++ x :: l = x :: repeat x k ++ l.
Proof. intros A x. induction k as [|k IH]; intro l; [reflexivity|]. cbn [repeat app]. rewrite IH. reflexivity. Qed.

Lemma prepend_n_is_path : forall k ty asn a p,
  is_path a p -> 1 <= ty <= 4 -> asn < 4294967296 ->
  exists b q, prepend_n k ty asn a = Ok b /\ is_path b q /\ tflat q = repeat (ty, asn) k ++ tflat p.
Proof.
  induction k as [|k IH]; intros ty asn a p Hp Hty Ha.
  - exists a, p. auto.
  - destruct (as_path_prepend_is_path ty asn a p Hp Hty Ha) as (b1 & asns & rest & E1 & Hp1 & F1).
    destruct (IH ty asn b1 _ Hp1 Hty Ha) as (b & q & E & Hq & F).
    exists b, q. cbn [prepend_n]. rewrite E1. cbn [rbind]. split; [exact E|]. split; [exact Hq|].
    rewrite F, F1. cbn [repeat app]. apply repeat_shift.
Qed.

Lemma tflat_strip : forall q,
  tflat (strip_confed_spec q) = filter (fun ta => negb ((fst ta =? 3) || (fst ta =? 4))) (tflat q).
Proof.
  induction q as [|[t asns] q IH]; [reflexivity|].
  rewrite strip_confed_spec_cons. unfold tflat at 2. cbn [flat_map]. rewrite filter_app. fold (tflat q). rewrite <- IH.
  unfold confed_seg. cbn [fst snd].
  assert (Hm : forall b : bool, filter (fun ta : N * N => negb ((fst ta =? 3) || (fst ta =? 4))) (map (fun a => (t, a)) asns)
                         = if negb ((t =? 3) || (t =? 4)) then map (fun a => (t, a)) asns else []).
  { intros _. induction asns as [|a asns IHa]; [destruct (negb _); reflexivity|].
    cbn [map filter fst]. rewrite IHa. destruct (negb ((t =? 3) || (t =? 4))); reflexivity. }
  rewrite (Hm true). destruct ((t =? 3) || (t =? 4)); cbn [negb]; [reflexivity|].
  unfold tflat. cbn [flat_map fst snd]. reflexivity.
Qed.

Lemma filter_repeat_seq : forall asn k,
  filter (fun ta : N * N => negb ((fst ta =? 3) || (fst ta =? 4))) (repeat (2, asn) k) = repeat (2, asn) k.
Proof. intros asn. induction k as [|k IH]; [reflexivity|]. cbn [repeat filter fst]. cbn. f_equal. exact IH. Qed.

Lemma stmt_attrs_find_other : forall st a c, c <> MED -> find_code c (stmt_attrs st a) = find_code c a.
Proof.
  intros st a c Hc. unfold stmt_attrs. destruct (st_med st); [|reflexivity].
  rewrite find_code_app. rewrite find_code_filter by (intros y Hy; apply negb_true_iff; apply N.eqb_neq; congruence).
  destruct (find_code c a); [reflexivity|]. rewrite find_code_cons. cbn [mk_val a_code].
  assert (E : MED =? c = false) by (apply N.eqb_neq; congruence). rewrite E. reflexivity.
Qed.

(* apply_prepend on a decodable vector: the (first) AS_PATH is replaced by one that has
   the AS k times in front, in a segment of the kind the receiver calls for *)
Lemma apply_prepend_spec : forall ic pa attrs pin,
  pa_left_most pa = false -> pa_asn pa < 4294967296 -> pa_repeat pa <> 0 ->
  path_of attrs pin ->
  exists a2 q, apply_prepend ic pa attrs = Ok a2 /\ path_of a2 (Some q)
    /\ tflat q = repeat (if ic then 3 else 2, pa_asn pa) (N.to_nat (pa_repeat pa)) ++ tflat (segs_of pin).
Proof.
  intros ic pa attrs pin Hl Ha Hr Hpin. unfold apply_prepend.
  apply N.eqb_neq in Hr. rewrite Hr, Hl.
  assert (Hex : is_path (match find_code AS_PATH attrs with Some p => p | None => empty_as_path end) (segs_of pin)).
  { destruct pin as [segs|]; cbn [path_of segs_of] in *.
    - destruct Hpin as (a & Ea & Hp). rewrite Ea. exact Hp.
    - rewrite Hpin. apply empty_as_path_is_path. }
  assert (Hty : 1 <= (if ic then SEG_CONFED_SEQ else SEG_SEQ) <= 4) by (destruct ic; unfold SEG_CONFED_SEQ, SEG_SEQ; lia).
  destruct (prepend_n_is_path (N.to_nat (pa_repeat pa)) _ (pa_asn pa) _ _ Hex Hty Ha) as (b & q & E & Hq & F).
  cbn [rbind]. rewrite E. cbn [rbind]. eexists. exists q. split; [reflexivity|]. split.
  - cbn [path_of]. exists b. split; [|exact Hq]. rewrite find_code_app.
    assert (En : find_code AS_PATH (filter (fun t => negb (a_code t =? AS_PATH)) attrs) = None)
      by (apply find_code_None; apply has_code_filter_out).
    rewrite En. rewrite find_code_cons. destruct Hq as (Hc & _). rewrite Hc, N.eqb_refl. reflexivity.
  - rewrite F. destruct ic; reflexivity.
Qed.

(* The as-prepend action of an export policy composes with the role rewrite as it must:
   towards an eBGP peer the prepended copies sit, in an AS_SEQUENCE, between the local AS
   and the path without its confederation segments; towards a confed-eBGP peer they sit
   in the AS_CONFED_SEQUENCE behind the member AS (process_nlri_change passes
   is_confed = (role == ConfedEbgp) to table::apply_export). *)
Theorem C09_policy_prepend_then_export : forall x st pa default emax raddr cid c e r d pid nh out s,
  wf_ctx x -> (x_role x = Ebgp \/ x_role x = ConfedEbgp) ->
  pa_left_most pa = false -> pa_asn pa < 4294967296 -> pa_repeat pa <> 0 ->
  (forall p, In p (c_paths c) -> decodable (p_attrs p)) ->
  process_change_r x (stmt_policy_r x raddr st (Some pa) default) emax raddr cid c e = Ok r ->
  In (Reach d pid nh out s) (fst r) ->
  exists p, In p (c_paths c) /\ s = p_src p /\
    forall pin, path_of (p_attrs p) pin ->
    exists segs', path_of out (Some segs') /\
      tflat segs' =
      if role_eqb (x_role x) ConfedEbgp
      then (3, x_lasn x) :: repeat (3, pa_asn pa) (N.to_nat (pa_repeat pa)) ++ tflat (segs_of pin)
      else (2, external_asn x) :: repeat (2, pa_asn pa) (N.to_nat (pa_repeat pa))
                                 ++ tflat (strip_confed_spec (segs_of pin)).
Proof.
  intros x st pa default emax raddr cid c e r d pid nh out s Hx Hrole Hl Ha Hrep Hd H Hin.
  apply C09_process_change_r_lower in H.
  destruct (reach_origin _ _ _ _ _ _ _ _ _ _ _ _ _ H Hin) as (p & a & Hp & Hv & Hs & Hst & Hxp).
  exists p. split; [exact Hp|]. split; [exact Hs|]. intros pin Hpin.
  destruct (policy_stage_inv _ _ _ _ _ _ _ Hst) as (a1 & Hpol & Haa).
  unfold lower_policy, stmt_policy_r in Hpol.
  set (a0 := fst (pre_policy_defaults x (p_attrs p) (p_nh p) (c_family c) (src_is_local (p_src p)))) in *.
  assert (Hpin0 : path_of (stmt_attrs st a0) pin).
  { eapply path_of_transfer; [|exact Hpin]. rewrite stmt_attrs_find_other by discriminate.
    unfold a0. apply pre_policy_find_other. discriminate. }
  destruct (apply_prepend_spec (role_eqb (x_role x) ConfedEbgp) pa _ pin Hl Ha Hrep Hpin0) as (a2 & q & E2 & Hq & F).
  rewrite E2 in Hpol. cbn [rbind] in Hpol. destruct (stmt_rejects st default); [discriminate|].
  inversion Hpol; subst a1. clear Hpol.
  assert (Hqa : path_of (llgr_stage p a) (Some q)).
  { eapply path_of_transfer; [|exact Hq]. rewrite llgr_stage_find_other by discriminate. subst a.
    apply reflect_stage_find_other; discriminate. }
  destruct Hrole as [Hr|Hr].
  - destruct (export_attrs_ebgp_spec x _ out (Some q) Hx Hr Hqa Hxp) as ((segs' & Hs' & Fs) & _).
    exists segs'. split; [exact Hs'|]. rewrite Hr. cbn [role_eqb role_code N.eqb Pos.eqb].
    rewrite Fs. cbn [segs_of]. rewrite tflat_strip, F. rewrite Hr. cbn [role_eqb role_code N.eqb Pos.eqb].
    rewrite filter_app, filter_repeat_seq, <- tflat_strip. reflexivity.
  - destruct (export_attrs_confed_spec x _ out (Some q) Hx Hr Hqa Hxp) as (rest & asns & Hs' & Fs).
    exists ((3, x_lasn x :: asns) :: rest). split; [exact Hs'|]. rewrite Hr. cbn [role_eqb role_code N.eqb Pos.eqb].
    rewrite Fs. cbn [segs_of]. rewrite F, Hr. reflexivity.
Qed.

Example ex_policy_prepend : exists r nh out segs',
  process_change_r (ex_ctx ConfedEbgp 65100)
    (stmt_policy_r (ex_ctx ConfedEbgp 65100) (ip4 10 0 0 1) {| st_nh := None; st_med := None; st_disp := DAccept |}
                   (Some {| pa_asn := 65009; pa_repeat := 2; pa_left_most := false |}) DReject)
    1 (ip4 10 0 0 1) None (ex_change (SrcPeer (ex_peer Ebgp 65002 false))) ENone = Ok r
  /\ In (Reach 1 0 nh out (SrcPeer (ex_peer Ebgp 65002 false))) (fst r)
  /\ find_code AS_PATH out = Some (mk_bin AS_PATH 64 (encode_path segs'))
  /\ tflat segs' = (3, 65001) :: (3, 65009) :: (3, 65009) :: tflat ex_path_segs.
Proof.
  eexists. eexists. eexists. exists [(3, [65001; 65009; 65009; 65010]); (2, [65002; 65003]); (1, [64512; 64513])].
  split; [vm_compute; reflexivity|]. split; [left; reflexivity|]. split; reflexivity.
Qed.

(* ================================================================ the receive side, both directions *)
Lemma be32_injective : forall a b, a < 4294967296 -> b < 4294967296 -> be32 a = be32 b -> a = b.
Proof.
  intros a b Ha Hb E. rewrite <- (rd32_be32 a Ha), <- (rd32_be32 b Hb).
  unfold be32 in E. inversion E as [[E1 E2 E3 E4]]. rewrite E1, E2, E3, E4. reflexivity.
Qed.

Lemma chunks4_any_In_rev : forall c ids f,
  c < 4294967296 -> Forall (fun i => i < 4294967296) ids ->
  chunks4_any f (be32 c) (flat_map be32 ids) = true -> In c ids.
Proof.
  intros c. induction ids as [|i ids IH]; intros f Hc Hall H.
  - destruct f; discriminate.
  - destruct f as [|f]; [discriminate|]. inversion Hall as [|? ? Hi Hrest]; subst.
    cbn [flat_map] in H.
    change (be32 i ++ flat_map be32 ids) with
      ((i / 16777216) mod 256 :: (i / 65536) mod 256 :: (i / 256) mod 256 :: i mod 256 :: flat_map be32 ids) in H.
    cbn [chunks4_any firstn skipn] in H. apply orb_true_iff in H. destruct H as [H|H].
    + left. apply bytes_eqb_eq in H. apply be32_injective; auto.
    + right. exact (IH f Hc Hrest H).
Qed.

(* (4, converse) a route that is none of the four loops IS handed to insert_route, with
   LOCAL_PREF defaulted on iBGP sessions: the drops of the receive path are exactly the loops *)
Theorem C09_loop_free_installed : forall x rid cid attrs pin,
  path_of attrs pin ->
  (forall a, find_code ORIGINATOR_ID attrs = Some a -> exists v, a_data a = DVal v) ->
  (forall a c, cid = Some c -> find_code CLUSTER_LIST attrs = Some a ->
     c < 4294967296 /\ exists ids, binary a = Some (cluster_list_bytes ids) /\ Forall (fun i => i < 4294967296) ids) ->
  ~ looped x rid cid attrs ->
  rx_reach x rid cid attrs = Ok (Some (rx_attrs x attrs)).
Proof.
  intros x rid cid attrs pin Hpin Ho Hc Hnl. unfold rx_reach, rx_attrs.
  assert (Hloop : is_as_loop attrs (x_lasn x) (x_confed x) = Ok false).
  { unfold is_as_loop. destruct pin as [segs|]; cbn [path_of] in Hpin.
    - destruct Hpin as (a & Ea & Hp). rewrite Ea.
      destruct (as_path_has_spec a segs (x_lasn x) Hp) as (b1 & E1 & H1). rewrite E1. cbn [rbind].
      destruct b1.
      + exfalso. apply Hnl. eapply LoopAs; [exists a; eauto | apply H1; reflexivity].
      + destruct (x_confed x =? 0) eqn:Ez; cbn [negb andb]; [reflexivity|].
        destruct (x_confed x =? x_lasn x); cbn [negb]; [reflexivity|].
        destruct (as_path_has_spec a segs (x_confed x) Hp) as (b2 & E2 & H2). rewrite E2.
        destruct b2; [|reflexivity]. exfalso. apply Hnl.
        eapply LoopConfed; [exists a; eauto | apply N.eqb_neq; exact Ez | apply H2; reflexivity].
    - rewrite Hpin. reflexivity. }
  rewrite Hloop. cbn [rbind].
  assert (Hdrop : rr_loop_drop attrs rid cid = false).
  { unfold rr_loop_drop. apply orb_false_iff. split.
    - destruct (find_code ORIGINATOR_ID attrs) as [a|] eqn:Ea; [|reflexivity].
      destruct (Ho a eq_refl) as [v Hv]. unfold value. rewrite Hv.
      destruct (v =? rid) eqn:Ev; [|reflexivity]. apply N.eqb_eq in Ev. subst v.
      exfalso. apply Hnl. eapply LoopOriginator; eauto.
    - destruct cid as [c|]; [|reflexivity].
      destruct (find_code CLUSTER_LIST attrs) as [a|] eqn:Ea; [|reflexivity].
      destruct (Hc a c eq_refl eq_refl) as (Hcl & ids & Hb & Hall). rewrite Hb.
      destruct (chunks4_contains (be32 c) (cluster_list_bytes ids)) eqn:Ec; [|reflexivity].
      exfalso. apply Hnl. eapply (LoopCluster _ _ _ _ a c ids); eauto.
      unfold chunks4_contains, cluster_list_bytes in Ec. eapply chunks4_any_In_rev; eauto. }
  rewrite Hdrop. reflexivity.
Qed.

(* ================================================================ the RTC filter is a wrapper around the policy *)
(* process_nlri_change asks RtcFilter::allows about the attributes of the path as stored,
   the model's with_rtc about the attributes after pre_policy_defaults: the same answer,
   because allows reads EXTENDED_COMMUNITY attributes only and pre_policy_defaults
   removes MED attributes only *)
Lemma rtc_allows_pre_policy : forall acc rts x attrs nh fam il,
  rtc_allows acc rts (fst (pre_policy_defaults x attrs nh fam il)) = rtc_allows acc rts attrs.
Proof.
  intros acc rts x attrs nh fam il. unfold pre_policy_defaults. cbn [fst].
  destruct (role_eqb (x_role x) Ebgp); [|reflexivity].
  unfold rtc_allows. f_equal. induction attrs as [|a l IH]; [reflexivity|].
  cbn [filter]. destruct (a_code a =? MED) eqn:E; cbn [negb existsb].
  - rewrite IH. apply N.eqb_eq in E. rewrite E. cbn. reflexivity.
  - rewrite IH. reflexivity.
Qed.

(* ================================================================ the export map tracks the neighbour's view (best-only) *)
Lemma mem_add_n : forall x y l, mem x (add_n y l) = (x =? y) || mem x l.
Proof.
  intros x y l. unfold add_n. destruct (mem y l) eqn:E.
  - destruct (x =? y) eqn:Exy; [apply N.eqb_eq in Exy; subst; rewrite E; reflexivity | reflexivity].
  - induction l as [|z l IH]; cbn [app mem]; [rewrite orb_false_r; reflexivity|].
    cbn [mem] in E. apply orb_false_iff in E. destruct E as [_ E]. rewrite (IH E).
    destruct (x =? z), (x =? y); reflexivity.
Qed.

Lemma mem_remove_n : forall x y l, mem x (remove_n y l) = negb (x =? y) && mem x l.
Proof.
  intros x y. induction l as [|z l IH]; [cbn; rewrite andb_false_r; reflexivity|].
  cbn [remove_n]. destruct (y =? z) eqn:Eyz.
  - rewrite IH. cbn [mem]. apply N.eqb_eq in Eyz. subst z. destruct (x =? y); reflexivity.
  - cbn [mem]. rewrite IH. destruct (x =? z) eqn:Exz; [|reflexivity].
    apply N.eqb_eq in Exz. subst z. rewrite N.eqb_sym, Eyz. reflexivity.
Qed.

Lemma was_sent_mark_sent : forall e d d', not_addpath e ->
  em_was_sent (em_mark_sent e d 0) d' = (d' =? d) || em_was_sent e d'.
Proof.
  intros e d d' H. destruct e as [|s|m]; [|apply mem_add_n|contradiction].
  cbn [em_mark_sent em_was_sent mem]. rewrite orb_false_r. reflexivity.
Qed.

Lemma was_sent_mark_withdrawn : forall e d d', not_addpath e ->
  em_was_sent (em_mark_withdrawn e d 0) d' = negb (d' =? d) && em_was_sent e d'.
Proof.
  intros e d d' H. destruct e as [|s|m]; [|apply mem_remove_n|contradiction].
  cbn. rewrite andb_false_r. reflexivity.
Qed.

Lemma not_addpath_step : forall e d, not_addpath e -> not_addpath (em_mark_sent e d 0) /\ not_addpath (em_mark_withdrawn e d 0).
Proof.
  intros e d H. destruct e as [|s|m]; [cbn; auto | | contradiction].
  cbn [em_mark_sent em_mark_withdrawn not_addpath]. auto.
Qed.

(* One call on a best-only session: afterwards ExportMap::was_sent says, for every
   destination, whether the neighbour holds a route for it, provided it said so before. *)
Theorem C09_export_map_tracks_view : forall x pol raddr cid c e r,
  not_addpath e ->
  process_change x pol 1 raddr cid c e = Ok r ->
  not_addpath (snd r)
  /\ forall d v0, has_entry v0 = em_was_sent e d ->
       has_entry (view_after (fst r) d 0 v0) = em_was_sent (snd r) d.
Proof.
  intros x pol raddr cid c e r Hna H. unfold process_change in H. cbn [N.eqb Pos.eqb] in H.
  assert (Hnone : forall r0, Ok (@nil sinkop, e) = Ok r0 ->
            not_addpath (snd r0) /\ forall d v0, has_entry v0 = em_was_sent e d ->
              has_entry (view_after (fst r0) d 0 v0) = em_was_sent (snd r0) d).
  { intros r0 E. inversion E; subst. cbn [fst snd view_after]. auto. }
  assert (Hwd : forall r0,
            (if em_was_sent e (c_dest c)
             then Ok ([Unreach (c_dest c) 0], em_mark_withdrawn e (c_dest c) 0) else Ok ([], e)) = Ok r0 ->
            not_addpath (snd r0) /\ forall d v0, has_entry v0 = em_was_sent e d ->
              has_entry (view_after (fst r0) d 0 v0) = em_was_sent (snd r0) d).
  { intros r0 E. destruct (em_was_sent e (c_dest c)) eqn:Ews; [|apply Hnone; exact E].
    inversion E; subst. cbn [fst snd]. split; [apply not_addpath_step; exact Hna|].
    intros d v0 Hv. cbn [view_after]. rewrite N.eqb_refl, andb_true_r.
    rewrite (was_sent_mark_withdrawn e (c_dest c) d Hna). rewrite (N.eqb_sym (c_dest c) d).
    destruct (d =? c_dest c); cbn [negb andb has_entry]; [reflexivity | exact Hv]. }
  destruct (negb (c_best_changed c)); [apply Hnone; exact H|].
  destruct (c_paths c) as [|best rest]; [apply Hwd; exact H|].
  destruct (visible x raddr cid best); [|apply Hwd; exact H].
  destruct (policy_stage x pol cid (c_family c) best) as [[a nh]|]; [|apply Hwd; exact H].
  destruct (export_attrs x (llgr_stage best a)) as [a'|]; cbn [rbind] in H; [|discriminate].
  inversion H; subst. cbn [fst snd]. split; [apply not_addpath_step; exact Hna|].
  intros d v0 Hv. cbn [view_after]. rewrite N.eqb_refl, andb_true_r.
  rewrite (was_sent_mark_sent e (c_dest c) d Hna). rewrite (N.eqb_sym (c_dest c) d).
  destruct (d =? c_dest c); cbn [orb has_entry]; [reflexivity | exact Hv].
Qed.

(* ... hence along any history of a best-only session that starts with nothing sent *)
Theorem C09_export_map_tracks_view_history : forall x pol raddr cid cs r d,
  run_changes x pol 1 raddr cid cs ENone = Ok r ->
  has_entry (view_after (fst r) d 0 None) = em_was_sent (snd r) d.
Proof.
  intros x pol raddr cid cs.
  assert (G : forall cs e r, not_addpath e -> run_changes x pol 1 raddr cid cs e = Ok r ->
            not_addpath (snd r) /\ forall d v0, has_entry v0 = em_was_sent e d ->
              has_entry (view_after (fst r) d 0 v0) = em_was_sent (snd r) d).
  { clear cs. induction cs as [|c t IH]; intros e r Hna H.
    - cbn in H. inversion H; subst. cbn. auto.
    - cbn [run_changes] in H.
      destruct (process_change x pol 1 raddr cid c e) as [r1|] eqn:E1; [|discriminate]. cbn [rbind] in H.
      destruct (run_changes x pol 1 raddr cid t (snd r1)) as [r2|] eqn:E2; [|discriminate]. cbn [rbind] in H.
      inversion H; subst r. cbn [fst snd].
      destruct (C09_export_map_tracks_view x pol raddr cid c e r1 Hna E1) as [Hn1 Hv1].
      destruct (IH (snd r1) r2 Hn1 E2) as [Hn2 Hv2]. split; [exact Hn2|].
      intros d v0 Hv. rewrite view_after_app. apply Hv2. apply Hv1. exact Hv. }
  intros r d H. destruct (G cs ENone r I H) as [_ Hv]. apply Hv. reflexivity.
Qed.

(* ================================================================ the LLGR period begins: restale_llgr's change stream and the unchanged exporter *)
(* which path a Reach is about: the best path (best-only) / the path with that id (Add-Path) *)
Lemma reach_origin_pid : forall x pol emax raddr cid c e r d pid nh out s,
  process_change x pol emax raddr cid c e = Ok r ->
  In (Reach d pid nh out s) (fst r) ->
  exists p, In p (c_paths c) /\ s = p_src p
    /\ (if emax =? 1 then exists rest, c_paths c = p :: rest else p_lpid p = pid).
Proof.
  intros x pol emax raddr cid c e r d pid nh out s H Hin. unfold process_change in H.
  destruct (emax =? 1).
  - destruct (negb (c_best_changed c)); [inversion H; subst; contradiction|].
    destruct (c_paths c) as [|best rest] eqn:Ep.
    + destruct (em_was_sent e (c_dest c)); inversion H; subst; cbn in Hin; intuition discriminate.
    + destruct (visible x raddr cid best).
      * destruct (policy_stage x pol cid (c_family c) best) as [[a nh']|].
        -- destruct (export_attrs x (llgr_stage best a)) as [a'|]; cbn [rbind] in H; [|discriminate].
           inversion H; subst r. cbn [fst] in Hin. destruct Hin as [Hin|[]].
           inversion Hin; subst. exists best. split; [left; reflexivity|]. split; [reflexivity|]. exists rest. reflexivity.
        -- destruct (em_was_sent e (c_dest c)); inversion H; subst; cbn in Hin; intuition discriminate.
      * destruct (em_was_sent e (c_dest c)); inversion H; subst; cbn in Hin; intuition discriminate.
  - destruct (negb (c_any_changed c)); [inversion H; subst; contradiction|].
    match type of H with rbind (addpath_reaches _ _ _ ?e1 ?top) _ = _ =>
      destruct (addpath_reaches x (c_dest c) (c_replaced c) e1 top) as [r'|] eqn:Er; [|discriminate] end.
    cbn [rbind] in H. inversion H; subst r. cbn [fst] in Hin. apply in_app_or in Hin. destruct Hin as [Hin|Hin].
    + apply in_map_iff in Hin. destruct Hin as (q & Hq & _). discriminate.
    + destruct (addpath_reaches_In _ _ _ _ _ _ _ _ _ _ _ Er Hin) as (a & Ha & Hx).
      apply in_flat_map in Ha. destruct Ha as (p & Hp & Ha).
      destruct (policy_stage x pol cid (c_family c) p) as [[a1 nh1]|]; [|contradiction].
      destruct Ha as [Ha|[]]. inversion Ha; subst.
      apply In_firstn in Hp. apply filter_In in Hp. destruct Hp as [Hp _].
      exists p. auto.
Qed.

(* best-only: a change that reports the best path as changed touches what the neighbour holds *)
Theorem C09_llgr_refresh_best_only : forall x pol raddr cid c e r,
  process_change x pol 1 raddr cid c e = Ok r ->
  c_best_changed c = true -> em_was_sent e (c_dest c) = true ->
  exists op, In op (fst r) /\ touches (c_dest c) 0 op = true.
Proof.
  intros x pol raddr cid c e r H Hb Hsent.
  unfold process_change in H. cbn [N.eqb Pos.eqb] in H. rewrite Hb, Hsent in H. cbn [negb] in H.
  assert (Ht : forall nh a s, touches (c_dest c) 0 (Reach (c_dest c) 0 nh a s) = true)
    by (intros; cbn [touches]; rewrite !N.eqb_refl; reflexivity).
  assert (Hu : touches (c_dest c) 0 (Unreach (c_dest c) 0) = true)
    by (cbn [touches]; rewrite !N.eqb_refl; reflexivity).
  destruct (c_paths c) as [|best rest].
  - inversion H; subst. eexists. split; [left; reflexivity | apply Hu].
  - destruct (visible x raddr cid best).
    + destruct (policy_stage x pol cid (c_family c) best) as [[a nh]|].
      * destruct (export_attrs x (llgr_stage best a)) as [a'|]; cbn [rbind] in H; [|discriminate].
        inversion H; subst. eexists. split; [left; reflexivity | apply Ht].
      * inversion H; subst. eexists. split; [left; reflexivity | apply Hu].
    + inversion H; subst. eexists. split; [left; reflexivity | apply Hu].
Qed.

Lemma addpath_reaches_emits_replaced : forall x d top e r pid a nh s,
  addpath_reaches x d (Some pid) e top = Ok r ->
  In (pid, a, nh, s) top ->
  exists out, In (Reach d pid nh out s) (fst r).
Proof.
  intros x d. induction top as [|[[[pid0 a0] nh0] s0] t IH]; intros e r pid a nh s H Hin; [contradiction|].
  cbn [addpath_reaches] in H. destruct Hin as [Hin|Hin].
  - inversion Hin; subst. rewrite N.eqb_refl, orb_true_r in H.
    destruct (export_attrs x a) as [a'|]; cbn [rbind] in H; [|discriminate].
    destruct (addpath_reaches x d (Some pid) (em_mark_sent e d pid) t) as [r'|]; cbn [rbind] in H; [|discriminate].
    inversion H; subst. exists a'. left. reflexivity.
  - destruct (negb (em_contains_path e d pid0) || (pid =? pid0)).
    + destruct (export_attrs x a0) as [a'|]; cbn [rbind] in H; [|discriminate].
      destruct (addpath_reaches x d (Some pid) (em_mark_sent e d pid0) t) as [r'|] eqn:Er; cbn [rbind] in H; [|discriminate].
      inversion H; subst. destruct (IH _ _ _ _ _ _ Er Hin) as [out Hout]. exists out. right. exact Hout.
    + exact (IH _ _ _ _ _ _ H Hin).
Qed.

(* Add-Path: a change that names path id [pid] as replaced touches what the neighbour
   holds for it: re-advertised if still among the paths sent, withdrawn otherwise *)
Theorem C09_llgr_refresh_addpath : forall x pol emax raddr cid c e r pid,
  emax <> 1 -> process_change x pol emax raddr cid c e = Ok r ->
  c_any_changed c = true -> c_replaced c = Some pid ->
  was_sent_path e (c_dest c) pid ->
  exists op, In op (fst r) /\ touches (c_dest c) pid op = true.
Proof.
  intros x pol emax raddr cid c e r pid Hem H Hany Hrep Hsent.
  unfold process_change in H. apply N.eqb_neq in Hem. rewrite Hem, Hany, Hrep in H. cbn [negb] in H.
  match type of H with rbind (addpath_reaches _ _ _ _ ?top) _ = _ => set (TOP := top) in * end.
  match type of H with rbind (addpath_reaches _ _ _ ?e1 _) _ = _ =>
    destruct (addpath_reaches x (c_dest c) (Some pid) e1 TOP) as [r'|] eqn:Er; [|cbn [rbind] in H; discriminate] end.
  cbn [rbind] in H. inversion H; subst r. clear H. cbn [fst].
  destruct (mem pid (map (fun t : N * list attr * option nexthop * source => fst (fst (fst t))) TOP)) eqn:Ecur.
  - apply mem_In in Ecur. apply in_map_iff in Ecur. destruct Ecur as ([[[pid' a] nh] s] & Hp & Hin). cbn [fst] in Hp. subst pid'.
    destruct (addpath_reaches_emits_replaced _ _ _ _ _ _ _ _ _ Er Hin) as [out Hout].
    exists (Reach (c_dest c) pid nh out s). split; [apply in_or_app; right; exact Hout|].
    cbn [touches]. rewrite !N.eqb_refl. reflexivity.
  - exists (Unreach (c_dest c) pid). split; [|cbn [touches]; rewrite !N.eqb_refl; reflexivity].
    apply in_or_app. left. apply in_map_iff. exists pid. split; [reflexivity|].
    apply In_sort_n. apply filter_In. split; [exact Hsent|]. rewrite Ecur. reflexivity.
Qed.

(* ... hence what the neighbour holds for that entry afterwards carries LLGR_STALE *)
Theorem C09_llgr_view_refreshed : forall x pol emax raddr cid c e r pid v0 v,
  policy_keeps_decodable pol ->
  (forall p, In p (c_paths c) -> decodable (p_attrs p)) ->
  llgr_change_for emax c e pid v0 ->
  process_change x pol emax raddr cid c e = Ok r ->
  view_after (fst r) (c_dest c) pid v0 = Some v -> carries_llgr_stale v.
Proof.
  intros x pol emax raddr cid c e r pid v0 v Hk Hd Hc H Hview. unfold llgr_change_for in Hc.
  destruct (view_after_cases _ _ _ _ _ Hview) as [(nh & s & Hin) | (Hv0 & Hnot)].
  - destruct (reach_origin_pid _ _ _ _ _ _ _ _ _ _ _ _ _ H Hin) as (p & Hp & Hs & Hpid).
    eapply C09_llgr_stale_marked; [exact Hk | exact Hd | exact H | exact Hin |]. subst s.
    destruct (emax =? 1).
    + destruct Hc as (_ & _ & _ & Hst). destruct Hpid as [rest Hrest]. exact (Hst p rest Hrest).
    + destruct Hc as (_ & _ & _ & Hst). exact (Hst p Hp Hpid).
  - exfalso. subst v0. destruct (emax =? 1) eqn:Em.
    + apply N.eqb_eq in Em. subst emax. destruct Hc as (Hpid & Hb & Hws & _). subst pid. cbn [has_entry] in Hws.
      destruct (C09_llgr_refresh_best_only x pol raddr cid c e r H Hb (eq_sym Hws)) as (op & Hop & Ht).
      rewrite (Hnot op Hop) in Ht. discriminate.
    + apply N.eqb_neq in Em. destruct Hc as (Hany & Hrep & Hws & _).
      destruct (C09_llgr_refresh_addpath x pol emax raddr cid c e r pid Em H Hany Hrep (Hws eq_refl)) as (op & Hop & Ht).
      rewrite (Hnot op Hop) in Ht. discriminate.
Qed.

(* ---------------------------------------------------------------- the stream of restale_llgr, best-only sessions *)
Lemma run_changes_app : forall x pol emax raddr cid cs1 cs2 e r1,
  run_changes x pol emax raddr cid cs1 e = Ok r1 ->
  run_changes x pol emax raddr cid (cs1 ++ cs2) e
  = rbind (run_changes x pol emax raddr cid cs2 (snd r1)) (fun r2 => Ok (fst r1 ++ fst r2, snd r2)).
Proof.
  intros x pol emax raddr cid. induction cs1 as [|c t IH]; intros cs2 e r1 H.
  - cbn in H. inversion H; subst. cbn [app fst snd].
    destruct (run_changes x pol emax raddr cid cs2 e) as [[o e']|]; reflexivity.
  - cbn [run_changes app] in *.
    destruct (process_change x pol emax raddr cid c e) as [ra|]; [|discriminate]. cbn [rbind] in *.
    destruct (run_changes x pol emax raddr cid t (snd ra)) as [rb|] eqn:Eb; [|discriminate]. cbn [rbind] in H.
    inversion H; subst r1. rewrite (IH cs2 _ _ Eb). cbn [fst snd].
    destruct (run_changes x pol emax raddr cid cs2 (snd rb)) as [rc|]; cbn [rbind]; [|reflexivity].
    cbn [fst snd]. rewrite app_assoc. reflexivity.
Qed.

(* the changes after the first one of a stream report best_changed = false: a best-only
   neighbour skips them *)
Lemma marked_changes_false_skipped : forall x pol raddr cid fam d paths marked e,
  run_changes x pol 1 raddr cid (marked_changes fam d false paths marked) e = Ok ([], e).
Proof.
  intros x pol raddr cid fam d paths. induction marked as [|pid t IH]; intro e; [reflexivity|].
  cbn [marked_changes run_changes]. unfold process_change at 1. cbn [N.eqb Pos.eqb c_best_changed negb rbind snd fst].
  rewrite IH. reflexivity.
Qed.

(* Best-only neighbour, any destination: when the new best path is one of the marked
   peer's, exporting restale_llgr's stream leaves the neighbour with a copy that carries
   LLGR_STALE (or with nothing). *)
Theorem C09_llgr_stream_best_only : forall x pol raddr cid fam d old any addr best rest e r v0 v,
  policy_keeps_decodable pol ->
  (forall p, In p (best :: rest) -> decodable (p_attrs p)) ->
  src_raddr (p_src best) = addr -> src_llgr (p_src best) = true ->
  has_entry v0 = em_was_sent e d ->
  run_changes x pol 1 raddr cid (restale_llgr_changes fam d old any addr (best :: rest)) e = Ok r ->
  view_after (fst r) d 0 v0 = Some v -> carries_llgr_stale v.
Proof.
  intros x pol raddr cid fam d old any addr best rest e r v0 v Hk Hd Ha Hl Hv0 H Hview.
  unfold restale_llgr_changes in H. cbn [filter map] in H.
  assert (Eb : ip_eqb (src_raddr (p_src best)) addr = true) by (apply ip_eqb_eq; exact Ha).
  rewrite Eb in H. cbn [map] in H. rewrite N.eqb_refl, orb_true_r in H. cbn [orb marked_changes] in H.
  set (c0 := {| c_family := fam; c_dest := d; c_best_changed := true; c_any_changed := true;
                c_replaced := Some (p_lpid best); c_paths := best :: rest |}) in *.
  cbn [run_changes] in H.
  destruct (process_change x pol 1 raddr cid c0 e) as [r1|] eqn:E1; [|discriminate]. cbn [rbind] in H.
  rewrite marked_changes_false_skipped in H. cbn [rbind fst snd] in H. inversion H; subst r. clear H.
  cbn [fst] in Hview. rewrite app_nil_r in Hview.
  apply (C09_llgr_view_refreshed x pol 1 raddr cid c0 e r1 0 v0 v Hk Hd); [|exact E1|exact Hview].
  unfold llgr_change_for. cbn [N.eqb Pos.eqb c0 c_best_changed c_dest c_paths].
  repeat split; auto. intros b rs E. inversion E; subst. exact Hl.
Qed.

(* ---------------------------------------------------------------- the one-path scenario (tied to the real Table) *)
Lemma llgr_stream_new : forall ps nh attrs,
  llgr_stream true ps nh attrs
  = [ {| c_family := IPV4_UNICAST; c_dest := 1; c_best_changed := true; c_any_changed := true;
         c_replaced := Some 1; c_paths := [llgr_path ps true nh attrs] |} ].
Proof.
  intros ps nh attrs. unfold llgr_stream, restale_llgr_changes. cbn [filter llgr_path p_src src_raddr set_llgr ps_raddr].
  assert (E : ip_eqb (ps_raddr ps) (ps_raddr ps) = true) by (apply ip_eqb_eq; reflexivity).
  rewrite E. reflexivity.
Qed.

Ltac llgr_simp H :=
  cbn [flat_map app map fst snd p_lpid p_src filter mem negb orb andb N.eqb Pos.eqb N.leb N.compare Pos.compare
       Pos.compare_cont sort_n fold_right insert_sorted fold_left em_sent_path_ids em_contains_path em_mark_sent
       em_mark_withdrawn alookup aset aremove add_n remove_n addpath_reaches src_llgr set_llgr ps_llgr rbind] in H.

(* With restale_llgr's stream (03ea310) and the unchanged exporter: whatever a neighbour
   holds for the route once the LLGR period of its source has begun carries LLGR_STALE (it
   was re-advertised with the community, or withdrawn). *)
Theorem C09_llgr_stale_readvertised : forall x pol emax raddr cid ps nh attrs ops1 ops2 e v,
  policy_keeps_decodable pol -> decodable attrs ->
  llgr_scenario x pol emax raddr cid ps nh attrs = Ok (ops1, ops2, e) ->
  view_after (ops1 ++ ops2) 1 (if emax =? 1 then 0 else 1) None = Some v ->
  carries_llgr_stale v.
Proof.
  intros x pol emax raddr cid ps nh attrs ops1 ops2 e v Hk Hd Hsc Hview.
  unfold llgr_scenario, llgr_scenario_v in Hsc. rewrite llgr_stream_new in Hsc.
  destruct (process_change x pol emax raddr cid (llgr_change1 ps nh attrs)
              (if emax =? 1 then ENone else EAddPath [])) as [r1|] eqn:E1; [|discriminate].
  cbn [rbind run_changes] in Hsc.
  match type of Hsc with rbind (rbind (process_change _ _ _ _ _ ?c2 _) _) _ = _ => set (C2 := c2) in * end.
  destruct (process_change x pol emax raddr cid C2 (snd r1)) as [r2|] eqn:E2; [|discriminate].
  cbn [rbind fst snd] in Hsc. inversion Hsc; subst ops1 ops2 e. clear Hsc.
  rewrite app_nil_r in Hview. rewrite view_after_app in Hview.
  assert (Hdp : forall p, In p (c_paths C2) -> decodable (p_attrs p)) by (intros p [Hp|[]]; subst p; exact Hd).
  change 1 with (c_dest C2) in Hview at 1.
  apply (C09_llgr_view_refreshed x pol emax raddr cid C2 (snd r1) r2 (if emax =? 1 then 0 else 1)
           (view_after (fst r1) 1 (if emax =? 1 then 0 else 1) None) v Hk Hdp); [|exact E2|exact Hview].
  unfold llgr_change_for. destruct (emax =? 1) eqn:Em.
  - (* best-only: the export map tracks the view *)
    apply N.eqb_eq in Em. subst emax.
    destruct (C09_export_map_tracks_view x pol raddr cid _ ENone r1 I E1) as [_ Ht].
    split; [reflexivity|]. split; [reflexivity|]. split.
    + apply (Ht 1 None). reflexivity.
    + intros best rest E. inversion E; subst. reflexivity.
  - split; [reflexivity|]. split; [reflexivity|]. split.
    + (* what the first phase advertised is recorded in the Add-Path map *)
      intro Hhas. unfold process_change in E1. rewrite Em in E1.
      cbn [llgr_change1 c_any_changed c_paths c_dest c_family c_replaced negb filter] in E1.
      destruct (visible x raddr cid _) eqn:V1 in E1.
      2:{ rewrite !firstn_nil in E1. cbn in E1. inversion E1; subst r1. cbn in Hhas. discriminate. }
      rewrite !firstn_single in E1.
      destruct (N.to_nat emax) as [|n] eqn:En.
      { cbn in E1. inversion E1; subst r1. cbn in Hhas. discriminate. }
      cbn [flat_map app] in E1.
      destruct (policy_stage x pol cid IPV4_UNICAST _) as [[a1 nh1]|] eqn:S1 in E1.
      2:{ cbn in E1. inversion E1; subst r1. cbn in Hhas. discriminate. }
      llgr_simp E1.
      destruct (export_attrs x _) as [o1|] eqn:X1 in E1; [|discriminate]. llgr_simp E1.
      inversion E1; subst r1. unfold was_sent_path. cbn. left. reflexivity.
    + intros p [Hp|[]] _. subst p. reflexivity.
Qed.

(* With the stream restale_llgr reported before 03ea310 (best_changed = false when the best
   keeps its place, no path named as replaced) the same statement is false: the unchanged
   exporter skips the change and a best-only eBGP neighbour keeps the copy without
   LLGR_STALE (finding C09-1 = C01-llgr-stale-not-resent; the case replayed on the real
   code, corpus/C09). *)
Definition old_stream_llgr_statement : Prop :=
  forall x pol emax raddr cid ps nh attrs ops1 ops2 e v,
    policy_keeps_decodable pol -> decodable attrs ->
    llgr_scenario_v false x pol emax raddr cid ps nh attrs = Ok (ops1, ops2, e) ->
    view_after (ops1 ++ ops2) 1 (if emax =? 1 then 0 else 1) None = Some v ->
    carries_llgr_stale v.

Lemma carries_llgr_stale_dec_false : forall out,
  find_code COMMUNITY out = None -> ~ carries_llgr_stale out.
Proof. intros out H (c & pre & post & E & _). congruence. Qed.

Theorem C09_llgr_stale_readvertised_refuted : ~ old_stream_llgr_statement.
Proof.
  intro H.
  pose (attrs := [mk_val ORIGIN 64 0; mk_bin AS_PATH 64 (encode_path [(2, [65002])])]).
  assert (Hd : decodable attrs).
  { unfold decodable, attrs. split; [|split]; intros a Hin; cbn [In] in Hin.
    - intro Ho. repeat (destruct Hin as [Hin|Hin]; [subst a; discriminate|]). contradiction.
    - intro Hc. repeat (destruct Hin as [Hin|Hin]; [subst a; try discriminate|]); [|contradiction].
      exists [(2, [65002])]. unfold is_path. cbn [mk_bin a_code a_data]. repeat split. repeat constructor; cbn; lia.
    - intro Hc. repeat (destruct Hin as [Hin|Hin]; [subst a; discriminate|]). contradiction. }
  specialize (H (ex_ctx Ebgp 0) no_policy 1 (ip4 10 0 0 1) None (ex_peer Ebgp 65002 false) (Some (NhV4 [10; 0; 0; 9])) attrs).
  destruct (llgr_scenario_v false (ex_ctx Ebgp 0) no_policy 1 (ip4 10 0 0 1) None (ex_peer Ebgp 65002 false)
              (Some (NhV4 [10; 0; 0; 9])) attrs) as [[[o1 o2] e]|] eqn:E; [|vm_compute in E; discriminate].
  vm_compute in E. inversion E; subst o1 o2 e. clear E.
  refine (carries_llgr_stale_dec_false _ _ (H _ _ _ _ (filter_only_decodable _ filter_only_no_policy) Hd eq_refl eq_refl)).
  reflexivity.
Qed.

(* the scenario is real: the route is advertised in the first phase and again, marked, in the second *)
Example ex_llgr_scenario : exists nh1 a1 s1 nh2 a2 s2 e,
  llgr_scenario (ex_ctx Ebgp 0) no_policy 1 (ip4 10 0 0 1) None (ex_peer Ebgp 65002 false) (Some (NhV4 [10; 0; 0; 9])) ex_attrs
  = Ok ([Reach 1 0 nh1 a1 s1], [Reach 1 0 nh2 a2 s2], e).
Proof. do 7 eexists. vm_compute. reflexivity. Qed.

(* a two-path destination: both paths of the marked peer are named, best_changed goes with the first *)
Example ex_restale_stream :
  let p1 := {| p_lpid := 1; p_src := SrcPeer (ex_peer Ebgp 65002 true); p_nh := None; p_attrs := [] |} in
  let p2 := {| p_lpid := 2; p_src := SrcPeer (ex_peer Ebgp 65002 true); p_nh := None; p_attrs := [] |} in
  map (fun c => (c_best_changed c, c_any_changed c, c_replaced c))
      (restale_llgr_changes IPV4_UNICAST 1 (Some 1) true (ip4 10 0 0 2) [p1; p2])
  = [(true, true, Some 1); (false, true, Some 2)].
Proof. vm_compute. reflexivity. Qed.

(* since 0db415e / a62a64e the prepends cannot panic on any byte string (the one-byte
   buffer is guarded) *)
Lemma prepend_total : forall ty asn buf, exists b, path_prepend_b ty asn buf = Ok b.
Proof.
  intros ty asn buf. unfold path_prepend_b. destruct buf as [|b0 rest]; [eauto|].
  destruct (b0 =? ty); [|eauto]. destruct rest as [|b1 rest']; [eauto|]. destruct (b1 <? 255); eauto.
Qed.

(* ================================================================ Add-Path sessions: the export map covers the neighbour's view *)
Lemma alookup_aremove_same : forall k m, alookup k (aremove k m) = None.
Proof.
  intros k. induction m as [|[k' v] m IH]; [reflexivity|]. cbn [aremove].
  destruct (k =? k') eqn:E; [exact IH|]. cbn [alookup]. rewrite E. exact IH.
Qed.

Lemma alookup_aremove_other : forall k k' m, k <> k' -> alookup k (aremove k' m) = alookup k m.
Proof.
  intros k k' m H. induction m as [|[k2 v] m IH]; [reflexivity|]. cbn [aremove].
  destruct (k' =? k2) eqn:E.
  - apply N.eqb_eq in E. subst k2. cbn [alookup]. assert (F : k =? k' = false) by (apply N.eqb_neq; exact H). rewrite F. exact IH.
  - cbn [alookup]. rewrite IH. reflexivity.
Qed.

Lemma alookup_app_none : forall k m1 m2, alookup k m1 = None -> alookup k (m1 ++ m2) = alookup k m2.
Proof.
  intros k. induction m1 as [|[k' v] m1 IH]; intros m2 H; [reflexivity|].
  cbn [alookup app] in *. destruct (k =? k'); [discriminate | apply IH; exact H].
Qed.

Lemma alookup_app_some : forall k m1 m2 v, alookup k m1 = Some v -> alookup k (m1 ++ m2) = Some v.
Proof.
  intros k. induction m1 as [|[k' v'] m1 IH]; intros m2 v H; [discriminate|].
  cbn [alookup app] in *. destruct (k =? k'); [exact H | apply IH; exact H].
Qed.

Lemma alookup_aset_same : forall k v m, alookup k (aset k v m) = Some v.
Proof.
  intros k v m. unfold aset. rewrite alookup_app_none by apply alookup_aremove_same.
  cbn [alookup]. rewrite N.eqb_refl. reflexivity.
Qed.

Lemma alookup_aset_other : forall k k' v m, k <> k' -> alookup k (aset k' v m) = alookup k m.
Proof.
  intros k k' v m H. unfold aset.
  destruct (alookup k m) as [w|] eqn:E.
  - apply alookup_app_some. rewrite alookup_aremove_other by exact H. exact E.
  - rewrite alookup_app_none by (rewrite alookup_aremove_other by exact H; exact E).
    cbn [alookup]. assert (F : k =? k' = false) by (apply N.eqb_neq; exact H). rewrite F. reflexivity.
Qed.

Lemma ap_mark_sent : forall m d pid, exists m',
  em_mark_sent (EAddPath m) d pid = EAddPath m'
  /\ forall d', ap_ids m' d' = if d' =? d then add_n pid (ap_ids m d) else ap_ids m d'.
Proof.
  intros m d pid. eexists. split; [reflexivity|]. intro d'. unfold ap_ids.
  destruct (d' =? d) eqn:E.
  - apply N.eqb_eq in E. subst d'. rewrite alookup_aset_same. reflexivity.
  - apply N.eqb_neq in E. rewrite alookup_aset_other by exact E. reflexivity.
Qed.

Lemma ap_mark_withdrawn : forall m d pid, exists m',
  em_mark_withdrawn (EAddPath m) d pid = EAddPath m'
  /\ forall d', ap_ids m' d' = if d' =? d then remove_n pid (ap_ids m d) else ap_ids m d'.
Proof.
  intros m d pid. cbn [em_mark_withdrawn]. destruct (alookup d m) as [ids|] eqn:E.
  - destruct (remove_n pid ids) as [|i r] eqn:Er.
    + eexists. split; [reflexivity|]. intro d'. unfold ap_ids. destruct (d' =? d) eqn:Ed.
      * apply N.eqb_eq in Ed. subst d'. rewrite alookup_aremove_same, E, Er. reflexivity.
      * apply N.eqb_neq in Ed. rewrite alookup_aremove_other by exact Ed. reflexivity.
    + eexists. split; [reflexivity|]. intro d'. unfold ap_ids. destruct (d' =? d) eqn:Ed.
      * apply N.eqb_eq in Ed. subst d'. rewrite alookup_aset_same, E, Er. reflexivity.
      * apply N.eqb_neq in Ed. rewrite alookup_aset_other by exact Ed. reflexivity.
  - exists m. split; [reflexivity|]. intro d'. unfold ap_ids. destruct (d' =? d) eqn:Ed; [|reflexivity].
    apply N.eqb_eq in Ed. subst d'. rewrite E. reflexivity.
Qed.

Lemma In_add_n : forall x y l, In x (add_n y l) <-> x = y \/ In x l.
Proof.
  intros x y l. rewrite <- !mem_In, mem_add_n, orb_true_iff, N.eqb_eq. tauto.
Qed.

Lemma In_remove_n : forall x y l, In x (remove_n y l) <-> x <> y /\ In x l.
Proof.
  intros x y l. rewrite <- !mem_In, mem_remove_n, andb_true_iff, negb_true_iff, N.eqb_neq. tauto.
Qed.

(* withdrawing the ids of [gone] *)
Lemma ap_fold_withdrawn : forall gone m d, exists m',
  fold_left (fun e pid => em_mark_withdrawn e d pid) gone (EAddPath m) = EAddPath m'
  /\ (forall p, In p (ap_ids m' d) <-> In p (ap_ids m d) /\ ~ In p gone)
  /\ (forall d', d' <> d -> ap_ids m' d' = ap_ids m d').
Proof.
  induction gone as [|g gone IH]; intros m d.
  - exists m. cbn. split; [reflexivity|]. split; [tauto | auto].
  - cbn [fold_left]. destruct (ap_mark_withdrawn m d g) as (m1 & E1 & H1). rewrite E1.
    destruct (IH m1 d) as (m' & E' & H' & Ho). exists m'. split; [exact E'|]. split.
    + intro p. rewrite H'. rewrite (H1 d), N.eqb_refl, In_remove_n. cbn [In]. intuition.
    + intros d' Hd. rewrite (Ho d' Hd), (H1 d'). apply N.eqb_neq in Hd. rewrite Hd. reflexivity.
Qed.

(* addpath_reaches only adds, and records every id it advertises *)
Lemma ap_reaches : forall x d rep top m r,
  addpath_reaches x d rep (EAddPath m) top = Ok r ->
  exists m', snd r = EAddPath m'
    /\ (forall p, In p (ap_ids m d) -> In p (ap_ids m' d))
    /\ (forall d' pid nh out s, In (Reach d' pid nh out s) (fst r) -> d' = d /\ In pid (ap_ids m' d))
    /\ (forall op, In op (fst r) -> exists pid nh out s, op = Reach d pid nh out s)
    /\ (forall d', d' <> d -> ap_ids m' d' = ap_ids m d').
Proof.
  intros x d rep. induction top as [|[[[pid0 a0] nh0] s0] t IH]; intros m r H.
  - cbn in H. inversion H; subst. exists m. cbn. repeat split; auto; intros; contradiction.
  - cbn [addpath_reaches] in H.
    destruct (negb (em_contains_path (EAddPath m) d pid0) || match rep with Some r0 => r0 =? pid0 | None => false end).
    + destruct (export_attrs x a0) as [a'|]; cbn [rbind] in H; [|discriminate].
      destruct (ap_mark_sent m d pid0) as (m1 & E1 & H1). rewrite E1 in H.
      destruct (addpath_reaches x d rep (EAddPath m1) t) as [r'|] eqn:Er; cbn [rbind] in H; [|discriminate].
      inversion H; subst r. cbn [fst snd].
      destruct (IH m1 r' Er) as (m' & Es & Hk & Hr & Hop & Ho). exists m'. split; [exact Es|].
      assert (Hm1 : forall p, In p (ap_ids m1 d) <-> p = pid0 \/ In p (ap_ids m d))
        by (intro p; rewrite (H1 d), N.eqb_refl; apply In_add_n).
      split; [|split; [|split]].
      * intros p Hp. apply Hk. apply Hm1. right. exact Hp.
      * intros d' pid nh out s [Hin|Hin].
        -- inversion Hin; subst. split; [reflexivity|]. apply Hk. apply Hm1. left. reflexivity.
        -- exact (Hr _ _ _ _ _ Hin).
      * intros op [Hin|Hin]; [subst op; eauto | exact (Hop op Hin)].
      * intros d' Hd. rewrite (Ho d' Hd), (H1 d'). apply N.eqb_neq in Hd. rewrite Hd. reflexivity.
    + exact (IH m r H).
Qed.

Lemma view_after_untouched : forall ops d pid v,
  (forall op, In op ops -> touches d pid op = false) -> view_after ops d pid v = v.
Proof.
  induction ops as [|op ops IH]; intros d pid v H; [reflexivity|].
  pose proof (H op (or_introl eq_refl)) as Ht. destruct op; cbn [view_after touches] in *; rewrite Ht; apply IH;
    intros o Ho; apply H; right; exact Ho.
Qed.

(* One call on an Add-Path session: every entry the neighbour holds afterwards is recorded
   in the ExportMap (so a later change that names the path as replaced, or drops it from the
   list, reaches it), provided that was so before. *)
Theorem C09_export_map_covers_view_addpath : forall x pol emax raddr cid c m r,
  emax <> 1 ->
  process_change x pol emax raddr cid c (EAddPath m) = Ok r ->
  exists m', snd r = EAddPath m'
    /\ forall d pid v0,
         (has_entry v0 = true -> In pid (ap_ids m d)) ->
         has_entry (view_after (fst r) d pid v0) = true -> In pid (ap_ids m' d).
Proof.
  intros x pol emax raddr cid c m r Hem H. unfold process_change in H.
  apply N.eqb_neq in Hem. rewrite Hem in H.
  destruct (negb (c_any_changed c)).
  { inversion H; subst. exists m. split; [reflexivity|]. intros d pid v0 Hv Hh. cbn [fst view_after] in Hh. auto. }
  match type of H with rbind (addpath_reaches _ _ _ (fold_left _ ?gone _) ?top) _ = _ =>
    set (GONE := gone) in *; set (TOP := top) in * end.
  destruct (ap_fold_withdrawn GONE m (c_dest c)) as (m1 & E1 & Hg & Hgo). rewrite E1 in H.
  destruct (addpath_reaches x (c_dest c) (c_replaced c) (EAddPath m1) TOP) as [r'|] eqn:Er; cbn [rbind] in H; [|discriminate].
  inversion H; subst r. clear H. cbn [fst snd].
  destruct (ap_reaches _ _ _ _ _ _ Er) as (m' & Es & Hk & Hr & Hop & Ho).
  exists m'. split; [exact Es|]. intros d pid v0 Hv Hh.
  rewrite view_after_app in Hh.
  destruct (N.eq_dec d (c_dest c)) as [Hd|Hd].
  - subst d.
    destruct (view_after (fst r') (c_dest c) pid (view_after (map (fun p => Unreach (c_dest c) p) GONE) (c_dest c) pid v0)) as [v|] eqn:Ev;
      [|discriminate].
    destruct (view_after_cases _ _ _ _ _ Ev) as [(nh & s & Hin) | (Hv1 & _)].
    + exact (proj2 (Hr _ _ _ _ _ Hin)).
    + (* untouched by the advertisements: it survived the withdrawals *)
      apply Hk. apply Hg.
      destruct (in_dec N.eq_dec pid GONE) as [Hi|Hn].
      * exfalso. clear - Hv1 Hi. revert Hv1. generalize v0. induction GONE as [|g G IH]; [contradiction|].
        intros w Hw. cbn [map view_after] in Hw. destruct Hi as [Hi|Hi].
        -- subst g. rewrite !N.eqb_refl in Hw. cbn [andb] in Hw.
           assert (Hnone : forall G0, view_after (map (fun p => Unreach (c_dest c) p) G0) (c_dest c) pid None = None).
           { induction G0 as [|g0 G0 IH0]; [reflexivity|]. cbn [map view_after]. destruct ((c_dest c =? c_dest c) && (g0 =? pid)); exact IH0. }
           rewrite Hnone in Hw. discriminate.
        -- exact (IH Hi _ Hw).
      * split; [|exact Hn]. apply Hv.
        rewrite view_after_untouched in Hv1.
        -- rewrite Hv1. reflexivity.
        -- intros op Hop'. apply in_map_iff in Hop'. destruct Hop' as (g & Hg' & Hgin). subst op. cbn [touches].
           destruct (g =? pid) eqn:Eg; [apply N.eqb_eq in Eg; subst g; contradiction | apply andb_false_r].
  - (* another destination: nothing concerns it *)
    assert (Hu : forall ops, (forall op, In op ops -> exists p, op = Unreach (c_dest c) p \/ exists nh out s, op = Reach (c_dest c) p nh out s) ->
              view_after ops d pid v0 = v0).
    { intros ops Hops. apply view_after_untouched. intros op Hin. destruct (Hops op Hin) as (p & [E|(nh & out & s & E)]); subst op; cbn [touches];
        assert (F : c_dest c =? d = false) by (apply N.eqb_neq; congruence); rewrite F; reflexivity. }
    rewrite (Hu (map (fun p => Unreach (c_dest c) p) GONE)) in Hh.
    2:{ intros op Hin. apply in_map_iff in Hin. destruct Hin as (g & Hg' & _). exists g. left. auto. }
    rewrite view_after_untouched in Hh.
    2:{ intros op Hin. destruct (Hop op Hin) as (p & nh & out & s & E). subst op. cbn [touches].
        assert (F : c_dest c =? d = false) by (apply N.eqb_neq; congruence). rewrite F. reflexivity. }
    rewrite (Ho d Hd), (Hgo d Hd). exact (Hv Hh).
Qed.

(* ... hence along any history of an Add-Path session *)
Theorem C09_export_map_covers_view_addpath_history : forall x pol emax raddr cid cs m r,
  emax <> 1 ->
  run_changes x pol emax raddr cid cs (EAddPath m) = Ok r ->
  exists m', snd r = EAddPath m'
    /\ forall d pid v0,
         (has_entry v0 = true -> In pid (ap_ids m d)) ->
         has_entry (view_after (fst r) d pid v0) = true -> In pid (ap_ids m' d).
Proof.
  intros x pol emax raddr cid cs. induction cs as [|c t IH]; intros m r Hem H.
  - cbn in H. inversion H; subst. exists m. split; [reflexivity|]. intros d pid v0 Hv Hh. cbn in Hh. auto.
  - cbn [run_changes] in H.
    destruct (process_change x pol emax raddr cid c (EAddPath m)) as [r1|] eqn:E1; [|discriminate]. cbn [rbind] in H.
    destruct (C09_export_map_covers_view_addpath _ _ _ _ _ _ _ _ Hem E1) as (m1 & Es1 & H1). rewrite Es1 in H.
    destruct (run_changes x pol emax raddr cid t (EAddPath m1)) as [r2|] eqn:E2; [|discriminate]. cbn [rbind] in H.
    inversion H; subst r. cbn [fst snd].
    destruct (IH m1 r2 Hem E2) as (m' & Es & H2). exists m'. split; [exact Es|].
    intros d pid v0 Hv Hh. rewrite view_after_app in Hh. apply (H2 d pid _ (H1 d pid v0 Hv) Hh).
Qed.

(* ---------------------------------------------------------------- restale_llgr's stream, Add-Path sessions, any destination *)
(* a change whose paths with id [pid] are LLGR-stale keeps "nothing, or a copy with LLGR_STALE" *)
Lemma stale_or_none_step : forall x pol emax raddr cid c e r pid v0,
  policy_keeps_decodable pol ->
  (forall p, In p (c_paths c) -> decodable (p_attrs p)) ->
  emax <> 1 ->
  (forall p, In p (c_paths c) -> p_lpid p = pid -> src_llgr (p_src p) = true) ->
  process_change x pol emax raddr cid c e = Ok r ->
  stale_or_none v0 -> stale_or_none (view_after (fst r) (c_dest c) pid v0).
Proof.
  intros x pol emax raddr cid c e r pid v0 Hk Hd Hem Hst H Hq.
  destruct (view_after (fst r) (c_dest c) pid v0) as [v|] eqn:Ev; [|exact I]. cbn [stale_or_none].
  destruct (view_after_cases _ _ _ _ _ Ev) as [(nh & s & Hin) | (Hv0 & _)].
  - destruct (reach_origin_pid _ _ _ _ _ _ _ _ _ _ _ _ _ H Hin) as (p & Hp & Hs & Hpid).
    apply N.eqb_neq in Hem. rewrite Hem in Hpid.
    eapply C09_llgr_stale_marked; [exact Hk | exact Hd | exact H | exact Hin |]. subst s. exact (Hst p Hp Hpid).
  - subst v0. exact Hq.
Qed.

Lemma stale_or_none_run : forall x pol emax raddr cid d pid cs e r v0,
  policy_keeps_decodable pol -> emax <> 1 ->
  (forall c, In c cs -> c_dest c = d
     /\ (forall p, In p (c_paths c) -> decodable (p_attrs p))
     /\ (forall p, In p (c_paths c) -> p_lpid p = pid -> src_llgr (p_src p) = true)) ->
  run_changes x pol emax raddr cid cs e = Ok r ->
  stale_or_none v0 -> stale_or_none (view_after (fst r) d pid v0).
Proof.
  intros x pol emax raddr cid d pid. induction cs as [|c t IH]; intros e r v0 Hk Hem Hcs H Hq.
  - cbn in H. inversion H; subst. exact Hq.
  - cbn [run_changes] in H.
    destruct (process_change x pol emax raddr cid c e) as [r1|] eqn:E1; [|discriminate]. cbn [rbind] in H.
    destruct (run_changes x pol emax raddr cid t (snd r1)) as [r2|] eqn:E2; [|discriminate]. cbn [rbind] in H.
    inversion H; subst r. cbn [fst]. rewrite view_after_app.
    destruct (Hcs c (or_introl eq_refl)) as (Hd & Hdec & Hst). subst d.
    apply (IH (snd r1) r2 _ Hk Hem (fun c' Hc' => Hcs c' (or_intror Hc')) E2).
    exact (stale_or_none_step _ _ _ _ _ _ _ _ _ _ Hk Hdec Hem Hst E1 Hq).
Qed.

Lemma marked_changes_split : forall fam d bc paths marked pid,
  In pid marked ->
  exists l1 l2 bc', marked_changes fam d bc paths marked
    = l1 ++ {| c_family := fam; c_dest := d; c_best_changed := bc'; c_any_changed := true;
               c_replaced := Some pid; c_paths := paths |} :: l2.
Proof.
  intros fam d bc paths marked. revert bc. induction marked as [|m t IH]; intros bc pid Hin; [contradiction|].
  cbn [marked_changes]. destruct Hin as [Hin|Hin].
  - subst m. exists [], (marked_changes fam d false paths t), bc. reflexivity.
  - destruct (IH false pid Hin) as (l1 & l2 & bc' & E). rewrite E.
    eexists (_ :: l1), l2, bc'. reflexivity.
Qed.

Lemma marked_changes_all : forall fam d bc paths marked c,
  In c (marked_changes fam d bc paths marked) -> c_dest c = d /\ c_paths c = paths.
Proof.
  intros fam d bc paths marked. revert bc. induction marked as [|m t IH]; intros bc c Hin; [contradiction|].
  cbn [marked_changes] in Hin. destruct Hin as [Hin|Hin]; [subst c; auto | exact (IH false c Hin)].
Qed.

Lemma run_changes_app_inv : forall x pol emax raddr cid cs1 cs2 e r,
  run_changes x pol emax raddr cid (cs1 ++ cs2) e = Ok r ->
  exists r1 r2, run_changes x pol emax raddr cid cs1 e = Ok r1
    /\ run_changes x pol emax raddr cid cs2 (snd r1) = Ok r2
    /\ r = (fst r1 ++ fst r2, snd r2).
Proof.
  intros x pol emax raddr cid. induction cs1 as [|c t IH]; intros cs2 e r H.
  - cbn [app] in H. exists ([], e), r. cbn. destruct r. auto.
  - cbn [app run_changes] in *.
    destruct (process_change x pol emax raddr cid c e) as [ra|]; [|discriminate]. cbn [rbind] in *.
    destruct (run_changes x pol emax raddr cid (t ++ cs2) (snd ra)) as [rb|] eqn:Eb; [|discriminate]. cbn [rbind] in H.
    inversion H; subst r. destruct (IH cs2 (snd ra) rb Eb) as (r1 & r2 & E1 & E2 & Er). rewrite E1. cbn [rbind].
    exists (fst ra ++ fst r1, snd r1), r2. cbn [fst snd]. split; [reflexivity|]. split; [exact E2|].
    subst rb. cbn [fst snd]. rewrite app_assoc. reflexivity.
Qed.

(* Add-Path neighbour, any destination: after restale_llgr's whole stream, what the
   neighbour holds for an eligible path of the marked peer carries LLGR_STALE (or it holds
   nothing), provided the export map covered its view before (which it does along any
   history, C09_export_map_covers_view_addpath_history). *)
Theorem C09_llgr_stream_addpath : forall x pol emax raddr cid fam d old addr paths m r p pid v0 v,
  policy_keeps_decodable pol -> emax <> 1 ->
  (forall q, In q paths -> decodable (p_attrs q)) ->
  (forall q, In q paths -> src_raddr (p_src q) = addr -> src_llgr (p_src q) = true) ->
  (forall q, In q paths -> p_lpid q = pid -> src_raddr (p_src q) = addr) ->
  In p paths -> p_lpid p = pid ->
  (has_entry v0 = true -> In pid (ap_ids m d)) ->
  run_changes x pol emax raddr cid (restale_llgr_changes fam d old true addr paths) (EAddPath m) = Ok r ->
  view_after (fst r) d pid v0 = Some v -> carries_llgr_stale v.
Proof.
  intros x pol emax raddr cid fam d old addr paths m r p pid v0 v Hk Hem Hd Hst Hown Hp Hpid Hcov H Hview.
  assert (Hmarked : In pid (map p_lpid (filter (fun q => ip_eqb (src_raddr (p_src q)) addr) paths))).
  { apply in_map_iff. exists p. split; [exact Hpid|]. apply filter_In. split; [exact Hp|].
    apply ip_eqb_eq. exact (Hown p Hp Hpid). }
  assert (Hstale : forall q, In q paths -> p_lpid q = pid -> src_llgr (p_src q) = true)
    by (intros q Hq Hqp; exact (Hst q Hq (Hown q Hq Hqp))).
  unfold restale_llgr_changes in H. rewrite orb_true_r in H.
  destruct (map p_lpid (filter (fun q => ip_eqb (src_raddr (p_src q)) addr) paths)) as [|m0 mt] eqn:Em; [contradiction|].
  match type of H with run_changes _ _ _ _ _ (marked_changes _ _ ?bc _ _) _ = _ =>
    destruct (marked_changes_split fam d bc paths (m0 :: mt) pid Hmarked) as (l1 & l2 & bc' & Esplit);
    assert (Hall : forall c, In c (marked_changes fam d bc paths (m0 :: mt)) -> c_dest c = d /\ c_paths c = paths)
      by (intros c Hc; exact (marked_changes_all _ _ _ _ _ _ Hc)) end.
  rewrite Esplit in H, Hall.
  destruct (run_changes_app_inv _ _ _ _ _ _ _ _ _ H) as (r1 & r2 & E1 & E2 & Er). subst r.
  cbn [fst] in Hview. rewrite view_after_app in Hview.
  destruct (C09_export_map_covers_view_addpath_history _ _ _ _ _ _ _ _ Hem E1) as (m1 & Es1 & Hc1).
  cbn [run_changes] in E2.
  match type of E2 with rbind (process_change _ _ _ _ _ ?c0 _) _ = _ => set (C0 := c0) in * end.
  destruct (process_change x pol emax raddr cid C0 (snd r1)) as [rc|] eqn:Ec; [|discriminate]. cbn [rbind] in E2.
  destruct (run_changes x pol emax raddr cid l2 (snd rc)) as [rl|] eqn:El; [|discriminate]. cbn [rbind] in E2.
  inversion E2; subst r2. cbn [fst] in Hview. rewrite view_after_app in Hview.
  assert (Hdec : forall q, In q (c_paths C0) -> decodable (p_attrs q)) by (intros q Hq; exact (Hd q Hq)).
  assert (Hq0 : stale_or_none (view_after (fst rc) d pid (view_after (fst r1) d pid v0))).
  { destruct (view_after (fst rc) d pid (view_after (fst r1) d pid v0)) as [w|] eqn:Ew; [|exact I]. cbn [stale_or_none].
    change d with (c_dest C0) in Ew at 1.
    apply (C09_llgr_view_refreshed x pol emax raddr cid C0 (snd r1) rc pid (view_after (fst r1) d pid v0) w Hk Hdec); [|exact Ec|exact Ew].
    unfold llgr_change_for. apply N.eqb_neq in Hem. rewrite Hem.
    split; [reflexivity|]. split; [reflexivity|]. split.
    - intro Hh. unfold was_sent_path. rewrite Es1. cbn [em_sent_path_ids c_dest C0].
      exact (Hc1 d pid v0 Hcov Hh).
    - intros q Hq Hqp. exact (Hstale q Hq Hqp). }
  assert (Hfin : stale_or_none (view_after (fst rl) d pid (view_after (fst rc) d pid (view_after (fst r1) d pid v0)))).
  { apply (stale_or_none_run x pol emax raddr cid d pid l2 (snd rc) rl _ Hk Hem); [|exact El|exact Hq0].
    intros c Hc. destruct (Hall c (in_or_app _ _ _ (or_intror (in_cons _ _ _ Hc)))) as [Hcd Hcp].
    split; [exact Hcd|]. rewrite Hcp. split; [exact Hd | exact Hstale]. }
  rewrite Hview in Hfin. exact Hfin.
Qed.

(* ================================================================ NO_LLGR: the route does not outlive the start of the LLGR period *)
Lemma llgr_full_stream_plain : forall ps nh attrs,
  has_no_llgr attrs = false -> llgr_full_stream ps nh attrs = llgr_stream true ps nh attrs.
Proof.
  intros ps nh attrs H. unfold llgr_full_stream, drop_no_llgr_changes.
  cbn [existsb llgr_path p_attrs]. rewrite H, andb_false_r. cbn. apply app_nil_r.
Qed.

(* without NO_LLGR the full scenario is the scenario of llgr_stale_readvertised *)
Lemma llgr_scenario_full_plain : forall x pol emax raddr cid ps nh attrs,
  has_no_llgr attrs = false ->
  llgr_scenario_full x pol emax raddr cid ps nh attrs = llgr_scenario x pol emax raddr cid ps nh attrs.
Proof.
  intros. unfold llgr_scenario_full, llgr_scenario, llgr_scenario_v. rewrite llgr_full_stream_plain by assumption. reflexivity.
Qed.

Lemma llgr_full_stream_no_llgr : forall ps nh attrs,
  has_no_llgr attrs = true ->
  llgr_full_stream ps nh attrs
  = [ {| c_family := IPV4_UNICAST; c_dest := 1; c_best_changed := true; c_any_changed := true;
         c_replaced := Some 1; c_paths := [llgr_path ps true nh attrs] |};
      {| c_family := IPV4_UNICAST; c_dest := 1; c_best_changed := true; c_any_changed := true;
         c_replaced := None; c_paths := [] |} ].
Proof.
  intros ps nh attrs H. unfold llgr_full_stream. rewrite llgr_stream_new. unfold drop_no_llgr_changes.
  cbn [existsb filter llgr_path p_attrs p_src src_raddr set_llgr ps_raddr].
  assert (E : ip_eqb (ps_raddr ps) (ps_raddr ps) = true) by (apply ip_eqb_eq; reflexivity).
  rewrite E, H. reflexivity.
Qed.

(* a change that reports the destination as gone (no path left) empties the neighbour's view *)
Lemma gone_change_clears_best_only : forall x pol raddr cid fam d rep e r v0,
  not_addpath e -> has_entry v0 = em_was_sent e d ->
  process_change x pol 1 raddr cid {| c_family := fam; c_dest := d; c_best_changed := true; c_any_changed := true;
                                      c_replaced := rep; c_paths := [] |} e = Ok r ->
  view_after (fst r) d 0 v0 = None.
Proof.
  intros x pol raddr cid fam d rep e r v0 Hna Hv H. unfold process_change in H. cbn in H.
  destruct (em_was_sent e d) eqn:Ew; inversion H; subst; cbn [fst view_after].
  - rewrite !N.eqb_refl. reflexivity.
  - destruct v0; [discriminate | reflexivity].
Qed.

Lemma view_after_unreach_all : forall d pid ids v0,
  In pid ids -> view_after (map (fun p => Unreach d p) ids) d pid v0 = None.
Proof.
  intros d pid. induction ids as [|i t IH]; intros v0 Hin; [contradiction|].
  cbn [map view_after]. rewrite N.eqb_refl. cbn [andb]. destruct Hin as [Hin|Hin].
  - subst i. rewrite N.eqb_refl.
    assert (Hn : forall l, view_after (map (fun p => Unreach d p) l) d pid None = None).
    { induction l as [|a l IHl]; [reflexivity|]. cbn [map view_after]. destruct ((d =? d) && (a =? pid)); exact IHl. }
    apply Hn.
  - apply IH. exact Hin.
Qed.

Lemma gone_change_clears_addpath : forall x pol emax raddr cid fam d rep m r pid v0,
  emax <> 1 -> (has_entry v0 = true -> In pid (ap_ids m d)) ->
  process_change x pol emax raddr cid {| c_family := fam; c_dest := d; c_best_changed := true; c_any_changed := true;
                                         c_replaced := rep; c_paths := [] |} (EAddPath m) = Ok r ->
  view_after (fst r) d pid v0 = None.
Proof.
  intros x pol emax raddr cid fam d rep m r pid v0 Hem Hv H. unfold process_change in H.
  apply N.eqb_neq in Hem. rewrite Hem in H. cbn [c_any_changed negb c_paths filter c_dest c_replaced c_family] in H.
  rewrite firstn_nil in H. cbn [flat_map map mem negb] in H.
  cbn [addpath_reaches rbind fst snd] in H. inversion H; subst r. clear H. cbn [fst]. rewrite app_nil_r.
  destruct v0 as [a|].
  - apply view_after_unreach_all. apply In_sort_n. apply filter_In. split; [|reflexivity].
    cbn [em_sent_path_ids]. exact (Hv eq_refl).
  - assert (Hn : forall l, view_after (map (fun p => Unreach d p) l) d pid None = None).
    { induction l as [|a l IHl]; [reflexivity|]. cbn [map view_after]. destruct ((d =? d) && (a =? pid)); exact IHl. }
    apply Hn.
Qed.

(* A route that carries NO_LLGR is not kept once the LLGR period of its source begins:
   after restale_llgr's and drop_no_llgr's changes the neighbour holds nothing for it. *)
Theorem C09_no_llgr_route_withdrawn : forall x pol emax raddr cid ps nh attrs ops1 ops2 e,
  has_no_llgr attrs = true ->
  llgr_scenario_full x pol emax raddr cid ps nh attrs = Ok (ops1, ops2, e) ->
  view_after (ops1 ++ ops2) 1 (if emax =? 1 then 0 else 1) None = None.
Proof.
  intros x pol emax raddr cid ps nh attrs ops1 ops2 e Hn Hsc.
  unfold llgr_scenario_full in Hsc. rewrite (llgr_full_stream_no_llgr ps nh attrs Hn) in Hsc.
  destruct (process_change x pol emax raddr cid (llgr_change1 ps nh attrs) (if emax =? 1 then ENone else EAddPath []))
    as [r1|] eqn:E1; [|discriminate].
  cbn [rbind run_changes] in Hsc.
  match type of Hsc with rbind (rbind (process_change _ _ _ _ _ ?c2 _) _) _ = _ => set (C2 := c2) in * end.
  destruct (process_change x pol emax raddr cid C2 (snd r1)) as [r2|] eqn:E2; [|discriminate]. cbn [rbind] in Hsc.
  match type of Hsc with rbind (rbind (rbind (process_change _ _ _ _ _ ?c3 _) _) _) _ = _ => set (C3 := c3) in * end.
  destruct (process_change x pol emax raddr cid C3 (snd r2)) as [r3|] eqn:E3; [|discriminate].
  cbn [rbind fst snd] in Hsc. inversion Hsc; subst ops1 ops2 e. clear Hsc.
  rewrite app_nil_r, !view_after_app.
  destruct (emax =? 1) eqn:Em.
  - apply N.eqb_eq in Em. subst emax.
    destruct (C09_export_map_tracks_view x pol raddr cid _ ENone r1 I E1) as [Hn1 Ht1].
    destruct (C09_export_map_tracks_view x pol raddr cid C2 (snd r1) r2 Hn1 E2) as [Hn2 Ht2].
    apply (gone_change_clears_best_only x pol raddr cid IPV4_UNICAST 1 None (snd r2) r3 _ Hn2); [|exact E3].
    apply Ht2. apply Ht1. reflexivity.
  - assert (Hem : emax <> 1) by (apply N.eqb_neq; exact Em).
    destruct (C09_export_map_covers_view_addpath x pol emax raddr cid _ [] r1 Hem E1) as (m1 & Es1 & Hc1).
    rewrite Es1 in E2.
    destruct (C09_export_map_covers_view_addpath x pol emax raddr cid C2 m1 r2 Hem E2) as (m2 & Es2 & Hc2).
    rewrite Es2 in E3.
    apply (gone_change_clears_addpath x pol emax raddr cid IPV4_UNICAST 1 None m2 r3 1 _ Hem); [|exact E3].
    intro Hh. apply (Hc2 1 1 _ (Hc1 1 1 None (fun F => ltac:(discriminate F))) Hh).
Qed.

(* ================================================================ Add-Path sessions: the export map records nothing the neighbour does not hold *)
Lemma view_after_reach_only_keeps : forall ops d pid v,
  (forall op, In op ops -> exists d' p nh out s, op = Reach d' p nh out s) ->
  has_entry v = true -> has_entry (view_after ops d pid v) = true.
Proof.
  induction ops as [|op ops IH]; intros d pid v Hall Hv; [exact Hv|].
  destruct (Hall op (or_introl eq_refl)) as (d' & p & nh & out & s & E). subst op. cbn [view_after].
  apply IH; [intros o Ho; apply Hall; right; exact Ho|]. destruct ((d' =? d) && (p =? pid)); [reflexivity | exact Hv].
Qed.

Lemma view_after_reach_in : forall ops d pid v nh out s,
  (forall op, In op ops -> exists d' p nh' out' s', op = Reach d' p nh' out' s') ->
  In (Reach d pid nh out s) ops -> has_entry (view_after ops d pid v) = true.
Proof.
  induction ops as [|op ops IH]; intros d pid v nh out s Hall Hin; [contradiction|].
  destruct Hin as [Hin|Hin].
  - subst op. cbn [view_after]. rewrite !N.eqb_refl. cbn [andb].
    apply view_after_reach_only_keeps; [intros o Ho; apply Hall; right; exact Ho | reflexivity].
  - destruct (Hall op (or_introl eq_refl)) as (d' & p & nh' & out' & s' & E). subst op. cbn [view_after].
    eapply IH; [intros o Ho; apply Hall; right; exact Ho | exact Hin].
Qed.

(* the ids addpath_reaches leaves in the map are those it found plus those it advertised *)
Lemma ap_reaches_ids : forall x d rep top m r,
  addpath_reaches x d rep (EAddPath m) top = Ok r ->
  exists m', snd r = EAddPath m'
    /\ forall p, In p (ap_ids m' d) -> In p (ap_ids m d) \/ exists nh out s, In (Reach d p nh out s) (fst r).
Proof.
  intros x d rep. induction top as [|[[[pid0 a0] nh0] s0] t IH]; intros m r H.
  - cbn in H. inversion H; subst. exists m. split; [reflexivity|]. auto.
  - cbn [addpath_reaches] in H.
    destruct (negb (em_contains_path (EAddPath m) d pid0) || match rep with Some r0 => r0 =? pid0 | None => false end).
    + destruct (export_attrs x a0) as [a'|]; cbn [rbind] in H; [|discriminate].
      destruct (ap_mark_sent m d pid0) as (m1 & E1 & H1). rewrite E1 in H.
      destruct (addpath_reaches x d rep (EAddPath m1) t) as [r'|] eqn:Er; cbn [rbind] in H; [|discriminate].
      inversion H; subst r. cbn [fst snd]. destruct (IH m1 r' Er) as (m' & Es & Hi). exists m'. split; [exact Es|].
      intros p Hp. destruct (Hi p Hp) as [Hp1 | (nh & out & s & Hr)].
      * rewrite (H1 d), N.eqb_refl in Hp1. apply In_add_n in Hp1. destruct Hp1 as [Hp1|Hp1]; [|left; exact Hp1].
        subst p. right. exists nh0, a', s0. left. reflexivity.
      * right. exists nh, out, s. right. exact Hr.
    + exact (IH m r H).
Qed.

Theorem C09_export_map_within_view_addpath : forall x pol emax raddr cid c m r,
  emax <> 1 ->
  process_change x pol emax raddr cid c (EAddPath m) = Ok r ->
  exists m', snd r = EAddPath m'
    /\ forall d pid v0,
         (In pid (ap_ids m d) -> has_entry v0 = true) ->
         In pid (ap_ids m' d) -> has_entry (view_after (fst r) d pid v0) = true.
Proof.
  intros x pol emax raddr cid c m r Hem H. unfold process_change in H.
  apply N.eqb_neq in Hem. rewrite Hem in H.
  destruct (negb (c_any_changed c)).
  { inversion H; subst. exists m. split; [reflexivity|]. intros d pid v0 Hv Hi. cbn [fst view_after]. auto. }
  match type of H with rbind (addpath_reaches _ _ _ (fold_left _ ?gone _) ?top) _ = _ =>
    set (GONE := gone) in *; set (TOP := top) in * end.
  destruct (ap_fold_withdrawn GONE m (c_dest c)) as (m1 & E1 & Hg & Hgo). rewrite E1 in H.
  destruct (addpath_reaches x (c_dest c) (c_replaced c) (EAddPath m1) TOP) as [r'|] eqn:Er; cbn [rbind] in H; [|discriminate].
  inversion H; subst r. clear H. cbn [fst snd].
  destruct (ap_reaches _ _ _ _ _ _ Er) as (m' & Es & Hk & Hr & Hop & Ho).
  destruct (ap_reaches_ids _ _ _ _ _ _ Er) as (m'' & Es' & Hids). rewrite Es in Es'. inversion Es'; subst m''.
  exists m'. split; [exact Es|]. intros d pid v0 Hv Hi.
  assert (Hreach_only : forall op, In op (fst r') -> exists d' p nh out s, op = Reach d' p nh out s).
  { intros op Hin. destruct (Hop op Hin) as (p & nh & out & s & E). eauto 6. }
  rewrite view_after_app.
  destruct (N.eq_dec d (c_dest c)) as [Hd|Hd].
  - subst d. destruct (Hids pid Hi) as [Hin1 | (nh & out & s & Hin)].
    + apply Hg in Hin1. destruct Hin1 as [Hinm Hng].
      apply view_after_reach_only_keeps; [exact Hreach_only|].
      rewrite view_after_untouched; [exact (Hv Hinm)|].
      intros op Hop'. apply in_map_iff in Hop'. destruct Hop' as (g & Hg' & Hgin). subst op. cbn [touches].
      destruct (g =? pid) eqn:Eg; [apply N.eqb_eq in Eg; subst g; contradiction | apply andb_false_r].
    + eapply view_after_reach_in; [exact Hreach_only | exact Hin].
  - rewrite (Ho d Hd), (Hgo d Hd) in Hi.
    apply view_after_reach_only_keeps; [exact Hreach_only|].
    rewrite view_after_untouched; [exact (Hv Hi)|].
    intros op Hin. apply in_map_iff in Hin. destruct Hin as (g & Hg' & _). subst op. cbn [touches].
    assert (F : c_dest c =? d = false) by (apply N.eqb_neq; congruence). rewrite F. reflexivity.
Qed.

(* both directions along any history that starts with an empty Add-Path map: the map is exact *)
Theorem C09_export_map_exact_addpath_history : forall x pol emax raddr cid cs r d pid,
  emax <> 1 ->
  run_changes x pol emax raddr cid cs (EAddPath []) = Ok r ->
  (has_entry (view_after (fst r) d pid None) = true <-> was_sent_path (snd r) d pid).
Proof.
  intros x pol emax raddr cid cs r d pid Hem H. split.
  - intro Hh. destruct (C09_export_map_covers_view_addpath_history _ _ _ _ _ _ _ _ Hem H) as (m' & Es & Hc).
    unfold was_sent_path. rewrite Es. cbn [em_sent_path_ids]. apply (Hc d pid None); [discriminate | exact Hh].
  - revert r H. 
    assert (G : forall cs m r, run_changes x pol emax raddr cid cs (EAddPath m) = Ok r ->
              exists m', snd r = EAddPath m' /\ forall d pid v0, (In pid (ap_ids m d) -> has_entry v0 = true) ->
                In pid (ap_ids m' d) -> has_entry (view_after (fst r) d pid v0) = true).
    { clear cs. induction cs as [|c t IH]; intros m r H.
      - cbn in H. inversion H; subst. exists m. split; [reflexivity|]. intros d0 p0 v0 Hv Hi. cbn. auto.
      - cbn [run_changes] in H.
        destruct (process_change x pol emax raddr cid c (EAddPath m)) as [r1|] eqn:E1; [|discriminate]. cbn [rbind] in H.
        destruct (C09_export_map_within_view_addpath _ _ _ _ _ _ _ _ Hem E1) as (m1 & Es1 & H1). rewrite Es1 in H.
        destruct (run_changes x pol emax raddr cid t (EAddPath m1)) as [r2|] eqn:E2; [|discriminate]. cbn [rbind] in H.
        inversion H; subst r. cbn [fst snd]. destruct (IH m1 r2 E2) as (m' & Es & H2). exists m'. split; [exact Es|].
        intros d0 p0 v0 Hv Hi. rewrite view_after_app. apply (H2 d0 p0 _ (H1 d0 p0 v0 Hv) Hi). }
    intros r H Hs. destruct (G cs [] r H) as (m' & Es & Hw). unfold was_sent_path in Hs. rewrite Es in Hs. cbn [em_sent_path_ids] in Hs.
    apply (Hw d pid None); [intro F; contradiction | exact Hs].
Qed.

(* ================================================================ the caller (handle_prefix_update) and PendingTx *)
Lemma run_updates_lift : forall x pol emax raddr cid cs e,
  run_updates true x (lift_policy pol) emax raddr cid cs e = run_changes x pol emax raddr cid cs e.
Proof.
  intros x pol emax raddr cid. induction cs as [|c t IH]; intro e; [reflexivity|].
  cbn [run_updates run_changes]. rewrite C09_process_change_r_lift.
  destruct (process_change x pol emax raddr cid c e) as [r1|]; [|reflexivity]. cbn [rbind]. rewrite IH. reflexivity.
Qed.

Lemma run_updates_no_family : forall x polr emax raddr cid cs e,
  run_updates false x polr emax raddr cid cs e = Ok ([], e).
Proof.
  intros x polr emax raddr cid. induction cs as [|c t IH]; intro e; [reflexivity|].
  cbn [run_updates rbind snd fst]. rewrite IH. reflexivity.
Qed.

(* what PendingTx hands over as an announcement was handed to it by a Reach *)
Lemma pending_reach_is_advertised : forall ap ops d key st nh a,
  pending_after ap ops d key st = PReach nh a ->
  st = PReach nh a \/ exists pid s, In (Reach d pid nh a s) ops.
Proof.
  intros ap. induction ops as [|op ops IH]; intros d key st nh a H; [left; exact H|].
  destruct op as [d' p' | d' p' nh' a' s']; cbn [pending_after] in H.
  - destruct (IH _ _ _ _ _ H) as [E | (pid & s & Hin)]; [|right; exists pid, s; right; exact Hin].
    destruct ((d' =? d) && ((if ap then p' else 0) =? key)); [discriminate | left; exact E].
  - destruct (IH _ _ _ _ _ H) as [E | (pid & s & Hin)]; [|right; exists pid, s; right; exact Hin].
    destruct ((d' =? d) && ((if ap then p' else 0) =? key)) eqn:Ek; [|left; exact E].
    inversion E; subst. apply andb_true_iff in Ek. destruct Ek as [Ed _]. apply N.eqb_eq in Ed. subst d'.
    right. exists p', s'. left. reflexivity.
Qed.

(* every announcement a neighbour's task queues for the wire, along any run of
   handle_prefix_update, is an advertisement in the sense of the theorems above *)
Theorem C09_queued_announcements_are_advertised : forall x pol emax raddr cid cs e r ap d key nh a,
  run_updates true x (lift_policy pol) emax raddr cid cs e = Ok r ->
  pending_after ap (fst r) d key PNothing = PReach nh a ->
  exists c e' pid s, In c cs /\ advertised x pol emax raddr cid c e' d pid nh a s.
Proof.
  intros x pol emax raddr cid cs e r ap d key nh a H Hp. rewrite run_updates_lift in H.
  destruct (pending_reach_is_advertised _ _ _ _ _ _ _ Hp) as [E | (pid & s & Hin)]; [discriminate|].
  destruct (run_changes_reach _ _ _ _ _ _ _ _ _ _ _ _ _ H Hin) as (c & e' & Hc & Ha).
  exists c, e', pid, s. auto.
Qed.

(* the changes of a refresh walk are the walk's changes with a replaced id put in *)
Lemma refresh_changes_In : forall emax walk c,
  In c (flat_map (refresh_changes emax) walk) ->
  exists c0 r, In c0 walk /\ c = with_replaced c0 r.
Proof.
  intros emax walk c H. apply in_flat_map in H. destruct H as (c0 & Hc0 & Hin). unfold refresh_changes in Hin.
  destruct (1 <? emax).
  - apply in_map_iff in Hin. destruct Hin as (p & E & _). exists c0, (Some (p_lpid p)). auto.
  - destruct Hin as [E|[]]. exists c0, None. auto.
Qed.

(* every announcement a route refresh queues is an advertisement of a destination of the walk,
   with the walk's path list *)
Theorem C09_refresh_announcements_are_advertised : forall x pol emax raddr cid walk e r ap d key nh a,
  run_updates true x (lift_policy pol) emax raddr cid (flat_map (refresh_changes emax) walk) e = Ok r ->
  pending_after ap (fst r) d key PNothing = PReach nh a ->
  exists c0 rep e' pid s, In c0 walk /\ advertised x pol emax raddr cid (with_replaced c0 rep) e' d pid nh a s.
Proof.
  intros x pol emax raddr cid walk e r ap d key nh a H Hp.
  destruct (C09_queued_announcements_are_advertised _ _ _ _ _ _ _ _ _ _ _ _ _ H Hp) as (c & e' & pid & s & Hc & Ha).
  destruct (refresh_changes_In _ _ _ Hc) as (c0 & rep & Hc0 & E). subst c.
  exists c0, rep, e', pid, s. auto.
Qed.
