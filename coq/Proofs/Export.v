(* rebuilt below *)
