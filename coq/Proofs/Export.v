(* Lemmas and final statements for property C09. *)
From Coq Require Import List NArith Bool Lia.
From RB Require Import Base.Val Model.Export Spec.ExportSpec.
Import ListNotations.
Open Scope N_scope.

Lemma role_eqb_eq : forall a b, role_eqb a b = true <-> a = b.
Proof. intros a b; destruct a, b; cbv; split; intro H; try reflexivity; discriminate. Qed.

Lemma C09_rs_predicate : forall s dest,
  crosses_rs_boundary s dest -> rs_isolation_suppress s dest = true.
Proof.
  intros s dest [H1 H2]. unfold rs_isolation_suppress, src_is_rs_client.
  destruct (role_eqb (src_role s) RsClient) eqn:Ea; destruct (role_eqb dest RsClient) eqn:Eb; try reflexivity.
  - apply role_eqb_eq in Ea. apply role_eqb_eq in Eb. exfalso. exact (H1 Ea Eb).
  - exfalso. assert (Hd : dest <> RsClient) by (intro Hd; apply role_eqb_eq in Hd; congruence).
    apply H2 in Hd. apply role_eqb_eq in Hd. congruence.
Qed.
