(* Lemmas and final statements for property C08 (hold and keepalive timing). *)
From Coq Require Import List NArith Bool Lia ZifyBool ZifyN.
From RB Require Import Base.Val Model.Caps Model.Fsm Model.Timers Spec.TimersSpec.
Import ListNotations.
Open Scope N_scope.

(* ------------------------------------------------------------------ FSM *)

Lemma st_eqb_eq a b : st_eqb a b = true <-> a = b.
Proof. destruct a, b; cbv; split; intro H; try reflexivity; try discriminate. Qed.

(* The values computed at OPEN receipt. *)
Lemma C08_negotiated_is_min :
  forall (c : conn) (asn id hold : N) (caps : list cap),
    c_state c = OpenSent ->
    (c_expected_asn c = 0 \/ c_expected_asn c = asn) ->
    let c' := fst (on_open c asn id hold caps) in
    let outs := snd (on_open c asn id hold caps) in
    let h := hold_in_force (c_local_hold c) hold in
    c_state c' = OpenConfirm
    /\ c_neg_hold c' = h
    /\ (h <> 0 -> c_ka c' = keepalive_of h /\ In (SetKa (keepalive_of h)) outs /\ In (SetHold h) outs).
Proof.
  intros c asn id hold caps Hst Hasn. unfold on_open.
  rewrite Hst. change (negb (st_eqb OpenSent OpenSent)) with false. cbv iota.
  assert (Hg : negb (c_expected_asn c =? 0) && negb (c_expected_asn c =? asn) = false).
  { destruct Hasn as [H|H]; rewrite H; rewrite ?N.eqb_refl; cbn; auto using andb_false_r. }
  rewrite Hg. cbn [fst snd c_state c_neg_hold c_ka]. unfold hold_in_force, keepalive_of.
  split; [reflexivity|]. split; [reflexivity|].
  intros Hnz. destruct (N.min (c_local_hold c) hold =? 0) eqn:E; [lia|].
  split; [reflexivity|]. cbn. auto 8.
Qed.

Example negotiated_is_min_nonvacuous :
  let c := fst (on_connected (conn_new 65000 200 [] 90 65001)) in
  c_state c = OpenSent /\ (c_expected_asn c = 0 \/ c_expected_asn c = 65001)
  /\ hold_in_force (c_local_hold c) 30 = 30.
Proof. vm_compute. auto. Qed.

(* ------------------------------------------- the driver before the fixes *)

(* Finding C08-1 (repaired).  Before the fix the FSM left the 240 s OpenSent
   timer armed when the negotiated hold time was 0, emitted SetHoldTimer(0) on
   every KEEPALIVE/UPDATE, and the driver read Set*Timer(0) as sleep(0 s): the
   session died of "hold timer expiry" right after the first KEEPALIVE
   (corpus/C08/c08_1_hold_zero.json replays it on the real code).  The FSM
   half of the repair makes on_open emit SetHoldTimer(0); this lemma records
   that the driver half is needed as well: with the sleep(0 s) reading "zero
   disables it" is still false, the witness is a peer advertising hold time 0. *)
Definition pre_fix : cfg := {| c_arm := arm_sleep; c_loop_to_fsm := false |}.

Definition w_p0 : pfsm := pfsm_new 200 65000 [] 90 65001 [].
Definition w_zero : list ev := [EArrive [IMsg (MOpen 65001 100 0 [])]; ESelect].

Lemma C08_zero_hold_dies_with_sleep0_driver :
  exists p r t0 b evs,
    slot p r = None /\
    (let d := fst (task pre_fix p r t0 b evs) in
     exists cn, d_live d = true /\ my_conn d = Some cn /\ after_open cn = true /\ c_neg_hold cn = 0
                /\ d_hold d = TAt (d_now d))
    /\ existsb timer_down (snd (task pre_fix p r t0 b (evs ++ [ESelect]))) = true.
Proof.
  exists w_p0, RActive, 0, false, w_zero. split; [reflexivity|]. split.
  - vm_compute. eexists. repeat split.
  - vm_compute. reflexivity.
Qed.

(* Finding C08-2.  With run_select dropping an UPDATE whose AS_PATH contains
   the local AS before the FSM sees it, "re-armed by every UPDATE received" is
   false: hold time 30, UPDATE received at t = 5, hold deadline still 30. *)
Definition w_mp : list cap := [CMultiProtocol 65537].
Definition w_p1 : pfsm := pfsm_new 200 65000 w_mp 90 65001 [].
Definition w_loop : list ev :=
  [EArrive [IMsg (MOpen 65001 100 30 w_mp); IMsg MKeepalive]; ESelect; ETick 5; EArrive [ILoop]; ESelect].

Lemma C08_as_loop_update_does_not_rearm_before_fix :
  exists p r t0 b evs,
    slot p r = None /\
    ~ hold_follows_rx (fst (task pre_fix p r t0 b evs)) (snd (task pre_fix p r t0 b evs))
    /\ existsb timer_down (snd (task pre_fix p r t0 b (evs ++ [ETick 25; ESelect]))) = true.
Proof.
  exists w_p1, RActive, 0, false, w_loop. split; [reflexivity|]. split.
  - intro H. unfold hold_follows_rx in H.
    specialize (H {| c_state := Established; c_local_asn := 65000; c_local_id := 200; c_local_hold := 90;
                     c_local_cap := w_mp; c_expected_asn := 65001; c_remote_asn := 65001; c_remote_id := 100;
                     c_remote_hold := 30; c_remote_cap := []; c_neg_hold := 30; c_ka := 10 |}).
    vm_compute in H.
    destruct H as [t [Ht [_ Hd]]]; try reflexivity; try discriminate.
    injection Ht as Ht. subst t. discriminate Hd.
  - vm_compute. reflexivity.
Qed.
