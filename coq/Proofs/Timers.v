(* Lemmas and final statements for property C08 (hold and keepalive timing). *)
From Coq Require Import List NArith Bool Lia ZifyBool ZifyN.
From RB Require Import Base.Val Model.Caps Model.Fsm Model.Timers Spec.FsmSpec Spec.TimersSpec Proofs.Fsm.
Import ListNotations.
Open Scope N_scope.

(* ------------------------------------------------------------------ FSM *)

(* The values computed at OPEN receipt. *)
Lemma C08_negotiated_is_min :
  forall (c : conn) (asn id hold : N) (caps : list cap),
    c_state c = OpenSent ->
    (c_expected_asn c = 0 \/ c_expected_asn c = asn) ->
    let c' := fst (on_open c asn id hold caps) in
    let outs := snd (on_open c asn id hold caps) in
    let h := hold_in_force (open_hold (c_local_hold c)) hold in
    c_state c' = OpenConfirm
    /\ c_neg_hold c' = h
    /\ (h <> 0 -> c_ka c' = keepalive_of h /\ In (SetKa (keepalive_of h)) outs /\ In (SetHold h) outs).
Proof.
  intros c asn id hold caps Hst Hasn. unfold on_open.
  rewrite Hst. change (negb (st_eqb OpenSent OpenSent)) with false. cbv iota.
  assert (Hg : negb (c_expected_asn c =? 0) && negb (c_expected_asn c =? asn) = false).
  { destruct Hasn as [H|H]; rewrite H; rewrite ?N.eqb_refl; cbn; auto using andb_false_r. }
  rewrite Hg. cbn [fst snd c_state c_neg_hold c_ka]. unfold hold_in_force, keepalive_of.
  split; [reflexivity|]. split; [reflexivity|].
  intros Hnz. destruct (N.min (open_hold (c_local_hold c)) hold =? 0) eqn:E; [lia|].
  split; [reflexivity|]. cbn. auto 8.
Qed.

Example negotiated_is_min_nonvacuous :
  let c := fst (on_connected (conn_new 65000 200 [] 90 65001)) in
  c_state c = OpenSent /\ (c_expected_asn c = 0 \/ c_expected_asn c = 65001)
  /\ hold_in_force (open_hold (c_local_hold c)) 30 = 30.
Proof. vm_compute. auto. Qed.

(* ------------------------------------------- the driver before the fixes *)

(* Finding C08-1 (repaired).  Before the fix the FSM left the 240 s OpenSent
   timer armed when the negotiated hold time was 0, emitted SetHoldTimer(0) on
   every KEEPALIVE/UPDATE, and the driver read Set*Timer(0) as sleep(0 s): the
   session died of "hold timer expiry" right after the first KEEPALIVE
   (corpus/C08/c08_1_hold_zero.json replays it on the real code).  The FSM
   half of the repair makes on_open emit SetHoldTimer(0); this lemma records
   that the driver half is needed as well: with the sleep(0 s) reading "zero
   disables it" is still false, the witness is a peer advertising hold time 0. *)
Definition pre_fix : cfg := {| c_arm := arm_sleep; c_loop_to_fsm := false |}.

Definition w_p0 : pfsm := pfsm_new 200 65000 [] 90 65001 [].
Definition w_zero : list ev := [EArrive [IMsg (MOpen 65001 100 0 [])]; ESelect].

Lemma C08_zero_hold_dies_with_sleep0_driver :
  exists p r t0 b evs,
    slot p r = None /\
    (let d := fst (task pre_fix p r t0 b evs) in
     exists cn, d_live d = true /\ my_conn d = Some cn /\ after_open cn = true /\ c_neg_hold cn = 0
                /\ d_hold d = TAt (d_now d))
    /\ existsb timer_down (snd (task pre_fix p r t0 b (evs ++ [ESelect]))) = true.
Proof.
  exists w_p0, RActive, 0, false, w_zero. split; [reflexivity|]. split.
  - vm_compute. eexists. repeat split.
  - vm_compute. reflexivity.
Qed.

(* Finding C08-2.  With run_select dropping an UPDATE whose AS_PATH contains
   the local AS before the FSM sees it, "re-armed by every UPDATE received" is
   false: hold time 30, UPDATE received at t = 5, hold deadline still 30. *)
Definition w_mp : list cap := [CMultiProtocol 65537].
Definition w_p1 : pfsm := pfsm_new 200 65000 w_mp 90 65001 [].
Definition w_loop : list ev :=
  [EArrive [IMsg (MOpen 65001 100 30 w_mp); IMsg MKeepalive]; ESelect; ETick 5; EArrive [ILoop]; ESelect].

Lemma C08_as_loop_update_does_not_rearm_before_fix :
  exists p r t0 b evs,
    slot p r = None /\
    ~ hold_follows_rx (fst (task pre_fix p r t0 b evs)) (snd (task pre_fix p r t0 b evs))
    /\ existsb timer_down (snd (task pre_fix p r t0 b (evs ++ [ETick 25; ESelect]))) = true.
Proof.
  exists w_p1, RActive, 0, false, w_loop. split; [reflexivity|]. split.
  - intro H. unfold hold_follows_rx in H.
    specialize (H {| c_state := Established; c_local_asn := 65000; c_local_id := 200; c_local_hold := 90;
                     c_local_cap := w_mp; c_expected_asn := 65001; c_remote_asn := 65001; c_remote_id := 100;
                     c_remote_hold := 30; c_remote_cap := []; c_neg_hold := 30; c_ka := 10 |}).
    vm_compute in H.
    destruct H as [t [Ht [_ Hd]]]; try reflexivity; try discriminate.
    injection Ht as Ht. subst t. discriminate Hd.
  - vm_compute. reflexivity.
Qed.

(* ------------------------------------------------- apply_outputs algebra *)

Definition acc0 (h k : tslot) : acc := {| a_hold := h; a_ka := k; a_down := None; a_notif := None |}.

Definition timerless (o : pfo) : bool :=
  match o with PConn _ (SetKa _) | PConn _ (SetHold _) => false | _ => true end.

Definition pdown (o : pfo) : bool :=
  match o with PConn _ (SessDown _ _) | PClose => true | _ => false end.

Lemma fold_timerless armf now l a :
  forallb timerless l = true ->
  a_hold (fold_left (apply_one armf now) l a) = a_hold a
  /\ a_ka (fold_left (apply_one armf now) l a) = a_ka a.
Proof.
  revert a. induction l as [|o l IH]; intros a Hl; [split; reflexivity|].
  cbn [forallb] in Hl. apply andb_true_iff in Hl as [Ho Hl]. cbn [fold_left].
  destruct (IH (apply_one armf now a o) Hl) as [H1 H2]. rewrite H1, H2.
  destruct o as [r o| |]; [destruct o; try discriminate Ho|..]; split; reflexivity.
Qed.

Lemma fold_down_some armf now l a :
  a_down a <> None -> a_down (fold_left (apply_one armf now) l a) <> None.
Proof.
  revert a. induction l as [|o l IH]; intros a Ha; [exact Ha|]. cbn [fold_left]. apply IH.
  destruct o as [r o| |]; [destruct o|..]; cbn; try exact Ha; discriminate.
Qed.

Lemma fold_down_none armf now l a :
  a_down a = None -> existsb pdown l = false ->
  a_down (fold_left (apply_one armf now) l a) = None.
Proof.
  revert a. induction l as [|o l IH]; intros a Ha Hl; [exact Ha|]. cbn [existsb] in Hl.
  apply orb_false_iff in Hl as [Ho Hl]. cbn [fold_left]. apply IH; [|exact Hl].
  destruct o as [r o| |]; [destruct o|..]; cbn; try exact Ha; discriminate Ho.
Qed.

Lemma fold_down_ex armf now l a :
  existsb pdown l = true -> a_down (fold_left (apply_one armf now) l a) <> None.
Proof.
  revert a. induction l as [|o l IH]; intros a Hl; [discriminate Hl|]. cbn [existsb] in Hl. cbn [fold_left].
  destruct (pdown o) eqn:Ho.
  - apply fold_down_some. destruct o as [r o| |]; [destruct o|..]; try discriminate Ho; cbn; discriminate.
  - apply IH. exact Hl.
Qed.

Lemma fold_filter_send armf now r l a :
  fold_left (apply_one armf now) (filter (fun o => negb (other_send r o)) l) a
  = fold_left (apply_one armf now) l a.
Proof.
  revert a. induction l as [|o l IH]; intros a; [reflexivity|]. cbn [filter].
  destruct (other_send r o) eqn:Ho; cbn [negb fold_left].
  - rewrite IH. f_equal. destruct o as [r' o| |]; [destruct o|..]; try discriminate Ho; reflexivity.
  - apply IH.
Qed.

Lemma fold_map_out armf now p r outs0 a :
  fold_left (apply_one armf now) (map (map_out p r) outs0) a
  = fold_left (apply_one armf now) (map (PConn r) outs0) a.
Proof.
  revert a. induction outs0 as [|o l IH]; intros a; [reflexivity|]. cbn [map fold_left].
  rewrite IH. f_equal. destruct o; reflexivity.
Qed.

Lemma pdown_map r outs0 : existsb pdown (map (PConn r) outs0) = existsb is_down outs0.
Proof. induction outs0 as [|o l IH]; [reflexivity|]. cbn. rewrite IH. destruct o; reflexivity. Qed.

Lemma check_collision_slot p1 r :
  match snd (check_collision p1 r) with
  | None => fst (check_collision p1 r) = p1
  | Some l => fst (check_collision p1 r) = set_slot p1 l None
  end.
Proof.
  unfold check_collision. destruct (slot p1 (other r)); [|reflexivity].
  destruct (negb _ && negb _); reflexivity.
Qed.

Lemma set_slot_cap p r o : p_local_cap (set_slot p r o) = p_local_cap p.
Proof. destruct r; reflexivity. Qed.

(* PeerFsm::process for an input of an occupied slot: the Connection's outputs
   followed by extras that carry no timer, and the slot survives exactly when
   no SessionDown is among them. *)
Lemma peer_my_shape p r i cn :
  is_connected i = false -> slot p r = Some cn ->
  let cn' := fst (conn_step cn i) in
  let outs0 := snd (conn_step cn i) in
  let p' := fst (peer_step p r i) in
  exists extras,
    snd (peer_step p r i) = map (map_out p r) outs0 ++ extras
    /\ forallb timerless extras = true
    /\ p_local_cap p' = p_local_cap p
    /\ ((slot p' r = Some cn' /\ existsb is_down outs0 = false /\ existsb pdown extras = false)
        \/ (slot p' r = None /\ (existsb is_down outs0 = true \/ existsb pdown extras = true))).
Proof.
  intros Hi Hs. cbv zeta. rewrite (peer_step_slot p r i cn Hi Hs). cbv zeta.
  destruct (conn_step cn i) as [cn' outs0]. cbn [fst snd].
  pose proof (check_collision_slot (set_slot p r (Some cn')) r) as Hcc.
  unfold collide.
  destruct (check_collision (set_slot p r (Some cn')) r) as [p2 lo]. cbn [fst snd] in Hcc.
  destruct (existsb is_entered_oc outs0) eqn:Hent; destruct (existsb is_down outs0) eqn:Hd.
  - (* entered, down: impossible in fact, but harmless *)
    destruct lo as [l|]; [destruct (role_eqb l r) eqn:Hlr|]; cbn [fst snd]; rewrite <- ?app_assoc;
      eexists; (split; [reflexivity|]); (split; [destruct r; reflexivity|]);
      subst p2; rewrite ?set_slot_cap; (split; [reflexivity|]);
      right; (split; [apply slot_set_same | left; reflexivity]).
  - destruct lo as [l|]; [destruct (role_eqb l r) eqn:Hlr|]; cbn [fst snd]; rewrite <- ?app_assoc;
      eexists; (split; [reflexivity|]); (split; [destruct r; reflexivity|]);
      subst p2; rewrite ?set_slot_cap; (split; [reflexivity|]).
    + apply role_eqb_eq in Hlr. subst l. right. split; [apply slot_set_same|]. right. destruct r; reflexivity.
    + left. destruct (role_cases r l) as [E|E]; [subst l; rewrite role_eqb_refl in Hlr; discriminate|].
      subst l. split; [destruct r; reflexivity|]. split; [reflexivity|].
      destruct r; reflexivity.
    + left. rewrite slot_set_same. split; [reflexivity|]. split; [reflexivity|]. destruct r; reflexivity.
  - cbn [fst snd]. eexists. split; [reflexivity|]. split; [reflexivity|].
    rewrite !set_slot_cap. split; [reflexivity|]. right. split; [apply slot_set_same|]. left. reflexivity.
  - cbn [fst snd]. exists []. rewrite app_nil_r. split; [reflexivity|]. split; [reflexivity|].
    rewrite set_slot_cap. split; [reflexivity|]. left. rewrite slot_set_same. auto.
Qed.

(* ConnArbiter::process + apply_outputs for an input of this task's own
   connection: the timers are those the Connection asked for, and the task
   goes on exactly when the connection keeps its slot. *)
Lemma arb_my armf now p r i cn h k :
  is_connected i = false -> slot p r = Some cn ->
  let cn' := fst (conn_step cn i) in
  let a0 := fold_left (apply_one armf now) (map (PConn r) (snd (conn_step cn i))) (acc0 h k) in
  let p' := fst (arb_process p r i) in
  let res := apply_outputs armf now h k (snd (arb_process p r i)) in
  fst (fst res) = a_hold a0 /\ snd (fst res) = a_ka a0
  /\ ((slot p' r = Some cn' /\ snd res = Cont /\ existsb is_down (snd (conn_step cn i)) = false)
      \/ (slot p' r = None /\ snd res <> Cont))
  /\ p_local_cap p' = p_local_cap p.
Proof.
  intros Hi Hs. cbv zeta.
  destruct (peer_my_shape p r i cn Hi Hs) as (extras & Hout & Htl & Hcap & Hslot).
  unfold arb_process. destruct (peer_step p r i) as [p' outs]. cbn [fst snd] in *. subst outs.
  unfold apply_outputs. cbn [fst snd]. rewrite fold_filter_send, fold_left_app, fold_map_out.
  set (a0 := fold_left (apply_one armf now) (map (PConn r) (snd (conn_step cn i))) (acc0 h k)).
  destruct (fold_timerless armf now extras a0 Htl) as [H1 H2]. cbn [fst snd].
  fold (acc0 h k). fold a0.
  split; [exact H1|]. split; [exact H2|]. split; [|exact Hcap].
  destruct Hslot as [(Hsl & Hd & He) | (Hsl & Hde)].
  - left. split; [exact Hsl|]. split; [|exact Hd].
    rewrite (fold_down_none armf now extras a0); [reflexivity| |exact He].
    apply fold_down_none; [reflexivity|]. rewrite pdown_map. exact Hd.
  - right. split; [exact Hsl|].
    destruct (a_down (fold_left (apply_one armf now) extras a0)) eqn:Ea; [discriminate|]. exfalso.
    destruct Hde as [Hd|He].
    + apply (fold_down_some armf now extras a0); [|exact Ea].
      apply fold_down_ex. rewrite pdown_map. exact Hd.
    + exact (fold_down_ex armf now extras a0 He Ea).
Qed.

(* --------------------------------------------- connection-level invariant *)

(* what the two timer slots hold, given the state of the task's Connection;
   [g] is the time of the last KEEPALIVE/UPDATE/OPEN reception *)
Definition cinv (now : N) (g : option N) (cn : conn) (h k : tslot) : Prop :=
  match c_state cn with
  | OpenSent => k = TNever /\ c_ka cn = 0 /\ (c_local_hold cn = 0 -> h = TNever)
  | OpenConfirm | Established =>
      if c_neg_hold cn =? 0 then h = TNever /\ k = TNever /\ c_ka cn = 0
      else c_ka cn = c_neg_hold cn / 3
           /\ (exists t, g = Some t /\ t <= now /\ h = TAt (t + c_neg_hold cn))
           /\ (3 <= c_neg_hold cn -> exists x, k = TAt x /\ x <= now + c_ka cn)
  | _ => True
  end.

Definition rearming (m : msg) : bool :=
  match m with MKeepalive | MUpdate | MOpen _ _ _ _ => true | _ => false end.

Lemma arm_stop0_pos now n : n <> 0 -> arm_stop0 now n = TAt (now + n).
Proof. intro H. unfold arm_stop0. destruct (n =? 0) eqn:E; [apply N.eqb_eq in E; contradiction|reflexivity]. Qed.

Lemma div3_pos n : 3 <= n -> n / 3 <> 0.
Proof. intros H E. pose proof (N.div_mod n 3). pose proof (N.mod_lt n 3). lia. Qed.

Ltac fold_cbn := cbn [map fold_left apply_one app acc0 a_hold a_ka a_down a_notif fst snd].

Lemma cinv_recv now g cn h k m r :
  cinv now g cn h k ->
  existsb is_down (snd (conn_step cn (Recv m))) = false ->
  let a0 := fold_left (apply_one arm_stop0 now) (map (PConn r) (snd (conn_step cn (Recv m)))) (acc0 h k) in
  cinv now (if rearming m then Some now else g) (fst (conn_step cn (Recv m))) (a_hold a0) (a_ka a0).
Proof.
  intros Hinv Hnd. cbv zeta. unfold cinv in Hinv.
  destruct m as [asn id hold caps| | |code sub|f]; cbn [conn_step rearming] in *.
  - (* OPEN *)
    unfold on_open in *. destruct (c_state cn) eqn:Hst;
      cbn [st_eqb st_code N.eqb Pos.eqb negb fst snd fsm_err existsb is_down orb] in *; try discriminate Hnd.
    destruct (negb (c_expected_asn cn =? 0) && negb (c_expected_asn cn =? asn));
      cbn [fst snd existsb is_down orb] in *; [discriminate Hnd|].
    destruct Hinv as (Hk & Hka & Hh).
    unfold cinv. cbn [c_state c_neg_hold c_ka c_local_hold].
    destruct (N.min (open_hold (c_local_hold cn)) hold =? 0) eqn:En.
    + destruct (c_local_hold cn =? 0) eqn:El; fold_cbn.
      * apply N.eqb_eq in El. auto.
      * auto.
    + fold_cbn. apply N.eqb_neq in En. split; [reflexivity|]. split.
      * exists now. rewrite (arm_stop0_pos now _ En). split; [reflexivity|]. split; [lia|reflexivity].
      * intro H3. rewrite (arm_stop0_pos now _ (div3_pos _ H3)). eexists. split; [reflexivity|]. lia.
  - (* KEEPALIVE *)
    unfold on_keepalive in *. destruct (c_state cn) eqn:Hst;
      cbn [fst snd fsm_err existsb is_down orb] in *; try discriminate Hnd;
      unfold cinv; cbn [c_state c_neg_hold c_ka c_local_hold]; try rewrite Hst; fold_cbn;
      (destruct (c_neg_hold cn =? 0) eqn:En;
       [apply N.eqb_eq in En; rewrite En; cbn; destruct Hinv as (? & ? & ?); auto
       | apply N.eqb_neq in En; destruct Hinv as (Hka & _ & Hk); rewrite (arm_stop0_pos now _ En);
         split; [exact Hka|]; split; [exists now; split; [reflexivity|]; split; [lia|reflexivity] | exact Hk]]).
  - (* UPDATE *)
    unfold on_update in *. destruct (c_state cn) eqn:Hst;
      cbn [st_eqb st_code N.eqb Pos.eqb fst snd fsm_err existsb is_down orb] in *; try discriminate Hnd.
    unfold cinv. rewrite Hst. fold_cbn.
    destruct (c_neg_hold cn =? 0) eqn:En;
       [apply N.eqb_eq in En; rewrite En; cbn; destruct Hinv as (? & ? & ?); auto
       | apply N.eqb_neq in En; destruct Hinv as (Hka & _ & Hk); rewrite (arm_stop0_pos now _ En);
         split; [exact Hka|]; split; [exists now; split; [reflexivity|]; split; [lia|reflexivity] | exact Hk]].
  - discriminate Hnd.
  - (* ROUTE-REFRESH *)
    unfold on_refresh in *. destruct (c_state cn) eqn:Hst;
      cbn [st_eqb st_code N.eqb Pos.eqb fst snd fsm_err existsb is_down orb] in *; try discriminate Hnd.
    unfold cinv. rewrite Hst. fold_cbn. exact Hinv.
Qed.

(* ---------------------------------------------------- task-level invariant *)

Definition dinv (d : drv) (g : option N) : Prop :=
  (forall t, g = Some t -> t <= d_now d) /\
  (d_live d = true -> forall cn, my_conn d = Some cn -> cinv (d_now d) g cn (d_hold d) (d_ka d)).

Ltac dsimpl :=
  cbn [set_fsm set_env set_ctrl take_close take_rxq fire_hold fire_ka quiet one
       d_p d_role d_now d_hold d_ka d_live d_rxq d_eof d_close_tx d_close d_pend d_ctrl
       l_time l_act l_in l_outs l_res fst snd c_arm c_loop_to_fsm cur] in *.

Lemma cinv_mono now now' g cn h k : now <= now' -> cinv now g cn h k -> cinv now' g cn h k.
Proof.
  intros Hle. unfold cinv. destruct (c_state cn); auto.
  all: destruct (c_neg_hold cn =? 0); auto.
  all: intros (Hka & (t & Hg & Ht & Hh) & Hk); split; [exact Hka|]; split;
    [exists t; repeat split; auto; lia | intro H3; destruct (Hk H3) as (x & Hx & Hxl); exists x; split; [exact Hx|lia]].
Qed.

(* feeding one input of the task's own connection *)
Lemma feed_cases d a i :
  is_connected i = false ->
  let d' := fst (feed cur d a i) in
  let l := snd (feed cur d a i) in
  d_now d' = d_now d /\ d_role d' = d_role d /\ l_time l = d_now d /\ l_act l = a
  /\ d_close d' = d_close d /\ (d_live d' = true -> d_live d = true /\ l_res l = Cont)
  /\ (my_conn d' = None
      \/ exists cn, my_conn d = Some cn /\ my_conn d' = Some (fst (conn_step cn i))
           /\ existsb is_down (snd (conn_step cn i)) = false /\ l_res l = Cont
           /\ let a0 := fold_left (apply_one arm_stop0 (d_now d))
                                  (map (PConn (d_role d)) (snd (conn_step cn i))) (acc0 (d_hold d) (d_ka d)) in
              d_hold d' = a_hold a0 /\ d_ka d' = a_ka a0).
Proof.
  intros Hi. cbv zeta. unfold feed, my_conn.
  destruct (slot (d_p d) (d_role d)) as [cn|] eqn:Hs.
  - pose proof (arb_my arm_stop0 (d_now d) (d_p d) (d_role d) i cn (d_hold d) (d_ka d) Hi Hs) as H.
    cbv zeta in H. destruct (arb_process (d_p d) (d_role d) i) as [p' outs].
    change (c_arm cur) with arm_stop0.
    destruct (apply_outputs arm_stop0 (d_now d) (d_hold d) (d_ka d) outs) as [[h' k'] res] eqn:Ea.
    dsimpl. destruct H as (H1 & H2 & H3 & _).
    try rewrite Ea in H1; try rewrite Ea in H2; try rewrite Ea in H3. cbn [fst snd] in H1, H2, H3.
    repeat (split; [reflexivity|]). split.
    { intro Hl. apply andb_true_iff in Hl as [Hl Hc]. split; [exact Hl|]. destruct res; [reflexivity|discriminate]. }
    destruct H3 as [(Hsl & Hres & Hd) | (Hsl & _)]; [right | left; exact Hsl].
    exists cn. repeat split; auto.
  - assert (Hp : arb_process (d_p d) (d_role d) i = (d_p d, [])).
    { unfold arb_process. rewrite (peer_step_no_slot _ _ _ Hi Hs). reflexivity. }
    rewrite Hp. cbn [apply_outputs fold_left a_hold a_ka a_down]. dsimpl.
    repeat (split; [reflexivity|]). split.
    { intro Hl. apply andb_true_iff in Hl as [Hl _]. auto. }
    left. exact Hs.
Qed.

Lemma received_ku_rx m res t i outs :
  received_ku {| l_time := t; l_act := ARx m; l_in := i; l_outs := outs; l_res := res |}
  = rearming m && is_cont res.
Proof. destruct m, res; reflexivity. Qed.

Lemma feed_recv_inv d g m :
  dinv d g ->
  let d' := fst (feed cur d (ARx m) (Recv m)) in
  let l := snd (feed cur d (ARx m) (Recv m)) in
  dinv d' (last_rx g [l]) /\ d_now d' = d_now d /\ d_role d' = d_role d /\ d_close d' = d_close d
  /\ (d_live d' = true -> d_live d = true).
Proof.
  intros [Hg Hc]. cbv zeta.
  destruct (feed_cases d (ARx m) (Recv m) eq_refl) as (Hn & Hr & Ht & Ha & Hcl & Hlv & Hcase).
  split; [|repeat split; auto; intro Hl; apply (Hlv Hl)].
  unfold last_rx. cbn [fold_left].
  set (l := snd (feed cur d (ARx m) (Recv m))) in *.
  split.
  - intros t. destruct (received_ku l); intros E.
    + injection E as E. subst t. rewrite Ht, Hn. lia.
    + rewrite Hn. apply Hg. exact E.
  - intros Hl cn' Hm. destruct (Hlv Hl) as [Hl0 Hres].
    assert (Hrk : received_ku l = rearming m).
    { unfold received_ku. rewrite Ha, Hres. destruct m; reflexivity. }
    rewrite Hrk, Ht.
    destruct Hcase as [Hnone | (cn & Hm0 & Hm1 & Hd & _ & Hh & Hk)]; [congruence|].
    rewrite Hm in Hm1. injection Hm1 as Hm1. subst cn'. rewrite Hn.
    cbv zeta in Hh, Hk. rewrite Hh, Hk.
    exact (cinv_recv (d_now d) g cn (d_hold d) (d_ka d) m (d_role d) (Hc Hl0 cn Hm0) Hd).
Qed.

Lemma rx_item_inv d g it :
  dinv d g ->
  let d' := fst (rx_item cur d it) in
  dinv d' (last_rx g [snd (rx_item cur d it)]) /\ d_now d' = d_now d /\ d_role d' = d_role d
  /\ (d_live d' = true -> d_live d = true).
Proof.
  intros Hinv. destruct it as [m| |cd sb]; cbn [rx_item c_loop_to_fsm cur].
  - destruct (feed_recv_inv d g m Hinv) as (H1 & H2 & H3 & _ & H5). auto.
  - destruct (feed_recv_inv d g MUpdate Hinv) as (H1 & H2 & H3 & _ & H5). auto.
  - destruct Hinv as [Hg Hc]. unfold quiet. dsimpl. rewrite andb_false_r.
    split; [|split; [reflexivity|split; [reflexivity|intro Hx; discriminate Hx]]].
    split; [unfold last_rx; cbn; exact Hg|intro Hx; discriminate Hx].
Qed.

Lemma rx_loop_inv its : forall d g,
  dinv d g ->
  let d' := fst (rx_loop cur d its) in
  dinv d' (last_rx g (snd (rx_loop cur d its))) /\ d_now d' = d_now d /\ d_role d' = d_role d
  /\ (d_live d' = true -> d_live d = true).
Proof.
  induction its as [|it rest IH]; intros d g Hinv; cbv zeta.
  - cbn [rx_loop fst snd last_rx fold_left]. auto.
  - cbn [rx_loop].
    pose proof (rx_item_inv d g it Hinv) as H. cbv zeta in H.
    destruct (rx_item cur d it) as [d1 l]. cbn [fst snd] in H.
    destruct H as (Hi1 & Hn1 & Hr1 & Hl1).
    destruct (d_live d1) eqn:Hlive.
    + specialize (IH d1 (last_rx g [l]) Hi1). cbv zeta in IH.
      destruct (rx_loop cur d1 rest) as [d2 ls]. cbn [fst snd] in *.
      destruct IH as (Hi2 & Hn2 & Hr2 & Hl2).
      split; [exact Hi2|]. split; [congruence|]. split; [congruence|]. auto.
    + cbn [fst snd]. split; [exact Hi1|]. split; [exact Hn1|]. split; [exact Hr1|]. intro Hx; congruence.
Qed.

Definition not_rx (a : act) : Prop := match a with ARx _ | ASkipLoop | AParseErr => False | _ => True end.

Lemma feed_other_inv d g a i :
  is_connected i = false -> not_rx a ->
  (forall t, g = Some t -> t <= d_now d) ->
  (forall cn, my_conn d = Some cn -> d_live d = true ->
      existsb is_down (snd (conn_step cn i)) = false ->
      let a0 := fold_left (apply_one arm_stop0 (d_now d))
                          (map (PConn (d_role d)) (snd (conn_step cn i))) (acc0 (d_hold d) (d_ka d)) in
      cinv (d_now d) g (fst (conn_step cn i)) (a_hold a0) (a_ka a0)) ->
  let d' := fst (feed cur d a i) in
  dinv d' (last_rx g [snd (feed cur d a i)]) /\ d_now d' = d_now d /\ d_role d' = d_role d
  /\ (d_live d' = true -> d_live d = true).
Proof.
  intros Hi Ha Hg Hob. cbv zeta.
  destruct (feed_cases d a i Hi) as (Hn & Hr & Ht & Hact & Hcl & Hlv & Hcase).
  split; [|repeat split; auto; intro Hl; apply (Hlv Hl)].
  unfold last_rx. cbn [fold_left].
  assert (Hrk : received_ku (snd (feed cur d a i)) = false).
  { unfold received_ku. rewrite Hact. destruct a; try reflexivity; contradiction. }
  rewrite Hrk. split.
  - intros t E. rewrite Hn. apply Hg. exact E.
  - intros Hl cn' Hm. destruct (Hlv Hl) as [Hl0 Hres].
    destruct Hcase as [Hnone | (cn & Hm0 & Hm1 & Hd & _ & Hh & Hk)]; [congruence|].
    rewrite Hm in Hm1. injection Hm1 as Hm1. subst cn'. rewrite Hn.
    cbv zeta in Hh, Hk. rewrite Hh, Hk. exact (Hob cn Hm0 Hl0 Hd).
Qed.

Lemma cinv_ka_fire now g cn h k r :
  cinv now g cn h k ->
  let a0 := fold_left (apply_one arm_stop0 now) (map (PConn r) (snd (conn_step cn KaExpired)))
                      (acc0 h (consumed k)) in
  cinv now g (fst (conn_step cn KaExpired)) (a_hold a0) (a_ka a0).
Proof.
  intro Hinv. cbv zeta. cbn [conn_step]. unfold on_ka_expired, cinv in *.
  destruct (c_state cn) eqn:Hst; cbn [fst snd]; rewrite ?Hst; fold_cbn; auto.
  - destruct Hinv as (Hk & Hka & Hh). subst k. auto.
  - destruct (c_neg_hold cn =? 0) eqn:En.
    + destruct Hinv as (Hh & Hk & Hka). rewrite Hka. cbn. auto.
    + destruct Hinv as (Hka & Hh & Hk). split; [exact Hka|]. split; [exact Hh|].
      intro H3. rewrite Hka. rewrite (arm_stop0_pos now _ (div3_pos _ H3)). eexists. split; [reflexivity|lia].
  - destruct (c_neg_hold cn =? 0) eqn:En.
    + destruct Hinv as (Hh & Hk & Hka). rewrite Hka. cbn. auto.
    + destruct Hinv as (Hka & Hh & Hk). split; [exact Hka|]. split; [exact Hh|].
      intro H3. rewrite Hka. rewrite (arm_stop0_pos now _ (div3_pos _ H3)). eexists. split; [reflexivity|lia].
Qed.

Lemma cinv_hold_fire now g cn h k r :
  existsb is_down (snd (conn_step cn HoldExpired)) = false ->
  let a0 := fold_left (apply_one arm_stop0 now) (map (PConn r) (snd (conn_step cn HoldExpired)))
                      (acc0 h k) in
  cinv now g (fst (conn_step cn HoldExpired)) (a_hold a0) (a_ka a0).
Proof.
  cbv zeta. cbn [conn_step]. unfold on_hold_expired, cinv.
  destruct (c_state cn) eqn:Hst; cbn [fst snd existsb is_down orb]; rewrite ?Hst; intro H;
    try discriminate H; exact I.
Qed.

(* flush_tx after an UPDATE was sent *)
Lemma flush_inv d g :
  dinv d g ->
  let d' := fst (flush cur d) in
  dinv d' (last_rx g [snd (flush cur d)]) /\ d_now d' = d_now d /\ d_role d' = d_role d
  /\ d_live d' = d_live d.
Proof.
  intros [Hg Hc]. cbv zeta. unfold flush, arb_process.
  destruct (my_conn d) as [cn|] eqn:Hs; unfold my_conn in Hs.
  - rewrite (peer_step_slot _ _ UpdateSent cn eq_refl Hs). cbv zeta. cbn [conn_step].
    unfold on_update_sent.
    destruct (st_eqb (c_state cn) Established && (0 <? c_ka cn)) eqn:Eb;
      cbn [fst snd existsb is_entered_oc is_down orb map map_out filter other_send negb is_setka
           apply_outputs fold_left apply_one a_hold a_ka a_down c_arm cur]; dsimpl;
      (split; [|auto]); unfold last_rx; cbn [fold_left received_ku l_act]; dsimpl;
      (split; [exact Hg|]); intros Hl cn' Hm; unfold my_conn in Hm; dsimpl;
      rewrite slot_set_same in Hm; injection Hm as Hm; subst cn';
      specialize (Hc Hl cn eq_refl); [|exact Hc].
    apply andb_true_iff in Eb as [Est Hka]. apply st_eqb_eq in Est.
    unfold cinv in *. rewrite Est in *.
    destruct (c_neg_hold cn =? 0) eqn:En.
    + destruct Hc as (Hh & Hk & Hka0). rewrite Hka0 in Hka. discriminate Hka.
    + destruct Hc as (Hka0 & Hh & Hk). split; [exact Hka0|]. split; [exact Hh|].
      intro H3. rewrite Hka0. rewrite (arm_stop0_pos _ _ (div3_pos _ H3)). eexists. split; [reflexivity|lia].
  - rewrite (peer_step_no_slot _ _ UpdateSent eq_refl Hs).
    cbn [fst snd filter apply_outputs fold_left a_hold a_ka a_down]. dsimpl.
    split; [|auto]. unfold last_rx. cbn [fold_left received_ku l_act]. dsimpl.
    split; [exact Hg|]. intros Hl cn' Hm. unfold my_conn in Hm. dsimpl. congruence.
Qed.

Lemma last_rx_app g l1 l2 : last_rx g (l1 ++ l2) = last_rx (last_rx g l1) l2.
Proof. unfold last_rx. apply fold_left_app. Qed.

Lemma dinv_same d d0 g :
  d_now d0 = d_now d -> d_hold d0 = d_hold d -> d_ka d0 = d_ka d -> my_conn d0 = my_conn d ->
  (d_live d0 = true -> d_live d = true) ->
  dinv d g -> dinv d0 g.
Proof.
  intros Hn Hh Hk Hm Hl [Hg Hc]. split.
  - rewrite Hn. exact Hg.
  - intros Hl0 cn Hcn. rewrite Hn, Hh, Hk. rewrite Hm in Hcn. exact (Hc (Hl Hl0) cn Hcn).
Qed.

Lemma select_inv d g :
  dinv d g ->
  let d' := fst (select cur d) in
  dinv d' (last_rx g (snd (select cur d))) /\ d_now d' = d_now d /\ d_role d' = d_role d.
Proof.
  intros Hinv. pose proof Hinv as [Hg Hc]. cbv zeta. unfold select.
  destruct (d_close d) as [[|cd s|]|] eqn:Hcl.
  - (* admin shutdown through the FSM *)
    pose proof (feed_other_inv (take_close d) g (AClosed CRAdmin) AdminShutdown eq_refl I) as H.
    cbv zeta in H. unfold one. cbn [fst snd].
    destruct H as (H1 & H2 & H3 & _); [exact Hg | | auto].
    intros cn _ _ Hd. cbn in Hd. discriminate Hd.
  - unfold one, quiet. dsimpl. rewrite andb_false_r. split; [|auto].
    split; [unfold last_rx; cbn; exact Hg | intro Hx; discriminate Hx].
  - unfold one, quiet. dsimpl. rewrite andb_false_r. split; [|auto].
    split; [unfold last_rx; cbn; exact Hg | intro Hx; discriminate Hx].
  - destruct (enabled (d_now d) (d_hold d)) eqn:Eh.
    { (* hold timer fires *)
      pose proof (feed_other_inv (fire_hold d) g AHoldFired HoldExpired eq_refl I) as H.
      cbv zeta in H. unfold one. cbn [fst snd].
      destruct H as (H1 & H2 & H3 & _); [exact Hg | | auto].
      intros cn _ _ Hd. apply cinv_hold_fire. exact Hd. }
    destruct (enabled (d_now d) (d_ka d)) eqn:Ek.
    { (* keepalive timer fires *)
      pose proof (feed_other_inv (fire_ka d) g AKaFired KaExpired eq_refl I) as H.
      cbv zeta in H. unfold one. cbn [fst snd].
      destruct H as (H1 & H2 & H3 & _); [exact Hg | | auto].
      intros cn Hm Hl _. dsimpl. apply cinv_ka_fire. exact (Hc Hl cn Hm). }
    (* the socket *)
    match goal with |- context [match ?x with pair _ _ => _ end] => set (sp := x) end.
    assert (Hs : exists d1 ls,
               sp = (d1, ls)
               /\ dinv d1 (last_rx g ls) /\ d_now d1 = d_now d /\ d_role d1 = d_role d).
    { subst sp. destruct (d_rxq d) as [|it rest] eqn:Hq.
      - destruct (d_eof d).
        + pose proof (feed_other_inv d g AEof Disconnected eq_refl I) as H. cbv zeta in H.
          unfold one. eexists _, _. split; [reflexivity|].
          destruct H as (H1 & H2 & H3 & _); [exact Hg | | auto].
          intros cn _ _ Hd. cbn in Hd. discriminate Hd.
        + exists d, []. split; [reflexivity|]. split; [exact Hinv|]. auto.
      - pose proof (rx_loop_inv (it :: rest) (take_rxq d) g) as H. cbv zeta in H.
        destruct (rx_loop cur (take_rxq d) (it :: rest)) as [d1 ls] eqn:Erx.
        exists d1, ls. split; [reflexivity|]. cbn [fst snd] in H.
        destruct H as (H1 & H2 & H3 & _); [|auto].
        apply (dinv_same d); auto. }
    destruct Hs as (d1 & ls & Heq & Hi1 & Hn1 & Hr1).
    rewrite Heq.
    assert (Hidle : forall dx, d_now dx = d_now d1 -> d_hold dx = d_hold d1 -> d_ka dx = d_ka d1 ->
                      my_conn dx = my_conn d1 -> d_live dx = d_live d1 -> d_role dx = d_role d1 ->
                      match ls with
                      | [] => dinv (fst (one (quiet dx AIdle Cont))) (last_rx g (snd (one (quiet dx AIdle Cont))))
                              /\ d_now (fst (one (quiet dx AIdle Cont))) = d_now d
                              /\ d_role (fst (one (quiet dx AIdle Cont))) = d_role d
                      | _ :: _ => dinv dx (last_rx g ls) /\ d_now dx = d_now d /\ d_role dx = d_role d
                      end).
    { intros dx E1 E2 E3 E4 E5 E6. destruct ls as [|l0 ls0].
      - unfold one, quiet. dsimpl. rewrite andb_true_r.
        split; [|split; congruence]. unfold last_rx in *. cbn [fold_left received_ku l_act] in *.
        apply (dinv_same d1); unfold my_conn in *; dsimpl; auto; congruence.
      - split; [|split; congruence]. apply (dinv_same d1); auto; congruence. }
    destruct (d_live d1 && (d_ctrl d || d_pend d)).
    + destruct (d_pend d1).
      * pose proof (flush_inv (set_ctrl d1 false) (last_rx g ls) Hi1) as H. cbv zeta in H.
        destruct (flush cur (set_ctrl d1 false)) as [d2 l]. cbn [fst snd] in *.
        destruct H as (H1 & H2 & H3 & _). rewrite last_rx_app.
        split; [exact H1|]. dsimpl. split; congruence.
      * specialize (Hidle (set_ctrl d1 false) eq_refl eq_refl eq_refl eq_refl eq_refl eq_refl).
        destruct ls; exact Hidle.
    + specialize (Hidle d1 eq_refl eq_refl eq_refl eq_refl eq_refl eq_refl).
      destruct ls; exact Hidle.
Qed.

(* the other connection's task can only take this connection's slot away *)
Lemma other_step_slot p r i :
  slot (fst (peer_step p (other r) i)) r = slot p r \/ slot (fst (peer_step p (other r) i)) r = None.
Proof.
  destruct (peer_step_desc p (other r) i) as [_ H].
  destruct H as [b c Hi Hs Hp | b c1 Hi Hs Hs' _ _ Ho | Hi Hs Hp | c Hi Hs Hd Hs' Ho | c Hi Hs Hd Hs' Ho
                 | c c' Hi Hs _ _ _ _ Hs' Ho | asn id hold caps c c' Hi Hs _ _ _ _ _ _ Hs' Ho
                 | asn id hold caps c c' oc loser Hi Hs _ _ _ _ _ Hso _ Hlo Hsl Hsw];
    rewrite ?other_other in *; try (left; congruence).
  destruct (role_cases r loser) as [E|E].
  - right. clear Hlo. subst loser. exact Hsl.
  - left. clear Hlo. subst loser. rewrite other_other in Hsw. rewrite Hsw.
    rewrite role_eqb_refl. symmetry. exact Hso.
Qed.

Lemma step_inv d g e :
  dinv d g ->
  let d' := fst (step cur d e) in
  dinv d' (last_rx g (snd (step cur d e))) /\ d_role d' = d_role d /\ d_now d <= d_now d'.
Proof.
  intros Hinv. pose proof Hinv as [Hg Hc]. cbv zeta. unfold step.
  destruct (d_live d) eqn:Hl; cbn [negb].
  2:{ cbn [fst snd]. unfold last_rx. cbn. split; [|split; [reflexivity|lia]]. exact Hinv. }
  assert (Hrk : last_rx g (env_lbl d) = g) by reflexivity.
  destruct e as [dt|its| |cr| | |i]; cbn [fst snd]; rewrite ?Hrk.
  - (* time passes *)
    split; [|split; [reflexivity|dsimpl; lia]]. split; dsimpl.
    + intros t E. specialize (Hg t E). lia.
    + intros _ cn Hm. apply (cinv_mono (d_now d)); [lia|]. exact (Hc eq_refl cn Hm).
  - split; [|split; [destruct (d_eof d); reflexivity | destruct (d_eof d); dsimpl; lia]].
    destruct (d_eof d); [exact Hinv|]. apply (dinv_same d); unfold my_conn; dsimpl; auto.
  - split; [|split; [reflexivity|dsimpl; lia]]. apply (dinv_same d); unfold my_conn; dsimpl; auto.
  - split; [|split; [destruct (d_close_tx d); reflexivity | destruct (d_close_tx d); dsimpl; lia]].
    destruct (d_close_tx d); [|exact Hinv]. apply (dinv_same d); unfold my_conn; dsimpl; auto.
  - split; [|split; [reflexivity|dsimpl; lia]]. apply (dinv_same d); unfold my_conn; dsimpl; auto.
  - destruct (select_inv d g Hinv) as (H1 & H2 & H3). split; [exact H1|]. split; [exact H3|lia].
  - (* the other connection's task *)
    pose proof (other_step_slot (d_p d) (d_role d) i) as Hsl.
    destruct (peer_step (d_p d) (other (d_role d)) i) as [p' outs]. cbn [fst] in Hsl.
    assert (Hd1 : dinv (set_fsm d p' (d_hold d) (d_ka d) (d_live d)) g).
    { split; dsimpl; [exact Hg|]. intros _ cn Hm. unfold my_conn in Hm. dsimpl.
      destruct Hsl as [E|E]; rewrite E in Hm; [|discriminate]. exact (Hc eq_refl cn Hm). }
    rewrite Hl in Hd1.
    destruct (cease_for (other (d_role d)) outs) as [[cd s]|]; [destruct (d_close_tx d)|];
      cbn [fst snd]; rewrite ?Hrk;
      (split; [|split; [reflexivity|dsimpl; lia]]); try exact Hd1.
Qed.

Lemma run_inv evs : forall d g,
  dinv d g ->
  let d' := fst (run cur d evs) in
  dinv d' (last_rx g (snd (run cur d evs))) /\ d_role d' = d_role d /\ d_now d <= d_now d'.
Proof.
  induction evs as [|e rest IH]; intros d g Hinv; cbv zeta.
  - cbn. split; [exact Hinv|]. split; [reflexivity|lia].
  - cbn [run]. pose proof (step_inv d g e Hinv) as H. cbv zeta in H.
    destruct (step cur d e) as [d1 l]. cbn [fst snd] in H. destruct H as (H1 & H2 & H3).
    specialize (IH d1 _ H1). cbv zeta in IH.
    destruct (run cur d1 rest) as [d2 ls]. cbn [fst snd] in *. destruct IH as (I1 & I2 & I3).
    rewrite last_rx_app. split; [exact I1|]. split; [congruence|lia].
Qed.

(* session_loop's prologue on a free slot *)
Lemma start_inv p r t0 b :
  slot p r = None ->
  let d0 := fst (start cur (drv_init p r t0) b) in
  dinv d0 (last_rx None [snd (start cur (drv_init p r t0) b)]) /\ d_role d0 = r /\ d_now d0 = t0.
Proof.
  intros Hs. cbv zeta. unfold start, arb_process, drv_init. dsimpl.
  cbn [peer_step]. unfold p_on_connected. rewrite Hs. cbn [conn_step on_connected fst snd].
  set (c1 := set_state _ OpenSent).
  assert (Hf : forall l, filter (fun o => negb (other_send r o)) (map (PConn r) l) = map (PConn r) l).
  { induction l as [|o l IHl]; [reflexivity|]. cbn [map filter other_send].
    destruct o; cbn [negb]; rewrite ?role_eqb_refl; cbn [negb]; rewrite IHl; reflexivity. }
  rewrite Hf. unfold apply_outputs.
  split; [|split; reflexivity].
  split; [unfold last_rx; cbn; intros t E; discriminate E|].
  intros _ cn Hm. unfold my_conn in Hm. dsimpl. rewrite slot_set_same in Hm. injection Hm as Hm. subst cn.
  unfold cinv. cbn [c1 set_state c_state c_ka c_local_hold conn_new].
  destruct (p_local_hold p =? 0) eqn:El; cbn [app map fold_left apply_one a_hold a_ka fst snd].
  - auto.
  - split; [reflexivity|]. split; [reflexivity|]. intro E. rewrite E in El. discriminate El.
Qed.

(* ------------------------------- where a hold-timer SessionDown can come from *)

Definition hold_down (o : pfo) : bool :=
  match o with PConn _ (SessDown RHoldExpired _) => true | _ => false end.

Lemma fold_hold_down armf now l a :
  a_down (fold_left (apply_one armf now) l a) = Some RHoldExpired ->
  a_down a = Some RHoldExpired \/ existsb hold_down l = true.
Proof.
  revert a. induction l as [|o l IH]; intros a H; [left; exact H|]. cbn [fold_left] in H.
  destruct (IH _ H) as [Ha|Hl]; [|right; cbn [existsb]; rewrite Hl; apply orb_true_r].
  destruct o as [r o| |]; [destruct o as [| | | | |rs n| |]|..]; cbn in Ha; try (left; exact Ha); try discriminate Ha.
  injection Ha as Ha. subst rs. right. reflexivity.
Qed.

Lemma hold_down_filter f l : existsb hold_down (filter f l) = true -> existsb hold_down l = true.
Proof.
  intro H. apply existsb_exists in H as (o & Ho & Hd). apply filter_In in Ho as [Ho _].
  apply existsb_exists. exists o. auto.
Qed.

Lemma conn_no_hold_down cn i r p :
  i <> HoldExpired -> existsb hold_down (map (map_out p r) (snd (conn_step cn i))) = false.
Proof.
  intro Hi. destruct i as [b|m| | | | |]; try contradiction; cbn [conn_step].
  - unfold on_connected. cbn [snd]. destruct (c_local_hold cn =? 0); reflexivity.
  - destruct m as [asn id hold caps| | |code sub|f]; cbn [conn_step].
    + unfold on_open. destruct (negb (st_eqb (c_state cn) OpenSent)); [reflexivity|].
      destruct (negb (c_expected_asn cn =? 0) && negb (c_expected_asn cn =? asn)); [reflexivity|].
      destruct (N.min (open_hold (c_local_hold cn)) hold =? 0); [destruct (c_local_hold cn =? 0)|]; reflexivity.
    + unfold on_keepalive. destruct (c_state cn); reflexivity.
    + unfold on_update. destruct (st_eqb (c_state cn) Established); reflexivity.
    + reflexivity.
    + unfold on_refresh. destruct (st_eqb (c_state cn) Established); reflexivity.
  - unfold on_ka_expired. destruct (c_state cn); reflexivity.
  - reflexivity.
  - reflexivity.
  - unfold on_update_sent. destruct (st_eqb (c_state cn) Established && (0 <? c_ka cn)); reflexivity.
Qed.

Lemma peer_no_hold_down p r i :
  i <> HoldExpired -> existsb hold_down (snd (peer_step p r i)) = false.
Proof.
  intro Hi. destruct (is_connected i) eqn:Hc.
  - destruct i; try discriminate Hc. cbn [peer_step]. unfold p_on_connected.
    destruct (slot p r); [reflexivity|]. cbn [conn_step on_connected fst snd].
    destruct (c_local_hold _ =? 0); reflexivity.
  - destruct (slot p r) as [cn|] eqn:Hs; [|rewrite (peer_step_no_slot _ _ _ Hc Hs); reflexivity].
    rewrite (peer_step_slot _ _ _ _ Hc Hs). cbv zeta. unfold collide.
    pose proof (conn_no_hold_down cn i r p Hi) as Hn.
    destruct (check_collision _ r) as [p2 [l|]];
    destruct (existsb is_entered_oc _); destruct (existsb is_down _); try destruct (role_eqb l r);
      cbn [fst snd]; rewrite ?existsb_app, ?Hn; destruct r; reflexivity.
Qed.

Lemma feed_no_timer_down c d a i :
  i <> HoldExpired -> timer_down (snd (feed c d a i)) = false.
Proof.
  intro Hi. unfold feed, arb_process.
  pose proof (peer_no_hold_down (d_p d) (d_role d) i Hi) as Hn.
  destruct (peer_step (d_p d) (d_role d) i) as [p' outs]. cbn [snd] in Hn.
  unfold apply_outputs. cbn [fst snd l_res timer_down].
  match goal with |- context [a_down ?x] => destruct (a_down x) as [rs|] eqn:Ea end; [|reflexivity].
  destruct rs; try reflexivity. exfalso.
  apply fold_hold_down in Ea. destruct Ea as [Ea|Ea]; [discriminate Ea|].
  apply hold_down_filter in Ea. congruence.
Qed.

Lemma rx_loop_no_timer_down its : forall d, existsb timer_down (snd (rx_loop cur d its)) = false.
Proof.
  induction its as [|it rest IH]; intro d; [reflexivity|]. cbn [rx_loop].
  assert (Hl : timer_down (snd (rx_item cur d it)) = false).
  { destruct it as [m| |cd sb]; cbn [rx_item c_loop_to_fsm cur];
      [apply feed_no_timer_down; discriminate | apply feed_no_timer_down; discriminate | reflexivity]. }
  destruct (rx_item cur d it) as [d1 l].
  cbn [snd] in Hl. destruct (d_live d1).
  - specialize (IH d1). destruct (rx_loop cur d1 rest) as [d2 ls]. cbn [snd existsb] in *. rewrite Hl, IH. reflexivity.
  - cbn [snd existsb]. rewrite Hl. reflexivity.
Qed.

(* a step ends the session for hold-timer expiry only in the hold-timer arm of
   the select, i.e. when the stored deadline has been reached *)
Lemma step_timer_down d e :
  existsb timer_down (snd (step cur d e)) = true ->
  e = ESelect /\ d_live d = true /\ d_close d = None /\ enabled (d_now d) (d_hold d) = true.
Proof.
  unfold step. destruct (d_live d); cbn [negb]; [|intro H; discriminate H].
  destruct e as [dt|its| |cr| | |i]; try (cbn; intro H; discriminate H).
  2:{ destruct (peer_step _ _ _) as [p' outs]. cbn. intro H; discriminate H. }
  unfold select. destruct (d_close d) as [[|cd s|]|].
  - unfold one. cbn [snd existsb]. rewrite feed_no_timer_down; [intro H; discriminate H | discriminate].
  - cbn. intro H; discriminate H.
  - cbn. intro H; discriminate H.
  - destruct (enabled (d_now d) (d_hold d)); [auto|].
    destruct (enabled (d_now d) (d_ka d)).
    { unfold one. cbn [snd existsb]. rewrite feed_no_timer_down; [intro H; discriminate H | discriminate]. }
    match goal with |- context [match ?x with pair _ _ => _ end] => set (sp := x) end.
    assert (Hsp : existsb timer_down (snd sp) = false).
    { subst sp. destruct (d_rxq d) as [|it rest].
      - destruct (d_eof d); [|reflexivity]. unfold one. cbn [snd existsb].
        rewrite feed_no_timer_down; [reflexivity | discriminate].
      - apply rx_loop_no_timer_down. }
    destruct sp as [d1 ls]. cbn [snd] in Hsp.
    destruct (d_live d1 && (d_ctrl d || d_pend d)); [destruct (d_pend d1)|].
    + unfold flush. destruct (arb_process _ _ _) as [p' outs].
      destruct (apply_outputs _ _ _ _ _) as [[h' k'] res]. cbn [snd].
      rewrite existsb_app, Hsp. cbn. intro H; discriminate H.
    + destruct ls; cbn [snd]; [cbn; intro H; discriminate H|]. rewrite Hsp. intro H; discriminate H.
    + destruct ls; cbn [snd]; [cbn; intro H; discriminate H|]. rewrite Hsp. intro H; discriminate H.
Qed.

(* ------------------------------------------------------- final statements *)

Lemma task_inv p r t0 b evs :
  slot p r = None ->
  dinv (fst (task cur p r t0 b evs)) (last_rx None (snd (task cur p r t0 b evs)))
  /\ d_role (fst (task cur p r t0 b evs)) = r.
Proof.
  intro Hs. unfold task, session.
  pose proof (start_inv p r t0 b Hs) as H0. cbv zeta in H0.
  destruct (start cur (drv_init p r t0) b) as [d0 l0]. cbn [fst snd] in H0.
  destruct H0 as (Hi0 & Hr0 & _).
  pose proof (run_inv evs d0 _ Hi0) as H1. cbv zeta in H1.
  destruct (run cur d0 evs) as [d1 ls]. cbn [fst snd] in *.
  destruct H1 as (Hi1 & Hr1 & _).
  change (l0 :: ls) with ([l0] ++ ls). rewrite last_rx_app. split; [exact Hi1|congruence].
Qed.

(* (2) zero disables it *)
Lemma C08_zero_disables :
  forall (p : pfsm) (r : role) (t0 : N) (b : bool) (evs : list ev),
    slot p r = None -> zero_disables (fst (task cur p r t0 b evs)).
Proof.
  intros p r t0 b evs Hs cn Hl Hm Hao Hz.
  destruct (task_inv p r t0 b evs Hs) as [[_ Hc] _].
  specialize (Hc Hl cn Hm). unfold cinv, after_open in *.
  destruct (c_state cn); try discriminate Hao; rewrite Hz in Hc; cbn in Hc;
    destruct Hc as (H1 & H2 & _); split; assumption.
Qed.

(* (4) the hold deadline is the last reception plus the hold time *)
Lemma C08_hold_follows_rx :
  forall (p : pfsm) (r : role) (t0 : N) (b : bool) (evs : list ev),
    slot p r = None ->
    hold_follows_rx (fst (task cur p r t0 b evs)) (snd (task cur p r t0 b evs)).
Proof.
  intros p r t0 b evs Hs cn Hl Hm Hao Hnz.
  destruct (task_inv p r t0 b evs Hs) as [[_ Hc] _].
  specialize (Hc Hl cn Hm). unfold cinv, after_open in *.
  destruct (c_state cn); try discriminate Hao;
    (destruct (c_neg_hold cn =? 0) eqn:En; [apply N.eqb_eq in En; contradiction|]);
    destruct Hc as (_ & (t & Hg & Ht & Hh) & _); exists t; auto.
Qed.

(* (3) ... and the session never dies of timer expiry *)
Lemma C08_zero_never_expires :
  forall (p : pfsm) (r : role) (t0 : N) (b : bool) (evs : list ev) (cn : conn) (e : ev),
    slot p r = None ->
    let d := fst (task cur p r t0 b evs) in
    my_conn d = Some cn -> after_open cn = true -> c_neg_hold cn = 0 ->
    existsb timer_down (snd (step cur d e)) = false.
Proof.
  intros p r t0 b evs cn e Hs d Hm Hao Hz.
  destruct (existsb timer_down (snd (step cur d e))) eqn:E; [|reflexivity]. exfalso.
  apply step_timer_down in E as (_ & Hl & _ & Hen).
  destruct (C08_zero_disables p r t0 b evs Hs cn Hl Hm Hao Hz) as [Hh _].
  fold d in Hh. unfold stopped in Hh. rewrite Hh in Hen. discriminate Hen.
Qed.

(* (5) torn down for hold-timer expiry only when nothing was received for the hold time *)
Lemma C08_expiry_only_after_silence :
  forall (p : pfsm) (r : role) (t0 : N) (b : bool) (evs : list ev) (cn : conn) (e : ev),
    slot p r = None ->
    let d := fst (task cur p r t0 b evs) in
    let tr := snd (task cur p r t0 b evs) in
    my_conn d = Some cn -> after_open cn = true -> c_neg_hold cn <> 0 ->
    existsb timer_down (snd (step cur d e)) = true ->
    exists t, last_rx None tr = Some t /\ t + c_neg_hold cn <= d_now d.
Proof.
  intros p r t0 b evs cn e Hs d tr Hm Hao Hnz E.
  apply step_timer_down in E as (_ & Hl & _ & Hen).
  destruct (C08_hold_follows_rx p r t0 b evs Hs cn Hl Hm Hao Hnz) as (t & Hg & _ & Hh).
  exists t. split; [exact Hg|]. fold d in Hh. rewrite Hh in Hen. cbn in Hen. lia.
Qed.

(* (6) ... and then it is: once the deadline is reached the next iteration of
   the select loop ends the session with HoldTimerExpired and the
   NOTIFICATION 4/0, whatever else is ready (short of a close request) *)
Lemma C08_expiry_when_silent :
  forall (p : pfsm) (r : role) (t0 : N) (b : bool) (evs : list ev) (cn : conn) (t : N),
    slot p r = None ->
    let d := fst (task cur p r t0 b evs) in
    let tr := snd (task cur p r t0 b evs) in
    d_live d = true -> my_conn d = Some cn -> after_open cn = true -> c_neg_hold cn <> 0 ->
    last_rx None tr = Some t -> t + c_neg_hold cn <= d_now d -> d_close d = None ->
    exists l, snd (step cur d ESelect) = [l] /\ l_act l = AHoldFired
              /\ l_res l = Term RHoldExpired (Some (4, 0))
              /\ d_live (fst (step cur d ESelect)) = false.
Proof.
  intros p r t0 b evs cn t Hs d tr Hl Hm Hao Hnz Hg Hle Hcl.
  destruct (C08_hold_follows_rx p r t0 b evs Hs cn Hl Hm Hao Hnz) as (t' & Hg' & _ & Hh).
  fold tr in Hg'. rewrite Hg in Hg'. injection Hg' as Hg'. subst t'. fold d in Hh.
  unfold step. rewrite Hl. cbn [negb]. unfold select. rewrite Hcl, Hh. cbn [enabled].
  replace (t + c_neg_hold cn <=? d_now d) with true by (symmetry; apply N.leb_le; exact Hle).
  unfold one, feed, arb_process. dsimpl. unfold my_conn in Hm.
  rewrite (peer_step_slot _ _ HoldExpired cn eq_refl Hm). cbv zeta. cbn [conn_step].
  unfold on_hold_expired. unfold after_open in Hao.
  destruct (c_state cn); try discriminate Hao;
    cbn [fst snd existsb is_entered_oc is_down orb map map_out app filter other_send negb
         apply_outputs fold_left apply_one a_hold a_ka a_down a_notif c_arm cur]; dsimpl;
    eexists; (split; [reflexivity|]); cbn; rewrite ?andb_false_r; auto.
Qed.

(* (7) the keepalive timer: when it fires a KEEPALIVE is queued and the timer
   is re-armed with a third of the hold time *)
Lemma C08_keepalive_every_third :
  forall (p : pfsm) (r : role) (t0 : N) (b : bool) (evs : list ev) (cn : conn),
    slot p r = None ->
    let d := fst (task cur p r t0 b evs) in
    d_live d = true -> my_conn d = Some cn -> after_open cn = true -> 3 <= c_neg_hold cn ->
    d_close d = None -> enabled (d_now d) (d_hold d) = false -> enabled (d_now d) (d_ka d) = true ->
    let d' := fst (step cur d ESelect) in
    d_live d' = true /\ d_hold d' = d_hold d
    /\ d_ka d' = TAt (d_now d + keepalive_of (c_neg_hold cn))
    /\ exists l, snd (step cur d ESelect) = [l] /\ In (PConn (d_role d) (Send MKeepalive)) (l_outs l).
Proof.
  intros p r t0 b evs cn Hs d Hl Hm Hao H3 Hcl Hh Hk.
  destruct (task_inv p r t0 b evs Hs) as [[_ Hc] _]. fold d in Hc.
  specialize (Hc Hl cn Hm). unfold cinv in Hc.
  assert (Hka : c_ka cn = c_neg_hold cn / 3).
  { unfold after_open in Hao. destruct (c_state cn); try discriminate Hao;
      (destruct (c_neg_hold cn =? 0) eqn:En; [apply N.eqb_eq in En; lia|]); destruct Hc as (Hx & _); exact Hx. }
  cbv zeta. unfold step. rewrite Hl. cbn [negb]. unfold select. rewrite Hcl, Hh, Hk.
  unfold one, feed, arb_process. dsimpl. unfold my_conn in Hm.
  rewrite (peer_step_slot _ _ KaExpired cn eq_refl Hm). cbv zeta. cbn [conn_step].
  unfold on_ka_expired, keepalive_of. unfold after_open in Hao.
  destruct (c_state cn); try discriminate Hao;
    cbn [fst snd existsb is_entered_oc is_down orb map map_out app filter other_send negb role_eqb
         apply_outputs fold_left apply_one a_hold a_ka a_down a_notif c_arm cur]; dsimpl;
    rewrite ?role_eqb_refl; cbn [negb filter fold_left apply_one a_hold a_ka a_down a_notif]; dsimpl;
    rewrite Hka, (arm_stop0_pos _ _ (div3_pos _ H3)); (split; [rewrite Hl; reflexivity|]); (split; [reflexivity|]); (split; [reflexivity|]);
    eexists; (split; [reflexivity|]); cbn; auto.
Qed.

(* ------------------------------------------------------------ non-vacuity *)

Definition ex_evs0 : list ev :=
  [EArrive [IMsg (MOpen 65001 100 0 []); IMsg MKeepalive]; ESelect; ETick 1000; ESelect].
Definition ex_evs30 : list ev :=
  [EArrive [IMsg (MOpen 65001 100 30 w_mp); IMsg MKeepalive]; ESelect; ETick 5; EArrive [ILoop]; ESelect].

(* hypotheses of zero_disables / zero_never_expires: an Established session with hold time 0, 1000 s old *)
Example zero_nonvacuous :
  slot w_p0 RActive = None /\
  let d := fst (task cur w_p0 RActive 0 false ex_evs0) in
  exists cn, d_live d = true /\ my_conn d = Some cn /\ after_open cn = true /\ c_neg_hold cn = 0
             /\ c_state cn = Established /\ d_now d = 1000.
Proof. split; [reflexivity|]. vm_compute. eexists. repeat split. Qed.

(* hypotheses of hold_follows_rx / expiry_only_after_silence / expiry_when_silent / keepalive_every_third *)
Example follows_nonvacuous :
  slot w_p1 RActive = None /\
  let d := fst (task cur w_p1 RActive 0 false ex_evs30) in
  let tr := snd (task cur w_p1 RActive 0 false ex_evs30) in
  exists cn, d_live d = true /\ my_conn d = Some cn /\ after_open cn = true /\ c_neg_hold cn = 30
             /\ last_rx None tr = Some 5 /\ d_hold d = TAt 35 /\ d_close d = None.
Proof. split; [reflexivity|]. vm_compute. eexists. repeat split. Qed.

Example expiry_nonvacuous :
  let d := fst (task cur w_p1 RActive 0 false (ex_evs30 ++ [ETick 30])) in
  let tr := snd (task cur w_p1 RActive 0 false (ex_evs30 ++ [ETick 30])) in
  d_live d = true /\ last_rx None tr = Some 5 /\ 5 + 30 <= d_now d /\ d_close d = None
  /\ existsb timer_down (snd (step cur d ESelect)) = true.
Proof. vm_compute. repeat split; intro H; discriminate H. Qed.

Example keepalive_nonvacuous :
  let d := fst (task cur w_p1 RActive 0 false (ex_evs30 ++ [ETick 5])) in
  d_live d = true /\ d_close d = None /\ enabled (d_now d) (d_hold d) = false
  /\ enabled (d_now d) (d_ka d) = true
  /\ d_ka (fst (step cur d ESelect)) = TAt 20.
Proof. vm_compute. repeat split. Qed.

(* Record of finding C08-3 (repaired): negotiating with the configured number
   instead of the value the OPEN advertised.  A configured hold time of 1 is
   advertised as 0; against a peer advertising 30 the two advertised values
   give 0 (no timers), the configured number gave 1. *)
Lemma C08_raw_local_hold_refuted :
  exists (local remote : N),
    open_hold local = 0 /\ hold_in_force (open_hold local) remote = 0 /\ N.min local remote = 1
    /\ open_hold 65536 = 0 /\ N.min 65536 remote = remote /\ remote <> 0.
Proof. exists 1, 30. vm_compute. repeat split; discriminate. Qed.
