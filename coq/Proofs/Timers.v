(* Lemmas and final statements for property C08 (hold and keepalive timing). *)
From Coq Require Import List NArith Bool Lia ZifyBool ZifyN.
From RB Require Import Base.Val Model.Caps Model.Fsm Model.Timers Spec.TimersSpec.
Import ListNotations.
Open Scope N_scope.

(* ------------------------------------------------------------------ FSM *)

Lemma st_eqb_eq a b : st_eqb a b = true <-> a = b.
Proof. destruct a, b; cbv; split; intro H; try reflexivity; try discriminate. Qed.

(* The values computed at OPEN receipt. *)
Lemma C08_negotiated_is_min :
  forall (c : conn) (asn id hold : N) (caps : list cap),
    c_state c = OpenSent ->
    (c_expected_asn c = 0 \/ c_expected_asn c = asn) ->
    let c' := fst (on_open c asn id hold caps) in
    let outs := snd (on_open c asn id hold caps) in
    let h := hold_in_force (c_local_hold c) hold in
    c_state c' = OpenConfirm
    /\ c_neg_hold c' = h
    /\ (h <> 0 -> c_ka c' = keepalive_of h /\ In (SetKa (keepalive_of h)) outs /\ In (SetHold h) outs).
Proof.
  intros c asn id hold caps Hst Hasn. unfold on_open.
  rewrite Hst. change (negb (st_eqb OpenSent OpenSent)) with false. cbv iota.
  assert (Hg : negb (c_expected_asn c =? 0) && negb (c_expected_asn c =? asn) = false).
  { destruct Hasn as [H|H]; rewrite H; rewrite ?N.eqb_refl; cbn; auto using andb_false_r. }
  rewrite Hg. cbn [fst snd c_state c_neg_hold c_ka]. unfold hold_in_force, keepalive_of.
  split; [reflexivity|]. split; [reflexivity|].
  intros Hnz. destruct (N.min (c_local_hold c) hold =? 0) eqn:E; [lia|].
  split; [reflexivity|]. cbn. auto 8.
Qed.

Example negotiated_is_min_nonvacuous :
  let c := fst (on_connected (conn_new 65000 200 [] 90 65001)) in
  c_state c = OpenSent /\ (c_expected_asn c = 0 \/ c_expected_asn c = 65001)
  /\ hold_in_force (c_local_hold c) 30 = 30.
Proof. vm_compute. auto. Qed.
