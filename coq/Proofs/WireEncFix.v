(* C04: decode . encode is a fixed point on the values the peer reads (structured families). *)
From Coq Require Import List ZArith NArith Bool Lia.
From RB Require Import Base.Val Model.Caps Model.WireEnc Spec.WireRead Spec.WireEncSpec Spec.WireReadFam
     Spec.WireFamSpec Proofs.WireEnc Proofs.WireEncFam.
Import ListNotations.
Open Scope N_scope.

Lemma sig_octets_idem m a : (m + 7) / 8 <= blen a -> sig_octets m (sig_octets m a) = sig_octets m a.
Proof.
  intros H. unfold sig_octets. rewrite firstn_firstn. f_equal. lia.
Qed.

Lemma enc_fcomp_canon v6 c : fcomp_wf v6 c -> enc_fcomp v6 (canon_fcomp c) = enc_fcomp v6 c /\ fcomp_wf v6 (canon_fcomp c) /\ canon_fcomp (canon_fcomp c) = canon_fcomp c.
Proof.
  destruct c as [ty m off a | ty ops]; cbn [canon_fcomp enc_fcomp fcomp_wf]; [|auto].
  intros [Hty [Ha Hoff]].
  pose proof (sig_octets_blen m a Ha) as Hs.
  change (len (sig_octets m a)) with (blen (sig_octets m a)). change (len a) with (blen a). rewrite Hs.
  replace ((m + 7) / 8 <=? (m + 7) / 8) with true by (symmetry; apply N.leb_le; lia).
  replace ((m + 7) / 8 <=? blen a) with true by (symmetry; apply N.leb_le; exact Ha).
  split; [| split; [split; [exact Hty | split; [lia | exact Hoff]] | rewrite sig_octets_idem by exact Ha; reflexivity]].
  f_equal. f_equal. f_equal. unfold sig_octets. rewrite firstn_firstn. f_equal. lia.
Qed.

Lemma enc_fcomps_canon v6 comps :
  Forall (fcomp_wf v6) comps ->
  enc_fcomps v6 (map canon_fcomp comps) = enc_fcomps v6 comps /\ Forall (fcomp_wf v6) (map canon_fcomp comps) /\
  map canon_fcomp (map canon_fcomp comps) = map canon_fcomp comps.
Proof.
  induction comps as [|c comps IH]; intros H; [repeat split; constructor|].
  inversion H as [|? ? Hc Hcs]; subst. destruct (enc_fcomp_canon v6 c Hc) as [He [Hw Hi]].
  destruct (IH Hcs) as [IHe [IHw IHi]]. cbn [map enc_fcomps]. rewrite He, IHe, Hi, IHi.
  split; [reflexivity|]. split; [constructor; assumption | reflexivity].
Qed.

Lemma mup_prefix_canon pl a : (pl + 7) / 8 <= blen a ->
  mup_prefix pl (sig_octets pl a) = mup_prefix pl a /\ (pl + 7) / 8 <= blen (sig_octets pl a) /\ blen (sig_octets pl a) <= blen a.
Proof.
  intros H. pose proof (sig_octets_blen pl a H) as Hs.
  destruct (mup_prefix_sig pl a H) as [Hp _].
  assert (H' : (pl + 7) / 8 <= blen (sig_octets pl a)) by lia.
  destruct (mup_prefix_sig pl (sig_octets pl a) H') as [Hp' _].
  split; [|lia]. etransitivity; [exact Hp'|]. etransitivity; [apply sig_octets_idem; exact H|]. symmetry. exact Hp.
Qed.

(* the value the peer reads is itself representable, is written as the same octets and reads as itself *)
Theorem C04_structured_fixpoint :
  forall (p : profile) (k : skind) (pid : N) (n : nlri),
    structured k (pid, n) ->
    structured k (pid, canon_struct n) /\
    canon_struct (canon_struct n) = canon_struct n /\
    enc_nlri p (canon_struct n) = enc_nlri p n /\
    forall enc rest, enc_nlri p n = Ok enc -> read_struct k (enc ++ rest) = Some (canon_struct n, rest).
Proof.
  intros p k pid n Hs.
  assert (Hread : forall enc rest, enc_nlri p n = Ok enc -> read_struct k (enc ++ rest) = Some (canon_struct n, rest)).
  { intros enc rest He. apply (read_struct_enc p k n false enc rest pid Hs He). }
  destruct Hs as [Hpid Hs]. cbn [fst snd] in *.
  destruct k as [v6 vpn | | | | v6m | ]; destruct n as [ | | | | | | v6' rd comps | r | e | d c ep | m | lsv | b]; try contradiction.
  - destruct Hs as [-> [Hrd [Hwf Hsz]]]. destruct (enc_fcomps_canon v6 comps Hwf) as [He [Hw Hi]].
    cbn [canon_struct]. split; [|split; [rewrite Hi; reflexivity | split; [cbn [enc_nlri]; rewrite He; reflexivity | exact Hread]]].
    split; [exact Hpid|]. cbn [snd structured]. rewrite He. repeat split; assumption.
  - cbn [canon_struct]. split; [split; assumption|]. repeat split; try reflexivity. exact Hread.
  - cbn [canon_struct]. split; [split; assumption|]. repeat split; try reflexivity. exact Hread.
  - cbn [canon_struct]. split; [split; assumption|]. repeat split; try reflexivity. exact Hread.
  - destruct m as [rd pl a | rd a | rd pl a teid qfi ep src | rd el ep teid]; cbn [canon_struct].
    + unfold mup_wf in Hs. destruct Hs as [Hrd [Hpl [Ha Haw]]].
      destruct (mup_prefix_canon pl a Ha) as [Hp [H1 H2]].
      split; [split; [exact Hpid | cbn [snd structured mup_wf]; repeat split; try assumption; lia]|].
      split; [rewrite sig_octets_idem by exact Ha; reflexivity|].
      split; [cbn [enc_nlri]; unfold enc_mup; rewrite Hp; reflexivity | exact Hread].
    + split; [split; assumption|]. repeat split; try reflexivity. exact Hread.
    + unfold mup_wf in Hs. destruct Hs as [Hrd [Hpl [Ha [Haw Hrest]]]].
      destruct (mup_prefix_canon pl a Ha) as [Hp [H1 H2]].
      split; [split; [exact Hpid | cbn [snd structured mup_wf]; repeat split; try assumption; try lia; apply Hrest]|].
      split; [rewrite sig_octets_idem by exact Ha; reflexivity|].
      split; [cbn [enc_nlri]; unfold enc_mup; rewrite Hp; reflexivity | exact Hread].
    + split; [split; assumption|]. repeat split; try reflexivity. exact Hread.
  - cbn [canon_struct]. split; [split; assumption|]. repeat split; try reflexivity. exact Hread.
Qed.
