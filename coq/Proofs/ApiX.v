(* C17  Flowspec, SR Policy and Route Target Constraint NLRI: round trip through the API
   form, invariant preservation. *)
From Coq Require Import List ZArith NArith Bool Lia ZifyBool ZifyNat ZifyN.
From RB Require Import Base.Val Model.Api Spec.ApiSpec Proofs.ApiBytes Proofs.ApiStr Proofs.ApiRt Proofs.ApiNlri.
Import ListNotations.
Open Scope N_scope.

Local Ltac Zify.zify_post_hook ::= Z.div_mod_to_equations.
Arguments ip4_to_string : simpl never.
Arguments ip4_of_string : simpl never.
Arguments to_bytes : simpl never.
Arguments of_bytes : simpl never.

(* ------------------------------------------------------------------ *)
(* operator lists                                                       *)
Lemma op_bits_id : forall b last, wf_op_bits last b -> op_core_bits b + (if last then 128 else 0) = b.
Proof. intros b last [H1 [H2 H3]]. unfold op_core_bits. destruct last; lia. Qed.

Lemma ops_roundtrip : forall ops, wf_ops ops -> ops_from_items ops = Some ops.
Proof.
  induction ops as [|[b v] r IH]; intros H; [contradiction|].
  cbn [ops_from_items]. destruct r as [|o r'].
  - cbn [wf_ops] in H. destruct H as [Hb _]. pose proof (op_bits_id b true Hb) as E.
    destruct Hb as [Hb _]. destruct (N.ltb_spec 255 b); [lia|]. cbn [ops_from_items]. rewrite E. reflexivity.
  - change (wf_ops ((b, v) :: o :: r')) with (wf_op_bits false b /\ v < 2 ^ 64 /\ wf_ops (o :: r')) in H.
    destruct H as [Hb [_ Hr]]. pose proof (op_bits_id b false Hb) as E. destruct Hb as [Hb _].
    destruct (N.ltb_spec 255 b); [lia|]. rewrite (IH Hr). rewrite N.add_0_r in E. rewrite E. reflexivity.
Qed.

Lemma op_core_lt : forall b, op_core_bits b < 128 /\ (op_core_bits b / 16) mod 4 = 0.
Proof. intros b. unfold op_core_bits. lia. Qed.

Lemma ops_from_items_wf : forall items ops, items <> [] -> Forall (fun o => snd o < 2 ^ 64) items ->
  ops_from_items items = Some ops -> wf_ops ops.
Proof.
  induction items as [|[op v] r IH]; intros ops Hne Hr H; [contradiction|].
  cbn [ops_from_items] in H. destruct (N.ltb_spec 255 op); [discriminate|].
  destruct (ops_from_items r) as [ops'|] eqn:Er; [|discriminate]. injection H as <-.
  inversion Hr as [|? ? Hv Hrr]; subst. cbn [snd] in Hv.
  pose proof (op_core_lt op) as [Hc1 Hc2].
  destruct r as [|o r'].
  - cbn [ops_from_items] in Er. injection Er as <-. cbn [wf_ops]. split; [|exact Hv].
    unfold wf_op_bits. repeat split; lia.
  - assert (Hw : wf_ops ops') by (apply (IH ops'); [discriminate|exact Hrr|reflexivity]).
    destruct ops' as [|o' r'']; [contradiction|].
    change (wf_op_bits false (op_core_bits op) /\ v < 2 ^ 64 /\ wf_ops (o' :: r'')).
    split; [unfold wf_op_bits; repeat split; lia|]. split; assumption.
Qed.

(* ------------------------------------------------------------------ *)
(* flowspec                                                             *)
Definition fs_family (n : fs_nlri) : N :=
  match n with
  | FsN false None _ => 65669 | FsN true None _ => 131205
  | FsN false (Some _) _ => 65670 | FsN true (Some _) _ => 131206
  end.

Section FsProofs.
  Variable v6p : N -> list N.
  Variable v6r : list N -> option N.

  Lemma fs_comp_roundtrip : forall v6 c, v6_contract v6p v6r -> wf_fs_comp v6 c ->
    fs_rule_from_api v6r v6 (fs_comp_to_api v6p v6 c) = Some c.
  Proof.
    intros v6 c [Hrt Hn4] H. destruct c as [t a m off|t ops]; cbn [wf_fs_comp fs_comp_to_api fs_rule_from_api] in *.
    - destruct H as [Ht [Hp Ho]]. destruct v6.
      + pose proof (wf_prefix_16 a m Hp) as [Ha Hm]. rewrite Hrt by exact Ha.
        rewrite (octets_ok_true 16 a m Hp). destruct (N.ltb_spec (8 * 16) m); [lia|].
        destruct (N.ltb_spec 255 off); [lia|]. cbn [negb orb andb].
        destruct Ht as [-> | ->]; reflexivity.
      + pose proof (wf_prefix_4 a m Hp) as [Ha Hm]. rewrite ip4_roundtrip by exact Ha.
        rewrite (octets_ok_true 4 a m Hp). destruct (N.ltb_spec (8 * 4) m); [lia|]. cbn [negb orb andb]. subst off.
        destruct Ht as [-> | ->]; reflexivity.
    - destruct H as [Ht Ho]. rewrite (ops_roundtrip ops Ho). destruct ops as [|o r]; [contradiction|].
      destruct v6; (destruct (N.leb_spec 3 t); [|lia]); [destruct (N.leb_spec t 13)|destruct (N.leb_spec t 12)]; try lia; reflexivity.
  Qed.

  Lemma fs_comps_roundtrip : forall v6 cs, v6_contract v6p v6r -> Forall (wf_fs_comp v6) cs ->
    fs_rules_from_api v6r v6 (map (fs_comp_to_api v6p v6) cs) = Some cs.
  Proof.
    intros v6 cs Hc H. induction H as [|c cs Hw _ IH]; [reflexivity|].
    cbn [map fs_rules_from_api]. rewrite (fs_comp_roundtrip v6 c Hc Hw), IH. reflexivity.
  Qed.

  Theorem fs_roundtrip : forall n, v6_contract v6p v6r -> wf_fs n ->
    fs_from_api v6r (fs_family n) (fs_to_api v6p n) = Some n.
  Proof.
    intros [v6 d cs] Hc [Hcs [Hd Hlen]]. unfold fs_from_api.
    destruct d as [d|]; cbn [fs_to_api fs_family].
    - rewrite (rd_roundtrip d Hd). destruct v6; cbn -[fs_body_len]; rewrite (fs_comps_roundtrip _ cs Hc Hcs).
      + destruct (N.ltb_spec 4095 (fs_body_len (FsN true (Some d) cs))); [lia|reflexivity].
      + destruct (N.ltb_spec 4095 (fs_body_len (FsN false (Some d) cs))); [lia|reflexivity].
    - destruct v6; cbn -[fs_body_len]; rewrite (fs_comps_roundtrip _ cs Hc Hcs).
      + destruct (N.ltb_spec 4095 (fs_body_len (FsN true None cs))); [lia|reflexivity].
      + destruct (N.ltb_spec 4095 (fs_body_len (FsN false None cs))); [lia|reflexivity].
  Qed.

  Lemma fs_rule_from_api_wf : forall v6 r c, v6_range v6r -> api_fs_rule_in_range r ->
    fs_rule_from_api v6r v6 r = Some c -> wf_fs_comp v6 c.
  Proof.
    intros v6 r c Hrg Hin H. destruct r as [|t plen s off|t items|]; cbn [fs_rule_from_api] in H; try discriminate.
    - destruct (if v6 then v6r s else ip4_of_string s) as [a|] eqn:Ea; [|discriminate].
      destruct (_ || _) eqn:Eg in H; [discriminate|]. injection H as <-.
      apply orb_false_elim in Eg. destruct Eg as [Eg G4]. apply orb_false_elim in Eg. destruct Eg as [Eg G3].
      apply orb_false_elim in Eg. destruct Eg as [G1 G2]. apply negb_false_iff in G2, G4.
      cbn [wf_fs_comp]. split; [apply orb_prop in G4; destruct G4 as [G|G]; apply N.eqb_eq in G; tauto|].
      destruct v6.
      + split; [|cbn in G3; lia]. apply wf_prefix_intro; [change (256 ^ 16) with (2 ^ 128); eapply Hrg; exact Ea|lia|exact G2].
      + split; [|reflexivity]. apply wf_prefix_intro; [change (256 ^ 4) with 4294967296; eapply ip4_of_string_lt; exact Ea|lia|exact G2].
    - destruct items as [|i0 ir] eqn:Ei; [discriminate|]. rewrite <- Ei in *.
      destruct (ops_from_items items) as [ops|] eqn:Eo; [|discriminate].
      destruct (_ && _) eqn:Et in H; [|discriminate]. injection H as <-.
      cbn [wf_fs_comp]. split; [destruct v6; lia|].
      eapply ops_from_items_wf; [|exact Hin|exact Eo]. rewrite Ei. discriminate.
  Qed.

  Lemma fs_rules_from_api_wf : forall v6 rs cs, v6_range v6r -> Forall api_fs_rule_in_range rs ->
    fs_rules_from_api v6r v6 rs = Some cs -> Forall (wf_fs_comp v6) cs.
  Proof.
    intros v6 rs. induction rs as [|r rs IH]; intros cs Hrg Hin H; cbn [fs_rules_from_api] in H.
    - injection H as <-. constructor.
    - destruct (fs_rule_from_api v6r v6 r) as [c|] eqn:Ec; [|discriminate].
      destruct (fs_rules_from_api v6r v6 rs) as [cs'|] eqn:Er; [|discriminate]. injection H as <-.
      inversion Hin as [|? ? Hr Hrs]; subst. constructor; [eapply fs_rule_from_api_wf; eassumption|apply IH; [assumption|assumption|reflexivity]].
  Qed.

  Theorem fs_from_api_wf : forall family x n, v6_range v6r -> api_fs_in_range x ->
    fs_from_api v6r family x = Some n -> wf_fs n.
  Proof.
    intros family x n Hrg Hin H. unfold fs_from_api in H. destruct x as [rules|d rules]; cbn [api_fs_in_range] in Hin.
    - destruct (family =? 65669).
      + destruct (fs_rules_from_api v6r false rules) as [cs|] eqn:E; [|discriminate].
        destruct (N.ltb_spec 4095 (fs_body_len (FsN false None cs))); [discriminate|]. injection H as <-.
        split; [eapply fs_rules_from_api_wf; eassumption|]. split; [exact I|assumption].
      + destruct (family =? 131205); [|discriminate].
        destruct (fs_rules_from_api v6r true rules) as [cs|] eqn:E; [|discriminate].
        destruct (N.ltb_spec 4095 (fs_body_len (FsN true None cs))); [discriminate|]. injection H as <-.
        split; [eapply fs_rules_from_api_wf; eassumption|]. split; [exact I|assumption].
    - destruct Hin as [Hd Hr]. destruct (rd_from_api d) as [d'|] eqn:Ed; [|discriminate].
      pose proof (rd_from_api_wf d d' Hd Ed) as Hwd.
      destruct (family =? 65670).
      + destruct (fs_rules_from_api v6r false rules) as [cs|] eqn:E; [|discriminate].
        destruct (N.ltb_spec 4095 (fs_body_len (FsN false (Some d') cs))); [discriminate|]. injection H as <-.
        split; [eapply fs_rules_from_api_wf; eassumption|]. split; assumption.
      + destruct (family =? 131206); [|discriminate].
        destruct (fs_rules_from_api v6r true rules) as [cs|] eqn:E; [|discriminate].
        destruct (N.ltb_spec 4095 (fs_body_len (FsN true (Some d') cs))); [discriminate|]. injection H as <-.
        split; [eapply fs_rules_from_api_wf; eassumption|]. split; assumption.
  Qed.
End FsProofs.

(* ------------------------------------------------------------------ *)
(* SR Policy                                                            *)
Lemma of_to_bytes : forall k a, a < 256 ^ N.of_nat k -> of_bytes (to_bytes k a) = a.
Proof.
  induction k as [|k IH]; intros a Ha.
  - cbn in Ha. assert (a = 0) by lia. subst. reflexivity.
  - change (to_bytes (S k) a) with (to_bytes k (a / 256) ++ [a mod 256]).
    rewrite of_bytes_snoc. rewrite Nat2N.inj_succ, N.pow_succ_r' in Ha.
    rewrite IH; [pose proof (N.div_mod a 256); lia|apply N.div_lt_upper_bound; lia].
Qed.

Theorem srp_roundtrip : forall n, wf_srp n -> srp_from_api (srp_to_api n) = Some n.
Proof.
  intros [v6 d c e] [_ [_ He]]. unfold srp_to_api, srp_from_api. destruct v6.
  - rewrite length_to_bytes. cbn [Nat.eqb]. rewrite (of_to_bytes 16 e He). reflexivity.
  - rewrite length_to_bytes. cbn [Nat.eqb]. rewrite (of_to_bytes 4 e He). reflexivity.
Qed.

Theorem srp_from_api_wf : forall l d c e n, u32_ok d -> u32_ok c -> bytes_ok e ->
  srp_from_api (ASrP l d c e) = Some n -> wf_srp n.
Proof.
  intros l d c e n Hd Hc He H. unfold srp_from_api in H. pose proof (of_bytes_lt e He) as Hlt.
  destruct (Nat.eqb_spec (length e) 4) as [E4|].
  - injection H as <-. rewrite E4 in Hlt. repeat split; assumption.
  - destruct (Nat.eqb_spec (length e) 16) as [E16|]; [|discriminate].
    injection H as <-. rewrite E16 in Hlt. repeat split; assumption.
Qed.

(* ------------------------------------------------------------------ *)
(* Route Target Constraint                                              *)
Lemma rt_roundtrip : forall t b2 b3 b4 b5 b6 b7, t <= 2 ->
  bytes_ok [t; 2; b2; b3; b4; b5; b6; b7] ->
  rt_from_api (rt_to_api [t; 2; b2; b3; b4; b5; b6; b7]) = Some [t; 2; b2; b3; b4; b5; b6; b7].
Proof.
  intros t b2 b3 b4 b5 b6 b7 Ht Hok. unfold bytes_ok in Hok.
  repeat match goal with H : Forall _ (_ :: _) |- _ => inversion H; clear H; subst end.
  unfold rt_to_api.
  assert (E16 : forall a b, a < 256 -> b < 256 -> (65535 <? of_be16 a b) = false).
  { intros a b Ha Hb. pose proof (of_be16_lt a b Ha Hb). lia. }
  destruct (N.eqb_spec t 0) as [->|]; [|destruct (N.eqb_spec t 1) as [->|]].
  - cbn [rt_from_api N.eqb negb orb]. rewrite E16, be16_of_be16, be32_of_be32 by assumption. reflexivity.
  - cbn [rt_from_api N.eqb negb orb Pos.eqb]. rewrite E16, ip4_roundtrip_bytes, be16_of_be16, be32_of_be32 by assumption. reflexivity.
  - assert (t = 2) by lia. subst t.
    cbn [rt_from_api N.eqb negb orb Pos.eqb]. rewrite E16, be16_of_be16, be32_of_be32 by assumption. reflexivity.
Qed.

Theorem rtc_roundtrip_outside_known : forall n, wf_rtc n -> ~ Known_C17_rtc n ->
  rtc_from_api (rtc_to_api n) = Some n.
Proof.
  intros [|a|a rt] Hwf Hk; cbn [rtc_to_api rtc_from_api].
  - reflexivity.
  - cbn [Known_C17_rtc] in Hk. destruct (N.eqb_spec a 0); [contradiction|reflexivity].
  - destruct Hwf as [_ [Hl Hok]].
    destruct rt as [|t [|s [|b2 [|b3 [|b4 [|b5 [|b6 [|b7 [|? ?]]]]]]]]]; try discriminate.
    cbn [Known_C17_rtc] in Hk.
    assert (Ht : t <= 2) by lia. assert (Hs : s = 2) by (destruct (N.eq_dec s 2); [assumption|exfalso; apply Hk; right; assumption]).
    subst s. rewrite rt_roundtrip by assumption. reflexivity.
Qed.

(* inside the class the API form cannot give the value back *)
Theorem rtc_roundtrip_refuted :
  exists n, wf_rtc n /\ Known_C17_rtc n /\ rtc_from_api (rtc_to_api n) <> Some n.
Proof. exists (RtcAs 0). split; [cbn; unfold u32_ok; lia|]. split; [reflexivity|]. cbn. discriminate. Qed.

Theorem rtc_from_api_wf : forall a rt n, u32_ok a -> rtc_from_api (ARtc a rt) = Some n -> wf_rtc n.
Proof.
  intros a rt n Ha H. cbn [rtc_from_api] in H. destruct rt as [rt|].
  - destruct (rt_from_api rt) as [b|] eqn:Er; [|discriminate]. injection H as <-.
    split; [exact Ha|]. unfold rt_from_api in Er.
    destruct rt as [|tr sub asn la|tr sub addr la|tr sub asn la]; try discriminate.
    + destruct (_ || _); [discriminate|]. injection Er as <-. split; [reflexivity|].
      unfold be16, be32. repeat constructor; lia.
    + destruct (_ || _); [discriminate|]. destruct (ip4_of_string addr); [|discriminate]. injection Er as <-.
      split; [reflexivity|]. unfold be16, be32. repeat constructor; lia.
    + destruct (_ || _); [discriminate|]. injection Er as <-. split; [reflexivity|].
      unfold be16, be32. repeat constructor; lia.
  - injection H as <-. destruct (a =? 0); [exact I|exact Ha].
Qed.
