(* Order lemmas for Model/Fib.v: the lexicographic comparison, sortedness of
   destinations under insert_sorted / isort / filter, and the refinement of
   ecmp_paths (take_while on a sorted list) to the order-free ECMP set of the Spec. *)
From Coq Require Import List NArith Bool Lia ZifyBool ZifyN Permutation.
From RB Require Import Base.Val Model.Fib Spec.FibSpec.
Import ListNotations.
Open Scope N_scope.

Lemma lcmp_refl : forall a, lcmp a a = Eq.
Proof. induction a as [|x a IH]; cbn [lcmp]; auto. rewrite N.compare_refl. exact IH. Qed.

Lemma lcmp_antisym : forall a b, lcmp b a = CompOpp (lcmp a b).
Proof.
  induction a as [|x a IH]; intros [|y b]; cbn [lcmp CompOpp]; auto.
  rewrite (N.compare_antisym x y). destruct (x ?= y); cbn [CompOpp]; auto.
Qed.

Lemma lcmp_eq : forall a b, lcmp a b = Eq -> a = b.
Proof.
  induction a as [|x a IH]; intros [|y b] H; cbn [lcmp] in H; try discriminate; auto.
  destruct (x ?= y) eqn:E; try discriminate.
  apply N.compare_eq in E. subst. f_equal. auto.
Qed.

Lemma lcmp_trans_lt : forall a b c, lcmp a b = Lt -> lcmp b c <> Gt -> lcmp a c = Lt.
Proof.
  induction a as [|x a IH]; intros [|y b] [|z c] H1 H2; cbn [lcmp] in *;
    try discriminate; try (exfalso; apply H2; reflexivity); try reflexivity.
  destruct (x ?= y) eqn:E1; try discriminate.
  - apply N.compare_eq in E1; subst y.
    destruct (x ?= z) eqn:E2; auto; [eapply IH; eauto | congruence].
  - destruct (y ?= z) eqn:E2.
    + apply N.compare_eq in E2; subst z. rewrite E1. auto.
    + assert (HH : (x ?= z) = Lt) by (rewrite N.compare_lt_iff in *; lia). rewrite HH. auto.
    + congruence.
Qed.

Lemma lcmp_trans_le : forall a b c, lcmp a b <> Gt -> lcmp b c <> Gt -> lcmp a c <> Gt.
Proof.
  intros a b c H1 H2. destruct (lcmp a b) eqn:E; try congruence.
  - apply lcmp_eq in E. subst. auto.
  - rewrite (lcmp_trans_lt a b c) by auto. discriminate.
Qed.

Lemma leqb_eq : forall a b, leqb a b = true <-> a = b.
Proof.
  induction a as [|x a IH]; intros [|y b]; cbn [leqb]; split; intro H; try discriminate; auto.
  - apply andb_true_iff in H. destruct H as [H1 H2]. apply N.eqb_eq in H1. apply IH in H2. subst; auto.
  - inversion H; subst. rewrite N.eqb_refl. cbn. apply IH. auto.
Qed.

Lemma lcmp_app_le : forall a b x y, length a = length b ->
  lcmp (a ++ [x]) (b ++ [y]) <> Gt -> lcmp a b <> Gt.
Proof.
  induction a as [|u a IH]; intros [|w b] x y HL H; cbn [length] in HL; try discriminate HL.
  - cbn. discriminate.
  - cbn [app lcmp] in *. destruct (u ?= w); auto. eapply IH; eauto.
Qed.

Lemma lcmp_app_eq : forall a x y, lcmp (a ++ [x]) (a ++ [y]) = (x ?= y).
Proof.
  induction a as [|u a IH]; intros; cbn [app lcmp].
  - destruct (x ?= y); auto.
  - rewrite N.compare_refl. auto.
Qed.

Section Order.
Variable c : cfg.

Definition fle (fl : flags) (a b : entry) : Prop := lcmp (fkey c fl a) (fkey c fl b) <> Gt.
Definition kle (fl : flags) (a b : entry) : Prop := lcmp (skey c fl a) (skey c fl b) <> Gt.

Lemma fle_refl fl a : fle fl a a.
Proof. unfold fle. rewrite lcmp_refl. discriminate. Qed.

Lemma fle_trans fl a b d : fle fl a b -> fle fl b d -> fle fl a d.
Proof. unfold fle. apply lcmp_trans_le. Qed.

Lemma fle_kle fl a b : fle fl a b -> kle fl a b.
Proof. unfold fle, kle, fkey. apply lcmp_app_le. reflexivity. Qed.

Lemma ege_false fl e a : ege c fl e a = false -> fle fl e a /\ ~ fle fl a e.
Proof.
  unfold ege, fle. intro H. rewrite (lcmp_antisym (fkey c fl e) (fkey c fl a)).
  destruct (lcmp (fkey c fl e) (fkey c fl a)); try discriminate. cbn. split; congruence.
Qed.

Lemma ege_true fl e a : ege c fl e a = true -> fle fl a e.
Proof.
  unfold ege, fle. intro H. rewrite (lcmp_antisym (fkey c fl e) (fkey c fl a)).
  destruct (lcmp (fkey c fl e) (fkey c fl a)); try discriminate; cbn; congruence.
Qed.

Fixpoint ssorted (fl : flags) (l : list entry) : Prop :=
  match l with
  | [] => True
  | a :: t => Forall (fle fl a) t /\ ssorted fl t
  end.

Lemma ssorted_filter fl f l : ssorted fl l -> ssorted fl (filter f l).
Proof.
  induction l as [|a t IH]; cbn [filter ssorted]; auto.
  intros [H1 H2]. destruct (f a); cbn [ssorted]; auto. split; auto.
  rewrite Forall_forall in *. intros x Hx. apply filter_In in Hx. apply H1. tauto.
Qed.

Lemma insert_sorted_in fl e l x : In x (insert_sorted c fl e l) <-> x = e \/ In x l.
Proof.
  induction l as [|a t IH]; cbn [insert_sorted In].
  - intuition.
  - destruct (ege c fl e a); cbn [In]; rewrite ?IH; intuition.
Qed.

Lemma insert_sorted_sorted fl e l : ssorted fl l -> ssorted fl (insert_sorted c fl e l).
Proof.
  induction l as [|a t IH]; cbn [insert_sorted ssorted]; auto.
  intros [H1 H2]. destruct (ege c fl e a) eqn:E; cbn [ssorted].
  - split; auto. rewrite Forall_forall in *. intros x Hx. apply insert_sorted_in in Hx.
    destruct Hx as [->|Hx]; auto. apply ege_true; auto.
  - apply ege_false in E. destruct E as [E _]. split; [|split; auto].
    constructor; auto. rewrite Forall_forall in *. intros x Hx. eapply fle_trans; eauto.
Qed.

Lemma isort_acc_sorted fl l : forall acc, ssorted fl acc ->
  ssorted fl (fold_left (fun acc x => insert_sorted c fl x acc) l acc).
Proof.
  induction l as [|a t IH]; cbn [fold_left]; auto.
  intros acc H. apply IH. apply insert_sorted_sorted; auto.
Qed.

Lemma isort_sorted fl l : ssorted fl (isort c fl l).
Proof. unfold isort. apply isort_acc_sorted. exact I. Qed.

Lemma isort_acc_in fl l : forall acc x,
  In x (fold_left (fun acc x => insert_sorted c fl x acc) l acc) <-> In x l \/ In x acc.
Proof.
  induction l as [|a t IH]; cbn [fold_left In]; intros.
  - tauto.
  - rewrite IH, insert_sorted_in. intuition.
Qed.

Lemma isort_in fl l x : In x (isort c fl l) <-> In x l.
Proof. unfold isort. rewrite isort_acc_in. cbn. tauto. Qed.

(* a stable insertion: filtering commutes with it on sorted lists *)
Lemma insert_sorted_head fl e l : Forall (fun y => ~ fle fl y e) l ->
  insert_sorted c fl e l = e :: l.
Proof.
  destruct l as [|a t]; cbn [insert_sorted]; auto.
  intro H. inversion H; subst. destruct (ege c fl e a) eqn:E; auto.
  apply ege_true in E. contradiction.
Qed.

Lemma filter_insert_sorted fl f e l : ssorted fl l ->
  filter f (insert_sorted c fl e l) =
  if f e then insert_sorted c fl e (filter f l) else filter f l.
Proof.
  induction l as [|a t IH]; cbn [insert_sorted filter ssorted].
  - destruct (f e); auto.
  - intros [H1 H2]. destruct (ege c fl e a) eqn:E.
    + cbn [filter]. rewrite IH by auto. destruct (f e); destruct (f a); auto.
      cbn [insert_sorted]. rewrite E. auto.
    + cbn [filter]. destruct (f e) eqn:Fe; auto.
      symmetry. apply insert_sorted_head.
      apply ege_false in E. destruct E as [E1 E2].
      assert (HA : Forall (fun y => ~ fle fl y e) (a :: t)).
      { constructor; auto. rewrite Forall_forall in *. intros y Hy Hc.
        apply E2. eapply fle_trans; eauto. }
      change (if f a then a :: filter f t else filter f t) with (filter f (a :: t)).
      rewrite Forall_forall in *. intros y Hy. apply filter_In in Hy. apply HA. tauto.
Qed.

Lemma filter_isort_acc fl f l : forall acc, ssorted fl acc ->
  filter f (fold_left (fun acc x => insert_sorted c fl x acc) l acc) =
  fold_left (fun acc x => insert_sorted c fl x acc) (filter f l) (filter f acc).
Proof.
  induction l as [|a t IH]; cbn [fold_left filter]; auto.
  intros acc H. rewrite IH by (apply insert_sorted_sorted; auto).
  rewrite filter_insert_sorted by auto. destruct (f a); auto.
Qed.

Lemma insert_sorted_last fl e l : Forall (fun y => fle fl y e) l ->
  insert_sorted c fl e l = l ++ [e].
Proof.
  induction l as [|a t IH]; cbn [insert_sorted app]; auto.
  intro H. inversion H; subst. destruct (ege c fl e a) eqn:E.
  - f_equal. auto.
  - apply ege_false in E. tauto.
Qed.

Lemma isort_acc_id fl l : forall acc, ssorted fl (acc ++ l) ->
  fold_left (fun acc x => insert_sorted c fl x acc) l acc = acc ++ l.
Proof.
  induction l as [|a t IH]; cbn [fold_left]; intros acc H.
  - rewrite app_nil_r. auto.
  - rewrite insert_sorted_last.
    + rewrite IH; rewrite <- app_assoc; auto.
    + clear IH. induction acc as [|b acc IHa]; cbn [app ssorted] in *; auto.
      destruct H as [H1 H2]. constructor; auto.
      rewrite Forall_forall in H1. apply H1. apply in_or_app. right. left. auto.
Qed.

Lemma isort_id fl l : ssorted fl l -> isort c fl l = l.
Proof. intro H. unfold isort. apply (isort_acc_id fl l []). auto. Qed.

(* keys that agree give the same sortedness *)
Lemma ssorted_ext fl fl' l : (forall e, In e l -> fkey c fl' e = fkey c fl e) ->
  ssorted fl l -> ssorted fl' l.
Proof.
  induction l as [|a t IH]; cbn [ssorted]; auto.
  intros HK [H1 H2]. split.
  - rewrite Forall_forall in *. intros x Hx. unfold fle.
    rewrite !HK by (cbn; auto). apply H1; auto.
  - apply IH; auto. intros; apply HK; cbn; auto.
Qed.

(* ---- ecmp_paths on a sorted list is the order-free ECMP set *)
Lemma skey_tie fl e : skey c fl e = tie_key c fl e.
Proof. reflexivity. Qed.

Lemma ecmp_code_spec fl l : ssorted fl l -> ecmp_code c fl l = ecmp_spec c fl l.
Proof.
  destruct l as [|b t]; auto.
  intros [Hb Ht]. unfold ecmp_code, ecmp_spec.
  assert (Hmin : forall x, In x (b :: t) -> kle fl b x).
  { intros x [<-|Hx]. unfold kle. rewrite lcmp_refl. discriminate.
    apply fle_kle. rewrite Forall_forall in Hb. auto. }
  (* an element is unbeaten iff its key equals the head's *)
  assert (Hun : forall e, In e (b :: t) ->
     forallb (fun x => negb (beats c fl x e)) (b :: t) = leqb (skey c fl e) (skey c fl b)).
  { intros e He. destruct (leqb (skey c fl e) (skey c fl b)) eqn:E.
    - apply leqb_eq in E. apply forallb_forall. intros x Hx. unfold beats.
      change (tie_key c) with (skey c). rewrite E. specialize (Hmin x Hx). unfold kle in Hmin.
      rewrite (lcmp_antisym (skey c fl b) (skey c fl x)).
      destruct (lcmp (skey c fl b) (skey c fl x)); cbn; congruence.
    - apply not_true_iff_false. intro HF. rewrite forallb_forall in HF.
      specialize (HF b (or_introl eq_refl)). unfold beats in HF. change (tie_key c) with (skey c) in HF.
      specialize (Hmin e He). unfold kle in Hmin.
      destruct (lcmp (skey c fl b) (skey c fl e)) eqn:EE; try discriminate; try congruence.
      apply lcmp_eq in EE. rewrite EE in E.
      assert (leqb (skey c fl e) (skey c fl e) = true) by (apply leqb_eq; auto). congruence. }
  (* on a sorted list the equal-key elements form a prefix *)
  transitivity (filter (fun p => leqb (skey c fl p) (skey c fl b)) (b :: t)).
  2:{ apply filter_ext_in. intros e He. symmetry. apply Hun. auto. }
  assert (Hs : ssorted fl (b :: t)) by (split; auto).
  clear Hun. revert Hs Hmin. generalize (b :: t) as l. clear Hb Ht.
  induction l as [|a l IH]; cbn [takewhile filter]; auto.
  intros [Ha Hl] Hmin. destruct (leqb (skey c fl a) (skey c fl b)) eqn:E.
  - f_equal. apply IH; auto. intros; apply Hmin; cbn; auto.
  - symmetry. clear IH.
    assert (HG : forall x, In x l -> leqb (skey c fl x) (skey c fl b) = false).
    { intros x Hx. apply not_true_iff_false. intro HE. apply leqb_eq in HE.
      rewrite Forall_forall in Ha. specialize (Ha x Hx). apply fle_kle in Ha.
      unfold kle in Ha. rewrite HE in Ha.
      specialize (Hmin a (or_introl eq_refl)). unfold kle in Hmin.
      assert (lcmp (skey c fl a) (skey c fl b) = Eq).
      { rewrite (lcmp_antisym (skey c fl b) (skey c fl a)) in Ha |- *.
        destruct (lcmp (skey c fl b) (skey c fl a)) eqn:EE; cbn in *; auto; congruence. }
      apply lcmp_eq in H. rewrite H in E.
      assert (leqb (skey c fl b) (skey c fl b) = true) by (apply leqb_eq; auto). congruence. }
    clear Ha Hl Hmin E.
    induction l as [|y l IHl]; cbn [filter]; auto.
    rewrite HG by (cbn; auto). apply IHl. intros; apply HG; cbn; auto.
Qed.

Lemma ecmp_code_ext fl fl' l : (forall e, In e l -> skey c fl' e = skey c fl e) ->
  ecmp_code c fl' l = ecmp_code c fl l.
Proof.
  destruct l as [|b t]; auto. intro HK. unfold ecmp_code.
  rewrite (HK b) by (cbn; auto).
  generalize (skey c fl b) as kb. intro kb.
  assert (H : forall l, (forall e, In e l -> skey c fl' e = skey c fl e) ->
     takewhile (fun p => leqb (skey c fl' p) kb) l = takewhile (fun p => leqb (skey c fl p) kb) l).
  { induction l as [|a l IH]; cbn [takewhile]; auto. intro HH.
    rewrite (HH a) by (cbn; auto). destruct (leqb (skey c fl a) kb); auto.
    f_equal. apply IH. intros; apply HH; cbn; auto. }
  apply H. auto.
Qed.

(* the rank-first selectable path is a best path under the full order *)
Lemma head_is_best fl l b : ssorted fl l -> hd_error (eligs l) = Some b -> is_best c fl l b.
Proof.
  intros Hs Hb. apply (ssorted_filter fl elig) in Hs. fold (eligs l) in Hs.
  unfold is_best. change (selectable l) with (eligs l).
  destruct (eligs l) as [|x t]; cbn [hd_error] in Hb; try discriminate.
  inversion Hb; subst x. split. cbn; auto.
  intros x [<-|Hx].
  - change (full_key c fl b) with (fkey c fl b). rewrite lcmp_refl. discriminate.
  - destruct Hs as [H1 _]. rewrite Forall_forall in H1. apply H1. auto.
Qed.

End Order.
