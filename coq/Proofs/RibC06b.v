(* Property C06, further statements: the allocator hands out the lowest free
   id, the limited Loc-RIB collection is the add-path window, and
   replaced_path_id names the path whose local id the new path takes over. *)
From Coq Require Import List NArith ZArith Bool Lia Sorting.Permutation Sorting.Sorted.
From RB Require Import Base.Val Model.Rib Spec.BestPath Spec.RibSpec
     Proofs.RibOrder Proofs.RibInv Proofs.RibAux Proofs.RibInv2 Proofs.RibC02 Proofs.RibC06.
Import ListNotations.
Open Scope N_scope.

(* ---- IdAllocator::alloc: lowest clear bit *)

Lemma mex_from_lowest fuel k used j :
  k <= j -> j < mex_from fuel k used -> existsb (N.eqb j) used = true.
Proof.
  revert k. induction fuel as [|f IH]; intros k Hk Hj; cbn [mex_from] in Hj; [lia|].
  destruct (existsb (N.eqb k) used) eqn:E; [|lia].
  destruct (N.eq_dec j k) as [->|Hne]; [exact E|]. apply (IH (k + 1)); [lia|exact Hj].
Qed.

Lemma C06_alloc_lowest_free :
  forall used, ~ In (alloc_id used) used /\ forall j, j < alloc_id used -> In j used.
Proof.
  intro used. split; [apply alloc_id_fresh|].
  intros j Hj. unfold alloc_id in Hj. apply (mex_from_lowest _ 0 used j) in Hj; [|lia].
  apply existsb_exists in Hj as (x & Hx & E). apply N.eqb_eq in E. subst x. exact Hx.
Qed.

(* ---- collect_loc_rib_paths_limited *)

Lemma find_loc_limited_none m net ds :
  ~ In net (map fst ds) ->
  find (fun c => c_net c =? net)
       (flat_map (fun nd => match firstn (N.to_nat m) (elig_list (snd nd)) with
                            | [] => []
                            | _ => [{| c_net := fst nd; c_dest_id := d_id (snd nd); c_best_changed := true;
                                       c_any_changed := true; c_replaced := None;
                                       c_paths := firstn (N.to_nat m) (elig_list (snd nd)) |}]
                            end) ds) = None.
Proof.
  induction ds as [|[n d] r IH]; cbn [flat_map map fst snd]; intro Hn; [reflexivity|].
  assert (Hne : (n =? net) = false) by (apply N.eqb_neq; intro; apply Hn; left; assumption).
  assert (Hr : ~ In net (map fst r)) by (intro; apply Hn; right; assumption).
  destruct (firstn (N.to_nat m) (elig_list d)); cbn [app find c_net]; [|rewrite Hne]; apply IH, Hr.
Qed.

Lemma locrib_view_limited_window t m net :
  NoDup (map fst (t_dests t)) -> locrib_view_limited t m net = firstn (N.to_nat m) (elig_of t net).
Proof.
  unfold locrib_view_limited, elig_of, loc_rib. generalize (t_dests t). intro ds.
  induction ds as [|[n d] r IH]; cbn [flat_map map fst snd alookup]; intro Hk.
  - cbn. destruct (N.to_nat m); reflexivity.
  - apply NoDup_cons_iff in Hk as [Hn Hr].
    destruct (net =? n) eqn:En.
    + apply N.eqb_eq in En. subst n.
      destruct (firstn (N.to_nat m) (elig_list d)) as [|x xs] eqn:E; cbn [app find c_net].
      * rewrite (find_loc_limited_none m net r Hn). reflexivity.
      * rewrite N.eqb_refl. reflexivity.
    + rewrite N.eqb_sym in En.
      destruct (firstn (N.to_nat m) (elig_list d)) as [|x xs] eqn:E; cbn [app find c_net]; [|rewrite En]; apply IH, Hr.
Qed.

(* the add-path consumer with a window of m paths holds what
   collect_loc_rib_paths_limited(m) returns *)
Lemma C06_addpath_window_eq_limited :
  forall shard ops m,
    consistent ops ->
    let t := run (empty_table shard) ops in
    t_deferring t = false ->
    forall net, snd (consume (addpath_apply (Some (N.to_nat m))) (empty_table shard) (fun _ => []) ops) net
                = locrib_view_limited t m net.
Proof.
  intros shard ops m Hc t Hd net.
  rewrite locrib_view_limited_window by (apply invE_run, invE_empty).
  pose proof (C06_addpath_consumer_correct shard ops (Some (N.to_nat m)) Hc Hd net) as H.
  cbv zeta in H. fold t in H. rewrite locrib_view_elig in H by (apply invE_run, invE_empty).
  cbn [limit] in H. rewrite firstn_nil in H. exact H.
Qed.

(* ---- replaced_path_id *)

Lemma C06_replaced_path_id :
  forall shard ops s net rpid nh a filt nhinv lim c,
    let t := run (empty_table shard) ops in
    let o := Insert s net rpid nh a filt nhinv lim in
    In c (step_cs t o) ->
    match c_replaced c with
    | Some p =>
        (* the path with the same (peer address, remote path id) is replaced, and
           the new path takes over its local path id *)
        (exists old, In old (entries_of t net) /\ ekey old = (s_addr s, rpid) /\ e_lpid old = p)
        /\ (forall e, In e (entries_of (step_t t o) net) -> e_lpid e = p -> ekey e = (s_addr s, rpid))
    | None =>
        (* nothing is replaced: the peer had no path with this path id *)
        forall old, In old (entries_of t net) -> ekey old <> (s_addr s, rpid)
    end.
Proof.
  intros shard ops s net rpid nh a filt nhinv lim c t o. unfold o, step_cs, step_t. cbn [step].
  assert (Hinv : invE t) by (apply invE_run, invE_empty).
  destruct (ins_lookup_entries t net Hinv) as [Hl Hkk].
  unfold insert. cbv zeta.
  destruct (ins_over t lim _); [intros []|].
  destruct (ins_pid _ _ _) as [pn|] eqn:Hp; [|intros []].
  set (d0 := fst (ins_lookup t net)) in *.
  assert (Hes : entries_of t net = d_entries d0).
  { unfold entries_of, d0, ins_lookup. destruct (alookup net (t_dests t)); reflexivity. }
  set (rest := filter (fun e => negb (same_key s rpid e)) (d_entries d0)) in *.
  match goal with |- context [ins_out t d0 ?d ?n ?r ?f] => set (d2 := d) end.
  unfold ins_out.
  destruct (t_deferring t && _); [intros []|].
  destruct (negb _ && _); [intros []|]. cbn [fst snd]. intros [<-|[]]. cbn [c_replaced].
  destruct (find (same_key s rpid) (d_entries d0)) as [old|] eqn:Ef.
  - apply find_some in Ef as Hfs. destruct Hfs as [Hoin Hok]. split.
    + exists old. rewrite Hes. split; [exact Hoin|]. split; [apply same_key_ekey, Hok|reflexivity].
    + unfold entries_of. cbn [t_dests]. rewrite alookup_aset, N.eqb_refl. unfold d2. cbn [d_entries with_entries].
      intros e He Hlp. apply in_ins_sorted in He as [->|He]; [reflexivity|]. exfalso.
      apply filter_In in He as [He Hnk].
      assert (Hpn : fst pn = e_lpid old) by (unfold ins_pid in Hp; injection Hp as <-; reflexivity).
      assert (e = old) by (apply (nodup_map_inj e_lpid (d_entries d0)); try assumption; congruence).
      subst e. rewrite Hok in Hnk. discriminate.
  - intros old Hin Hk. rewrite Hes in Hin. apply same_key_ekey in Hk.
    pose proof (find_none _ _ Ef old Hin) as Hn. congruence.
Qed.
