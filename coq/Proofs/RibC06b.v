(* Property C06, further statements: the allocator hands out the lowest free
   id, the limited Loc-RIB collection is the add-path window, and
   replaced_path_id names the path whose local id the new path takes over. *)
From Coq Require Import List NArith ZArith Bool Lia Sorting.Permutation Sorting.Sorted.
From RB Require Import Base.Val Model.Rib Spec.BestPath Spec.RibSpec
     Proofs.RibOrder Proofs.RibInv Proofs.RibAux Proofs.RibInv2 Proofs.RibC02 Proofs.RibC06.
Import ListNotations.
Open Scope N_scope.

(* ---- IdAllocator::alloc: lowest clear bit *)

Lemma mex_from_lowest fuel k used j :
  k <= j -> j < mex_from fuel k used -> existsb (N.eqb j) used = true.
Proof.
  revert k. induction fuel as [|f IH]; intros k Hk Hj; cbn [mex_from] in Hj; [lia|].
  destruct (existsb (N.eqb k) used) eqn:E; [|lia].
  destruct (N.eq_dec j k) as [->|Hne]; [exact E|]. apply (IH (k + 1)); [lia|exact Hj].
Qed.

Lemma C06_alloc_lowest_free :
  forall used, ~ In (alloc_id used) used /\ forall j, j < alloc_id used -> In j used.
Proof.
  intro used. split; [apply alloc_id_fresh|].
  intros j Hj. unfold alloc_id in Hj. apply (mex_from_lowest _ 0 used j) in Hj; [|lia].
  apply existsb_exists in Hj as (x & Hx & E). apply N.eqb_eq in E. subst x. exact Hx.
Qed.

(* ---- collect_loc_rib_paths_limited *)

Lemma find_loc_limited_none m net ds :
  ~ In net (map fst ds) ->
  find (fun c => c_net c =? net)
       (flat_map (fun nd => match firstn (N.to_nat m) (elig_list (snd nd)) with
                            | [] => []
                            | _ => [{| c_net := fst nd; c_dest_id := d_id (snd nd); c_best_changed := true;
                                       c_any_changed := true; c_replaced := None;
                                       c_paths := firstn (N.to_nat m) (elig_list (snd nd)) |}]
                            end) ds) = None.
Proof.
  induction ds as [|[n d] r IH]; cbn [flat_map map fst snd]; intro Hn; [reflexivity|].
  assert (Hne : (n =? net) = false) by (apply N.eqb_neq; intro; apply Hn; left; assumption).
  assert (Hr : ~ In net (map fst r)) by (intro; apply Hn; right; assumption).
  destruct (firstn (N.to_nat m) (elig_list d)); cbn [app find c_net]; [|rewrite Hne]; apply IH, Hr.
Qed.

Lemma locrib_view_limited_window t m net :
  NoDup (map fst (t_dests t)) -> locrib_view_limited t m net = firstn (N.to_nat m) (elig_of t net).
Proof.
  unfold locrib_view_limited, elig_of, loc_rib. generalize (t_dests t). intro ds.
  induction ds as [|[n d] r IH]; cbn [flat_map map fst snd alookup]; intro Hk.
  - cbn. destruct (N.to_nat m); reflexivity.
  - apply NoDup_cons_iff in Hk as [Hn Hr].
    destruct (net =? n) eqn:En.
    + apply N.eqb_eq in En. subst n.
      destruct (firstn (N.to_nat m) (elig_list d)) as [|x xs] eqn:E; cbn [app find c_net].
      * rewrite (find_loc_limited_none m net r Hn). reflexivity.
      * rewrite N.eqb_refl. reflexivity.
    + rewrite N.eqb_sym in En.
      destruct (firstn (N.to_nat m) (elig_list d)) as [|x xs] eqn:E; cbn [app find c_net]; [|rewrite En]; apply IH, Hr.
Qed.

(* the add-path consumer with a window of m paths holds what
   collect_loc_rib_paths_limited(m) returns *)
Lemma C06_addpath_window_eq_limited :
  forall shard ops m,
    consistent ops -> startup_deferral (empty_table shard) ops ->
    let t := run (empty_table shard) ops in
    t_deferring t = false ->
    forall net, snd (consume (addpath_apply (Some (N.to_nat m))) (empty_table shard) (fun _ => []) ops) net
                = locrib_view_limited t m net.
Proof.
  intros shard ops m Hc Hs t Hd net.
  rewrite locrib_view_limited_window by (apply invE_run, invE_empty).
  pose proof (C06_addpath_consumer_correct shard ops (Some (N.to_nat m)) Hc Hs Hd net) as H.
  cbv zeta in H. fold t in H. rewrite locrib_view_elig in H by (apply invE_run, invE_empty).
  cbn [limit] in H. rewrite firstn_nil in H. exact H.
Qed.

(* ---- replaced_path_id *)

Lemma C06_replaced_path_id :
  forall shard ops s net rpid nh a filt nhinv lim c,
    let t := run (empty_table shard) ops in
    let o := Insert s net rpid nh a filt nhinv lim in
    In c (step_cs t o) ->
    match c_replaced c with
    | Some p =>
        (* the path with the same (peer address, remote path id) is replaced, and
           the new path takes over its local path id *)
        (exists old, In old (entries_of t net) /\ ekey old = (s_addr s, rpid) /\ e_lpid old = p)
        /\ (forall e, In e (entries_of (step_t t o) net) -> e_lpid e = p -> ekey e = (s_addr s, rpid))
    | None =>
        (* nothing is replaced: the peer had no path with this path id *)
        forall old, In old (entries_of t net) -> ekey old <> (s_addr s, rpid)
    end.
Proof.
  intros shard ops s net rpid nh a filt nhinv lim c t o. unfold o, step_cs, step_t. cbn [step].
  assert (Hinv : invE t) by (apply invE_run, invE_empty).
  destruct (ins_lookup_entries t net Hinv) as [Hl Hkk].
  unfold insert. cbv zeta.
  destruct (ins_over t lim _); [intros []|].
  destruct (ins_pid _ _ _) as [pn|] eqn:Hp; [|intros []].
  set (d0 := fst (ins_lookup t net)) in *.
  assert (Hes : entries_of t net = d_entries d0).
  { unfold entries_of, d0, ins_lookup. destruct (alookup net (t_dests t)); reflexivity. }
  set (rest := filter (fun e => negb (same_key s rpid e)) (d_entries d0)) in *.
  match goal with |- context [ins_out t d0 ?d ?n ?r ?f] => set (d2 := d) end.
  unfold ins_out.
  destruct (t_deferring t); [intros []|].
  destruct (negb _ && _); [intros []|]. cbn [fst snd]. intros [<-|[]]. cbn [c_replaced].
  destruct (find (same_key s rpid) (d_entries d0)) as [old|] eqn:Ef.
  - apply find_some in Ef as Hfs. destruct Hfs as [Hoin Hok]. split.
    + exists old. rewrite Hes. split; [exact Hoin|]. split; [apply same_key_ekey, Hok|reflexivity].
    + unfold entries_of. cbn [t_dests]. rewrite alookup_aset, N.eqb_refl. unfold d2. cbn [d_entries with_entries].
      intros e He Hlp. apply in_ins_sorted in He as [->|He]; [reflexivity|]. exfalso.
      apply filter_In in He as [He Hnk].
      assert (Hpn : fst pn = e_lpid old) by (unfold ins_pid in Hp; injection Hp as <-; reflexivity).
      assert (e = old) by (apply (nodup_map_inj e_lpid (d_entries d0)); try assumption; congruence).
      subst e. rewrite Hok in Hnk. discriminate.
  - intros old Hin Hk. rewrite Hes in Hin. apply same_key_ekey in Hk.
    pose proof (find_none _ _ Ef old Hin) as Hn. congruence.
Qed.

(* ---- an exporter that re-sends a path only if its local path id is new to it
   or is named by replaced_path_id *)

Lemma C06_lpids_unique :
  forall shard ops net, NoDup (map e_lpid (entries_of (run (empty_table shard) ops) net)).
Proof.
  intros shard ops net. destruct (invE_run _ ops (invE_empty shard)) as [_ Hok]. unfold entries_of.
  destruct (alookup net (t_dests (run (empty_table shard) ops))) as [d|] eqn:Hd; [|constructor].
  apply alookup_in in Hd. destruct (Hok _ _ Hd) as (_ & H & _). exact H.
Qed.

Definition derived (l l' : list entry) : Prop :=
  forall e', In e' l' -> exists e0, In e0 l /\ e_lpid e0 = e_lpid e' /\ content e0 = content e'.

Lemma derived_refl l : derived l l.
Proof. intros e' H. exists e'. split; [exact H|split; reflexivity]. Qed.

Lemma derived_sub l l' : incl l' l -> derived l l'.
Proof. intros H e' He. exists e'. split; [apply H, He|split; reflexivity]. Qed.

Lemma derived_nil l : derived l [].
Proof. intros e' []. Qed.

(* every operation other than insert leaves, for every prefix, only paths that
   were there before, with their local path id and content *)
Lemma step_entries_derived t o net :
  invE t -> (forall s n rpid nh a f i lim, o <> Insert s n rpid nh a f i lim) ->
  derived (entries_of t net) (entries_of (step_t t o) net).
Proof.
  intros [Hk Hok] Hni. unfold step_t.
  destruct o as [s n0 rpid nh a filt nhinv lim|s n0 rpid ctr|k addr ctr|llgr addr|nh r| |]; cbn [step].
  - exfalso. apply (Hni s n0 rpid nh a filt nhinv lim). reflexivity.
  - pose proof (remove_shape t s n0 rpid ctr) as H. cbv zeta in H.
    destruct (remove t s n0 rpid ctr) as [t' [c|]]; cbn [fst] in *;
      (destruct H as [->|(d & Hd & _ & _ & _ & [(Hr & Ed & _)|(Hr & _ & Ed)])]; [apply derived_refl| |];
       unfold entries_of; rewrite Ed, ?alookup_aremove, ?alookup_aset;
       (destruct (net =? n0) eqn:En; [|apply derived_refl]);
       apply N.eqb_eq in En; subst n0; rewrite Hd; [apply derived_nil|];
       apply derived_sub; intros x Hx; cbn [d_entries with_entries] in Hx; apply (remove_first_sub _ _ _ Hx)).
  - destruct (drop_op_dests t k addr ctr) as [Ed _]. destruct (drop_op t k addr ctr) as [t' cs]. cbn [fst] in *.
    unfold entries_of. rewrite Ed, (alookup_fm _ _ net Hk).
    destruct (alookup net (t_dests t)) as [d|] eqn:Hd; [|apply derived_nil].
    destruct (drop_dest_cases (t_flags t) k addr net d) as [[_ E]|(_ & E & _)]; cbv zeta in E; rewrite E.
    + cbn [fst]. apply derived_refl.
    + destruct (filter _ (d_entries d)) eqn:Ef; [apply derived_nil|]. cbn [d_entries with_entries].
      rewrite <- Ef. apply derived_sub. intros x Hx. apply filter_In in Hx. tauto.
  - destruct (restale_op_dests t llgr addr) as [Ed _]. cbv zeta in Ed. destruct (restale_op t llgr addr) as [t' cs].
    cbn [fst] in *. unfold entries_of. rewrite Ed, alookup_mp.
    destruct (alookup net (t_dests t)) as [d|] eqn:Hd; [|apply derived_nil].
    apply derived_sub. intros x Hx.
    destruct (restale_dest_entries (restale_flags llgr addr (t_dests t) (t_flags t)) llgr addr net d) as [_ Hp].
    apply (Permutation_in x (Permutation_sym Hp)), Hx.
  - destruct (nhv_op_dests t nh r) as [Ed _]. destruct (nhv_op t nh r) as [t' cs].
    cbn [fst] in *. unfold entries_of. rewrite Ed, alookup_mp.
    destruct (alookup net (t_dests t)) as [d|] eqn:Hd; [|apply derived_nil].
    destruct (nhv_dest_cases nh r net d) as [[_ E]|[_ E]]; cbv zeta in E; rewrite E; cbn [fst]; [apply derived_refl|].
    cbn [d_entries with_entries]. intros e' He'. apply in_map_iff in He' as (e0 & <- & He0).
    exists e0. split; [exact He0|]. unfold content.
    destruct (nhv_e_same nh r e0) as (-> & _ & -> & -> & -> & _). split; reflexivity.
  - apply derived_refl.
  - apply derived_refl.
Qed.

Lemma filter_none_id {A} (p : A -> bool) l : find p l = None -> filter (fun x => negb (p x)) l = l.
Proof.
  induction l as [|a r IH]; cbn; [reflexivity|]. destruct (p a); [discriminate|]. intro H. cbn. rewrite (IH H). reflexivity.
Qed.

(* A path that stays in the list under the same local path id keeps its content
   (source, attribute block, next hop) unless the notification names that id in
   replaced_path_id: an exporter that re-sends only new ids and the named one
   stays in step with the RIB. *)
Lemma C06_delta_exporter_sound :
  forall shard ops o c e e',
    consistent (ops ++ [o]) ->
    let t := run (empty_table shard) ops in
    In c (step_cs t o) ->
    In e (elig_of t (c_net c)) -> In e' (c_paths c) ->
    e_lpid e = e_lpid e' -> c_replaced c <> Some (e_lpid e') ->
    content e = content e'.
Proof.
  intros shard ops o c e e' Hc t Hin He He' Hlp Hrep.
  destruct (reach_inv shard ops o Hc) as (f & H1 & Hinv & Hw). fold t in H1, Hinv.
  pose proof (C06_lpids_unique shard ops (c_net c)) as Hnd. fold t in Hnd.
  assert (Hee : In e (entries_of t (c_net c))).
  { unfold elig_of, entries_of in *. destruct (alookup (c_net c) (t_dests t)); [|destruct He].
    apply filter_In in He. tauto. }
  destruct (net_ok_step f t o (c_net c) H1 Hinv Hw) as (Hok & _ & _).
  destruct (Hok c Hin eq_refl) as (Hp & _).
  assert (Hee' : In e' (entries_of (step_t t o) (c_net c))).
  { rewrite Hp in He'. unfold elig_of, entries_of in *. destruct (alookup (c_net c) (t_dests (step_t t o))); [|destruct He'].
    apply filter_In in He'. tauto. }
  destruct o as [s n0 rpid nh a filt nhinv lim|s n0 rpid ctr|k addr ctr|llgr addr|nh r| |] eqn:Eo.
  2-7: (match goal with Hx : In _ (entries_of (step_t _ ?oo) _) |- _ =>
          assert (Hdv : derived (entries_of t (c_net c)) (entries_of (step_t t oo) (c_net c)))
            by (apply step_entries_derived; [exact Hinv|intros; discriminate]);
          destruct (Hdv e' Hx) as (e0 & H0 & Hl0 & Hc0)
        end;
        assert (e0 = e) by (apply (nodup_map_inj e_lpid _ _ _ Hnd H0 Hee); congruence);
        subst e0; exact Hc0).
  (* insert *)
  clear Hok Hp. revert Hin Hee'. unfold step_cs, step_t. cbn [step]. unfold insert. cbv zeta.
  destruct (ins_lookup_entries t n0 Hinv) as [Hl Hkk].
  destruct (ins_over t lim _); [intros []|].
  destruct (ins_pid _ _ _) as [pn|] eqn:Hpn; [|intros []].
  set (d0 := fst (ins_lookup t n0)) in *.
  assert (Hes : entries_of t n0 = d_entries d0).
  { unfold entries_of, d0, ins_lookup. destruct (alookup n0 (t_dests t)); reflexivity. }
  match goal with |- context [ins_out t d0 ?d ?n ?r ?ff] => set (d2 := d) end.
  unfold ins_out. destruct (t_deferring t); [intros []|].
  destruct (negb _ && _); [intros []|]. cbn [fst snd]. intros [<-|[]]. cbn [c_net c_replaced] in *.
  unfold entries_of. cbn [t_dests]. rewrite alookup_aset, N.eqb_refl. unfold d2. cbn [d_entries with_entries].
  intro Hee'. rewrite Hes in Hee, Hnd.
  apply in_ins_sorted in Hee' as [->|Hee'].
  - (* the inserted path *)
    exfalso. cbn [e_lpid] in *. unfold ins_pid in Hpn.
    destruct (find (same_key s rpid) (d_entries d0)) as [old|] eqn:Ef.
    + injection Hpn as <-. apply Hrep. reflexivity.
    + rewrite (filter_none_id _ _ Ef) in Hpn.
      unfold alloc_pid in Hpn. cbn [d_entries with_entries] in Hpn. destruct pn as [p n']. cbn [fst] in Hlp.
      apply alloc_pid_from_fresh in Hpn.
      assert (existsb (fun q => e_lpid q =? p) (d_entries d0) = true); [|congruence].
      apply existsb_exists. exists e. split; [exact Hee|apply N.eqb_eq, Hlp].
  - apply filter_In in Hee' as [Hee' _].
    assert (e' = e) by (apply (nodup_map_inj e_lpid _ _ _ Hnd Hee' Hee); congruence). subst e'. reflexivity.
Qed.

(* ------------------------------------------------------------ non-vacuity *)

(* a replacement: replaced_path_id names local path id 1, which the new path keeps *)
Example ex6b_replaced :
  map (fun c => (c_replaced c, map e_lpid (c_paths c)))
      (step_cs (run (empty_table 0) (firstn 6 ex6_ops))
               (Insert (ex_src 1 1 9 0) 1 0 (Some 1) (ex_attr 104 50) false false None))
  = [(Some 1, [1])].
Proof. vm_compute. reflexivity. Qed.

(* restale_llgr names every marked path *)
Example ex6b_llgr :
  map (fun c => (c_net c, c_best_changed c, c_any_changed c, c_replaced c, map e_lpid (c_paths c)))
      (step_cs (run (empty_table 0) (firstn 9 ex6_ops)) (Restale true 2))
  = [(1, false, true, Some 2, [1; 2; 3]); (1, false, true, Some 3, [1; 2; 3])].
Proof. vm_compute. reflexivity. Qed.

(* the hypotheses of delta_exporter_sound are met by a path that stays *)
Example ex6b_delta :
  let t := run (empty_table 0) (firstn 10 ex6_ops) in
  let o := nth 10 ex6_ops StartDeferral in
  exists c e e', In c (step_cs t o) /\ In e (elig_of t (c_net c)) /\ In e' (c_paths c)
                 /\ e_lpid e = e_lpid e' /\ c_replaced c <> Some (e_lpid e').
Proof.
  vm_compute. eexists. eexists. eexists. split; [left; reflexivity|]. split; [left; reflexivity|].
  split; [left; reflexivity|]. split; [reflexivity|discriminate].
Qed.

(* a deferring table on which mutators are quiet, and the window consumer's hypotheses *)
Example ex6b_deferring : t_deferring (run (empty_table 0) (firstn 3 ex6_ops)) = true.
Proof. reflexivity. Qed.

Example ex6b_window_hyps :
  consistent ex6_ops /\ startup_deferral (empty_table 0) ex6_ops /\ t_deferring (run (empty_table 0) ex6_ops) = false.
Proof. split; [exact ex6_consistent|]. split; [exact ex6_startup|reflexivity]. Qed.

(* the allocator on a used set with a hole *)
Example ex6b_alloc : alloc_id [0; 1; 3; 64] = 2 /\ alloc_id [] = 0 /\ alloc_id [2; 1; 0] = 3.
Proof. vm_compute. repeat split. Qed.
