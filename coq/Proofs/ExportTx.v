(* Proofs for property C01 about Model/ExportTx.v (the code after the two `fix:`
   commits: PendingTx keyed by (prefix, path id); dump/refresh hand every candidate
   to the top-N selection), and refutation witnesses for the code before them and
   for the two open findings. *)
From Coq Require Import List NArith Bool Lia ZifyBool ZifyN Arith.
From RB Require Import Base.Val Model.ExportTx Spec.ExportTxSpec.
Import ListNotations.
Open Scope N_scope.

(* ------------------------------------------------------------ keys and small maps *)
Lemma key_eqb_eq : forall a b : key, key_eqb a b = true <-> a = b.
Proof.
  intros [a1 a2] [b1 b2]; unfold key_eqb; cbn [fst snd].
  rewrite andb_true_iff, !N.eqb_eq. split; [intros [-> ->]; reflexivity | intros H; inversion H; auto].
Qed.

Lemma key_eqb_refl : forall a, key_eqb a a = true.
Proof. intros; apply key_eqb_eq; reflexivity. Qed.

Lemma key_eqb_sym : forall a b, key_eqb a b = key_eqb b a.
Proof.
  intros a b. destruct (key_eqb a b) eqn:H1, (key_eqb b a) eqn:H2; auto.
  - apply key_eqb_eq in H1; subst. now rewrite key_eqb_refl in H2.
  - apply key_eqb_eq in H2; subst. now rewrite key_eqb_refl in H1.
Qed.

Lemma key_eqb_neq : forall a b : key, key_eqb a b = false <-> a <> b.
Proof.
  intros a b; split; intros H.
  - intros ->. now rewrite key_eqb_refl in H.
  - destruct (key_eqb a b) eqn:Hk; auto. apply key_eqb_eq in Hk; contradiction.
Qed.

Section Maps.
Context {V : Type}.

Lemma kfind_app : forall (k : key) (a b : list (key * V)),
  kfind k (a ++ b) = match kfind k a with Some v => Some v | None => kfind k b end.
Proof.
  induction a as [|[k' v] a IH]; intros; cbn [app kfind]; auto.
  destruct (key_eqb k k'); auto.
Qed.

Lemma kfind_kremove : forall (k k' : key) (m : list (key * V)),
  kfind k (kremove k' m) = if key_eqb k k' then None else kfind k m.
Proof.
  induction m as [|[k2 v] m IH]; cbn [kremove filter kfind fst].
  - now destruct (key_eqb k k').
  - fold (kremove k' m). destruct (key_eqb k' k2) eqn:H2; cbn [negb].
    + apply key_eqb_eq in H2; subst k2. rewrite IH. destruct (key_eqb k k'); auto.
    + cbn [kfind]. rewrite IH. destruct (key_eqb k k2) eqn:H3; auto.
      apply key_eqb_eq in H3; subst k2. rewrite key_eqb_sym, H2. reflexivity.
Qed.

Lemma kfind_kinsert : forall (k k' : key) (v : V) (m : list (key * V)),
  kfind k (kinsert k' v m) = if key_eqb k k' then Some v else kfind k m.
Proof.
  intros. unfold kinsert. rewrite kfind_app, kfind_kremove. cbn [kfind].
  destruct (key_eqb k k'); auto. destruct (kfind k m); auto.
Qed.

Lemma kremove_rev : forall (k : key) (m : list (key * V)), rev (kremove k m) = kremove k (rev m).
Proof.
  intros; unfold kremove. induction m as [|x m IH]; cbn [filter rev]; auto.
  rewrite filter_app; cbn [filter]. destruct (negb (key_eqb k (fst x))); cbn [rev]; rewrite IH; auto.
  now rewrite app_nil_r.
Qed.

Lemma kfind_rev_kinsert : forall (k k' : key) (v : V) (m : list (key * V)),
  kfind k (rev (kinsert k' v m)) = if key_eqb k k' then Some v else kfind k (rev m).
Proof.
  intros. unfold kinsert. rewrite rev_app_distr. cbn [rev app kfind].
  destruct (key_eqb k k') eqn:Hk; auto. rewrite kremove_rev, kfind_kremove, Hk. reflexivity.
Qed.

Lemma kfind_rev_kremove : forall (k k' : key) (m : list (key * V)),
  kfind k (rev (kremove k' m)) = if key_eqb k k' then None else kfind k (rev m).
Proof. intros. now rewrite kremove_rev, kfind_kremove. Qed.

Lemma In_kremove : forall (k : key) x (m : list (key * V)),
  In x (kremove k m) -> In x m.
Proof. intros k x m H. apply filter_In in H. tauto. Qed.

Lemma In_kinsert : forall (k : key) v x (m : list (key * V)),
  In x (kinsert k v m) -> In x m \/ x = (k, v).
Proof.
  intros k v x m H. unfold kinsert in H. apply in_app_or in H as [H|H].
  - left; eapply In_kremove; eauto.
  - right. destruct H as [H|[]]; auto.
Qed.
End Maps.

Lemma memK_In : forall k l, memK k l = true <-> In k l.
Proof.
  intros; unfold memK. rewrite existsb_exists. split.
  - intros [x [Hx He]]. apply key_eqb_eq in He; now subst.
  - intros H; exists k; split; auto. apply key_eqb_refl.
Qed.

Lemma memN_In : forall x l, memN x l = true <-> In x l.
Proof.
  intros; unfold memN. rewrite existsb_exists. split.
  - intros [y [Hy He]]. apply N.eqb_eq in He; now subst.
  - intros H; exists x; split; auto. apply N.eqb_refl.
Qed.

Lemma memN_false : forall x l, memN x l = false <-> ~ In x l.
Proof.
  intros. rewrite <- memN_In. destruct (memN x l); split; intros H; try congruence; try tauto.
Qed.

Lemma In_em_add : forall k k' m, In k (em_add k' m) <-> In k m \/ k = k'.
Proof.
  intros; unfold em_add. destruct (memK k' m) eqn:Hm.
  - apply memK_In in Hm. split; [auto|]. intros [H| ->]; auto.
  - rewrite in_app_iff; cbn [In]. split; intros [H|H]; auto. destruct H; auto; contradiction.
Qed.

Lemma In_em_del : forall k k' m, In k (em_del k' m) <-> In k m /\ k <> k'.
Proof.
  intros; unfold em_del. rewrite filter_In. split; intros [H1 H2]; split; auto.
  - intros ->. now rewrite key_eqb_refl in H2.
  - apply negb_true_iff. apply key_eqb_neq. auto.
Qed.

Lemma In_em_ids : forall i w m, In w (em_ids i m) <-> In (i, w) m.
Proof.
  intros; unfold em_ids. rewrite in_map_iff. split.
  - intros [[a b] [Hs Hf]]. apply filter_In in Hf as [Hf He]. cbn [fst snd] in *.
    apply N.eqb_eq in He; now subst.
  - intros H. exists (i, w); split; auto. apply filter_In; split; auto. cbn [fst]; apply N.eqb_refl.
Qed.

Lemma em_was_sent_spec : forall i m, em_was_sent i m = true <-> exists w, In (i, w) m.
Proof.
  intros; unfold em_was_sent. rewrite existsb_exists. split.
  - intros [[a b] [Hi He]]. cbn [fst] in He. apply N.eqb_eq in He; subst. eauto.
  - intros [w H]; exists (i, w); split; auto. cbn [fst]; apply N.eqb_refl.
Qed.

(* ------------------------------------------------------------ the mirror *)
Section Mirror.
Variable E : Type.

Lemma mirror_reach_lookup : forall (es m : list (key * E)) (k : key),
  kfind k (mirror_reach E es m) =
  match kfind k (rev es) with Some e => Some e | None => kfind k m end.
Proof.
  unfold mirror_reach. induction es as [|x es IH]; intros; cbn [fold_left rev kfind]; auto.
  rewrite IH, kfind_app, kfind_kinsert. cbn [kfind]. destruct x as [k' v]; cbn [fst snd].
  destruct (kfind k (rev es)); auto. destruct (key_eqb k k'); auto.
Qed.

Lemma mirror_unreach_lookup : forall (ks : list key) (m : list (key * E)) (k : key),
  kfind k (mirror_unreach E ks m) = if memK k ks then None else kfind k m.
Proof.
  unfold mirror_unreach. induction ks as [|x ks IH]; intros; cbn [fold_left]; auto.
  rewrite IH, kfind_kremove. unfold memK; cbn [existsb]. fold (memK k ks).
  destruct (key_eqb k x); cbn [orb]; auto. now destruct (memK k ks).
Qed.

(* what a PendingTx will do to route k at the next flush:
   Some (Some e) announce e, Some None withdraw, None nothing *)
Definition pview (p : ptx E) (k : key) : option (option E) :=
  match kfind k (rev (t_reach p)) with
  | Some v => Some (Some (snd v))
  | None => if memK k (map fst (t_unreach p)) then Some None else None
  end.

(* ByNet keying: the prefix stored in an entry is the prefix of its key *)
Definition coherent (p : ptx E) : Prop :=
  (forall k v, In (k, v) (t_reach p) -> fst v = fst k) /\
  (forall k n, In (k, n) (t_unreach p) -> n = fst k).

Lemma coherent_empty : coherent (ptx_empty E).
Proof. split; intros ? ? []. Qed.

Lemma coherent_reach : forall p k e, coherent p -> coherent (ptx_reach E k (fst k) e p).
Proof.
  intros p k e [H1 H2]; split; cbn [ptx_reach t_reach t_unreach]; intros k' v Hin.
  - apply In_kinsert in Hin as [Hin|Hin]; eauto. inversion Hin; subst; auto.
  - apply In_kremove in Hin; eauto.
Qed.

Lemma coherent_unreach : forall p k, coherent p -> coherent (ptx_unreach E k (fst k) p).
Proof.
  intros p k [H1 H2]; split; cbn [ptx_unreach t_reach t_unreach]; intros k' v Hin.
  - apply In_kremove in Hin; eauto.
  - apply In_kinsert in Hin as [Hin|Hin]; eauto. inversion Hin; subst; auto.
Qed.

Lemma memK_map_kremove : forall {V} (k k' : key) (m : list (key * V)),
  memK k (map fst (kremove k' m)) = if key_eqb k k' then false else memK k (map fst m).
Proof.
  intros V k k' m. induction m as [|[k2 v] m IH]; cbn [kremove filter map fst].
  - unfold memK; cbn. now destruct (key_eqb k k').
  - fold (kremove k' m). destruct (key_eqb k' k2) eqn:H2; cbn [negb map fst].
    + apply key_eqb_eq in H2; subst k2. rewrite IH. unfold memK at 2; cbn [existsb].
      fold (memK k (map fst m)). destruct (key_eqb k k'); auto.
    + unfold memK at 1; cbn [existsb]. fold (memK k (map fst (kremove k' m))). rewrite IH.
      unfold memK at 2; cbn [existsb]. fold (memK k (map fst m)).
      destruct (key_eqb k k2) eqn:H3; cbn [orb]; auto.
      apply key_eqb_eq in H3; subst k2. rewrite key_eqb_sym, H2. reflexivity.
Qed.

Lemma memK_map_kinsert : forall {V} (k k' : key) (v : V) (m : list (key * V)),
  memK k (map fst (kinsert k' v m)) = if key_eqb k k' then true else memK k (map fst m).
Proof.
  intros. unfold kinsert. rewrite map_app. unfold memK. rewrite existsb_app.
  fold (memK k (map fst (kremove k' m))). rewrite memK_map_kremove. cbn [map fst existsb].
  destruct (key_eqb k k'); cbn [orb]; auto. now rewrite orb_false_r.
Qed.

Lemma pview_reach : forall p k' net e k,
  pview (ptx_reach E k' net e p) k = if key_eqb k k' then Some (Some e) else pview p k.
Proof.
  intros. unfold pview; cbn [ptx_reach t_reach t_unreach].
  rewrite kfind_rev_kinsert, memK_map_kremove. destruct (key_eqb k k'); cbn [snd]; auto.
Qed.

Lemma pview_unreach : forall p k' net k,
  pview (ptx_unreach E k' net p) k = if key_eqb k k' then Some None else pview p k.
Proof.
  intros. unfold pview; cbn [ptx_reach ptx_unreach t_reach t_unreach].
  rewrite kfind_rev_kremove, memK_map_kinsert. destruct (key_eqb k k'); auto.
Qed.

Lemma pview_empty : forall k, pview (ptx_empty E) k = None.
Proof. reflexivity. Qed.

Lemma kfind_map_coh : forall (l : list (key * (N * E))) (k : key),
  (forall k' v, In (k', v) l -> fst v = fst k') ->
  kfind k (map (fun x => ((fst (snd x), snd (fst x)), snd (snd x))) l) =
  match kfind k l with Some v => Some (snd v) | None => None end.
Proof.
  induction l as [|[[a b] [n e]] l IH]; intros k Hc; cbn [map kfind fst snd]; auto.
  assert (n = a) by (apply (Hc (a, b) (n, e)); left; reflexivity). subst n.
  destruct (key_eqb k (a, b)); auto. apply IH. intros; apply Hc; right; auto.
Qed.

Lemma flush_lookup_aux : forall (o : option (N * E)) (b : bool) (base : option E),
  match match o with Some v => Some (snd v) | None => None end with
  | Some e => Some e
  | None => if b then None else base
  end =
  match match o with Some v => Some (Some (snd v)) | None => if b then Some None else None end with
  | Some o => o
  | None => base
  end.
Proof. intros [v|] [|] base; reflexivity. Qed.

(* flush_mirror, by lookup *)
Lemma flush_lookup : forall (n : nbr E) (k : key),
  coherent (n_ptx n) ->
  kfind k (flush_mirror E n) =
  match pview (n_ptx n) k with
  | Some o => o
  | None => kfind k (mirror_reach E (n_buf n) (n_mirror n))
  end.
Proof.
  intros n k [Hc1 Hc2]. unfold flush_mirror, pview.
  rewrite mirror_reach_lookup, mirror_unreach_lookup.
  unfold drained_reach, drained_unreach. rewrite <- map_rev.
  rewrite kfind_map_coh.
  2:{ intros k' v Hin. apply in_rev in Hin. eauto. }
  assert (Hm : map (fun x : key * N => (snd x, snd (fst x))) (t_unreach (n_ptx n))
               = map fst (t_unreach (n_ptx n))).
  { apply map_ext_in. intros [[a b] nn] Hin. cbn [fst snd]. rewrite (Hc2 _ _ Hin). reflexivity. }
  unfold key in *. rewrite Hm.
  apply flush_lookup_aux.
Qed.

End Mirror.

(* ------------------------------------------------------------ association lists *)
Section Assoc.
Context {A : Type}.

Lemma assoc_In : forall (w : N) (l : list (N * A)) a, assoc w l = Some a -> In (w, a) l.
Proof.
  induction l as [|[x b] l IH]; cbn [assoc]; intros a H; [discriminate|].
  destruct (x =? w) eqn:Hx.
  - apply N.eqb_eq in Hx; subst. inversion H; subst. left; reflexivity.
  - right; auto.
Qed.

Lemma assoc_None : forall (w : N) (l : list (N * A)), assoc w l = None <-> ~ In w (map fst l).
Proof.
  induction l as [|[x b] l IH]; cbn [assoc map fst In]; [tauto|].
  destruct (x =? w) eqn:Hx.
  - apply N.eqb_eq in Hx; subst. split; [discriminate|]. intros H; exfalso; apply H; auto.
  - apply N.eqb_neq in Hx. rewrite IH. tauto.
Qed.

Lemma In_assoc_nodup : forall (w : N) (l : list (N * A)) a,
  NoDup (map fst l) -> In (w, a) l -> assoc w l = Some a.
Proof.
  induction l as [|[x b] l IH]; cbn [assoc map fst In]; intros a Hnd Hin; [contradiction|].
  inversion Hnd as [|? ? Hx Hnd']; subst. destruct Hin as [Hin|Hin].
  - inversion Hin; subst. now rewrite N.eqb_refl.
  - destruct (x =? w) eqn:Hxw; auto. apply N.eqb_eq in Hxw; subst.
    exfalso; apply Hx. apply in_map_iff. exists (w, a); auto.
Qed.

Lemma assoc_Some_In_fst : forall (w : N) (l : list (N * A)) a, assoc w l = Some a -> In w (map fst l).
Proof. intros w l a H. apply assoc_In in H. apply in_map_iff. exists (w, a); auto. Qed.
End Assoc.

Lemma In_filter_map : forall {A B} (f : A -> option B) (l : list A) b,
  In b (filter_map f l) <-> exists a, In a l /\ f a = Some b.
Proof.
  induction l as [|a l IH]; intros b; cbn [filter_map In].
  - split; [contradiction | intros [? [[] _]]].
  - destruct (f a) eqn:Hf; cbn [In]; rewrite IH; split.
    + intros [->|[a' [H1 H2]]]; eauto.
    + intros [a' [[->|H1] H2]]; [left; congruence | right; eauto].
    + intros [a' [H1 H2]]; eauto.
    + intros [a' [[->|H1] H2]]; [congruence | eauto].
Qed.

Lemma NoDup_map_filter : forall {A B} (f : A -> B) (g : A -> bool) l,
  NoDup (map f l) -> NoDup (map f (filter g l)).
Proof.
  induction l as [|a l IH]; cbn [map filter]; intros H; auto.
  inversion H as [|? ? Hn Hd]; subst. destruct (g a); cbn [map]; auto.
  constructor; auto. intros Hin; apply Hn. apply in_map_iff in Hin as [x [Hx Hi]].
  apply filter_In in Hi as [Hi _]. apply in_map_iff; eauto.
Qed.

Lemma firstn_In' : forall {A} n (l : list A) x, In x (firstn n l) -> In x l.
Proof.
  induction n; intros [|a l] x; cbn [firstn In]; auto; try tauto. intros [H|H]; auto.
Qed.

Lemma NoDup_map_firstn : forall {A B} (f : A -> B) n l,
  NoDup (map f l) -> NoDup (map f (firstn n l)).
Proof.
  induction n; intros [|a l]; cbn [firstn map]; intros H; auto using NoDup_nil.
  inversion H as [|? ? Hn Hd]; subst. constructor; auto.
  intros Hin; apply Hn. apply in_map_iff in Hin as [x [Hx Hi]].
  apply firstn_In' in Hi. apply in_map_iff; eauto.
Qed.

(* ------------------------------------------------------------ the export logic *)
Section Export.
Variable E : Type.
Variable max : N.
Variable vis : path -> bool.
Variable pol : bool -> N -> path -> option E.

Let aptx := negb (max =? 1).
Notation SEL := (sel E max vis pol).
Notation PC := (process_change E ByNet max aptx vis pol []).

Definition T (p : ptx E) (base : key -> option E) (k : key) : option E :=
  match pview E p k with Some o => o | None => base k end.

Definition selfun (net : N) (q : path) : option (N * E) :=
  match pol false net q with Some e => Some (p_pid q, e) | None => None end.

Lemma sel_ap : max <> 1 -> forall net paths,
  SEL net paths = filter_map (selfun net) (firstn (N.to_nat max) (filter vis paths)).
Proof. intros Hm net paths. unfold sel. apply N.eqb_neq in Hm. rewrite Hm. reflexivity. Qed.

Lemma sel_nil : forall net, SEL net [] = [].
Proof.
  intros; unfold sel. destruct (negb (max =? 1)); auto.
  cbn [filter]. rewrite firstn_nil. reflexivity.
Qed.

Lemma sel_In_ap : max <> 1 -> forall net paths w e,
  In (w, e) (SEL net paths) -> exists q, In q paths /\ p_pid q = w /\ pol false net q = Some e.
Proof.
  intros Hm net paths w e H. rewrite sel_ap in H by auto. apply In_filter_map in H as [q [Hq Hs]].
  apply firstn_In' in Hq. apply filter_In in Hq as [Hq _]. unfold selfun in Hs.
  destruct (pol false net q) eqn:Hp; inversion Hs; subst. eauto.
Qed.

Lemma sel_fst_sub : max <> 1 -> forall net l,
  NoDup (map p_pid l) -> NoDup (map fst (filter_map (selfun net) l)).
Proof.
  intros Hm net. induction l as [|q l IH]; cbn [filter_map map]; intros H; [constructor|].
  inversion H as [|? ? Hn Hd]; subst. unfold selfun at 1. destruct (pol false net q) eqn:Hp; auto.
  cbn [map fst]. constructor; auto. intros Hin. apply Hn.
  apply in_map_iff in Hin as [[w e'] [Hw Hi]]. cbn [fst] in Hw; subst w.
  apply In_filter_map in Hi as [q' [Hq' Hs]]. unfold selfun in Hs.
  destruct (pol false net q'); inversion Hs. apply in_map_iff. exists q'; split; auto.
Qed.

Lemma sel_nodup : max <> 1 -> forall net paths,
  NoDup (map p_pid paths) -> NoDup (map fst (SEL net paths)).
Proof.
  intros Hm net paths H. rewrite sel_ap by auto. apply sel_fst_sub; auto.
  apply NoDup_map_firstn. apply NoDup_map_filter. exact H.
Qed.

Lemma top_n_sel : max <> 1 -> forall c, top_n E max vis pol [] c = SEL (c_net c) (c_paths c).
Proof. intros Hm c. rewrite sel_ap by auto. reflexivity. Qed.

Lemma aptx_true : max <> 1 -> aptx = true.
Proof. intros H. unfold aptx. apply N.eqb_neq in H. now rewrite H. Qed.

Lemma aptx_false : max = 1 -> aptx = false.
Proof. intros H. unfold aptx. subst. reflexivity. Qed.

Lemma sink_unreach_ap : max <> 1 -> forall c w p,
  sink_unreach E ByNet aptx c w (SPtx E p) = SPtx E (ptx_unreach E (c_net c, w) (c_net c) p).
Proof. intros Hm c w p. cbn [sink_unreach]. unfold pkey, kfst, wpid. now rewrite (aptx_true Hm). Qed.

Lemma sink_reach_ap : max <> 1 -> forall c w e p,
  sink_reach E ByNet aptx c w e (SPtx E p) = SPtx E (ptx_reach E (c_net c, w) (c_net c) e p).
Proof. intros Hm c w e p. cbn [sink_reach]. unfold pkey, kfst, wpid. now rewrite (aptx_true Hm). Qed.

Lemma sink_unreach_plain : max = 1 -> forall c w p,
  sink_unreach E ByNet aptx c w (SPtx E p) = SPtx E (ptx_unreach E (c_net c, 0) (c_net c) p).
Proof. intros Hm c w p. cbn [sink_unreach]. unfold pkey, kfst, wpid. now rewrite (aptx_false Hm). Qed.

Lemma sink_reach_plain : max = 1 -> forall c w e p,
  sink_reach E ByNet aptx c w e (SPtx E p) = SPtx E (ptx_reach E (c_net c, 0) (c_net c) e p).
Proof. intros Hm c w e p. cbn [sink_reach]. unfold pkey, kfst, wpid. now rewrite (aptx_false Hm). Qed.

Definition f1 (c : change) : emap * sink E -> N -> emap * sink E :=
  fun s i => (em_del (c_id c, i) (fst s), sink_unreach E ByNet aptx c i (snd s)).

Definition f2 (c : change) : emap * sink E -> N * E -> emap * sink E :=
  fun s x => let '(i, e) := x in
             if negb (memK (c_id c, i) (fst s)) || opt_eqb (c_repl c) i
             then (em_add (c_id c, i) (fst s), sink_reach E ByNet aptx c i e (snd s))
             else s.

Lemma proc_ap_eq : forall c st,
  proc_ap E ByNet max aptx vis pol [] c st =
  if negb (c_ac c) then st else
  fold_left (f2 c) (top_n E max vis pol [] c)
    (fold_left (f1 c)
       (filter (fun i => negb (memN i (map fst (top_n E max vis pol [] c)))) (em_ids (c_id c) (fst st)))
       st).
Proof. reflexivity. Qed.

(* phase 1 of the add-path branch: withdraw what is no longer in the window *)
Lemma phase1 : max <> 1 -> forall (c : change) (gone : list N) (em : emap) (p : ptx E),
  let r := fold_left (f1 c) gone (em, SPtx E p) in
  exists p', snd r = SPtx E p' /\
    (forall k, In k (fst r) <-> In k em /\ ~ (fst k = c_id c /\ In (snd k) gone)) /\
    (forall k, pview E p' k =
               if (fst k =? c_net c) && memN (snd k) gone then Some None else pview E p k) /\
    (coherent E p -> coherent E p').
Proof.
  intros Hm c. unfold f1. induction gone as [|w gone IH]; intros em p; cbn [fold_left].
  - exists p. split; [reflexivity|]. split; [|split]; auto.
    + intros k. cbn [fst In]. tauto.
    + intros k. unfold memN; cbn [existsb]. now rewrite andb_false_r.
  - cbn [fst snd]. rewrite (sink_unreach_ap Hm).
    destruct (IH (em_del (c_id c, w) em) (ptx_unreach E (c_net c, w) (c_net c) p))
      as [p' [Hs [He [Hp Hc]]]].
    exists p'. split; [exact Hs|]. split; [|split].
    + intros k. rewrite He, In_em_del. cbn [In]. destruct k as [a b]; cbn [fst snd].
      split.
      * intros [[H1 H2] H3]. split; auto. intros [Ha [Hb|Hb]]; subst.
        -- apply H2; reflexivity.
        -- apply H3; auto.
      * intros [H1 H2]. split; [split; auto|].
        -- intros Heq; inversion Heq; subst. apply H2; auto.
        -- intros [Ha Hb]; apply H2; auto.
    + intros k. rewrite Hp, pview_unreach. unfold memN; cbn [existsb]. fold (memN (snd k) gone).
      unfold key_eqb; cbn [fst snd].
      destruct (fst k =? c_net c); cbn [andb]; auto.
      destruct (memN (snd k) gone); cbn [orb].
      * now rewrite orb_true_r.
      * rewrite orb_false_r. rewrite (N.eqb_sym (snd k) w). destruct (w =? snd k); auto.
    + intros Hcoh. apply Hc. apply (coherent_unreach E p (c_net c, w)). exact Hcoh.
Qed.

(* phase 2: announce what is new in the window, or replaced *)
Lemma phase2 : max <> 1 -> forall (c : change) (top : list (N * E)) (em : emap) (p : ptx E),
  NoDup (map fst top) ->
  let r := fold_left (f2 c) top (em, SPtx E p) in
  exists p', snd r = SPtx E p' /\
    (forall k, In k (fst r) <-> In k em \/ (fst k = c_id c /\ In (snd k) (map fst top))) /\
    (forall k, pview E p' k =
               if fst k =? c_net c then
                 match assoc (snd k) top with
                 | Some e => if negb (memK (c_id c, snd k) em) || opt_eqb (c_repl c) (snd k)
                             then Some (Some e) else pview E p k
                 | None => pview E p k
                 end
               else pview E p k) /\
    (coherent E p -> coherent E p').
Proof.
  intros Hm c. unfold f2. induction top as [|[w e] top IH]; intros em p Hnd; cbn [fold_left].
  - exists p. split; [reflexivity|]. split; [|split]; auto.
    + intros k. cbn [fst map In]. tauto.
    + intros k. cbn [assoc]. now destruct (fst k =? c_net c).
  - cbn [map fst] in Hnd. inversion Hnd as [|? ? Hw Hnd']; subst.
    cbn [fst snd].
    set (b := negb (memK (c_id c, w) em) || opt_eqb (c_repl c) w).
    assert (Hmem : forall w', w' <> w ->
              memK (c_id c, w') (if b then em_add (c_id c, w) em else em) = memK (c_id c, w') em).
    { intros w' Hne. destruct b; auto.
      destruct (memK (c_id c, w') em) eqn:H1.
      - apply memK_In. apply In_em_add. left. apply memK_In; auto.
      - destruct (memK (c_id c, w') (em_add (c_id c, w) em)) eqn:H2; auto.
        apply memK_In in H2. apply In_em_add in H2 as [H2|H2].
        + apply memK_In in H2; congruence.
        + inversion H2; congruence. }
    destruct b eqn:Hb.
    + rewrite (sink_reach_ap Hm).
      destruct (IH (em_add (c_id c, w) em) (ptx_reach E (c_net c, w) (c_net c) e p) Hnd')
        as [p' [Hs [He [Hp Hc]]]].
      exists p'. split; [exact Hs|]. split; [|split].
      * intros k. rewrite He, In_em_add. cbn [map fst In]. destruct k as [a b']; cbn [fst snd].
        split.
        -- intros [[H|H]|[H1 H2]]; auto. inversion H; subst; auto.
        -- intros [H|[H1 [H2|H2]]]; auto. subst; auto.
      * intros k. rewrite Hp, pview_reach. unfold key_eqb; cbn [fst snd assoc].
        destruct (fst k =? c_net c) eqn:Hn; cbn [andb]; auto.
        destruct (w =? snd k) eqn:Hws.
        -- apply N.eqb_eq in Hws; subst w.
           assert (Ha : assoc (snd k) top = None) by (apply assoc_None; auto).
           rewrite Ha, N.eqb_refl. fold b. rewrite Hb. reflexivity.
        -- rewrite (N.eqb_sym (snd k) w), Hws.
           apply N.eqb_neq in Hws.
           rewrite (Hmem (snd k)) by auto. reflexivity.
      * intros Hcoh. apply Hc. apply (coherent_reach E p (c_net c, w)). exact Hcoh.
    + destruct (IH em p Hnd') as [p' [Hs [He [Hp Hc]]]].
      exists p'. split; [exact Hs|]. split; [|split]; auto.
      * intros k. rewrite He. cbn [map fst In]. destruct k as [a b']; cbn [fst snd].
        split.
        -- intros [H|[H1 H2]]; auto.
        -- intros [H|[H1 [H2|H2]]]; auto. subst. left.
           unfold b in Hb. apply orb_false_iff in Hb as [Hb _].
           apply negb_false_iff in Hb. apply memK_In; auto.
      * intros k. rewrite Hp. cbn [assoc].
        destruct (fst k =? c_net c) eqn:Hn; auto.
        destruct (w =? snd k) eqn:Hws; auto.
        apply N.eqb_eq in Hws; subst w.
        assert (Ha : assoc (snd k) top = None) by (apply assoc_None; auto).
        rewrite Ha. fold b. rewrite Hb. reflexivity.
Qed.


(* what the neighbour-side state must satisfy for one destination before a change of
   it is processed, and what the change must satisfy (truthful flags) *)
Record step_hyp (c : change) (old : list path) : Prop := {
  sh_ac : c_ac c = false -> c_paths c = old;
  sh_bc : c_bc c = false -> hd_error (c_paths c) = hd_error old;
  sh_nd : NoDup (map p_pid (c_paths c));
  sh_ndo : NoDup (map p_pid old);
  sh_same : forall p q, In p (c_paths c) -> In q old -> p_pid p = p_pid q ->
                        p = q \/ c_repl c = Some (p_pid p)
}.

Definition post_ok (c : change) (em : emap) (p : ptx E) (base : key -> option E)
           (em' : emap) (p' : ptx E) : Prop :=
  (forall k, In k em' <->
             (fst k = c_id c /\ In (snd k) (map fst (SEL (c_net c) (c_paths c)))) \/
             (fst k <> c_id c /\ In k em)) /\
  (forall k, T p' base k = if fst k =? c_net c then assoc (snd k) (SEL (c_net c) (c_paths c))
                           else T p base k) /\
  (coherent E p -> coherent E p').

Lemma unchanged_ok : forall c old (em : emap) p base,
  SEL (c_net c) (c_paths c) = SEL (c_net c) old ->
  (forall w, In (c_id c, w) em <-> In w (map fst (SEL (c_net c) old))) ->
  (forall w, T p base (c_net c, w) = assoc w (SEL (c_net c) old)) ->
  post_ok c em p base em p.
Proof.
  intros c old em p base Hs HA HB. rewrite <- Hs in HA, HB. split; [|split]; auto.
  - intros [a b]; cbn [fst snd]. destruct (N.eq_dec a (c_id c)) as [->|Hne].
    + rewrite HA. tauto.
    + tauto.
  - intros [a b]; cbn [fst snd]. destruct (a =? c_net c) eqn:Ha; auto.
    apply N.eqb_eq in Ha; subst. apply HB.
Qed.

Lemma sel_plain : max = 1 -> forall net paths,
  SEL net paths = match paths with
                  | [] => []
                  | b :: _ => if vis b then match pol false net b with Some e => [(0, e)] | None => [] end
                              else []
                  end.
Proof. intros Hm net paths. unfold sel. subst max. reflexivity. Qed.

Lemma sel_plain_hd : max = 1 -> forall net a b, hd_error a = hd_error b -> SEL net a = SEL net b.
Proof.
  intros Hm net a b H. rewrite !sel_plain by auto.
  destruct a, b; cbn [hd_error] in H; try discriminate; auto. inversion H; subst; reflexivity.
Qed.

Lemma sel_plain_pid0 : max = 1 -> forall net paths w, In w (map fst (SEL net paths)) -> w = 0.
Proof.
  intros Hm net paths w. rewrite sel_plain by auto.
  destruct paths as [|b t]; cbn [map In]; [tauto|].
  destruct (vis b); cbn [map In]; [|tauto].
  destruct (pol false net b); cbn [map fst In]; [|tauto]. intros [H|[]]; auto.
Qed.

Lemma T_reach : forall p base k' net e k,
  T (ptx_reach E k' net e p) base k = if key_eqb k k' then Some e else T p base k.
Proof. intros. unfold T. rewrite pview_reach. destruct (key_eqb k k'); auto. Qed.

Lemma T_unreach : forall p base k' net k,
  T (ptx_unreach E k' net p) base k = if key_eqb k k' then None else T p base k.
Proof. intros. unfold T. rewrite pview_unreach. destruct (key_eqb k k'); auto. Qed.

Lemma proc_plain_ok : max = 1 -> forall c old (em : emap) p base,
  step_hyp c old ->
  (forall w, In (c_id c, w) em <-> In w (map fst (SEL (c_net c) old))) ->
  (forall w, T p base (c_net c, w) = assoc w (SEL (c_net c) old)) ->
  exists p', snd (PC c (em, SPtx E p)) = SPtx E p' /\
             post_ok c em p base (fst (PC c (em, SPtx E p))) p'.
Proof.
  intros Hm c old em p base Hh HA HB.
  assert (Hpid0 : forall w, In (c_id c, w) em -> w = 0).
  { intros w Hw. apply HA in Hw. eapply sel_plain_pid0; eauto. }
  assert (HT0 : forall w, w <> 0 -> T p base (c_net c, w) = None).
  { intros w Hw. rewrite HB. apply assoc_None. intros Hin. apply Hw. eapply sel_plain_pid0; eauto. }
  unfold process_change, ap. rewrite Hm. cbn [N.eqb Pos.eqb negb]. unfold proc_plain.
  destruct (c_bc c) eqn:Hbc; cbn [negb].
  2:{ exists p. split; [reflexivity|]. cbn [fst]. apply (unchanged_ok c old em p base); auto.
      apply sel_plain_hd; auto. apply (sh_bc _ _ Hh); auto. }
  set (res := match c_paths c with
              | [] => None
              | b :: _ => if vis b then pol (llgr_of [] b) (c_net c) b else None
              end).
  assert (Hsel : SEL (c_net c) (c_paths c) = match res with Some e => [(0, e)] | None => [] end).
  { rewrite sel_plain by auto. unfold res. destruct (c_paths c) as [|b t]; auto.
    destruct (vis b); auto. }
  destruct res as [e|] eqn:Hres.
  - rewrite (sink_reach_plain Hm). eexists; split; [reflexivity|]. cbn [fst].
    unfold post_ok. rewrite Hsel. split; [|split].
    + intros [a b]; cbn [fst snd map In]. rewrite In_em_add.
      destruct (N.eq_dec a (c_id c)) as [->|Hne].
      * split.
        -- intros [H| H]; [left; split; auto; left; symmetry; eauto | inversion H; auto].
        -- intros [[_ [H|[]]]|[H _]]; [subst; auto | congruence].
      * split.
        -- intros [H|H]; [auto | inversion H; congruence].
        -- intros [[H _]|[_ H]]; [congruence | auto].
    + intros [a b]. rewrite T_reach. unfold key_eqb; cbn [fst snd assoc].
      destruct (a =? c_net c) eqn:Ha; cbn [andb]; auto.
      apply N.eqb_eq in Ha; subst a. rewrite (N.eqb_sym 0 b).
      destruct (b =? 0) eqn:Hb; auto. apply N.eqb_neq in Hb. apply HT0; auto.
    + intros Hc. apply (coherent_reach E p (c_net c, 0)); auto.
  - destruct (em_was_sent (c_id c) em) eqn:Hws.
    + rewrite (sink_unreach_plain Hm). eexists; split; [reflexivity|]. cbn [fst].
      unfold post_ok. rewrite Hsel. split; [|split].
      * intros [a b]; cbn [fst snd map In]. rewrite In_em_del.
        destruct (N.eq_dec a (c_id c)) as [->|Hne].
        -- split; [|tauto]. intros [H1 H2]. exfalso. apply H2. rewrite (Hpid0 _ H1). reflexivity.
        -- split; [intros [H1 _]; auto|]. intros [[H _]|[_ H]]; [congruence|].
           split; auto. intros Heq; inversion Heq; congruence.
      * intros [a b]. rewrite T_unreach. unfold key_eqb; cbn [fst snd assoc].
        destruct (a =? c_net c) eqn:Ha; cbn [andb]; auto.
        apply N.eqb_eq in Ha; subst a.
        destruct (b =? 0) eqn:Hb; auto. apply N.eqb_neq in Hb. apply HT0; auto.
      * intros Hc. apply (coherent_unreach E p (c_net c, 0)); auto.
    + exists p. split; [reflexivity|]. cbn [fst].
      assert (Hno : forall w, ~ In (c_id c, w) em).
      { intros w Hw. assert (em_was_sent (c_id c) em = true) by (apply em_was_sent_spec; eauto).
        congruence. }
      unfold post_ok. rewrite Hsel. split; [|split]; auto.
      * intros [a b]; cbn [fst snd map In].
        destruct (N.eq_dec a (c_id c)) as [->|Hne]; [|tauto].
        split; [intros H; exfalso; eapply Hno; eauto | tauto].
      * intros [a b]; cbn [fst snd assoc].
        destruct (a =? c_net c) eqn:Ha; auto. apply N.eqb_eq in Ha; subst a.
        rewrite HB. apply assoc_None. intros Hin. apply HA in Hin. eapply Hno; eauto.
Qed.


Lemma proc_ap_ok : max <> 1 -> forall c old (em : emap) p base,
  step_hyp c old ->
  (forall w, In (c_id c, w) em <-> In w (map fst (SEL (c_net c) old))) ->
  (forall w, T p base (c_net c, w) = assoc w (SEL (c_net c) old)) ->
  exists p', snd (PC c (em, SPtx E p)) = SPtx E p' /\
             post_ok c em p base (fst (PC c (em, SPtx E p))) p'.
Proof.
  intros Hm c old em p base Hh HA HB.
  unfold process_change, ap. apply N.eqb_neq in Hm as Hmb. rewrite Hmb. cbn [negb].
  rewrite proc_ap_eq. destruct (c_ac c) eqn:Hac; cbn [negb].
  2:{ exists p. split; [reflexivity|]. cbn [fst]. apply (unchanged_ok c old em p base); auto.
      rewrite (sh_ac _ _ Hh); auto. }
  rewrite (top_n_sel Hm). cbn [fst snd].
  set (top := SEL (c_net c) (c_paths c)).
  set (cur := map fst top).
  set (gone := filter (fun i => negb (memN i cur)) (em_ids (c_id c) em)).
  assert (Hndt : NoDup (map fst top)) by (apply sel_nodup; auto; apply (sh_nd _ _ Hh)).
  destruct (phase1 Hm c gone em p) as [p1 [Hs1 [He1 [Hp1 Hc1]]]].
  cbv zeta in Hs1, He1.
  remember (fold_left (f1 c) gone (em, SPtx E p)) as st1 eqn:Hst1def.
  clear Hst1def. destruct st1 as [em1 sk1]. cbn [fst snd] in Hs1, He1. subst sk1.
  destruct (phase2 Hm c top em1 p1 Hndt) as [p2 [Hs2 [He2 [Hp2 Hc2]]]].
  cbv zeta in Hs2, He2.
  exists p2. split; [exact Hs2|].
  assert (Hgone : forall w, In w gone <-> In (c_id c, w) em /\ ~ In w cur).
  { intros w. unfold gone. rewrite filter_In, In_em_ids, negb_true_iff, memN_false. tauto. }
  unfold post_ok. fold top. split; [|split].
  - intros [a b]. rewrite He2, He1. cbn [fst snd]. fold cur.
    destruct (N.eq_dec a (c_id c)) as [->|Hne].
    + split.
      * intros [[H1 H2]|[_ H]]; auto. left; split; auto.
        destruct (in_dec N.eq_dec b cur) as [Hi|Hi]; auto.
        exfalso; apply H2; split; auto. apply Hgone; auto.
      * intros [[_ H]|[H _]]; [auto | congruence].
    + split.
      * intros [[H1 _]|[H _]]; [auto | congruence].
      * intros [[H _]|[_ H]]; [congruence|]. left; split; auto. intros [H' _]; congruence.
  - intros [a b]. unfold T at 1. rewrite Hp2. cbn [fst snd].
    destruct (a =? c_net c) eqn:Ha.
    2:{ rewrite Hp1. cbn [fst]. rewrite Ha. cbn [andb]. reflexivity. }
    apply N.eqb_eq in Ha; subst a.
    assert (Hp1b : pview E p1 (c_net c, b) = if memN b gone then Some None else pview E p (c_net c, b)).
    { rewrite Hp1. cbn [fst snd]. now rewrite N.eqb_refl. }
    destruct (assoc b top) as [e|] eqn:Hab.
    + destruct (negb (memK (c_id c, b) em1) || opt_eqb (c_repl c) b) eqn:Hcond; auto.
      apply orb_false_iff in Hcond as [Hin Hrep]. apply negb_false_iff in Hin.
      apply memK_In in Hin. apply He1 in Hin as [Hin Hng]. cbn [fst snd] in Hng.
      rewrite Hp1b.
      assert (Hnb : memN b gone = false).
      { apply memN_false. intros Hg. apply Hng; auto. }
      rewrite Hnb. fold (T p base (c_net c, b)). rewrite HB.
      (* the path keeps its id and was not replaced: same content, same payload *)
      symmetry. apply assoc_In in Hab. unfold top in Hab.
      destruct (sel_In_ap Hm _ _ _ _ Hab) as [q [Hq [Hqp Hqe]]].
      apply HA in Hin. apply in_map_iff in Hin as [[w e'] [Hw Hin']]. cbn [fst] in Hw; subst w.
      destruct (sel_In_ap Hm _ _ _ _ Hin') as [q' [Hq' [Hqp' Hqe']]].
      destruct (sh_same _ _ Hh q q' Hq Hq') as [Heq|Hr]; [congruence | |].
      * subst q'. symmetry. apply In_assoc_nodup.
        -- apply sel_nodup; auto. apply (sh_ndo _ _ Hh).
        -- rewrite Hqe in Hqe'. inversion Hqe'; subst. exact Hin'.
      * rewrite Hr, Hqp in Hrep. cbn [opt_eqb] in Hrep. rewrite N.eqb_refl in Hrep. discriminate.
    + rewrite Hp1b. destruct (memN b gone) eqn:Hg; auto.
      fold (T p base (c_net c, b)). rewrite HB.
      apply assoc_None. intros Hin. apply HA in Hin.
      apply memN_false in Hg. apply Hg. apply Hgone. split; auto.
      apply assoc_None in Hab. exact Hab.
  - intros Hc. apply Hc2. apply Hc1. exact Hc.
Qed.

Lemma proc_ok : forall c old (em : emap) p base,
  step_hyp c old ->
  (forall w, In (c_id c, w) em <-> In w (map fst (SEL (c_net c) old))) ->
  (forall w, T p base (c_net c, w) = assoc w (SEL (c_net c) old)) ->
  exists p', snd (PC c (em, SPtx E p)) = SPtx E p' /\
             post_ok c em p base (fst (PC c (em, SPtx E p))) p'.
Proof.
  intros c old em p base Hh HA HB.
  destruct (N.eq_dec max 1); [apply (proc_plain_ok e c old) | apply (proc_ap_ok n c old)]; auto.
Qed.

End Export.
