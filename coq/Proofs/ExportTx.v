(* Proofs for property C01 about Model/ExportTx.v (the code after the two `fix:`
   commits: PendingTx keyed by (prefix, path id); dump/refresh hand every candidate
   to the top-N selection), and refutation witnesses for the code before them and
   for the two open findings. *)
From Coq Require Import List NArith Bool Lia ZifyBool ZifyN Arith.
From RB Require Import Base.Val Model.ExportTx Spec.ExportTxSpec.
Import ListNotations.
Open Scope N_scope.

(* ------------------------------------------------------------ keys and small maps *)
Lemma key_eqb_eq : forall a b : key, key_eqb a b = true <-> a = b.
Proof.
  intros [a1 a2] [b1 b2]; unfold key_eqb; cbn [fst snd].
  rewrite andb_true_iff, !N.eqb_eq. split; [intros [-> ->]; reflexivity | intros H; inversion H; auto].
Qed.

Lemma key_eqb_refl : forall a, key_eqb a a = true.
Proof. intros; apply key_eqb_eq; reflexivity. Qed.

Lemma key_eqb_sym : forall a b, key_eqb a b = key_eqb b a.
Proof.
  intros a b. destruct (key_eqb a b) eqn:H1, (key_eqb b a) eqn:H2; auto.
  - apply key_eqb_eq in H1; subst. now rewrite key_eqb_refl in H2.
  - apply key_eqb_eq in H2; subst. now rewrite key_eqb_refl in H1.
Qed.

Lemma key_eqb_neq : forall a b : key, key_eqb a b = false <-> a <> b.
Proof.
  intros a b; split; intros H.
  - intros ->. now rewrite key_eqb_refl in H.
  - destruct (key_eqb a b) eqn:Hk; auto. apply key_eqb_eq in Hk; contradiction.
Qed.

Section Maps.
Context {V : Type}.

Lemma kfind_app : forall (k : key) (a b : list (key * V)),
  kfind k (a ++ b) = match kfind k a with Some v => Some v | None => kfind k b end.
Proof.
  induction a as [|[k' v] a IH]; intros; cbn [app kfind]; auto.
  destruct (key_eqb k k'); auto.
Qed.

Lemma kfind_kremove : forall (k k' : key) (m : list (key * V)),
  kfind k (kremove k' m) = if key_eqb k k' then None else kfind k m.
Proof.
  induction m as [|[k2 v] m IH]; cbn [kremove filter kfind fst].
  - now destruct (key_eqb k k').
  - fold (kremove k' m). destruct (key_eqb k' k2) eqn:H2; cbn [negb].
    + apply key_eqb_eq in H2; subst k2. rewrite IH. destruct (key_eqb k k'); auto.
    + cbn [kfind]. rewrite IH. destruct (key_eqb k k2) eqn:H3; auto.
      apply key_eqb_eq in H3; subst k2. rewrite key_eqb_sym, H2. reflexivity.
Qed.

Lemma kfind_kinsert : forall (k k' : key) (v : V) (m : list (key * V)),
  kfind k (kinsert k' v m) = if key_eqb k k' then Some v else kfind k m.
Proof.
  intros. unfold kinsert. rewrite kfind_app, kfind_kremove. cbn [kfind].
  destruct (key_eqb k k'); auto. destruct (kfind k m); auto.
Qed.

Lemma kremove_rev : forall (k : key) (m : list (key * V)), rev (kremove k m) = kremove k (rev m).
Proof.
  intros; unfold kremove. induction m as [|x m IH]; cbn [filter rev]; auto.
  rewrite filter_app; cbn [filter]. destruct (negb (key_eqb k (fst x))); cbn [rev]; rewrite IH; auto.
  now rewrite app_nil_r.
Qed.

Lemma kfind_rev_kinsert : forall (k k' : key) (v : V) (m : list (key * V)),
  kfind k (rev (kinsert k' v m)) = if key_eqb k k' then Some v else kfind k (rev m).
Proof.
  intros. unfold kinsert. rewrite rev_app_distr. cbn [rev app kfind].
  destruct (key_eqb k k') eqn:Hk; auto. rewrite kremove_rev, kfind_kremove, Hk. reflexivity.
Qed.

Lemma kfind_rev_kremove : forall (k k' : key) (m : list (key * V)),
  kfind k (rev (kremove k' m)) = if key_eqb k k' then None else kfind k (rev m).
Proof. intros. now rewrite kremove_rev, kfind_kremove. Qed.

Lemma In_kremove : forall (k : key) x (m : list (key * V)),
  In x (kremove k m) -> In x m.
Proof. intros k x m H. apply filter_In in H. tauto. Qed.

Lemma In_kinsert : forall (k : key) v x (m : list (key * V)),
  In x (kinsert k v m) -> In x m \/ x = (k, v).
Proof.
  intros k v x m H. unfold kinsert in H. apply in_app_or in H as [H|H].
  - left; eapply In_kremove; eauto.
  - right. destruct H as [H|[]]; auto.
Qed.
End Maps.

Lemma memK_In : forall k l, memK k l = true <-> In k l.
Proof.
  intros; unfold memK. rewrite existsb_exists. split.
  - intros [x [Hx He]]. apply key_eqb_eq in He; now subst.
  - intros H; exists k; split; auto. apply key_eqb_refl.
Qed.

Lemma memN_In : forall x l, memN x l = true <-> In x l.
Proof.
  intros; unfold memN. rewrite existsb_exists. split.
  - intros [y [Hy He]]. apply N.eqb_eq in He; now subst.
  - intros H; exists x; split; auto. apply N.eqb_refl.
Qed.

Lemma memN_false : forall x l, memN x l = false <-> ~ In x l.
Proof.
  intros. rewrite <- memN_In. destruct (memN x l); split; intros H; try congruence; try tauto.
Qed.

Lemma In_em_add : forall k k' m, In k (em_add k' m) <-> In k m \/ k = k'.
Proof.
  intros; unfold em_add. destruct (memK k' m) eqn:Hm.
  - apply memK_In in Hm. split; [auto|]. intros [H| ->]; auto.
  - rewrite in_app_iff; cbn [In]. split; intros [H|H]; auto. destruct H; auto; contradiction.
Qed.

Lemma In_em_del : forall k k' m, In k (em_del k' m) <-> In k m /\ k <> k'.
Proof.
  intros; unfold em_del. rewrite filter_In. split; intros [H1 H2]; split; auto.
  - intros ->. now rewrite key_eqb_refl in H2.
  - apply negb_true_iff. apply key_eqb_neq. auto.
Qed.

Lemma In_em_ids : forall i w m, In w (em_ids i m) <-> In (i, w) m.
Proof.
  intros; unfold em_ids. rewrite in_map_iff. split.
  - intros [[a b] [Hs Hf]]. apply filter_In in Hf as [Hf He]. cbn [fst snd] in *.
    apply N.eqb_eq in He; now subst.
  - intros H. exists (i, w); split; auto. apply filter_In; split; auto. cbn [fst]; apply N.eqb_refl.
Qed.

Lemma em_was_sent_spec : forall i m, em_was_sent i m = true <-> exists w, In (i, w) m.
Proof.
  intros; unfold em_was_sent. rewrite existsb_exists. split.
  - intros [[a b] [Hi He]]. cbn [fst] in He. apply N.eqb_eq in He; subst. eauto.
  - intros [w H]; exists (i, w); split; auto. cbn [fst]; apply N.eqb_refl.
Qed.

(* ------------------------------------------------------------ the mirror *)
Section Mirror.
Variable E : Type.

Lemma mirror_reach_lookup : forall (es m : list (key * E)) (k : key),
  kfind k (mirror_reach E es m) =
  match kfind k (rev es) with Some e => Some e | None => kfind k m end.
Proof.
  unfold mirror_reach. induction es as [|x es IH]; intros; cbn [fold_left rev kfind]; auto.
  rewrite IH, kfind_app, kfind_kinsert. cbn [kfind]. destruct x as [k' v]; cbn [fst snd].
  destruct (kfind k (rev es)); auto. destruct (key_eqb k k'); auto.
Qed.

Lemma mirror_unreach_lookup : forall (ks : list key) (m : list (key * E)) (k : key),
  kfind k (mirror_unreach E ks m) = if memK k ks then None else kfind k m.
Proof.
  unfold mirror_unreach. induction ks as [|x ks IH]; intros; cbn [fold_left]; auto.
  rewrite IH, kfind_kremove. unfold memK; cbn [existsb]. fold (memK k ks).
  destruct (key_eqb k x); cbn [orb]; auto. now destruct (memK k ks).
Qed.

(* what a PendingTx will do to route k at the next flush:
   Some (Some e) announce e, Some None withdraw, None nothing *)
Definition pview (p : ptx E) (k : key) : option (option E) :=
  match kfind k (rev (t_reach p)) with
  | Some v => Some (Some (snd v))
  | None => if memK k (map fst (t_unreach p)) then Some None else None
  end.

(* ByNet keying: the prefix stored in an entry is the prefix of its key *)
Definition coherent (p : ptx E) : Prop :=
  (forall k v, In (k, v) (t_reach p) -> fst v = fst k) /\
  (forall k n, In (k, n) (t_unreach p) -> n = fst k).

Lemma coherent_empty : coherent (ptx_empty E).
Proof. split; intros ? ? []. Qed.

Lemma coherent_reach : forall p k e, coherent p -> coherent (ptx_reach E k (fst k) e p).
Proof.
  intros p k e [H1 H2]; split; cbn [ptx_reach t_reach t_unreach]; intros k' v Hin.
  - apply In_kinsert in Hin as [Hin|Hin]; eauto. inversion Hin; subst; auto.
  - apply In_kremove in Hin; eauto.
Qed.

Lemma coherent_unreach : forall p k, coherent p -> coherent (ptx_unreach E k (fst k) p).
Proof.
  intros p k [H1 H2]; split; cbn [ptx_unreach t_reach t_unreach]; intros k' v Hin.
  - apply In_kremove in Hin; eauto.
  - apply In_kinsert in Hin as [Hin|Hin]; eauto. inversion Hin; subst; auto.
Qed.

Lemma memK_map_kremove : forall {V} (k k' : key) (m : list (key * V)),
  memK k (map fst (kremove k' m)) = if key_eqb k k' then false else memK k (map fst m).
Proof.
  intros V k k' m. induction m as [|[k2 v] m IH]; cbn [kremove filter map fst].
  - unfold memK; cbn. now destruct (key_eqb k k').
  - fold (kremove k' m). destruct (key_eqb k' k2) eqn:H2; cbn [negb map fst].
    + apply key_eqb_eq in H2; subst k2. rewrite IH. unfold memK at 2; cbn [existsb].
      fold (memK k (map fst m)). destruct (key_eqb k k'); auto.
    + unfold memK at 1; cbn [existsb]. fold (memK k (map fst (kremove k' m))). rewrite IH.
      unfold memK at 2; cbn [existsb]. fold (memK k (map fst m)).
      destruct (key_eqb k k2) eqn:H3; cbn [orb]; auto.
      apply key_eqb_eq in H3; subst k2. rewrite key_eqb_sym, H2. reflexivity.
Qed.

Lemma memK_map_kinsert : forall {V} (k k' : key) (v : V) (m : list (key * V)),
  memK k (map fst (kinsert k' v m)) = if key_eqb k k' then true else memK k (map fst m).
Proof.
  intros. unfold kinsert. rewrite map_app. unfold memK. rewrite existsb_app.
  fold (memK k (map fst (kremove k' m))). rewrite memK_map_kremove. cbn [map fst existsb].
  destruct (key_eqb k k'); cbn [orb]; auto. now rewrite orb_false_r.
Qed.

Lemma pview_reach : forall p k' net e k,
  pview (ptx_reach E k' net e p) k = if key_eqb k k' then Some (Some e) else pview p k.
Proof.
  intros. unfold pview; cbn [ptx_reach t_reach t_unreach].
  rewrite kfind_rev_kinsert, memK_map_kremove. destruct (key_eqb k k'); cbn [snd]; auto.
Qed.

Lemma pview_unreach : forall p k' net k,
  pview (ptx_unreach E k' net p) k = if key_eqb k k' then Some None else pview p k.
Proof.
  intros. unfold pview; cbn [ptx_reach ptx_unreach t_reach t_unreach].
  rewrite kfind_rev_kremove, memK_map_kinsert. destruct (key_eqb k k'); auto.
Qed.

Lemma pview_empty : forall k, pview (ptx_empty E) k = None.
Proof. reflexivity. Qed.

Lemma kfind_map_coh : forall (l : list (key * (N * E))) (k : key),
  (forall k' v, In (k', v) l -> fst v = fst k') ->
  kfind k (map (fun x => ((fst (snd x), snd (fst x)), snd (snd x))) l) =
  match kfind k l with Some v => Some (snd v) | None => None end.
Proof.
  induction l as [|[[a b] [n e]] l IH]; intros k Hc; cbn [map kfind fst snd]; auto.
  assert (n = a) by (apply (Hc (a, b) (n, e)); left; reflexivity). subst n.
  destruct (key_eqb k (a, b)); auto. apply IH. intros; apply Hc; right; auto.
Qed.

Lemma flush_lookup_aux : forall (o : option (N * E)) (b : bool) (base : option E),
  match match o with Some v => Some (snd v) | None => None end with
  | Some e => Some e
  | None => if b then None else base
  end =
  match match o with Some v => Some (Some (snd v)) | None => if b then Some None else None end with
  | Some o => o
  | None => base
  end.
Proof. intros [v|] [|] base; reflexivity. Qed.

(* flush_mirror, by lookup *)
Lemma flush_lookup : forall (n : nbr E) (k : key),
  coherent (n_ptx n) ->
  kfind k (flush_mirror E n) =
  match pview (n_ptx n) k with
  | Some o => o
  | None => kfind k (mirror_reach E (n_buf n) (n_mirror n))
  end.
Proof.
  intros n k [Hc1 Hc2]. unfold flush_mirror, pview.
  rewrite mirror_reach_lookup, mirror_unreach_lookup.
  unfold drained_reach, drained_unreach. rewrite <- map_rev.
  rewrite kfind_map_coh.
  2:{ intros k' v Hin. apply in_rev in Hin. eauto. }
  assert (Hm : map (fun x : key * N => (snd x, snd (fst x))) (t_unreach (n_ptx n))
               = map fst (t_unreach (n_ptx n))).
  { apply map_ext_in. intros [[a b] nn] Hin. cbn [fst snd]. rewrite (Hc2 _ _ Hin). reflexivity. }
  unfold key in *. rewrite Hm.
  apply flush_lookup_aux.
Qed.

End Mirror.

(* ------------------------------------------------------------ association lists *)
Section Assoc.
Context {A : Type}.

Lemma assoc_In : forall (w : N) (l : list (N * A)) a, assoc w l = Some a -> In (w, a) l.
Proof.
  induction l as [|[x b] l IH]; cbn [assoc]; intros a H; [discriminate|].
  destruct (x =? w) eqn:Hx.
  - apply N.eqb_eq in Hx; subst. inversion H; subst. left; reflexivity.
  - right; auto.
Qed.

Lemma assoc_None : forall (w : N) (l : list (N * A)), assoc w l = None <-> ~ In w (map fst l).
Proof.
  induction l as [|[x b] l IH]; cbn [assoc map fst In]; [tauto|].
  destruct (x =? w) eqn:Hx.
  - apply N.eqb_eq in Hx; subst. split; [discriminate|]. intros H; exfalso; apply H; auto.
  - apply N.eqb_neq in Hx. rewrite IH. tauto.
Qed.

Lemma In_assoc_nodup : forall (w : N) (l : list (N * A)) a,
  NoDup (map fst l) -> In (w, a) l -> assoc w l = Some a.
Proof.
  induction l as [|[x b] l IH]; cbn [assoc map fst In]; intros a Hnd Hin; [contradiction|].
  inversion Hnd as [|? ? Hx Hnd']; subst. destruct Hin as [Hin|Hin].
  - inversion Hin; subst. now rewrite N.eqb_refl.
  - destruct (x =? w) eqn:Hxw; auto. apply N.eqb_eq in Hxw; subst.
    exfalso; apply Hx. apply in_map_iff. exists (w, a); auto.
Qed.

Lemma assoc_Some_In_fst : forall (w : N) (l : list (N * A)) a, assoc w l = Some a -> In w (map fst l).
Proof. intros w l a H. apply assoc_In in H. apply in_map_iff. exists (w, a); auto. Qed.
End Assoc.

Lemma In_filter_map : forall {A B} (f : A -> option B) (l : list A) b,
  In b (filter_map f l) <-> exists a, In a l /\ f a = Some b.
Proof.
  induction l as [|a l IH]; intros b; cbn [filter_map In].
  - split; [contradiction | intros [? [[] _]]].
  - destruct (f a) eqn:Hf; cbn [In]; rewrite IH; split.
    + intros [->|[a' [H1 H2]]]; eauto.
    + intros [a' [[->|H1] H2]]; [left; congruence | right; eauto].
    + intros [a' [H1 H2]]; eauto.
    + intros [a' [[->|H1] H2]]; [congruence | eauto].
Qed.

Lemma filter_map_ext_in : forall {A B} (f g : A -> option B) l,
  (forall a, In a l -> f a = g a) -> filter_map f l = filter_map g l.
Proof.
  intros A B f g l. induction l as [|a l IH]; cbn [filter_map]; intros H; auto.
  rewrite (H a) by (left; auto). rewrite IH; auto. intros; apply H; right; auto.
Qed.

Lemma NoDup_map_filter : forall {A B} (f : A -> B) (g : A -> bool) l,
  NoDup (map f l) -> NoDup (map f (filter g l)).
Proof.
  induction l as [|a l IH]; cbn [map filter]; intros H; auto.
  inversion H as [|? ? Hn Hd]; subst. destruct (g a); cbn [map]; auto.
  constructor; auto. intros Hin; apply Hn. apply in_map_iff in Hin as [x [Hx Hi]].
  apply filter_In in Hi as [Hi _]. apply in_map_iff; eauto.
Qed.

Lemma firstn_In' : forall {A} n (l : list A) x, In x (firstn n l) -> In x l.
Proof.
  induction n; intros [|a l] x; cbn [firstn In]; auto; try tauto. intros [H|H]; auto.
Qed.

Lemma NoDup_map_firstn : forall {A B} (f : A -> B) n l,
  NoDup (map f l) -> NoDup (map f (firstn n l)).
Proof.
  induction n; intros [|a l]; cbn [firstn map]; intros H; auto using NoDup_nil.
  inversion H as [|? ? Hn Hd]; subst. constructor; auto.
  intros Hin; apply Hn. apply in_map_iff in Hin as [x [Hx Hi]].
  apply firstn_In' in Hi. apply in_map_iff; eauto.
Qed.

(* ------------------------------------------------------------ the export logic *)
Section Export.
Variable E : Type.
Variable max : N.
Variable vis : path -> bool.
Variable pol : bool -> N -> path -> option E.
Variable fl : list N.                 (* the live LLGR-stale flags when the change is processed *)
Hypothesis pol_acc : pol_marks_after_accept E pol.

Let aptx := negb (max =? 1).
Notation SEL := (sel E max vis pol).
Notation PC := (process_change E ByNet max aptx vis pol fl).

Definition lv (q : path) : bool := llgr_of fl q.

Definition T (p : ptx E) (base : key -> option E) (k : key) : option E :=
  match pview E p k with Some o => o | None => base k end.

Definition selfun (m : path -> bool) (net : N) (q : path) : option (N * E) :=
  match pol (m q) net q with Some e => Some (p_pid q, e) | None => None end.

Definition window (paths : list path) : list path := firstn (N.to_nat max) (filter vis paths).

Lemma sel_ap : max <> 1 -> forall m net paths,
  SEL m net paths = filter_map (selfun m net) (window paths).
Proof. intros Hm m net paths. unfold sel. apply N.eqb_neq in Hm. rewrite Hm. reflexivity. Qed.

Lemma sel_nil : forall m net, SEL m net [] = [].
Proof.
  intros; unfold sel. destruct (negb (max =? 1)); auto.
  cbn [filter]. rewrite firstn_nil. reflexivity.
Qed.

Lemma window_In : forall paths q, In q (window paths) -> In q paths.
Proof. intros paths q Hq. apply firstn_In' in Hq. apply filter_In in Hq as [Hq _]. exact Hq. Qed.

Lemma sel_In_ap : max <> 1 -> forall m net paths w e,
  In (w, e) (SEL m net paths) ->
  exists q, In q (window paths) /\ In q paths /\ p_pid q = w /\ pol (m q) net q = Some e.
Proof.
  intros Hm m net paths w e H. rewrite sel_ap in H by auto. apply In_filter_map in H as [q [Hq Hs]].
  unfold selfun in Hs. destruct (pol (m q) net q) eqn:Hp; inversion Hs; subst.
  exists q. repeat split; auto. apply window_In; auto.
Qed.

Lemma sel_fst_sub : max <> 1 -> forall m net l,
  NoDup (map p_pid l) -> NoDup (map fst (filter_map (selfun m net) l)).
Proof.
  intros Hm m net. induction l as [|q l IH]; cbn [filter_map map]; intros H; [constructor|].
  inversion H as [|? ? Hn Hd]; subst. unfold selfun at 1. destruct (pol (m q) net q) eqn:Hp; auto.
  cbn [map fst]. constructor; auto. intros Hin. apply Hn.
  apply in_map_iff in Hin as [[w e'] [Hw Hi]]. cbn [fst] in Hw; subst w.
  apply In_filter_map in Hi as [q' [Hq' Hs]]. unfold selfun in Hs.
  destruct (pol (m q') net q'); inversion Hs. apply in_map_iff. exists q'; split; auto.
Qed.

Lemma window_nodup : forall paths, NoDup (map p_pid paths) -> NoDup (map p_pid (window paths)).
Proof. intros. apply NoDup_map_firstn. apply NoDup_map_filter. auto. Qed.

Lemma sel_nodup : max <> 1 -> forall m net paths,
  NoDup (map p_pid paths) -> NoDup (map fst (SEL m net paths)).
Proof.
  intros Hm m net paths H. rewrite sel_ap by auto. apply sel_fst_sub; auto.
  apply window_nodup; auto.
Qed.

Lemma top_n_sel : max <> 1 -> forall c, top_n E max vis pol fl c = SEL lv (c_net c) (c_paths c).
Proof. intros Hm c. rewrite sel_ap by auto. reflexivity. Qed.

(* which path ids are selected does not depend on the markers *)
Lemma pol_some_indep : forall b b' net q, pol b net q <> None -> pol b' net q <> None.
Proof. intros b b' net q H H'. apply H. apply pol_acc. apply pol_acc in H'. exact H'. Qed.

Lemma selfun_fst : forall m net q x, selfun m net q = Some x -> fst x = p_pid q.
Proof. intros m net q x H. unfold selfun in H. destruct (pol (m q) net q); inversion H; reflexivity. Qed.

Lemma selfun_none : forall m m' net q, selfun m net q = None -> selfun m' net q = None.
Proof.
  intros m m' net q H. unfold selfun in *. destruct (pol (m q) net q) eqn:H1; [discriminate|].
  destruct (pol (m' q) net q) eqn:H2; auto.
  exfalso. apply (pol_some_indep (m' q) (m q) net q); [rewrite H2; discriminate | exact H1].
Qed.

Lemma selfun_pids : forall m m' net l,
  map fst (filter_map (selfun m net) l) = map fst (filter_map (selfun m' net) l).
Proof.
  intros m m' net. induction l as [|q l IH]; cbn [filter_map map]; auto.
  destruct (selfun m net q) as [x|] eqn:H1; destruct (selfun m' net q) as [y|] eqn:H2.
  - cbn [map]. rewrite (selfun_fst _ _ _ _ H1), (selfun_fst _ _ _ _ H2). f_equal. exact IH.
  - rewrite (selfun_none m' m net q H2) in H1. discriminate.
  - rewrite (selfun_none m m' net q H1) in H2. discriminate.
  - exact IH.
Qed.

Lemma sel_pids : forall m m' net paths, map fst (SEL m net paths) = map fst (SEL m' net paths).
Proof.
  intros m m' net paths. unfold sel. destruct (negb (max =? 1)).
  - apply selfun_pids.
  - destruct paths as [|b t]; auto. destruct (vis b); auto.
    destruct (pol (m b) net b) eqn:H1, (pol (m' b) net b) eqn:H2; auto.
    + exfalso. apply (pol_some_indep (m b) (m' b) net b); [rewrite H1; discriminate | exact H2].
    + exfalso. apply (pol_some_indep (m' b) (m b) net b); [rewrite H2; discriminate | exact H1].
Qed.

Lemma sel_ext : forall m m' net paths, (forall q, In q paths -> m q = m' q) ->
  SEL m net paths = SEL m' net paths.
Proof.
  intros m m' net paths H. unfold sel. destruct (negb (max =? 1)).
  - apply filter_map_ext_in. intros q Hq. unfold selfun. rewrite (H q); auto. apply window_In; auto.
  - destruct paths as [|b t]; auto. rewrite (H b) by (left; auto). reflexivity.
Qed.

Lemma sel_assoc_window : max <> 1 -> forall m net paths q e,
  NoDup (map p_pid paths) -> In q (window paths) -> pol (m q) net q = Some e ->
  assoc (p_pid q) (SEL m net paths) = Some e.
Proof.
  intros Hm m net paths q e Hnd Hq Hp. apply In_assoc_nodup.
  - apply sel_nodup; auto.
  - rewrite sel_ap by auto. apply In_filter_map. exists q. split; auto. unfold selfun. now rewrite Hp.
Qed.

Lemma aptx_true : max <> 1 -> aptx = true.
Proof. intros H. unfold aptx. apply N.eqb_neq in H. now rewrite H. Qed.

Lemma aptx_false : max = 1 -> aptx = false.
Proof. intros H. unfold aptx. subst. reflexivity. Qed.

Lemma sink_unreach_ap : max <> 1 -> forall c w p,
  sink_unreach E ByNet aptx c w (SPtx E p) = SPtx E (ptx_unreach E (c_net c, w) (c_net c) p).
Proof. intros Hm c w p. cbn [sink_unreach]. unfold pkey, kfst, wpid. now rewrite (aptx_true Hm). Qed.

Lemma sink_reach_ap : max <> 1 -> forall c w e p,
  sink_reach E ByNet aptx c w e (SPtx E p) = SPtx E (ptx_reach E (c_net c, w) (c_net c) e p).
Proof. intros Hm c w e p. cbn [sink_reach]. unfold pkey, kfst, wpid. now rewrite (aptx_true Hm). Qed.

Lemma sink_unreach_plain : max = 1 -> forall c w p,
  sink_unreach E ByNet aptx c w (SPtx E p) = SPtx E (ptx_unreach E (c_net c, 0) (c_net c) p).
Proof. intros Hm c w p. cbn [sink_unreach]. unfold pkey, kfst, wpid. now rewrite (aptx_false Hm). Qed.

Lemma sink_reach_plain : max = 1 -> forall c w e p,
  sink_reach E ByNet aptx c w e (SPtx E p) = SPtx E (ptx_reach E (c_net c, 0) (c_net c) e p).
Proof. intros Hm c w e p. cbn [sink_reach]. unfold pkey, kfst, wpid. now rewrite (aptx_false Hm). Qed.

Definition f1 (c : change) : emap * sink E -> N -> emap * sink E :=
  fun s i => (em_del (c_id c, i) (fst s), sink_unreach E ByNet aptx c i (snd s)).

Definition f2 (c : change) : emap * sink E -> N * E -> emap * sink E :=
  fun s x => let '(i, e) := x in
             if negb (memK (c_id c, i) (fst s)) || opt_eqb (c_repl c) i
             then (em_add (c_id c, i) (fst s), sink_reach E ByNet aptx c i e (snd s))
             else s.

Lemma proc_ap_eq : forall c st,
  proc_ap E ByNet max aptx vis pol fl c st =
  if negb (c_ac c) then st else
  fold_left (f2 c) (top_n E max vis pol fl c)
    (fold_left (f1 c)
       (filter (fun i => negb (memN i (map fst (top_n E max vis pol fl c)))) (em_ids (c_id c) (fst st)))
       st).
Proof. reflexivity. Qed.

(* phase 1 of the add-path branch: withdraw what is no longer in the window *)
Lemma phase1 : max <> 1 -> forall (c : change) (gone : list N) (em : emap) (p : ptx E),
  let r := fold_left (f1 c) gone (em, SPtx E p) in
  exists p', snd r = SPtx E p' /\
    (forall k, In k (fst r) <-> In k em /\ ~ (fst k = c_id c /\ In (snd k) gone)) /\
    (forall k, pview E p' k =
               if (fst k =? c_net c) && memN (snd k) gone then Some None else pview E p k) /\
    (coherent E p -> coherent E p').
Proof.
  intros Hm c. unfold f1. induction gone as [|w gone IH]; intros em p; cbn [fold_left].
  - exists p. split; [reflexivity|]. split; [|split]; auto.
    + intros k. cbn [fst In]. tauto.
    + intros k. unfold memN; cbn [existsb]. now rewrite andb_false_r.
  - cbn [fst snd]. rewrite (sink_unreach_ap Hm).
    destruct (IH (em_del (c_id c, w) em) (ptx_unreach E (c_net c, w) (c_net c) p))
      as [p' [Hs [He [Hp Hc]]]].
    exists p'. split; [exact Hs|]. split; [|split].
    + intros k. rewrite He, In_em_del. cbn [In]. destruct k as [a b]; cbn [fst snd].
      split.
      * intros [[H1 H2] H3]. split; auto. intros [Ha [Hb|Hb]]; subst.
        -- apply H2; reflexivity.
        -- apply H3; auto.
      * intros [H1 H2]. split; [split; auto|].
        -- intros Heq; inversion Heq; subst. apply H2; auto.
        -- intros [Ha Hb]; apply H2; auto.
    + intros k. rewrite Hp, pview_unreach. unfold memN; cbn [existsb]. fold (memN (snd k) gone).
      unfold key_eqb; cbn [fst snd].
      destruct (fst k =? c_net c); cbn [andb]; auto.
      destruct (memN (snd k) gone); cbn [orb].
      * now rewrite orb_true_r.
      * rewrite orb_false_r. rewrite (N.eqb_sym (snd k) w). destruct (w =? snd k); auto.
    + intros Hcoh. apply Hc. apply (coherent_unreach E p (c_net c, w)). exact Hcoh.
Qed.

(* phase 2: announce what is new in the window, or replaced *)
Lemma phase2 : max <> 1 -> forall (c : change) (top : list (N * E)) (em : emap) (p : ptx E),
  NoDup (map fst top) ->
  let r := fold_left (f2 c) top (em, SPtx E p) in
  exists p', snd r = SPtx E p' /\
    (forall k, In k (fst r) <-> In k em \/ (fst k = c_id c /\ In (snd k) (map fst top))) /\
    (forall k, pview E p' k =
               if fst k =? c_net c then
                 match assoc (snd k) top with
                 | Some e => if negb (memK (c_id c, snd k) em) || opt_eqb (c_repl c) (snd k)
                             then Some (Some e) else pview E p k
                 | None => pview E p k
                 end
               else pview E p k) /\
    (coherent E p -> coherent E p').
Proof.
  intros Hm c. unfold f2. induction top as [|[w e] top IH]; intros em p Hnd; cbn [fold_left].
  - exists p. split; [reflexivity|]. split; [|split]; auto.
    + intros k. cbn [fst map In]. tauto.
    + intros k. cbn [assoc]. now destruct (fst k =? c_net c).
  - cbn [map fst] in Hnd. inversion Hnd as [|? ? Hw Hnd']; subst.
    cbn [fst snd].
    set (b := negb (memK (c_id c, w) em) || opt_eqb (c_repl c) w).
    assert (Hmem : forall w', w' <> w ->
              memK (c_id c, w') (if b then em_add (c_id c, w) em else em) = memK (c_id c, w') em).
    { intros w' Hne. destruct b; auto.
      destruct (memK (c_id c, w') em) eqn:H1.
      - apply memK_In. apply In_em_add. left. apply memK_In; auto.
      - destruct (memK (c_id c, w') (em_add (c_id c, w) em)) eqn:H2; auto.
        apply memK_In in H2. apply In_em_add in H2 as [H2|H2].
        + apply memK_In in H2; congruence.
        + inversion H2; congruence. }
    destruct b eqn:Hb.
    + rewrite (sink_reach_ap Hm).
      destruct (IH (em_add (c_id c, w) em) (ptx_reach E (c_net c, w) (c_net c) e p) Hnd')
        as [p' [Hs [He [Hp Hc]]]].
      exists p'. split; [exact Hs|]. split; [|split].
      * intros k. rewrite He, In_em_add. cbn [map fst In]. destruct k as [a b']; cbn [fst snd].
        split.
        -- intros [[H|H]|[H1 H2]]; auto. inversion H; subst; auto.
        -- intros [H|[H1 [H2|H2]]]; auto. subst; auto.
      * intros k. rewrite Hp, pview_reach. unfold key_eqb; cbn [fst snd assoc].
        destruct (fst k =? c_net c) eqn:Hn; cbn [andb]; auto.
        destruct (w =? snd k) eqn:Hws.
        -- apply N.eqb_eq in Hws; subst w.
           assert (Ha : assoc (snd k) top = None) by (apply assoc_None; auto).
           rewrite Ha, N.eqb_refl. fold b. rewrite Hb. reflexivity.
        -- rewrite (N.eqb_sym (snd k) w), Hws.
           apply N.eqb_neq in Hws.
           rewrite (Hmem (snd k)) by auto. reflexivity.
      * intros Hcoh. apply Hc. apply (coherent_reach E p (c_net c, w)). exact Hcoh.
    + destruct (IH em p Hnd') as [p' [Hs [He [Hp Hc]]]].
      exists p'. split; [exact Hs|]. split; [|split]; auto.
      * intros k. rewrite He. cbn [map fst In]. destruct k as [a b']; cbn [fst snd].
        split.
        -- intros [H|[H1 H2]]; auto.
        -- intros [H|[H1 [H2|H2]]]; auto. subst. left.
           unfold b in Hb. apply orb_false_iff in Hb as [Hb _].
           apply negb_false_iff in Hb. apply memK_In; auto.
      * intros k. rewrite Hp. cbn [assoc].
        destruct (fst k =? c_net c) eqn:Hn; auto.
        destruct (w =? snd k) eqn:Hws; auto.
        apply N.eqb_eq in Hws; subst w.
        assert (Ha : assoc (snd k) top = None) by (apply assoc_None; auto).
        rewrite Ha. fold b. rewrite Hb. reflexivity.
Qed.


(* what the neighbour-side state must satisfy for one destination before a change of
   it is processed, and what the change must satisfy (truthful flags) *)
Record step_hyp (c : change) (old : list path) : Prop := {
  sh_ac : c_ac c = false -> c_paths c = old;
  sh_bc : c_bc c = false -> hd_error (c_paths c) = hd_error old;
  sh_nd : NoDup (map p_pid (c_paths c));
  sh_ndo : NoDup (map p_pid old);
  sh_same : forall p q, In p (c_paths c) -> In q old -> p_pid p = p_pid q ->
                        p = q \/ c_repl c = Some (p_pid p);
  sh_mark : forall q, In q (c_paths c) -> p_mark q = true -> lv q = true
}.

(* the marker a route was last sent with lies between the ghost marker of its path and
   the live flag of its source *)
Definition bnd (m : path -> bool) (l : list path) : Prop :=
  forall q, In q l -> (p_mark q = true -> m q = true) /\ (m q = true -> lv q = true).

Lemma bnd_lv : forall c old, step_hyp c old -> bnd lv (c_paths c).
Proof. intros c old Hh q Hq. split; auto. apply (sh_mark _ _ Hh); auto. Qed.

Definition post_ok (c : change) (em : emap) (p : ptx E) (base : key -> option E)
           (em' : emap) (p' : ptx E) (m' : path -> bool) : Prop :=
  (forall k, In k em' <->
             (fst k = c_id c /\ In (snd k) (map fst (SEL m' (c_net c) (c_paths c)))) \/
             (fst k <> c_id c /\ In k em)) /\
  (forall k, T p' base k = if fst k =? c_net c then assoc (snd k) (SEL m' (c_net c) (c_paths c))
                           else T p base k) /\
  (coherent E p -> coherent E p') /\
  bnd m' (c_paths c).

Lemma unchanged_ok : forall c old (em : emap) p base m m',
  SEL m' (c_net c) (c_paths c) = SEL m (c_net c) old -> bnd m' (c_paths c) ->
  (forall w, In (c_id c, w) em <-> In w (map fst (SEL m (c_net c) old))) ->
  (forall w, T p base (c_net c, w) = assoc w (SEL m (c_net c) old)) ->
  post_ok c em p base em p m'.
Proof.
  intros c old em p base m m' Hs Hb HA HB. rewrite <- Hs in HA, HB. split; [|split; [|split]]; auto.
  - intros [a b]; cbn [fst snd]. destruct (N.eq_dec a (c_id c)) as [->|Hne].
    + rewrite HA. tauto.
    + tauto.
  - intros [a b]; cbn [fst snd]. destruct (a =? c_net c) eqn:Ha; auto.
    apply N.eqb_eq in Ha; subst. apply HB.
Qed.

Lemma sel_plain : max = 1 -> forall m net paths,
  SEL m net paths = match paths with
                    | [] => []
                    | b :: _ => if vis b then match pol (m b) net b with Some e => [(0, e)] | None => [] end
                                else []
                    end.
Proof. intros Hm m net paths. unfold sel. rewrite Hm. reflexivity. Qed.

Lemma sel_plain_pid0 : max = 1 -> forall m net paths w, In w (map fst (SEL m net paths)) -> w = 0.
Proof.
  intros Hm m net paths w. rewrite sel_plain by auto.
  destruct paths as [|b t]; cbn [map In]; [tauto|].
  destruct (vis b); cbn [map In]; [|tauto].
  destruct (pol (m b) net b); cbn [map fst In]; [|tauto]. intros [H|[]]; auto.
Qed.

Lemma T_reach : forall p base k' net e k,
  T (ptx_reach E k' net e p) base k = if key_eqb k k' then Some e else T p base k.
Proof. intros. unfold T. rewrite pview_reach. destruct (key_eqb k k'); auto. Qed.

Lemma T_unreach : forall p base k' net k,
  T (ptx_unreach E k' net p) base k = if key_eqb k k' then None else T p base k.
Proof. intros. unfold T. rewrite pview_unreach. destruct (key_eqb k k'); auto. Qed.

Definition path_eqb (a b : path) : bool :=
  (p_pid a =? p_pid b) && (p_src a =? p_src b) && (p_tok a =? p_tok b) && Bool.eqb (p_mark a) (p_mark b).

Lemma path_eqb_eq : forall a b, path_eqb a b = true <-> a = b.
Proof.
  intros [a1 a2 a3 a4] [b1 b2 b3 b4]. unfold path_eqb; cbn [p_pid p_src p_tok p_mark].
  rewrite !andb_true_iff, !N.eqb_eq, Bool.eqb_true_iff. split.
  - intros [[[-> ->] ->] ->]; reflexivity.
  - intros H; inversion H; auto.
Qed.

Definition inb (q : path) (l : list path) : bool := existsb (path_eqb q) l.

Lemma inb_In : forall q l, inb q l = true <-> In q l.
Proof.
  intros q l. unfold inb. rewrite existsb_exists. split.
  - intros [x [Hx He]]. apply path_eqb_eq in He; now subst.
  - intros H. exists q; split; auto. apply path_eqb_eq; reflexivity.
Qed.

(* keep the old marker on paths that were there before, the live flag on new ones *)
Definition keep (m : path -> bool) (old : list path) : path -> bool :=
  fun q => if inb q old then m q else lv q.

Lemma bnd_keep : forall m c old, step_hyp c old -> bnd m old -> bnd (keep m old) (c_paths c).
Proof.
  intros m c old Hh Hb q Hq. unfold keep. destruct (inb q old) eqn:Hi.
  - apply inb_In in Hi. apply Hb; auto.
  - split; auto. apply (sh_mark _ _ Hh); auto.
Qed.

Lemma proc_plain_ok : max = 1 -> forall c old (em : emap) p base m,
  step_hyp c old -> bnd m old ->
  (forall w, In (c_id c, w) em <-> In w (map fst (SEL m (c_net c) old))) ->
  (forall w, T p base (c_net c, w) = assoc w (SEL m (c_net c) old)) ->
  exists p' m', snd (PC c (em, SPtx E p)) = SPtx E p' /\
                post_ok c em p base (fst (PC c (em, SPtx E p))) p' m'.
Proof.
  intros Hm c old em p base m Hh Hbm HA HB.
  assert (Hpid0 : forall w, In (c_id c, w) em -> w = 0).
  { intros w Hw. apply HA in Hw. eapply sel_plain_pid0; eauto. }
  assert (HT0 : forall w, w <> 0 -> T p base (c_net c, w) = None).
  { intros w Hw. rewrite HB. apply assoc_None. intros Hin. apply Hw. eapply sel_plain_pid0; eauto. }
  assert (Hmt : (max =? 1) = true) by (rewrite Hm; reflexivity).
  unfold process_change, ap. rewrite Hmt. cbn [negb]. unfold proc_plain.
  destruct (c_bc c) eqn:Hbc; cbn [negb].
  2:{ exists p, (keep m old). split; [reflexivity|]. cbn [fst].
      apply (unchanged_ok c old em p base m (keep m old)); auto.
      - pose proof (sh_bc _ _ Hh Hbc) as Hhd. rewrite !sel_plain by auto.
        destruct (c_paths c) as [|a ta], old as [|b tb]; cbn [hd_error] in Hhd; try discriminate; auto.
        inversion Hhd; subst b. unfold keep.
        assert (Hi : inb a (a :: tb) = true) by (apply inb_In; left; auto). rewrite Hi. reflexivity.
      - apply bnd_keep; auto. }
  set (res := match c_paths c with
              | [] => None
              | b :: _ => if vis b then pol (llgr_of fl b) (c_net c) b else None
              end).
  assert (Hsel : SEL lv (c_net c) (c_paths c) = match res with Some e => [(0, e)] | None => [] end).
  { rewrite sel_plain by auto. unfold res. destruct (c_paths c) as [|b t]; auto.
    destruct (vis b); auto. }
  pose proof (bnd_lv c old Hh) as Hbl.
  destruct res as [e|] eqn:Hres.
  - rewrite (sink_reach_plain Hm). exists (ptx_reach E (c_net c, 0) (c_net c) e p), lv.
    split; [reflexivity|]. cbn [fst].
    unfold post_ok. rewrite Hsel. split; [|split; [|split]]; auto.
    + intros [a b]; cbn [fst snd map In]. rewrite In_em_add.
      destruct (N.eq_dec a (c_id c)) as [->|Hne].
      * split.
        -- intros [H| H]; [left; split; auto; left; symmetry; eauto | inversion H; auto].
        -- intros [[_ [H|[]]]|[H _]]; [subst; auto | congruence].
      * split.
        -- intros [H|H]; [auto | inversion H; congruence].
        -- intros [[H _]|[_ H]]; [congruence | auto].
    + intros [a b]. rewrite T_reach. unfold key_eqb; cbn [fst snd assoc].
      destruct (a =? c_net c) eqn:Ha; cbn [andb]; auto.
      apply N.eqb_eq in Ha; subst a. rewrite (N.eqb_sym 0 b).
      destruct (b =? 0) eqn:Hb; auto. apply N.eqb_neq in Hb. apply HT0; auto.
    + intros Hc. apply (coherent_reach E p (c_net c, 0)); auto.
  - destruct (em_was_sent (c_id c) em) eqn:Hws.
    + rewrite (sink_unreach_plain Hm). exists (ptx_unreach E (c_net c, 0) (c_net c) p), lv.
      split; [reflexivity|]. cbn [fst].
      unfold post_ok. rewrite Hsel. split; [|split; [|split]]; auto.
      * intros [a b]; cbn [fst snd map In]. rewrite In_em_del.
        destruct (N.eq_dec a (c_id c)) as [->|Hne].
        -- split; [|tauto]. intros [H1 H2]. exfalso. apply H2. rewrite (Hpid0 _ H1). reflexivity.
        -- split; [intros [H1 _]; auto|]. intros [[H _]|[_ H]]; [congruence|].
           split; auto. intros Heq; inversion Heq; congruence.
      * intros [a b]. rewrite T_unreach. unfold key_eqb; cbn [fst snd assoc].
        destruct (a =? c_net c) eqn:Ha; cbn [andb]; auto.
        apply N.eqb_eq in Ha; subst a.
        destruct (b =? 0) eqn:Hb; auto. apply N.eqb_neq in Hb. apply HT0; auto.
      * intros Hc. apply (coherent_unreach E p (c_net c, 0)); auto.
    + exists p, lv. split; [reflexivity|]. cbn [fst].
      assert (Hno : forall w, ~ In (c_id c, w) em).
      { intros w Hw. assert (em_was_sent (c_id c) em = true) by (apply em_was_sent_spec; eauto).
        congruence. }
      unfold post_ok. rewrite Hsel. split; [|split; [|split]]; auto.
      * intros [a b]; cbn [fst snd map In].
        destruct (N.eq_dec a (c_id c)) as [->|Hne]; [|tauto].
        split; [intros H; exfalso; eapply Hno; eauto | tauto].
      * intros [a b]; cbn [fst snd assoc].
        destruct (a =? c_net c) eqn:Ha; auto. apply N.eqb_eq in Ha; subst a.
        rewrite HB. apply assoc_None. intros Hin. apply HA in Hin. eapply Hno; eauto.
Qed.

Lemma proc_ap_ok : max <> 1 -> forall c old (em : emap) p base m,
  step_hyp c old -> bnd m old ->
  (forall w, In (c_id c, w) em <-> In w (map fst (SEL m (c_net c) old))) ->
  (forall w, T p base (c_net c, w) = assoc w (SEL m (c_net c) old)) ->
  exists p' m', snd (PC c (em, SPtx E p)) = SPtx E p' /\
                post_ok c em p base (fst (PC c (em, SPtx E p))) p' m'.
Proof.
  intros Hm c old em p base m Hh Hbm HA HB.
  unfold process_change, ap. apply N.eqb_neq in Hm as Hmb. rewrite Hmb. cbn [negb].
  rewrite proc_ap_eq. destruct (c_ac c) eqn:Hac; cbn [negb].
  2:{ exists p, m. split; [reflexivity|]. cbn [fst]. apply (unchanged_ok c old em p base m m); auto.
      - rewrite (sh_ac _ _ Hh); auto.
      - rewrite (sh_ac _ _ Hh); auto. }
  rewrite (top_n_sel Hm). cbn [fst snd].
  set (top := SEL lv (c_net c) (c_paths c)).
  set (cur := map fst top).
  set (gone := filter (fun i => negb (memN i cur)) (em_ids (c_id c) em)).
  assert (Hndt : NoDup (map fst top)) by (apply sel_nodup; auto; apply (sh_nd _ _ Hh)).
  destruct (phase1 Hm c gone em p) as [p1 [Hs1 [He1 [Hp1 Hc1]]]].
  cbv zeta in Hs1, He1.
  remember (fold_left (f1 c) gone (em, SPtx E p)) as st1 eqn:Hst1def.
  clear Hst1def. destruct st1 as [em1 sk1]. cbn [fst snd] in Hs1, He1. subst sk1.
  destruct (phase2 Hm c top em1 p1 Hndt) as [p2 [Hs2 [He2 [Hp2 Hc2]]]].
  cbv zeta in Hs2, He2.
  (* the marker function after this change: live for what is (re)sent now *)
  set (resent := fun w => negb (memK (c_id c, w) em1) || opt_eqb (c_repl c) w).
  set (m' := fun q => if resent (p_pid q) then lv q else m q).
  exists p2, m'. split; [exact Hs2|].
  assert (Hgone : forall w, In w gone <-> In (c_id c, w) em /\ ~ In w cur).
  { intros w. unfold gone. rewrite filter_In, In_em_ids, negb_true_iff, memN_false. tauto. }
  (* a path that is not re-sent was in the old list, unchanged *)
  assert (Hkept : forall q, In q (c_paths c) -> resent (p_pid q) = false -> In q old).
  { intros q Hq Hr. unfold resent in Hr. apply orb_false_iff in Hr as [Hin Hrep].
    apply negb_false_iff in Hin. apply memK_In in Hin. apply He1 in Hin as [Hin _].
    apply HA in Hin. apply in_map_iff in Hin as [[w e'] [Hw Hin']]. cbn [fst] in Hw; subst w.
    destruct (sel_In_ap Hm _ _ _ _ _ Hin') as [q' [_ [Hq' [Hqp' _]]]].
    destruct (sh_same _ _ Hh q q' Hq Hq') as [Heq|Hr]; [congruence | subst; auto |].
    rewrite Hr in Hrep. cbn [opt_eqb] in Hrep. rewrite N.eqb_refl in Hrep. discriminate. }
  assert (Hpids : map fst (SEL m' (c_net c) (c_paths c)) = cur) by (apply sel_pids).
  unfold post_ok. split; [|split; [|split]].
  - intros [a b]. rewrite He2, He1, Hpids. cbn [fst snd]. fold cur.
    destruct (N.eq_dec a (c_id c)) as [->|Hne].
    + split.
      * intros [[H1 H2]|[_ H]]; auto. left; split; auto.
        destruct (in_dec N.eq_dec b cur) as [Hi|Hi]; auto.
        exfalso; apply H2; split; auto. apply Hgone; auto.
      * intros [[_ H]|[H _]]; [auto | congruence].
    + split.
      * intros [[H1 _]|[H _]]; [auto | congruence].
      * intros [[H _]|[_ H]]; [congruence|]. left; split; auto. intros [H' _]; congruence.
  - intros [a b]. unfold T at 1. rewrite Hp2. cbn [fst snd].
    destruct (a =? c_net c) eqn:Ha.
    2:{ rewrite Hp1. cbn [fst]. rewrite Ha. cbn [andb]. reflexivity. }
    apply N.eqb_eq in Ha; subst a.
    assert (Hp1b : pview E p1 (c_net c, b) = if memN b gone then Some None else pview E p (c_net c, b)).
    { rewrite Hp1. cbn [fst snd]. now rewrite N.eqb_refl. }
    destruct (assoc b top) as [e|] eqn:Hab.
    + apply assoc_In in Hab as Habi. unfold top in Habi.
      destruct (sel_In_ap Hm _ _ _ _ _ Habi) as [q [Hqw [Hq [Hqp Hqe]]]]. subst b.
      fold (resent (p_pid q)).
      destruct (resent (p_pid q)) eqn:Hcond.
      * symmetry. apply sel_assoc_window; auto; [apply (sh_nd _ _ Hh)|].
        unfold m'. rewrite Hcond. exact Hqe.
      * pose proof (Hkept q Hq Hcond) as Hqo.
        unfold resent in Hcond. apply orb_false_iff in Hcond as [Hin Hrep].
        apply negb_false_iff in Hin. apply memK_In in Hin. apply He1 in Hin as [Hin Hng].
        cbn [fst snd] in Hng. rewrite Hp1b.
        assert (Hnb : memN (p_pid q) gone = false).
        { apply memN_false. intros Hg. apply Hng; auto. }
        rewrite Hnb. fold (T p base (c_net c, p_pid q)). rewrite HB.
        (* same record in the old list: same marker, same payload *)
        pose proof Hin as Hin0. apply HA in Hin. apply in_map_iff in Hin as [[w e'] [Hw Hin']]. cbn [fst] in Hw; subst w.
        destruct (sel_In_ap Hm _ _ _ _ _ Hin') as [q' [Hqw' [Hq' [Hqp' Hqe']]]].
        destruct (sh_same _ _ Hh q q' Hq Hq') as [Heq|Hr]; [congruence | |].
        -- subst q'.
           rewrite (In_assoc_nodup _ _ _ (sel_nodup Hm m _ _ (sh_ndo _ _ Hh)) Hin').
           symmetry. apply sel_assoc_window; auto; [apply (sh_nd _ _ Hh)|].
           unfold m'. fold (resent (p_pid q)).
           assert (Hrs : resent (p_pid q) = false).
           { unfold resent. apply orb_false_iff. split; [|exact Hrep]. apply negb_false_iff.
             apply memK_In. apply He1. split; [exact Hin0 | exact Hng]. }
           rewrite Hrs. exact Hqe'.
        -- rewrite Hr in Hrep. cbn [opt_eqb] in Hrep. rewrite N.eqb_refl in Hrep. discriminate.
    + assert (Hnone : assoc b (SEL m' (c_net c) (c_paths c)) = None).
      { apply assoc_None. rewrite Hpids. apply assoc_None in Hab. exact Hab. }
      rewrite Hnone. rewrite Hp1b. destruct (memN b gone) eqn:Hg; auto.
      fold (T p base (c_net c, b)). rewrite HB.
      apply assoc_None. intros Hin. apply HA in Hin.
      apply memN_false in Hg. apply Hg. apply Hgone. split; auto.
      apply assoc_None in Hab. exact Hab.
  - intros Hc. apply Hc2. apply Hc1. exact Hc.
  - intros q Hq. unfold m'. destruct (resent (p_pid q)) eqn:Hr.
    + apply (bnd_lv c old Hh); auto.
    + apply Hbm. apply Hkept; auto.
Qed.

Lemma proc_ok : forall c old (em : emap) p base m,
  step_hyp c old -> bnd m old ->
  (forall w, In (c_id c, w) em <-> In w (map fst (SEL m (c_net c) old))) ->
  (forall w, T p base (c_net c, w) = assoc w (SEL m (c_net c) old)) ->
  exists p' m', snd (PC c (em, SPtx E p)) = SPtx E p' /\
                post_ok c em p base (fst (PC c (em, SPtx E p))) p' m'.
Proof.
  intros c old em p base m Hh Hb HA HB.
  destruct (N.eq_dec max 1); [apply (proc_plain_ok e c old em p base m) | apply (proc_ap_ok n c old em p base m)]; auto.
Qed.

End Export.

(* ------------------------------------------------------------ the abstract RIB *)
Lemma filter_length_succ_le : forall n used,
  le (length (filter (fun x => N.succ n <=? x) used)) (length (filter (fun x => n <=? x) used)).
Proof.
  intros n. induction used as [|x u IH]; cbn [filter length]; auto.
  destruct (N.succ n <=? x) eqn:H1, (n <=? x) eqn:H2; cbn [length]; lia.
Qed.

Lemma filter_length_succ_lt : forall n used, In n used ->
  lt (length (filter (fun x => N.succ n <=? x) used)) (length (filter (fun x => n <=? x) used)).
Proof.
  intros n. induction used as [|x u IH]; cbn [filter length In]; [tauto|].
  intros [->|Hin].
  - assert (H1 : (N.succ n <=? n) = false) by lia. assert (H2 : (n <=? n) = true) by lia.
    rewrite H1, H2. cbn [length]. pose proof (filter_length_succ_le n u). lia.
  - specialize (IH Hin). destruct (N.succ n <=? x) eqn:H1, (n <=? x) eqn:H2; cbn [length]; lia.
Qed.

Lemma lowest_free_fresh : forall fuel n used,
  le (length (filter (fun x => n <=? x) used)) fuel -> ~ In (lowest_free fuel n used) used.
Proof.
  induction fuel as [|f IH]; intros n used Hlen; cbn [lowest_free].
  - intros Hin. assert (Hf : In n (filter (fun x => n <=? x) used)).
    { apply filter_In; split; auto. lia. }
    destruct (filter (fun x => n <=? x) used); [contradiction | cbn [length] in Hlen; lia].
  - destruct (memN n used) eqn:Hm.
    + apply IH. apply memN_In in Hm. pose proof (filter_length_succ_lt n used Hm). lia.
    + apply memN_false; auto.
Qed.

Lemma filter_length_le' : forall {A} (f : A -> bool) l, le (length (filter f l)) (length l).
Proof. induction l as [|a l IH]; cbn [filter length]; auto. destruct (f a); cbn [length]; lia. Qed.

Lemma alloc_fresh : forall used, ~ In (alloc used) used.
Proof. intros. apply lowest_free_fresh. apply filter_length_le'. Qed.

Lemma NoDup_app_one : forall {A} (l : list A) x, NoDup l -> ~ In x l -> NoDup (l ++ [x]).
Proof.
  induction l as [|a l IH]; cbn [app]; intros x Hnd Hx.
  - constructor; auto.
  - inversion Hnd; subst. constructor.
    + rewrite in_app_iff. cbn [In]. intros [H|[H|[]]]; auto. subst. apply Hx; left; auto.
    + apply IH; auto. intros H; apply Hx; right; auto.
Qed.

Definition wf (L : rib) : Prop :=
  NoDup (map d_net L) /\ NoDup (map d_id L) /\ forall d, In d L -> NoDup (map p_pid (d_paths d)).

Lemma rfind_Some : forall net L d, rfind net L = Some d -> In d L /\ d_net d = net.
Proof.
  induction L as [|x L IH]; cbn [rfind]; intros d H; [discriminate|].
  destruct (d_net x =? net) eqn:Hx.
  - inversion H; subst. apply N.eqb_eq in Hx. split; auto. left; auto.
  - destruct (IH _ H); split; auto. right; auto.
Qed.

Lemma rfind_None : forall net L, rfind net L = None -> ~ In net (map d_net L).
Proof.
  induction L as [|x L IH]; cbn [rfind map In]; intros H; [tauto|].
  destruct (d_net x =? net) eqn:Hx; [discriminate|]. apply N.eqb_neq in Hx.
  intros [H1|H1]; auto. apply IH; auto.
Qed.

Lemma rfind_In : forall L d, NoDup (map d_net L) -> In d L -> rfind (d_net d) L = Some d.
Proof.
  induction L as [|x L IH]; cbn [rfind map In]; intros d Hnd Hin; [contradiction|].
  inversion Hnd as [|? ? Hn Hd]; subst. destruct Hin as [->|Hin].
  - now rewrite N.eqb_refl.
  - destruct (d_net x =? d_net d) eqn:Hx; auto.
    apply N.eqb_eq in Hx. exfalso; apply Hn. rewrite Hx. apply in_map; auto.
Qed.

Lemma In_same_id : forall L d d', NoDup (map d_id L) -> In d L -> In d' L -> d_id d = d_id d' -> d = d'.
Proof.
  induction L as [|x L IH]; cbn [map In]; intros d d' Hnd H1 H2 He; [contradiction|].
  inversion Hnd as [|? ? Hn Hd]; subst.
  destruct H1 as [->|H1], H2 as [->|H2]; auto.
  - exfalso; apply Hn. rewrite He. apply in_map; auto.
  - exfalso; apply Hn. rewrite <- He. apply in_map; auto.
Qed.

Lemma rfind_app : forall net L L',
  rfind net (L ++ L') = match rfind net L with Some d => Some d | None => rfind net L' end.
Proof.
  induction L as [|x L IH]; intros; cbn [app rfind]; auto. destruct (d_net x =? net); auto.
Qed.

Lemma rfind_rupdate : forall n net paths L,
  rfind n (rupdate net paths L) =
  if n =? net then match rfind net L with
                   | Some d => Some {| d_net := net; d_id := d_id d; d_paths := paths |}
                   | None => None end
  else rfind n L.
Proof.
  induction L as [|x L IH]; cbn [rupdate rfind].
  - now destruct (n =? net).
  - destruct (d_net x =? net) eqn:Hx; cbn [rfind d_net].
    + apply N.eqb_eq in Hx. destruct (n =? net) eqn:Hn.
      * apply N.eqb_eq in Hn; subst n. now rewrite N.eqb_refl.
      * rewrite Hx. rewrite (N.eqb_sym net n), Hn. reflexivity.
    + rewrite IH. destruct (n =? net) eqn:Hn.
      * apply N.eqb_eq in Hn; subst n. rewrite Hx. reflexivity.
      * reflexivity.
Qed.

Lemma rfind_rfree : forall n net L, rfind n (rfree net L) = if n =? net then None else rfind n L.
Proof.
  induction L as [|x L IH]; cbn [rfree filter rfind].
  - now destruct (n =? net).
  - fold (rfree net L). destruct (d_net x =? net) eqn:Hx; cbn [negb rfind].
    + rewrite IH. apply N.eqb_eq in Hx. destruct (n =? net) eqn:Hn; auto.
      rewrite Hx, (N.eqb_sym net n), Hn. reflexivity.
    + rewrite IH. destruct (n =? net) eqn:Hn; auto.
      apply N.eqb_eq in Hn; subst n. now rewrite Hx.
Qed.

Lemma map_net_rupdate : forall net paths L, map d_net (rupdate net paths L) = map d_net L.
Proof.
  induction L as [|x L IH]; cbn [rupdate map]; auto.
  destruct (d_net x =? net) eqn:Hx; cbn [map d_net]; [|now rewrite IH].
  apply N.eqb_eq in Hx. now rewrite Hx.
Qed.

Lemma map_id_rupdate : forall net paths L, map d_id (rupdate net paths L) = map d_id L.
Proof.
  induction L as [|x L IH]; cbn [rupdate map]; auto.
  destruct (d_net x =? net); cbn [map d_id]; [reflexivity | now rewrite IH].
Qed.

Lemma In_rupdate_iff : forall net paths L d0 d,
  NoDup (map d_net L) -> rfind net L = Some d0 ->
  (In d (rupdate net paths L) <->
   (In d L /\ d_net d <> net) \/ d = {| d_net := net; d_id := d_id d0; d_paths := paths |}).
Proof.
  induction L as [|x L IH]; cbn [rupdate rfind map In]; intros d0 d Hnd Hf; [discriminate|].
  inversion Hnd as [|? ? Hn Hd]; subst.
  destruct (d_net x =? net) eqn:Hx.
  - inversion Hf; subst x. apply N.eqb_eq in Hx. cbn [In].
    assert (Ht : forall y, In y L -> d_net y <> net).
    { intros y Hy He. apply Hn. rewrite Hx, <- He. apply in_map; auto. }
    split.
    + intros [H|H]; [right; auto | left; split; auto].
    + intros [[[H|H] Hne]|H]; [subst; contradiction | right; auto | left; auto].
  - cbn [In]. apply N.eqb_neq in Hx. rewrite (IH d0 d Hd Hf). split.
    + intros [H|[[H1 H2]|H]]; [subst; left; split; auto | left; split; auto | right; auto].
    + intros [[[H|H] Hne]|H]; [left; auto | right; left; auto | right; right; auto].
Qed.

Lemma In_rfree : forall net L d, In d (rfree net L) <-> In d L /\ d_net d <> net.
Proof.
  intros. unfold rfree. rewrite filter_In, negb_true_iff, N.eqb_neq. tauto.
Qed.

Lemma wf_nil : wf [].
Proof. split; [constructor|split; [constructor|intros ? []]]. Qed.

Lemma wf_rset : forall net paths L, wf L -> NoDup (map p_pid paths) -> wf (fst (rset net paths L)).
Proof.
  intros net paths L [H1 [H2 H3]] Hp. unfold rset. destruct (rfind net L) as [d0|] eqn:Hf; cbn [fst].
  - split; [now rewrite map_net_rupdate|]. split; [now rewrite map_id_rupdate|].
    intros d Hd. apply (In_rupdate_iff net paths L d0 d H1 Hf) in Hd as [[Hd _]|Hd]; auto.
    subst d; auto.
  - split; [|split].
    + rewrite map_app. cbn [map d_net]. apply NoDup_app_one; auto. apply rfind_None; auto.
    + rewrite map_app. cbn [map d_id]. apply NoDup_app_one; auto. apply alloc_fresh.
    + intros d Hd. apply in_app_or in Hd as [Hd|[Hd|[]]]; auto. subst d; auto.
Qed.

Lemma wf_rfree : forall net L, wf L -> wf (rfree net L).
Proof.
  intros net L [H1 [H2 H3]]. unfold rfree. split; [|split].
  - apply NoDup_map_filter; auto.
  - apply NoDup_map_filter; auto.
  - intros d Hd. apply filter_In in Hd as [Hd _]. auto.
Qed.

(* ------------------------------------------------------------ the neighbour against a RIB *)
Section Inv.
Variable E : Type.
Variable max : N.
Variable vis : path -> bool.
Variable pol : bool -> N -> path -> option E.
Hypothesis pol_acc : pol_marks_after_accept E pol.

Let aptx := negb (max =? 1).
Notation SEL := (sel E max vis pol).
Notation FRESH := (fresh_at E max vis pol).
Notation PC := (process_change E ByNet max aptx vis pol).
Notation TT := (T E).

Definition m0 : path -> bool := fun _ => false.

Definition contrib (d : dest) (k : key) : Prop :=
  d_id d = fst k /\ In (snd k) (map fst (SEL m0 (d_net d) (d_paths d))).

Definition emap_ok (L : rib) (em : emap) : Prop :=
  forall k, In k em <-> exists d, In d L /\ contrib d k.

(* per prefix and path: the marker the route was last sent with *)
Definition bnd_rib (fl : list N) (L : rib) (m : N -> path -> bool) : Prop :=
  forall d, In d L -> bnd fl (m (d_net d)) (d_paths d).

Definition pend_ok (fl : list N) (L : rib) (p : ptx E) (base : key -> option E) : Prop :=
  exists m, bnd_rib fl L m /\ forall k, TT p base k = FRESH m L k.

Definition mkc (net i : N) (bc ac : bool) (repl : option N) (paths : list path) : change :=
  {| c_net := net; c_id := i; c_bc := bc; c_ac := ac; c_repl := repl; c_paths := paths |}.

(* a RIB operation that emits a change / that emits none *)
Inductive emit (fl : list N) : rib -> change -> rib -> Prop :=
| emit_set : forall L net bc ac repl paths,
    truthful_set fl L (net, bc, ac, repl, paths) ->
    emit fl L (mkc net (snd (rset net paths L)) bc ac repl paths) (fst (rset net paths L))
| emit_free : forall L net d,
    rfind net L = Some d ->
    emit fl L (mkc net (d_id d) true true None []) (rfree net L).

Inductive silent : rib -> rib -> Prop :=
| silent_touch : forall L net, rfind net L = None -> silent L (fst (rset net [] L))
| silent_free : forall L net, old_paths net L = [] -> silent L (rfree net L).

Lemma memN_sub : forall (fl fl' : list N) x, (forall y, In y fl -> In y fl') ->
  memN x fl = true -> memN x fl' = true.
Proof. intros fl fl' x H Hm. apply memN_In. apply H. apply memN_In. exact Hm. Qed.

Lemma emit_mono : forall fl fl' L c L', (forall y, In y fl -> In y fl') ->
  emit fl L c L' -> emit fl' L c L'.
Proof.
  intros fl fl' L c L' Hsub He. destruct He as [L net bc ac repl paths Ht | L net d Hf].
  - apply emit_set. destruct Ht as [H1 [H2 [H3 [H4 H5]]]]. repeat split; auto.
    intros q Hq Hmk. eapply memN_sub; eauto.
  - apply emit_free; auto.
Qed.

Lemma bnd_mono : forall fl fl' m l, (forall y, In y fl -> In y fl') -> bnd fl m l -> bnd fl' m l.
Proof.
  intros fl fl' m l Hsub Hb q Hq. destruct (Hb q Hq) as [H1 H2]. split; auto.
  intros Hm. unfold lv, llgr_of in *. eapply memN_sub; eauto.
Qed.

Lemma fresh_old : forall m L net w, FRESH m L (net, w) = assoc w (SEL (m net) net (old_paths net L)).
Proof.
  intros. unfold fresh_at, old_paths. cbn [fst snd]. destruct (rfind net L); auto.
  rewrite sel_nil. reflexivity.
Qed.

Record emit_ok (fl : list N) (L : rib) (c : change) (L' : rib) : Prop := {
  eo_wf : wf L';
  eo_hyp : step_hyp fl c (old_paths (c_net c) L);
  eo_old : forall w, (exists d, In d L /\ contrib d (c_id c, w)) <->
                     In w (map fst (SEL m0 (c_net c) (old_paths (c_net c) L)));
  eo_fresh : forall m k, FRESH m L' k = if fst k =? c_net c
                                        then assoc (snd k) (SEL (m (c_net c)) (c_net c) (c_paths c))
                                        else FRESH m L k;
  eo_contrib : forall k, (exists d, In d L' /\ contrib d k) <->
                         (fst k = c_id c /\ In (snd k) (map fst (SEL m0 (c_net c) (c_paths c)))) \/
                         (fst k <> c_id c /\ exists d, In d L /\ contrib d k);
  eo_paths : forall d, In d L' -> (d_net d = c_net c /\ d_paths d = c_paths c) \/
                                  (d_net d <> c_net c /\ In d L);
  eo_oldin : forall d, In d L -> d_net d = c_net c -> d_paths d = old_paths (c_net c) L
}.

Lemma old_of_found : forall L net d0 w, wf L -> rfind net L = Some d0 ->
  ((exists d, In d L /\ contrib d (d_id d0, w)) <-> In w (map fst (SEL m0 net (old_paths net L)))).
Proof.
  intros L net d0 w [H1 [H2 H3]] Hf. unfold old_paths. rewrite Hf.
  destruct (rfind_Some _ _ _ Hf) as [Hin Hnet]. split.
  - intros [d [Hd [Hi Hc]]]. cbn [fst snd] in *.
    assert (d = d0) by (eapply In_same_id; eauto). subst d. now rewrite <- Hnet.
  - intros Hw. exists d0. split; auto. split; cbn [fst snd]; auto. now rewrite Hnet.
Qed.

Lemma other_net : forall L net d0 d, wf L -> rfind net L = Some d0 -> In d L ->
  (d_id d <> d_id d0 <-> d_net d <> net).
Proof.
  intros L net d0 d [H1 [H2 H3]] Hf Hd. destruct (rfind_Some _ _ _ Hf) as [Hin Hnet]. split.
  - intros Hne He. apply Hne. rewrite <- He in Hf. rewrite (rfind_In L d H1 Hd) in Hf.
    inversion Hf; auto.
  - intros Hne He. apply Hne. assert (d = d0) by (eapply In_same_id; eauto). now subst.
Qed.

Lemma oldin : forall L net d, wf L -> In d L -> d_net d = net -> d_paths d = old_paths net L.
Proof.
  intros L net d [H1 _] Hd Hn. unfold old_paths. rewrite <- Hn. now rewrite (rfind_In L d H1 Hd).
Qed.

Lemma emit_emit_ok : forall fl L c L', wf L -> emit fl L c L' -> emit_ok fl L c L'.
Proof.
  intros fl L c L' Hwf Hem. pose proof Hwf as [Hw1 [Hw2 Hw3]].
  destruct Hem as [L net bc ac repl paths [Hac [Hbc [Hnd [Hsame Hmk]]]] | L net d0 Hf].
  - (* RibSet *)
    unfold mkc. unfold rset. destruct (rfind net L) as [d0|] eqn:Hf; cbn [fst snd].
    + destruct (rfind_Some _ _ _ Hf) as [Hin0 Hnet0].
      constructor; cbn [c_net c_id c_paths c_ac c_bc c_repl].
      * pose proof (wf_rset net paths L Hwf Hnd) as H. unfold rset in H. now rewrite Hf in H.
      * constructor; cbn [c_net c_id c_paths c_ac c_bc c_repl]; auto.
        unfold old_paths; rewrite Hf. auto.
      * intros w. apply old_of_found; auto.
      * intros m [a b]. unfold fresh_at at 1. cbn [fst snd]. rewrite rfind_rupdate, Hf.
        destruct (a =? net) eqn:Ha; auto. apply N.eqb_eq in Ha; subst a. reflexivity.
      * intros k. split.
        -- intros [d [Hd Hc]]. apply (In_rupdate_iff net paths L d0 d Hw1 Hf) in Hd as [[Hd Hne]|Hd].
           ++ right. split; [|eauto]. destruct Hc as [Hi _]. rewrite <- Hi.
              apply (other_net L net d0 d); auto.
           ++ subst d. destruct Hc as [Hi Hc]. cbn [d_id d_net d_paths] in *. left; auto.
        -- intros [[Hi Hc]|[Hne [d [Hd [Hi Hc]]]]].
           ++ exists {| d_net := net; d_id := d_id d0; d_paths := paths |}. split.
              ** apply (In_rupdate_iff net paths L d0 _ Hw1 Hf). right; reflexivity.
              ** split; cbn [d_id d_net d_paths]; auto.
           ++ exists d. split; [|split; auto].
              apply (In_rupdate_iff net paths L d0 d Hw1 Hf). left. split; auto.
              apply (other_net L net d0 d); auto. congruence.
      * intros d Hd. apply (In_rupdate_iff net paths L d0 d Hw1 Hf) in Hd as [[Hd Hne]|Hd]; auto.
        subst d. left; auto.
      * intros d Hd Hn. apply oldin; auto.
    + assert (Hfr : ~ In (alloc (rused L)) (map d_id L)) by apply alloc_fresh.
      set (dn := {| d_net := net; d_id := alloc (rused L); d_paths := paths |}).
      constructor; cbn [c_net c_id c_paths c_ac c_bc c_repl].
      * pose proof (wf_rset net paths L Hwf Hnd) as H. unfold rset in H. now rewrite Hf in H.
      * constructor; cbn [c_net c_id c_paths c_ac c_bc c_repl]; auto.
        unfold old_paths; rewrite Hf. constructor.
      * intros w. unfold old_paths; rewrite Hf, sel_nil. cbn [map In]. split; [|tauto].
        intros [d [Hd [Hi _]]]. cbn [fst] in Hi. apply Hfr. rewrite <- Hi. apply in_map; auto.
      * intros m [a b]. unfold fresh_at. cbn [fst snd]. rewrite rfind_app. cbn [rfind d_net].
        destruct (a =? net) eqn:Ha.
        -- apply N.eqb_eq in Ha; subst a. unfold dn; cbn [d_net]. rewrite Hf, N.eqb_refl. reflexivity.
        -- unfold dn; cbn [d_net]. rewrite (N.eqb_sym net a), Ha. destruct (rfind a L); auto.
      * intros k. split.
        -- intros [d [Hd Hc]]. apply in_app_or in Hd as [Hd|[Hd|[]]].
           ++ right. split; [|eauto]. destruct Hc as [Hi _]. intros He. apply Hfr.
              rewrite <- He, <- Hi. apply in_map; auto.
           ++ subst d. destruct Hc as [Hi Hc]. cbn [d_id d_net d_paths] in *. left; auto.
        -- intros [[Hi Hc]|[Hne [d [Hd Hc]]]].
           ++ exists dn. split; [apply in_or_app; right; left; auto|].
              split; cbn [d_id d_net d_paths]; auto.
           ++ exists d. split; auto. apply in_or_app; auto.
      * intros d Hd. apply in_app_or in Hd as [Hd|[Hd|[]]].
        -- right. split; auto. intros He. apply (rfind_None _ _ Hf). rewrite <- He. apply in_map; auto.
        -- subst d. left; auto.
      * intros d Hd Hn. apply oldin; auto.
  - (* RibFree, emitted *)
    destruct (rfind_Some _ _ _ Hf) as [Hin0 Hnet0]. unfold mkc.
    constructor; cbn [c_net c_id c_paths c_ac c_bc c_repl].
    + apply wf_rfree; auto.
    + constructor; cbn [c_net c_id c_paths c_ac c_bc c_repl]; try discriminate.
      * constructor.
      * unfold old_paths; rewrite Hf. auto.
      * intros p0 q0 [].
      * intros q0 [].
    + intros w. apply old_of_found; auto.
    + intros m [a b]. unfold fresh_at at 1. cbn [fst snd]. rewrite rfind_rfree.
      destruct (a =? net) eqn:Ha; auto. rewrite sel_nil. reflexivity.
    + intros k. rewrite sel_nil. cbn [map In]. split.
      * intros [d [Hd Hc]]. apply In_rfree in Hd as [Hd Hne]. right. split; [|eauto].
        destruct Hc as [Hi _]. rewrite <- Hi. apply (other_net L net d0 d); auto.
      * intros [[_ []]|[Hne [d [Hd [Hi Hc]]]]]. exists d. split; [|split; auto].
        apply In_rfree. split; auto. apply (other_net L net d0 d); auto. congruence.
    + intros d Hd. apply In_rfree in Hd as [Hd Hne]. right; auto.
    + intros d Hd Hn. apply oldin; auto.
Qed.

(* Deliver: processing the change of an emitting RIB operation moves the neighbour-side
   invariants from the RIB before the operation to the RIB after it *)
Lemma deliver_ok : forall fl L c L' em p base,
  wf L -> emit fl L c L' -> emap_ok L em -> pend_ok fl L p base -> coherent E p ->
  exists p', snd (PC fl c (em, SPtx E p)) = SPtx E p' /\
             wf L' /\ emap_ok L' (fst (PC fl c (em, SPtx E p))) /\ pend_ok fl L' p' base /\
             coherent E p'.
Proof.
  intros fl L c L' em p base Hwf Hem Hemap [m [Hbm Hpend]] Hcoh. unfold aptx.
  destruct (emit_emit_ok fl L c L' Hwf Hem) as [Hwf' Hh Hold Hfresh Hcontrib Hpaths Holdin].
  assert (Hbo : bnd fl (m (c_net c)) (old_paths (c_net c) L)).
  { unfold old_paths. destruct (rfind (c_net c) L) as [d|] eqn:Hf; [|intros q []].
    destruct (rfind_Some _ _ _ Hf) as [Hd Hn]. rewrite <- Hn. apply Hbm; auto. }
  destruct (proc_ok E max vis pol fl pol_acc c (old_paths (c_net c) L) em p base (m (c_net c)) Hh Hbo)
    as [p' [m' [Hs [Hpe [Hpt [Hpc Hbn]]]]]].
  - intros w. rewrite (Hemap (c_id c, w)). rewrite Hold.
    rewrite (sel_pids E max vis pol pol_acc m0 (m (c_net c))). tauto.
  - intros w. rewrite (Hpend (c_net c, w)). apply fresh_old.
  - exists p'. split; [exact Hs|]. split; [exact Hwf'|]. split; [|split; auto].
    + intros k. rewrite Hpe, Hcontrib. rewrite (Hemap k).
      rewrite (sel_pids E max vis pol pol_acc m' m0). tauto.
    + exists (fun n q => if n =? c_net c then m' q else m n q). split.
      * intros d Hd. destruct (Hpaths d Hd) as [[Hn Hp]|[Hn Hdl]].
        -- rewrite Hn, N.eqb_refl, Hp. exact Hbn.
        -- apply N.eqb_neq in Hn. rewrite Hn. apply Hbm; auto.
      * intros k. rewrite Hpt, Hfresh. rewrite N.eqb_refl.
        destruct (fst k =? c_net c) eqn:Hk; auto.
        rewrite Hpend. unfold fresh_at. rewrite Hk. reflexivity.
Qed.

Lemma silent_fresh : forall m L L' k, wf L -> silent L L' -> FRESH m L' k = FRESH m L k.
Proof.
  intros m L L' k Hwf Hs. destruct Hs as [L net Hf | L net Hold].
  - unfold rset. rewrite Hf. cbn [fst]. unfold fresh_at. rewrite rfind_app.
    destruct (rfind (fst k) L); auto. cbn [rfind d_net d_paths].
    destruct (net =? fst k); auto. rewrite sel_nil. reflexivity.
  - unfold fresh_at. rewrite rfind_rfree.
    destruct (fst k =? net) eqn:Hk; auto. apply N.eqb_eq in Hk. rewrite Hk.
    unfold old_paths in Hold. destruct (rfind net L); auto. rewrite Hold, sel_nil. reflexivity.
Qed.

Lemma silent_ok : forall fl L L' em p base, wf L -> silent L L' ->
  wf L' /\ (emap_ok L em -> emap_ok L' em) /\ (pend_ok fl L p base -> pend_ok fl L' p base).
Proof.
  intros fl L L' em p base Hwf Hs. pose proof Hwf as [Hw1 [Hw2 Hw3]].
  assert (Hfr : forall m k, FRESH m L' k = FRESH m L k) by (intros; apply silent_fresh; auto).
  destruct Hs as [L net Hf | L net Hold].
  - assert (Hwf' : wf (fst (rset net [] L))) by (apply wf_rset; auto; constructor).
    unfold rset in *. rewrite Hf in *. cbn [fst] in *.
    set (dn := {| d_net := net; d_id := alloc (rused L); d_paths := [] |}) in *.
    split; [exact Hwf'|]. split.
    + intros He k. rewrite (He k). split.
      * intros [d [Hd Hc]]. exists d; split; auto. apply in_or_app; auto.
      * intros [d [Hd Hc]]. apply in_app_or in Hd as [Hd|[Hd|[]]]; eauto.
        subst d. destruct Hc as [_ Hc]. unfold dn in Hc; cbn [d_net d_paths] in Hc.
        rewrite sel_nil in Hc. destruct Hc.
    + intros [m [Hb Hp]]. exists m. split.
      * intros d Hd. apply in_app_or in Hd as [Hd|[Hd|[]]]; auto. subst d. intros q [].
      * intros k. rewrite Hfr. apply Hp.
  - split; [apply wf_rfree; auto|]. split.
    + intros He k. rewrite (He k). split.
      * intros [d [Hd Hc]]. exists d; split; auto. apply In_rfree. split; auto.
        intros Hn. unfold old_paths in Hold. rewrite <- Hn in Hold.
        rewrite (rfind_In L d Hw1 Hd) in Hold. destruct Hc as [_ Hc].
        rewrite Hold, sel_nil in Hc. destruct Hc.
      * intros [d [Hd Hc]]. apply In_rfree in Hd as [Hd _]. eauto.
    + intros [m [Hb Hp]]. exists m. split.
      * intros d Hd. apply In_rfree in Hd as [Hd _]. auto.
      * intros k. rewrite Hfr. apply Hp.
Qed.

(* the RIB now (R) is the RIB the neighbour has caught up with (L) plus the operations
   whose changes are still queued, in order; a queued refresh walk is a snapshot of the RIB
   at its place in the queue *)
Definition walk_ok (fl : list N) (L : rib) (cs : list change) : Prop :=
  forall c, In c (refresh_changes max cs) -> emit fl L c L.

Inductive Chain (fl : list N) : rib -> list event -> rib -> Prop :=
| ch_nil : forall R, Chain fl R [] R
| ch_silent : forall L L1 ch R, silent L L1 -> Chain fl L1 ch R -> Chain fl L ch R
| ch_emit : forall L c L1 ch R, emit fl L c L1 -> Chain fl L1 ch R -> Chain fl L (EvChange c :: ch) R
| ch_walk : forall L cs ch R, walk_ok fl L cs -> Chain fl L ch R -> Chain fl L (EvWalk cs :: ch) R.

Lemma chain_mono : forall fl fl' L ch R, (forall y, In y fl -> In y fl') ->
  Chain fl L ch R -> Chain fl' L ch R.
Proof.
  intros fl fl' L ch R Hsub H. induction H.
  - constructor.
  - eapply ch_silent; eauto.
  - eapply ch_emit; eauto. eapply emit_mono; eauto.
  - eapply ch_walk; eauto. intros c Hc. eapply emit_mono; eauto.
Qed.

Lemma chain_snoc_emit : forall fl L ch R c R',
  Chain fl L ch R -> emit fl R c R' -> Chain fl L (ch ++ [EvChange c]) R'.
Proof.
  intros fl L ch R c R' H He. induction H; cbn [app].
  - eapply ch_emit; eauto. constructor.
  - eapply ch_silent; eauto.
  - eapply ch_emit; eauto.
  - eapply ch_walk; eauto.
Qed.

Lemma chain_snoc_walk : forall fl L ch R cs,
  Chain fl L ch R -> walk_ok fl R cs -> Chain fl L (ch ++ [EvWalk cs]) R.
Proof.
  intros fl L ch R cs H He. induction H; cbn [app].
  - eapply ch_walk; eauto. constructor.
  - eapply ch_silent; eauto.
  - eapply ch_emit; eauto.
  - eapply ch_walk; eauto.
Qed.

Lemma chain_snoc_silent : forall fl L ch R R', Chain fl L ch R -> silent R R' -> Chain fl L ch R'.
Proof.
  intros fl L ch R R' H He. induction H.
  - eapply ch_silent; eauto. constructor.
  - eapply ch_silent; eauto.
  - eapply ch_emit; eauto.
  - eapply ch_walk; eauto.
Qed.

Lemma chain_nil_transfer : forall fl L R em p base,
  Chain fl L [] R -> wf L -> emap_ok L em -> pend_ok fl L p base ->
  wf R /\ emap_ok R em /\ pend_ok fl R p base.
Proof.
  intros fl L R em p base H. remember [] as ch eqn:Hch. induction H; intros Hwf He Hp; auto.
  - destruct (silent_ok fl L L1 em p base Hwf H) as [H1 [H2 H3]]. apply IHChain; auto.
  - discriminate.
  - discriminate.
Qed.

Lemma chain_cons_inv : forall fl L c ch R em p base,
  Chain fl L (EvChange c :: ch) R -> wf L -> emap_ok L em -> pend_ok fl L p base ->
  exists L1 L2, wf L1 /\ emap_ok L1 em /\ pend_ok fl L1 p base /\ emit fl L1 c L2 /\ Chain fl L2 ch R.
Proof.
  intros fl L c ch R em p base H. remember (EvChange c :: ch) as ch' eqn:Hch. revert c ch Hch.
  induction H; intros c0 ch0 Hch Hwf He Hp.
  - discriminate.
  - destruct (silent_ok fl L L1 em p base Hwf H) as [H1 [H2 H3]]. eapply IHChain; eauto.
  - inversion Hch; subst. exists L, L1. split; [|split; [|split; [|split]]]; auto.
  - discriminate.
Qed.

Lemma chain_walk_inv : forall fl L cs ch R em p base,
  Chain fl L (EvWalk cs :: ch) R -> wf L -> emap_ok L em -> pend_ok fl L p base ->
  exists L1, wf L1 /\ emap_ok L1 em /\ pend_ok fl L1 p base /\ walk_ok fl L1 cs /\ Chain fl L1 ch R.
Proof.
  intros fl L cs ch R em p base H. remember (EvWalk cs :: ch) as ch' eqn:Hch. revert cs ch Hch.
  induction H; intros cs0 ch0 Hch Hwf He Hp.
  - discriminate.
  - destruct (silent_ok fl L L1 em p base Hwf H) as [H1 [H2 H3]]. eapply IHChain; eauto.
  - discriminate.
  - inversion Hch; subst. exists L. split; [|split; [|split; [|split]]]; auto.
Qed.

(* per-prefix: nothing queued for a prefix => the neighbour has caught up on it *)
Lemma emit_other_net : forall fl m L c L' k,
  emit fl L c L' -> c_net c <> fst k -> FRESH m L' k = FRESH m L k.
Proof.
  intros fl m L c L' k He Hne. unfold fresh_at. destruct He as [L net bc ac repl paths _ | L net d Hf];
    cbn [c_net mkc] in Hne.
  - unfold rset. destruct (rfind net L) eqn:Hf; cbn [fst].
    + rewrite rfind_rupdate. apply N.eqb_neq in Hne. now rewrite (N.eqb_sym (fst k) net), Hne.
    + rewrite rfind_app. destruct (rfind (fst k) L); auto. cbn [rfind d_net].
      apply N.eqb_neq in Hne. now rewrite Hne.
  - rewrite rfind_rfree. apply N.eqb_neq in Hne. now rewrite (N.eqb_sym (fst k) net), Hne.
Qed.

Lemma emit_wf : forall fl L c L', wf L -> emit fl L c L' -> wf L'.
Proof. intros fl L c L' Hwf He. destruct (emit_emit_ok fl L c L' Hwf He); auto. Qed.

Lemma silent_wf : forall L L', wf L -> silent L L' -> wf L'.
Proof.
  intros L L' Hwf Hs. destruct Hs.
  - apply wf_rset; auto. constructor.
  - apply wf_rfree; auto.
Qed.

Lemma chain_fresh_other : forall fl m L ch R k,
  Chain fl L ch R -> wf L -> (forall c, In (EvChange c) ch -> c_net c <> fst k) ->
  FRESH m R k = FRESH m L k.
Proof.
  intros fl m L ch R k H. induction H; intros Hwf Hno; auto.
  - rewrite IHChain; auto.
    + apply silent_fresh; auto.
    + eapply silent_wf; eauto.
  - rewrite IHChain.
    + apply (emit_other_net fl m L c L1 k H). apply Hno; left; auto.
    + eapply emit_wf; eauto.
    + intros c' Hc'. apply Hno; right; auto.
  - apply IHChain; auto. intros c' Hc'. apply Hno; right; auto.
Qed.

(* ------------------------------------------------------------ the initial dump *)
Section Dump.
Variable fl : list N.
Definition items (d : dest) : list (N * E) := SEL (lv fl) (d_net d) (d_paths d).
Definition em_items (d : dest) : list key := map (fun x => (d_id d, fst x)) (items d).
Definition g_items (d : dest) : list (key * E) := map (fun x => ((d_net d, fst x), snd x)) (items d).

Definition snapc (d : dest) : change :=
  {| c_net := d_net d; c_id := d_id d; c_bc := true; c_ac := true; c_repl := None;
     c_paths := d_paths d |}.

Lemma em_ids_nil : forall i (em : emap), (forall w, ~ In (i, w) em) -> em_ids i em = [].
Proof.
  intros i em H. destruct (em_ids i em) as [|w l] eqn:He; auto.
  exfalso. apply (H w). apply In_em_ids. rewrite He. left; auto.
Qed.

Lemma em_add_new : forall k (em : emap), ~ In k em -> em_add k em = em ++ [k].
Proof.
  intros k em H. unfold em_add. destruct (memK k em) eqn:Hm; auto.
  apply memK_In in Hm; contradiction.
Qed.

Lemma group_fold2 : max <> 1 -> forall (c : change) (top : list (N * E)) (em : emap) g,
  NoDup (map fst top) -> (forall w, In w (map fst top) -> ~ In (c_id c, w) em) ->
  fold_left (f2 E max c) top (em, SGroup E g) =
  (em ++ map (fun x => (c_id c, fst x)) top,
   SGroup E (g ++ map (fun x => ((c_net c, fst x), snd x)) top)).
Proof.
  intros Hm c. induction top as [|[w e] top IH]; intros em g Hnd Hno; cbn [fold_left map].
  - now rewrite !app_nil_r.
  - cbn [map fst] in Hnd. inversion Hnd as [|? ? Hw Hnd']; subst.
    unfold f2 at 2. cbn [fst snd]. unfold aptx in *.
    assert (Hnw : ~ In (c_id c, w) em) by (apply Hno; left; auto).
    assert (Hmk : memK (c_id c, w) em = false).
    { destruct (memK (c_id c, w) em) eqn:Hk; auto. apply memK_In in Hk; contradiction. }
    rewrite Hmk. cbn [negb orb]. rewrite em_add_new by auto.
    cbn [sink_reach]. unfold wpid. rewrite (aptx_true max Hm).
    fold (f2 E max c). rewrite IH; auto.
    + cbn [fst snd]. now rewrite <- !app_assoc.
    + intros w' Hw' Hin. apply in_app_or in Hin as [Hin|[Hin|[]]].
      * apply (Hno w'); auto. right; auto.
      * inversion Hin; subst. contradiction.
Qed.

Lemma group_step : forall d (em : emap) g,
  (forall w, ~ In (d_id d, w) em) -> NoDup (map p_pid (d_paths d)) ->
  PC fl (snapc d) (em, SGroup E g) = (em ++ em_items d, SGroup E (g ++ g_items d)).
Proof.
  intros d em g Hno Hnd. unfold em_items, g_items, items.
  destruct (N.eq_dec max 1) as [Hm|Hm].
  - assert (Hmt : (max =? 1) = true) by (rewrite Hm; reflexivity).
    unfold process_change, ap. rewrite Hmt. cbn [negb]. unfold proc_plain.
    cbn [snapc c_bc negb c_paths c_net c_id].
    rewrite (sel_plain E max vis pol Hm (lv fl)).
    assert (Hws : em_was_sent (d_id d) em = false).
    { destruct (em_was_sent (d_id d) em) eqn:Hw; auto.
      apply em_was_sent_spec in Hw as [w Hw]. exfalso; eapply Hno; eauto. }
    destruct (d_paths d) as [|b t].
    + rewrite Hws. cbn [map]. now rewrite !app_nil_r.
    + unfold lv. destruct (vis b).
      * destruct (pol (llgr_of fl b) (d_net d) b) as [e|].
        -- cbn [map fst snd sink_reach]. unfold wpid, aptx. rewrite Hmt. cbn [negb].
           rewrite em_add_new by apply Hno. reflexivity.
        -- rewrite Hws. cbn [map]. now rewrite !app_nil_r.
      * rewrite Hws. cbn [map]. now rewrite !app_nil_r.
  - unfold process_change, ap. apply N.eqb_neq in Hm as Hmb. rewrite Hmb. cbn [negb].
    rewrite proc_ap_eq. cbn [snapc c_ac negb fst]. rewrite (top_n_sel E max vis pol fl Hm).
    cbn [c_net c_paths c_id]. rewrite em_ids_nil by auto. cbn [filter fold_left].
    rewrite (group_fold2 Hm); auto.
    apply sel_nodup; auto.
Qed.

Lemma filter_map_ext : forall {A B} (f g : A -> option B) l,
  (forall a, f a = g a) -> filter_map f l = filter_map g l.
Proof. intros A B f g l H. induction l as [|a l IH]; cbn [filter_map]; auto. now rewrite H, IH. Qed.

Lemma snapshot_unlimited : forall R,
  snapshot false max R =
  filter_map (fun d => match d_paths d with [] => None | _ => Some (snapc d) end) R.
Proof.
  intros R. unfold snapshot. apply filter_map_ext. intros d. unfold snap_paths, snapc.
  destruct (d_paths d); reflexivity.
Qed.

Lemma dump_closed : forall R (em : emap) g,
  NoDup (map d_id R) -> (forall d, In d R -> NoDup (map p_pid (d_paths d))) ->
  (forall d w, In d R -> ~ In (d_id d, w) em) ->
  fold_left (fun s c => PC fl c s)
            (filter_map (fun d => match d_paths d with [] => None | _ => Some (snapc d) end) R)
            (em, SGroup E g) =
  (em ++ flat_map em_items R, SGroup E (g ++ flat_map g_items R)).
Proof.
  induction R as [|d R IH]; intros em g Hid Hp Hno; cbn [filter_map flat_map fold_left].
  - now rewrite !app_nil_r.
  - inversion Hid as [|? ? Hd Hid']; subst.
    assert (Hnext : forall d' w, In d' R -> ~ In (d_id d', w) (em ++ em_items d)).
    { intros d' w Hd' Hin. apply in_app_or in Hin as [Hin|Hin].
      - apply (Hno d' w); auto. right; auto.
      - unfold em_items in Hin. apply in_map_iff in Hin as [x [Hx _]]. inversion Hx.
        apply Hd. rewrite H0. apply in_map; auto. }
    destruct (d_paths d) as [|b t] eqn:Hdp.
    + assert (Hi : items d = []) by (unfold items; rewrite Hdp; apply sel_nil).
      unfold em_items, g_items in *. rewrite Hi in *. cbn [map app] in *.
      rewrite app_nil_r in Hnext. apply IH; auto.
      intros; apply Hp; right; auto.
    + cbn [fold_left]. rewrite group_step.
      * rewrite IH; auto.
        -- now rewrite <- !app_assoc.
        -- intros; apply Hp; right; auto.
      * intros w. apply Hno. left; auto.
      * apply Hp. left; auto.
Qed.

Lemma seg_lookup : forall net (its : list (N * E)) m k,
  NoDup (map fst its) ->
  kfind k (mirror_reach E (map (fun x => ((net, fst x), snd x)) its) m) =
  if fst k =? net then match assoc (snd k) its with Some e => Some e | None => kfind k m end
  else kfind k m.
Proof.
  intros net. induction its as [|[w e] its IH]; intros m k Hnd; cbn [map].
  - unfold mirror_reach; cbn [fold_left assoc]. now destruct (fst k =? net).
  - cbn [map fst] in Hnd. inversion Hnd as [|? ? Hw Hnd']; subst.
    unfold mirror_reach. cbn [fold_left fst snd]. fold (mirror_reach E (map (fun x => ((net, fst x), snd x)) its)
      (kinsert (net, w) e m)).
    rewrite IH by auto. rewrite kfind_kinsert. unfold key_eqb. cbn [fst snd assoc].
    destruct (fst k =? net) eqn:Hn; cbn [andb]; auto.
    rewrite (N.eqb_sym (snd k) w). destruct (w =? snd k) eqn:Hws; auto.
    apply N.eqb_eq in Hws; subst w.
    assert (Ha : assoc (snd k) its = None) by (apply assoc_None; auto). now rewrite Ha.
Qed.

Lemma rfind_notin : forall net R, ~ In net (map d_net R) -> rfind net R = None.
Proof.
  induction R as [|d R IH]; cbn [rfind map In]; intros H; auto.
  destruct (d_net d =? net) eqn:Hd.
  - apply N.eqb_eq in Hd. exfalso; apply H; auto.
  - apply IH. intros Hi; apply H; auto.
Qed.

Lemma dump_lookup : forall R m k,
  NoDup (map d_net R) -> (forall d, In d R -> NoDup (map p_pid (d_paths d))) ->
  kfind k (mirror_reach E (flat_map g_items R) m) =
  match FRESH (fun _ => lv fl) R k with Some e => Some e | None => kfind k m end.
Proof.
  induction R as [|d R IH]; intros m k Hn Hp; cbn [flat_map].
  - reflexivity.
  - inversion Hn as [|? ? Hd Hn']; subst.
    unfold mirror_reach. rewrite fold_left_app.
    fold (mirror_reach E (g_items d) m).
    fold (mirror_reach E (flat_map g_items R) (mirror_reach E (g_items d) m)).
    rewrite IH; auto. 2:{ intros; apply Hp; right; auto. }
    unfold g_items at 1. rewrite seg_lookup.
    2:{ unfold items. destruct (N.eq_dec max 1) as [Hm|Hm].
        - rewrite (sel_plain E max vis pol Hm (lv fl)). destruct (d_paths d) as [|b t]; [constructor|].
          destruct (vis b); [|constructor]. destruct (pol (lv fl b) (d_net d) b); cbn [map fst].
          + constructor; [intros []|constructor].
          + constructor.
        - apply sel_nodup; auto. apply Hp; left; auto. }
    unfold fresh_at. cbn [rfind]. rewrite (N.eqb_sym (fst k) (d_net d)).
    destruct (d_net d =? fst k) eqn:Hk.
    + apply N.eqb_eq in Hk. rewrite rfind_notin by (rewrite <- Hk; auto).
      unfold items. rewrite Hk. reflexivity.
    + reflexivity.
Qed.

Definition marks_le (R : rib) : Prop :=
  forall d q, In d R -> In q (d_paths d) -> p_mark q = true -> memN (p_src q) fl = true.

Lemma dump_ok : forall R, wf R -> marks_le R ->
  emap_ok R (fst (dump E ByNet false max aptx vis pol fl R)) /\
  pend_ok fl R (ptx_empty E)
          (fun k => kfind k (mirror_reach E (snd (dump E ByNet false max aptx vis pol fl R)) [])).
Proof.
  intros R [H1 [H2 H3]] Hml. unfold dump. rewrite snapshot_unlimited.
  match goal with |- context [fold_left ?f ?l ?a] => set (X := fold_left f l a) end.
  assert (HX : X = ([] ++ flat_map em_items R, SGroup E ([] ++ flat_map g_items R)))
    by (apply dump_closed; auto).
  rewrite HX. cbn [fst snd sink_group app]. split.
  - intros k. rewrite in_flat_map. split.
    + intros [d [Hd Hk]]. exists d; split; auto. unfold em_items in Hk.
      apply in_map_iff in Hk as [x [Hx Hi]]. subst k. split; cbn [fst snd]; auto.
      rewrite (sel_pids E max vis pol pol_acc m0 (lv fl)). unfold items in Hi. apply in_map; auto.
    + intros [d [Hd [Hi Hc]]]. exists d; split; auto. unfold em_items.
      rewrite (sel_pids E max vis pol pol_acc m0 (lv fl)) in Hc.
      apply in_map_iff in Hc as [x [Hx Hin]]. apply in_map_iff. exists x. unfold items. split; auto.
      destruct k; cbn [fst snd] in *. congruence.
  - exists (fun _ => lv fl). split.
    + intros d Hd q Hq. split; auto. intros Hm. unfold lv, llgr_of. eapply Hml; eauto.
    + intros k. unfold T. rewrite pview_empty. rewrite dump_lookup; auto.
      cbn [kfind]. destruct (FRESH (fun _ => lv fl) R k); auto.
Qed.

End Dump.

(* ------------------------------------------------------------ the invariant *)
(* the policy installed throughout the histories the theorems speak about *)
Variable polv : N -> bool -> N -> path -> option E.
Variable pv0 : N.
Hypothesis Hpol : polv pv0 = pol.
Notation STEP := (step E ByNet false false max aptx vis polv).

Definition basef (n : nbr E) : key -> option E :=
  fun k => kfind k (mirror_reach E (n_buf n) (n_mirror n)).

Definition nbr_ok (fl : list N) (R : rib) (n : nbr E) : Prop :=
  exists L, wf L /\ Chain fl L (n_chan n) R /\ emap_ok L (n_emap n) /\
            pend_ok fl L (n_ptx n) (basef n) /\ coherent E (n_ptx n).

(* T1: the invariant linking the RIB, the undelivered changes, the ExportMap, the pending
   sets, the mirror and the LLGR-stale flags *)
Definition Inv (s : state E) : Prop :=
  wf (s_rib s) /\ marks_live (s_llgr s) (s_rib s) /\
  (n_reg (s_nbr s) = true -> nbr_ok (s_llgr s) (s_rib s) (s_nbr s)) /\
  s_pv s = pv0.

Lemma marks_live_le : forall fl R, marks_live fl R -> marks_le fl R.
Proof. intros fl R H d q Hd Hq Hm. rewrite <- (H d q Hd Hq). exact Hm. Qed.

Lemma push_reg : forall c n, n_reg (push E c n) = n_reg n.
Proof. intros c n. unfold push. destruct (n_reg n) eqn:H; auto. Qed.

Lemma nbr_ok_emit : forall fl R c R' n,
  n_reg n = true -> nbr_ok fl R n -> emit fl R c R' -> nbr_ok fl R' (push E c n).
Proof.
  intros fl R c R' n Hr [L [H1 [H2 [H3 [H4 H5]]]]] He. unfold push. rewrite Hr.
  exists L. cbn [n_chan n_emap n_ptx]. split; [|split; [|split; [|split]]]; auto.
  eapply chain_snoc_emit; eauto.
Qed.

Lemma nbr_ok_silent : forall fl R R' n, nbr_ok fl R n -> silent R R' -> nbr_ok fl R' n.
Proof.
  intros fl R R' n [L [H1 [H2 [H3 [H4 H5]]]]] Hs. exists L. split; [|split; [|split; [|split]]]; auto.
  eapply chain_snoc_silent; eauto.
Qed.

Lemma nbr_ok_mono : forall fl fl' R n, (forall y, In y fl -> In y fl') ->
  nbr_ok fl R n -> nbr_ok fl' R n.
Proof.
  intros fl fl' R n Hsub [L [H1 [H2 [H3 [[m [Hb Hp]] H5]]]]].
  exists L. split; [|split; [|split; [|split]]]; auto.
  - eapply chain_mono; eauto.
  - exists m. split; auto. intros d Hd. eapply bnd_mono; eauto.
Qed.

Lemma set_llgr_sub : forall src fl y, In y fl -> In y (set_llgr src fl).
Proof. intros src fl y H. unfold set_llgr. destruct (memN src fl); auto. right; auto. Qed.

Lemma NoDup_map_inj : forall {A B} (f : A -> B) l a b,
  NoDup (map f l) -> In a l -> In b l -> f a = f b -> a = b.
Proof.
  induction l as [|x l IH]; cbn [map In]; intros a b Hnd Ha Hb He; [contradiction|].
  inversion Hnd as [|? ? Hn Hd]; subst. destruct Ha as [->|Ha], Hb as [->|Hb]; auto.
  - exfalso; apply Hn. rewrite He. apply in_map; auto.
  - exfalso; apply Hn. rewrite <- He. apply in_map; auto.
Qed.

Lemma rupdate_same : forall R d, NoDup (map d_net R) -> In d R ->
  rupdate (d_net d) (d_paths d) R = R.
Proof.
  induction R as [|x R IH]; cbn [rupdate map In]; intros d Hnd Hin; auto.
  inversion Hnd as [|? ? Hn Hd]; subst. destruct Hin as [->|Hin].
  - rewrite N.eqb_refl. destruct d; reflexivity.
  - destruct (d_net x =? d_net d) eqn:Hx.
    + apply N.eqb_eq in Hx. exfalso; apply Hn. rewrite Hx. apply in_map; auto.
    + now rewrite IH.
Qed.

Lemma emit_snap : forall fl R d r, wf R -> marks_le fl R -> In d R ->
  emit fl R (mkc (d_net d) (d_id d) true true r (d_paths d)) R.
Proof.
  intros fl R d r [H1 [H2 H3]] Hml Hd.
  pose proof (emit_set fl R (d_net d) true true r (d_paths d)) as He.
  unfold rset in He. rewrite (rfind_In R d H1 Hd) in He. cbn [fst snd] in He.
  rewrite rupdate_same in He by auto. apply He.
  unfold truthful_set, old_paths. rewrite (rfind_In R d H1 Hd).
  split; [discriminate|]. split; [discriminate|]. split; [auto|]. split.
  - intros p q Hp Hq Hpq. left. eapply NoDup_map_inj; eauto.
  - intros q Hq Hm. eapply Hml; eauto.
Qed.

Lemma refresh_ok : forall fl R (cs : list change) (em : emap) p base,
  wf R -> (forall c, In c cs -> emit fl R c R) ->
  emap_ok R em -> pend_ok fl R p base -> coherent E p ->
  exists p', snd (fold_left (fun a c => PC fl c a) cs (em, SPtx E p)) = SPtx E p' /\
             emap_ok R (fst (fold_left (fun a c => PC fl c a) cs (em, SPtx E p))) /\
             pend_ok fl R p' base /\ coherent E p'.
Proof.
  intros fl R. induction cs as [|c cs IH]; intros em p base Hwf Hall He Hp Hc; cbn [fold_left].
  - exists p; auto.
  - destruct (deliver_ok fl R c R em p base Hwf) as [p1 [Hs [_ [He1 [Hp1 Hc1]]]]]; auto.
    { apply Hall; left; auto. }
    remember (PC fl c (em, SPtx E p)) as st eqn:Hst. destruct st as [em1 sk1].
    cbn [fst snd] in Hs, He1. subst sk1.
    apply IH; auto. intros; apply Hall; right; auto.
Qed.

Lemma refresh_changes_emit : forall fl R, wf R -> marks_le fl R ->
  walk_ok fl R (snapshot false max R).
Proof.
  intros fl R Hwf Hml c Hc. rewrite snapshot_unlimited in Hc. unfold refresh_changes in Hc.
  assert (Hsnap : forall c0, In c0 (filter_map (fun d => match d_paths d with [] => None | _ => Some (snapc d) end) R) ->
                            exists d, In d R /\ c0 = snapc d).
  { intros c0 H0. apply In_filter_map in H0 as [d [Hd Hs]]. exists d. split; auto.
    destruct (d_paths d); inversion Hs; auto. }
  destruct (ap max).
  - apply in_flat_map in Hc as [c0 [Hc0 Hc]]. destruct (Hsnap c0 Hc0) as [d [Hd ->]].
    apply in_map_iff in Hc as [q [Hq _]]. subst c. cbn [snapc c_net c_id c_paths].
    apply (emit_snap fl R d (Some (p_pid q))); auto.
  - destruct (Hsnap c Hc) as [d [Hd ->]]. apply (emit_snap fl R d None); auto.
Qed.

(* one RIB operation that leaves the destination in place and emits a change *)
Lemma rib_set_inv : forall fl s x,
  s_llgr s = fl -> wf (s_rib s) -> (n_reg (s_nbr s) = true -> nbr_ok fl (s_rib s) (s_nbr s)) ->
  truthful_set fl (s_rib s) x ->
  let s' := rib_set E s x in
  s_llgr s' = fl /\ wf (s_rib s') /\ (n_reg (s_nbr s') = true -> nbr_ok fl (s_rib s') (s_nbr s')) /\
  s_rib s' = fst (rset (fst (fst (fst (fst x)))) (snd x) (s_rib s)) /\ s_pv s' = s_pv s /\
  (forall d, In d (s_rib s') -> (d_net d = fst (fst (fst (fst x))) /\ d_paths d = snd x) \/
                                (d_net d <> fst (fst (fst (fst x))) /\ In d (s_rib s))).
Proof.
  intros fl [R fl0 pvv n] [[[[net bc] ac] repl] paths] Hfl Hwf Hn Htr. cbn [s_rib s_llgr s_nbr s_pv fst snd] in *.
  subst fl0. pose proof (emit_set fl R net bc ac repl paths Htr) as He. unfold mkc in He.
  destruct (emit_emit_ok fl R _ _ Hwf He) as [Hwf' _ _ _ _ Hpaths _]. cbn [c_net c_paths] in Hpaths.
  cbv zeta. unfold rib_set. cbn [s_rib s_llgr s_nbr s_pv].
  destruct (rset net paths R) as [R' i] eqn:Hrs. cbn [fst snd] in *.
  cbn [s_rib s_llgr s_nbr s_pv]. split; [reflexivity|]. split; [exact Hwf'|]. split; [|split; [|split]]; auto.
  rewrite push_reg. intros Hr. apply (nbr_ok_emit fl R _ R' n); auto.
Qed.

Lemma sets_inv : forall fl rs s,
  s_llgr s = fl -> wf (s_rib s) -> (n_reg (s_nbr s) = true -> nbr_ok fl (s_rib s) (s_nbr s)) ->
  truthful_sets fl (s_rib s) rs ->
  let s' := fold_left (rib_set E) rs s in
  s_llgr s' = fl /\ wf (s_rib s') /\ marks_live fl (s_rib s') /\
  (n_reg (s_nbr s') = true -> nbr_ok fl (s_rib s') (s_nbr s')) /\ s_pv s' = s_pv s.
Proof.
  intros fl. induction rs as [|x rs IH]; intros s Hfl Hwf Hn Ht; cbn [fold_left truthful_sets] in *.
  - auto.
  - destruct Ht as [Ht1 Ht2].
    destruct (rib_set_inv fl s x Hfl Hwf Hn Ht1) as [G1 [G2 [G3 [G4 [G5 _]]]]].
    rewrite <- G5. apply IH; auto. rewrite G4. exact Ht2.
Qed.

Lemma step_inv : forall s l, Inv s -> ok_label E s l -> Inv (STEP s l).
Proof.
  intros s l [Hwf [Hml [Hn Hpv]]] Htr. unfold ok_label in Htr.
  destruct l as [net bc ac repl paths | net | net emit_ | src b | src rs | | | | | | v].
  - (* RibSet *)
    cbn [step]. destruct Htr as [Hts Hmk].
    destruct (rib_set_inv (s_llgr s) s (net, bc, ac, repl, paths) eq_refl Hwf Hn Hts)
      as [G1 [G2 [G3 [_ [G4 G5]]]]]. cbn [fst snd] in G5.
    split; [exact G2|]. split; [|split; [rewrite G1; exact G3|congruence]].
    rewrite G1. intros d q Hd Hq. destruct (G5 d Hd) as [[_ Hp]|[_ Hd']].
    + rewrite Hp in Hq. apply Hmk; auto.
    + eapply Hml; eauto.
  - (* RibTouch *)
    destruct s as [R fl pvv n]. cbn [s_rib s_llgr s_nbr s_pv step] in *.
    destruct (rfind net R) eqn:Hf; cbn [s_rib s_llgr s_nbr s_pv].
    + split; [|split; [|split]]; auto.
    + pose proof (silent_touch R net Hf) as Hs.
      split; [|split; [|split]]; cbn [s_rib s_llgr s_nbr s_pv]; auto.
      * apply wf_rset; auto. constructor.
      * unfold rset. rewrite Hf. cbn [fst]. intros d q Hd Hq.
        apply in_app_or in Hd as [Hd|[Hd|[]]]; [eapply Hml; eauto | subst d; destruct Hq].
      * intros Hr. eapply nbr_ok_silent; eauto.
  - (* RibFree *)
    destruct s as [R fl pvv n]. cbn [s_rib s_llgr s_nbr s_pv step] in *.
    assert (Hmf : marks_live fl (rfree net R)).
    { intros d q Hd Hq. apply In_rfree in Hd as [Hd _]. eapply Hml; eauto. }
    destruct (rfind net R) as [d|] eqn:Hf; cbn [s_rib s_llgr s_nbr s_pv].
    + destruct emit_.
      * pose proof (emit_free fl R net d Hf) as He. unfold mkc in He.
        split; [|split; [|split]]; cbn [s_rib s_llgr s_nbr s_pv]; auto.
        -- apply wf_rfree; auto.
        -- rewrite push_reg. intros Hr. apply (nbr_ok_emit fl R _ (rfree net R) n); auto.
      * cbn [truthful] in Htr. pose proof (silent_free R net Htr) as Hs.
        split; [|split; [|split]]; cbn [s_rib s_llgr s_nbr s_pv]; auto.
        -- apply wf_rfree; auto.
        -- intros Hr. eapply nbr_ok_silent; eauto.
    + split; [|split; [|split]]; auto.
  - (* LlgrFlip: only flips that flip nothing *)
    destruct s as [R fl pvv n]. cbn [s_rib s_llgr s_nbr s_pv step truthful] in *.
    rewrite Htr. split; [|split; [|split]]; auto.
  - (* LlgrMark *)
    destruct s as [R fl pvv n]. cbn [s_rib s_llgr s_nbr s_pv step truthful] in *.
    set (fl' := set_llgr src fl) in *.
    destruct (sets_inv fl' rs {| s_rib := R; s_llgr := fl'; s_pv := pvv; s_nbr := n |})
      as [G1 [G2 [G3 [G4 G5]]]]; auto.
    + cbn [s_nbr s_rib]. intros Hr. apply (nbr_ok_mono fl fl'); auto. intros y. apply set_llgr_sub.
    + split; [exact G2|]. split; [rewrite G1; auto|]. split; [rewrite G1; auto|].
      rewrite G5. cbn [s_pv]. exact Hpv.
  - (* Deliver *)
    destruct s as [R fl pvv n]. cbn [s_rib s_llgr s_nbr s_pv step] in *. subst pvv. rewrite Hpol.
    destruct (n_chan n) as [|[c|cs] rest] eqn:Hch.
    + split; [|split; [|split]]; auto.
    + unfold with_nbr. split; [|split; [|split]]; cbn [s_rib s_llgr s_nbr s_pv n_reg]; auto.
      intros Hr. destruct (Hn Hr) as [L [H1 [H2 [H3 [H4 H5]]]]]. rewrite Hch in H2.
      destruct (chain_cons_inv fl L c rest R (n_emap n) (n_ptx n) (basef n) H2 H1 H3 H4)
        as [L1 [L2 [G1 [G2 [G3 [G4 G5]]]]]].
      destruct (deliver_ok fl L1 c L2 (n_emap n) (n_ptx n) (basef n) G1 G4 G2 G3 H5)
        as [p' [Hs [Hw2 [He2 [Hp2 Hc2]]]]].
      exists L2. cbn [n_chan n_emap n_ptx]. rewrite Hs. cbn [sink_ptx].
      split; [|split; [|split; [|split]]]; auto.
    + (* a queued refresh walk *)
      unfold with_nbr. split; [|split; [|split]]; cbn [s_rib s_llgr s_nbr s_pv n_reg]; auto.
      intros Hr. destruct (Hn Hr) as [L [H1 [H2 [H3 [H4 H5]]]]]. rewrite Hch in H2.
      destruct (chain_walk_inv fl L cs rest R (n_emap n) (n_ptx n) (basef n) H2 H1 H3 H4)
        as [L1 [G1 [G2 [G3 [G4 G5]]]]].
      destruct (refresh_ok fl L1 (refresh_changes max cs) (n_emap n) (n_ptx n) (basef n) G1 G4 G2 G3 H5)
        as [p' [Hs [He2 [Hp2 Hc2]]]].
      exists L1. cbn [n_chan n_emap n_ptx]. rewrite Hs. cbn [sink_ptx].
      split; [|split; [|split; [|split]]]; auto.
  - (* Flush *)
    destruct s as [R fl pvv n]. cbn [s_rib s_llgr s_nbr s_pv step] in *.
    unfold with_nbr. split; [|split; [|split]]; cbn [s_rib s_llgr s_nbr s_pv n_reg]; auto.
    intros Hr. destruct (Hn Hr) as [L [H1 [H2 [H3 [[m [Hb H4]] H5]]]]].
    exists L. cbn [n_chan n_emap n_ptx]. split; [|split; [|split; [|split]]]; auto.
    + exists m. split; auto. intros k. unfold T. rewrite pview_empty. unfold basef. cbn [n_buf n_mirror].
      unfold mirror_reach at 1. cbn [fold_left]. rewrite flush_lookup by auto. apply H4.
    + apply coherent_empty.
  - (* Register *)
    destruct s as [R fl pvv n]. cbn [s_rib s_llgr s_nbr s_pv step] in *. subst pvv. rewrite Hpol.
    unfold with_nbr. split; [|split; [|split]]; cbn [s_rib s_llgr s_nbr s_pv n_reg]; auto.
    intros _. destruct (dump_ok fl R Hwf (marks_live_le fl R Hml)) as [D1 D2].
    exists R. cbn [n_chan n_emap n_ptx]. split; [|split; [|split; [|split]]]; auto.
    + constructor.
    + apply coherent_empty.
  - (* Refresh: the walk is queued behind the changes *)
    destruct s as [R fl pvv n]. cbn [s_rib s_llgr s_nbr s_pv step] in *.
    destruct (n_reg n) eqn:Hr; [|split; [|split; [|split]]; cbn [s_rib s_llgr s_nbr s_pv]; auto; congruence].
    unfold with_nbr. split; [|split; [|split]]; cbn [s_rib s_llgr s_nbr s_pv n_reg]; auto.
    intros _. destruct (Hn eq_refl) as [L [H1 [H2 [H3 [H4 H5]]]]].
    exists L. cbn [n_chan n_emap n_ptx n_buf n_mirror]. split; [|split; [|split; [|split]]]; auto.
    apply chain_snoc_walk; auto. apply refresh_changes_emit; auto. apply marks_live_le; auto.
  - (* Unregister *)
    destruct s as [R fl pvv n]. cbn [s_rib s_llgr s_nbr s_pv step] in *.
    unfold with_nbr. split; [|split; [|split]]; cbn [s_rib s_llgr s_nbr s_pv nbr0 n_reg]; auto. discriminate.
  - (* PolicyChange: not a step of the histories considered *)
    destruct Htr.
Qed.

Notation RUN := (run_from E ByNet false false max aptx vis polv).
Notation OKRUN := (ok_run E ByNet false false max aptx vis polv).
Notation FRESHD := (fresh E ByNet false max aptx vis polv).

Lemma inv_state0 : pv0 = 0 -> Inv (state0 E).
Proof. intros H. split; [apply wf_nil | split; [intros d q [] | split; [discriminate | auto]]]. Qed.

Lemma run_inv : forall ls s, Inv s -> OKRUN s ls -> Inv (RUN s ls).
Proof.
  induction ls as [|l ls IH]; intros s Hi Hok; cbn [run_from fold_left]; auto.
  destruct Hok as [Hl Hrest]. apply IH; auto. apply step_inv; auto.
Qed.

Lemma fresh_marker_live : forall fl R m k, marks_live fl R -> bnd_rib fl R m ->
  FRESH m R k = FRESH (live fl) R k.
Proof.
  intros fl R m k Hml Hb. unfold fresh_at. destruct (rfind (fst k) R) as [d|] eqn:Hf; auto.
  destruct (rfind_Some _ _ _ Hf) as [Hd Hn]. f_equal. apply sel_ext. intros q Hq.
  rewrite <- Hn. destruct (Hb d Hd q Hq) as [B1 B2]. unfold live.
  rewrite <- (Hml d q Hd Hq). unfold lv, llgr_of in B2. rewrite <- (Hml d q Hd Hq) in B2.
  destruct (m (d_net d) q) eqn:Hm, (p_mark q) eqn:Hk; auto;
    try (symmetry; apply B2; reflexivity); try (apply B1; reflexivity).
Qed.

Lemma fresh_closed : forall s, Inv s ->
  forall k, kfind k (FRESHD s) = FRESH (live (s_llgr s)) (s_rib s) k.
Proof.
  intros s [Hwf [Hml [_ Hpv]]] k. unfold fresh. rewrite Hpv, Hpol.
  destruct (dump_ok (s_llgr s) (s_rib s) Hwf (marks_live_le _ _ Hml)) as [_ [m [Hb D2]]].
  specialize (D2 k). unfold T in D2. rewrite pview_empty in D2. rewrite D2.
  apply fresh_marker_live; auto.
Qed.

Lemma pview_nil : forall (p : ptx E) k, t_reach p = [] -> t_unreach p = [] -> pview E p k = None.
Proof. intros p k H1 H2. unfold pview. rewrite H1, H2. reflexivity. Qed.

Lemma fresh_none_indep : forall m m' R k, FRESH m R k = None -> FRESH m' R k = None.
Proof.
  intros m m' R k H. unfold fresh_at in *. destruct (rfind (fst k) R); auto.
  apply assoc_None. apply assoc_None in H.
  rewrite (sel_pids E max vis pol pol_acc (m' (fst k)) (m (fst k))). exact H.
Qed.

(* T2 *)
Lemma quiescent_eq : forall s, Inv s -> established E s -> quiescent E s ->
  same_routes E (view E s) (FRESHD s).
Proof.
  intros s Hinv Hest [Q1 [Q2 [Q3 Q4]]] k. rewrite (fresh_closed s Hinv).
  destruct Hinv as [Hwf [Hml [Hn _]]]. destruct (Hn Hest) as [L [H1 [H2 [H3 [H4 H5]]]]].
  rewrite Q1 in H2.
  destruct (chain_nil_transfer _ L _ _ _ _ H2 H1 H3 H4) as [_ [_ [m [Hb G3]]]].
  specialize (G3 k). unfold T in G3. rewrite pview_nil in G3 by auto.
  unfold basef in G3. rewrite Q2 in G3. unfold view.
  rewrite <- (fresh_marker_live _ _ m k Hml Hb). exact G3.
Qed.

(* T3 *)
Lemma no_lost : forall s, Inv s -> established E s -> forall k e,
  kfind k (view E s) = Some e -> kfind k (FRESHD s) = None ->
  withdrawal_pending E s k \/ change_undelivered E s k.
Proof.
  intros s Hinv Hest k e Hv Hf. rewrite (fresh_closed s Hinv) in Hf.
  destruct Hinv as [Hwf [Hml [Hn _]]]. destruct (Hn Hest) as [L [H1 [H2 [H3 [[m [Hb H4]] H5]]]]].
  destruct (existsb (fun ev => match ev with EvChange c => c_net c =? fst k | EvWalk _ => false end)
                    (n_chan (s_nbr s))) eqn:Hex.
  - right. apply existsb_exists in Hex as [[c|cs] [Hc Hk]]; [|discriminate].
    apply N.eqb_eq in Hk. exists c; auto.
  - left. assert (Hno : forall c, In (EvChange c) (n_chan (s_nbr s)) -> c_net c <> fst k).
    { intros c Hc He.
      assert (existsb (fun ev => match ev with EvChange c => c_net c =? fst k | EvWalk _ => false end)
                      (n_chan (s_nbr s)) = true).
      { apply existsb_exists. exists (EvChange c); split; auto. now apply N.eqb_eq. }
      congruence. }
    pose proof (chain_fresh_other _ m L _ _ k H2 H1 Hno) as Hfr.
    rewrite (fresh_none_indep _ m _ _ Hf) in Hfr.
    specialize (H4 k). rewrite <- Hfr in H4. unfold T in H4.
    unfold withdrawal_pending, drained_unreach.
    destruct (pview E (n_ptx (s_nbr s)) k) as [[e'|]|] eqn:Hp.
    + discriminate.
    + unfold pview in Hp. destruct (kfind k (rev (t_reach (n_ptx (s_nbr s))))); [discriminate|].
      destruct (memK k (map fst (t_unreach (n_ptx (s_nbr s))))) eqn:Hm; [|discriminate].
      apply memK_In in Hm. apply in_map_iff in Hm as [[k' nn] [Hk' Hin]]. cbn [fst] in Hk'; subst k'.
      apply in_map_iff. exists (k, nn). split; auto. cbn [fst snd].
      destruct H5 as [_ Hc2]. rewrite (Hc2 _ _ Hin). destruct k; reflexivity.
    + unfold basef in H4. rewrite mirror_reach_lookup in H4. unfold view in Hv. rewrite Hv in H4.
      destruct (kfind k (rev (n_buf (s_nbr s)))); discriminate.
Qed.

End Inv.

(* ------------------------------------------------------------ final statements *)
(* For every payload type, send-max, visibility filter and export policy (with the contract
   that the LLGR_STALE marking does not decide acceptance); the model is the code after the
   fix commits (ByNet keying, unlimited snapshot, restale_llgr reporting the marked paths)
   with addpath_tx = (effective_max > 1), which is what the FSM negotiates (property C16). *)
Definition MAXOK (max : N) : bool := negb (max =? 1).

Theorem C01_export_inv_preserved :
  forall (E : Type) (max : N) (vis : path -> bool) (pol : N -> bool -> N -> path -> option E)
         (ls : list label),
    pol_marks_after_accept E (pol 0) ->
    ok_run E ByNet false false max (MAXOK max) vis pol (state0 E) ls ->
    Inv E max vis (pol 0) 0 (run E ByNet false false max (MAXOK max) vis pol ls).
Proof. intros. unfold run. apply (run_inv E max vis (pol 0) H pol 0 eq_refl); auto. apply inv_state0; auto. Qed.

Lemma ok_of_truthful :
  forall (E : Type) (max : N) (vis : path -> bool) (pol : N -> bool -> N -> path -> option E)
         (ls : list label) s0,
    truthful_run E ByNet false false max (MAXOK max) vis pol s0 ls ->
    ok_run E ByNet false false max (MAXOK max) vis pol s0 ls.
Proof.
  intros E max vis pol. induction ls as [|l ls IH]; intros s0 Ht; cbn [ok_run]; auto.
Qed.

Theorem C01_quiescent_view_eq_fresh :
  forall (E : Type) (max : N) (vis : path -> bool) (pol : N -> bool -> N -> path -> option E)
         (ls : list label),
    pol_marks_after_accept E (pol 0) ->
    truthful_run E ByNet false false max (MAXOK max) vis pol (state0 E) ls ->
    let s := run E ByNet false false max (MAXOK max) vis pol ls in
    established E s -> quiescent E s ->
    same_routes E (view E s) (fresh E ByNet false max (MAXOK max) vis pol s).
Proof.
  intros E max vis pol ls Hpa Ht s He Hq. apply (quiescent_eq E max vis (pol 0) Hpa pol 0 eq_refl); auto.
  apply C01_export_inv_preserved; auto.
Qed.

Theorem C01_no_lost_withdrawal :
  forall (E : Type) (max : N) (vis : path -> bool) (pol : N -> bool -> N -> path -> option E)
         (ls : list label),
    pol_marks_after_accept E (pol 0) ->
    truthful_run E ByNet false false max (MAXOK max) vis pol (state0 E) ls ->
    let s := run E ByNet false false max (MAXOK max) vis pol ls in
    established E s ->
    forall k e, kfind k (view E s) = Some e ->
                kfind k (fresh E ByNet false max (MAXOK max) vis pol s) = None ->
                withdrawal_pending E s k \/ change_undelivered E s k.
Proof.
  intros E max vis pol ls Hpa Ht s He k e Hv Hf. eapply (no_lost E max vis (pol 0) Hpa pol 0 eq_refl); eauto.
  apply C01_export_inv_preserved; auto.
Qed.

(* the model's Register dump is the closed form of the export rules, every route carrying
   the live LLGR-stale flag of its source *)
Theorem C01_fresh_is_export_rules :
  forall (E : Type) (max : N) (vis : path -> bool) (pol : N -> bool -> N -> path -> option E)
         (ls : list label),
    pol_marks_after_accept E (pol 0) ->
    ok_run E ByNet false false max (MAXOK max) vis pol (state0 E) ls ->
    let s := run E ByNet false false max (MAXOK max) vis pol ls in
    forall k, kfind k (fresh E ByNet false max (MAXOK max) vis pol s)
              = fresh_at E max vis (pol 0) (live (s_llgr s)) (s_rib s) k.
Proof.
  intros E max vis pol ls Hpa Hok s k. apply (fresh_closed E max vis (pol 0) Hpa pol 0 eq_refl); auto.
  apply C01_export_inv_preserved; auto.
Qed.

(* ------------------------------------------------------------ witnesses *)
(* Concrete instance used by the correspondence cases (Model/ExportTx.v, cfg). *)
Definition P (pid src tok : N) : path := {| p_pid := pid; p_src := src; p_tok := tok; p_mark := false |}.
Definition PM (pid src tok : N) : path := {| p_pid := pid; p_src := src; p_tok := tok; p_mark := true |}.

Definition crun (g : cfg) (ls : list label) : state CE :=
  run CE (g_keying g) (g_limited g) (g_inline g) (g_max g) (g_aptx g) (cvis g) (cpolv g) ls.
Definition cfresh (g : cfg) (s : state CE) : list (key * CE) :=
  fresh CE (g_keying g) (g_limited g) (g_max g) (g_aptx g) (cvis g) (cpolv g) s.

Definition G (k : keying) (lim : bool) (max : N) (hidden : list N) : cfg :=
  {| g_keying := k; g_limited := lim; g_inline := false; g_max := max; g_aptx := negb (max =? 1);
     g_hidden := hidden; g_rej := [] |}.

Lemma cpol_marks_after_accept : forall g, pol_marks_after_accept CE (cpolv g 0).
Proof.
  intros g b net q. unfold cpolv, cpol. cbn [N.eqb].
  destruct (memN (p_tok q) (g_rej g)); split; auto; discriminate.
Qed.

(* (a) the code before fix ee21a37 (PendingTx keyed by dest_id): prefix 1 is advertised,
   removed, and prefix 0 is created and takes the freed dest_id 0 before the flush *)
Definition w_idreuse : list label :=
  [RibSet 1 true true None [P 1 0 2]; Register; RibFree 1 true;
   RibSet 0 true true None [P 1 0 2]; Deliver; Deliver; Flush].

Lemma C01_no_lost_withdrawal_refuted_by_id_keying :
  let g := G ById false 1 [] in
  let s := crun g w_idreuse in
  established CE s /\ quiescent CE s /\
  exists k e, kfind k (view CE s) = Some e /\ kfind k (cfresh g s) = None /\
              ~ withdrawal_pending CE s k /\ ~ change_undelivered CE s k.
Proof.
  cbv zeta. split; [vm_compute; reflexivity|]. split; [vm_compute; repeat split; reflexivity|].
  exists (1, 0), (0, 2, 0). split; [vm_compute; reflexivity|]. split; [vm_compute; reflexivity|].
  split.
  - vm_compute. tauto.
  - intros [c [Hc _]]. vm_compute in Hc. exact Hc.
Qed.

(* the same history on the fixed code: the withdrawal goes out *)
Example C01_idreuse_fixed :
  let g := G ByNet false 1 [] in
  let s := crun g w_idreuse in
  established CE s /\ quiescent CE s /\ view CE s = [((0, 0), (0, 2, 0))] /\
  cfresh g s = [((0, 0), (0, 2, 0))].
Proof. cbv zeta. repeat split; vm_compute; reflexivity. Qed.

(* (b) the code before fix fcdcf73 (dump truncated before the visibility filters):
   send-max 2, the best of three candidates is invisible to the neighbour *)
Definition w_limited : list label :=
  [Register; RibSet 0 true true None [P 1 0 1]; RibSet 0 false true None [P 1 0 1; P 2 1 2];
   RibSet 0 false true None [P 1 0 1; P 3 2 1; P 2 1 2]; Deliver; Deliver; Deliver; Flush].

Lemma C01_quiescent_view_eq_fresh_refuted_truncated_dump :
  let g := G ByNet true 2 [0] in
  let s := crun g w_limited in
  established CE s /\ quiescent CE s /\
  exists k, kfind k (view CE s) <> kfind k (cfresh g s).
Proof.
  cbv zeta. split; [vm_compute; reflexivity|]. split; [vm_compute; repeat split; reflexivity|].
  exists (0, 2). vm_compute. discriminate.
Qed.

(* (c) the RIB before fix d9feca9: restale_llgr left the only (best) path in place and
   reported best_changed = false, replaced = None.  That change is not truthful (the exported
   form of the path changed), and the view does not converge. *)
Definition w_llgr_old : list label :=
  [RibSet 0 true true None [P 1 2 2]; Register; Flush;
   LlgrMark 2 [(0, false, true, None, [PM 1 2 2])]; Deliver; Flush].

Lemma C01_quiescent_view_eq_fresh_refuted_unreported_llgr :
  let g := G ByNet false 1 [] in
  let s := crun g w_llgr_old in
  established CE s /\ quiescent CE s /\
  exists k, kfind k (view CE s) <> kfind k (cfresh g s).
Proof.
  cbv zeta. split; [vm_compute; reflexivity|]. split; [vm_compute; repeat split; reflexivity|].
  exists (0, 0). vm_compute. discriminate.
Qed.

(* the change stream of the fixed RIB for the same history: best_changed, replaced = Some 1 *)
Definition w_llgr_new : list label :=
  [RibSet 0 true true None [P 1 2 2]; Register; Flush;
   LlgrMark 2 [(0, true, true, Some 1, [PM 1 2 2])]; Deliver; Flush].

Example C01_llgr_fixed :
  let g := G ByNet false 1 [] in
  let s := crun g w_llgr_new in
  truthful_run CE ByNet false false 1 false (cvis g) (cpolv g) (state0 CE) w_llgr_new /\
  established CE s /\ quiescent CE s /\
  view CE s = [((0, 0), (2, 2, 1))] /\ cfresh g s = [((0, 0), (2, 2, 1))].
Proof.
  cbv zeta. split; [|repeat split; vm_compute; reflexivity].
  cbn [truthful_run w_llgr_new]. repeat split; try discriminate; try exact I.
  all: vm_compute.
  all: try (repeat constructor; cbn; intuition discriminate).
  all: try reflexivity.
  all: try (intros x x0 Hx Hx0 He;
         repeat (destruct Hx as [Hx|Hx]; [subst x|]); try contradiction;
         repeat (destruct Hx0 as [Hx0|Hx0]; [subst x0|]); try contradiction;
         cbn in He; try discriminate; auto).
  all: try (intros q Hq; repeat (destruct Hq as [Hq|Hq]; [subst q|]); try contradiction; reflexivity).
  all: try (intros q Hq Hm; repeat (destruct Hq as [Hq|Hq]; [subst q|]); try contradiction; try discriminate; reflexivity).
  all: try (intros d q Hd Hq; repeat (destruct Hd as [Hd|Hd]; [subst d|]); try contradiction;
            repeat (destruct Hq as [Hq|Hq]; [subst q|]); try contradiction; reflexivity).
Qed.

(* (d) the code before the fix of C01-refresh-race (do_route_refresh walked the RIB at once,
   ahead of the queued changes): the refresh runs while the removal of prefix 2 (dest_id 0) is
   queued and dest_id 0 already names prefix 1, which the neighbour may not see *)
Definition w_race : list label :=
  [Register; RibSet 2 true true None [P 1 0 0]; Deliver; RibFree 2 true;
   RibSet 1 true true None [P 1 1 2]; Flush; Refresh; Deliver; Deliver; Flush].

Definition GI (max : N) (hidden : list N) : cfg :=
  {| g_keying := ByNet; g_limited := false; g_inline := true; g_max := max;
     g_aptx := negb (max =? 1); g_hidden := hidden; g_rej := [] |}.

Lemma C01_no_lost_withdrawal_refuted_inline_refresh :
  let g := GI 2 [1] in
  let s := crun g w_race in
  established CE s /\ quiescent CE s /\
  exists k e, kfind k (view CE s) = Some e /\ kfind k (cfresh g s) = None /\
              ~ withdrawal_pending CE s k /\ ~ change_undelivered CE s k.
Proof.
  cbv zeta. split; [vm_compute; reflexivity|]. split; [vm_compute; repeat split; reflexivity|].
  exists (2, 1), (0, 0, 0). split; [vm_compute; reflexivity|]. split; [vm_compute; reflexivity|].
  split.
  - vm_compute. tauto.
  - intros [c [Hc _]]. vm_compute in Hc. exact Hc.
Qed.

(* the same history on the fixed code (one more Deliver: the queued walk): prefix 2 is withdrawn *)
Example C01_refresh_race_fixed :
  let g := G ByNet false 2 [1] in
  let s := crun g (w_race ++ [Deliver; Flush]) in
  established CE s /\ quiescent CE s /\ view CE s = [] /\ cfresh g s = [].
Proof. cbv zeta. repeat split; vm_compute; reflexivity. Qed.

(* ------------------------------------------------------------ non-vacuity *)
(* A history that satisfies every hypothesis of the theorems (truthful changes, refresh only
   with an empty channel), ends established and quiescent with a non-empty view, and
   exercises id recycling, a replaced path, an LLGR marking and a refresh. *)
Definition w_ok : list label :=
  [RibSet 1 true true None [P 1 0 2]; Register; RibFree 1 true;
   RibSet 0 true true None [P 1 0 2]; RibSet 0 false true None [P 1 0 2; P 2 1 3];
   RibSet 0 true true (Some 1) [P 1 0 1; P 2 1 3];
   Deliver; Deliver; Deliver; Deliver; Refresh;
   LlgrMark 1 [(0, false, true, Some 2, [P 1 0 1; PM 2 1 3])]; Deliver; Deliver; Flush].

Example C01_hypotheses_satisfiable :
  let max := 2 in
  let vis := cvis (G ByNet false max []) in
  let pol := cpolv (G ByNet false max []) in
  pol_marks_after_accept CE (pol 0) /\
  truthful_run CE ByNet false false max (MAXOK max) vis pol (state0 CE) w_ok /\
  let s := run CE ByNet false false max (MAXOK max) vis pol w_ok in
  established CE s /\ quiescent CE s /\
  view CE s = [((0, 1), (0, 1, 0)); ((0, 2), (1, 3, 1))].
Proof.
  cbv zeta. split; [apply cpol_marks_after_accept|]. split; [|split; [|split]].
  - cbn [truthful_run w_ok]. repeat split; try discriminate; try exact I.
    all: vm_compute.
    all: try (repeat constructor; cbn; intuition discriminate).
    all: try reflexivity.
    all: try (intros x x0 Hx Hx0 He;
         repeat (destruct Hx as [Hx|Hx]; [subst x|]); try contradiction;
         repeat (destruct Hx0 as [Hx0|Hx0]; [subst x0|]); try contradiction;
         cbn in He; try discriminate; auto).
    all: try (intros q Hq; repeat (destruct Hq as [Hq|Hq]; [subst q|]); try contradiction; reflexivity).
    all: try (intros q Hq Hm; repeat (destruct Hq as [Hq|Hq]; [subst q|]); try contradiction; try discriminate; reflexivity).
    all: try (intros d q Hd Hq; repeat (destruct Hd as [Hd|Hd]; [subst d|]); try contradiction;
              repeat (destruct Hq as [Hq|Hq]; [subst q|]); try contradiction; reflexivity).
  - vm_compute; reflexivity.
  - vm_compute; repeat split; reflexivity.
  - vm_compute; reflexivity.
Qed.

(* ------------------------------------------------------------ End-of-RIB *)
(* When an End-of-RIB is due: one is buffered with the initial dump of a session (it leaves
   with the first flush, right behind the dump); one is scheduled when a queued route-refresh
   walk has been applied (it leaves last in the next flush); a flush or the end of the session
   clears both; nothing else touches them. *)
Section Eor.
Variable E : Type.
Variable max : N.
Variable vis : path -> bool.
Variable polv : N -> bool -> N -> path -> option E.
Notation STEP := (step E ByNet false false max (MAXOK max) vis polv).

Definition walk_at_head (n : nbr E) : bool :=
  match n_chan n with EvWalk _ :: _ => true | _ => false end.

Lemma push_flags : forall c (n : nbr E),
  n_beor (push E c n) = n_beor n /\ n_eor (push E c n) = n_eor n.
Proof. intros c n. unfold push. destruct (n_reg n); auto. Qed.

Lemma rib_set_flags : forall (s : state E) x,
  n_beor (s_nbr (rib_set E s x)) = n_beor (s_nbr s) /\ n_eor (s_nbr (rib_set E s x)) = n_eor (s_nbr s).
Proof.
  intros s [[[[net bc] ac] repl] paths]. unfold rib_set.
  destruct (rset net paths (s_rib s)) as [r' i]. cbn [s_nbr]. apply push_flags.
Qed.

Lemma rib_sets_flags : forall rs (s : state E),
  n_beor (s_nbr (fold_left (rib_set E) rs s)) = n_beor (s_nbr s) /\
  n_eor (s_nbr (fold_left (rib_set E) rs s)) = n_eor (s_nbr s).
Proof.
  induction rs as [|x rs IH]; intros s; cbn [fold_left]; auto.
  destruct (IH (rib_set E s x)) as [H1 H2]. destruct (rib_set_flags s x) as [G1 G2].
  rewrite H1, H2, G1, G2. auto.
Qed.

Theorem C01_eor_emission : forall (s : state E) (l : label),
  let n := s_nbr s in
  let n' := s_nbr (STEP s l) in
  match l with
  | Register => n_beor n' = true /\ n_eor n' = false /\
                eor_positions n' = [N.of_nat (length (n_buf n'))]
  | Flush | Unregister => n_beor n' = false /\ n_eor n' = false /\ eor_positions n' = []
  | Deliver => n_beor n' = n_beor n /\ n_eor n' = (n_eor n || walk_at_head n)
  | _ => n_beor n' = n_beor n /\ n_eor n' = n_eor n
  end.
Proof.
  intros s l. cbv zeta.
  destruct l as [net bc ac repl paths | net | net emit_ | src b | src rs | | | | | | v]; cbn [step].
  - apply rib_set_flags.
  - destruct (rfind net (s_rib s)); cbn [s_nbr]; auto.
  - destruct (rfind net (s_rib s)); cbn [s_nbr]; auto. destruct emit_; auto. apply push_flags.
  - cbn [s_nbr]; auto.
  - destruct (rib_sets_flags rs {| s_rib := s_rib s; s_llgr := set_llgr src (s_llgr s);
                                   s_pv := s_pv s; s_nbr := s_nbr s |}) as [H1 H2].
    cbn [s_nbr] in H1, H2. auto.
  - unfold walk_at_head. destruct (n_chan (s_nbr s)) as [|[c|cs] rest]; cbn [with_nbr s_nbr n_beor n_eor].
    + rewrite orb_false_r; auto.
    + rewrite orb_false_r; auto.
    + rewrite orb_true_r; auto.
  - cbn [with_nbr s_nbr n_beor n_eor]. unfold eor_positions. cbn [n_beor n_eor app]. auto.
  - cbn [with_nbr s_nbr n_beor n_eor]. unfold eor_positions. cbn [n_beor n_eor n_buf app]. auto.
  - destruct (n_reg (s_nbr s)); cbn [with_nbr s_nbr n_beor n_eor]; auto.
  - cbn [with_nbr s_nbr nbr0 n_beor n_eor]. unfold eor_positions. cbn [nbr0 n_beor n_eor app]. auto.
  - cbn [s_nbr]; auto.
Qed.

End Eor.

(* ------------------------------------------------------------ PendingTx: coalescing and flush order *)
(* What one flush does to route k, in terms of what PendingTx holds for it: the last event
   queued for the key wins (an announcement cancels a pending withdrawal and vice versa);
   at the flush the buffered initial dump is applied first, then the withdrawals, then the
   announcements. *)
Theorem C01_pending_last_event_wins :
  forall (E : Type) (p : ptx E) (k' : key) (e : E) (k : key),
    pview E (ptx_reach E k' (fst k') e p) k = (if key_eqb k k' then Some (Some e) else pview E p k) /\
    pview E (ptx_unreach E k' (fst k') p) k = (if key_eqb k k' then Some None else pview E p k) /\
    (coherent E p -> coherent E (ptx_reach E k' (fst k') e p) /\ coherent E (ptx_unreach E k' (fst k') p)).
Proof.
  intros E p k' e k. split; [apply pview_reach|]. split; [apply pview_unreach|].
  intros Hc. split; [apply coherent_reach | apply coherent_unreach]; auto.
Qed.

Theorem C01_flush_order :
  forall (E : Type) (n : nbr E) (k : key),
    coherent E (n_ptx n) ->
    kfind k (flush_mirror E n) =
    match pview E (n_ptx n) k with
    | Some (Some e) => Some e                 (* a pending announcement: the route, as announced *)
    | Some None => None                       (* a pending withdrawal: gone, also if the buffered dump holds it *)
    | None => match kfind k (rev (n_buf n)) with
              | Some e => Some e              (* in the buffered initial dump *)
              | None => kfind k (n_mirror n)  (* untouched *)
              end
    end.
Proof.
  intros E n k Hc. rewrite flush_lookup by auto.
  destruct (pview E (n_ptx n) k) as [[e|]|]; auto. apply mirror_reach_lookup.
Qed.
