(* C17  Proofs about Model/Api.v against Spec/ApiSpec.v. *)
From Coq Require Import List ZArith NArith Bool Lia ZifyBool ZifyNat ZifyN.
From RB Require Import Base.Val Model.Api Spec.ApiSpec.
Import ListNotations.
Open Scope N_scope.

(* ------------------------------------------------------------------ *)
(* attr_from_api never panics                                          *)
Theorem C17_from_api_total :
  forall (v6r : list N -> option N) (x : api_attr) (t : N), from_api v6r x <> Panic t.
Proof.
  intros v6r x t; destruct x; cbn [from_api]; try discriminate.
  - destruct (255 <? ty); [discriminate|].
    destruct (canonical_flags ty); [destruct (65535 <? _); discriminate|].
    destruct (_ && _); discriminate.
  - destruct (2 <? o); discriminate.
  - destruct (forallb seg_ok segs); discriminate.
  - destruct (ip4_of_string s); [discriminate|]. destruct (v6r s); discriminate.
  - destruct (ip4_of_string addr); discriminate.
  - destruct (ip4_of_string s); discriminate.
  - destruct (parse_ids ids); discriminate.
  - destruct (write_extcoms l); discriminate.
Qed.
