(* C17  Proofs about Model/Api.v against Spec/ApiSpec.v. *)
From Coq Require Import List ZArith NArith Bool Lia ZifyBool ZifyNat ZifyN.
From RB Require Import Base.Val Model.Api Spec.ApiSpec.
Import ListNotations.
Open Scope N_scope.

(* ------------------------------------------------------------------ *)
(* attr_from_api never panics                                          *)
Lemma from_api_unchecked_total :
  forall (v6r : list N -> option N) (x : api_attr), exists r, from_api_unchecked v6r x = Ok r.
Proof.
  intros v6r x; destruct x; cbn [from_api_unchecked]; try (eexists; reflexivity).
  - destruct (255 <? ty); [eexists; reflexivity|].
    destruct (canonical_flags ty);
      [destruct (65535 <? _); [eexists; reflexivity|]; destruct (_ && _); eexists; reflexivity|].
    destruct (_ && _); eexists; reflexivity.
  - destruct (2 <? o); eexists; reflexivity.
  - destruct (forallb seg_ok segs); eexists; reflexivity.
  - destruct (ip4_of_string s); [eexists; reflexivity|]. destruct (v6r s); eexists; reflexivity.
  - destruct (ip4_of_string addr); eexists; reflexivity.
  - destruct (ip4_of_string s); eexists; reflexivity.
  - destruct (parse_ids ids); eexists; reflexivity.
  - destruct (write_extcoms l); eexists; reflexivity.
Qed.

Theorem C17_from_api_total :
  forall (v6r : list N -> option N) (x : api_attr) (t : N), from_api v6r x <> Panic t.
Proof.
  intros v6r x t. unfold from_api. destruct (from_api_unchecked_total v6r x) as [r ->].
  unfold len_check. destruct r as [a|]; [|discriminate].
  destruct (a_data a); try discriminate; destruct (65535 <? _); discriminate.
Qed.

(* ------------------------------------------------------------------ *)
(* Witnesses against attr_from_api as it stood before the fix commits
   ([from_api_v0]); each was replayed on the unchanged code through
   harness/daemon/convert_hx.rs (see known_findings.json C17-1..C17-3).   *)
Definition v6none (_ : list N) : option N := None.
Definition v6noprint (_ : N) : list N := [].

(* Unknown{type = 5} builds a LOCAL_PREF held as bytes *)
Lemma C17_v0_from_api_preserves_wf_refuted :
  exists x a, api_in_range x /\ from_api_v0 v6none x = Ok (Some a) /\ ~ wf_attr a.
Proof.
  exists (AUnknown 0 5 [1]), (mkAttr 5 64 (DBin [1])).
  split; [cbn; repeat split; try lia; repeat constructor; lia|].
  split; [reflexivity|].
  intros [_ [_ [_ Hd]]]. cbn in Hd. exact Hd.
Qed.

(* ... and inserting it next to any other path panics the comparator *)
Lemma C17_v0_accepted_value_panics_comparator :
  exists x a t, from_api_v0 v6none x = Ok (Some a)
                /\ rib_cmp (local_path_attrs [a]) 2 competitor 1 = Panic t.
Proof. exists (AUnknown 0 5 [1]), (mkAttr 5 64 (DBin [1])), P_VALUE_UNWRAP. split; reflexivity. Qed.

(* an AS_PATH segment of type 5 is accepted and as_path_length hits unreachable!() *)
Lemma C17_v0_accepted_as_path_panics_length :
  exists x a, from_api_v0 v6none x = Ok (Some a) /\ as_path_length a = Panic P_UNREACHABLE.
Proof. exists (AAsPath [(5%Z, [1])]), (mkAttr 2 64 (DBin [5; 1; 0; 0; 0; 1])). split; reflexivity. Qed.

(* 256 numbers in one segment: the count byte wraps to 0 and the numbers are
   re-read as segment headers *)
Lemma C17_v0_overlong_segment_panics_length :
  exists x a, from_api_v0 v6none x = Ok (Some a) /\ as_path_length a = Panic P_UNREACHABLE.
Proof.
  exists (AAsPath [(2%Z, repeat 83886080 256)]).
  eexists. split; [vm_compute; reflexivity|]. vm_compute. reflexivity.
Qed.

(* ORIGIN 3 accepted; an unparsable next hop yields an empty NEXT_HOP whose
   listing panics *)
Lemma C17_v0_origin_out_of_range_accepted :
  from_api_v0 v6none (AOrigin 3) = Ok (Some (mkAttr 1 64 (DVal 3))).
Proof. reflexivity. Qed.
Lemma C17_v0_bad_next_hop_accepted_and_unlistable :
  exists a, from_api_v0 v6none (ANextHop [120]) = Ok (Some a) /\ to_api v6noprint a = Panic P_READ_EOF.
Proof. exists (mkAttr 3 64 (DBin [])). split; reflexivity. Qed.

(* an unknown optional transitive attribute held opaque cannot be given back *)
Lemma C17_v0_opaque_roundtrip_refuted :
  exists a, wf_attr a /\ roundtrip_v0 v6noprint v6none a = Ok None.
Proof.
  exists (new_opaque 99 192 [1; 2]). split; [|reflexivity].
  repeat split; cbn; try lia. repeat constructor; lia.
Qed.
