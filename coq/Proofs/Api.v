(* C17  Proofs about Model/Api.v against Spec/ApiSpec.v. *)
From Coq Require Import List ZArith NArith Bool Lia ZifyBool ZifyNat ZifyN.
From RB Require Import Base.Val Model.Api Spec.ApiSpec.
From RB Require Import Proofs.ApiBytes Proofs.ApiStr Proofs.ApiSeg Proofs.ApiRt Proofs.ApiWf Proofs.ApiSafe.
Import ListNotations.
Open Scope N_scope.

(* ------------------------------------------------------------------ *)
(* attr_from_api never panics                                          *)
Lemma from_api_unchecked_total :
  forall (v6r : list N -> option N) (x : api_attr), exists r, from_api_unchecked v6r x = Ok r.
Proof.
  intros v6r x; destruct x; cbn [from_api_unchecked]; try (eexists; reflexivity).
  - destruct (255 <? ty); [eexists; reflexivity|].
    destruct (canonical_flags ty);
      [destruct (65535 <? _); [eexists; reflexivity|]; destruct (_ && _); eexists; reflexivity|].
    destruct (_ && _); eexists; reflexivity.
  - destruct (2 <? o); eexists; reflexivity.
  - destruct (forallb seg_ok segs); eexists; reflexivity.
  - destruct (ip4_of_string s); [eexists; reflexivity|]. destruct (v6r s); eexists; reflexivity.
  - destruct (ip4_of_string addr); eexists; reflexivity.
  - destruct (ip4_of_string s); eexists; reflexivity.
  - destruct (parse_ids ids); eexists; reflexivity.
  - destruct (write_extcoms l); eexists; reflexivity.
  - destruct fam as [[afi safi]|]; [|eexists; reflexivity]. destruct (_ || _); [eexists; reflexivity|].
    destruct (_ && _); [eexists; reflexivity|].
    destruct nhs as [|nh r]; [eexists; reflexivity|].
    destruct (ip4_of_string nh); [eexists; reflexivity|]. destruct (v6r nh); eexists; reflexivity.
Qed.

Theorem C17_from_api_total :
  forall (v6r : list N -> option N) (x : api_attr) (t : N), from_api v6r x <> Panic t.
Proof.
  intros v6r x t. unfold from_api. destruct (from_api_unchecked_total v6r x) as [r ->].
  unfold len_check. destruct r as [a|]; [|discriminate].
  destruct (a_data a); try discriminate; destruct (65535 <? _); discriminate.
Qed.

(* ------------------------------------------------------------------ *)
(* Witnesses against attr_from_api as it stood before the fix commits
   ([from_api_v0]); each was replayed on the unchanged code through
   harness/daemon/convert_hx.rs (see known_findings.json C17-1..C17-3).   *)
Definition v6none (_ : list N) : option N := None.
Definition v6noprint (_ : N) : list N := [].

(* Unknown{type = 5} builds a LOCAL_PREF held as bytes *)
Lemma C17_v0_from_api_preserves_wf_refuted :
  exists x a, api_in_range x /\ from_api_v0 v6none x = Ok (Some a) /\ ~ wf_attr a.
Proof.
  exists (AUnknown 0 5 [1]), (mkAttr 5 64 (DBin [1])).
  split; [cbn; repeat split; try lia; repeat constructor; lia|].
  split; [reflexivity|].
  intros [_ [_ [_ Hd]]]. cbn in Hd. exact Hd.
Qed.

(* ... and inserting it next to any other path panics the comparator *)
Lemma C17_v0_accepted_value_panics_comparator :
  exists x a t, from_api_v0 v6none x = Ok (Some a)
                /\ rib_cmp (local_path_attrs [a]) 2 competitor 1 = Panic t.
Proof. exists (AUnknown 0 5 [1]), (mkAttr 5 64 (DBin [1])), P_VALUE_UNWRAP. split; reflexivity. Qed.

(* an AS_PATH segment of type 5 was accepted (as_path_length then hit unreachable!();
   since the repair of the AS_PATH helpers it skips it), and 256 numbers in one
   segment wrapped the count byte to 0 so that the numbers are read as segment
   headers: both values are outside the wire invariants *)
Lemma C17_v0_accepted_as_path_type5 :
  exists x a, from_api_v0 v6none x = Ok (Some a) /\ ~ wf_attr a.
Proof.
  exists (AAsPath [(5%Z, [1])]), (mkAttr 2 64 (DBin [5; 1; 0; 0; 0; 1])). split; [reflexivity|].
  intros [_ [_ [_ Hd]]]. cbn in Hd. destruct Hd as [_ [_ Hw]].
  inversion Hw as [|t n body rest Ht Hn Hl Hr Heq]. lia.
Qed.

Lemma C17_v0_overlong_segment_wraps :
  exists a, from_api_v0 v6none (AAsPath [(2%Z, repeat 83886080 256)]) = Ok (Some a)
            /\ firstn 4 (match a_data a with DBin b => b | _ => [] end) = [2; 0; 5; 0].
Proof. eexists. split; [vm_compute; reflexivity|]. vm_compute. reflexivity. Qed.

(* ORIGIN 3 accepted; an unparsable next hop yields an empty NEXT_HOP whose
   listing panics *)
Lemma C17_v0_origin_out_of_range_accepted :
  from_api_v0 v6none (AOrigin 3) = Ok (Some (mkAttr 1 64 (DVal 3))).
Proof. reflexivity. Qed.
Lemma C17_v0_bad_next_hop_accepted_and_unlistable :
  exists a, from_api_v0 v6none (ANextHop [120]) = Ok (Some a) /\ to_api v6noprint a = Panic P_READ_EOF.
Proof. exists (mkAttr 3 64 (DBin [])). split; reflexivity. Qed.

(* an unknown optional transitive attribute held opaque cannot be given back *)
Lemma C17_v0_opaque_roundtrip_refuted :
  exists a, wf_attr a /\ roundtrip_v0 v6noprint v6none a = Ok None.
Proof.
  exists (new_opaque 99 192 [1; 2]). split; [|reflexivity].
  repeat split; cbn; try lia. repeat constructor; lia.
Qed.


(* ------------------------------------------------------------------ *)
(* The final statements (fixed code)                                    *)

(* The one class of held values whose round trip is known to differ: a defined
   attribute type stored with a flags octet other than the canonical one
   (PARTIAL, EXTENDED-LENGTH or a reserved bit received from the peer).
   known_findings.json C17-flags. *)
Definition Known_C17_flags (a : attr) : Prop :=
  exists f, canonical_flags (a_code a) = Some f /\ f <> a_flags a.

Lemma canon_of_id : forall a, ~ Known_C17_flags a -> canon_of a = a.
Proof.
  intros [c f d] Hk. unfold canon_of. cbn [a_code a_flags a_data].
  destruct (canonical_flags c) as [f'|] eqn:E; [|reflexivity].
  destruct (N.eq_dec f' f) as [->|Hne]; [reflexivity|].
  exfalso. apply Hk. exists f'. cbn [a_code a_flags]. split; assumption.
Qed.

(* attr_from_api (attr_to_api a) gives back a with the canonical flags of its type,
   for every well-formed core value: type and value always survive *)
Theorem C17_attr_roundtrip_up_to_flags :
  forall v6p v6r a, v6_contract v6p v6r -> wf_attr a -> core_code (a_code a) = true ->
    roundtrip v6p v6r a = Ok (Some (canon_of a)).
Proof.
  intros v6p v6r a Hc Hwf Hcore. destruct (to_from_api v6p v6r a Hwf Hcore) as [x [Hx Hf]].
  unfold roundtrip. rewrite Hx. cbn [bind]. apply Hf. exact Hc.
Qed.

Theorem C17_attr_roundtrip_core_outside_known :
  forall v6p v6r a, v6_contract v6p v6r -> wf_attr a -> core_code (a_code a) = true ->
    ~ Known_C17_flags a -> roundtrip v6p v6r a = Ok (Some a).
Proof.
  intros v6p v6r a Hc Hwf Hcore Hk.
  rewrite (C17_attr_roundtrip_up_to_flags v6p v6r a Hc Hwf Hcore), (canon_of_id a Hk). reflexivity.
Qed.

(* ... and the full statement (no exclusion) is false: ORIGIN received with the
   PARTIAL bit comes back with flags 0x40 *)
Theorem C17_attr_roundtrip_core_refuted :
  forall v6p v6r, exists a, wf_attr a /\ core_code (a_code a) = true /\ Known_C17_flags a
                            /\ roundtrip v6p v6r a <> Ok (Some a).
Proof.
  intros v6p v6r. exists (mkAttr 1 96 (DVal 2)). repeat split; try (cbn; lia).
  - exists 64. split; [reflexivity|discriminate].
  - cbn. discriminate.
Qed.

(* a toy textual form showing that what is assumed of the Ipv6 textual form
   ([v6_contract], [v6_noslash], [v6_range]) is satisfiable: ':' followed by the 16
   address bytes shifted out of the ASCII range *)
Definition toy_p (a : N) : list N := 58 :: map (fun b => b + 256) (to_bytes 16 a).
Definition toy_r (s : list N) : option N :=
  match s with
  | c :: r =>
      if (c =? 58) && Nat.eqb (length r) 16 && forallb (fun c => (256 <=? c) && (c <? 512)) r
      then Some (of_bytes (map (fun c => c - 256) r)) else None
  | [] => None
  end.

Lemma of_bytes_to_bytes : forall k a, a < 256 ^ N.of_nat k -> of_bytes (to_bytes k a) = a.
Proof.
  induction k as [|k IH]; intros a Ha.
  - cbn in Ha. assert (a = 0) by lia. subst. reflexivity.
  - change (to_bytes (S k) a) with (to_bytes k (a / 256) ++ [a mod 256]).
    rewrite of_bytes_snoc. rewrite Nat2N.inj_succ, N.pow_succ_r' in Ha.
    rewrite IH.
    + pose proof (N.div_mod a 256). lia.
    + apply N.div_lt_upper_bound; lia.
Qed.

Lemma toy_shift : forall l, bytes_ok l ->
  forallb (fun c => (256 <=? c) && (c <? 512)) (map (fun b => b + 256) l) = true
  /\ map (fun c => c - 256) (map (fun b => b + 256) l) = l.
Proof.
  intros l H. induction H as [|x l Hx _ [IH1 IH2]]; [split; reflexivity|].
  cbn [map forallb]. rewrite IH1, IH2. split; [lia|f_equal; lia].
Qed.

Example v6_contract_satisfiable : v6_contract toy_p toy_r.
Proof.
  split; intros a Ha.
  - unfold toy_p, toy_r. rewrite map_length, length_to_bytes. rewrite N.eqb_refl. cbn [Nat.eqb andb].
    destruct (toy_shift (to_bytes 16 a) (bytes_ok_to_bytes 16 a)) as [-> ->].
    rewrite of_bytes_to_bytes; [reflexivity|exact Ha].
  - unfold toy_p, ip4_of_string. cbn [split_on]. change (58 =? DOT) with false. cbn iota.
    destruct (split_on DOT (map _ (to_bytes 16 a))) as [|g gs] eqn:E; [apply split_on_nonempty in E; contradiction|].
    destruct gs as [|g2 [|g3 [|g4 [|? ?]]]]; try reflexivity.
    destruct g as [|? [|? [|? ?]]]; reflexivity.
Qed.

(* non-vacuity of the round-trip statements *)
Example roundtrip_example :
  let a := mkAttr COMMUNITY 192 (DBin [255; 255; 0; 6; 0; 1; 0; 2]) in
  wf_attr a /\ core_code (a_code a) = true /\ ~ Known_C17_flags a
  /\ roundtrip toy_p toy_r a = Ok (Some a).
Proof.
  cbn zeta. repeat split; try (cbn; lia); try discriminate.
  - repeat constructor; lia.
  - intros [f [E Hne]]. cbn in E. injection E as <-. apply Hne. reflexivity.
Qed.

(* any value attr_from_api accepts satisfies the wire invariants *)
Theorem C17_from_api_preserves_wf :
  forall v6r x a, api_in_range x -> from_api v6r x = Ok (Some a) -> wf_attr a.
Proof. exact from_api_wf. Qed.

Example from_api_preserves_wf_example :
  api_in_range (AAsPath [(2%Z, [65001; 65002])])
  /\ from_api v6none (AAsPath [(2%Z, [65001; 65002])])
     = Ok (Some (mkAttr AS_PATH 64 (DBin [2; 2; 0; 0; 253; 233; 0; 0; 253; 234]))).
Proof. split; [repeat constructor; cbn; lia|reflexivity]. Qed.

(* the witnesses that broke the unchanged code are now refused *)
Example fixed_witnesses_refused :
  from_api v6none (AUnknown 0 5 [1]) = Ok None
  /\ from_api v6none (AAsPath [(5%Z, [1])]) = Ok None
  /\ from_api v6none (AAsPath [(2%Z, repeat 83886080 256)]) = Ok None
  /\ from_api v6none (AOrigin 3) = Ok None
  /\ from_api v6none (ANextHop [120]) = Ok None
  /\ from_api v6none (AUnknown 0 7 [1; 2; 3]) = Ok None
  /\ from_api v6none (ACommunities (repeat 1 16384)) = Ok None
  /\ roundtrip v6noprint v6none (new_opaque 99 192 [1; 2]) = Ok (Some (new_opaque 99 192 [1; 2])).
Proof. repeat split; vm_compute; reflexivity. Qed.

(* the Spec is not stronger than what the wire guarantees *)
Theorem C17_wire_values_are_wf :
  forall flags code d a, flags < 256 -> code < 256 -> bytes_ok d -> len_ok d ->
    wire_accept flags code d = Some a -> wf_attr a.
Proof. exact wire_accept_wf. Qed.

Example wire_values_example :
  wire_accept 224 8 [255; 255; 0; 6] = Some (mkAttr 8 224 (DBin [255; 255; 0; 6])).
Proof. reflexivity. Qed.

(* well-formed values cannot panic listing, encoding, as_path_length, or the
   best-path comparison of local_path's list against any other well-formed path *)
Theorem C17_wf_is_safe_downstream :
  forall (v6p : N -> list N) (l others : list attr) (ra rb : N),
    Forall wf_attr l -> Forall wf_attr others ->
    (forall a, In a l -> core_code (a_code a) = true -> exists x, to_api v6p a = Ok x)
    /\ (forall a, In a l -> exists b, encode_attr a = Ok b)
    /\ (forall a, In a l -> a_code a = AS_PATH -> exists n, as_path_length a = Ok n)
    /\ (exists z, rib_cmp (local_path_attrs l) ra others rb = Ok z)
    /\ (exists z, rib_cmp others rb (local_path_attrs l) ra = Ok z).
Proof.
  intros v6p l others ra rb Hl Ho. rewrite Forall_forall in Hl.
  repeat split.
  - intros a Ha Hc. destruct (to_from_api v6p v6none a (Hl a Ha) Hc) as [x [Hx _]]. exists x. exact Hx.
  - intros a Ha. apply encode_safe. apply Hl. exact Ha.
  - intros a Ha Hc. apply as_path_length_safe; [apply Hl; exact Ha|exact Hc].
  - apply rib_cmp_safe; [apply local_path_attrs_wf; apply Forall_forall; exact Hl|exact Ho].
  - apply rib_cmp_safe; [exact Ho|apply local_path_attrs_wf; apply Forall_forall; exact Hl].
Qed.

(* composition: whatever attr_from_api accepts can be inserted next to any
   well-formed path, encoded and listed without a panic *)
Theorem C17_api_accepted_is_safe :
  forall v6p v6r (xs : list api_attr) (l others : list attr) (ra rb : N),
    Forall api_in_range xs ->
    Forall2 (fun x a => from_api v6r x = Ok (Some a)) xs l ->
    Forall wf_attr others ->
    (exists z, rib_cmp (local_path_attrs l) ra others rb = Ok z)
    /\ (forall a, In a l -> exists b, encode_attr a = Ok b)
    /\ (forall a, In a l -> core_code (a_code a) = true -> exists x, to_api v6p a = Ok x).
Proof.
  intros v6p v6r xs l others ra rb Hr H2 Ho.
  assert (Hl : Forall wf_attr l).
  { induction H2 as [|x a xs l Hxa _ IH]; [constructor|].
    inversion Hr as [|? ? Hx Hxs]; subst. constructor; [eapply from_api_wf; eassumption|apply IH; exact Hxs]. }
  destruct (C17_wf_is_safe_downstream v6p l others ra rb Hl Ho) as [H1 [H3 [_ [H4 _]]]].
  repeat split; assumption.
Qed.

Example api_accepted_is_safe_example :
  Forall api_in_range [ALocalPref 200; AAsPath [(2%Z, [65001])]]
  /\ Forall2 (fun x a => from_api v6none x = Ok (Some a)) [ALocalPref 200; AAsPath [(2%Z, [65001])]]
       [mkAttr 5 64 (DVal 200); mkAttr 2 64 (DBin [2; 1; 0; 0; 253; 233])]
  /\ Forall wf_attr competitor.
Proof.
  split; [repeat constructor; cbn; lia|]. split; [repeat constructor|].
  repeat constructor; cbn; lia.
Qed.

(* ------------------------------------------------------------------ *)
(* NLRI                                                                 *)
From RB Require Import Proofs.ApiNlri.

Theorem C17_nlri_roundtrip_core :
  forall v6p v6r n, v6_contract v6p v6r -> v6_noslash v6p -> wf_nlri n ->
    net_from_api v6r (nlri_to_api v6p n) = Some n.
Proof. exact nlri_roundtrip. Qed.

Theorem C17_net_from_api_preserves_wf :
  forall v6r x n, v6_range v6r -> api_nlri_in_range x -> net_from_api v6r x = Some n -> wf_nlri n.
Proof. intros v6r x n. exact (net_from_api_wf (fun _ => []) v6r x n). Qed.

Theorem C17_nlri_encode_safe :
  forall p n, wf_nlri n -> exists b, encode_nlri p n = Ok b.
Proof. exact encode_nlri_safe. Qed.

Example v6_nlri_assumptions_satisfiable : v6_noslash toy_p /\ v6_range toy_r.
Proof.
  split.
  - intros a _. unfold toy_p. cbn [existsb]. change (58 =? SLASH) with false. cbn [orb].
    destruct (toy_shift (to_bytes 16 a) (bytes_ok_to_bytes 16 a)) as [H _].
    induction (map (fun b => b + 256) (to_bytes 16 a)) as [|c l IH]; [reflexivity|].
    cbn [forallb existsb] in *. apply andb_prop in H. destruct H as [Hc Hl]. rewrite (IH Hl).
    unfold SLASH. lia.
  - intros s a H. unfold toy_r in H. destruct s as [|c r]; [discriminate|].
    destruct (N.eqb_spec c 58); [|discriminate].
    subst. destruct (Nat.eqb_spec (length r) 16) as [El|]; [|discriminate]. cbn [andb] in H.
    destruct (forallb _ r) eqn:Ef; [|discriminate]. injection H as <-.
    assert (Hok : bytes_ok (map (fun c => c - 256) r)).
    { apply Forall_forall. intros x Hx. apply in_map_iff in Hx. destruct Hx as [c [<- Hc]].
      rewrite forallb_forall in Ef. specialize (Ef c Hc). lia. }
    pose proof (of_bytes_lt _ Hok) as Hlt. rewrite map_length, El in Hlt. exact Hlt.
Qed.

Example nlri_roundtrip_example :
  wf_nlri (NVpn6 [100; 3] (RDIp 167772161 7) 1 128)
  /\ net_from_api toy_r (nlri_to_api toy_p (NVpn6 [100; 3] (RDIp 167772161 7) 1 128)) = Some (NVpn6 [100; 3] (RDIp 167772161 7) 1 128).
Proof. split; [|vm_compute; reflexivity]. cbn. repeat split; try lia; try discriminate. repeat constructor; lia. Qed.

(* ------------------------------------------------------------------ *)
(* GrpcService::local_path                                               *)
Theorem C17_local_path_accepts_wf :
  forall v6r fam n xs family net attrs nh,
    v6_range v6r -> api_nlri_in_range n -> Forall api_in_range xs ->
    local_path v6r fam n xs = Some (family, net, attrs, nh) ->
    wf_nlri net /\ Forall wf_attr attrs
    /\ existsb (fun a => a_code a =? ORIGIN) attrs = true
    /\ existsb (fun a => a_code a =? AS_PATH) attrs = true.
Proof. exact local_path_wf. Qed.

Example local_path_example :
  local_path v6_parse None (PPrefix [49; 48; 46; 48; 46; 48; 46; 48] 8)
             [ANextHop [49; 46; 50; 46; 51; 46; 52]; ALocalPref 200; AOriginatorId [49; 46; 49; 46; 49; 46; 49]]
  = Some (65537, NV4 167772160 8,
          [mkAttr 5 64 (DVal 200); mkAttr 1 64 (DVal 0); mkAttr 2 64 (DBin [])], Some [1; 2; 3; 4]).
Proof. vm_compute. reflexivity. Qed.

(* non-vacuity of local_path_accepts_wf with a textual form that satisfies v6_range *)
Example local_path_hypotheses_example :
  v6_range toy_r
  /\ api_nlri_in_range (PVpn [100] (ARd2 65000 1) [49; 48; 46; 48; 46; 48; 46; 48] 8)
  /\ Forall api_in_range [ALocalPref 200; ACommunities [4294901766]]
  /\ local_path toy_r (Some 65664) (PVpn [100] (ARd2 65000 1) [49; 48; 46; 48; 46; 48; 46; 48] 8)
                [ALocalPref 200; ACommunities [4294901766]]
     = Some (65664, NVpn4 [100] (RD2 65000 1) 167772160 8,
             [mkAttr 5 64 (DVal 200); mkAttr 8 192 (DBin [255; 255; 0; 6]); mkAttr 1 64 (DVal 0); mkAttr 2 64 (DBin [])],
             None).
Proof.
  split; [apply v6_nlri_assumptions_satisfiable|].
  split; [cbn; unfold u32_ok; lia|]. split; [repeat constructor; cbn; unfold u32_ok; lia|].
  vm_compute. reflexivity.
Qed.

(* ------------------------------------------------------------------ *)
(* EVPN routes                                                           *)
From RB Require Import Proofs.ApiEvpn.

Theorem C17_evpn_roundtrip :
  forall v6p v6r e, v6_contract v6p v6r -> v6_nonempty v6p -> wf_evpn e ->
    evpn_from_api v6r (evpn_to_api v6p e) = Some e.
Proof. exact evpn_roundtrip. Qed.

Theorem C17_evpn_from_api_preserves_wf :
  forall v6r x e, v6_range v6r -> api_evpn_in_range x -> evpn_from_api v6r x = Some e -> wf_evpn e.
Proof. intros v6r x e. exact (evpn_from_api_wf (fun _ => []) v6r x e). Qed.

Example v6_nonempty_satisfiable : v6_nonempty toy_p.
Proof. intros a _. discriminate. Qed.

Example evpn_example :
  let e := EvPfx (RD2 65000 1) [0; 0; 0; 0; 0; 0; 0; 0; 0; 0] 7 (IP6 1) 128 (IP6 0) 5000 in
  wf_evpn e /\ evpn_from_api toy_r (evpn_to_api toy_p e) = Some e
  /\ api_evpn_in_range (evpn_to_api toy_p e)
  /\ evpn_from_api v6_parse (AEvAd (ARd2 65000 1) (Some (0, [0; 0; 0; 0; 0; 0; 0; 0; 0])) 0 16777216) = None
  /\ evpn_from_api v6_parse (AEvPfx (ARd2 65000 1) (Some (0, [0; 0; 0; 0; 0; 0; 0; 0; 0])) 0
                               [49; 48; 46; 48; 46; 48; 46; 49] 33 [] 5) = None.
Proof.
  cbn zeta. split; [|split; [vm_compute; reflexivity|split; [|split; vm_compute; reflexivity]]].
  - cbn. unfold u32_ok, wf_label24. repeat split; try lia; try reflexivity. repeat constructor; lia.
  - cbn. unfold u32_ok. repeat split; try lia. repeat constructor; lia.
Qed.

(* ------------------------------------------------------------------ *)
(* TUNNEL_ENCAP / PREFIX_SID / BGP-LS attribute: the lossless-or-raw wrapper   *)
From RB Require Import Proofs.ApiGuard.

Theorem C17_noncore_roundtrip_guarded :
  forall (typed_of_bytes bytes_of_typed : N -> list N -> res (option (list N))) a x,
    wf_attr a -> core_code (a_code a) = false ->
    to_api_nc typed_of_bytes bytes_of_typed a = Ok x ->
    from_api_nc bytes_of_typed x = Ok (Some (canon_of a)).
Proof. exact guarded_roundtrip. Qed.

Theorem C17_noncore_typed_from_api_wf :
  forall (bytes_of_typed : N -> list N -> res (option (list N))) c t a,
    c = TUNNEL_ENCAP \/ c = LS \/ c = PREFIX_SID ->
    (forall b, bytes_of_typed c t = Ok (Some b) -> bytes_ok b) ->
    from_api_nc bytes_of_typed (NcTyped c t) = Ok (Some a) -> wf_attr a.
Proof. exact from_api_nc_typed_wf. Qed.

(* non-vacuity: a lossless converter keeps the typed form, a lossy one falls back to raw *)
Example guarded_examples :
  let a := mkAttr PREFIX_SID 192 (DBin [1; 0; 7; 0; 0; 0; 0; 0; 0; 5]) in
  wf_attr a /\ core_code (a_code a) = false
  /\ to_api_nc (fun _ b => Ok (Some b)) (fun _ t => Ok (Some t)) a = Ok (NcTyped PREFIX_SID [1; 0; 7; 0; 0; 0; 0; 0; 0; 5])
  /\ to_api_nc (fun _ b => Ok (Some (firstn 3 b))) (fun _ t => Ok (Some t)) a
     = Ok (NcUnknown 192 PREFIX_SID [1; 0; 7; 0; 0; 0; 0; 0; 0; 5]).
Proof.
  cbn zeta. split; [|split; [reflexivity|split; vm_compute; reflexivity]].
  repeat split; cbn; try lia. repeat constructor; lia.
Qed.

(* ------------------------------------------------------------------ *)
(* Flowspec, SR Policy, Route Target Constraint                          *)
From RB Require Import Proofs.ApiX.

Theorem C17_flowspec_roundtrip :
  forall v6p v6r n, v6_contract v6p v6r -> wf_fs n ->
    fs_from_api v6r (fs_family n) (fs_to_api v6p n) = Some n.
Proof. exact fs_roundtrip. Qed.

Theorem C17_flowspec_from_api_preserves_wf :
  forall v6r family x n, v6_range v6r -> api_fs_in_range x -> fs_from_api v6r family x = Some n -> wf_fs n.
Proof. intros v6r family x n. exact (fs_from_api_wf (fun _ => []) v6r family x n). Qed.

Theorem C17_srpolicy_roundtrip_and_wf :
  (forall n, wf_srp n -> srp_from_api (srp_to_api n) = Some n)
  /\ (forall l d c e n, u32_ok d -> u32_ok c -> bytes_ok e -> srp_from_api (ASrP l d c e) = Some n -> wf_srp n).
Proof. split; [exact srp_roundtrip|exact srp_from_api_wf]. Qed.

Theorem C17_rtc_roundtrip_outside_known :
  forall n, wf_rtc n -> ~ Known_C17_rtc n -> rtc_from_api (rtc_to_api n) = Some n.
Proof. exact rtc_roundtrip_outside_known. Qed.

Theorem C17_rtc_roundtrip_refuted :
  exists n, wf_rtc n /\ Known_C17_rtc n /\ rtc_from_api (rtc_to_api n) <> Some n.
Proof. exact rtc_roundtrip_refuted. Qed.

Theorem C17_rtc_from_api_preserves_wf :
  forall a rt n, u32_ok a -> rtc_from_api (ARtc a rt) = Some n -> wf_rtc n.
Proof. exact rtc_from_api_wf. Qed.

Example flowspec_example :
  let n := FsN false (Some (RD2 65000 1))
               [FsPfx 1 167772160 8 0; FsOps 3 [(129, 6)]; FsOps 5 [(3, 80); (197, 8080)]] in
  wf_fs n /\ fs_from_api toy_r (fs_family n) (fs_to_api toy_p n) = Some n
  /\ api_fs_in_range (fs_to_api toy_p n)
  /\ fs_from_api v6_parse 65669 (AFs [FRPrefix 1 33 [49; 48; 46; 48; 46; 48; 46; 48] 0]) = None
  /\ fs_from_api v6_parse 65669 (AFs [FRComp 5 []]) = None
  /\ fs_from_api v6_parse 65669 (AFs [FRComp 5 [(1, 6)]]) = Some (FsN false None [FsOps 5 [(129, 6)]]).
Proof.
  cbn zeta. split; [|split; [vm_compute; reflexivity|split; [|repeat split; vm_compute; reflexivity]]].
  - split; [|split; [cbn; lia|vm_compute; discriminate]].
    repeat constructor; cbn; unfold wf_prefix, wf_op_bits; repeat split; try lia; try reflexivity; try (left; reflexivity).
  - cbn. split; [unfold u32_ok; lia|]. repeat constructor; cbn; lia.
Qed.

Example rtc_srp_example :
  wf_rtc (RtcExact 65001 [1; 2; 192; 0; 2; 1; 0; 100]) /\ ~ Known_C17_rtc (RtcExact 65001 [1; 2; 192; 0; 2; 1; 0; 100])
  /\ wf_srp (SrP true 1 2 1) /\ Known_C17_rtc (RtcExact 1 [3; 2; 0; 0; 0; 0; 0; 0]).
Proof.
  split; [cbn; unfold u32_ok; repeat split; try lia; repeat constructor; lia|].
  split; [cbn; intros [H|H]; [lia|apply H; reflexivity]|].
  split; [cbn; unfold u32_ok; repeat split; lia|cbn; left; lia].
Qed.

(* ------------------------------------------------------------------ *)
(* Typed PREFIX_SID / TUNNEL_ENCAP messages                              *)
From RB Require Import Proofs.ApiT.

Theorem C17_typed_from_api_total :
  (forall x, exists r, from_api_psid x = Ok r) /\ (forall x, exists r, from_api_te x = Ok r).
Proof. split; [exact psid_from_api_total|exact te_from_api_total]. Qed.

Theorem C17_prefix_sid_accepted_wf :
  forall x a, api_psid_in_range x -> from_api_psid x = Ok (Some a) ->
    exists p, psid_from_api x = Some p /\ a = mkAttr PREFIX_SID 192 (DBin (psid_encode p)) /\
              wf_psid p /\ ps_fits p /\ len_ok (psid_encode p).
Proof. exact psid_accepted_wf. Qed.

Theorem C17_prefix_sid_roundtrip :
  forall p, wf_psid p -> psid_from_api (psid_to_api p) = Some p.
Proof. exact psid_roundtrip. Qed.

Theorem C17_tunnel_encap_accepted_wf :
  forall x a, api_te_in_range x -> from_api_te x = Ok (Some a) ->
    exists l, te_from_api x = Some l /\ a = mkAttr TUNNEL_ENCAP 192 (DBin (te_encode l)) /\
              wf_te l /\ te_fits l /\ len_ok (te_encode l).
Proof. exact te_accepted_wf. Qed.

Theorem C17_tunnel_encap_roundtrip :
  forall l, wf_te l -> te_listable l -> te_from_api (te_to_api l) = Some l.
Proof. exact te_roundtrip. Qed.

Definition ex_sid : list N := [32; 1; 13; 184; 0; 0; 0; 0; 0; 0; 0; 0; 0; 0; 0; 1].
Definition ex_cp : te_cp :=
  mkCp (Some (0, 100)) (Some (BsMpls 128 100)) (Some (224, ex_sid, Ebs 17 32 16 16 0)) (Some (0, 3)) (Some 7)
       [(Some (0, 5), [SegA 0 16001; SegB 64 ex_sid (Some (Ebs 17 32 16 16 0))])] (Some [99; 112]) (Some [112]).

(* the hypotheses of the statements above are satisfiable, and the refusals they rest on do happen *)
Example typed_example :
  wf_te [TeSr ex_cp; TeRaw 8 []] /\ te_listable [TeSr ex_cp; TeRaw 8 []]
  /\ te_lists_typed [TeSr ex_cp; TeRaw 8 []] = true
  /\ wf_psid [PsSvc false [PsInfo ex_sid 17 [PsSt 40 24 16 0 16 64]]]
  /\ te_from_api [(65551, [])] = None
  /\ te_from_api [(15, [ATsPrio 256])] = None
  /\ te_from_api [(15, [ATsPrio 1; ATsPrio 1])] = None
  /\ te_from_api [(15, [ATsSegList None [ASegA None 1048576]])] = None
  /\ te_from_api [(15, [ATsBsid6 false false false [1; 2; 3] None])] = None
  /\ te_lists_typed [TeRaw 8 [1]] = false
  /\ psid_from_api [APsSvc false [(1, [APsInfo [1; 2; 3] 17 []])]] = None.
Proof.
  assert (Hs : bytes_ok ex_sid) by (repeat constructor; lia).
  split; [|split; [|repeat split; vm_compute; try reflexivity]].
  - constructor; [|constructor; [cbn; repeat split; try lia; [discriminate|constructor]|constructor]].
    unfold wf_te_tlv, wf_cp, ex_cp; cbn. repeat split; try lia; try assumption; try reflexivity.
    all: repeat constructor; cbn; try lia; try assumption; try reflexivity.
  - constructor; [|constructor; [reflexivity|constructor]].
    unfold cp_listable, ex_cp; cbn. repeat split; try reflexivity.
    repeat constructor; cbn; try reflexivity; try (intros _; reflexivity).
  - repeat constructor; cbn; try lia; try assumption; try reflexivity.
Qed.

(* ------------------------------------------------------------------ *)
(* BGP-MUP NLRI                                                          *)
From RB Require Import Proofs.ApiMup.

Theorem C17_mup_roundtrip :
  forall v6p v6r n, v6_contract v6p v6r -> v6_nonempty v6p -> wf_mup n ->
    mup_from_api v6r (mup_to_api v6p n) = Some n.
Proof. exact mup_roundtrip. Qed.

Theorem C17_mup_from_api_preserves_wf :
  forall v6r x n, v6_range v6r -> api_mup_in_range x -> mup_from_api v6r x = Some n ->
    wf_mup n /\ N.of_nat (length (mup_body n)) < 256.
Proof. intros v6r x n Hr Hx H. split; [exact (mup_from_api_wf (fun _ => []) v6r x n Hr Hx H)|apply mup_body_fits]. Qed.

Example mup_example :
  let n := MupT1 (RD2 65000 1) (IP4 167772160) 8 305419896 9 (IP4 3221225985) None in
  wf_mup n /\ wf_mup (MupT2 (RD2 65000 1) 48 (IP4 3221225985) 16908288)
  /\ mup_from_api v6_parse (AMupT2 (ARd2 65000 1) 40 [49; 57; 50; 46; 48; 46; 50; 46; 49] 16909056) = None
  /\ mup_from_api v6_parse (AMupIsd (ARd2 65000 1) [49; 48; 46; 48; 46; 48; 46; 49; 47; 56]) = None.
Proof.
  cbn zeta. split; [|split; [|split; vm_compute; reflexivity]].
  - cbn. unfold wf_prefix. repeat split; cbn; try lia; try reflexivity.
  - cbn. repeat split; try lia; try (intros _; vm_compute; reflexivity).
Qed.

(* held MUP routes (what the decoder produces) *)
Theorem C17_mup_decoded_is_wf :
  forall v6 rt data n, bytes_ok data -> mup_decode_body v6 rt data = Some n -> wf_mup n.
Proof. exact mup_decode_body_wf. Qed.

Theorem C17_mup_held_roundtrip :
  forall v6p v6r v6 rt data n, v6_contract v6p v6r -> v6_nonempty v6p -> bytes_ok data ->
    mup_decode_body v6 rt data = Some n -> mup_from_api v6r (mup_to_api v6p n) = Some n.
Proof. exact mup_held_roundtrip. Qed.

(* the boundary case of the held direction: 12 TEID bits carried in the octets 12 3f *)
Example mup_held_example :
  mup_decode_body false 4 [0; 0; 253; 232; 0; 0; 0; 1; 44; 10; 0; 0; 1; 18; 63]
    = Some (MupT2 (RD2 65000 1) 44 (IP4 167772161) 306118656)
  /\ mup_from_api v6_parse (mup_to_api v6_print (MupT2 (RD2 65000 1) 44 (IP4 167772161) 306118656))
     = Some (MupT2 (RD2 65000 1) 44 (IP4 167772161) 306118656).
Proof. split; vm_compute; reflexivity. Qed.
