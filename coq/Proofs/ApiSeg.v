(* C17  AS_PATH segment lemmas and the extended-community chunk round trip. *)
From Coq Require Import List ZArith NArith Bool Lia ZifyBool ZifyNat ZifyN.
From RB Require Import Base.Val Model.Api Spec.ApiSpec Proofs.ApiBytes Proofs.ApiStr.
Import ListNotations.
Open Scope N_scope.

Local Ltac Zify.zify_post_hook ::= Z.div_mod_to_equations.

Lemma skipn_exact : forall (body rest : list N), skipn (length body) (body ++ rest) = rest.
Proof. induction body as [|x body IH]; intros rest; [reflexivity|]. cbn [length app skipn]. apply IH. Qed.

Lemma firstn_exact : forall (body rest : list N), firstn (length body) (body ++ rest) = body.
Proof. induction body as [|x body IH]; intros rest; [reflexivity|]. cbn [length app firstn]. rewrite IH. reflexivity. Qed.

Lemma seg_bytes_inv : forall t n body rest, bytes_ok (t :: n :: body ++ rest) ->
  t < 256 /\ n < 256 /\ bytes_ok body /\ bytes_ok rest.
Proof.
  intros t n body rest H. inversion H as [|? ? Ht H1]; subst. inversion H1 as [|? ? Hn H2]; subst.
  apply bytes_ok_app_inv in H2. tauto.
Qed.

(* attr_to_api's segment reader followed by attr_from_api's emitter is the identity
   on well-formed AS_PATH bytes *)
Lemma aspath_roundtrip : forall b, wf_as_path b -> bytes_ok b -> forall fuel, (length b < fuel)%nat ->
  exists segs, aspath_segs fuel b = Ok segs /\ forallb seg_ok segs = true /\ emit_segs segs = b.
Proof.
  intros b Hwf. induction Hwf as [|t n body rest Ht Hn Hlen Hwf IH]; intros Hok fuel Hfuel.
  - exists []. destruct fuel; repeat split; reflexivity.
  - destruct fuel as [|f]; [lia|].
    apply seg_bytes_inv in Hok. destruct Hok as [Ht8 [_ [Hbody Hrest]]].
    destruct (read_n_u32_app (N.to_nat n) body rest Hlen Hbody) as [nums [Hr [Hflat [Hnl _]]]].
    destruct (IH Hrest f) as [segs [Hs [Hokk Hemit]]].
    { cbn [length] in Hfuel. rewrite app_length in Hfuel. lia. }
    exists ((Z.of_N t, nums) :: segs).
    cbn [aspath_segs read_u8 bind fst snd]. rewrite Hr. cbn [bind fst snd]. rewrite Hs. cbn [bind].
    repeat split.
    + cbn [forallb]. rewrite Hokk. unfold seg_ok. cbn [fst snd]. rewrite Hnl. lia.
    + cbn [emit_segs]. rewrite Hflat, Hemit, Hnl. unfold u8_of_Z. f_equal; [lia|]. f_equal. lia.
Qed.

(* the validation loop of Attribute::decode accepts exactly well-formed segment lists *)
Lemma aspath_valid_wf : forall fuel l, aspath_valid fuel false l = true -> bytes_ok l -> wf_as_path l.
Proof.
  induction fuel as [|f IH]; intros l Hv Hok.
  - destruct l; [constructor|discriminate].
  - destruct l as [|t [|n r]]; [constructor|discriminate|].
    cbn [aspath_valid] in Hv.
    apply andb_prop in Hv. destruct Hv as [Hv Hrec]. apply andb_prop in Hv. destruct Hv as [Hv Hle].
    inversion Hok as [|? ? Ht H1]; subst. inversion H1 as [|? ? Hn H2]; subst.
    apply Nat.leb_le in Hle.
    rewrite <- (firstn_skipn (4 * N.to_nat n) r). rewrite <- (firstn_skipn (4 * N.to_nat n) r) in H2.
    apply bytes_ok_app_inv in H2. destruct H2 as [_ Hsk].
    apply wfp_seg; [lia|lia|apply firstn_length_le; exact Hle|apply IH; assumption].
Qed.

Lemma wf_valid : forall b, wf_as_path b -> forall fuel, (length b < fuel)%nat -> aspath_valid fuel false b = true.
Proof.
  intros b Hwf. induction Hwf as [|t n body rest Ht Hn Hlen Hwf IH]; intros fuel Hfuel.
  - destruct fuel; reflexivity.
  - destruct fuel as [|f]; [lia|]. cbn [aspath_valid].
    rewrite <- Hlen, skipn_exact. rewrite IH.
    + rewrite app_length. lia.
    + cbn [length] in Hfuel. rewrite app_length in Hfuel. lia.
Qed.

Lemma wf_even : forall b, wf_as_path b -> Nat.modulo (length b) 2 = 0%nat.
Proof.
  intros b Hwf. induction Hwf as [|t n body rest Ht Hn Hlen Hwf IH]; [reflexivity|].
  cbn [length]. rewrite app_length, Hlen.
  replace (S (S (4 * N.to_nat n + length rest))) with (length rest + (1 + 2 * N.to_nat n) * 2)%nat by lia.
  rewrite Nat.mod_add by lia. exact IH.
Qed.

Lemma wf_len6 : forall b, wf_as_path b -> b <> [] -> (6 <= length b)%nat.
Proof.
  intros b Hwf Hne. destruct Hwf as [|t n body rest Ht Hn Hlen Hwf]; [contradiction|].
  cbn [length]. rewrite app_length, Hlen. lia.
Qed.

(* Attribute::as_path_length terminates normally on well-formed segments *)
Lemma aspl_wf : forall b, wf_as_path b -> forall fuel acc, (length b < fuel)%nat ->
  exists v, aspl fuel b acc = Ok v.
Proof.
  intros b Hwf. induction Hwf as [|t n body rest Ht Hn Hlen Hwf IH]; intros fuel acc Hfuel.
  - exists acc. destruct fuel; reflexivity.
  - destruct fuel as [|f]; [lia|]. cbn [aspl]. rewrite <- Hlen, skipn_exact.
    assert (Hf : (length rest < f)%nat) by (cbn [length] in Hfuel; rewrite app_length in Hfuel; lia).
    destruct (t =? 1); [apply IH; exact Hf|]. destruct (t =? 2); apply IH; exact Hf.
Qed.

(* attr_from_api's emitter produces well-formed segments from checked input *)
Lemma emit_segs_wf : forall segs, forallb seg_ok segs = true ->
  wf_as_path (emit_segs segs) /\ bytes_ok (emit_segs segs).
Proof.
  induction segs as [|[t nums] segs IH]; intros H; cbn [emit_segs]; [split; constructor|].
  cbn [forallb] in H. apply andb_prop in H. destruct H as [Hs Hr]. destruct (IH Hr) as [Hwf Hok].
  unfold seg_ok in Hs. cbn [fst snd] in Hs.
  apply andb_prop in Hs. destruct Hs as [Hs Hl0]. apply andb_prop in Hs. destruct Hs as [Hs Hl].
  apply andb_prop in Hs. destruct Hs as [Ht1 Ht4].
  apply Nat.leb_le in Hl. apply Nat.leb_le in Hl0. apply Z.leb_le in Ht1. apply Z.leb_le in Ht4.
  split.
  - apply wfp_seg.
    + unfold u8_of_Z. lia.
    + rewrite N.mod_small by lia. lia.
    + rewrite length_flat_be32. rewrite N.mod_small by lia. lia.
    + exact Hwf.
  - constructor; [unfold u8_of_Z; lia|]. constructor; [lia|].
    apply bytes_ok_app; [apply bytes_ok_flat_be32|exact Hok].
Qed.

(* ------------------------------------------------------------------ *)
(* one extended community: read_extcom then write_extcom is the identity *)
Lemma extcom_roundtrip : forall ch, length ch = 8%nat -> bytes_ok ch ->
  exists x, read_extcom ch = Ok x /\ write_extcom x = Some ch.
Proof.
  intros ch Hlen Hok.
  destruct ch as [|t [|s [|b2 [|b3 [|b4 [|b5 [|b6 [|b7 [|? ?]]]]]]]]]; try discriminate.
  unfold bytes_ok in Hok.
  repeat match goal with H : Forall _ (_ :: _) |- _ => inversion H; clear H; subst end.
  unfold read_extcom. cbv zeta.
  assert (E16 : forall a b, a < 256 -> b < 256 -> ensure_u16 (of_be16 a b) = Some (of_be16 a b)).
  { intros a b Ha Hb. unfold ensure_u16. pose proof (of_be16_lt a b Ha Hb).
    destruct (N.ltb_spec 65535 (of_be16 a b)); [lia|reflexivity]. }
  assert (E8 : ensure_u8 s = Some s).
  { unfold ensure_u8. destruct (N.ltb_spec 255 s); [lia|reflexivity]. }
  destruct ((t / 64) mod 2 =? 0) eqn:Htr;
  repeat match goal with
  | |- context [if (?a =? ?b) then _ else _] => destruct (N.eqb_spec a b)
  | |- context [if ?c then _ else _] => destruct c eqn:?
  end;
  (eexists; split; [reflexivity|]);
  cbn [write_extcom trbit length Nat.eqb];
  rewrite ?E8, ?E16, ?ip4_roundtrip_bytes, ?be32_of_be32, ?be16_of_be16 by assumption;
  try reflexivity;
  try (cbn [app]; repeat f_equal; lia).
  (* traffic action: the two flag bits of b7 < 4 *)
  assert (t = 128) by lia. assert (s = 7) by lia.
  assert (b2 = 0 /\ b3 = 0 /\ b4 = 0 /\ b5 = 0 /\ b6 = 0) as [? [? [? [? ?]]]] by lia.
  assert (Hb : b7 = 0 \/ b7 = 1 \/ b7 = 2 \/ b7 = 3) by lia.
  destruct Hb as [?|[?|[?|?]]]; subst; reflexivity.
Qed.
