(* C03, RTR part: the repaired RtrCodec::decode never panics, consumes input
   whenever it returns a message, decides every complete frame, and is
   insensitive to fragmentation.  The pre-repair decoder (rtr_decode_v0) is
   refuted on the last three counts. *)
From Coq Require Import List NArith Bool Lia ZifyBool ZifyNat ZifyN.
From RB Require Import Base.Val Base.Bytes Model.Stream Model.Rtr Spec.WireSpec Proofs.Stream.
Import ListNotations.
Open Scope N_scope.

Lemma len_app (a b : list N) : len (a ++ b) = len a + len b.
Proof. unfold len. rewrite app_length. lia. Qed.

Lemma len_cons a (l : list N) : len (a :: l) = len l + 1.
Proof. unfold len. cbn [length]. lia. Qed.

Lemma len_length (l : list N) : N.to_nat (len l) = length l.
Proof. unfold len. lia. Qed.

(* what the first two tests of rtr_decode establish *)
Lemma rtr_header buf :
  (len buf <? 8) = false ->
  exists v t s1 s2 a b c d tl, buf = v :: t :: s1 :: s2 :: a :: b :: c :: d :: tl.
Proof.
  intro H.
  do 8 (destruct buf as [|? buf]; [exfalso; rewrite ?len_cons in H; cbn in H; lia|]).
  repeat eexists.
Qed.

Lemma C03_rtr_decode_no_panic : never_panics rtr_decode.
Proof.
  intros buf. unfold rtr_decode.
  destruct (len buf <? 8) eqn:H8; [discriminate|].
  destruct (rtr_header buf H8) as (v & t & s1 & s2 & a & b & c & d & tl & ->).
  destruct (be32 a b c d <? 8); [discriminate|].
  destruct (len _ <? be32 a b c d); [discriminate|].
  destruct (rtr_from_bytes _) as [[m l]|]; discriminate.
Qed.

Lemma C03_rtr_decode_consumes : consumes_input rtr_decode.
Proof.
  intros buf m rest. unfold rtr_decode.
  destruct (len buf <? 8) eqn:H8; [discriminate|].
  destruct (rtr_header buf H8) as (v & t & s1 & s2 & a & b & c & d & tl & ->).
  set (buf := v :: t :: s1 :: s2 :: a :: b :: c :: d :: tl) in *.
  destruct (be32 a b c d <? 8) eqn:HL; [discriminate|].
  destruct (len buf <? be32 a b c d) eqn:HB; [discriminate|].
  destruct (rtr_from_bytes _) as [[m' l]|]; [|discriminate].
  intro H. injection H as _ <-. split.
  - rewrite skipn_length. pose proof (len_length buf). lia.
  - exists (firstn (N.to_nat (be32 a b c d)) buf). symmetry. apply firstn_skipn.
Qed.

Lemma rtr_length_field_spec buf l :
  rtr_length_field buf = Some l ->
  exists v t s1 s2 a b c d tl, buf = v :: t :: s1 :: s2 :: a :: b :: c :: d :: tl /\ l = be32 a b c d.
Proof.
  unfold rtr_length_field.
  do 8 (destruct buf as [|? buf]; [discriminate|]). intro H. injection H as <-.
  repeat eexists.
Qed.

Lemma C03_rtr_complete_frame_decided : complete_frame_decided rtr_decode rtr_complete.
Proof.
  intros buf (l & Hl & Hle).
  destruct (rtr_length_field_spec _ _ Hl) as (v & t & s1 & s2 & a & b & c & d & tl & -> & ->).
  unfold rtr_decode.
  set (buf := v :: t :: s1 :: s2 :: a :: b :: c :: d :: tl) in *.
  assert (H8 : (len buf <? 8) = false) by (subst buf; rewrite !len_cons; lia).
  rewrite H8. subst buf.
  destruct (be32 a b c d <? 8); [discriminate|].
  match goal with |- context [if ?c then DNeed else _] => destruct c eqn:HB end; [lia|].
  destruct (rtr_from_bytes _) as [[m' l]|]; discriminate.
Qed.

Lemma C03_rtr_need_only_if_incomplete : need_only_if_incomplete rtr_decode rtr_complete.
Proof.
  intros buf H (l & Hl & Hle).
  exact (C03_rtr_complete_frame_decided buf (ex_intro _ l (conj Hl Hle)) H).
Qed.

(* a decoder call only looks at its own frame *)
Lemma firstn_app_le {A} n (a b : list A) : (n <= length a)%nat -> firstn n (a ++ b) = firstn n a.
Proof. intro H. rewrite firstn_app. replace (n - length a)%nat with 0%nat by lia. cbn [firstn]. apply app_nil_r. Qed.

Lemma skipn_app_le {A} n (a b : list A) : (n <= length a)%nat -> skipn n (a ++ b) = skipn n a ++ b.
Proof. intro H. rewrite skipn_app. replace (n - length a)%nat with 0%nat by lia. reflexivity. Qed.

Definition rtr_body (buf : list N) (l : N) : rtr_res :=
  if l <? 8 then DErr tt buf else
  if len buf <? l then DNeed else
  match rtr_from_bytes (firstn (N.to_nat l) buf) with
  | Some (m, _) => DMsg m (skipn (N.to_nat l) buf)
  | None => DErr tt (skipn (N.to_nat l) buf)
  end.

Lemma rtr_decode_unfold buf :
  (len buf <? 8) = false ->
  exists l, rtr_length_field buf = Some l /\ rtr_decode buf = rtr_body buf l.
Proof.
  intro H8. destruct (rtr_header buf H8) as (v & t & s1 & s2 & a & b & c & d & tl & ->).
  exists (be32 a b c d). split; [reflexivity|].
  unfold rtr_decode. rewrite H8. reflexivity.
Qed.

Lemma rtr_length_field_app buf ext l :
  rtr_length_field buf = Some l -> rtr_length_field (buf ++ ext) = Some l.
Proof.
  intro H. destruct (rtr_length_field_spec _ _ H) as (v & t & s1 & s2 & a & b & c & d & tl & -> & ->).
  reflexivity.
Qed.

Lemma rtr_ext buf ext :
  (forall m rest, rtr_decode buf = DMsg m rest -> rtr_decode (buf ++ ext) = DMsg m (rest ++ ext)) /\
  (forall e rest, rtr_decode buf = DErr e rest -> rtr_decode (buf ++ ext) = DErr e (rest ++ ext)).
Proof.
  destruct (len buf <? 8) eqn:H8.
  { unfold rtr_decode. rewrite H8. split; intros; discriminate. }
  assert (H8' : (len (buf ++ ext) <? 8) = false) by (rewrite len_app; lia).
  destruct (rtr_decode_unfold buf H8) as (l & Hl & ->).
  destruct (rtr_decode_unfold (buf ++ ext) H8') as (l' & Hl' & ->).
  rewrite (rtr_length_field_app _ ext _ Hl) in Hl'. injection Hl' as <-.
  unfold rtr_body.
  destruct (l <? 8) eqn:HL.
  { split; [intros; discriminate|]. intros e rest H. injection H as <- <-. reflexivity. }
  destruct (len buf <? l) eqn:HB; [split; intros; discriminate|].
  assert (HB' : (len (buf ++ ext) <? l) = false) by (rewrite len_app; lia).
  rewrite HB'.
  assert (Hn : (N.to_nat l <= length buf)%nat) by (pose proof (len_length buf); lia).
  rewrite (firstn_app_le _ _ _ Hn), (skipn_app_le _ _ _ Hn).
  destruct (rtr_from_bytes _) as [[m' l2]|]; split; intros ? ? H; try discriminate; injection H as <- <-; reflexivity.
Qed.

Theorem C03_rtr_fragmentation_invariant : fragmentation_invariant rtr_decode.
Proof.
  refine (stream_fragmentation_invariant rtr_decode _ _ _ _).
  - exact C03_rtr_decode_no_panic.
  - intros buf m rest H. exact (proj1 (C03_rtr_decode_consumes buf m rest H)).
  - intros buf m rest ext. exact (proj1 (rtr_ext buf ext) m rest).
  - intros buf e rest ext. exact (proj2 (rtr_ext buf ext) e rest).
Qed.

(* ---- what was wrong before the repair (model of the code at e40a5c0) *)

(* a PDU with length field 0 is returned as a message and nothing is consumed *)
Lemma C03_rtr_v0_consumes_refuted : ~ consumes_input rtr_decode_v0.
Proof.
  intro H. destruct (H [0; 2; 0; 0; 0; 0; 0; 0] RResetQuery [0; 2; 0; 0; 0; 0; 0; 0]) as [Hl _].
  - vm_compute. reflexivity.
  - cbn [length] in Hl. lia.
Qed.

(* a complete Router Key PDU (type 9, 8 bytes announced, 8 buffered) is answered "need more" *)
Lemma C03_rtr_v0_complete_frame_refuted : ~ complete_frame_decided rtr_decode_v0 rtr_complete.
Proof.
  intro H. apply (H [2; 9; 0; 1; 0; 0; 0; 8]).
  - exists 8. split; [reflexivity|]. vm_compute. congruence.
  - vm_compute. reflexivity.
Qed.

(* Non-vacuity: the repaired decoder does deliver messages. *)
Example rtr_two_pdus :
  run_stream rtr_decode [[1; 3; 0; 7; 0; 0; 0; 8; 1; 7; 0; 7; 0; 0]; [0; 24; 0; 0; 0; 99; 0; 0; 14; 16; 0; 0; 2; 88; 0; 0; 28; 32]]
  = Some [EvMsg (RCacheResponse 7) 6; EvNeed 6; EvMsg (REndOfData 7 99 3600 600 7200) 0; EvNeed 0].
Proof. vm_compute. reflexivity. Qed.

Example rtr_complete_example : rtr_complete [2; 9; 0; 1; 0; 0; 0; 8].
Proof. exists 8. split; [reflexivity|]. vm_compute. congruence. Qed.
