(* C03, RTR part: the repaired RtrCodec::decode never panics, consumes input
   whenever it returns a message, decides every complete frame, and is
   insensitive to fragmentation.  The pre-repair decoder (rtr_decode_v0) is
   refuted on the last three counts. *)
From Coq Require Import List NArith Bool Lia ZifyBool ZifyNat ZifyN.
From RB Require Import Base.Val Base.Bytes Model.Stream Model.Rtr Spec.WireSpec Proofs.Stream.
Import ListNotations.
Open Scope N_scope.

Lemma len_app (a b : list N) : len (a ++ b) = len a + len b.
Proof. unfold len. rewrite app_length. lia. Qed.

Lemma len_cons a (l : list N) : len (a :: l) = len l + 1.
Proof. unfold len. cbn [length]. lia. Qed.

Lemma len_length (l : list N) : N.to_nat (len l) = length l.
Proof. unfold len. lia. Qed.

(* what the first two tests of rtr_decode establish *)
Lemma rtr_header buf :
  (len buf <? 8) = false ->
  exists v t s1 s2 a b c d tl, buf = v :: t :: s1 :: s2 :: a :: b :: c :: d :: tl.
Proof.
  intro H.
  do 8 (destruct buf as [|? buf]; [exfalso; rewrite ?len_cons in H; cbn in H; lia|]).
  repeat eexists.
Qed.

Lemma rtr_length_field_spec buf l :
  rtr_length_field buf = Some l ->
  exists v t s1 s2 a b c d tl, buf = v :: t :: s1 :: s2 :: a :: b :: c :: d :: tl /\ l = be32 a b c d.
Proof.
  unfold rtr_length_field.
  do 8 (destruct buf as [|? buf]; [discriminate|]). intro H. injection H as <-.
  repeat eexists.
Qed.

Lemma firstn_app_le {A} n (a b : list A) : (n <= length a)%nat -> firstn n (a ++ b) = firstn n a.
Proof. intro H. rewrite firstn_app. replace (n - length a)%nat with 0%nat by lia. cbn [firstn]. apply app_nil_r. Qed.

Lemma skipn_app_le {A} n (a b : list A) : (n <= length a)%nat -> skipn n (a ++ b) = skipn n a ++ b.
Proof. intro H. rewrite skipn_app. replace (n - length a)%nat with 0%nat by lia. reflexivity. Qed.

(* one turn of the loop, with the length field named *)
Definition step_body (src : list N) (l : N) : rtr_step_res :=
  if l <? 8 then RsDone (DErr tt src) else
  if len src <? l then RsDone (DNeed src) else
  match nth_error (firstn (N.to_nat l) src) 1 with
  | None => RsDone DPanic
  | Some ty =>
    if negb (is_used_type ty) then RsSkip (skipn (N.to_nat l) src) else
    match rtr_from_bytes (firstn (N.to_nat l) src) with
    | Some (m, _) => RsDone (DMsg m (skipn (N.to_nat l) src))
    | None => RsDone (DErr tt (skipn (N.to_nat l) src))
    end
  end.

Lemma rtr_step_unfold src :
  (len src <? 8) = false -> exists l, rtr_length_field src = Some l /\ rtr_step src = step_body src l.
Proof.
  intro H8. destruct (rtr_header src H8) as (v & t & s1 & s2 & a & b & c & d & tl & ->).
  exists (be32 a b c d). split; [reflexivity|]. unfold rtr_step. rewrite H8. reflexivity.
Qed.

Lemma rtr_step_short src : (len src <? 8) = true -> rtr_step src = RsDone (DNeed src).
Proof. intro H. unfold rtr_step. rewrite H. reflexivity. Qed.

Lemma rtr_length_field_short src : (len src <? 8) = true -> rtr_length_field src = None.
Proof.
  intro H. unfold rtr_length_field.
  do 8 (destruct src as [|? src]; [reflexivity|]). rewrite !len_cons in H. lia.
Qed.

(* what one turn can do *)
Lemma rtr_step_cases src :
  match rtr_step src with
  | RsSkip rest => (length rest + 8 <= length src)%nat /\ exists used, src = used ++ rest
  | RsDone (DMsg m rest) => (length rest + 8 <= length src)%nat /\ exists used, src = used ++ rest
  | RsDone (DErr _ rest) => exists used, src = used ++ rest
  | RsDone (DNeed rest) => rest = src /\ ~ rtr_complete src
  | RsDone DPanic => False
  end.
Proof.
  destruct (len src <? 8) eqn:H8.
  { rewrite (rtr_step_short _ H8). split; [reflexivity|]. intros (l & Hl & _).
    rewrite (rtr_length_field_short _ H8) in Hl. discriminate. }
  destruct (rtr_step_unfold src H8) as (l & Hl & ->). unfold step_body.
  destruct (l <? 8) eqn:E8; [exists []; reflexivity|].
  destruct (len src <? l) eqn:El.
  { split; [reflexivity|]. intros (l' & Hl' & Hle). rewrite Hl in Hl'. injection Hl' as <-. lia. }
  assert (Hn : (N.to_nat l <= length src)%nat) by (pose proof (len_length src); lia).
  assert (Hused : exists used, src = used ++ skipn (N.to_nat l) src)
    by (exists (firstn (N.to_nat l) src); symmetry; apply firstn_skipn).
  assert (Hlen : (length (skipn (N.to_nat l) src) + 8 <= length src)%nat) by (rewrite skipn_length; lia).
  destruct (nth_error (firstn (N.to_nat l) src) 1) as [ty|] eqn:Ety.
  - destruct (negb (is_used_type ty)); [split; assumption|].
    destruct (rtr_from_bytes _) as [[m l2]|]; [split; assumption|exact Hused].
  - apply nth_error_None in Ety. rewrite firstn_length in Ety. lia.
Qed.

(* the properties of the whole loop, by induction on the fuel *)
Lemma rtr_fuel_spec : forall fuel src, (length src < fuel)%nat ->
  match rtr_decode_fuel fuel src with
  | DMsg m rest => (length rest < length src)%nat /\ exists used, src = used ++ rest
  | DErr _ rest => exists used, src = used ++ rest
  | DNeed rest => ~ rtr_complete rest /\ (exists used, src = used ++ rest) /\
                  (rtr_complete src -> (length rest < length src)%nat)
  | DPanic => False
  end.
Proof.
  induction fuel as [|f IH]; intros src Hf; [lia|].
  cbn [rtr_decode_fuel]. pose proof (rtr_step_cases src) as Hc.
  destruct (rtr_step src) as [[m rest|rest|e rest|]|rest].
  - destruct Hc as [Hl Hu]. split; [lia|exact Hu].
  - destruct Hc as [-> Hn]. split; [exact Hn|]. split; [exists []; reflexivity|]. intro Hcpl. contradiction.
  - exact Hc.
  - exact Hc.
  - destruct Hc as [Hl (used & Hu)]. specialize (IH rest ltac:(lia)).
    destruct (rtr_decode_fuel f rest) as [m r2|r2|e r2|].
    + destruct IH as [Hl2 (u2 & Hu2)]. split; [lia|]. exists (used ++ u2). rewrite <- app_assoc, <- Hu2. exact Hu.
    + destruct IH as (Hn & (u2 & Hu2) & _). split; [exact Hn|]. split.
      * exists (used ++ u2). rewrite <- app_assoc, <- Hu2. exact Hu.
      * intros _. assert (length r2 <= length rest)%nat by (rewrite Hu2, app_length; lia). lia.
    + destruct IH as (u2 & Hu2). exists (used ++ u2). rewrite <- app_assoc, <- Hu2. exact Hu.
    + exact IH.
Qed.

Lemma C03_rtr_decode_no_panic : never_panics rtr_decode.
Proof.
  intros buf H. pose proof (rtr_fuel_spec (S (length buf)) buf ltac:(lia)) as Hs.
  unfold rtr_decode in H. rewrite H in Hs. exact Hs.
Qed.

Lemma C03_rtr_decode_consumes : consumes_input rtr_decode.
Proof.
  intros buf m rest H. pose proof (rtr_fuel_spec (S (length buf)) buf ltac:(lia)) as Hs.
  unfold rtr_decode in H. rewrite H in Hs. exact Hs.
Qed.

Lemma C03_rtr_complete_frame_decided : complete_frame_decided rtr_decode rtr_complete.
Proof.
  intros buf rest Hc H. pose proof (rtr_fuel_spec (S (length buf)) buf ltac:(lia)) as Hs.
  unfold rtr_decode in H. rewrite H in Hs. destruct Hs as (_ & _ & Hl). exact (Hl Hc).
Qed.

Lemma C03_rtr_need_only_if_incomplete : need_only_if_incomplete rtr_decode rtr_complete.
Proof.
  intros buf rest H. pose proof (rtr_fuel_spec (S (length buf)) buf ltac:(lia)) as Hs.
  unfold rtr_decode in H. rewrite H in Hs. destruct Hs as (Hn & Hu & _). split; assumption.
Qed.

(* ---- fuel does not matter once it exceeds the buffer length *)
Lemma rtr_fuel_indep : forall f1 f2 src, (length src < f1)%nat -> (length src < f2)%nat ->
  rtr_decode_fuel f1 src = rtr_decode_fuel f2 src.
Proof.
  induction f1 as [|f1 IH]; intros f2 src H1 H2; [lia|]. destruct f2 as [|f2]; [lia|].
  cbn [rtr_decode_fuel]. pose proof (rtr_step_cases src) as Hc.
  destruct (rtr_step src) as [r|rest]; [reflexivity|]. destruct Hc as [Hl _]. apply IH; lia.
Qed.

(* ---- a turn only looks at its own frame *)
Lemma rtr_length_field_app buf ext l :
  rtr_length_field buf = Some l -> rtr_length_field (buf ++ ext) = Some l.
Proof.
  intro H. destruct (rtr_length_field_spec _ _ H) as (v & t & s1 & s2 & a & b & c & d & tl & -> & ->).
  reflexivity.
Qed.

Lemma rtr_step_ext src ext :
  match rtr_step src with
  | RsSkip rest => rtr_step (src ++ ext) = RsSkip (rest ++ ext)
  | RsDone (DMsg m rest) => rtr_step (src ++ ext) = RsDone (DMsg m (rest ++ ext))
  | RsDone (DErr e rest) => rtr_step (src ++ ext) = RsDone (DErr e (rest ++ ext))
  | _ => True
  end.
Proof.
  destruct (len src <? 8) eqn:H8; [rewrite (rtr_step_short _ H8); exact I|].
  assert (H8' : (len (src ++ ext) <? 8) = false) by (rewrite len_app; lia).
  destruct (rtr_step_unfold src H8) as (l & Hl & ->).
  destruct (rtr_step_unfold (src ++ ext) H8') as (l' & Hl' & ->).
  rewrite (rtr_length_field_app _ ext _ Hl) in Hl'. injection Hl' as <-.
  unfold step_body.
  destruct (l <? 8) eqn:E8; [reflexivity|].
  destruct (len src <? l) eqn:El; [exact I|].
  assert (El' : (len (src ++ ext) <? l) = false) by (rewrite len_app; lia). rewrite El'.
  assert (Hn : (N.to_nat l <= length src)%nat) by (pose proof (len_length src); lia).
  rewrite (firstn_app_le _ _ _ Hn), (skipn_app_le _ _ _ Hn).
  destruct (nth_error _ 1) as [ty|]; [|exact I].
  destruct (negb (is_used_type ty)); [reflexivity|].
  destruct (rtr_from_bytes _) as [[m l2]|]; reflexivity.
Qed.

Lemma rtr_fuel_ext : forall fuel src ext, (length src < fuel)%nat ->
  match rtr_decode_fuel fuel src with
  | DMsg m rest => rtr_decode (src ++ ext) = DMsg m (rest ++ ext)
  | DErr e rest => rtr_decode (src ++ ext) = DErr e (rest ++ ext)
  | DNeed rest => rtr_decode (src ++ ext) = rtr_decode (rest ++ ext)
  | DPanic => True
  end.
Proof.
  induction fuel as [|f IH]; intros src ext Hf; [lia|].
  cbn [rtr_decode_fuel]. pose proof (rtr_step_cases src) as Hc. pose proof (rtr_step_ext src ext) as He.
  assert (Hun : rtr_decode (src ++ ext) =
                match rtr_step (src ++ ext) with
                | RsDone r => r
                | RsSkip rest => rtr_decode_fuel (length (src ++ ext)) rest
                end) by reflexivity.
  destruct (rtr_step src) as [[m rest|rest|e rest|]|rest].
  - rewrite Hun, He. reflexivity.
  - destruct Hc as [-> _]. reflexivity.
  - rewrite Hun, He. reflexivity.
  - exact I.
  - destruct Hc as [Hl _]. specialize (IH rest ext ltac:(lia)).
    assert (Hfi : rtr_decode (src ++ ext) = rtr_decode (rest ++ ext)).
    { rewrite Hun, He. unfold rtr_decode. apply rtr_fuel_indep; rewrite !app_length; lia. }
    destruct (rtr_decode_fuel f rest) as [m r2|r2|e r2|]; rewrite ?Hfi; try exact IH.
Qed.

Theorem C03_rtr_fragmentation_invariant : fragmentation_invariant rtr_decode.
Proof.
  refine (stream_fragmentation_invariant rtr_decode _ _ _ _ _).
  - exact C03_rtr_decode_no_panic.
  - intros buf m rest H. exact (proj1 (C03_rtr_decode_consumes buf m rest H)).
  - intros buf m rest ext H. pose proof (rtr_fuel_ext (S (length buf)) buf ext ltac:(lia)) as He.
    unfold rtr_decode in H. rewrite H in He. exact He.
  - intros buf e rest ext H. pose proof (rtr_fuel_ext (S (length buf)) buf ext ltac:(lia)) as He.
    unfold rtr_decode in H. rewrite H in He. exact He.
  - intros buf rest ext H. pose proof (rtr_fuel_ext (S (length buf)) buf ext ltac:(lia)) as He.
    unfold rtr_decode in H. rewrite H in He. exact He.
Qed.

(* ---- what was wrong before the repair (model of the code at e40a5c0) *)

(* a PDU with length field 0 is returned as a message and nothing is consumed *)
Lemma C03_rtr_v0_consumes_refuted : ~ consumes_input rtr_decode_v0.
Proof.
  intro H. destruct (H [0; 2; 0; 0; 0; 0; 0; 0] RResetQuery [0; 2; 0; 0; 0; 0; 0; 0]) as [Hl _].
  - vm_compute. reflexivity.
  - cbn [length] in Hl. lia.
Qed.

(* a complete Router Key PDU (type 9, 8 bytes announced, 8 buffered) is answered "need more" *)
Lemma C03_rtr_v0_complete_frame_refuted : ~ complete_frame_decided rtr_decode_v0 rtr_complete.
Proof.
  intro H. specialize (H [2; 9; 0; 1; 0; 0; 0; 8] [2; 9; 0; 1; 0; 0; 0; 8]).
  assert (Hc : rtr_complete [2; 9; 0; 1; 0; 0; 0; 8]) by (exists 8; split; [reflexivity|vm_compute; congruence]).
  specialize (H Hc eq_refl). cbn [length] in H. lia.
Qed.

(* Non-vacuity: the repaired decoder does deliver messages. *)
Example rtr_two_pdus :
  run_stream rtr_decode [[1; 3; 0; 7; 0; 0; 0; 8; 1; 7; 0; 7; 0; 0]; [0; 24; 0; 0; 0; 99; 0; 0; 14; 16; 0; 0; 2; 88; 0; 0; 28; 32]]
  = Some [EvMsg (RCacheResponse 7) 6; EvNeed 6; EvMsg (REndOfData 7 99 3600 600 7200) 0; EvNeed 0].
Proof. vm_compute. reflexivity. Qed.

Example rtr_complete_example : rtr_complete [2; 9; 0; 1; 0; 0; 0; 8].
Proof. exists 8. split; [reflexivity|]. vm_compute. congruence. Qed.
