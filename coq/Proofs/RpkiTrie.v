(* Lemmas about the association-list model of the patricia map and the set
   view of the VRP table (property C12, second sentence). *)
From Coq Require Import List NArith Bool Lia ZifyBool ZifyNat ZifyN FinFun.
From RB Require Import Model.Rpki.
Import ListNotations.
Open Scope N_scope.

Lemma key_eqb_eq : forall a b, key_eqb a b = true <-> a = b.
Proof.
  induction a as [|x a IH]; destruct b as [|y b]; cbn; split; intro H; try congruence; try discriminate.
  - apply andb_true_iff in H. destruct H as [H1 H2]. apply N.eqb_eq in H1. apply IH in H2. congruence.
  - inversion H; subst. rewrite N.eqb_refl. cbn. apply IH. reflexivity.
Qed.

Lemma key_eqb_refl : forall a, key_eqb a a = true.
Proof. intro a. apply key_eqb_eq. reflexivity. Qed.

Lemma key_eqb_neq : forall a b, key_eqb a b = false <-> a <> b.
Proof.
  intros a b. split.
  - intros H E. apply key_eqb_eq in E. congruence.
  - intro H. destruct (key_eqb a b) eqn:E; [|reflexivity]. apply key_eqb_eq in E. contradiction.
Qed.

Lemma key_eq_dec : forall a b : key, {a = b} + {a <> b}.
Proof. intros a b. destruct (key_eqb a b) eqn:E; [left; apply key_eqb_eq; exact E | right; apply key_eqb_neq; exact E]. Qed.

Lemma same_roa_eq : forall a b, same_roa a b = true <-> a = b.
Proof.
  intros [m1 a1 s1] [m2 a2 s2]. unfold same_roa. cbn. split.
  - intro H. apply andb_true_iff in H. destruct H as [H H3]. apply andb_true_iff in H. destruct H as [H1 H2].
    apply N.eqb_eq in H1, H2, H3. congruence.
  - intro H. inversion H; subst. rewrite !N.eqb_refl. reflexivity.
Qed.

Lemma same_roa_neq : forall a b, same_roa a b = false <-> a <> b.
Proof.
  intros a b. split.
  - intros H E. apply same_roa_eq in E. congruence.
  - intro H. destruct (same_roa a b) eqn:E; [|reflexivity]. apply same_roa_eq in E. contradiction.
Qed.

Definition keys (m : trie) : list key := map fst m.

(* ---- tget: the map view *)
Lemma tget_in : forall k m e, tget k m = Some e -> In (k, e) m.
Proof.
  induction m as [|[k' e'] m IH]; intros e H; cbn in H; [discriminate|].
  destruct (key_eqb k k') eqn:E.
  - apply key_eqb_eq in E. inversion H; subst. left. reflexivity.
  - right. apply IH. exact H.
Qed.

Lemma tget_none : forall k m, tget k m = None <-> ~ In k (keys m).
Proof.
  induction m as [|[k' e'] m IH]; cbn; [tauto|].
  destruct (key_eqb k k') eqn:E.
  - apply key_eqb_eq in E. subst. split; [discriminate|]. intro H. exfalso. apply H. left. reflexivity.
  - apply key_eqb_neq in E. rewrite IH. split; intro H; [intros [H1|H1]; [congruence|contradiction] | intro H1; apply H; right; exact H1].
Qed.

Lemma in_tget : forall k m e, NoDup (keys m) -> In (k, e) m -> tget k m = Some e.
Proof.
  induction m as [|[k' e'] m IH]; intros e ND H; [contradiction|].
  cbn in ND. inversion ND as [|? ? Hn ND']; subst. cbn.
  destruct H as [H|H].
  - inversion H; subst. rewrite key_eqb_refl. reflexivity.
  - destruct (key_eqb k k') eqn:E.
    + apply key_eqb_eq in E. subst. exfalso. apply Hn. apply in_map_iff. exists (k', e). split; [reflexivity|exact H].
    + apply IH; assumption.
Qed.

Lemma tget_tset : forall k e m k', tget k' (tset k e m) = if key_eqb k' k then Some e else tget k' m.
Proof.
  induction m as [|[k0 e0] m IH]; intros k'; cbn.
  - destruct (key_eqb k' k); reflexivity.
  - destruct (key_eqb k k0) eqn:E; cbn.
    + apply key_eqb_eq in E. subst. destruct (key_eqb k' k0); reflexivity.
    + rewrite IH. destruct (key_eqb k' k0) eqn:E2; [|reflexivity].
      apply key_eqb_eq in E2. subst. rewrite key_eqb_neq in E.
      destruct (key_eqb k0 k) eqn:E3; [|reflexivity]. apply key_eqb_eq in E3. congruence.
Qed.

Lemma keys_tset_in : forall k e m, In k (keys m) -> keys (tset k e m) = keys m.
Proof.
  induction m as [|[k0 e0] m IH]; intros H; [contradiction|]. cbn.
  destruct (key_eqb k k0) eqn:E; cbn.
  - reflexivity.
  - f_equal. apply IH. destruct H as [H|H]; [|exact H]. cbn in H. apply key_eqb_neq in E. congruence.
Qed.

Lemma tget_app_new : forall k e m k', tget k m = None ->
  tget k' (m ++ [(k, e)]) = if key_eqb k' k then Some e else tget k' m.
Proof.
  induction m as [|[k0 e0] m IH]; intros k' H; cbn.
  - reflexivity.
  - cbn in H. destruct (key_eqb k k0) eqn:E; [discriminate|].
    destruct (key_eqb k' k0) eqn:E2.
    + apply key_eqb_eq in E2. subst. destruct (key_eqb k0 k) eqn:E3; [|reflexivity].
      apply key_eqb_eq in E3. subst. rewrite key_eqb_refl in E. discriminate.
    + apply IH. exact H.
Qed.

Lemma tget_tdel : forall k m k', NoDup (keys m) ->
  tget k' (tdel k m) = if key_eqb k' k then None else tget k' m.
Proof.
  induction m as [|[k0 e0] m IH]; intros k' ND; cbn.
  - destruct (key_eqb k' k); reflexivity.
  - cbn in ND. inversion ND as [|? ? Hn ND']; subst.
    destruct (key_eqb k k0) eqn:E.
    + apply key_eqb_eq in E. subst. destruct (key_eqb k' k0) eqn:E2; [|reflexivity].
      apply key_eqb_eq in E2. subst. apply tget_none. exact Hn.
    + cbn. rewrite IH by exact ND'. destruct (key_eqb k' k0) eqn:E2; [|reflexivity].
      apply key_eqb_eq in E2. subst. destruct (key_eqb k0 k) eqn:E3; [|reflexivity].
      apply key_eqb_eq in E3. subst. rewrite key_eqb_refl in E. discriminate.
Qed.

Lemma keys_tdel_incl : forall k m x, In x (keys (tdel k m)) -> In x (keys m).
Proof.
  induction m as [|[k0 e0] m IH]; intros x H; [exact H|]. cbn in *.
  destruct (key_eqb k k0); [right; exact H|]. cbn in H. destruct H as [H|H]; [left; exact H|right; apply IH; exact H].
Qed.

Lemma nodup_tdel : forall k m, NoDup (keys m) -> NoDup (keys (tdel k m)).
Proof.
  induction m as [|[k0 e0] m IH]; intros ND; [exact ND|]. cbn in *.
  inversion ND as [|? ? Hn ND']; subst.
  destruct (key_eqb k k0); [exact ND'|]. cbn. constructor; [|apply IH; exact ND'].
  intro H. apply Hn. eapply keys_tdel_incl. exact H.
Qed.

Lemma nodup_tset : forall k e m, NoDup (keys m) -> NoDup (keys (tset k e m)).
Proof.
  induction m as [|[k0 e0] m IH]; intros ND; cbn.
  - constructor; [intros []|constructor].
  - cbn in ND. inversion ND as [|? ? Hn ND']; subst.
    destruct (key_eqb k k0) eqn:E; cbn.
    + constructor; assumption.
    + constructor; [|apply IH; exact ND'].
      intro H. apply Hn. 
      destruct (tget k m) eqn:G.
      * rewrite keys_tset_in in H; [exact H|]. apply tget_in in G. apply in_map_iff. exists (k, l). split; [reflexivity|exact G].
      * clear IH ND ND' Hn. revert H. apply key_eqb_neq in E. revert G. clear -E.
        induction m as [|[k1 e1] m IH]; cbn; intros G H.
        -- destruct H as [H|[]]. congruence.
        -- destruct (key_eqb k k1) eqn:E1; [discriminate|]. cbn in H.
           destruct H as [H|H]; [left; exact H|right; apply IH; assumption].
Qed.

Lemma nodup_app_new : forall k e m, NoDup (keys m) -> tget k m = None -> NoDup (keys (m ++ [(k, e)])).
Proof.
  intros k e m ND G. unfold keys. rewrite map_app. cbn.
  apply NoDup_app_remove_l with (l := []) || idtac.
  apply tget_none in G.
  clear -ND G. unfold keys in *. induction (map fst m) as [|x l IH]; cbn.
  - constructor; [intros []|constructor].
  - inversion ND as [|? ? Hn ND']; subst. constructor.
    + intro H. apply in_app_or in H. destruct H as [H|[H|[]]]; [contradiction|]. subst. apply G. left. reflexivity.
    + apply IH; [exact ND'|]. intro H. apply G. right. exact H.
Qed.

(* ---- membership: VRP (k, r) is installed *)
Definition mem (m : trie) (k : key) (r : roa) : Prop := exists e, tget k m = Some e /\ In r e.

Definition aset (m : trie) : list (key * roa) := flat_map (fun ke => map (pair (fst ke)) (snd ke)) m.

Lemma in_aset : forall m k r, In (k, r) (aset m) <-> exists e, In (k, e) m /\ In r e.
Proof.
  intros m k r. unfold aset. rewrite in_flat_map. split.
  - intros [[k' e] [H1 H2]]. cbn in H2. apply in_map_iff in H2. destruct H2 as [r' [H2 H3]].
    inversion H2; subst. exists e. split; assumption.
  - intros [e [H1 H2]]. exists (k, e). split; [exact H1|]. cbn. apply in_map. exact H2.
Qed.

Lemma in_aset_mem : forall m k r, NoDup (keys m) -> (In (k, r) (aset m) <-> mem m k r).
Proof.
  intros m k r ND. rewrite in_aset. unfold mem. split; intros [e [H1 H2]]; exists e; split; auto.
  - apply in_tget; assumption.
  - apply tget_in. exact H1.
Qed.

Definition wf_trie (m : trie) : Prop :=
  NoDup (keys m) /\ Forall (fun ke => snd ke <> [] /\ NoDup (snd ke)) m.

Lemma wf_entry : forall m k e, wf_trie m -> tget k m = Some e -> e <> [] /\ NoDup e.
Proof.
  intros m k e [_ W] G. apply tget_in in G. rewrite Forall_forall in W. apply (W (k, e) G).
Qed.

Lemma nodup_app {A} : forall (l1 l2 : list A),
  NoDup l1 -> NoDup l2 -> (forall x, In x l1 -> ~ In x l2) -> NoDup (l1 ++ l2).
Proof.
  induction l1 as [|x l1 IH]; intros l2 N1 N2 D; [exact N2|].
  inversion N1 as [|? ? Hx N1']; subst. cbn. constructor.
  - intro H. apply in_app_or in H. destruct H as [H|H]; [contradiction|]. apply (D x (or_introl eq_refl) H).
  - apply IH; [exact N1'|exact N2|]. intros y Hy. apply D. right. exact Hy.
Qed.

Lemma nodup_aset : forall m, wf_trie m -> NoDup (aset m).
Proof.
  induction m as [|[k e] m IH]; intros [ND W]; [constructor|].
  cbn in ND. inversion ND as [|? ? Hn ND']; subst. inversion W as [|? ? [_ He] W']; subst.
  unfold aset. cbn [flat_map fst snd]. fold (aset m).
  apply nodup_app.
  - apply Injective_map_NoDup; [|exact He]. intros a b H. inversion H. reflexivity.
  - apply IH. split; assumption.
  - intros [k' r'] H1 H2. apply in_map_iff in H1. destruct H1 as [r [H1 _]]. inversion H1; subst.
    apply in_aset in H2. destruct H2 as [e' [H2 _]].
    apply Hn. apply in_map_iff. exists (k', e'). split; [reflexivity|exact H2].
Qed.

(* ---- insert *)
Lemma trie_insert_spec : forall k r m k' r',
  mem (trie_insert k r m) k' r' <-> (k' = k /\ r' = r) \/ mem m k' r'.
Proof.
  intros k r m k' r'. unfold trie_insert, mem.
  destruct (tget k m) as [e|] eqn:G.
  - destruct (existsb (fun x => same_roa x r) e) eqn:X.
    + split; [intro H; right; exact H|].
      intros [[? ?]|H]; [subst|exact H].
      apply existsb_exists in X. destruct X as [x [Hx Hs]]. apply same_roa_eq in Hs. subst.
      exists e. split; assumption.
    + split.
      * intros [e' [H1 H2]]. rewrite tget_tset in H1. destruct (key_eqb k' k) eqn:E.
        -- apply key_eqb_eq in E. subst. inversion H1; subst. apply in_app_or in H2.
           destruct H2 as [H2|[H2|[]]]; [right; exists e; split; assumption | left; split; congruence].
        -- right. exists e'. split; assumption.
      * intros [[? ?]|[e' [H1 H2]]]; subst.
        -- exists (e ++ [r]). rewrite tget_tset, key_eqb_refl. split; [reflexivity|]. apply in_or_app. right. left. reflexivity.
        -- rewrite tget_tset. destruct (key_eqb k' k) eqn:E.
           ++ apply key_eqb_eq in E. subst. rewrite G in H1. inversion H1; subst.
              exists (e' ++ [r]). split; [reflexivity|]. apply in_or_app. left. exact H2.
           ++ exists e'. split; assumption.
  - split.
    + intros [e' [H1 H2]]. rewrite tget_app_new in H1 by exact G. destruct (key_eqb k' k) eqn:E.
      * apply key_eqb_eq in E. subst. inversion H1; subst. destruct H2 as [H2|[]]. left. split; congruence.
      * right. exists e'. split; assumption.
    + intros [[? ?]|[e' [H1 H2]]]; subst.
      * exists [r]. rewrite tget_app_new, key_eqb_refl by exact G. split; [reflexivity|left; reflexivity].
      * rewrite tget_app_new by exact G. destruct (key_eqb k' k) eqn:E.
        -- apply key_eqb_eq in E. subst. congruence.
        -- exists e'. split; assumption.
Qed.

Lemma Forall_tset : forall (P : key * list roa -> Prop) k e m,
  Forall P m -> (forall k0, P (k0, e)) -> Forall P (tset k e m).
Proof.
  induction m as [|[k0 e0] m IH]; intros W H; cbn.
  - constructor; [apply H|constructor].
  - inversion W; subst. destruct (key_eqb k k0); constructor; auto.
Qed.

Lemma trie_insert_wf : forall k r m, wf_trie m -> wf_trie (trie_insert k r m).
Proof.
  intros k r m [ND W]. unfold trie_insert.
  destruct (tget k m) as [e|] eqn:G.
  - destruct (existsb (fun x => same_roa x r) e) eqn:X; [split; assumption|].
    split; [apply nodup_tset; exact ND|].
    apply Forall_tset; [exact W|]. intros k0. cbn.
    destruct (wf_entry m k e (conj ND W) G) as [_ He]. split; [destruct e; discriminate|].
    apply NoDup_app_remove_l with (l := []) || idtac.
    assert (Hn : ~ In r e).
    { intro H. assert (existsb (fun x => same_roa x r) e = true); [|congruence].
      apply existsb_exists. exists r. split; [exact H|apply same_roa_eq; reflexivity]. }
    clear -He Hn. induction e as [|x e IH]; cbn; [constructor; [intros []|constructor]|].
    inversion He as [|? ? Hx He']; subst. constructor.
    + intro H. apply in_app_or in H. destruct H as [H|[H|[]]]; [contradiction|]. subst. apply Hn. left. reflexivity.
    + apply IH; [exact He'|]. intro H. apply Hn. right. exact H.
  - split; [apply nodup_app_new; assumption|].
    apply Forall_app. split; [exact W|]. constructor; [|constructor]. cbn.
    split; [discriminate|]. constructor; [intros []|constructor].
Qed.

(* ---- remove *)
Lemma trie_remove_spec : forall k r m k' r', NoDup (keys m) ->
  (mem (trie_remove k r m) k' r' <-> ~ (k' = k /\ r' = r) /\ mem m k' r').
Proof.
  intros k r m k' r' ND. unfold trie_remove, mem.
  destruct (tget k m) as [e|] eqn:G.
  - set (e1 := filter (fun x => negb (same_roa x r)) e).
    assert (Hin : forall x, In x e1 <-> In x e /\ x <> r).
    { intro x. unfold e1. rewrite filter_In. rewrite negb_true_iff, same_roa_neq. tauto. }
    destruct (is_nil e1) eqn:N.
    + assert (e1 = []) by (destruct e1; [reflexivity|discriminate]).
      split.
      * intros [e' [H1 H2]]. rewrite tget_tdel in H1 by exact ND. destruct (key_eqb k' k) eqn:E; [discriminate|].
        apply key_eqb_neq in E. split; [intros [? _]; contradiction|]. exists e'. split; assumption.
      * intros [Hne [e' [H1 H2]]]. rewrite tget_tdel by exact ND. destruct (key_eqb k' k) eqn:E.
        -- apply key_eqb_eq in E. subst k'. rewrite G in H1. inversion H1; subst e'.
           assert (In r' e1); [apply Hin; split; [exact H2|intro; subst; apply Hne; split; reflexivity]|].
           rewrite H in H0. contradiction.
        -- exists e'. split; assumption.
    + split.
      * intros [e' [H1 H2]]. rewrite tget_tset in H1. destruct (key_eqb k' k) eqn:E.
        -- apply key_eqb_eq in E. subst k'. inversion H1; subst e'. apply Hin in H2. destruct H2 as [H2 H3].
           split; [intros [_ ?]; contradiction|]. exists e. split; assumption.
        -- apply key_eqb_neq in E. split; [intros [? _]; contradiction|]. exists e'. split; assumption.
      * intros [Hne [e' [H1 H2]]]. rewrite tget_tset. destruct (key_eqb k' k) eqn:E.
        -- apply key_eqb_eq in E. subst k'. rewrite G in H1. inversion H1; subst e'.
           exists e1. split; [reflexivity|]. apply Hin. split; [exact H2|intro; subst; apply Hne; split; reflexivity].
        -- exists e'. split; assumption.
  - split.
    + intros [e' [H1 H2]]. split; [|exists e'; split; assumption].
      intros [? ?]; subst. congruence.
    + intros [_ H]. exact H.
Qed.

Lemma nodup_filter {A} : forall (f : A -> bool) l, NoDup l -> NoDup (filter f l).
Proof.
  induction l as [|x l IH]; intros ND; [constructor|]. inversion ND; subst. cbn.
  destruct (f x); [constructor; [rewrite filter_In; tauto|auto]|auto].
Qed.

Lemma Forall_tdel : forall (P : key * list roa -> Prop) k m, Forall P m -> Forall P (tdel k m).
Proof.
  induction m as [|[k0 e0] m IH]; intros W; [exact W|]. cbn. inversion W; subst.
  destruct (key_eqb k k0); [assumption|constructor; auto].
Qed.

Lemma trie_remove_wf : forall k r m, wf_trie m -> wf_trie (trie_remove k r m).
Proof.
  intros k r m [ND W]. unfold trie_remove.
  destruct (tget k m) as [e|] eqn:G; [|split; assumption].
  destruct (is_nil (filter (fun x => negb (same_roa x r)) e)) eqn:N.
  - split; [apply nodup_tdel; exact ND|apply Forall_tdel; exact W].
  - split; [apply nodup_tset; exact ND|]. apply Forall_tset; [exact W|]. intros k0. cbn.
    split; [destruct (filter (fun x => negb (same_roa x r)) e); [discriminate|discriminate]|].
    apply nodup_filter. apply (wf_entry m k e (conj ND W) G).
Qed.

(* ---- drop_source *)
Lemma tget_trie_drop : forall s m k, NoDup (keys m) ->
  tget k (trie_drop s m) =
  match tget k m with
  | Some e => let e' := filter (fun x => negb (r_src x =? s)) e in if is_nil e' then None else Some e'
  | None => None
  end.
Proof.
  induction m as [|[k0 e0] m IH]; intros k ND; [reflexivity|].
  cbn in ND. inversion ND as [|? ? Hn ND']; subst.
  unfold trie_drop in *. cbn [map filter fst snd].
  destruct (is_nil (filter (fun x => negb (r_src x =? s)) e0)) eqn:N; cbn [negb].
  - cbn [tget]. destruct (key_eqb k k0) eqn:E.
    + apply key_eqb_eq in E. subst. rewrite IH by exact ND'.
      assert (G : tget k0 m = None) by (apply tget_none; exact Hn). rewrite G. cbn. rewrite N. reflexivity.
    + apply IH. exact ND'.
  - cbn [tget fst snd]. destruct (key_eqb k k0) eqn:E.
    + cbn. rewrite N. reflexivity.
    + apply IH. exact ND'.
Qed.

Lemma trie_drop_spec : forall s m k r, NoDup (keys m) ->
  (mem (trie_drop s m) k r <-> r_src r <> s /\ mem m k r).
Proof.
  intros s m k r ND. unfold mem. rewrite tget_trie_drop by exact ND.
  destruct (tget k m) as [e|] eqn:G.
  - cbn zeta. destruct (is_nil (filter (fun x => negb (r_src x =? s)) e)) eqn:N.
    + assert (F : filter (fun x => negb (r_src x =? s)) e = []) by (destruct (filter _ e); [reflexivity|discriminate]).
      split; [intros [e' [H _]]; discriminate|].
      intros [Hs [e' [H1 H2]]]. inversion H1; subst e'.
      assert (In r (filter (fun x => negb (r_src x =? s)) e)) by (apply filter_In; split; [exact H2|lia]).
      rewrite F in H. contradiction.
    + split.
      * intros [e' [H1 H2]]. inversion H1; subst e'. apply filter_In in H2. destruct H2 as [H2 H3].
        split; [lia|]. exists e. split; [reflexivity|exact H2].
      * intros [Hs [e' [H1 H2]]]. inversion H1; subst e'. eexists. split; [reflexivity|].
        apply filter_In. split; [exact H2|lia].
  - split; [intros [e' [H _]]; discriminate|intros [_ [e' [H _]]]; discriminate].
Qed.

Lemma keys_trie_drop_incl : forall s m x, In x (keys (trie_drop s m)) -> In x (keys m).
Proof.
  intros s m x H. unfold keys, trie_drop in *. apply in_map_iff in H. destruct H as [[k e] [H1 H2]].
  apply filter_In in H2. destruct H2 as [H2 _]. apply in_map_iff in H2. destruct H2 as [[k' e'] [H2 H3]].
  cbn in H1, H2. injection H2 as Hk He. subst x. rewrite <- Hk. apply in_map_iff. exists (k', e'). split; [reflexivity|exact H3].
Qed.

Lemma trie_drop_wf : forall s m, wf_trie m -> wf_trie (trie_drop s m).
Proof.
  intros s m [ND W]. split.
  - clear W. induction m as [|[k0 e0] m IH]; [constructor|].
    cbn in ND. inversion ND as [|? ? Hn ND']; subst. unfold trie_drop in *. cbn [map filter fst snd].
    destruct (negb (is_nil (filter (fun x => negb (r_src x =? s)) e0))); [|apply IH; exact ND'].
    cbn. constructor; [|apply IH; exact ND'].
    intro H. apply Hn. eapply keys_trie_drop_incl. exact H.
  - unfold trie_drop. rewrite Forall_forall. intros [k e] H. apply filter_In in H. destruct H as [H1 H2].
    apply in_map_iff in H1. destruct H1 as [[k' e'] [H1 H3]]. cbn in H1, H2. injection H1 as Hk He. subst e. cbn [snd].
    split; [destruct (filter _ e'); [discriminate|discriminate]|].
    apply nodup_filter. rewrite Forall_forall in W. apply (W (k', e') H3).
Qed.
