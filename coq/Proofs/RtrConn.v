(* Proofs for property C13, connection layer: whatever the history of API calls
   (add / delete / enable / disable / hard and soft reset), cache-side events (TCP
   segments with any bytes, close) and retry timers, the only VRPs installed are those
   of other caches and those of the LIVE session; so when no session is live nothing
   of the cache remains.  The code before the repair (cleanup skipped when the outer
   select! branch of try_connect wins the cancellation race) is refuted. *)
From Coq Require Import List Arith NArith Bool Lia ZifyBool ZifyNat ZifyN.
From RB Require Import Base.Val Model.Rpki Model.RtrClient Model.RtrConn Spec.Rfc6811 Spec.RtrSpec
  Proofs.RpkiTrie Proofs.Rpki Proofs.RtrClient.
Import ListNotations.
Open Scope N_scope.

Definition conn_ok (k : conn) : Prop :=
  wf_tab (k_tab k)
  /\ BASE <= k_gen k
  /\ (k_task k = TServe -> v_ok (k_tok k) (k_cur k) /\ BASE <= k_tok k /\ c_done (k_cur k) = false)
  /\ (forall x, tmem (k_tab k) x -> cache_of x < BASE \/ (k_task k = TServe /\ cache_of x = k_tok k)).

(* bookkeeping of the API layer: a task exists only for a registered, enabled client *)
Definition conn_reg_ok (k : conn) : Prop :=
  (k_reg k = false -> k_task k = TIdle) /\ (k_disabled k = true -> k_task k = TIdle).

Lemma v_ok_new_session : forall c st, v_ok c (new_session st).
Proof. intros c st. constructor. Qed.

Lemma conn_ok_connect : forall k, conn_ok k -> k_task k <> TServe -> conn_ok (fst (connect k)).
Proof.
  intros k [W [G [_ I]]] NS. unfold connect. cbn [fst]. unfold conn_ok, set_conn.
  cbn [k_tab k_gen k_task k_tok k_cur].
  split; [exact W|]. split; [lia|]. split; [intros _; split; [apply v_ok_new_session|split; [exact G|reflexivity]]|].
  intros x Hx. destruct (I x Hx) as [H|[H _]]; [left; exact H|contradiction].
Qed.

(* the foreign VRPs through connect *)
Lemma connect_tab : forall k, k_tab (fst (connect k)) = k_tab k.
Proof. reflexivity. Qed.

Lemma conn_ok_cancel : forall b k, conn_ok k ->
  conn_ok (cancel_task true b k) /\ k_task (cancel_task true b k) = TIdle
  /\ forall x, cache_of x < BASE -> (tmem (k_tab (cancel_task true b k)) x <-> tmem (k_tab k) x).
Proof.
  intros b k [W [G [S I]]]. unfold cancel_task.
  destruct (k_task k) eqn:T; cbn [orb]; unfold finish_session, set_conn, conn_ok;
    cbn [k_tab k_gen k_task k_tok k_cur].
  - split; [|split; [reflexivity|tauto]].
    split; [exact W|]. split; [exact G|]. split; [discriminate|].
    intros x Hx. destruct (I x Hx) as [H|[H _]]; [left; exact H|discriminate].
  - destruct (S eq_refl) as [_ [B _]].
    split; [|split; [reflexivity|]].
    + split; [apply drop_wf; exact W|]. split; [exact G|]. split; [discriminate|].
      intros x Hx. rewrite drop_spec in Hx by exact W. destruct Hx as [Hn Hx].
      destruct (I x Hx) as [H|[_ H]]; [left; exact H|contradiction].
    + intros x Hx. rewrite drop_spec by exact W. split; [tauto|]. intro H. split; [lia|exact H].
  - split; [|split; [reflexivity|tauto]].
    split; [exact W|]. split; [exact G|]. split; [discriminate|].
    intros x Hx. destruct (I x Hx) as [H|[H _]]; [left; exact H|discriminate].
Qed.

Lemma with_reg_ok : forall k r d, conn_ok k -> conn_ok (with_reg k r d).
Proof. intros k r d H. exact H. Qed.

(* an event of the live session: the invariant, and the foreign VRPs, are kept *)
Lemma conn_ok_event : forall k e st1 t1 sent task,
  conn_ok k -> k_task k = TServe ->
  client_event fixed (k_tok k) (k_cur k) (k_tab k) e = (st1, t1, sent) ->
  ((task = TServe /\ c_done st1 = false) \/ (task <> TServe /\ forall x, cache_of x = k_tok k -> ~ tmem t1 x)) ->
  conn_ok (with_cur k task st1 t1)
  /\ forall x, cache_of x < BASE -> (tmem t1 x <-> tmem (k_tab k) x).
Proof.
  intros k e st1 t1 sent task [W [G [S I]]] T CE Htask.
  destruct (S T) as [V [B D]].
  destruct (client_event_inv fixed (k_tok k) (k_cur k) (k_tab k) e st1 t1 sent W V CE) as [W1 [V1 I1]].
  split.
  - unfold conn_ok, with_cur, set_conn. cbn [k_tab k_gen k_task k_tok k_cur].
    split; [exact W1|]. split; [exact G|]. split.
    + intros Ht. destruct Htask as [[_ D1]|[Hn _]]; [|contradiction]. split; [exact V1|split; [exact B|exact D1]].
    + intros x Hx. destruct (N.eq_dec (cache_of x) (k_tok k)) as [E|NE].
      * destruct Htask as [[Ht _]|[_ Ht]]; [right; split; assumption|exfalso; exact (Ht x E Hx)].
      * rewrite I1 in Hx by exact NE. destruct (I x Hx) as [H|[_ H]]; [left; exact H|contradiction].
  - intros x Hx. apply I1. lia.
Qed.

Lemma on_msg_done : forall fx c st t m, c_done (fst (fst (on_msg fx c st t m))) = c_done st.
Proof.
  intros fx c st t m. unfold on_msg.
  destruct m; cbn [fst];
    repeat match goal with |- context [if ?b then _ else _] => destruct b end; reflexivity.
Qed.

Lemma run_pdus_done : forall fx ms c st t, c_done (fst (run_pdus fx c ms st t)) = c_done st.
Proof.
  induction ms as [|m ms IH]; intros c st t; [reflexivity|].
  cbn [run_pdus]. pose proof (on_msg_done fx c st t m) as H.
  destruct (on_msg fx c st t m) as [[st1 t1] o]. cbn [fst] in H. rewrite IH. exact H.
Qed.

Lemma finish_clears : forall c st t st1 t1, wf_tab t -> finish_session c st t = (st1, t1) ->
  forall x, cache_of x = c -> ~ tmem t1 x.
Proof.
  intros c st t st1 t1 W H x Hx. unfold finish_session in H. inversion H; subst.
  rewrite drop_spec by exact W. tauto.
Qed.

(* a session that has left serve_inner ([c_done]) has gone through finish_session *)
Lemma client_event_done_clears : forall fx c st t e st1 t1 sent,
  wf_tab t -> v_ok c st -> c_done st = false ->
  client_event fx c st t e = (st1, t1, sent) -> c_done st1 = true ->
  forall x, cache_of x = c -> ~ tmem t1 x.
Proof.
  intros fx c st t e st1 t1 sent W V D CE D1. unfold client_event in CE. rewrite D in CE.
  destruct e as [c0 bytes|c0|c0|c0].
  - destruct (c_open st).
    2:{ inversion CE; subst. congruence. }
    destruct (Stream.drain (codec fx) (S (length (c_buf st ++ bytes))) (c_buf st ++ bytes)) as [[evs ds]|].
    + destruct (apply_evs_runs_pdus fx c evs st t []) as [o E]. rewrite E in CE.
      pose proof (run_pdus_iso fx (map of_rtr (Stream.msgs_of evs)) c st t W V) as R.
      pose proof (run_pdus_done fx (map of_rtr (Stream.msgs_of evs)) c st t) as RD.
      destruct (run_pdus fx c (map of_rtr (Stream.msgs_of evs)) st t) as [st2 t2]. cbn [fst snd] in CE, RD.
      destruct R as [W2 _]. rewrite D in RD.
      destruct (match Stream.err_of evs with Some _ => true | None => false end).
      * destruct (finish_session c st2 t2) as [st3 t3] eqn:F. inversion CE; subst.
        eapply finish_clears; eassumption.
      * unfold fire_permit in CE.
        destruct (c_permit (with_buf st2 _) && c_eod (with_buf st2 _)); inversion CE; subst;
          cbn [with_permit with_buf c_done] in D1; congruence.
    + destruct (finish_session c st t) as [st3 t3] eqn:F. inversion CE; subst. eapply finish_clears; eassumption.
  - unfold fire_permit in CE. cbn [with_permit c_permit c_eod] in CE.
    destruct (true && c_eod st); inversion CE; subst; cbn [with_permit c_done] in D1; congruence.
  - destruct (finish_session c _ t) as [st3 t3] eqn:F. inversion CE; subst. eapply finish_clears; eassumption.
  - destruct (finish_session c st t) as [st3 t3] eqn:F. inversion CE; subst. eapply finish_clears; eassumption.
Qed.


Lemma idle_ok : forall k r d cur, conn_ok k -> k_task k <> TServe ->
  conn_ok (set_conn k r d TIdle cur (k_tok k) (k_gen k) (k_tab k)).
Proof.
  intros k r d cur [W [G [S I]]] NS. unfold conn_ok, set_conn. cbn [k_tab k_gen k_task k_tok k_cur].
  split; [exact W|]. split; [exact G|]. split; [discriminate|].
  intros x Hx. destruct (I x Hx) as [H|[H _]]; [left; exact H|contradiction].
Qed.

Lemma step_connect : forall k (c : N),
  (let (k2, sent) := connect k in (k2, c, sent)) = (fst (connect k), c, snd (connect k)).
Proof. reflexivity. Qed.

(* ---- one operation of the connection layer *)
Lemma conn_step_ok : forall k o, conn_ok k -> conn_reg_ok k ->
  conn_ok (fst (fst (conn_step true k o)))
  /\ conn_reg_ok (fst (fst (conn_step true k o)))
  /\ forall x, cache_of x < BASE -> (tmem (k_tab (fst (fst (conn_step true k o)))) x <-> tmem (k_tab k) x).
Proof.
  intros k o K RR. pose proof RR as [R1 R2]. pose proof K as [W [G [S I]]].
  destruct o as [|b| |b|b| |bytes| |]; unfold conn_step.
  - (* OAdd *)
    destruct (k_reg k) eqn:R; [split; [exact K|split; [exact RR|tauto]]|].
    cbn [fst]. split; [|split; [split; cbn; discriminate|intros x _; reflexivity]].
    apply conn_ok_connect; [|cbn; discriminate].
    apply idle_ok; [exact K|rewrite (R1 eq_refl); discriminate].
  - (* ODelete *)
    destruct (k_reg k) eqn:R; [|split; [exact K|split; [exact RR|tauto]]].
    cbn [fst]. destruct (conn_ok_cancel b k K) as [K1 [T1 F1]].
    split; [exact K1|]. split; [split; intros _; exact T1|exact F1].
  - (* OEnable *)
    destruct (k_reg k) eqn:R; cbn [negb]; [|split; [exact K|split; [exact RR|tauto]]].
    destruct (k_disabled k) eqn:D; cbn [negb]; [|split; [exact K|split; [exact RR|tauto]]].
    cbn [fst]. split; [|split; [split; cbn; discriminate|intros x _; reflexivity]].
    apply conn_ok_connect; [exact K|]. cbn. rewrite (R2 eq_refl). discriminate.
  - (* ODisable *)
    destruct (k_reg k) eqn:R; cbn [negb]; [|split; [exact K|split; [exact RR|tauto]]].
    destruct (k_disabled k) eqn:D; [split; [exact K|split; [exact RR|tauto]]|].
    cbn [fst]. destruct (conn_ok_cancel b k K) as [K1 [T1 F1]].
    split; [exact K1|]. split; [split; intros _; exact T1|exact F1].
  - (* OResetHard *)
    destruct (k_reg k) eqn:R; cbn [negb]; [|split; [exact K|split; [exact RR|tauto]]].
    destruct (conn_ok_cancel b k K) as [K1 [T1 F1]].
    assert (D1 : k_disabled (cancel_task true b k) = k_disabled k)
      by (unfold cancel_task; destruct (k_task k); cbn [orb]; try destruct (finish_session _ _ _); reflexivity).
    assert (Rg1 : k_reg (cancel_task true b k) = k_reg k)
      by (unfold cancel_task; destruct (k_task k); cbn [orb]; try destruct (finish_session _ _ _); reflexivity).
    rewrite step_connect.
    destruct (k_disabled (cancel_task true b k)) eqn:D.
    + cbn [fst]. split; [exact K1|]. split; [split; intros _; exact T1|exact F1].
    + cbn [fst]. split; [apply conn_ok_connect; [exact K1|rewrite T1; discriminate]|].
      split; [split; cbn [connect fst set_conn k_reg k_disabled k_task]; [rewrite Rg1, R; discriminate|rewrite D; discriminate]|].
      intros x Hx. rewrite connect_tab. apply F1. exact Hx.
  - (* OResetSoft *)
    destruct (k_reg k) eqn:R; cbn [negb]; [|split; [exact K|split; [exact RR|tauto]]].
    destruct (k_disabled k) eqn:D; [split; [exact K|split; [exact RR|tauto]]|].
    destruct (k_task k) eqn:T.
    + cbn [fst]. split; [|split; [split; cbn; [rewrite R|rewrite D]; discriminate|tauto]].
      unfold with_cur. rewrite <- T at 1.
      unfold conn_ok, set_conn. cbn [k_tab k_gen k_task k_tok k_cur]. rewrite T.
      split; [exact W|]. split; [exact G|]. split; [discriminate|].
      intros x Hx. destruct (I x Hx) as [H|[H _]]; [left; exact H|discriminate].
    + destruct (client_event fixed (k_tok k) (k_cur k) (k_tab k) (ESoftReset (k_tok k))) as [[st1 t1] sent] eqn:CE.
      cbn [fst].
      assert (D1 : c_done st1 = false).
      { destruct (S eq_refl) as [_ [_ Dn]]. unfold client_event in CE. rewrite Dn in CE.
        unfold fire_permit in CE. cbn [with_permit c_permit c_eod] in CE.
        destruct (true && c_eod (k_cur k)); inversion CE; subst; cbn [with_permit c_done]; exact Dn. }
      destruct (conn_ok_event k _ st1 t1 sent TServe K T CE (or_introl (conj eq_refl D1))) as [K1 F1].
      split; [exact K1|]. split; [split; cbn; [rewrite R|rewrite D]; discriminate|exact F1].
    + cbn [fst]. split; [|split; [split; cbn; [rewrite R|rewrite D]; discriminate|tauto]].
      unfold with_cur, conn_ok, set_conn. cbn [k_tab k_gen k_task k_tok k_cur].
      split; [exact W|]. split; [exact G|]. split; [discriminate|].
      intros x Hx. destruct (I x Hx) as [H|[H _]]; [left; exact H|discriminate].
  - (* OFeed *)
    destruct (k_task k) eqn:T; try (split; [exact K|split; [exact RR|tauto]]).
    destruct (client_event fixed (k_tok k) (k_cur k) (k_tab k) (EFeed (k_tok k) bytes)) as [[st1 t1] sent] eqn:CE.
    cbn [fst]. destruct (S eq_refl) as [V [B Dn]].
    assert (Rk : k_reg k = true) by (destruct (k_reg k); [reflexivity|specialize (R1 eq_refl); congruence]).
    assert (Dk : k_disabled k = false) by (destruct (k_disabled k); [specialize (R2 eq_refl); congruence|reflexivity]).
    destruct (c_done st1) eqn:D1.
    + pose proof (client_event_done_clears fixed _ _ _ _ _ _ _ W V Dn CE D1) as CL.
      destruct (conn_ok_event k _ st1 t1 sent TSleep K T CE) as [K1 F1];
        [right; split; [discriminate|exact CL]|].
      split; [exact K1|]. split; [split; cbn; [rewrite Rk|rewrite Dk]; discriminate|exact F1].
    + destruct (conn_ok_event k _ st1 t1 sent TServe K T CE (or_introl (conj eq_refl D1))) as [K1 F1].
      split; [exact K1|]. split; [split; cbn; [rewrite Rk|rewrite Dk]; discriminate|exact F1].
  - (* OClose *)
    destruct (k_task k) eqn:T; try (split; [exact K|split; [exact RR|tauto]]).
    destruct (client_event fixed (k_tok k) (k_cur k) (k_tab k) (EClose (k_tok k))) as [[st1 t1] sent] eqn:CE.
    cbn [fst]. destruct (S eq_refl) as [V [B Dn]].
    assert (Rk : k_reg k = true) by (destruct (k_reg k); [reflexivity|specialize (R1 eq_refl); congruence]).
    assert (Dk : k_disabled k = false) by (destruct (k_disabled k); [specialize (R2 eq_refl); congruence|reflexivity]).
    assert (D1 : c_done st1 = true).
    { unfold client_event in CE. rewrite Dn in CE. unfold finish_session in CE. inversion CE; subst. reflexivity. }
    pose proof (client_event_done_clears fixed _ _ _ _ _ _ _ W V Dn CE D1) as CL.
    destruct (conn_ok_event k _ st1 t1 sent TSleep K T CE) as [K1 F1];
      [right; split; [discriminate|exact CL]|].
    split; [exact K1|]. split; [split; cbn; [rewrite Rk|rewrite Dk]; discriminate|exact F1].
  - (* OTimer *)
    destruct (k_task k) eqn:T; try (split; [exact K|split; [exact RR|tauto]]).
    assert (Rk : k_reg k = true) by (destruct (k_reg k); [reflexivity|specialize (R1 eq_refl); congruence]).
    assert (Dk : k_disabled k = false) by (destruct (k_disabled k); [specialize (R2 eq_refl); congruence|reflexivity]).
    cbn [fst]. split; [apply conn_ok_connect; [exact K|rewrite T; discriminate]|].
    split; [split; cbn; [rewrite Rk|rewrite Dk]; discriminate|intros x _; reflexivity].
Qed.

Lemma pre_fold_ok : forall (pre : list (net * N * N)) t,
  wf_tab t -> (forall x, tmem t x -> cache_of x < BASE) ->
  let t' := fold_left (fun t x => insert (fst (fst x)) (mk_roa 9 (snd (fst x)) (snd x)) t) pre t in
  wf_tab t' /\ forall x, tmem t' x -> cache_of x < BASE.
Proof.
  induction pre as [|y pre IH]; intros t W F; [split; assumption|].
  cbn [fold_left]. apply IH; [apply insert_wf; exact W|].
  intros x Hx. rewrite insert_spec in Hx. destruct Hx as [E|Hx]; [|apply F; exact Hx].
  subst x. unfold cache_of, BASE. cbn. lia.
Qed.

Lemma tmem_new : forall x, ~ tmem rtab_new x.
Proof. intros [[f k] r] H. destruct f; cbn in H; destruct H as [e [H _]]; discriminate. Qed.

Lemma conn_init_ok : forall pre, conn_ok (conn_init pre) /\ conn_reg_ok (conn_init pre).
Proof.
  intro pre. split; [|split; reflexivity].
  destruct (pre_fold_ok pre rtab_new wf_new (fun x H => False_ind _ (tmem_new x H))) as [W F].
  unfold conn_ok, conn_init. cbn [k_tab k_gen k_task k_tok k_cur].
  split; [exact W|]. split; [unfold BASE; lia|]. split; [discriminate|].
  intros x Hx. left. apply F. exact Hx.
Qed.

Lemma conn_run_ok : forall ops k, conn_ok k -> conn_reg_ok k ->
  conn_ok (conn_run true k ops) /\ conn_reg_ok (conn_run true k ops)
  /\ forall x, cache_of x < BASE -> (tmem (k_tab (conn_run true k ops)) x <-> tmem (k_tab k) x).
Proof.
  induction ops as [|o ops IH]; intros k K R; [split; [exact K|split; [exact R|tauto]]|].
  unfold conn_run. cbn [fold_left]. fold (conn_run true (fst (fst (conn_step true k o))) ops).
  destruct (conn_step_ok k o K R) as [K1 [R1 F1]].
  destruct (IH _ K1 R1) as [K2 [R2 F2]].
  split; [exact K2|]. split; [exact R2|]. intros x Hx. rewrite F2, F1 by exact Hx. reflexivity.
Qed.

(* C13, "all of a cache's VRPs are removed when its session ends", at the level of the
   connection task and the API: after ANY history the installed VRPs are those of other
   caches and those of the live session's own identity *)
Theorem C13_conn_only_live_session : forall (pre : list (net * N * N)) (ops : list cop) (x : elt),
  let k := conn_run true (conn_init pre) ops in
  tmem (k_tab k) x -> cache_of x < BASE \/ (k_task k = TServe /\ cache_of x = k_tok k).
Proof.
  intros pre ops x k. destruct (conn_init_ok pre) as [K R].
  destruct (conn_run_ok ops _ K R) as [[_ [_ [_ I]]] _]. apply I.
Qed.

Theorem C13_conn_no_session_no_vrps : forall (pre : list (net * N * N)) (ops : list cop) (x : elt),
  let k := conn_run true (conn_init pre) ops in
  k_task k <> TServe -> tmem (k_tab k) x -> cache_of x < BASE.
Proof.
  intros pre ops x k NS Hx. destruct (C13_conn_only_live_session pre ops x Hx) as [H|[H _]]; [exact H|contradiction].
Qed.

(* the VRPs of other caches are untouched by any history of this client *)
Theorem C13_conn_foreign_untouched : forall (pre : list (net * N * N)) (ops : list cop) (x : elt),
  cache_of x < BASE ->
  (tmem (k_tab (conn_run true (conn_init pre) ops)) x <-> tmem (k_tab (conn_init pre)) x).
Proof.
  intros pre ops x Hx. destruct (conn_init_ok pre) as [K R].
  destruct (conn_run_ok ops _ K R) as [_ [_ F]]. apply F. exact Hx.
Qed.

(* Before the repair: a session is established, the cache announces one VRP and ends its
   response, the client is disabled and the outer select! branch wins the race: no task is
   left, the client shows up = true and the VRP stays installed for ever. *)
Definition race_ops (outer_first : bool) : list cop :=
  [OAdd;
   OFeed ([1; 3; 0; 7; 0; 0; 0; 8] ++ [1; 4; 0; 0; 0; 0; 0; 20; 1; 8; 24; 0; 10; 0; 0; 0; 0; 0; 253; 233]
          ++ [1; 7; 0; 7; 0; 0; 0; 24; 0; 0; 0; 1; 0; 0; 14; 16; 0; 0; 2; 88; 0; 0; 28; 32]);
   ODisable outer_first].

Lemma C13_conn_cancel_race_pre_refuted :
  let k := conn_run false (conn_init []) (race_ops true) in
  k_task k = TIdle /\ c_up (k_cur k) = true
  /\ iter F4 (k_tab k) = POk [({| n_fam := F4; n_addr := [10; 0; 0; 0]; n_mask := 8 |}, mk_roa BASE 24 65001)].
Proof. vm_compute. repeat split. Qed.

(* non-vacuity: the same history on the current code, and with the other scheduling *)
Example conn_race_fixed :
  let k := conn_run true (conn_init []) (race_ops true) in
  k_task k = TIdle /\ c_up (k_cur k) = false /\ iter F4 (k_tab k) = POk [].
Proof. vm_compute. repeat split. Qed.

Example conn_serving_holds_vrp :
  let k := conn_run true (conn_init []) (firstn 2 (race_ops true)) in
  k_task k = TServe /\ iter F4 (k_tab k) = POk [({| n_fam := F4; n_addr := [10; 0; 0; 0]; n_mask := 8 |}, mk_roa BASE 24 65001)].
Proof. vm_compute. repeat split. Qed.

(* ---- what ListRpki shows: the client is reported up exactly while a session is live *)
Lemma on_msg_up : forall fx c st t m, c_up (fst (fst (on_msg fx c st t m))) = c_up st.
Proof.
  intros fx c st t m. unfold on_msg.
  destruct m; cbn [fst];
    repeat match goal with |- context [if ?b then _ else _] => destruct b end; reflexivity.
Qed.

Lemma run_pdus_up : forall fx ms c st t, c_up (fst (run_pdus fx c ms st t)) = c_up st.
Proof.
  induction ms as [|m ms IH]; intros c st t; [reflexivity|].
  cbn [run_pdus]. pose proof (on_msg_up fx c st t m) as H.
  destruct (on_msg fx c st t m) as [[st1 t1] o]. cbn [fst] in H. rewrite IH. exact H.
Qed.

Lemma client_event_up : forall fx c st t e st1 t1 sent,
  c_done st = false -> client_event fx c st t e = (st1, t1, sent) ->
  (c_done st1 = true /\ c_up st1 = false) \/ (c_done st1 = false /\ c_up st1 = c_up st).
Proof.
  intros fx c st t e st1 t1 sent D CE. unfold client_event in CE. rewrite D in CE.
  destruct e as [c0 bytes|c0|c0|c0].
  - destruct (c_open st).
    2:{ inversion CE; subst. right. split; [exact D|reflexivity]. }
    destruct (Stream.drain (codec fx) (S (length (c_buf st ++ bytes))) (c_buf st ++ bytes)) as [[evs ds]|].
    + destruct (apply_evs_runs_pdus fx c evs st t []) as [o E]. rewrite E in CE.
      pose proof (run_pdus_done fx (map of_rtr (Stream.msgs_of evs)) c st t) as RD.
      pose proof (run_pdus_up fx (map of_rtr (Stream.msgs_of evs)) c st t) as RU.
      destruct (run_pdus fx c (map of_rtr (Stream.msgs_of evs)) st t) as [st2 t2]. cbn [fst snd] in CE, RD, RU.
      destruct (match Stream.err_of evs with Some _ => true | None => false end).
      * unfold finish_session in CE. inversion CE; subst. left. split; reflexivity.
      * unfold fire_permit in CE.
        destruct (c_permit (with_buf st2 _) && c_eod (with_buf st2 _)); inversion CE; subst;
          right; cbn [with_permit with_buf c_done c_up]; (split; [congruence|exact RU]).
    + unfold finish_session in CE. inversion CE; subst. left. split; reflexivity.
  - unfold fire_permit in CE. cbn [with_permit c_permit c_eod] in CE.
    destruct (true && c_eod st); inversion CE; subst; right; cbn [with_permit c_done c_up]; (split; [exact D|reflexivity]).
  - unfold finish_session in CE. inversion CE; subst. left. split; reflexivity.
  - unfold finish_session in CE. inversion CE; subst. left. split; reflexivity.
Qed.

Definition up_ok (k : conn) : Prop :=
  (k_task k = TServe -> c_up (k_cur k) = true /\ c_done (k_cur k) = false)
  /\ (k_task k <> TServe -> c_up (k_cur k) = false).

Lemma up_ok_cancel : forall b k, up_ok k -> up_ok (cancel_task true b k).
Proof.
  intros b k [U1 U2]. unfold cancel_task, up_ok.
  destruct (k_task k) eqn:T; cbn [orb]; unfold finish_session, set_conn; cbn [k_task k_cur c_up c_done].
  - split; [discriminate|intros _; apply U2; discriminate].
  - split; [discriminate|reflexivity].
  - split; [discriminate|intros _; apply U2; discriminate].
Qed.

Lemma up_ok_connect : forall k, up_ok (fst (connect k)).
Proof. intro k. unfold connect, up_ok, set_conn, new_session. cbn. split; [intros _; split; reflexivity|congruence]. Qed.

Lemma up_ok_step : forall k o, up_ok k -> up_ok (fst (fst (conn_step true k o))).
Proof.
  intros k o U. pose proof U as [U1 U2].
  destruct o as [|b| |b|b| |bytes| |]; unfold conn_step.
  - destruct (k_reg k); [exact U|]. rewrite step_connect. cbn [fst]. apply up_ok_connect.
  - destruct (k_reg k); [|exact U]. cbn [fst]. exact (up_ok_cancel b k U).
  - destruct (k_reg k); cbn [negb]; [|exact U]. destruct (k_disabled k); cbn [negb]; [|exact U].
    rewrite step_connect. cbn [fst]. apply up_ok_connect.
  - destruct (k_reg k); cbn [negb]; [|exact U]. destruct (k_disabled k); [exact U|].
    cbn [fst]. exact (up_ok_cancel b k U).
  - destruct (k_reg k); cbn [negb]; [|exact U]. rewrite step_connect.
    destruct (k_disabled (cancel_task true b k)); cbn [fst]; [exact (up_ok_cancel b k U)|apply up_ok_connect].
  - destruct (k_reg k); cbn [negb]; [|exact U]. destruct (k_disabled k); [exact U|].
    destruct (k_task k) eqn:T.
    + cbn [fst]. unfold up_ok, with_cur, set_conn. cbn [k_task k_cur with_permit c_up c_done].
      split; [discriminate|intros _; apply U2; discriminate].
    + destruct (client_event fixed (k_tok k) (k_cur k) (k_tab k) (ESoftReset (k_tok k))) as [[st1 t1] sent] eqn:CE.
      cbn [fst]. destruct (U1 eq_refl) as [Up Dn].
      assert (E : c_done st1 = false /\ c_up st1 = c_up (k_cur k)).
      { unfold client_event in CE. rewrite Dn in CE. unfold fire_permit in CE. cbn [with_permit c_permit c_eod] in CE.
        destruct (true && c_eod (k_cur k)); inversion CE; subst; cbn [with_permit c_done c_up]; split; (exact Dn || reflexivity). }
      destruct E as [D1 Up1]. unfold up_ok, with_cur, set_conn. cbn [k_task k_cur].
      split; [intros _; split; [rewrite Up1; exact Up|exact D1]|congruence].
    + cbn [fst]. unfold up_ok, with_cur, set_conn. cbn [k_task k_cur with_permit c_up c_done].
      split; [discriminate|intros _; apply U2; discriminate].
  - destruct (k_task k) eqn:T; try exact U.
    destruct (client_event fixed (k_tok k) (k_cur k) (k_tab k) (EFeed (k_tok k) bytes)) as [[st1 t1] sent] eqn:CE.
    cbn [fst]. destruct (U1 eq_refl) as [Up Dn].
    destruct (client_event_up fixed _ _ _ _ _ _ _ Dn CE) as [[D1 Up1]|[D1 Up1]]; rewrite D1;
      unfold up_ok, with_cur, set_conn; cbn [k_task k_cur].
    + split; [discriminate|intros _; exact Up1].
    + split; [intros _; split; [rewrite Up1; exact Up|exact D1]|congruence].
  - destruct (k_task k) eqn:T; try exact U.
    destruct (client_event fixed (k_tok k) (k_cur k) (k_tab k) (EClose (k_tok k))) as [[st1 t1] sent] eqn:CE.
    cbn [fst]. destruct (U1 eq_refl) as [Up Dn].
    assert (Up1 : c_up st1 = false).
    { unfold client_event in CE. rewrite Dn in CE. unfold finish_session in CE. inversion CE; subst. reflexivity. }
    unfold up_ok, with_cur, set_conn. cbn [k_task k_cur]. split; [discriminate|intros _; exact Up1].
  - destruct (k_task k) eqn:T; try exact U. rewrite step_connect. cbn [fst]. apply up_ok_connect.
Qed.

(* C13: the `up` flag the API lists for the cache is true exactly while a session is live *)
Theorem C13_conn_up_iff_serving : forall (pre : list (net * N * N)) (ops : list cop),
  let k := conn_run true (conn_init pre) ops in
  c_up (k_cur k) = true <-> k_task k = TServe.
Proof.
  intros pre ops k.
  assert (U : up_ok k).
  { unfold k. generalize (conn_init pre) (ltac:(unfold up_ok, conn_init; cbn; split; [discriminate|reflexivity]) : up_ok (conn_init pre)).
    induction ops as [|o ops IH]; intros k0 U0; [exact U0|].
    unfold conn_run. cbn [fold_left]. apply IH. apply up_ok_step. exact U0. }
  destruct U as [U1 U2]. split.
  - intro H. destruct (k_task k) eqn:T; [|reflexivity|]; rewrite U2 in H by discriminate; discriminate.
  - intro T. apply U1. exact T.
Qed.

(* ---- the sessions the connection layer starts: the fold theorem of a single session
   (C13_installed_eq_fold_at_eod, stated for the locals of a first session) holds for
   EVERY session of a client, whatever RpkiState (session id, serial, counters) and
   Notify permit earlier sessions of the registration left behind, over whatever the
   table holds (other caches' VRPs; nothing of this cache's earlier identities, by
   conn_only_live_session) *)
Theorem C13_conn_session_fold : forall (st0 : cstate) (c : N) (ms : list msg) (t0 : rtab),
  wf_tab t0 -> conforming (map view ms) ->
  let '(st, t) := run_pdus fixed c ms (new_session st0) t0 in
  (c_eod st = true <-> seen_eod (map view ms))
  /\ (c_eod st = true -> forall r, installed c t r <-> announced (map view ms) r).
Proof.
  intros st0 c ms t0 W C.
  pose proof (run_pdus_fold ms c (new_session st0) t0 (fun _ => False) W (v_ok_new_session c st0)) as H.
  assert (I0 : fold_inv c (new_session st0) t0 (fun _ => False)) by (unfold fold_inv, v_recs; cbn; tauto).
  specialize (H I0 (or_intror C)).
  destruct (run_pdus fixed c ms (new_session st0) t0) as [st t]. destruct H as [I [_ [_ S]]].
  split; [rewrite S; cbn; split; [intros [H|H]; [discriminate|exact H]|intro H; right; exact H]|].
  intros E r. unfold fold_inv in I. rewrite E in I. apply I.
Qed.

(* a soft reset (reset_rpki with soft = true) only asks the cache for an update, now or when the
   session is synchronised: it never changes the installed VRPs, the task or the registration *)
Theorem C13_conn_soft_reset_keeps_table : forall (k : conn),
  let k' := fst (fst (conn_step true k OResetSoft)) in
  k_tab k' = k_tab k /\ k_task k' = k_task k /\ k_reg k' = k_reg k /\ k_disabled k' = k_disabled k.
Proof.
  intro k. unfold conn_step.
  destruct (k_reg k) eqn:R; cbn [negb]; [|cbn [fst]; rewrite R; repeat split].
  destruct (k_disabled k) eqn:D; [cbn [fst]; rewrite R, D; repeat split|].
  destruct (k_task k) eqn:T.
  - cbn [fst with_cur set_conn k_tab k_task k_reg k_disabled]. rewrite R, D. repeat split.
  - unfold client_event. destruct (c_done (k_cur k)); [cbn [fst with_cur set_conn k_tab k_task k_reg k_disabled]; rewrite R, D; repeat split|].
    unfold fire_permit. cbn [with_permit c_permit c_eod].
    destruct (true && c_eod (k_cur k)); cbn [fst with_cur set_conn k_tab k_task k_reg k_disabled]; rewrite R, D; repeat split.
  - cbn [fst with_cur set_conn k_tab k_task k_reg k_disabled]. rewrite R, D. repeat split.
Qed.
