(* Octets <-> bits bridge used by the C12 proofs: cutting an address to [len]
   bits octet by octet (Model.Rpki.mask_bytes, what the Rust loop does) agrees
   with taking the first [len] bits of its network-order bit string
   (Spec.Rfc6811.prefix_bits).  The per-octet facts are complete finite sweeps
   (9 x 256 x 256 combinations) evaluated by vm_compute and lifted with
   forallb_forall. *)
From Coq Require Import List NArith Bool Lia ZifyBool ZifyNat ZifyN.
From RB Require Import Model.Rpki Spec.Rfc6811.
Import ListNotations.
Open Scope N_scope.

Definition wf_bytes (bs : list N) : Prop := Forall (fun b => b < 256) bs.

Definition nrange (n : nat) : list N := map N.of_nat (seq 0 n).

Lemma in_nrange : forall n x, x < N.of_nat n -> In x (nrange n).
Proof.
  intros n x Hx. unfold nrange. apply in_map_iff. exists (N.to_nat x). split; [lia|].
  apply in_seq. lia.
Qed.

Fixpoint bits_eqb (a b : bits) : bool :=
  match a, b with
  | [], [] => true
  | x :: a', y :: b' => Bool.eqb x y && bits_eqb a' b'
  | _, _ => false
  end.

Lemma bits_eqb_eq : forall a b, bits_eqb a b = true <-> a = b.
Proof.
  induction a as [|x a IH]; destruct b as [|y b]; cbn; split; intro H; try congruence; try discriminate.
  - apply andb_true_iff in H. destruct H as [H1 H2]. apply eqb_prop in H1. apply IH in H2. congruence.
  - inversion H; subst. rewrite eqb_reflx. cbn. apply IH. reflexivity.
Qed.

Definition sweep3 (f : N -> N -> N -> bool) (n1 n2 n3 : nat) : bool :=
  forallb (fun k => forallb (fun b => forallb (fun c => f k b c) (nrange n3)) (nrange n2)) (nrange n1).

Lemma sweep3_ok : forall f n1 n2 n3, sweep3 f n1 n2 n3 = true ->
  forall k b c, k < N.of_nat n1 -> b < N.of_nat n2 -> c < N.of_nat n3 -> f k b c = true.
Proof.
  intros f n1 n2 n3 S k b c Hk Hb Hc. unfold sweep3 in S.
  rewrite forallb_forall in S. specialize (S k (in_nrange n1 k Hk)).
  rewrite forallb_forall in S. specialize (S b (in_nrange n2 b Hb)).
  rewrite forallb_forall in S. exact (S c (in_nrange n3 c Hc)).
Qed.

Definition byte_pred (k b c : N) : bool :=
  Bool.eqb (N.land b (keep_mask k) =? N.land c (keep_mask k))
           (bits_eqb (firstn (N.to_nat k) (byte_bits b)) (firstn (N.to_nat k) (byte_bits c))).

Lemma byte_sweep_ok : sweep3 byte_pred 9 256 256 = true.
Proof. vm_compute. reflexivity. Qed.

Lemma byte_fact : forall k b c, k <= 8 -> b < 256 -> c < 256 ->
  (N.land b (keep_mask k) = N.land c (keep_mask k)
   <-> firstn (N.to_nat k) (byte_bits b) = firstn (N.to_nat k) (byte_bits c)).
Proof.
  intros k b c Hk Hb Hc.
  pose proof (sweep3_ok byte_pred 9 256 256 byte_sweep_ok k b c ltac:(lia) ltac:(lia) ltac:(lia)) as S.
  unfold byte_pred in S. apply eqb_prop in S.
  rewrite <- bits_eqb_eq, <- S, N.eqb_eq. reflexivity.
Qed.

Definition full_pred (k b c : N) : bool := (N.land b (keep_mask 8) =? b) && (N.land b (keep_mask k) <=? b).

Lemma full_sweep_ok : sweep3 full_pred 9 256 1 = true.
Proof. vm_compute. reflexivity. Qed.

Lemma land_full : forall b, b < 256 -> N.land b (keep_mask 8) = b.
Proof.
  intros b Hb.
  pose proof (sweep3_ok full_pred 9 256 1 full_sweep_ok 0 b 0 ltac:(lia) ltac:(lia) ltac:(lia)) as S.
  unfold full_pred in S. apply andb_true_iff in S. destruct S as [S _]. apply N.eqb_eq in S. exact S.
Qed.

Lemma land_keep_le : forall k b, k <= 8 -> b < 256 -> N.land b (keep_mask k) <= b.
Proof.
  intros k b Hk Hb.
  pose proof (sweep3_ok full_pred 9 256 1 full_sweep_ok k b 0 ltac:(lia) ltac:(lia) ltac:(lia)) as S.
  unfold full_pred in S. apply andb_true_iff in S. destruct S as [_ S]. lia.
Qed.

Lemma byte_bits_length : forall b, length (byte_bits b) = 8%nat.
Proof. reflexivity. Qed.

Lemma addr_bits_length : forall bs, length (addr_bits bs) = (8 * length bs)%nat.
Proof.
  induction bs as [|b bs IH]; [reflexivity|].
  unfold addr_bits in *. cbn [flat_map]. rewrite app_length, IH, byte_bits_length. cbn [length]. lia.
Qed.

Lemma app_eq_len {A} : forall (a c b d : list A),
  length a = length c -> (a ++ b = c ++ d <-> a = c /\ b = d).
Proof.
  induction a as [|x a IH]; destruct c as [|y c]; cbn; intros b d HL; try discriminate.
  - split; [intro H; split; [reflexivity|exact H] | intros [_ H]; exact H].
  - injection HL as HL. specialize (IH c b d HL). split.
    + intro H. inversion H; subst. apply IH in H2. destruct H2; subst. split; reflexivity.
    + intros [H1 H2]. inversion H1; subst. reflexivity.
Qed.

Lemma mask_bytes_length : forall bs len, length (mask_bytes bs len) = length bs.
Proof. induction bs as [|b bs IH]; intros len; cbn [mask_bytes length]; [reflexivity|]. rewrite IH. reflexivity. Qed.

Lemma firstn_addr_cons : forall b bs (m : N),
  firstn (N.to_nat m) (addr_bits (b :: bs))
  = firstn (N.to_nat (N.min m 8)) (byte_bits b) ++ firstn (N.to_nat (m - 8)) (addr_bits bs).
Proof.
  intros b bs m. unfold addr_bits. cbn [flat_map]. rewrite firstn_app, byte_bits_length.
  f_equal.
  - destruct (N.le_gt_cases m 8) as [H|H].
    + rewrite N.min_l by lia. reflexivity.
    + rewrite N.min_r by lia. rewrite !firstn_all2; [reflexivity| |]; rewrite byte_bits_length; lia.
  - f_equal. lia.
Qed.

(* cutting two addresses to [m] bits octet-wise gives the same octets iff their first m bits agree *)
Lemma mask_bytes_eq_bits : forall r a m,
  length r = length a -> wf_bytes r -> wf_bytes a ->
  (mask_bytes r m = mask_bytes a m
   <-> firstn (N.to_nat m) (addr_bits r) = firstn (N.to_nat m) (addr_bits a)).
Proof.
  induction r as [|b r IH]; intros a m HL Wr Wa.
  - destruct a; [|discriminate]. cbn. rewrite firstn_nil. tauto.
  - destruct a as [|c a]; [discriminate|]. injection HL as HL.
    inversion Wr as [|? ? Hb Wr']; subst. inversion Wa as [|? ? Hc Wa']; subst.
    cbn [mask_bytes]. rewrite !firstn_addr_cons.
    rewrite app_eq_len.
    2:{ rewrite !firstn_length, !byte_bits_length. reflexivity. }
    rewrite <- (IH a (m - 8) HL Wr' Wa').
    rewrite <- (byte_fact (N.min m 8) b c ltac:(lia) Hb Hc).
    split.
    + intro H. injection H as H1 H2. split; assumption.
    + intros [H1 H2]. rewrite H1, H2. reflexivity.
Qed.

(* masking to 8*length or more keeps a well-formed address unchanged *)
Lemma mask_bytes_full : forall bs m, wf_bytes bs -> 8 * N.of_nat (length bs) <= m -> mask_bytes bs m = bs.
Proof.
  induction bs as [|b bs IH]; intros m W Hm; [reflexivity|].
  inversion W as [|? ? Hb W']; subst. cbn [mask_bytes].
  rewrite N.min_r by (cbn [length] in Hm; lia). rewrite land_full by exact Hb.
  rewrite IH; [reflexivity|exact W'|cbn [length] in Hm; lia].
Qed.

Lemma mask_bytes_wf : forall bs m, wf_bytes bs -> wf_bytes (mask_bytes bs m).
Proof.
  induction bs as [|b bs IH]; intros m W; [constructor|].
  inversion W as [|? ? Hb W']; subst. cbn [mask_bytes]. constructor; [|apply IH; exact W'].
  pose proof (land_keep_le (N.min m 8) b ltac:(lia) Hb). lia.
Qed.
