(* Read-only views of the RIB (Adj-RIB-In of a peer, soft-reset input) tied to the
   ranking (C02) and to the per-peer statistics (C15). *)
From Coq Require Import List NArith ZArith Bool Lia Sorting.Permutation Sorting.Sorted.
From RB Require Import Base.Val Model.Rib Spec.BestPath Spec.RibSpec
     Proofs.RibOrder Proofs.RibInv Proofs.RibAux Proofs.RibInv2 Proofs.RibC02 Proofs.RibC15.
Import ListNotations.
Open Scope N_scope.

(* the Adj-RIB-In view of a peer is exactly its paths in the destination, in rank order *)
Lemma C02_adj_in_view :
  forall shard ops net d a flt,
    consistent ops ->
    In (net, d) (t_dests (run (empty_table shard) ops)) ->
    (forall e, In e (adj_in a flt d) <->
               In e (d_entries d) /\ s_addr (e_src e) = a /\ (flt = true \/ e_filtered e = false))
    /\ ranked (t_flags (run (empty_table shard) ops)) net (adj_in a flt d)
    /\ (forall e, In e (soft_in (t_flags (run (empty_table shard) ops)) a flt d) <->
                  In e (d_entries d) /\ s_addr (e_src e) = a
                  /\ (flt = true \/ is_stale (t_flags (run (empty_table shard) ops)) e = false)).
Proof.
  intros shard ops net d a flt Hc Hin. split; [|split].
  - intro e. unfold adj_in. rewrite filter_In, andb_true_iff, orb_true_iff, negb_true_iff.
    unfold from_addr. rewrite N.eqb_eq. tauto.
  - unfold adj_in. apply ranked_filter. apply (C02_dest_sorted_reachable shard ops net d Hc Hin).
  - intro e. unfold soft_in. rewrite filter_In, andb_true_iff, orb_true_iff, negb_true_iff.
    unfold from_addr. rewrite N.eqb_eq. tauto.
Qed.

(* the statistics of a peer are what its Adj-RIB-In view shows: received = prefixes
   with a non-empty view (filtered paths included), accepted = paths in the view
   without filtered paths *)
Lemma C15_stats_eq_adjin_view :
  forall shard ops a r c,
    let t := run (empty_table shard) ops in
    alookup a (t_stats t) = Some (r, c) ->
    r = N.of_nat (length (filter (fun nd => match adj_in a true (snd nd) with [] => false | _ => true end) (t_dests t)))
    /\ c = N.of_nat (length (flat_map (fun nd => adj_in a false (snd nd)) (t_dests t))).
Proof.
  intros shard ops a r c t Hs. pose proof (C15_stats_eq_recount shard ops a) as H. cbv zeta in H. fold t in H.
  rewrite Hs in H. destruct H as [Hr Hcc]. rewrite Hr, Hcc. clear Hr Hcc Hs. split.
  - unfold recv_recount. f_equal. f_equal. induction (t_dests t) as [|[n d] l IH]; cbn [filter snd]; [reflexivity|].
    assert (E : existsb (from_addr a) (d_entries d) = match adj_in a true d with [] => false | _ => true end).
    { unfold adj_in. induction (d_entries d) as [|e es IHe]; cbn [existsb filter]; [reflexivity|].
      cbn [orb]. rewrite andb_true_r. destruct (from_addr a e); cbn [orb]; [reflexivity|exact IHe]. }
    rewrite E. destruct (adj_in a true d); rewrite IH; reflexivity.
  - unfold acc_recount, all_entries. f_equal. induction (t_dests t) as [|[n d] l IH]; cbn [flat_map snd]; [reflexivity|].
    rewrite filter_app, !app_length, IH. reflexivity.
Qed.
