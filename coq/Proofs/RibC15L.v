(* Property C15: the per-session prefix-limit counter outside the known class. *)
From Coq Require Import List NArith ZArith Bool Lia Sorting.Permutation Sorting.Sorted.
From RB Require Import Base.Val Model.Rib Spec.BestPath Spec.RibSpec
     Proofs.RibOrder Proofs.RibInv Proofs.RibAux Proofs.RibInv2 Proofs.RibC02 Proofs.RibC15.
Import ListNotations.
Open Scope N_scope.




(* ------------------------------------------------------------ list helpers *)

Definition hpl (p : entry -> bool) (l : list entry) : N := if existsb p l then 1 else 0.

Lemma hpl_perm p l1 l2 : Permutation l1 l2 -> hpl p l1 = hpl p l2.
Proof. intro H. unfold hpl. rewrite (existsb_perm _ _ _ H). reflexivity. Qed.

Lemma hpl_one_in p l e : In e l -> p e = true -> hpl p l = 1.
Proof.
  intros Hin Hp. unfold hpl.
  assert (H : existsb p l = true) by (apply existsb_exists; exists e; split; assumption).
  rewrite H. reflexivity.
Qed.

Lemma hpl_zero p l : (forall e, In e l -> p e = false) -> hpl p l = 0.
Proof.
  intro H. unfold hpl. destruct (existsb p l) eqn:E; [|reflexivity].
  apply existsb_exists in E as (x & Hx & Px). rewrite (H x Hx) in Px. discriminate.
Qed.

Lemma hpl_ext p q l : (forall e, In e l -> p e = q e) -> hpl p l = hpl q l.
Proof.
  intro H. unfold hpl.
  assert (E : existsb p l = existsb q l); [|rewrite E; reflexivity].
  induction l as [|e r IH]; cbn; [reflexivity|].
  rewrite (H e (or_introl eq_refl)), (IH (fun x Hx => H x (or_intror Hx))). reflexivity.
Qed.

Lemma hpl_filter_other p q l :
  (forall e, In e l -> q e = false -> p e = false) -> hpl p (filter q l) = hpl p l.
Proof.
  intro H. unfold hpl.
  assert (E : existsb p (filter q l) = existsb p l); [|rewrite E; reflexivity].
  induction l as [|e r IH]; cbn; [reflexivity|].
  assert (IH' := IH (fun x Hx => H x (or_intror Hx))).
  destruct (q e) eqn:Qe; cbn; rewrite IH'; [reflexivity|].
  rewrite (H e (or_introl eq_refl) Qe). reflexivity.
Qed.

Lemma hpl_filter_le p q l : hpl p (filter q l) <= hpl p l.
Proof.
  unfold hpl. destruct (existsb p (filter q l)) eqn:E; [|destruct (existsb p l); lia].
  apply existsb_exists in E as (x & Hx & Fx). apply filter_In in Hx as [Hx _].
  assert (H : existsb p l = true) by (apply existsb_exists; exists x; split; assumption).
  rewrite H. lia.
Qed.

Lemma hpl_remove_first_other p g l r :
  find g l = Some r -> p r = false -> hpl p (remove_first g l) = hpl p l.
Proof.
  intros Hf Hr. unfold hpl.
  assert (E : existsb p (remove_first g l) = existsb p l); [|rewrite E; reflexivity].
  revert Hf. induction l as [|e l' IH]; cbn [find remove_first existsb]; [discriminate|].
  destruct (g e).
  - intro H. injection H as ->. rewrite Hr. reflexivity.
  - intro H. cbn [existsb]. rewrite (IH H). reflexivity.
Qed.

Lemma hpl_le_one p l : hpl p l <= 1.
Proof. unfold hpl. destruct (existsb p l); lia. Qed.

(* ------------------------------------------------------------- the counter *)

Definition hc (c : N) (d : dest) : N := hpl (from_tok c) (d_entries d).
Definition sc (c : N) (t : table) : N := sumd (hc c) (t_dests t).

Lemma sess_recount_sc t c : sess_recount t c = sc c t.
Proof. unfold sess_recount, sc, sumd, hc, hpl. rewrite <- sumN_count. reflexivity. Qed.

Definition ctrl (m : list (N * N)) (c : N) : N := match alookup c m with Some v => v | None => 0 end.

Lemma ctrl_aset m k v c : ctrl (aset k v m) c = if c =? k then v else ctrl m c.
Proof. unfold ctrl. rewrite alookup_aset. destruct (c =? k); reflexivity. Qed.

(* no path of the peer belongs to another session *)
Definition NF (tok addr : N) (t : table) : Prop :=
  forall n d e, In (n, d) (t_dests t) -> In e (d_entries d) -> from_addr addr e = true -> from_tok tok e = true.

Lemma foreign_false tok addr t : foreign_entry tok addr t = false -> NF tok addr t.
Proof.
  intros H n d e Hin He Ha. unfold foreign_entry in H.
  destruct (from_tok tok e) eqn:Et; [reflexivity|]. exfalso.
  assert (existsb (fun e => from_addr addr e && negb (from_tok tok e)) (all_entries t) = true); [|congruence].
  apply existsb_exists. exists e. split; [|rewrite Ha, Et; reflexivity].
  unfold all_entries. apply in_flat_map. exists (n, d). split; assumption.
Qed.

Lemma iter_wrap_dec n x : N.of_nat n <= x -> iter_n n wrap_dec x = x - N.of_nat n.
Proof.
  revert x. induction n as [|k IH]; intros x Hx; cbn [iter_n]; [change (N.of_nat 0) with 0; lia|].
  rewrite Nat2N.inj_succ in *.
  assert (E : wrap_dec x = x - 1).
  { unfold wrap_dec. destruct (x =? 0) eqn:E; [apply N.eqb_eq in E; lia|reflexivity]. }
  rewrite E, IH by lia. lia.
Qed.

Section Limit.
Variable f : N -> N.
Variable mx : N -> N.
Variable c : N.
Let a := f c.
Hypothesis Hmx : mx c < 4294967296.

Definition K (t : table) (started : bool) : Prop :=
  ctr_of t c = sc c t /\ sc c t <= mx c /\ (started = false -> sc c t = 0).


(* no path of the peer in these entries belongs to another session in a way that
   involves session c *)
Definition NFc (tok addr : N) (es : list entry) : Prop :=
  forall e, In e es -> from_addr addr e = true ->
            if tok =? c then from_tok c e = true else from_tok c e = false.

Lemma foreign_in_false tok addr es : foreign_in tok addr c es = false -> NFc tok addr es.
Proof.
  intros H e He Ha. unfold foreign_in in H.
  assert (Hx : (from_addr addr e && negb (from_tok tok e) && ((tok =? c) || from_tok c e)) = false).
  { destruct (from_addr addr e && negb (from_tok tok e) && ((tok =? c) || from_tok c e)) eqn:E; [|reflexivity].
    assert (existsb (fun e => from_addr addr e && negb (from_tok tok e) && ((tok =? c) || from_tok c e)) es = true); [|congruence].
    apply existsb_exists. exists e. split; assumption. }
  rewrite Ha in Hx. cbn [andb] in Hx. destruct (tok =? c) eqn:Etc.
  - apply N.eqb_eq in Etc. subst tok. cbn [orb] in Hx. rewrite andb_true_r in Hx. apply negb_false_iff in Hx. exact Hx.
  - cbn [orb] in Hx. destruct (from_tok c e) eqn:Ec; [|reflexivity].
    rewrite andb_true_r in Hx. apply negb_false_iff in Hx. unfold from_tok in Hx, Ec.
    apply N.eqb_eq in Hx, Ec. apply N.eqb_neq in Etc. congruence.
Qed.

Lemma entries_of_in t net d : NoDup (map fst (t_dests t)) -> In (net, d) (t_dests t) -> entries_of t net = d_entries d.
Proof. intros Hk Hin. unfold entries_of. rewrite (in_alookup _ _ _ Hk Hin). reflexivity. Qed.

Lemma NFc_own tok addr es e : tok = c -> NFc tok addr es -> In e es -> from_addr addr e = true -> from_tok c e = true.
Proof. intros -> H He Ha. specialize (H e He Ha). rewrite N.eqb_refl in H. exact H. Qed.

Lemma NFc_other tok addr es e : tok <> c -> NFc tok addr es -> In e es -> from_addr addr e = true -> from_tok c e = false.
Proof. intros Hn H He Ha. specialize (H e He Ha). apply N.eqb_neq in Hn. rewrite Hn in H. exact H. Qed.

Lemma tok_addr t n d e :
  inv1 f t -> In (n, d) (t_dests t) -> In e (d_entries d) -> from_tok c e = true -> from_addr a e = true.
Proof.
  intros [_ _ Ht] Hin He Hc. pose proof (Ht _ _ _ Hin He) as W. unfold wf_entry in W.
  unfold from_tok in Hc. apply N.eqb_eq in Hc. unfold from_addr, a. apply N.eqb_eq. congruence.
Qed.

(* the entries of the destination an insert works on are entries of the table *)
Lemma ins_lookup_in t net e :
  In e (d_entries (fst (ins_lookup t net))) -> exists d, In (net, d) (t_dests t) /\ In e (d_entries d).
Proof.
  unfold ins_lookup. destruct (alookup net (t_dests t)) as [d|] eqn:Hd; cbn [fst d_entries]; [|intros []].
  intro He. exists d. split; [apply alookup_in, Hd|exact He].
Qed.

Lemma K_insert t s net rpid nh at' filt nhinv lim started :
  inv1 f t -> invE t -> s_addr s = f (s_tok s) -> lim = Some (mx (s_tok s), s_tok s) ->
  NFc (s_tok s) (s_addr s) (entries_of t net) ->
  K t started -> K (fst (insert t s net rpid nh at' filt nhinv lim)) (started || (s_tok s =? c)).
Proof.
  intros H1 He Hs -> Hnf0 (Hk1 & Hk2 & Hk3).
  assert (Hkeys : NoDup (map fst (t_dests t))) by (destruct He; assumption).
  assert (Hown : s_tok s = c -> forall d x, In (net, d) (t_dests t) -> In x (d_entries d) ->
                                from_addr (s_addr s) x = true -> from_tok c x = true).
  { intros E d x Hin Hx. apply (NFc_own _ _ _ x E Hnf0). rewrite (entries_of_in t net d Hkeys Hin). exact Hx. }
  assert (Hoth : s_tok s <> c -> forall d x, In (net, d) (t_dests t) -> In x (d_entries d) ->
                                 from_addr (s_addr s) x = true -> from_tok c x = false).
  { intros E d x Hin Hx. apply (NFc_other _ _ _ x E Hnf0). rewrite (entries_of_in t net d Hkeys Hin). exact Hx. }
  set (tok := s_tok s) in *.
  unfold insert. cbv zeta.
  set (d0 := fst (ins_lookup t net)).
  set (es0 := d_entries d0).
  set (rest := filter (fun e => negb (same_key s rpid e)) es0).
  (* when nothing changes *)
  assert (Hsame : K t (started || (tok =? c))).
  { split; [exact Hk1|]. split; [exact Hk2|]. intro H. apply orb_false_iff in H as [H _]. apply Hk3, H. }
  destruct (ins_over t (Some (mx tok, tok)) (ins_is_new s rpid d0)) eqn:Hover; [exact Hsame|].
  destruct (ins_pid d0 rest (find (same_key s rpid) es0)) as [pn|] eqn:Hp; [|exact Hsame].
  cbn [fst].
  set (e := {| e_lpid := fst pn; e_rpid := rpid; e_src := s; e_nh := nh; e_attr := at';
               e_filtered := filt; e_nhinv := nhinv |}).
  set (d2 := with_entries d0 (ins_sorted (cmp_for (t_flags t) net) e rest) (snd pn)).
  assert (Hperm : Permutation (e :: rest) (d_entries d2)) by apply ins_sorted_perm.
  assert (Hsum : sumd (hc c) (aset net d2 (t_dests t)) + hc c d0 = sc c t + hc c d2).
  { pose proof (sumd_aset (hc c) net d2 (t_dests t)) as H.
    rewrite (gopt_ins_lookup (hc c) t net eq_refl) in H. exact H. }
  unfold K, sc, ctr_of. cbn [t_dests t_ctrs]. fold (ctrl (ins_ctrs t (Some (mx tok, tok)) (ins_is_new s rpid d0)) c).
  unfold ins_ctrs.
  destruct (tok =? c) eqn:Etc.
  - (* the session's own insert *)
    apply N.eqb_eq in Etc. rewrite orb_true_r.
    assert (Ha : s_addr s = a) by (unfold a; rewrite <- Etc; exact Hs).
    pose proof (Hown Etc) as Hnf. rewrite Ha in Hnf.
    assert (Hex : existsb (from_addr a) es0 = existsb (from_tok c) es0).
    { assert (E : hpl (from_addr a) es0 = hpl (from_tok c) es0).
      { apply hpl_ext. intros x Hx. destruct (ins_lookup_in t net x Hx) as (d & Hin & Hxd).
        destruct (from_tok c x) eqn:Ec.
        - apply (tok_addr t net d x H1 Hin Hxd Ec).
        - destruct (from_addr a x) eqn:Eax; [|reflexivity].
          pose proof (Hnf _ _ Hin Hxd Eax) as Ht. congruence. }
      unfold hpl in E. destruct (existsb (from_addr a) es0), (existsb (from_tok c) es0); try reflexivity; discriminate. }
    assert (Hnew : hc c d0 = if ins_is_new s rpid d0 then 0 else 1).
    { rewrite is_new_spec, Ha. fold es0. rewrite Hex. unfold hc, hpl. fold es0.
      destruct (existsb (from_tok c) es0); reflexivity. }
    assert (H2 : hc c d2 = 1).
    { unfold hc. rewrite <- (hpl_perm _ _ _ Hperm). apply (hpl_one_in _ _ e); [left; reflexivity|].
      unfold from_tok, e. cbn. apply N.eqb_eq. exact Etc. }
    rewrite H2, Hnew in Hsum.
    unfold ins_over in Hover. rewrite Etc in *.
    destruct (ins_is_new s rpid d0); cbn [andb] in Hover.
    + apply N.leb_gt in Hover. rewrite ctrl_aset, N.eqb_refl. unfold wrap_inc, u64.
      rewrite N.mod_small by lia. unfold sc in *. split; [lia|]. split; [lia|discriminate].
    + change (ctrl (t_ctrs t) c) with (ctr_of t c). unfold sc in *. split; [lia|]. split; [lia|discriminate].
  - (* another session's insert *)
    apply N.eqb_neq in Etc. rewrite orb_false_r.
    assert (Hctr : ctrl (if ins_is_new s rpid d0 then aset tok (wrap_inc (ctr_of t tok)) (t_ctrs t) else t_ctrs t) c
                   = ctr_of t c).
    { destruct (ins_is_new s rpid d0); [|reflexivity]. rewrite ctrl_aset.
      assert (E : (c =? tok) = false) by (apply N.eqb_neq; congruence). rewrite E. reflexivity. }
    rewrite Hctr.
    assert (H2 : hc c d2 = hc c d0).
    { unfold hc. rewrite <- (hpl_perm _ _ _ Hperm). fold es0. unfold hpl at 1. cbn [existsb].
      assert (Ee : from_tok c e = false) by (unfold from_tok, e; cbn; apply N.eqb_neq; exact Etc).
      rewrite Ee. cbn [orb]. fold (hpl (from_tok c) rest). apply hpl_filter_other.
      intros x Hx Hq. apply negb_false_iff in Hq. destruct (from_tok c x) eqn:Ec; [|reflexivity]. exfalso.
      destruct (ins_lookup_in t net x Hx) as (d & Hin & Hxd).
      pose proof (tok_addr t net d x H1 Hin Hxd Ec) as Hax.
      pose proof (same_key_from _ _ _ Hq) as Hsx.
      assert (Ha : s_addr s = a).
      { unfold from_addr in Hax, Hsx. apply N.eqb_eq in Hax, Hsx. congruence. }
      pose proof (Hoth Etc _ _ Hin Hxd Hsx) as Ht. congruence. }
    unfold sc in *. split; [lia|]. split; [lia|]. intro Hst. specialize (Hk3 Hst). lia.
Qed.

Lemma K_keep t t' started m :
  ctr_of t' c = ctr_of t c -> sc c t' = sc c t -> K t started -> K t' (started || m).
Proof.
  intros E1 E2 (Hk1 & Hk2 & Hk3). unfold K. rewrite E1, E2. split; [exact Hk1|]. split; [exact Hk2|].
  intro H. apply orb_false_iff in H as [H _]. apply Hk3, H.
Qed.

Lemma K_remove t s net rpid ctr started :
  inv1 f t -> invE t -> s_addr s = f (s_tok s) -> ctr = Some (s_tok s) ->
  (forall d, alookup net (t_dests t) = Some d -> find (same_key s rpid) (d_entries d) <> None ->
             NFc (s_tok s) (s_addr s) (d_entries d)) ->
  K t started -> K (fst (remove t s net rpid ctr)) (started || (s_tok s =? c)).
Proof.
  intros H1 [Hk Hok] Hs -> Hnf0 HK.
  set (tok := s_tok s) in *.
  unfold remove.
  destruct (alookup net (t_dests t)) as [d|] eqn:Hd; [|apply (K_keep t t); [reflexivity|reflexivity|exact HK]].
  destruct (find (same_key s rpid) (d_entries d)) as [removed|] eqn:Ef;
    [|apply (K_keep t t); [reflexivity|reflexivity|exact HK]].
  cbv zeta.
  assert (Hnfd : NFc tok (s_addr s) (d_entries d)) by (apply (Hnf0 d eq_refl); rewrite Ef; discriminate).
  set (rest := remove_first (same_key s rpid) (d_entries d)).
  set (d' := with_entries d rest (d_next_pid d)).
  set (D' := match rest with [] => aremove net (t_dests t) | _ => aset net d' (t_dests t) end).
  set (still := existsb (from_addr (s_addr s)) rest).
  pose proof (alookup_in _ _ _ Hd) as Hin.
  assert (Hsum : sumd (hc c) D' + hc c d = sc c t + hpl (from_tok c) rest).
  { unfold D'. destruct rest as [|y ys] eqn:Er.
    - pose proof (sumd_aremove (hc c) net (t_dests t) Hk) as H. rewrite Hd in H. cbn [gopt] in H.
      unfold hpl. cbn [existsb]. unfold sc. lia.
    - pose proof (sumd_aset (hc c) net d' (t_dests t)) as H. rewrite Hd in H. cbn [gopt] in H. exact H. }
  apply find_some in Ef as Hfs. destruct Hfs as [Hrin Hrk].
  pose proof (same_key_from _ _ _ Hrk) as Hr0.
  destruct HK as (Hk1 & Hk2 & Hk3).
  assert (Hfin : forall t', t_ctrs t' = rem_ctrs t (Some tok) still -> t_dests t' = D' -> K t' (started || (tok =? c))).
  { intros t' Ec Ed. unfold K, sc, ctr_of. rewrite Ec, Ed. fold (ctrl (rem_ctrs t (Some tok) still) c).
    unfold rem_ctrs. destruct (tok =? c) eqn:Etc.
    - apply N.eqb_eq in Etc. rewrite orb_true_r.
      assert (Ha : s_addr s = a) by (unfold a; rewrite <- Etc; exact Hs).
      assert (Hnf : forall x, In x (d_entries d) -> from_addr a x = true -> from_tok c x = true).
      { intros x Hx Hax. apply (NFc_own _ _ _ x Etc Hnfd Hx). rewrite Ha. exact Hax. }
      rewrite Ha in *.
      assert (Hrc : from_tok c removed = true) by (apply (Hnf _ Hrin Hr0)).
      assert (Hd1 : hc c d = 1) by (apply (hpl_one_in _ _ removed Hrin Hrc)).
      assert (Hst : hpl (from_tok c) rest = if still then 1 else 0).
      { unfold still. rewrite Ha. fold (hpl (from_addr a) rest). symmetry. apply hpl_ext. intros x Hx.
        apply remove_first_sub in Hx. destruct (from_tok c x) eqn:Ecx.
        - apply (tok_addr t net d x H1 Hin Hx Ecx).
        - destruct (from_addr a x) eqn:Eax; [|reflexivity].
          pose proof (Hnf _ Hx Eax) as Ht. congruence. }
      rewrite Hd1, Hst in Hsum.
      assert (Hge : 1 <= sc c t) by (rewrite <- Hd1; apply (sumd_ge_in (hc c) _ net d Hin)).
      rewrite Etc. destruct still.
      + change (ctrl (t_ctrs t) c) with (ctr_of t c). unfold sc in *. split; [lia|]. split; [lia|discriminate].
      + rewrite ctrl_aset, N.eqb_refl. unfold wrap_dec. destruct (ctr_of t c =? 0) eqn:Ez; [apply N.eqb_eq in Ez; lia|].
        unfold sc in *. split; [lia|]. split; [lia|discriminate].
    - apply N.eqb_neq in Etc. rewrite orb_false_r.
      assert (Hctr : ctrl (if still then t_ctrs t else aset tok (wrap_dec (ctr_of t tok)) (t_ctrs t)) c = ctr_of t c).
      { destruct still; [reflexivity|]. rewrite ctrl_aset.
        assert (E : (c =? tok) = false) by (apply N.eqb_neq; congruence). rewrite E. reflexivity. }
      rewrite Hctr.
      assert (Hrc : from_tok c removed = false).
      { destruct (from_tok c removed) eqn:Ecr; [|reflexivity]. exfalso.
        pose proof (tok_addr t net d removed H1 Hin Hrin Ecr) as Hax.
        assert (Ha : s_addr s = a).
        { unfold from_addr in Hax, Hr0. apply N.eqb_eq in Hax, Hr0. congruence. }
        pose proof (NFc_other _ _ _ removed Etc Hnfd Hrin Hr0) as Ht. congruence. }
      assert (H2 : hpl (from_tok c) rest = hc c d) by (apply (hpl_remove_first_other _ _ _ removed Ef Hrc)).
      unfold sc in *. split; [lia|]. split; [lia|]. intro Hst. specialize (Hk3 Hst). lia. }
  fold rest d' still. unfold D' in Hfin. destruct rest as [|y ys]; cbn [fst]; apply Hfin; reflexivity.
Qed.

(* ---- drop / purges *)

Definition cdec_of (t : table) (k : dropkind) (addr : N) (ds : list (N * dest)) : nat :=
  length (filter (fun pr : list entry * list entry =>
                    match snd pr with [] => false | _ => negb (existsb (from_addr addr) (fst pr)) end)
                 (map (dpart t k addr) ds)).

Lemma drop_op_ctrs t k addr ctr :
  t_ctrs (fst (drop_op t k addr ctr))
  = match k, ctr with
    | DKAll, _ => t_ctrs t
    | _, Some c' => aset c' (iter_n (cdec_of t k addr (t_dests t)) wrap_dec (ctr_of t c')) (t_ctrs t)
    | _, None => t_ctrs t
    end.
Proof.
  unfold drop_op. cbv zeta. unfold cdec_of. rewrite map_map. unfold dpart, dg. cbn [fst snd].
  destruct (stats_of t addr) as [rcv acc].
  destruct (fold_left _ _ _) as [[rcv' acc'] bad']. cbn [fst t_ctrs]. reflexivity.
Qed.

Lemma sc_drop t k addr ctr :
  sc c (fst (drop_op t k addr ctr)) = sumN (fun nd => gopt (hc c) (dg t k addr (fst nd) (snd nd))) (t_dests t).
Proof. destruct (drop_op_dests t k addr ctr) as [Ed _]. unfold sc. rewrite Ed. apply sumd_fm. Qed.

(* no selected entry belongs to the session: its count does not move *)
Lemma sc_drop_untouched t k addr ctr :
  (forall n d e, In (n, d) (t_dests t) -> In e (d_entries d) ->
                 drop_sel (t_flags t) k addr e = true -> from_tok c e = false) ->
  sc c (fst (drop_op t k addr ctr)) = sc c t.
Proof.
  intro H. rewrite sc_drop. unfold sc, sumd. apply sumN_ext. intros [n d] Hin. cbn [fst snd].
  destruct (dpart_cases t k addr n d) as [(_ & Eg & _)|(_ & _ & Eg)]; cbv zeta in *.
  - rewrite Eg. reflexivity.
  - rewrite (Eg (hc c) eq_refl). unfold hc. cbn [d_entries with_entries]. apply hpl_filter_other.
    intros e He Hq. apply negb_false_iff in Hq. apply (H n d e Hin He Hq).
Qed.

(* the session's own purge: the counter goes down once per prefix it loses *)
Lemma cdec_count t k addr ds :
  (forall n d e, In (n, d) ds -> existsb (drop_sel (t_flags t) k addr) (d_entries d) = true ->
                 In e (d_entries d) -> from_addr addr e = from_tok c e) ->
  N.of_nat (cdec_of t k addr ds) + sumN (fun nd => gopt (hc c) (dg t k addr (fst nd) (snd nd))) ds
  = sumd (hc c) ds.
Proof.
  unfold cdec_of. induction ds as [|[n d] r IH]; intro H; [reflexivity|].
  specialize (IH (fun n0 d0 e0 Hin => H n0 d0 e0 (or_intror Hin))).
  unfold sumd in *. cbn [map filter sumN fst snd].
  destruct (dpart_cases t k addr n d) as [(_ & Eg & Ep)|(Hex & Ep & Eg)]; cbv zeta in *; rewrite Ep; cbn [fst snd].
  - rewrite Eg. cbn [gopt]. lia.
  - pose proof Hex as Hex1.
    set (sel := drop_sel (t_flags t) k addr) in *.
    set (rest := filter (fun e => negb (sel e)) (d_entries d)) in *.
    assert (Hd1 : hc c d = 1).
    { pose proof Hex as Hex0. apply existsb_exists in Hex as (x & Hx & Sx). apply (hpl_one_in _ _ x Hx).
      rewrite <- (H n d x (or_introl eq_refl) Hex0 Hx). apply (drop_sel_from _ _ _ _ Sx). }
    assert (Hrest : hpl (from_tok c) rest = if existsb (from_addr addr) rest then 1 else 0).
    { fold (hpl (from_addr addr) rest). symmetry. apply hpl_ext. intros x Hx. apply filter_In in Hx as [Hx _].
      apply (H n d x (or_introl eq_refl) Hex1 Hx). }
    rewrite (Eg (hc c) eq_refl). unfold hc at 1. cbn [d_entries with_entries]. rewrite Hrest, Hd1.
    destruct (filter sel (d_entries d)) as [|g0 gs] eqn:Eg0.
    + exfalso. apply existsb_exists in Hex as (x & Hx & Sx).
      assert (Hxx : In x (filter sel (d_entries d))) by (apply filter_In; split; assumption). rewrite Eg0 in Hxx. destruct Hxx.
    + destruct (existsb (from_addr addr) rest); cbn [negb length]; lia.
Qed.

Lemma ctr_of_ctrs t t' : t_ctrs t' = t_ctrs t -> ctr_of t' c = ctr_of t c.
Proof. intro E. unfold ctr_of. rewrite E. reflexivity. Qed.

Lemma sc_zero_no_entry t n d e :
  sc c t = 0 -> In (n, d) (t_dests t) -> In e (d_entries d) -> from_tok c e = false.
Proof.
  intros Hz Hin He. destruct (from_tok c e) eqn:E; [|reflexivity]. exfalso.
  pose proof (sumd_ge_in (hc c) _ n d Hin) as Hge. fold (sc c t) in Hge.
  assert (hc c d = 1) by (apply (hpl_one_in _ _ e He E)). lia.
Qed.

Lemma K_drop_all t addr ctr started :
  inv1 f t -> (started = false \/ addr <> a) ->
  K t started -> K (fst (drop_op t DKAll addr ctr)) started.
Proof.
  intros H1 Hal (Hk1 & Hk2 & Hk3).
  assert (E2 : sc c (fst (drop_op t DKAll addr ctr)) = sc c t).
  { apply sc_drop_untouched. intros n d e Hin He Hs. destruct Hal as [Hst|Hne].
    - apply (sc_zero_no_entry t n d e (Hk3 Hst) Hin He).
    - destruct (from_tok c e) eqn:Ec; [|reflexivity]. exfalso.
      pose proof (tok_addr t n d e H1 Hin He Ec) as Ha. pose proof (drop_sel_from _ _ _ _ Hs) as Hb.
      unfold from_addr in Ha, Hb. apply N.eqb_eq in Ha, Hb. congruence. }
  assert (E1 : ctr_of (fst (drop_op t DKAll addr ctr)) c = ctr_of t c).
  { apply ctr_of_ctrs. rewrite drop_op_ctrs. reflexivity. }
  unfold K. rewrite E1, E2. repeat split; assumption.
Qed.

Lemma K_drop_kind t k addr c' started :
  inv1 f t -> k <> DKAll -> f c' = addr ->
  (forall n d, In (n, d) (t_dests t) -> existsb (drop_sel (t_flags t) k addr) (d_entries d) = true ->
               NFc c' addr (d_entries d)) ->
  K t started -> K (fst (drop_op t k addr (Some c'))) (started || (c' =? c)).
Proof.
  intros H1 Hk Hfc Hnf HK.
  assert (Ectr : t_ctrs (fst (drop_op t k addr (Some c')))
                 = aset c' (iter_n (cdec_of t k addr (t_dests t)) wrap_dec (ctr_of t c')) (t_ctrs t)).
  { rewrite drop_op_ctrs. destruct k; [contradiction| | |]; reflexivity. }
  destruct (c' =? c) eqn:Ecc.
  - (* the session's own purge *)
    apply N.eqb_eq in Ecc. subst c'. rewrite orb_true_r. fold a in Hfc.
    destruct HK as (Hk1 & Hk2 & Hk3).
    assert (Hsame : forall n d e, In (n, d) (t_dests t) -> existsb (drop_sel (t_flags t) k addr) (d_entries d) = true ->
                                  In e (d_entries d) -> from_addr addr e = from_tok c e).
    { intros n d e Hin Hsel He. destruct (from_tok c e) eqn:Ec.
      - rewrite <- Hfc. apply (tok_addr t n d e H1 Hin He Ec).
      - destruct (from_addr addr e) eqn:Ea; [|reflexivity].
        pose proof (NFc_own _ _ _ e eq_refl (Hnf n d Hin Hsel) He Ea). congruence. }
    pose proof (cdec_count t k addr (t_dests t) Hsame) as Hc. rewrite <- (sc_drop t k addr (Some c)) in Hc.
    fold (sc c t) in Hc.
    unfold K, ctr_of. rewrite Ectr. fold (ctrl (aset c (iter_n (cdec_of t k addr (t_dests t)) wrap_dec (ctr_of t c)) (t_ctrs t)) c).
    rewrite ctrl_aset, N.eqb_refl, iter_wrap_dec by lia.
    split; [lia|]. split; [lia|discriminate].
  - apply N.eqb_neq in Ecc. apply (K_keep t); [| |exact HK].
    + unfold ctr_of. rewrite Ectr. fold (ctrl (aset c' (iter_n (cdec_of t k addr (t_dests t)) wrap_dec (ctr_of t c')) (t_ctrs t)) c).
      rewrite ctrl_aset. assert (E : (c =? c') = false) by (apply N.eqb_neq; congruence). rewrite E. reflexivity.
    + apply sc_drop_untouched. intros n d e Hin He Hs. destruct (from_tok c e) eqn:Ec; [|reflexivity]. exfalso.
      pose proof (tok_addr t n d e H1 Hin He Ec) as Ha. pose proof (drop_sel_from _ _ _ _ Hs) as Hb.
      assert (Hsel : existsb (drop_sel (t_flags t) k addr) (d_entries d) = true)
        by (apply existsb_exists; exists e; split; assumption).
      pose proof (NFc_other _ _ _ e Ecc (Hnf n d Hin Hsel) He Hb) as Ht. congruence.
Qed.

(* ---- operations that remove nothing *)

Lemma sc_mp_same t t' g :
  t_dests t' = mp g (t_dests t) -> (forall n d, hc c (g n d) = hc c d) -> sc c t' = sc c t.
Proof. intros Ed H. unfold sc. rewrite Ed. apply sumd_mp_same, H. Qed.

Lemma K_restale t llgr addr started : K t started -> K (fst (restale_op t llgr addr)) started.
Proof.
  intros (Hk1 & Hk2 & Hk3). destruct (restale_op_dests t llgr addr) as [Ed _]. cbv zeta in Ed.
  assert (E2 : sc c (fst (restale_op t llgr addr)) = sc c t).
  { apply (sc_mp_same _ _ _ Ed). intros n d. unfold hc. symmetry. apply hpl_perm, restale_dest_entries. }
  unfold K. rewrite E2. repeat split; assumption.
Qed.

Lemma K_nhv t nh r started : K t started -> K (fst (nhv_op t nh r)) started.
Proof.
  intros (Hk1 & Hk2 & Hk3). destruct (nhv_op_dests t nh r) as [Ed _].
  assert (E2 : sc c (fst (nhv_op t nh r)) = sc c t).
  { apply (sc_mp_same _ _ _ Ed). intros n d.
    destruct (nhv_dest_cases nh r n d) as [[_ E]|[_ E]]; cbv zeta in E; rewrite E; cbn [fst]; [reflexivity|].
    unfold hc. cbn [d_entries with_entries]. unfold hpl.
    assert (E1 : existsb (from_tok c) (map (nhv_e nh r) (d_entries d)) = existsb (from_tok c) (d_entries d)).
    { clear E. generalize (d_entries d). intro l0. induction l0 as [|e l IH]; cbn; [reflexivity|]. rewrite IH.
      unfold from_tok at 1. destruct (nhv_e_same nh r e) as (_ & _ & -> & _). reflexivity. }
    rewrite E1. reflexivity. }
  unfold K. rewrite E2. repeat split; assumption.
Qed.

Lemma K_set_deferring t b started : K t started -> K (set_deferring t b) started.
Proof. intro H. exact H. Qed.

Lemma K_weaken t started : K t started -> K t (started || false).
Proof. rewrite orb_false_r. exact (fun H => H). Qed.

Lemma K_run ops : forall t started,
  inv1 f t -> invE t -> Forall (op_wf f) ops -> Forall (ctr_disciplined f mx) ops ->
  session_alive a c started ops = true -> known_touch_from c t ops = false ->
  K t started -> exists st', K (run t ops) st'.
Proof.
  induction ops as [|o r IH]; intros t started H1 He Hw Hd Hal Hkn HK; [exists started; exact HK|].
  apply Forall_cons_iff in Hw as [Hwo Hwr]. apply Forall_cons_iff in Hd as [Hdo Hdr].
  cbn [known_touch_from] in Hkn. apply orb_false_iff in Hkn as [Hnow Hkn].
  change (run t (o :: r)) with (run (fst (fst (step t o))) r).
  pose proof (inv1_step f t o H1 Hwo) as H1'. pose proof (invE_step t o He) as He'.
  destruct o as [s net rpid nh at' filt nhinv lim|s net rpid ctr|k addr ctr|llgr addr|nh rr| |].
  - cbn [ctr_disciplined] in Hdo. destruct Hdo as [Hl Hs]. cbn [touch_event] in Hnow. cbn [session_alive mentions] in Hal.
    pose proof (K_insert t s net rpid nh at' filt nhinv lim started H1 He Hs Hl (foreign_in_false _ _ _ Hnow) HK) as HK'.
    apply (IH _ _ H1' He' Hwr Hdr Hal Hkn). cbn [step].
    destruct (insert t s net rpid nh at' filt nhinv lim) as [t' [| |c0]]; exact HK'.
  - cbn [ctr_disciplined] in Hdo. destruct Hdo as [Hl Hs]. cbn [touch_event] in Hnow. cbn [session_alive mentions] in Hal.
    assert (Hnf : forall d, alookup net (t_dests t) = Some d -> find (same_key s rpid) (d_entries d) <> None ->
                            NFc (s_tok s) (s_addr s) (d_entries d)).
    { intros d Hd Hf. unfold entries_of in Hnow. rewrite Hd in Hnow.
      destruct (find (same_key s rpid) (d_entries d)); [|contradiction]. apply foreign_in_false, Hnow. }
    pose proof (K_remove t s net rpid ctr started H1 He Hs Hl Hnf HK) as HK'.
    apply (IH _ _ H1' He' Hwr Hdr Hal Hkn). cbn [step].
    destruct (remove t s net rpid ctr) as [t' [c0|]]; exact HK'.
  - destruct (match k with DKAll => true | _ => false end) eqn:Ek.
    + destruct k; try discriminate. cbn [session_alive] in Hal.
      destruct (started && (addr =? a)) eqn:Esa; [discriminate|].
      assert (Hor : started = false \/ addr <> a).
      { apply andb_false_iff in Esa as [E|E]; [left; exact E|right; apply N.eqb_neq, E]. }
      pose proof (K_drop_all t addr ctr started H1 Hor HK) as HK'.
      apply (IH _ _ H1' He' Hwr Hdr Hal Hkn). cbn [step].
      destruct (drop_op t DKAll addr ctr) as [t' cs]. exact HK'.
    + assert (Hk : k <> DKAll) by (intros ->; discriminate).
      assert (Hex : exists c', ctr = Some c' /\ f c' = addr) by (destruct k; [discriminate| | |]; exact Hdo).
      destruct Hex as (c' & -> & Hfc).
      assert (Hnf : forall n d, In (n, d) (t_dests t) -> existsb (drop_sel (t_flags t) k addr) (d_entries d) = true ->
                                NFc c' addr (d_entries d)).
      { intros n d Hin Hsel. apply foreign_in_false.
        assert (Hev : existsb (fun nd => existsb (drop_sel (t_flags t) k addr) (d_entries (snd nd))
                                         && foreign_in c' addr c (d_entries (snd nd))) (t_dests t) = false)
          by (destruct k; [discriminate| | |]; exact Hnow).
        destruct (foreign_in c' addr c (d_entries d)) eqn:Ef; [|reflexivity].
        assert (existsb (fun nd => existsb (drop_sel (t_flags t) k addr) (d_entries (snd nd))
                                   && foreign_in c' addr c (d_entries (snd nd))) (t_dests t) = true); [|congruence].
        apply existsb_exists. exists (n, d). split; [exact Hin|]. cbn [snd]. rewrite Hsel, Ef. reflexivity. }
      pose proof (K_drop_kind t k addr c' started H1 Hk Hfc Hnf HK) as HK'.
      assert (Hal' : session_alive a c (started || (c' =? c)) r = true) by (destruct k; [discriminate| | |]; exact Hal).
      apply (IH _ _ H1' He' Hwr Hdr Hal' Hkn). cbn [step].
      destruct (drop_op t k addr (Some c')) as [t' cs]. exact HK'.
  - cbn [session_alive mentions] in Hal. apply (IH _ _ H1' He' Hwr Hdr Hal Hkn). cbn [step].
    pose proof (K_restale t llgr addr started HK) as HK'. destruct (restale_op t llgr addr) as [t' cs].
    apply K_weaken, HK'.
  - cbn [session_alive mentions] in Hal. apply (IH _ _ H1' He' Hwr Hdr Hal Hkn). cbn [step].
    pose proof (K_nhv t nh rr started HK) as HK'. destruct (nhv_op t nh rr) as [t' cs].
    apply K_weaken, HK'.
  - cbn [session_alive mentions] in Hal. apply (IH _ _ H1' He' Hwr Hdr Hal Hkn). cbn [step fst].
    apply K_weaken, K_set_deferring, HK.
  - cbn [session_alive mentions] in Hal. apply (IH _ _ H1' He' Hwr Hdr Hal Hkn). cbn [step fst].
    apply K_weaken, K_set_deferring, HK.
Qed.

End Limit.

(* ----------------------------------------------------------- final statement *)

Lemma C15_limit_respected_outside_known :
  forall f mx shard ops c,
    Forall (op_wf f) ops -> Forall (ctr_disciplined f mx) ops -> mx c < 4294967296 ->
    session_alive (f c) c false ops = true ->
    ~ Known_C15_session_touch c shard ops ->
    let t := run (empty_table shard) ops in
    ctr_of t c = sess_recount t c /\ sess_recount t c <= mx c.
Proof.
  intros f mx shard ops c Hw Hd Hmx Hal Hkn t.
  assert (Hk : known_touch_from c (empty_table shard) ops = false).
  { unfold Known_C15_session_touch in Hkn. destruct (known_touch_from c (empty_table shard) ops); [exfalso; apply Hkn; reflexivity|reflexivity]. }
  assert (HK0 : K mx c (empty_table shard) false).
  { unfold K, sc, ctr_of. cbn. repeat split; try reflexivity. apply N.le_0_l. }
  destruct (K_run f mx c Hmx ops _ _ (inv1_empty f shard) (invE_empty shard) Hw Hd Hal Hk HK0) as (st' & H1 & H2 & _).
  fold t in H1, H2. rewrite sess_recount_sc. split; assumption.
Qed.

(* an insert rejected with PrefixLimitExceeded installs nothing *)
Lemma C15_limit_rejection_installs_nothing :
  forall t s net rpid nh a filt nhinv lim,
    snd (step t (Insert s net rpid nh a filt nhinv lim)) = true ->
    fst (fst (step t (Insert s net rpid nh a filt nhinv lim))) = t.
Proof.
  intros t s net rpid nh a filt nhinv lim. cbn [step]. unfold insert. cbv zeta.
  destruct (ins_over t lim _); [intros _; reflexivity|].
  destruct (ins_pid _ _ _) as [pn|]; [|cbn [snd]; intro H; discriminate H].
  unfold ins_out. destruct (t_deferring t); [cbn [snd]; intro H; discriminate H|].
  destruct (negb _ && _); cbn [snd]; intro H; discriminate H.
Qed.

(* ------------------------------------------------------------ non-vacuity *)

Definition exl_ops : list op :=
  [ Insert (ex_src 1 1 9 0) 1 0 (Some 1) kf_attr false false (Some (2, 1));
    Insert (ex_src 1 1 9 0) 2 0 (Some 1) kf_attr true false (Some (2, 1));
    Insert (ex_src 1 1 9 0) 3 0 (Some 1) kf_attr false false (Some (2, 1));
    Insert (ex_src 2 2 5 2) 1 0 (Some 2) kf_attr false false (Some (2, 2));
    Restale false 1;
    Remove (ex_src 1 1 9 0) 2 0 (Some 1);
    Insert (ex_src 1 1 9 0) 3 1 (Some 1) kf_attr false false (Some (2, 1));
    Drop DKStale 2 (Some 2);
    Drop DKAll 2 None;
    Insert (ex_src 12 2 5 2) 1 0 (Some 2) kf_attr false false (Some (2, 12)) ].
Definition exl_f (tok : N) : N := if tok =? 12 then 2 else tok.

Example exl_hyps :
  Forall (op_wf exl_f) exl_ops /\ Forall (ctr_disciplined exl_f (fun _ => 2)) exl_ops
  /\ session_alive (exl_f 1) 1 false exl_ops = true /\ ~ Known_C15_session_touch 1 0 exl_ops
  /\ session_alive (exl_f 12) 12 false exl_ops = true /\ ~ Known_C15_session_touch 12 0 exl_ops.
Proof.
  split; [repeat constructor|]. split.
  - repeat constructor; cbn; try (eexists; split; reflexivity).
  - split; [reflexivity|]. split; [unfold Known_C15_session_touch; vm_compute; discriminate|].
    split; [reflexivity|]. unfold Known_C15_session_touch. vm_compute. discriminate.
Qed.

(* the third new prefix of session 1 was rejected; the session holds two
   prefixes, the restarted session of peer 2 one *)
Example exl_counts :
  sess_recount (run (empty_table 0) exl_ops) 1 = 2 /\ ctr_of (run (empty_table 0) exl_ops) 1 = 2
  /\ sess_recount (run (empty_table 0) exl_ops) 12 = 1
  /\ snd (step (run (empty_table 0) (firstn 2 exl_ops)) (nth 2 exl_ops StartDeferral)) = true.
Proof. vm_compute. repeat split. Qed.

(* Table::remove unwraps route_stats[addr][family]: whenever it finds the path
   to remove, the statistics entry exists *)
Lemma C15_remove_finds_stats :
  forall shard ops s net rpid d removed,
    let t := run (empty_table shard) ops in
    alookup net (t_dests t) = Some d -> find (same_key s rpid) (d_entries d) = Some removed ->
    alookup (s_addr s) (t_stats t) <> None.
Proof.
  intros shard ops s net rpid d removed t Hd Ef Hnone.
  pose proof (C15_stats_eq_recount shard ops (s_addr s)) as H. cbv zeta in H. fold t in H. rewrite Hnone in H.
  destruct H as [H _]. rewrite recv_recount_cr in H.
  apply find_some in Ef as [Hin Hk]. apply alookup_in in Hd.
  pose proof (sumd_ge_in (hr (s_addr s)) _ net d Hd) as Hge. fold (cr (s_addr s) t) in Hge.
  assert (hr (s_addr s) d = 1) by (apply (hrl_one_in _ _ removed Hin), (same_key_from _ _ _ Hk)). lia.
Qed.

(* ---- the class of the open finding was narrowed: the new class is inside the old one *)

Lemma foreign_in_entry tok addr c es :
  foreign_in tok addr c es = true ->
  exists e, In e es /\ from_addr addr e = true /\ from_tok tok e = false /\ (tok = c \/ from_tok c e = true).
Proof.
  unfold foreign_in. intro H. apply existsb_exists in H as (e & He & H).
  apply andb_true_iff in H as [H Hc]. apply andb_true_iff in H as [Ha Ht]. apply negb_true_iff in Ht.
  exists e. split; [exact He|]. split; [exact Ha|]. split; [exact Ht|].
  apply orb_true_iff in Hc as [Hc|Hc]; [left; apply N.eqb_eq, Hc|right; exact Hc].
Qed.

Lemma foreign_entry_intro tok addr t n d e :
  In (n, d) (t_dests t) -> In e (d_entries d) -> from_addr addr e = true -> from_tok tok e = false ->
  foreign_entry tok addr t = true.
Proof.
  intros Hin He Ha Ht. unfold foreign_entry. apply existsb_exists. exists e. split.
  - unfold all_entries. apply in_flat_map. exists (n, d). split; assumption.
  - rewrite Ha, Ht. reflexivity.
Qed.

Lemma touch_in_two_sessions f mx c ops : forall t,
  inv1 f t -> Forall (op_wf f) ops -> Forall (ctr_disciplined f mx) ops ->
  known_touch_from c t ops = true -> known_two_sessions_from (f c) t ops = true.
Proof.
  induction ops as [|o r IH]; intros t H1 Hw Hd Hk; [discriminate|].
  apply Forall_cons_iff in Hw as [Hwo Hwr]. apply Forall_cons_iff in Hd as [Hdo Hdr].
  cbn [known_touch_from known_two_sessions_from] in *. apply orb_true_iff in Hk as [Hk|Hk];
    [|apply orb_true_iff; right; apply (IH _ (inv1_step f t o H1 Hwo) Hwr Hdr Hk)].
  apply orb_true_iff. left.
  assert (Hgen : forall tok addr n d, f tok = addr -> In (n, d) (t_dests t) ->
                   foreign_in tok addr c (d_entries d) = true ->
                   (addr =? f c) && foreign_entry tok addr t = true).
  { intros tok addr n d Hf Hin Hfi. destruct (foreign_in_entry _ _ _ _ Hfi) as (e & He & Ha & Ht & Hc).
    apply andb_true_iff. split; [|apply (foreign_entry_intro tok addr t n d e Hin He Ha Ht)].
    apply N.eqb_eq. destruct Hc as [->|Hc]; [symmetry; exact Hf|].
    destruct H1 as [_ _ Htok]. pose proof (Htok _ _ _ Hin He) as W. unfold wf_entry in W.
    unfold from_addr in Ha. unfold from_tok in Hc. apply N.eqb_eq in Ha, Hc. congruence. }
  destruct o as [s net rpid nh a filt nhinv lim|s net rpid ctr|k addr ctr|llgr addr|nh rr| |];
    cbn [touch_event acting] in *; try discriminate.
  - cbn [ctr_disciplined] in Hdo. destruct Hdo as [_ Hs]. unfold entries_of in Hk.
    destruct (alookup net (t_dests t)) as [d|] eqn:Hd; [|discriminate].
    apply (Hgen _ _ net d (eq_sym Hs) (alookup_in _ _ _ Hd) Hk).
  - cbn [ctr_disciplined] in Hdo. destruct Hdo as [_ Hs]. unfold entries_of in Hk.
    destruct (alookup net (t_dests t)) as [d|] eqn:Hd; [|discriminate].
    destruct (find (same_key s rpid) (d_entries d)); [|discriminate].
    apply (Hgen _ _ net d (eq_sym Hs) (alookup_in _ _ _ Hd) Hk).
  - destruct k; [discriminate| | |]; cbn [ctr_disciplined] in Hdo; destruct Hdo as (c' & -> & Hfc);
      apply existsb_exists in Hk as ([n d] & Hin & Hk); cbn [snd] in Hk; apply andb_true_iff in Hk as [_ Hk];
      apply (Hgen _ _ n d Hfc Hin Hk).
Qed.

Lemma C15_known_class_narrowed :
  forall f mx shard ops c,
    Forall (op_wf f) ops -> Forall (ctr_disciplined f mx) ops ->
    Known_C15_session_touch c shard ops -> Known_C15_two_sessions (f c) shard ops.
Proof.
  intros f mx shard ops c Hw Hd Hk. unfold Known_C15_session_touch, Known_C15_two_sessions in *.
  apply (touch_in_two_sessions f mx c ops _ (inv1_empty f shard) Hw Hd Hk).
Qed.

(* ... strictly: a restarted session that announces a prefix the old session never
   had is in the old class and not in the new one *)
Definition narrow_ops : list op :=
  [ Insert (ex_src 1 1 9 0) 1 0 (Some 1) kf_attr false false (Some (5, 1));
    Restale false 1;
    Insert (ex_src 11 1 9 0) 2 0 (Some 1) kf_attr false false (Some (5, 11));
    Remove (ex_src 11 1 9 0) 2 0 (Some 11) ].

Example C15_known_class_strictly_narrower :
  Known_C15_two_sessions 1 0 narrow_ops /\ ~ Known_C15_session_touch 11 0 narrow_ops
  /\ ~ Known_C15_session_touch 1 0 narrow_ops.
Proof.
  unfold Known_C15_two_sessions, Known_C15_session_touch. vm_compute.
  split; [reflexivity|]. split; discriminate.
Qed.

(* PrefixLimitExceeded is signalled only when the session really holds its maximum *)
Lemma C15_limit_signalled_only_when_full :
  forall f mx shard ops c s net rpid nh a filt nhinv,
    Forall (op_wf f) ops -> Forall (ctr_disciplined f mx) ops -> mx c < 4294967296 ->
    session_alive (f c) c false ops = true ->
    ~ Known_C15_session_touch c shard ops ->
    let t := run (empty_table shard) ops in
    s_tok s = c ->
    snd (step t (Insert s net rpid nh a filt nhinv (Some (mx c, c)))) = true ->
    sess_recount t c = mx c.
Proof.
  intros f mx shard ops c s net rpid nh a filt nhinv Hw Hd Hmx Hal Hkn t Hs Hlim.
  destruct (C15_limit_respected_outside_known f mx shard ops c Hw Hd Hmx Hal Hkn) as [H1 H2]. fold t in H1, H2.
  assert (Hge : mx c <= ctr_of t c).
  { revert Hlim. cbn [step]. unfold insert. cbv zeta.
    destruct (ins_over t (Some (mx c, c)) _) eqn:Ho.
    - intros _. unfold ins_over in Ho. apply andb_true_iff in Ho as [_ Ho]. apply N.leb_le in Ho. exact Ho.
    - destruct (ins_pid _ _ _) as [pn|]; [|cbn [snd]; intro H; discriminate H].
      unfold ins_out. destruct (t_deferring t); [cbn [snd]; intro H; discriminate H|].
      destruct (negb _ && _); cbn [snd]; intro H; discriminate H. }
  lia.
Qed.
