(* Proofs for property C13 (installed VRPs = fold of the cache's responses). *)
From Coq Require Import List Arith NArith Bool Lia ZifyBool ZifyNat ZifyN.
From RB Require Import Base.Val Model.Rpki Model.RtrClient Spec.Rfc6811 Proofs.RpkiTrie Proofs.Rpki.
Import ListNotations.
Open Scope N_scope.
