(* Proofs for property C13: after the first End of Data (hence after each one) the
   VRPs installed for a cache are the fold of its responses; other caches' VRPs
   are untouched; everything of a cache is removed when its session ends; the
   codec consumes every well-framed PDU under any fragmentation. *)
From Coq Require Import List Arith NArith Bool Lia ZifyBool ZifyNat ZifyN.
From RB Require Import Base.Val Model.Rpki Model.RtrClient Spec.Rfc6811 Spec.RtrSpec
  Spec.WireSpec Proofs.RpkiTrie Proofs.Rpki Proofs.RtrCodec.
Import ListNotations.
Open Scope N_scope.

(* ---- views *)
Definition view (m : msg) : pdu_view :=
  match m with
  | IpPrefix n flags mx asn => if 0 <? N.land flags 1 then PAnnounce (n, mx, asn) else PWithdraw (n, mx, asn)
  | EndOfData _ _ _ _ _ => PEndOfData
  | _ => POther
  end.

(* the VRPs installed on behalf of cache c, as records *)
Definition installed (c : N) (t : rtab) (r : rec) : Prop := tmem t (elt_of c r).

Lemma elt_of_inj : forall c r1 r2, elt_of c r1 = elt_of c r2 -> r1 = r2.
Proof.
  intros c [[n1 mx1] a1] [[n2 mx2] a2] H. unfold elt_of, mk_roa, key_of in H. cbn [fst snd] in H.
  injection H as Hf Hk Hm Ha. apply app_inj_tail in Hk. destruct Hk as [Hadr Hmask].
  destruct n1, n2. cbn in *. subst. reflexivity.
Qed.

Lemma cache_of_elt : forall c r, cache_of (elt_of c r) = c.
Proof. intros c [[n mx] a]. reflexivity. Qed.

(* ---- PDU-level runs *)
Fixpoint run_pdus (fx : fixes) (c : N) (ms : list msg) (st : cstate) (t : rtab) : cstate * rtab :=
  match ms with
  | [] => (st, t)
  | m :: rest => let '(st', t', _) := on_msg fx c st t m in run_pdus fx c rest st' t'
  end.

Definition v_recs (c : N) (v : list (net * roa)) (r : rec) : Prop :=
  In (fst (fst r), mk_roa c (snd (fst r)) (snd r)) v.

Lemma reset_spec : forall c v t x, wf_tab t ->
  (tmem (reset c v t) x
   <-> In x (map (fun nr => (n_fam (fst nr), key_of (fst nr), snd nr)) v) \/ (cache_of x <> c /\ tmem t x)).
Proof. intros c v t x W. unfold reset. rewrite fold_insert_spec, drop_spec by exact W. reflexivity. Qed.

Lemma reset_wf : forall c v t, wf_tab t -> wf_tab (reset c v t).
Proof. intros c v t W. unfold reset. apply fold_insert_wf, drop_wf. exact W. Qed.

Definition v_ok (c : N) (st : cstate) : Prop := Forall (fun nr => r_src (snd nr) = c) (c_v st).

Lemma v_ok_init : forall c, v_ok c c_init.
Proof. intro c. constructor. Qed.

(* wf, the shape of v and isolation for one message, any fix setting *)
Lemma on_msg_inv : forall fx c st t m st' t' out,
  wf_tab t -> v_ok c st -> on_msg fx c st t m = (st', t', out) ->
  wf_tab t' /\ v_ok c st' /\ forall x, cache_of x <> c -> (tmem t' x <-> tmem t x).
Proof.
  intros fx c st t m st' t' out W V H.
  assert (RS : wf_tab (reset c (c_v st) t) /\ forall x, cache_of x <> c -> (tmem (reset c (c_v st) t) x <-> tmem t x)).
  { split; [apply reset_wf; exact W|]. intros x Hx. rewrite reset_spec by exact W. split; [|tauto].
    intros [Hin|[_ Hm]]; [|exact Hm]. exfalso. apply in_map_iff in Hin. destruct Hin as [[n r] [E Hin]].
    unfold v_ok in V. rewrite Forall_forall in V. specialize (V (n, r) Hin). cbn [fst snd] in *. subst x.
    apply Hx. unfold cache_of. cbn. exact V. }
  destruct m as [sid serial|sid serial| |sid|n flags mx asn|sid serial a b d| |code]; cbn [on_msg] in H.
  - destruct (c_eod st && negb (serial =? c_serial st)); inversion H; subst; (split; [exact W|split; [exact V|tauto]]).
  - inversion H; subst. split; [exact W|split; [exact V|tauto]].
  - inversion H; subst. split; [exact W|split; [exact V|tauto]].
  - inversion H; subst. split; [exact W|split; [exact V|tauto]].
  - destruct (0 <? N.land flags 1); destruct (c_eod st); inversion H; subst; clear H.
    + split; [apply insert_wf; exact W|]. split; [exact V|]. intros x Hx. rewrite insert_spec. split; [|tauto].
      intros [E|E]; [|exact E]. subst x. exfalso. apply Hx. reflexivity.
    + split; [exact W|]. split; [|tauto]. unfold v_ok, set_core. cbn [c_v]. apply Forall_app. split; [exact V|].
      constructor; [reflexivity|constructor].
    + split; [apply remove_wf; exact W|]. split; [exact V|]. intros x Hx. rewrite remove_spec by exact W. split; [tauto|].
      intro E. split; [|exact E]. intro E2. subst x. apply Hx. reflexivity.
    + split; [exact W|split; [exact V|tauto]].
  - destruct (fx_eod fx); [destruct (c_eod st)|]; inversion H; subst; clear H.
    + split; [exact W|split; [exact V|tauto]].
    + split; [apply RS|]. split; [constructor|apply RS].
    + split; [apply RS|]. split; [exact V|apply RS].
  - inversion H; subst. split; [exact W|split; [exact V|tauto]].
  - inversion H; subst. split; [exact W|split; [exact V|tauto]].
Qed.

(* ---- the fold invariant of the fixed code *)
Definition fold_inv (c : N) (st : cstate) (t : rtab) (F : rec -> Prop) : Prop :=
  if c_eod st then forall r, installed c t r <-> F r
  else forall r, v_recs c (c_v st) r <-> F r.

Definition view_ok (eod : bool) (p : pdu_view) : Prop :=
  match p with PWithdraw _ => eod = true | _ => True end.

Definition fold_step (p : pdu_view) (F : rec -> Prop) : rec -> Prop :=
  match p with
  | PAnnounce r => fun x => x = r \/ F x
  | PWithdraw r => fun x => x <> r /\ F x
  | _ => F
  end.

Lemma fold_cache_step : forall p ps F, fold_cache (p :: ps) F = fold_cache ps (fold_step p F).
Proof. intros [r|r| |] ps F; reflexivity. Qed.

Lemma net_key_inj : forall n1 n2, n_fam n1 = n_fam n2 -> key_of n1 = key_of n2 -> n1 = n2.
Proof.
  intros [f1 a1 m1] [f2 a2 m2] Hf Hk. unfold key_of in Hk. cbn in *. apply app_inj_tail in Hk. destruct Hk. subst. reflexivity.
Qed.

Lemma in_map_elt : forall c v r,
  In (elt_of c r) (map (fun nr => (n_fam (fst nr), key_of (fst nr), snd nr)) v) <-> v_recs c v r.
Proof.
  intros c v [[n mx] asn]. unfold v_recs, elt_of. cbn [fst snd]. rewrite in_map_iff. split.
  - intros [[n' ro] [E Hin]]. cbn [fst snd] in E. injection E as Hf Hk Hr. subst ro.
    rewrite (net_key_inj n' n Hf Hk) in Hin. exact Hin.
  - intro H. exists (n, mk_roa c mx asn). split; [reflexivity|exact H].
Qed.

Lemma installed_reset : forall c v t r, wf_tab t -> (installed c (reset c v t) r <-> v_recs c v r).
Proof.
  intros c v t r W. unfold installed. rewrite reset_spec by exact W. rewrite in_map_elt, cache_of_elt. tauto.
Qed.

Lemma on_msg_fold : forall c st t m st' t' out F,
  wf_tab t -> fold_inv c st t F -> view_ok (c_eod st) (view m) ->
  on_msg fixed c st t m = (st', t', out) ->
  fold_inv c st' t' (fold_step (view m) F)
  /\ c_eod st' = (c_eod st || match view m with PEndOfData => true | _ => false end).
Proof.
  intros c st t m st' t' out F W I VO H. unfold fold_inv in *.
  destruct m as [sid serial|sid serial| |sid|n flags mx asn|sid serial a b d| |code]; cbn [on_msg view fixed fx_eod] in *.
  - destruct (c_eod st && negb (serial =? c_serial st)); inversion H; subst; cbn [fold_step]; rewrite orb_false_r; (split; [exact I|reflexivity]).
  - inversion H; subst. cbn [fold_step]. rewrite orb_false_r. split; [exact I|reflexivity].
  - inversion H; subst. cbn [fold_step]. rewrite orb_false_r. split; [exact I|reflexivity].
  - inversion H; subst. cbn [fold_step set_core c_eod c_v]. rewrite orb_false_r. split; [exact I|reflexivity].
  - destruct (0 <? N.land flags 1); cbn [fold_step view_ok] in *.
    + destruct (c_eod st) eqn:E; inversion H; subst; clear H; cbn [set_core c_eod c_v]; rewrite ?E, ?orb_false_r; (split; [|reflexivity]).
      * intro r. unfold installed. rewrite insert_spec. change (n_fam n, key_of n, mk_roa c mx asn) with (elt_of c (n, mx, asn)).
        rewrite <- (I r). unfold installed. split; [intros [H|H]; [left; apply (elt_of_inj c); exact H|right; exact H]|intros [H|H]; [left; subst; reflexivity|right; exact H]].
      * intro r. unfold v_recs. rewrite in_app_iff. rewrite <- (I r). unfold v_recs. cbn [In]. split.
        -- intros [H|[H|[]]]; [right; exact H|left]. destruct r as [[n' mx'] asn']. cbn [fst snd] in H. unfold mk_roa in H. injection H as H1 H2 H3. subst. reflexivity.
        -- intros [H|H]; [right; left; subst; reflexivity|left; exact H].
    + rewrite VO in *. inversion H; subst; clear H. rewrite VO. rewrite orb_false_r. split; [|reflexivity].
      intro r. unfold installed. rewrite remove_spec by exact W. change (n_fam n, key_of n, mk_roa c mx asn) with (elt_of c (n, mx, asn)).
      rewrite <- (I r). unfold installed. split; [intros [H1 H2]; split; [intro; subst; apply H1; reflexivity|exact H2]|intros [H1 H2]; split; [intro E; apply H1; apply (elt_of_inj c); exact E|exact H2]].
  - cbn [fold_step]. destruct (c_eod st) eqn:E; inversion H; subst; clear H; cbn [set_core c_eod c_v]; rewrite ?orb_true_r; (split; [|reflexivity]).
    + exact I.
    + intro r. rewrite installed_reset by exact W. apply I.
  - inversion H; subst. cbn [fold_step]. rewrite orb_false_r. split; [exact I|reflexivity].
  - inversion H; subst. cbn [fold_step]. rewrite orb_false_r. split; [exact I|reflexivity].
Qed.

Definition conforming_from (eod : bool) (ps : list pdu_view) : Prop := eod = true \/ conforming ps.

Lemma fold_cache_ext : forall ps F G, (forall r, F r <-> G r) -> forall r, fold_cache ps F r <-> fold_cache ps G r.
Proof.
  induction ps as [|p ps IH]; intros F G H r; [apply H|]. destruct p as [x|x| |]; cbn [fold_cache]; apply IH; intro y; rewrite ?H; tauto.
Qed.

Lemma run_pdus_fold : forall ms c st t F,
  wf_tab t -> v_ok c st -> fold_inv c st t F -> conforming_from (c_eod st) (map view ms) ->
  let '(st', t') := run_pdus fixed c ms st t in
  fold_inv c st' t' (fold_cache (map view ms) F) /\ wf_tab t' /\ v_ok c st'
  /\ (c_eod st' = true <-> c_eod st = true \/ seen_eod (map view ms)).
Proof.
  induction ms as [|m ms IH]; intros c st t F W V I C.
  - cbn. split; [exact I|]. split; [exact W|]. split; [exact V|]. unfold seen_eod. cbn. tauto.
  - cbn [run_pdus map]. destruct (on_msg fixed c st t m) as [[st1 t1] out] eqn:E.
    destruct (on_msg_inv fixed c st t m st1 t1 out W V E) as [W1 [V1 _]].
    assert (VO : view_ok (c_eod st) (view m)).
    { destruct C as [C|C]; [destruct (view m); cbn; auto|]. cbn [map conforming] in C. destruct (view m); cbn; auto; try contradiction. }
    destruct (on_msg_fold c st t m st1 t1 out F W I VO E) as [I1 E1].
    assert (C1 : conforming_from (c_eod st1) (map view ms)).
    { rewrite E1. destruct C as [C|C]; [left; rewrite C; reflexivity|]. cbn [map conforming] in C.
      destruct (view m); try (right; exact C); try contradiction. left. apply orb_true_r. }
    specialize (IH c st1 t1 (fold_step (view m) F) W1 V1 I1 C1).
    destruct (run_pdus fixed c ms st1 t1) as [st' t']. destruct IH as [I' [W' [V' S']]].
    split; [rewrite fold_cache_step; exact I'|]. split; [exact W'|]. split; [exact V'|].
    rewrite S', E1. unfold seen_eod. cbn [In]. rewrite orb_true_iff.
    destruct (view m); split; intro H; try tauto; try (destruct H as [[H|H]|H]; try discriminate; tauto);
      try (destruct H as [H|[H|H]]; try discriminate; tauto).
Qed.

(* C13, first sentence, at the level of decoded PDUs: for every PDU sequence of a
   conforming cache, once an End of Data has been received (in particular right after
   each End of Data) the VRPs installed for that cache are exactly the fold of its
   responses, whatever the table held before *)
Theorem C13_installed_eq_fold_at_eod : forall (c : N) (ms : list msg) (t0 : rtab),
  wf_tab t0 -> conforming (map view ms) ->
  let '(st, t) := run_pdus fixed c ms c_init t0 in
  (c_eod st = true <-> seen_eod (map view ms))
  /\ (c_eod st = true -> forall r, installed c t r <-> announced (map view ms) r).
Proof.
  intros c ms t0 W C.
  pose proof (run_pdus_fold ms c c_init t0 (fun _ => False) W (v_ok_init c)) as H.
  assert (I0 : fold_inv c c_init t0 (fun _ => False)) by (unfold fold_inv, v_recs; cbn; tauto).
  specialize (H I0 (or_intror C)).
  destruct (run_pdus fixed c ms c_init t0) as [st t]. destruct H as [I [_ [_ S]]].
  split; [rewrite S; cbn; split; [intros [H|H]; [discriminate|exact H]|intro H; right; exact H]|].
  intros E r. unfold fold_inv in I. rewrite E in I. apply I.
Qed.

(* other caches' VRPs are untouched by any PDU sequence, fixed or not *)
Lemma run_pdus_iso : forall fx ms c st t, wf_tab t -> v_ok c st ->
  let '(st', t') := run_pdus fx c ms st t in
  wf_tab t' /\ v_ok c st' /\ forall x, cache_of x <> c -> (tmem t' x <-> tmem t x).
Proof.
  induction ms as [|m ms IH]; intros c st t W V; [cbn; split; [exact W|split; [exact V|tauto]]|].
  cbn [run_pdus]. destruct (on_msg fx c st t m) as [[st1 t1] out] eqn:E.
  destruct (on_msg_inv fx c st t m st1 t1 out W V E) as [W1 [V1 I1]].
  specialize (IH c st1 t1 W1 V1). destruct (run_pdus fx c ms st1 t1) as [st' t']. destruct IH as [W' [V' I']].
  split; [exact W'|split; [exact V'|]]. intros x Hx. rewrite I', I1 by exact Hx. reflexivity.
Qed.

(* ======================================================================= *)
(* From decoded PDUs to the byte stream: one Framed drain runs the PDU step  *)
(* function over exactly the messages the codec delivered                    *)

Lemma model_run_msgs : forall fx c ms st t sent,
  exists out, RtrClient.run_msgs fx c ms st t sent
              = (fst (run_pdus fx c ms st t), snd (run_pdus fx c ms st t), out).
Proof.
  induction ms as [|m ms IH]; intros st t sent; [exists sent; reflexivity|].
  cbn [RtrClient.run_msgs run_pdus]. destruct (on_msg fx c st t m) as [[st1 t1] o].
  apply IH.
Qed.

Theorem apply_evs_runs_pdus : forall fx c evs st t sent,
  exists out, apply_evs fx c evs st t sent
    = (fst (run_pdus fx c (map of_rtr (Stream.msgs_of evs)) st t),
       snd (run_pdus fx c (map of_rtr (Stream.msgs_of evs)) st t), out,
       match Stream.err_of evs with Some _ => true | None => false end).
Proof.
  intros fx c evs st t sent. unfold apply_evs.
  destruct (model_run_msgs fx c (map of_rtr (Stream.msgs_of evs)) st t sent) as [out H].
  exists out. rewrite H. reflexivity.
Qed.

(* ======================================================================= *)
(* The system of clients: isolation and cleanup                             *)

Lemma with_buf_v_ok : forall c st b, v_ok c st -> v_ok c (with_buf st b).
Proof. intros c st b V. exact V. Qed.

Lemma client_event_inv : forall fx c st t e st' t' out,
  wf_tab t -> v_ok c st -> client_event fx c st t e = (st', t', out) ->
  wf_tab t' /\ v_ok c st' /\ forall x, cache_of x <> c -> (tmem t' x <-> tmem t x).
Proof.
  intros fx c st t e st' t' out W V H. unfold client_event in H.
  destruct (c_done st); [inversion H; subst; split; [exact W|split; [exact V|tauto]]|].
  assert (FIN : forall st0 t0, wf_tab t0 -> v_ok c st0 ->
            (forall x, cache_of x <> c -> (tmem t0 x <-> tmem t x)) ->
            let '(st1, t1) := finish_session c st0 t0 in
            wf_tab t1 /\ v_ok c st1 /\ forall x, cache_of x <> c -> (tmem t1 x <-> tmem t x)).
  { intros st0 t0 W0 V0 I0. unfold finish_session. split; [apply drop_wf; exact W0|]. split; [exact V0|].
    intros x Hx. rewrite drop_spec by exact W0. rewrite I0 by exact Hx. tauto. }
  destruct e as [c0 bytes|c0|c0|c0].
  - destruct (c_open st); [|inversion H; subst; split; [exact W|split; [exact V|tauto]]].
    destruct (Stream.drain (codec fx) (S (length (c_buf st ++ bytes))) (c_buf st ++ bytes)) as [[evs ds]|].
    + destruct (apply_evs_runs_pdus fx c evs st t []) as [o E]. rewrite E in H.
      pose proof (run_pdus_iso fx (map of_rtr (Stream.msgs_of evs)) c st t W V) as R.
      destruct (run_pdus fx c (map of_rtr (Stream.msgs_of evs)) st t) as [st2 t2]. cbn [fst snd] in H.
      destruct R as [W2 [V2 I2]].
      destruct (match Stream.err_of evs with Some _ => true | None => false end).
      * specialize (FIN st2 t2 W2 V2 I2). destruct (finish_session c st2 t2) as [st3 t3]. inversion H; subst. exact FIN.
      * unfold fire_permit in H.
        destruct (c_permit (with_buf st2 _) && c_eod (with_buf st2 _)); inversion H; subst; (split; [exact W2|split; [exact V2|exact I2]]).
    + specialize (FIN st t W V (fun x _ => iff_refl _)). destruct (finish_session c st t) as [st3 t3]. inversion H; subst. exact FIN.
  - unfold fire_permit in H. cbn [with_permit c_permit c_eod] in H.
    destruct (true && c_eod st); inversion H; subst; (split; [exact W|split; [exact V|tauto]]).
  - unfold finish_session in H. inversion H; subst. split; [apply drop_wf; exact W|]. split; [exact V|].
    intros x Hx. rewrite drop_spec by exact W. tauto.
  - unfold finish_session in H. inversion H; subst. split; [apply drop_wf; exact W|]. split; [exact V|].
    intros x Hx. rewrite drop_spec by exact W. tauto.
Qed.

Definition sys_ok (s : sys) : Prop :=
  wf_tab (s_tab s) /\ forall i st, nth_error (s_clients s) i = Some st -> v_ok (N.of_nat i) st.

Lemma nth_error_set_nth : forall {A} (l : list A) n x i y,
  nth_error (set_nth n x l) i = Some y -> (i = n /\ y = x) \/ (i <> n /\ nth_error l i = Some y).
Proof.
  induction l as [|a l IH]; intros n x i y H; [destruct n, i; cbn in H; discriminate|].
  destruct n as [|n]; destruct i as [|i]; cbn in H.
  - inversion H. left. split; reflexivity.
  - right. split; [discriminate|exact H].
  - right. split; [discriminate|exact H].
  - destruct (IH n x i y H) as [[E1 E2]|[E1 E2]]; [left; split; congruence|right; split; [congruence|exact E2]].
Qed.

(* C13, "VRPs of one cache are untouched by another's": an event of client c (a TCP
   segment with any PDUs, soft reset, close, cancel), with or without the fixes,
   changes no VRP of any other cache *)
Theorem C13_caches_isolated : forall (fx : fixes) (s : sys) (e : event),
  sys_ok s ->
  sys_ok (fst (sys_event fx s e))
  /\ forall x, cache_of x <> ev_client e -> (tmem (s_tab (fst (sys_event fx s e))) x <-> tmem (s_tab s) x).
Proof.
  intros fx s e [W V]. unfold sys_event.
  destruct (nth_error (s_clients s) (N.to_nat (ev_client e))) as [st|] eqn:E; [|split; [split; assumption|tauto]].
  destruct (client_event fx (ev_client e) st (s_tab s) e) as [[st' t'] sent] eqn:CE. cbn [fst s_tab s_clients].
  assert (Vc : v_ok (ev_client e) st) by (rewrite <- (N2Nat.id (ev_client e)); apply V; exact E).
  destruct (client_event_inv fx (ev_client e) st (s_tab s) e st' t' sent W Vc CE) as [W' [V' I']].
  split; [|exact I']. split; [exact W'|]. intros i y H.
  apply nth_error_set_nth in H. destruct H as [[E1 E2]|[E1 E2]].
  - subst. rewrite N2Nat.id. exact V'.
  - apply V. exact E2.
Qed.

(* C13, "all of a cache's VRPs are removed when its session ends": closing or cancelling
   a live client removes every VRP of its cache, the client terminates (up = false), and a
   terminated client never touches the table again *)
Theorem C13_session_end_clears : forall (fx : fixes) (s : sys) (c : N) (e : event) (st : cstate),
  sys_ok s -> (e = EClose c \/ e = ECancel c) ->
  nth_error (s_clients s) (N.to_nat c) = Some st -> c_done st = false ->
  let s' := fst (sys_event fx s e) in
  (forall x, cache_of x = c -> ~ tmem (s_tab s') x)
  /\ (exists st', nth_error (s_clients s') (N.to_nat c) = Some st' /\ c_done st' = true /\ c_up st' = false)
  /\ forall e', ev_client e' = c -> s_tab (fst (sys_event fx s' e')) = s_tab s'.
Proof.
  intros fx s c e st [W V] He Hn Hd s'.
  assert (Hs : exists st1, s' = {| s_clients := set_nth (N.to_nat c) st1 (s_clients s); s_tab := drop_source c (s_tab s) |}
                           /\ c_done st1 = true /\ c_up st1 = false).
  { unfold s', sys_event. destruct He as [He|He]; subst e; cbn [ev_client]; rewrite Hn;
      unfold client_event; rewrite Hd; unfold finish_session; cbn [fst]; eexists; (split; [reflexivity|split; reflexivity]). }
  destruct Hs as [st1 [Es [D1 U1]]].
  assert (Nth : nth_error (s_clients s') (N.to_nat c) = Some st1).
  { rewrite Es. cbn [s_clients]. clear -Hn. revert Hn. generalize (N.to_nat c) as n. generalize (s_clients s) as l.
    induction l as [|a l IH]; intros n H; destruct n; cbn in *; try discriminate; [reflexivity|apply IH; exact H]. }
  split; [|split].
  - intros x Hx. rewrite Es. cbn [s_tab]. rewrite drop_spec by exact W. intros [H _]. apply H. exact Hx.
  - exists st1. split; [exact Nth|split; assumption].
  - intros e' He'. unfold sys_event. rewrite He', Nth. unfold client_event. rewrite D1. reflexivity.
Qed.

(* Before fix 27cfc94: the End of Data closing an incremental round re-installs the
   initial snapshot *)
Definition n4' (a b c d m : N) : net := {| n_fam := F4; n_addr := [a; b; c; d]; n_mask := m |}.

Definition refute_msgs : list msg :=
  [CacheResponse 7; IpPrefix (n4' 10 0 0 0 8) 1 24 65001; IpPrefix (n4' 10 1 0 0 16) 1 16 65002;
   EndOfData 7 100 0 0 0;
   CacheResponse 7; IpPrefix (n4' 10 2 0 0 16) 1 16 65003; IpPrefix (n4' 10 1 0 0 16) 0 16 65002;
   EndOfData 7 101 0 0 0].

Lemma C13_installed_eq_fold_pre_refuted :
  conforming (map view refute_msgs)
  /\ let '(st, t) := run_pdus prefix_code 0 refute_msgs c_init rtab_new in
     c_eod st = true
     /\ announced (map view refute_msgs) (n4' 10 2 0 0 16, 16, 65003)
     /\ ~ installed 0 t (n4' 10 2 0 0 16, 16, 65003)
     /\ ~ announced (map view refute_msgs) (n4' 10 1 0 0 16, 16, 65002)
     /\ installed 0 t (n4' 10 1 0 0 16, 16, 65002).
Proof.
  split; [cbn; exact I|].
  cbn [run_pdus refute_msgs].
  vm_compute run_pdus. cbv beta iota.
  split; [reflexivity|].
  split; [cbn; split; [discriminate|left; reflexivity]|].
  split.
  { unfold installed, tmem, mem. cbn [elt_of fst snd sel n_fam n4']. intros [e [H Hin]]. vm_compute in H. discriminate H. }
  split.
  { cbn. intros [H _]. apply H. reflexivity. }
  unfold installed, tmem, mem. cbn [elt_of fst snd sel n_fam n4']. eexists. split; [vm_compute; reflexivity|]. left. reflexivity.
Qed.

(* non-vacuity of the fold theorem: the same conforming sequence on the fixed code *)
Example C13_fold_example :
  conforming (map view refute_msgs) /\ seen_eod (map view refute_msgs)
  /\ wf_tab rtab_new.
Proof. split; [cbn; exact I|]. split; [cbn; auto 10|apply wf_new]. Qed.
