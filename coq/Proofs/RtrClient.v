(* Proofs for property C13: after the first End of Data (hence after each one) the
   VRPs installed for a cache are the fold of its responses; other caches' VRPs
   are untouched; everything of a cache is removed when its session ends; the
   codec consumes every well-framed PDU under any fragmentation. *)
From Coq Require Import List Arith NArith Bool Lia ZifyBool ZifyNat ZifyN.
From RB Require Import Base.Val Model.Rpki Model.RtrClient Spec.Rfc6811 Spec.RtrSpec
  Proofs.RpkiTrie Proofs.Rpki.
Import ListNotations.
Open Scope N_scope.

(* ---- views *)
Definition view (m : msg) : pdu_view :=
  match m with
  | IpPrefix n flags mx asn => if 0 <? N.land flags 1 then PAnnounce (n, mx, asn) else PWithdraw (n, mx, asn)
  | EndOfData _ _ _ _ _ => PEndOfData
  | _ => POther
  end.

(* the VRPs installed on behalf of cache c, as records *)
Definition installed (c : N) (t : rtab) (r : rec) : Prop := tmem t (elt_of c r).

Lemma elt_of_inj : forall c r1 r2, elt_of c r1 = elt_of c r2 -> r1 = r2.
Proof.
  intros c [[n1 mx1] a1] [[n2 mx2] a2] H. unfold elt_of, mk_roa, key_of in H. cbn [fst snd] in H.
  injection H as Hf Hk Hm Ha. apply app_inj_tail in Hk. destruct Hk as [Hadr Hmask].
  destruct n1, n2. cbn in *. subst. reflexivity.
Qed.

Lemma cache_of_elt : forall c r, cache_of (elt_of c r) = c.
Proof. intros c [[n mx] a]. reflexivity. Qed.

(* ---- PDU-level runs *)
Fixpoint run_msgs (fx : fixes) (c : N) (ms : list msg) (st : cstate) (t : rtab) : cstate * rtab :=
  match ms with
  | [] => (st, t)
  | m :: rest => let '(st', t', _) := on_msg fx c st t m in run_msgs fx c rest st' t'
  end.

Definition v_recs (c : N) (v : list (net * roa)) (r : rec) : Prop :=
  In (fst (fst r), mk_roa c (snd (fst r)) (snd r)) v.

Lemma reset_spec : forall c v t x, wf_tab t ->
  (tmem (reset c v t) x
   <-> In x (map (fun nr => (n_fam (fst nr), key_of (fst nr), snd nr)) v) \/ (cache_of x <> c /\ tmem t x)).
Proof. intros c v t x W. unfold reset. rewrite fold_insert_spec, drop_spec by exact W. reflexivity. Qed.

Lemma reset_wf : forall c v t, wf_tab t -> wf_tab (reset c v t).
Proof. intros c v t W. unfold reset. apply fold_insert_wf, drop_wf. exact W. Qed.

Definition v_ok (c : N) (st : cstate) : Prop := Forall (fun nr => r_src (snd nr) = c) (c_v st).

Lemma v_ok_init : forall c, v_ok c c_init.
Proof. intro c. constructor. Qed.

(* wf, the shape of v and isolation for one message, any fix setting *)
Lemma on_msg_inv : forall fx c st t m st' t' out,
  wf_tab t -> v_ok c st -> on_msg fx c st t m = (st', t', out) ->
  wf_tab t' /\ v_ok c st' /\ forall x, cache_of x <> c -> (tmem t' x <-> tmem t x).
Proof.
  intros fx c st t m st' t' out W V H.
  assert (RS : wf_tab (reset c (c_v st) t) /\ forall x, cache_of x <> c -> (tmem (reset c (c_v st) t) x <-> tmem t x)).
  { split; [apply reset_wf; exact W|]. intros x Hx. rewrite reset_spec by exact W. split; [|tauto].
    intros [Hin|[_ Hm]]; [|exact Hm]. exfalso. apply in_map_iff in Hin. destruct Hin as [[n r] [E Hin]].
    unfold v_ok in V. rewrite Forall_forall in V. specialize (V (n, r) Hin). cbn [fst snd] in *. subst x.
    apply Hx. unfold cache_of. cbn. exact V. }
  destruct m as [sid serial|sid serial| |sid|n flags mx asn|sid serial a b d| |code]; cbn [on_msg] in H.
  - destruct (c_eod st && negb (serial =? c_serial st)); inversion H; subst; (split; [exact W|split; [exact V|tauto]]).
  - inversion H; subst. split; [exact W|split; [exact V|tauto]].
  - inversion H; subst. split; [exact W|split; [exact V|tauto]].
  - inversion H; subst. split; [exact W|split; [exact V|tauto]].
  - destruct (0 <? N.land flags 1); destruct (c_eod st); inversion H; subst; clear H.
    + split; [apply insert_wf; exact W|]. split; [exact V|]. intros x Hx. rewrite insert_spec. split; [|tauto].
      intros [E|E]; [|exact E]. subst x. exfalso. apply Hx. reflexivity.
    + split; [exact W|]. split; [|tauto]. unfold v_ok, set_core. cbn [c_v]. apply Forall_app. split; [exact V|].
      constructor; [reflexivity|constructor].
    + split; [apply remove_wf; exact W|]. split; [exact V|]. intros x Hx. rewrite remove_spec by exact W. split; [tauto|].
      intro E. split; [|exact E]. intro E2. subst x. apply Hx. reflexivity.
    + split; [exact W|split; [exact V|tauto]].
  - destruct (fx_eod fx); [destruct (c_eod st)|]; inversion H; subst; clear H.
    + split; [exact W|split; [exact V|tauto]].
    + split; [apply RS|]. split; [constructor|apply RS].
    + split; [apply RS|]. split; [exact V|apply RS].
  - inversion H; subst. split; [exact W|split; [exact V|tauto]].
  - inversion H; subst. split; [exact W|split; [exact V|tauto]].
Qed.

(* ---- the fold invariant of the fixed code *)
Definition fold_inv (c : N) (st : cstate) (t : rtab) (F : rec -> Prop) : Prop :=
  if c_eod st then forall r, installed c t r <-> F r
  else forall r, v_recs c (c_v st) r <-> F r.

Definition view_ok (eod : bool) (p : pdu_view) : Prop :=
  match p with PWithdraw _ => eod = true | _ => True end.

Definition fold_step (p : pdu_view) (F : rec -> Prop) : rec -> Prop :=
  match p with
  | PAnnounce r => fun x => x = r \/ F x
  | PWithdraw r => fun x => x <> r /\ F x
  | _ => F
  end.

Lemma fold_cache_step : forall p ps F, fold_cache (p :: ps) F = fold_cache ps (fold_step p F).
Proof. intros [r|r| |] ps F; reflexivity. Qed.

Lemma net_key_inj : forall n1 n2, n_fam n1 = n_fam n2 -> key_of n1 = key_of n2 -> n1 = n2.
Proof.
  intros [f1 a1 m1] [f2 a2 m2] Hf Hk. unfold key_of in Hk. cbn in *. apply app_inj_tail in Hk. destruct Hk. subst. reflexivity.
Qed.

Lemma in_map_elt : forall c v r,
  In (elt_of c r) (map (fun nr => (n_fam (fst nr), key_of (fst nr), snd nr)) v) <-> v_recs c v r.
Proof.
  intros c v [[n mx] asn]. unfold v_recs, elt_of. cbn [fst snd]. rewrite in_map_iff. split.
  - intros [[n' ro] [E Hin]]. cbn [fst snd] in E. injection E as Hf Hk Hr. subst ro.
    rewrite (net_key_inj n' n Hf Hk) in Hin. exact Hin.
  - intro H. exists (n, mk_roa c mx asn). split; [reflexivity|exact H].
Qed.

Lemma installed_reset : forall c v t r, wf_tab t -> (installed c (reset c v t) r <-> v_recs c v r).
Proof.
  intros c v t r W. unfold installed. rewrite reset_spec by exact W. rewrite in_map_elt, cache_of_elt. tauto.
Qed.

Lemma on_msg_fold : forall c st t m st' t' out F,
  wf_tab t -> fold_inv c st t F -> view_ok (c_eod st) (view m) ->
  on_msg fixed c st t m = (st', t', out) ->
  fold_inv c st' t' (fold_step (view m) F)
  /\ c_eod st' = (c_eod st || match view m with PEndOfData => true | _ => false end).
Proof.
  intros c st t m st' t' out F W I VO H. unfold fold_inv in *.
  destruct m as [sid serial|sid serial| |sid|n flags mx asn|sid serial a b d| |code]; cbn [on_msg view fixed fx_eod] in *.
  - destruct (c_eod st && negb (serial =? c_serial st)); inversion H; subst; cbn [fold_step]; rewrite orb_false_r; (split; [exact I|reflexivity]).
  - inversion H; subst. cbn [fold_step]. rewrite orb_false_r. split; [exact I|reflexivity].
  - inversion H; subst. cbn [fold_step]. rewrite orb_false_r. split; [exact I|reflexivity].
  - inversion H; subst. cbn [fold_step set_core c_eod c_v]. rewrite orb_false_r. split; [exact I|reflexivity].
  - destruct (0 <? N.land flags 1); cbn [fold_step view_ok] in *.
    + destruct (c_eod st) eqn:E; inversion H; subst; clear H; cbn [set_core c_eod c_v]; rewrite ?E, ?orb_false_r; (split; [|reflexivity]).
      * intro r. unfold installed. rewrite insert_spec. change (n_fam n, key_of n, mk_roa c mx asn) with (elt_of c (n, mx, asn)).
        rewrite <- (I r). unfold installed. split; [intros [H|H]; [left; apply (elt_of_inj c); exact H|right; exact H]|intros [H|H]; [left; subst; reflexivity|right; exact H]].
      * intro r. unfold v_recs. rewrite in_app_iff. rewrite <- (I r). unfold v_recs. cbn [In]. split.
        -- intros [H|[H|[]]]; [right; exact H|left]. destruct r as [[n' mx'] asn']. cbn [fst snd] in H. unfold mk_roa in H. injection H as H1 H2 H3. subst. reflexivity.
        -- intros [H|H]; [right; left; subst; reflexivity|left; exact H].
    + rewrite VO in *. inversion H; subst; clear H. rewrite VO. rewrite orb_false_r. split; [|reflexivity].
      intro r. unfold installed. rewrite remove_spec by exact W. change (n_fam n, key_of n, mk_roa c mx asn) with (elt_of c (n, mx, asn)).
      rewrite <- (I r). unfold installed. split; [intros [H1 H2]; split; [intro; subst; apply H1; reflexivity|exact H2]|intros [H1 H2]; split; [intro E; apply H1; apply (elt_of_inj c); exact E|exact H2]].
  - cbn [fold_step]. destruct (c_eod st) eqn:E; inversion H; subst; clear H; cbn [set_core c_eod c_v]; rewrite ?orb_true_r; (split; [|reflexivity]).
    + exact I.
    + intro r. rewrite installed_reset by exact W. apply I.
  - inversion H; subst. cbn [fold_step]. rewrite orb_false_r. split; [exact I|reflexivity].
  - inversion H; subst. cbn [fold_step]. rewrite orb_false_r. split; [exact I|reflexivity].
Qed.

Definition conforming_from (eod : bool) (ps : list pdu_view) : Prop := eod = true \/ conforming ps.

Lemma fold_cache_ext : forall ps F G, (forall r, F r <-> G r) -> forall r, fold_cache ps F r <-> fold_cache ps G r.
Proof.
  induction ps as [|p ps IH]; intros F G H r; [apply H|]. destruct p as [x|x| |]; cbn [fold_cache]; apply IH; intro y; rewrite ?H; tauto.
Qed.

Lemma run_msgs_fold : forall ms c st t F,
  wf_tab t -> v_ok c st -> fold_inv c st t F -> conforming_from (c_eod st) (map view ms) ->
  let '(st', t') := run_msgs fixed c ms st t in
  fold_inv c st' t' (fold_cache (map view ms) F) /\ wf_tab t' /\ v_ok c st'
  /\ (c_eod st' = true <-> c_eod st = true \/ seen_eod (map view ms)).
Proof.
  induction ms as [|m ms IH]; intros c st t F W V I C.
  - cbn. split; [exact I|]. split; [exact W|]. split; [exact V|]. unfold seen_eod. cbn. tauto.
  - cbn [run_msgs map]. destruct (on_msg fixed c st t m) as [[st1 t1] out] eqn:E.
    destruct (on_msg_inv fixed c st t m st1 t1 out W V E) as [W1 [V1 _]].
    assert (VO : view_ok (c_eod st) (view m)).
    { destruct C as [C|C]; [destruct (view m); cbn; auto|]. cbn [map conforming] in C. destruct (view m); cbn; auto; try contradiction. }
    destruct (on_msg_fold c st t m st1 t1 out F W I VO E) as [I1 E1].
    assert (C1 : conforming_from (c_eod st1) (map view ms)).
    { rewrite E1. destruct C as [C|C]; [left; rewrite C; reflexivity|]. cbn [map conforming] in C.
      destruct (view m); try (right; exact C); try contradiction. left. apply orb_true_r. }
    specialize (IH c st1 t1 (fold_step (view m) F) W1 V1 I1 C1).
    destruct (run_msgs fixed c ms st1 t1) as [st' t']. destruct IH as [I' [W' [V' S']]].
    split; [rewrite fold_cache_step; exact I'|]. split; [exact W'|]. split; [exact V'|].
    rewrite S', E1. unfold seen_eod. cbn [In]. rewrite orb_true_iff.
    destruct (view m); split; intro H; try tauto; try (destruct H as [[H|H]|H]; try discriminate; tauto);
      try (destruct H as [H|[H|H]]; try discriminate; tauto).
Qed.

(* C13, first sentence, at the level of decoded PDUs: for every PDU sequence of a
   conforming cache, once an End of Data has been received (in particular right after
   each End of Data) the VRPs installed for that cache are exactly the fold of its
   responses, whatever the table held before *)
Theorem C13_installed_eq_fold_at_eod : forall (c : N) (ms : list msg) (t0 : rtab),
  wf_tab t0 -> conforming (map view ms) ->
  let '(st, t) := run_msgs fixed c ms c_init t0 in
  (c_eod st = true <-> seen_eod (map view ms))
  /\ (c_eod st = true -> forall r, installed c t r <-> announced (map view ms) r).
Proof.
  intros c ms t0 W C.
  pose proof (run_msgs_fold ms c c_init t0 (fun _ => False) W (v_ok_init c)) as H.
  assert (I0 : fold_inv c c_init t0 (fun _ => False)) by (unfold fold_inv, v_recs; cbn; tauto).
  specialize (H I0 (or_intror C)).
  destruct (run_msgs fixed c ms c_init t0) as [st t]. destruct H as [I [_ [_ S]]].
  split; [rewrite S; cbn; split; [intros [H|H]; [discriminate|exact H]|intro H; right; exact H]|].
  intros E r. unfold fold_inv in I. rewrite E in I. apply I.
Qed.

(* other caches' VRPs are untouched by any PDU sequence, fixed or not *)
Lemma run_msgs_iso : forall fx ms c st t, wf_tab t -> v_ok c st ->
  let '(st', t') := run_msgs fx c ms st t in
  wf_tab t' /\ v_ok c st' /\ forall x, cache_of x <> c -> (tmem t' x <-> tmem t x).
Proof.
  induction ms as [|m ms IH]; intros c st t W V; [cbn; split; [exact W|split; [exact V|tauto]]|].
  cbn [run_msgs]. destruct (on_msg fx c st t m) as [[st1 t1] out] eqn:E.
  destruct (on_msg_inv fx c st t m st1 t1 out W V E) as [W1 [V1 I1]].
  specialize (IH c st1 t1 W1 V1). destruct (run_msgs fx c ms st1 t1) as [st' t']. destruct IH as [W' [V' I']].
  split; [exact W'|split; [exact V'|]]. intros x Hx. rewrite I', I1 by exact Hx. reflexivity.
Qed.
