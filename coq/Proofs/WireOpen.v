(* C03, BGP part: the OPEN arm of parse_message (optional-parameter and
   capability loops) never panics, in either build profile. *)
From Coq Require Import List NArith ZArith Bool Lia ZifyBool ZifyNat ZifyN.
From RB Require Import Base.Val Base.Bytes Model.Caps Model.Stream Model.Wire Model.WireNlri Model.WireUpdate Model.WireMsg Proofs.Wire.
Import ListNotations.
Open Scope N_scope.

Ltac Zify.zify_post_hook ::= Z.to_euclidean_division_equations.

Lemma get8_ok c : 1 <= len c -> exists x c', get8 c = Some (x, c') /\ len c = len c' + 1.
Proof. destruct c as [|a r]; [rewrite len_nil; lia|]. intros _. exists a, r. split; [reflexivity|apply len_cons]. Qed.

Lemma get16_ok c : 2 <= len c -> exists x c', get16 c = Some (x, c') /\ len c = len c' + 2.
Proof.
  destruct c as [|a [|b r]]; rewrite ?len_cons, ?len_nil; try lia. intros _.
  exists (be16 a b), r. split; [reflexivity|lia].
Qed.

Lemma caps_loop_spec p : forall fuel c crem acc as4,
  (length c < fuel)%nat -> crem <= len c ->
  nopanic (caps_loop fuel p c crem acc as4) /\
  forall acc' as4' c', caps_loop fuel p c crem acc as4 = Ok (acc', as4', c') -> len c = len c' + crem.
Proof.
  induction fuel as [|f IH]; intros c crem acc as4 Hf Hc; [lia|].
  cbn [caps_loop].
  destruct (crem =? 0) eqn:E0.
  { split; [exact I|]. intros ? ? ? H. injection H as _ _ <-. lia. }
  destruct (crem <? 2) eqn:E2; [split; [exact I|discriminate]|].
  destruct (get8_ok c ltac:(lia)) as (ct & c1 & G1 & L1). rewrite G1. cbn [must bind].
  destruct (get8_ok c1 ltac:(lia)) as (cl & c2 & G2 & L2). rewrite G2. cbn [must bind].
  destruct (crem - 2 <? cl) eqn:E3; [split; [exact I|discriminate]|].
  destruct (cap_decode_spec p ct c2 cl) as [Np Hd].
  destruct (cap_decode p ct c2 cl) as [[cp c3]| |] eqn:Ed; cbn [bind]; [|split; [exact I|discriminate]|destruct Np].
  destruct (Hd cp c3 eq_refl) as [Hle Hused].
  assert (Hf' : (length c3 < f)%nat).
  { pose proof (len_length c). pose proof (len_length c3). lia. }
  destruct (IH c3 (crem - 2 - (len c2 - len c3)) (acc ++ [cp])
               (match cp with CFourOctet a => a | _ => as4 end) Hf' ltac:(lia)) as [Np' Hr].
  split; [exact Np'|].
  intros acc' as4' c' H. apply Hr in H. lia.
Qed.

Lemma params_loop_spec p : forall fuel c prem acc as4,
  (length c < fuel)%nat -> prem <= len c -> nopanic (params_loop fuel p c prem acc as4).
Proof.
  induction fuel as [|f IH]; intros c prem acc as4 Hf Hc; [lia|].
  cbn [params_loop].
  destruct (prem =? 0) eqn:E0; [exact I|].
  destruct (prem <? 2) eqn:E2; [exact I|].
  destruct (get8_ok c ltac:(lia)) as (ot & c1 & G1 & L1). rewrite G1. cbn [must bind].
  destruct (get8_ok c1 ltac:(lia)) as (ol & c2 & G2 & L2). rewrite G2. cbn [must bind].
  destruct (prem - 2 <? ol) eqn:E3; [exact I|].
  destruct (ot =? 2).
  - destruct (caps_loop_spec p (S (length c2)) c2 ol acc as4 ltac:(lia) ltac:(lia)) as [Np Hr].
    destruct (caps_loop (S (length c2)) p c2 ol acc as4) as [[[acc' as4'] c3]| |] eqn:Ec; cbn [bind];
      [|exact I|destruct Np].
    specialize (Hr _ _ _ eq_refl).
    apply IH; [|lia].
    pose proof (len_length c). pose proof (len_length c3). lia.
  - destruct (Nat.ltb (length c2) (nat_of ol)) eqn:E4; [|exact I].
    apply PeanoNat.Nat.ltb_lt in E4. unfold nat_of in E4. pose proof (len_length c2). lia.
Qed.

(* a list with at least n+1 elements *)
Lemma uncons (l : list N) : 1 <= len l -> exists a r, l = a :: r /\ len l = len r + 1.
Proof. destruct l as [|a r]; [rewrite len_nil; lia|]. intros _. exists a, r. split; [reflexivity|apply len_cons]. Qed.

Lemma parse_open_nopanic p hdr frame : nopanic (parse_open p hdr frame).
Proof.
  unfold parse_open.
  destruct (len frame <? 29) eqn:E; [exact I|].
  pose proof (len_skipn 19 frame) as Hs.
  remember (skipn 19 frame) as b eqn:Hb. clear Hb.
  assert (Hlen : len b = len frame - 19) by lia. clear Hs.
  do 10 (let a := fresh "x" in let r := fresh "r" in let Hl := fresh "Hl" in
         destruct (uncons b ltac:(lia)) as (a & r & -> & Hl); rename r into b).
  destruct (negb (x =? 4)); [exact I|].
  destruct (_ || _); [exact I|].
  destruct (_ || _); [exact I|].
  destruct (len frame <? 29 + x8) eqn:E2; [exact I|].
  apply np_bind; [|intros [? ?] _; exact I].
  apply params_loop_spec; [lia|].
  rewrite !len_cons in *. lia.
Qed.

(* ---- the build profile does not matter to the OPEN arm (hence to parse_message / try_parse) *)
Lemma cap_decode_profile code c clen : cap_decode Debug code c clen = cap_decode Release code c clen.
Proof.
  unfold cap_decode. destruct (N.eq_dec code 64) as [->|Hn].
  - destruct (negb (clen mod 4 =? 2)) eqn:E; [reflexivity|].
    assert (H2 : 2 <= clen) by lia. rewrite !(sub_w_ok _ clen 2 H2). reflexivity.
  - destruct code as [|q]; [reflexivity|].
    do 8 (destruct q as [q|q|]; try reflexivity; try congruence).
Qed.

Lemma caps_loop_profile : forall fuel c crem acc as4,
  caps_loop fuel Debug c crem acc as4 = caps_loop fuel Release c crem acc as4.
Proof.
  induction fuel as [|f IH]; intros; cbn [caps_loop]; [reflexivity|].
  destruct (crem =? 0); [reflexivity|]. destruct (crem <? 2); [reflexivity|].
  destruct (get8 c) as [[ct c1]|]; cbn [must bind]; [|reflexivity].
  destruct (get8 c1) as [[cl c2]|]; cbn [must bind]; [|reflexivity].
  destruct (_ <? _); [reflexivity|]. rewrite cap_decode_profile.
  destruct (cap_decode Release ct c2 cl) as [[cp c3]| |]; cbn [bind]; try reflexivity. apply IH.
Qed.

Lemma params_loop_profile : forall fuel c prem acc as4,
  params_loop fuel Debug c prem acc as4 = params_loop fuel Release c prem acc as4.
Proof.
  induction fuel as [|f IH]; intros; cbn [params_loop]; [reflexivity|].
  destruct (prem =? 0); [reflexivity|]. destruct (prem <? 2); [reflexivity|].
  destruct (get8 c) as [[ot c1]|]; cbn [must bind]; [|reflexivity].
  destruct (get8 c1) as [[ol c2]|]; cbn [must bind]; [|reflexivity].
  destruct (_ <? _); [reflexivity|]. destruct (ot =? 2); [|reflexivity].
  rewrite caps_loop_profile.
  destruct (caps_loop _ Release c2 ol acc as4) as [[[a b] c3]| |]; cbn [bind]; try reflexivity. apply IH.
Qed.

Lemma parse_open_profile hdr frame : parse_open Debug hdr frame = parse_open Release hdr frame.
Proof.
  unfold parse_open. destruct (len frame <? 29); [reflexivity|].
  destruct (skipn 19 frame) as [|ver [|a1 [|a2 [|h1 [|h2 [|r1 [|r2 [|r3 [|r4 [|plen c]]]]]]]]]]; try reflexivity.
  destruct (negb _); [reflexivity|]. destruct (_ || _); [reflexivity|]. destruct (_ || _); [reflexivity|].
  destruct (_ <? _); [reflexivity|]. rewrite params_loop_profile. reflexivity.
Qed.

Lemma try_parse_profile_indep other cd src : try_parse other Debug cd src = try_parse other Release cd src.
Proof.
  unfold try_parse, parse_message.
  destruct (len src <? 19); [reflexivity|].
  destruct (nth_error src 16); [|reflexivity]. destruct (nth_error src 17); [|reflexivity].
  destruct (_ || _); [reflexivity|]. destruct (len src <? _); [reflexivity|].
  destruct (len _ <? 19); [reflexivity|].
  destruct (nth_error _ 18) as [code|]; cbn [must bind]; [|reflexivity].
  destruct (nth_error _ 16); cbn [must bind]; [|reflexivity].
  destruct (nth_error _ 17); cbn [must bind]; [|reflexivity].
  destruct (N.eq_dec code 1) as [->|Hn]; [rewrite parse_open_profile; reflexivity|].
  destruct code as [|q]; [reflexivity|].
  do 3 (destruct q as [q|q|]; try reflexivity; try congruence).
Qed.
